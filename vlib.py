#!/usr/bin/env python3
"""Shared machinery for the /verif checks (python3 stdlib only).

Flow of every property check (see DESIGN.md §1.4):
  1. regenerate lean/UrcuVerif/Gen/*.lean from /repo's working tree (translator part of the tie)
  2. `lake build` the property's Lean modules (theorems re-checked against generated data)
  3. audit: no sorry/admit/axiom/native_decide..., `#print axioms` of every property theorem
  4. build the C harness from /repo's *current* sources, run it, pipe traces to the Lean driver
     (correspondence part of the tie) and evaluate implementation oracles
  5. write evidence/<id>.json; on failure write a replay file and print the VIOLATION line
"""
import hashlib
import json
import os
import random
import re
import shutil
import subprocess
import sys
import time

ROOT = os.path.dirname(os.path.abspath(__file__))
REPO = os.environ.get("VERIF_REPO", "/repo")
LEAN = os.path.join(ROOT, "lean")
BUILD = os.path.join(ROOT, "build")
EVID = os.path.join(ROOT, "evidence")
REPLAY = os.path.join(EVID, "replay")
HARN = os.path.join(ROOT, "harness")
ALLOWED_AXIOMS = {"propext", "Classical.choice", "Quot.sound"}
NCPU = os.cpu_count() or 4

CFLAGS_REPO = ["-I", os.path.join(REPO, "include"), "-I", os.path.join(REPO, "src"),
               "-I", os.path.join(HARN, "rt"), "-D_GNU_SOURCE"]


def rsrc(*names):
    return [os.path.join(REPO, "src", n) for n in names]


LFHT_SRCS = rsrc("rculfhash-mm-order.c", "rculfhash-mm-chunk.c", "rculfhash-mm-mmap.c", "workqueue.c",
                 "compat_arch.c", "compat_futex.c")


def seed():
    try:
        return int(os.environ.get("VERIF_SEED", "1"))
    except ValueError:
        return 1


def sh(cmd, timeout=600, cwd=None, env=None, inp=None):
    """Run a command, return (rc, stdout+stderr). rc=124 on timeout."""
    e = dict(os.environ)
    if env:
        e.update(env)
    try:
        p = subprocess.run(cmd, cwd=cwd, env=e, input=inp, stdout=subprocess.PIPE,
                           stderr=subprocess.STDOUT, timeout=timeout,
                           shell=isinstance(cmd, str))
        return p.returncode, p.stdout.decode("utf-8", "replace")
    except subprocess.TimeoutExpired as ex:
        out = ex.stdout.decode("utf-8", "replace") if ex.stdout else ""
        return 124, out + "\n[timeout after %ss]" % timeout


def sh2(cmd, timeout=600, cwd=None, env=None, inp=None):
    """Like sh but keeps stdout and stderr apart: (rc, out, err)."""
    e = dict(os.environ)
    if env:
        e.update(env)
    try:
        p = subprocess.run(cmd, cwd=cwd, env=e, input=inp, stdout=subprocess.PIPE,
                           stderr=subprocess.PIPE, timeout=timeout, shell=isinstance(cmd, str))
        return p.returncode, p.stdout.decode("utf-8", "replace"), p.stderr.decode("utf-8", "replace")
    except subprocess.TimeoutExpired as ex:
        out = ex.stdout.decode("utf-8", "replace") if ex.stdout else ""
        return 124, out, "[timeout after %ss]" % timeout


def ensure_dirs():
    for d in (BUILD, EVID, REPLAY):
        os.makedirs(d, exist_ok=True)


def write_if_changed(path, text):
    try:
        with open(path) as f:
            if f.read() == text:
                return False
    except FileNotFoundError:
        pass
    os.makedirs(os.path.dirname(path), exist_ok=True)
    tmp = path + ".tmp%d" % os.getpid()
    with open(tmp, "w") as f:
        f.write(text)
    os.replace(tmp, path)
    return True


# ----------------------------------------------------------------------------------------------
# C building
# ----------------------------------------------------------------------------------------------

def cc(out, srcs, flags=(), cxx=False, timeout=300):
    """Compile+link srcs into BUILD/out. Returns (ok, log)."""
    ensure_dirs()
    comp = "g++" if cxx else "gcc"
    cmd = [comp, "-O1", "-g", "-pthread"] + CFLAGS_REPO + list(flags) + ["-o", os.path.join(BUILD, out)] + list(srcs)
    rc, log = sh(cmd, timeout=timeout)
    return rc == 0, log


# ----------------------------------------------------------------------------------------------
# Translator part: constants and tables regenerated from /repo on every run
# ----------------------------------------------------------------------------------------------

def gen_constants():
    """Regenerate Gen/Constants.lean and Gen/BitRev.lean from /repo's working tree (serialised with the
    lake lock: concurrent checks share build/ and lean/UrcuVerif/Gen).  Returns (ok, log)."""
    import fcntl
    ensure_dirs()
    lockf = open(os.path.join(BUILD, "lake.lock"), "w")
    fcntl.flock(lockf, fcntl.LOCK_EX)
    try:
        return _gen_constants()
    finally:
        fcntl.flock(lockf, fcntl.LOCK_UN)
        lockf.close()


def _gen_constants():
    ensure_dirs()
    gc_c = os.path.join(BUILD, "gen_constants.c")
    rc, log = sh([sys.executable, os.path.join(HARN, "gen", "gen_constants.py"), gc_c], timeout=60)
    if rc != 0:
        return False, "gen_constants.py failed: " + log
    ok, log = cc("gen_constants", [gc_c], ["-w"])
    if not ok:
        return False, "generated constants file does not compile against /repo:\n" + log
    rc, out, err = sh2([os.path.join(BUILD, "gen_constants")], timeout=60)
    if rc != 0:
        return False, "gen_constants failed rc=%d\n%s%s" % (rc, out, err)
    write_if_changed(os.path.join(LEAN, "UrcuVerif", "Gen", "Constants.lean"), out)
    ok, log = cc("gen_bitrev", [os.path.join(HARN, "gen", "gen_bitrev.c")] + LFHT_SRCS, ["-w"])
    if not ok:
        return False, "gen_bitrev.c does not compile against /repo:\n" + log
    rc, out, err = sh2([os.path.join(BUILD, "gen_bitrev")], timeout=60)
    if rc != 0:
        return False, "gen_bitrev failed rc=%d\n%s%s" % (rc, out, err)
    write_if_changed(os.path.join(LEAN, "UrcuVerif", "Gen", "BitRev.lean"), out)
    return True, ""


def gen_src():
    """Regenerate Gen/Src.lean (IR of /repo's static-inline primitives, harness/gen/gen_src.py) from the working tree.
    Returns (ok, log, info) – ok False when a listed function left the translatable subset or the constants do not
    compile; info = {"translated": n, "untranslated": [...]}"""
    import fcntl
    ensure_dirs()
    lockf = open(os.path.join(BUILD, "lake.lock"), "w")
    fcntl.flock(lockf, fcntl.LOCK_EX)
    try:
        gen = os.path.join(HARN, "gen", "gen_src.py")
        tmp_lean = os.path.join(BUILD, "Src.lean.gen")
        c_file = os.path.join(BUILD, "gen_src_consts.c")
        txt = os.path.join(BUILD, "gen_src_consts.txt")
        rc, out, err = sh2([sys.executable, gen, tmp_lean, c_file], timeout=120)
        if rc != 0:
            return False, "gen_src.py pass 1 failed: " + out + err, {}
        out = ""
        for cf in sorted(x for x in os.listdir(BUILD) if x.startswith("gen_src_consts") and x.endswith(".c")):
            exe = cf[:-2].replace(".", "_")
            # the program only prints constants: symbols of other library objects its included .c file refers to stay unresolved
            # the programs only print constants; the one in the hash table's context is linked with the other objects
            # rculfhash.c refers to (the functions stay uncalled)
            extra = (LFHT_SRCS + rsrc("urcu.c") if "rculfhash" in cf else [])
            ok, log = cc(exe, [os.path.join(BUILD, cf)] + extra, ["-w"] + (["-DRCU_MEMBARRIER"] if extra else []))
            if not ok:
                return False, "constants / zero-offset assertions of gen_src (%s) do not compile against /repo:\n" % cf + log, {}
            rc, o1, err2 = sh2([os.path.join(BUILD, exe)], timeout=60)
            if rc != 0:
                return False, "gen_src_consts (%s) failed" % cf, {}
            out += o1
        with open(txt, "w") as f:
            f.write(out)
        rc, out, err = sh2([sys.executable, gen, tmp_lean, c_file, txt], timeout=120)
        if rc != 0:
            return False, "gen_src.py pass 2 failed: " + out + err, {}
        text = open(tmp_lean).read()
        write_if_changed(os.path.join(LEAN, "UrcuVerif", "Gen", "Src.lean"), text)
        un = [l for l in err.splitlines() if l.startswith("gen_src:")]
        info = {"translated": text.count("\ndef «") // 2, "untranslated": un}
        return (not un), "\n".join(un), info
    finally:
        fcntl.flock(lockf, fcntl.LOCK_UN)
        lockf.close()


_lake_lock = None


def lake_build(targets, timeout=3000):
    """lake build <targets>; returns (ok, log). Serialised across concurrent checks by flock."""
    import fcntl
    ensure_dirs()
    lockf = open(os.path.join(BUILD, "lake.lock"), "w")
    fcntl.flock(lockf, fcntl.LOCK_EX)
    try:
        rc, log = sh(["lake", "build"] + list(targets), cwd=LEAN, timeout=timeout)
    finally:
        fcntl.flock(lockf, fcntl.LOCK_UN)
        lockf.close()
    return rc == 0, log


def lean_run(text, timeout=600):
    """Elaborate a scratch Lean file inside the project environment. Returns (rc, out)."""
    ensure_dirs()
    p = os.path.join(BUILD, "scratch_%d_%d.lean" % (os.getpid(), random.randrange(1 << 30)))
    with open(p, "w") as f:
        f.write(text)
    import fcntl
    lockf = open(os.path.join(BUILD, "lake.lock"), "w")
    fcntl.flock(lockf, fcntl.LOCK_EX)
    try:
        return sh(["lake", "env", "lean", p], cwd=LEAN, timeout=timeout)
    finally:
        fcntl.flock(lockf, fcntl.LOCK_UN)
        lockf.close()
        try:
            os.unlink(p)
        except OSError:
            pass


_COMMENT_BLOCK = re.compile(r"/-.*?-/", re.S)
_COMMENT_LINE = re.compile(r"--.*?$", re.M)
_FORBIDDEN = re.compile(r"\b(sorry|admit|native_decide|bv_decide|implemented_by)\b|^\s*axiom\s|\bunsafe\s|maxHeartbeats\s+0\b", re.M)


def strip_lean_comments(src):
    # nested block comments are rare in this code base; strip repeatedly
    prev = None
    while prev != src:
        prev = src
        src = _COMMENT_BLOCK.sub(" ", src)
    return _COMMENT_LINE.sub("", src)


def lean_sources(mods):
    """Files of the given module prefixes (e.g. 'UrcuVerif.Poll') under LEAN."""
    files = []
    for m in mods:
        base = os.path.join(LEAN, *m.split("."))
        if os.path.isfile(base + ".lean"):
            files.append(base + ".lean")
        if os.path.isdir(base):
            for dp, _, fns in os.walk(base):
                for fn in sorted(fns):
                    if fn.endswith(".lean"):
                        files.append(os.path.join(dp, fn))
    return files


def grep_audit(mods):
    """Forbidden constructs outside comments in the given modules. Returns list of hits."""
    hits = []
    for f in lean_sources(mods):
        with open(f) as fh:
            src = strip_lean_comments(fh.read())
        for m in _FORBIDDEN.finditer(src):
            hits.append("%s: %s" % (os.path.relpath(f, LEAN), m.group(0).strip()))
    return hits


def axioms_audit(module, theorems, timeout=600):
    """#print axioms for each theorem. Returns (ok, {thm: [axioms]}, log)."""
    mods = module if isinstance(module, (list, tuple)) else [module]
    text = "".join("import %s\n" % m for m in mods) + "".join("#print axioms %s\n" % t for t in theorems)
    rc, out = lean_run(text, timeout=timeout)
    res = {}
    # output: 'thm' depends on axioms: [a, b]   |   'thm' does not depend on any axioms
    for m in re.finditer(r"^'(.+?)' depends on axioms: \[([^\]]*)\]", out, re.S | re.M):
        res[m.group(1)] = [a.strip() for a in m.group(2).replace("\n", " ").split(",") if a.strip()]
    for m in re.finditer(r"^'(.+?)' does not depend on any axioms", out, re.M):
        res[m.group(1)] = []
    ok = rc == 0
    for t in theorems:
        short = t
        if short not in res:
            # lean prints the fully qualified name
            cand = [k for k in res if k.endswith(short) or short.endswith(k)]
            if cand:
                res[short] = res[cand[0]]
            else:
                ok = False
                continue
        if not set(res[short]) <= ALLOWED_AXIOMS:
            ok = False
    return ok, res, out


def leanchecker(module, timeout=1800):
    rc, out = sh(["lake", "env", "leanchecker", module], cwd=LEAN, timeout=timeout)
    return rc == 0, out


# ----------------------------------------------------------------------------------------------
# Known findings, evidence, violations
# ----------------------------------------------------------------------------------------------

def known_findings(pid):
    """Entries of known_findings.txt for this property: list of (kind, key, text).
    Lines: `KNOWN-FINDING: property=<id> key=<key> <what fails>` or `fixed: property=<id> ...`."""
    res = []
    p = os.path.join(ROOT, "known_findings.txt")
    if not os.path.exists(p):
        return res
    for ln in open(p):
        ln = ln.strip()
        if not ln or ln.startswith("#"):
            continue
        m = re.match(r"(KNOWN-FINDING|fixed):\s+property=(\S+)\s+(.*)$", ln)
        if m and m.group(2) == pid:
            rest = m.group(3)
            km = re.match(r"key=(\S+)\s*(.*)$", rest)
            res.append((m.group(1), km.group(1) if km else "", km.group(2) if km else rest))
    return res


class Check:
    """Accumulates results of one property check and writes evidence / replay."""

    def __init__(self, pid, tier, level="proof"):
        ensure_dirs()
        self.pid = pid
        self.tier = tier
        self.level = level
        self.seed = seed()
        self.t0 = time.time()
        self.cov = {"obligations": 0, "discharged": 0, "checker_cmd": "", "trusted_base": [],
                    "samples": [], "evaluations": 0, "distinct_nontrivial": 0, "rule": ""}
        self.assumptions = []
        self.violations = []  # list of dict(replay objects)
        self.known_hit = []
        self.notes = []
        self.rng = random.Random(self.seed * 1000003 + int(hashlib.sha1(pid.encode()).hexdigest()[:6], 16))
        # replay files of earlier runs of this check are stale once it runs again
        for fn in os.listdir(REPLAY):
            if fn.startswith(pid + "-") and fn.endswith(".json"):
                try:
                    os.unlink(os.path.join(REPLAY, fn))
                except OSError:
                    pass

    # --- proof part -------------------------------------------------------------------------
    def proof_part(self, targets, prop_module, theorems, audit_mods, unproved=(), thorough_checker=True):
        """Regenerate Gen, build, audit. Returns True when all obligations discharged."""
        ok, log = gen_constants()
        if not ok:
            self.fail("theorem", {"theorem": "Gen.Constants (translator)", "lean_error": log[-4000:]}, nofail=True)
            return False
        ok, log = lake_build(targets)
        self.cov["checker_cmd"] = "cd lean && lake build " + " ".join(targets)
        self.cov["obligations"] += len(theorems) + 1
        if not ok:
            errs = "\n".join(l for l in log.splitlines() if "error" in l.lower())[:3000]
            self.fail("theorem", {"theorem": _first_broken(log), "lean_error": errs or log[-3000:]}, nofail=True)
            self._lean_log = log
            return False
        hits = grep_audit(audit_mods)
        if hits:
            self.fail("audit", {"theorem": "audit", "lean_error": "forbidden constructs: " + "; ".join(hits)}, nofail=True)
            return False
        ok, axs, out = axioms_audit(prop_module, theorems)
        self.cov["axioms"] = axs
        if not ok:
            self.fail("audit", {"theorem": "axioms", "lean_error": out[-3000:]}, nofail=True)
            return False
        self.cov["discharged"] += len(theorems) + 1
        self.cov["theorems"] = list(theorems)
        self.cov["unproved_full_statements"] = list(unproved)
        if self.tier == "thorough" and thorough_checker:
            for pm in (prop_module if isinstance(prop_module, (list, tuple)) else [prop_module]):
                ok, out = leanchecker(pm)
                self.cov["leanchecker"] = "ok" if ok else out[-500:]
                self.cov["checker_cmd"] += " && lake env leanchecker " + pm
                if not ok:
                    self.fail("audit", {"theorem": "leanchecker " + pm, "lean_error": out[-3000:]}, nofail=True)
                    return False
        return True

    # --- liveness under explicit fairness (Machine/Fair.lean + Props/Live*.lean) ---------------------------------
    LIVE = {
        "C02": (["UrcuVerif.Props.LiveC02", "UrcuVerif.Props.LiveC02Gp", "UrcuVerif.Props.LiveC02Qsbr"],
                ["UrcuVerif.Gp.synchronize_rcu_eventually_returns", "UrcuVerif.Gp.tracked_gp_eventually_done",
                 "UrcuVerif.Gp.registration_churn_must_stop", "UrcuVerif.Qsbr.qsbr_synchronize_rcu_eventually_returns",
                 "UrcuVerif.Handshake.leader_eventually_woken", "UrcuVerif.Handshake.readers_eventually_done",
                 "UrcuVerif.Handshake.gp_eventually_completes", "UrcuVerif.WaitNode.leader_eventually_done",
                 "UrcuVerif.WaitNode.waiter_eventually_woken", "UrcuVerif.WaitNode.waiter_eventually_returns",
                 "UrcuVerif.QsbrHs.qsbr_leader_eventually_woken"]),
        "C03": (["UrcuVerif.Props.LiveC03", "UrcuVerif.Props.LiveC03Full", "UrcuVerif.Props.LiveC03E2E"],
                ["UrcuVerif.CallRcu.callback_eventually_invoked_from_call", "UrcuVerif.CallRcu.callback_eventually_invoked",
                 "UrcuVerif.CallRcu.queued_callback_eventually_invoked_any", "UrcuVerif.CallRcu.running_callback_eventually_finishes",
                 "UrcuVerif.CallRcuWake.tso_helper_eventually_wakes", "UrcuVerif.CallRcu.helper_eventually_wakes",
                 "UrcuVerif.CallRcu.batched_callback_eventually_invoked", "UrcuVerif.CallRcu.queued_callback_eventually_invoked",
                 "UrcuVerif.CallRcu.C03_full_false"]),
        "C04": (["UrcuVerif.Props.LiveC04", "UrcuVerif.Props.LiveC04E2E"],
                ["UrcuVerif.CallRcu.barrier_eventually_returns_from_call", "UrcuVerif.CallRcu.barrier_eventually_returns_from_wait",
                 "UrcuVerif.CallRcu.barrier_eventually_returns"]),
        "C13": (["UrcuVerif.Props.LiveC13"],
                ["UrcuVerif.DeferWake.defer_thread_eventually_woken", "UrcuVerif.C13_conc_live_proved", "UrcuVerif.C13_conc_full_proved"]),
        "C14": (["UrcuVerif.Props.LiveC14"], ["UrcuVerif.Poll.poll_eventually_true", "UrcuVerif.Poll.poll_eventually_true_of_gp"]),
        "C16": (["UrcuVerif.Props.LiveC16", "UrcuVerif.Props.LiveC16E2E"],
                ["UrcuVerif.Fork.C16_full'_proved", "UrcuVerif.Fork.C16_full_parent'_proved", "UrcuVerif.Fork.child_callbacks_eventually_invoked",
                 "UrcuVerif.Fork.parent_callbacks_eventually_invoked", "UrcuVerif.Fork.after_fork_child_eventually_returns",
                 "UrcuVerif.Fork.afc_exit"]),
    }
    FAIR = ["UrcuVerif.Fair.fair_measure_leadsto", "UrcuVerif.Fair.fair_measure_leadsto_family", "UrcuVerif.Fair.fair_measure_leadsTo",
            "UrcuVerif.Fair.measure_leadsto_core"]

    def live_part(self, pid=None):
        """'eventually' theorems: fairness and environment assumptions are explicit hypotheses on the (infinite) run.
        Adds their obligations to this check, keeping the theorem / axiom lists of the earlier proof parts."""
        pid = pid or self.pid
        if pid not in self.LIVE:
            return True
        mods, thms = self.LIVE[pid]
        th, ax, un = list(self.cov.get("theorems", [])), dict(self.cov.get("axioms", {})), list(self.cov.get("unproved_full_statements", []))
        cmd = self.cov.get("checker_cmd", "")
        ok = self.proof_part(mods + ["UrcuVerif.Machine.Fair"], mods + ["UrcuVerif.Machine.Fair"], thms + self.FAIR,
                             mods + ["UrcuVerif.Machine.Fair"], unproved=[])
        self.cov["theorems"] = th + [t for t in self.cov.get("theorems", []) if t not in th]
        ax.update(self.cov.get("axioms", {}))
        self.cov["axioms"] = ax
        self.cov["unproved_full_statements"] = un
        self.cov["liveness_theorems"] = thms
        if cmd:
            self.cov["checker_cmd"] = cmd + " ; " + self.cov.get("checker_cmd", "")
        return ok

    # --- results ----------------------------------------------------------------------------
    def fail(self, kind, info, nofail=False, key=None):
        """Record a violation. `key` identifies the failing input for known-findings matching."""
        if key is not None:
            for k, kk, txt in known_findings(self.pid):
                if k == "KNOWN-FINDING" and kk == key:
                    if key not in [x[0] for x in self.known_hit]:
                        self.known_hit.append((key, txt))
                    return
        d = {"property": self.pid, "kind": kind, "seed": self.seed, "tier": self.tier,
             "no_failing_input_found": bool(nofail)}
        d.update(info)
        self.violations.append(d)

    def sample(self, s):
        if len(self.cov["samples"]) < 6:
            self.cov["samples"].append(s)

    def finish(self):
        wall = time.time() - self.t0
        cov = self.cov
        if not cov.get("rule"):
            cov["rule"] = "see explanation"
        ev = {"property_id": self.pid, "tier": self.tier, "seed": self.seed, "level": self.level,
              "coverage": cov, "assumptions": self.assumptions, "wall_s": round(wall, 2),
              "violations": len(self.violations)}
        if self.notes:
            ev["coverage"]["notes"] = self.notes
        for key, txt in self.known_hit:
            print("KNOWN-FINDING: property=%s %s %s" % (self.pid, key, txt))
        rc = 0
        for i, v in enumerate(self.violations):
            path = os.path.join(REPLAY, "%s-%s-%d-%d.json" % (self.pid, v["kind"], self.seed, i))
            with open(path, "w") as f:
                json.dump(v, f, indent=1, default=str)
            tail = " no-failing-input-found" if v.get("no_failing_input_found") else ""
            print("VIOLATION property=%s replay=%s%s" % (self.pid, path, tail))
            rc = 1
        with open(os.path.join(EVID, "%s.json" % self.pid), "w") as f:
            json.dump(ev, f, indent=1, default=str)
        print("%s %s tier=%s seed=%d wall=%.1fs obligations=%d/%d evaluations=%d" % (
            self.pid, "FAIL" if rc else "ok", self.tier, self.seed, wall, cov.get("discharged", 0),
            cov.get("obligations", 0), cov.get("evaluations", 0)))
        return rc


def _first_broken(log):
    m = re.search(r"error: ([^\n]*)", log)
    f = re.search(r"([\w/]+\.lean):(\d+):(\d+)", log)
    return (f.group(0) if f else "?") + " " + (m.group(1)[:200] if m else "")


def fingerprint(path, funcs=None):
    """Whitespace/comment-normalised hash of a source file (escalation trigger, never an alarm)."""
    try:
        src = open(os.path.join(REPO, path)).read()
    except OSError:
        return None
    src = re.sub(r"/\*.*?\*/", " ", src, flags=re.S)
    src = re.sub(r"//[^\n]*", " ", src)
    src = re.sub(r"\s+", " ", src)
    return hashlib.sha1(src.encode()).hexdigest()[:16]
