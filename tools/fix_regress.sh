#!/bin/sh
# For every `fix:` commit of /repo: revert it in a scratch worktree and confirm the check of its property reports the violation again
# (a `fixed:` entry in known_findings.txt suppresses nothing).  usage: fix_regress.sh [scratch-dir]
D=${1:-/tmp/mut-base}
cd /verif
for pair in f1fb047:C09 dde5cdf:C13 87e4726:C12 928caa3:C12 760a93b:C15 2a4f551:C20 1436da4:C16; do
  h=${pair%%:*}; p=${pair#*:}
  (cd $D && git checkout -q -- src include && git revert --no-commit $h >/dev/null 2>&1 && git reset -q >/dev/null 2>&1)
  out=$(VERIF_REPO=$D python3 check.py $p --tier quick 2>&1 | grep -E "^VIOLATION|^$p (ok|FAIL)" | head -3 | tr '\n' ' ')
  echo "revert $h ($p): $out"
  (cd $D && git checkout -q -- src include)
done
for p in C09 C13 C12 C15 C20 C16; do python3 check.py $p --tier quick >/dev/null 2>&1; done
echo DONE
