#!/bin/sh
# usage: mk_scratch.sh <dir>   — scratch git worktree of /repo HEAD, configured and built from scratch (outside /repo and /verif)
set -e
D=${1:?dir}
git -C /repo worktree add --detach "$D" HEAD >/dev/null 2>&1
cd "$D"
# generated autotools files are untracked in /repo: copy them (not the build products), then configure here
for f in configure aclocal.m4 Makefile.in config; do [ -e "$f" ] || cp -a /repo/$f . ; done
( cd /repo && find . -name Makefile.in -not -path './.git/*' ) | while read f; do [ -e "$f" ] || cp /repo/$f $f; done
[ -e include/urcu/config.h.in ] || cp /repo/include/urcu/config.h.in include/urcu/ 2>/dev/null || true
[ -e include/config.h.in ] || cp /repo/include/config.h.in include/ 2>/dev/null || true
./configure >/dev/null 2>&1 || { ./bootstrap >/dev/null 2>&1 && ./configure >/dev/null 2>&1; }
make -j8 >/dev/null 2>&1
echo "scratch tree ready: $D"
