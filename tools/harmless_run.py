#!/usr/bin/env python3
"""Run the checks against semantics-preserving patches (false-alarm test).
usage: harmless_run.py <mutdir>  (mutdir/OUT/<k>/patch.diff).  A concrete failing input reported for a harmless patch is a
false alarm of my machinery; a divergence with no-failing-input-found is the accepted price of a trace tie."""
import json, os, subprocess, sys
PLAN = {"1": ["C01", "C02", "C15", "C19"], "2": ["C01", "C19", "C17", "C15"], "3": ["C03", "C04", "C16", "C14"],
        "4": ["C08", "C09", "C05", "C06", "C07"], "5": ["C10", "C11", "C17", "C03"], "6": ["C12", "C17"], "7": ["C13"], "8": ["C20", "C03"]}
def sh(cmd, cwd=None, env=None, timeout=7200):
    e = dict(os.environ); e.update(env or {})
    p = subprocess.run(cmd, shell=True, cwd=cwd, env=e, stdout=subprocess.PIPE, stderr=subprocess.STDOUT, timeout=timeout)
    return p.returncode, p.stdout.decode("utf-8", "replace")
def main():
    mutdir = sys.argv[1]
    only = sys.argv[2:] 
    claimed = {c["property_id"] for c in json.load(open("/verif/MANIFEST.json"))["checks"]}
    res = {}
    for k in sorted(PLAN):
        if only and k not in only: continue
        pd = os.path.join(mutdir, "OUT", k, "patch.diff")
        if not os.path.exists(pd): continue
        sh("git checkout -q -- src include", cwd=mutdir)
        rc, o = sh("git apply %s && make -j8 >/dev/null 2>&1" % pd, cwd=mutdir)
        if rc: res[k] = "patch/build failed: " + o[-200:]; continue
        res[k] = {}
        for c in PLAN[k]:
            if c not in claimed: continue
            rc, o = sh("python3 check.py %s --tier quick" % c, cwd="/verif", env={"VERIF_REPO": mutdir})
            v = [l for l in o.splitlines() if l.startswith("VIOLATION")]
            concrete = [l for l in v if "no-failing-input-found" not in l]
            info = {"rc": rc, "violations": len(v), "concrete": len(concrete)}
            for l in concrete[:1]:
                try:
                    d = json.load(open(l.split("replay=")[1].split()[0]))
                    info["what"] = str(d.get("what", d.get("theorem", "")))[:500]
                except Exception as ex:
                    info["what"] = str(ex)
            for l in v[:1]:
                if not concrete:
                    try:
                        d = json.load(open(l.split("replay=")[1].split()[0]))
                        info["div"] = (str(d.get("driver", "")) + str(d.get("what", "")) + str(d.get("theorem", "")))[:400]
                    except Exception as ex:
                        info["div"] = str(ex)
            res[k][c] = info
            print(k, c, info, flush=True)
        sh("git checkout -q -- src include", cwd=mutdir)
    sh("make -j8 >/dev/null 2>&1", cwd=mutdir)
    for c in sorted({c for k in PLAN for c in PLAN[k]} & claimed):
        sh("python3 check.py %s --tier quick" % c, cwd="/verif")
    json.dump(res, open("/verif/build/harmless_result.json", "w"), indent=1)
main()
