#!/usr/bin/env python3
"""Which of the archived independently seeded changes (seeded/*/patch.diff) are caught by the source-translator tie alone
(translator error, or a refinement theorem `generated IR ⊑ L2` that no longer checks)?

Runs in a COPY of /verif (argument 1) so that the shared lean/UrcuVerif/Gen/Src.lean is never regenerated from a mutated
tree, against a scratch worktree of /repo (argument 2; left clean).  Writes seeded/SRC_MATRIX.json in the ORIGINAL /verif.
usage: src_mut.py /tmp/verif-mut /tmp/mut-harmless [name-filter]"""
import json, os, re, subprocess, sys, time

ORIG = os.path.dirname(os.path.dirname(os.path.abspath(__file__)))
RELEVANT = re.compile(r"^\+\+\+ b/(include/urcu/static/|include/urcu/ref\.h|include/urcu/uatomic/api\.h|src/urcu\.c|src/urcu-qsbr\.c|"
                      r"src/urcu-bp\.c|src/rculfhash\.c|src/urcu-poll-impl\.h|src/urcu-wait\.h|src/urcu-defer-impl\.h|src/urcu-call-rcu-impl\.h|src/workqueue\.c)", re.M)


def sh(cmd, cwd=None, env=None, timeout=3600):
    e = dict(os.environ)
    e.update(env or {})
    p = subprocess.run(cmd, shell=True, cwd=cwd, env=e, stdout=subprocess.PIPE, stderr=subprocess.STDOUT, timeout=timeout)
    return p.returncode, p.stdout.decode("utf-8", "replace")


def main():
    copy, scratch = sys.argv[1], sys.argv[2]
    flt = sys.argv[3] if len(sys.argv) > 3 else ""
    prev = {}
    if flt.endswith(".json"):
        # re-run only the entries a previous matrix lists as "pass" (more refinement modules exist now); results are merged
        prev = json.load(open(flt))
        flt = ""
    mods = [m[:-5] for m in sorted(os.listdir(os.path.join(copy, "lean", "UrcuVerif", "Props"))) if m.startswith("Src") and m.endswith(".lean")]
    targets = " ".join("UrcuVerif.Props." + m for m in mods)
    out = {"modules": mods, "results": {}}
    names = sorted(d for d in os.listdir(os.path.join(ORIG, "seeded")) if os.path.exists(os.path.join(ORIG, "seeded", d, "patch.diff")))
    for d in names:
        if flt and flt not in d:
            continue
        if prev and d in prev.get("results", {}) and prev["results"][d].get("result") != "pass":
            out["results"][d] = prev["results"][d]
            continue
        patch = os.path.join(ORIG, "seeded", d, "patch.diff")
        if not RELEVANT.search(open(patch).read()):
            continue
        sh("git checkout -q -- src include", cwd=scratch)
        rc, o = sh("git apply %s" % patch, cwd=scratch)
        if rc != 0:
            out["results"][d] = {"result": "patch-does-not-apply"}
            continue
        t0 = time.time()
        rc, o = sh("python3 -c \"import vlib; r=vlib.gen_src(); print('GENOK' if r[0] else 'GENFAIL', r[1][:600])\"", cwd=copy,
                   env={"VERIF_REPO": scratch})
        if "GENOK" not in o:
            out["results"][d] = {"result": "translator", "detail": o.strip()[-400:], "wall_s": round(time.time() - t0)}
        else:
            rc, o = sh("lake build %s 2>&1 | grep -E 'error|✖' | head -6" % targets, cwd=os.path.join(copy, "lean"))
            if o.strip():
                first = re.search(r"([\w/]+\.lean):(\d+)", o)
                out["results"][d] = {"result": "theorem", "detail": (first.group(0) if first else "") + " " + o.strip()[:300],
                                     "wall_s": round(time.time() - t0)}
            else:
                out["results"][d] = {"result": "pass", "wall_s": round(time.time() - t0)}
        print(d, out["results"][d]["result"], out["results"][d].get("detail", "")[:120], flush=True)
    sh("git checkout -q -- src include", cwd=scratch)
    summary = {}
    for r in out["results"].values():
        summary[r["result"]] = summary.get(r["result"], 0) + 1
    out["summary"] = summary
    with open(os.path.join(ORIG, "seeded", "SRC_MATRIX.json"), "w") as f:
        json.dump(out, f, indent=1)
    print(summary)


if __name__ == "__main__":
    main()
