#!/usr/bin/env python3
"""Validate an independently produced breaking change and archive it under seeded/.
usage: seed_validate.py <mutdir> <k> <PROP> <name> [--checks C01,C02]
  mutdir: /tmp/mut-XXX (a full copy of /repo with OUT/<k>/{patch.diff,run.sh,...}); a pristine copy <mutdir>-base is
  created if absent.  Steps: apply patch on a clean tree, build, run the existing test suite, run the demo on both
  trees, run our check(s) with VERIF_REPO pointing at the patched tree, restore Gen/ by a run on /repo."""
import json, os, shutil, subprocess, sys, time

def sh(cmd, cwd=None, env=None, timeout=3600):
    e = dict(os.environ); e.update(env or {})
    p = subprocess.run(cmd, shell=True, cwd=cwd, env=e, stdout=subprocess.PIPE, stderr=subprocess.STDOUT, timeout=timeout)
    return p.returncode, p.stdout.decode("utf-8", "replace")

def tap(tree):
    rc, out = sh("find tests -name '*.trs' -delete; find tests -name '*.log' -delete; make -k check > /tmp/seed_check.log 2>&1; find tests -name '*.log' | xargs grep -h '^ok ' | wc -l; find tests -name '*.log' | xargs grep -h '^not ok ' | wc -l", cwd=tree)
    nums = [int(x) for x in out.split() if x.isdigit()]
    return nums[-2:] if len(nums) >= 2 else nums

def main():
    mutdir, k, prop, name = sys.argv[1:5]
    checks = [prop]
    if "--checks" in sys.argv:
        checks = sys.argv[sys.argv.index("--checks") + 1].split(",")
    out = os.path.join(mutdir, "OUT", k)
    base = "/tmp/mut-base"     # shared pristine scratch worktree (tools/mk_scratch.sh)
    meta = {"property": prop, "name": name, "source": "independent sub-agent given only the property text", "validated_at": time.strftime("%F %T")}
    if not os.path.isdir(base):
        sh("/verif/tools/mk_scratch.sh %s" % base)
    # clean tree + patch
    rc, o = sh("git checkout -q -- src include doc 2>/dev/null; git apply %s/patch.diff" % out, cwd=mutdir)
    if rc != 0:
        print("patch does not apply:", o); return 2
    rc, o = sh("make -j8 2>&1 | tail -3", cwd=mutdir)
    meta["build_rc"] = rc
    meta["make_check_ok_notok"] = tap(mutdir)
    rc1, o1 = sh("sh %s/run.sh %s" % (out, mutdir), timeout=600)
    rc0, o0 = sh("sh %s/run.sh %s" % (out, base), timeout=600)
    meta["demo_on_patched_rc"] = rc1; meta["demo_on_base_rc"] = rc0
    meta["demo_on_patched_tail"] = o1.strip().splitlines()[-3:]
    res = {}
    for c in checks:
        rc, o = sh("python3 check.py %s --tier quick" % c, cwd="/verif", env={"VERIF_REPO": mutdir}, timeout=3000)
        lines = [l for l in o.splitlines() if l.startswith("VIOLATION") or l.startswith(c) or l.startswith("KNOWN")]
        res[c] = {"rc": rc, "lines": lines[-4:]}
        # keep the replay file content summary
        for l in lines:
            if l.startswith("VIOLATION") and "replay=" in l:
                rp = l.split("replay=")[1].split()[0]
                try:
                    d = json.load(open(rp))
                    res[c]["replay_kind"] = d.get("kind"); res[c]["what"] = str(d.get("what", d.get("theorem", "")))[:400]
                    res[c]["no_failing_input_found"] = d.get("no_failing_input_found")
                except Exception as ex:
                    res[c]["replay_err"] = str(ex)
    meta["checks"] = res
    # restore generated files / evidence against the real tree
    for c in checks:
        sh("python3 check.py %s --tier quick" % c, cwd="/verif", timeout=3000)
    dst = os.path.join("/verif/seeded", name)
    os.makedirs(dst, exist_ok=True)
    for f in os.listdir(out):
        p = os.path.join(out, f)
        if os.path.isfile(p) and os.path.getsize(p) < 200000:
            shutil.copy(p, dst)
    try:
        meta["needs"] = open(os.path.join(out, "notes.md")).read()[:1500]
    except OSError:
        pass
    json.dump(meta, open(os.path.join(dst, "meta.json"), "w"), indent=1)
    sh("git checkout -q -- src include doc 2>/dev/null", cwd=mutdir)
    print(json.dumps({k2: meta[k2] for k2 in ("make_check_ok_notok", "demo_on_patched_rc", "demo_on_base_rc", "checks")}, indent=1))
    return 0

if __name__ == "__main__":
    sys.exit(main())
