import UrcuVerif.Machine.Upd
import UrcuVerif.Gen.Constants
import UrcuVerif.Gen.BitRev
import UrcuVerif.Poll.Inv
import UrcuVerif.Props.C14
import UrcuVerif.Props.C01
