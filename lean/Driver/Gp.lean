import Driver.Prog
import UrcuVerif.Gp.Flip
import UrcuVerif.Gp.Qsbr
import UrcuVerif.Gen.Constants
/-!
Trace checker for `src/urcu.c` (memb / mb flavors): C01, C02, C15.

Every thread's event stream must be exactly what the transliterated C text below produces
(same accesses, same locations, same values, same barriers, same lock and futex calls, in the
same order).  At the accesses that matter for the grace-period guarantee the corresponding
label of the proven model `UrcuVerif.Gp` is replayed (flush-immediately mode: the harness run is
sequentially consistent) and must be enabled.
-/
open Driver UrcuVerif

namespace GpDrv

def PHASE : Nat := Gen.URCU_GP_CTR_PHASE
def NEST_MASK : Nat := Gen.URCU_GP_CTR_NEST_MASK
def ATTEMPTS : Nat := Gen.RCU_QS_ACTIVE_ATTEMPTS
def WAIT_ATTEMPTS : Nat := Gen.URCU_WAIT_ATTEMPTS
def WFS_ADAPT : Nat := Gen.CDS_WFS_ADAPT_ATTEMPTS
-- enum urcu_wait_state
def W_WAITING : Nat := 0
def W_WAKEUP : Nat := 1
def W_RUNNING : Nat := 2
def W_TEARDOWN : Nat := 4

structure G where
  c : Gp.Cfg := { n := 64, membarrier := true, slaveFence := false }
  s : Gp.State := Gp.init
  mb : Bool := false            -- mb flavor
  qsbr : Bool := false          -- qsbr flavor: model state is `q`
  bp : Bool := false            -- bp flavor (model state `s`, same algorithm as memb)
  q : Qsbr.State := Qsbr.init
  waiting : Nat → Nat := fun _ => 0
  legacyMb : Bool := true       -- CONFIG_RCU_EMIT_LEGACY_MB
  gpctr : Nat := 1
  futex : Int := 0
  rctr : Nat → Nat := fun _ => 0
  registry : List Nat := []
  curSnap : List Nat := []
  qs : List Nat := []
  waitHead : String := "1"                 -- waiters.head token; "1" = CDS_WFS_END
  nodeNext : Nat → String := fun _ => "0"  -- wait node of thread t: next token
  nodeState : Nat → Nat := fun _ => 0
  nodeOff : Nat → Nat := fun _ => 0          -- offset of the wait node inside its thread's stack region
  sleeping : List Nat := []                -- threads asleep in FUTEX_WAIT on gp.futex
  cov : List (String × Nat) := []

abbrev M := P G

def lab (l : Gp.Label) : M Unit := P.act fun g =>
  match Gp.step g.c g.s l with
  | some s' => .ok { g with s := s' }
  | none => .error s!"model step {repr l} not enabled (upc={repr g.s.upc})"

def cover (k : String) : M Unit := P.act fun g => .ok { g with cov := bump g.cov k }

def modify (f : G → G) : M Unit := P.act fun g => .ok (f g)

def num (s : String) : M Nat := match natOf s with
  | .ok n => pure n
  | .error e => P.fail e

def int (s : String) : M Int := match intOf s with
  | .ok n => pure n
  | .error e => P.fail e

/-- memory order on a load/store may be stronger than the model's (DESIGN §1.2) -/
def moOk (got : String) (want : Nat) : Bool := match got.toNat? with
  | some m => m ≥ want
  | none => false

def nodeOf (tok : String) : Option Nat :=
  -- "&stack7+123" ↦ 7
  if tok.startsWith "&stack" then
    ((tok.drop 6).toString.splitOn "+").head?.bind (·.toNat?)
  else none

def nodeOffOf (tok : String) : Nat :=
  match (tok.splitOn "+") with
  | [_, o] => o.toNat?.getD 0
  | _ => 0

/-- location names of the fields of thread `n`'s wait node (struct urcu_wait_node: next at 0, state at 8) -/
def nextLoc (g : G) (n : Nat) : String := s!"stack{n}+{g.nodeOff n}"
def stateLoc (g : G) (n : Nat) : String := s!"stack{n}+{g.nodeOff n + 8}"

/-- LD loc: returns the value token, checking mo ≥ want -/
def ld (loc : String) (want : Nat := 0) : M String := do
  let a ← P.evAt "LD" loc
  match a with
  | [v, mo] => if moOk mo want then pure v else P.fail s!"LD {loc}: memory order {mo} weaker than {want}"
  | _ => P.fail "bad LD"

def st (loc : String) (val : String) (want : Nat := 0) : M Unit := do
  let a ← P.evAt "ST" loc
  match a with
  | [v, mo] =>
    if v != val then P.fail s!"ST {loc}: stores {v}, model expects {val}"
    else if moOk mo want then pure () else P.fail s!"ST {loc}: memory order {mo} weaker than {want}"
  | _ => P.fail "bad ST"

def cb : M Unit := P.expect "CB" []
def mbEv : M Unit := P.expect "MB" []

def rword (t : Nat) : String := s!"reader{t}.ctr"

/-- slave barrier of the reader -/
def slave : M Unit := do
  let g ← P.get
  if g.c.slaveFence then
    P.ev "MB [reader slave fence]" fun e => if e.op == "MB" && e.args == [] then some () else none
  else cb

/-- forced fences of sys_membarrier on every reader (flush-immediately: nothing is buffered, the
steps only clear `pend`) -/
def forcedAll : Nat → M Unit
  | 0 => pure ()
  | n+1 => do
    forcedAll n
    let g ← P.get
    if g.s.pend n then lab (.forced n) else pure ()

/-- master barrier of the updater; `at1`/`at2`: it is the first / last one of a grace period -/
def master : M Unit := do
  let g ← P.get
  if g.c.membarrier then
    P.ev "MBAR cmd=8 [master barrier: sys_membarrier]" fun e => if e.op == "MBAR" && e.args == ["cmd=8"] then some () else none
  else mbEv
  cover "master"

-- ------------------------------------------------------------------------------------------
-- reader side
-- ------------------------------------------------------------------------------------------

/-- futex(FUTEX_WAKE, 1); on ENOSYS the real code falls back to compat_futex_async(WAKE) = mb -/
def futexWake (loc : String) : M Unit := do
  let r ← P.ev s!"FUTEX_WAKE {loc} n=1 -> k" fun e =>
    if e.op == "FUTEX_WAKE" && e.arg 0 == loc && e.arg 1 == "n=1" && e.arg 2 == "->" then some (e.arg 3) else none
  if r == "ENOSYS" then do mbEv; cover "futex_wake_ENOSYS"

def wakeUpGp (t : Nat) : M Unit := do
  let v ← ld "gp.futex"
  let f ← int v
  let g ← P.get
  if f != g.futex then P.fail s!"LD gp.futex {f} but model has {g.futex}"
  if f == -1 then do
    st "gp.futex" "0"
    modify fun g => { g with futex := 0 }
    futexWake "gp.futex"
    cover "reader_wakes_gp"
  else pure ()

def readLock (t : Nat) : M Unit := do
  cb
  let g ← P.get
  let tmp := g.rctr t
  if tmp % PHASE == 0 then do          -- !(tmp & NEST_MASK): outermost
    let v ← ld "gp.ctr"
    let gv ← num v
    let g ← P.get
    if gv != g.gpctr then P.fail s!"LD gp.ctr {gv} but model has {g.gpctr}"
    lab (.rLd t)
    st (rword t) (toString gv)
    modify fun g => { g with rctr := upd g.rctr t gv }
    lab (.rSt t); lab (.flush t)
    slave
    lab (.rEnter t)
    cover "lock_outer"
  else do
    st (rword t) (toString (tmp + 1))
    modify fun g => { g with rctr := upd g.rctr t (tmp + 1) }
    lab (.rInc t); lab (.flush t)
    cover "lock_nested"

def readUnlock (t : Nat) : M Unit := do
  let g ← P.get
  let tmp := g.rctr t
  if tmp % PHASE == 0 then P.fail "unlock with nesting 0"
  if tmp % PHASE == 1 then do
    if g.mb then do
      st (rword t) (toString (tmp - 1)) 5       -- CMM_SEQ_CST: store + fence
    else do
      slave
      st (rword t) (toString (tmp - 1))
    modify fun g => { g with rctr := upd g.rctr t (tmp - 1) }
    lab (.rUnlock t); lab (.flush t)
    if !g.mb then slave
    wakeUpGp t
    cover "unlock_outer"
  else do
    st (rword t) (toString (tmp - 1))
    modify fun g => { g with rctr := upd g.rctr t (tmp - 1) }
    lab (.rDec t); lab (.flush t)
    cover "unlock_nested"
  cb

def registerThread (t : Nat) : M Unit := do
  P.expect "LOCK" ["registry_lock"]
  lab (.reg t)
  modify fun g => { g with registry := t :: g.registry }
  P.expect "UNLOCK" ["registry_lock"]
  cover "register"

def unregisterThread (t : Nat) : M Unit := do
  P.expect "LOCK" ["registry_lock"]
  lab (.unreg t)
  modify fun g => { g with registry := g.registry.filter (· != t), curSnap := g.curSnap.filter (· != t),
                           qs := g.qs.filter (· != t) }
  P.expect "UNLOCK" ["registry_lock"]
  cover "unregister"

-- ------------------------------------------------------------------------------------------
-- updater side
-- ------------------------------------------------------------------------------------------

/-- FUTEX_WAIT on `loc` expecting `val`; returns the outcome token -/
def futexWait (loc : String) (val : String) : M String :=
  P.ev s!"FUTEX_WAIT {loc} val={val} -> …" fun e =>
    if e.op == "FUTEX_WAIT" && e.arg 0 == loc && e.arg 1 == s!"val={val}" && e.arg 2 == "->" then some (e.arg 3) else none

/-- compat_futex_async(FUTEX_WAIT): mb; while (load == val) poll -/
partial def compatWait (loc : String) (val : String) : M Unit := do
  mbEv
  let rec loop : M Unit := do
    let v ← ld loc
    if v == val then do
      -- poll(NULL, 0, 10): normally a delay; interrupted by a signal it fails with EINTR and compat_futex_async returns -1
      -- with poll's errno (every caller treats that like an EINTR of the futex: re-check and wait again)
      let intr ← P.ev "POLL | POLL_EINTR" fun e => if e.args == [] && e.op == "POLL" then some false
                                                     else if e.args == [] && e.op == "POLL_EINTR" then some true else none
      if intr then cover "compat_poll_EINTR" else loop
    else pure ()
  loop

/-- `wait_gp()` -/
partial def waitGp : M Unit := do
  master
  P.expect "UNLOCK" ["registry_lock"]
  let rec loop : M Unit := do
    let v ← ld "gp.futex"
    let f ← int v
    let g ← P.get
    if f != g.futex then P.fail s!"LD gp.futex {f} but model has {g.futex}"
    if f == -1 then do
      let o ← futexWait "gp.futex" "-1"
      cover s!"gp_futex_{o}"
      if o == "SLEEP" then do
        P.expect "FUTEX_WOKEN" ["gp.futex"]
        loop
      else if o == "SPURIOUS" then loop
      else if o == "EAGAIN" then pure ()
      else if o == "EINTR" then loop
      else if o == "ENOSYS" then do
        compatWait "gp.futex" "-1"
        loop            -- compat returns 0: `continue`
      else P.fail s!"unknown futex outcome {o}"
    else pure ()
  loop
  P.expect "LOCK" ["registry_lock"]

/-- classify one reader of the input list (`urcu_common_reader_state`) and move it -/
def scanOne (pass1 : Bool) (j : Nat) : M Unit := do
  let v ← ld (rword j)
  let w ← num v
  let g ← P.get
  if w != g.rctr j then P.fail s!"LD {rword j} {w} but model has {g.rctr j}"
  if w % PHASE == 0 then do                      -- INACTIVE
    if pass1 then lab (.uScan1Inactive j) else lab (.uScan2 j)
    modify fun g => { g with registry := g.registry.filter (· != j), curSnap := g.curSnap.filter (· != j), qs := j :: g.qs }
    cover "scan_inactive"
  else if (w / PHASE) % 2 == (g.gpctr / PHASE) % 2 then do   -- ACTIVE_CURRENT
    if pass1 then do
      lab (.uScan1Current j)
      modify fun g => { g with registry := g.registry.filter (· != j), curSnap := j :: g.curSnap }
    else do
      lab (.uScan2 j)
      modify fun g => { g with curSnap := g.curSnap.filter (· != j), qs := j :: g.qs }
    cover "scan_current"
  else do
    -- ACTIVE_OLD: stays; the model must agree that neither scan step is enabled
    if (Gp.step g.c g.s (if pass1 then .uScan1Current j else .uScan2 j)).isSome
       || (pass1 && (Gp.step g.c g.s (.uScan1Inactive j)).isSome) then
      P.fail s!"reader {j} classified ACTIVE_OLD but the model would move it"
    cover "scan_old"

def scanList (pass1 : Bool) : List Nat → M Unit
  | [] => pure ()
  | j :: js => do scanOne pass1 j; scanList pass1 js

/-- `wait_for_readers()` -/
partial def waitForReaders (pass1 : Bool) (waitLoops : Nat) : M Unit := do
  let wl := if waitLoops < ATTEMPTS then waitLoops + 1 else waitLoops
  if wl ≥ ATTEMPTS then do
    let a ← P.evAt "SUB" "gp.futex"
    let g ← P.get
    match a with
    | [d, r, _] =>
      let r ← int r
      if d != "1" || r != g.futex - 1 then P.fail s!"uatomic_dec(gp.futex): got {r}, model {g.futex - 1}"
      modify fun g => { g with futex := r }
    | _ => P.fail "bad SUB"
    master
    cover "futex_dec"
  let g ← P.get
  scanList pass1 (if pass1 then g.registry else g.curSnap)
  let g ← P.get
  let input := if pass1 then g.registry else g.curSnap
  if input.isEmpty then do
    if wl ≥ ATTEMPTS then do
      master
      st "gp.futex" "0"
      modify fun g => { g with futex := 0 }
  else do
    if wl ≥ ATTEMPTS then waitGp
    else do
      P.expect "UNLOCK" ["registry_lock"]
      P.expect "RELAX" []
      P.expect "LOCK" ["registry_lock"]
    waitForReaders pass1 wl

/-- `___cds_wfs_node_sync_next(node, blocking=1)` on the wait node of thread `n` -/
partial def syncNext (n : Nat) (attempt : Nat) : M String := do
  let g ← P.get
  let v ← ld (nextLoc g n) 1
  let g ← P.get
  if v != g.nodeNext n then P.fail s!"LD stack{n}.next {v} but model has {g.nodeNext n}"
  if v == "0" then do
    if attempt + 1 ≥ WFS_ADAPT then do P.expect "POLL" []; cover "wfs_sync_poll"; syncNext n 0
    else do P.expect "RELAX" []; cover "wfs_sync_relax"; syncNext n (attempt + 1)
  else pure v

/-- `urcu_adaptative_wake_up(wait)` for thread `n`'s node -/
def wakeUp (n : Nat) : M Unit := do
  let g ← P.get
  let loc := stateLoc g n
  let v ← ld loc; let w ← num v
  let g ← P.get
  if w != g.nodeState n then P.fail s!"LD {loc} {w} but model has {g.nodeState n}"
  if w != W_WAITING then P.fail s!"wake_up: state {w} is not WAITING (assert)"
  st loc (toString W_WAKEUP) 3
  modify fun g => { g with nodeState := upd g.nodeState n W_WAKEUP }
  let v ← ld loc; let w ← num v
  let g ← P.get
  if w != g.nodeState n then P.fail s!"LD {loc} {w} but model has {g.nodeState n}"
  if w / W_RUNNING % 2 == 0 then do
    futexWake loc
    cover "waiter_futex_wake"
  let a ← P.evAt "OR" loc
  let g ← P.get
  match a with
  | [m, r, mo] =>
    let r ← num r
    if m != toString W_TEARDOWN || r != g.nodeState n ||| W_TEARDOWN then P.fail s!"OR {loc}: got {m}->{r}"
    if !moOk mo 3 then P.fail s!"OR {loc}: memory order {mo} weaker than release"
    modify fun g => { g with nodeState := upd g.nodeState n r }
  | _ => P.fail "bad OR"

/-- `urcu_wake_all_waiters`: cds_wfs_for_each_blocking_safe -/
partial def wakeAll (cur : String) : M Unit := do
  -- `cur` = token of the current node (never END here)
  match nodeOf cur with
  | none => P.fail s!"waiter list holds an unknown node {cur}"
  | some n => do
    -- iter_n = cds_wfs_next_blocking(iter)
    let nx ← syncNext n 0
    let g ← P.get
    let v ← ld (stateLoc g n); let w ← num v
    let g ← P.get
    if w != g.nodeState n then P.fail s!"LD stack{n}.state {w} but model has {g.nodeState n}"
    if w / W_RUNNING % 2 == 1 then cover "wake_skip_running"
    else do wakeUp n; cover "wake_waiter"
    if nx == "1" then pure () else wakeAll nx

/-- waiter branch of synchronize_rcu: `urcu_adaptative_busy_wait(&wait)` -/
partial def busyWait (t : Nat) : M Unit := do
  let g0 ← P.get
  let loc := stateLoc g0 t
  let chk (v : String) : M Nat := do
    let w ← num v
    let g ← P.get
    if w != g.nodeState t then P.fail s!"LD {loc} {w} but model has {g.nodeState t}"
    pure w
  P.expect "RMB" []
  let rec spin (i : Nat) : M Bool := do      -- true: goto skip_futex_wait
    if i ≥ WAIT_ATTEMPTS then pure false else do
      let v ← ld loc 2; let w ← chk v
      if w != W_WAITING then pure true else do P.expect "RELAX" []; spin (i+1)
  let skip ← spin 0
  let rec fut : M Unit := do
    let v ← ld loc 2; let w ← chk v
    if w == W_WAITING then do
      let o ← futexWait loc "0"
      cover s!"waiter_futex_{o}"
      if o == "SLEEP" then do P.expect "FUTEX_WOKEN" [loc]; fut
      else if o == "SPURIOUS" then fut
      else if o == "EAGAIN" then pure ()
      else if o == "EINTR" then fut
      else if o == "ENOSYS" then do compatWait loc "0"; fut
      else P.fail s!"unknown futex outcome {o}"
    else pure ()
  if !skip then fut
  -- uatomic_or(&wait->state, URCU_WAIT_RUNNING)
  let a ← P.evAt "OR" loc
  let g ← P.get
  match a with
  | [m, r, _] =>
    let r ← num r
    if m != toString W_RUNNING || r != g.nodeState t ||| W_RUNNING then P.fail s!"OR {loc}: got {m}->{r}"
    modify fun g => { g with nodeState := upd g.nodeState t r }
  | _ => P.fail "bad OR"
  let rec spin2 (i : Nat) : M Unit := do
    if i ≥ WAIT_ATTEMPTS then pure () else do
      let v ← ld loc; let w ← chk v
      if w / W_TEARDOWN % 2 == 1 then pure () else do P.expect "RELAX" []; spin2 (i+1)
  spin2 0
  let rec pollLoop : M Unit := do
    let v ← ld loc 2; let w ← chk v
    if w / W_TEARDOWN % 2 == 1 then pure () else do P.expect "POLL" []; cover "waiter_teardown_poll"; pollLoop
  pollLoop
  let v ← ld loc; let w ← chk v       -- urcu_posix_assert(state & TEARDOWN)
  if w / W_TEARDOWN % 2 == 0 then P.fail "waiter returns before TEARDOWN"
  cover "merged_waiter"

partial def synchronizeRcu (t : Nat) : M Unit := do
  let g ← P.get
  -- urcu_wait_add = cds_wfs_push(&gp_waiters.stack, &wait.node)
  if g.legacyMb then mbEv
  let a ← P.evAt "XCHG" "waiters.head"
  let (newTok, oldTok) ← match a with
    | [n, o, mo] => if moOk mo 5 then pure (n, o) else P.fail "XCHG waiters.head: weaker than seq_cst"
    | _ => P.fail "bad XCHG"
  if nodeOf newTok != some t then P.fail s!"push: new head {newTok} is not this thread's wait node"
  let g ← P.get
  if oldTok != g.waitHead then P.fail s!"push: old head {oldTok}, model has {g.waitHead}"
  modify fun g => { g with waitHead := newTok, nodeNext := upd g.nodeNext t "0", nodeState := upd g.nodeState t W_WAITING,
                           nodeOff := upd g.nodeOff t (nodeOffOf newTok) }
  let g ← P.get
  st (nextLoc g t) oldTok 3
  modify fun g => { g with nodeNext := upd g.nodeNext t oldTok }
  if oldTok != "1" then do
    busyWait t
  else do
    -- leader
    modify fun g => { g with nodeState := upd g.nodeState t W_RUNNING }   -- plain store on own node
    P.expect "LOCK" ["gp_lock"]
    let a ← P.evAt "XCHG" "waiters.head"
    let g ← P.get
    let head ← match a with
      | [n, o, mo] =>
        if n != "1" then P.fail "pop_all: new head is not END"
        else if o != g.waitHead then P.fail s!"pop_all: old head {o}, model has {g.waitHead}"
        else if !moOk mo 5 then P.fail "pop_all: weaker than seq_cst" else pure o
      | _ => P.fail "bad XCHG"
    modify fun g => { g with waitHead := "1" }
    if g.legacyMb then mbEv
    P.expect "LOCK" ["registry_lock"]
    let g ← P.get
    if g.registry.isEmpty then do
      lab (.uStartEmpty false)
      cover "sync_empty_registry"
    else do
      master
      lab (.uStart false)
      if g.c.membarrier then forcedAll g.c.n
      lab .uMbarRet
      waitForReaders true 0
      cb; mbEv
      let g ← P.get
      let nv := if (g.gpctr / PHASE) % 2 == 0 then g.gpctr + PHASE else g.gpctr - PHASE
      st "gp.ctr" (toString nv)
      modify fun g => { g with gpctr := nv }
      lab .uFlip
      cb; mbEv
      waitForReaders false 0
      lab .uP2Done
      modify fun g => { g with registry := g.qs ++ g.registry, qs := [] }
      master
      let g ← P.get
      if g.c.membarrier then forcedAll g.c.n
      lab .uEnd
      cover "sync_full_gp"
    P.expect "UNLOCK" ["registry_lock"]
    P.expect "UNLOCK" ["gp_lock"]
    if head == "1" then P.fail "pop_all returned an empty list to the leader" else wakeAll head


-- ------------------------------------------------------------------------------------------
-- QSBR flavor (src/urcu-qsbr.c, include/urcu/static/urcu-qsbr.h)
-- ------------------------------------------------------------------------------------------

def labq (l : Qsbr.Label) : M Unit := P.act fun g =>
  match Qsbr.step { n := g.c.n } g.q l with
  | some s' => .ok { g with q := s' }
  | none => .error s!"qsbr model step {repr l} not enabled (upc={repr g.q.upc})"

/-- C counter value ↔ model counter: v = 2k-1 (ONLINE bit | k-1 increments of GP_CTR) -/
def qAbs (v : Nat) : Nat := if v == 0 then 0 else (v + 1) / 2

def wword (t : Nat) : String := s!"reader{t}.waiting"

/-- `urcu_qsbr_wake_up_gp()` -/
def qWakeUpGp (t : Nat) : M Unit := do
  let v ← ld (wword t); let w ← num v
  let g ← P.get
  if w != g.waiting t then P.fail s!"LD {wword t} {w} but model has {g.waiting t}"
  if w != 0 then do
    st (wword t) "0"
    modify fun g => { g with waiting := upd g.waiting t 0 }
    mbEv
    let v ← ld "gp.futex"; let f ← int v
    let g ← P.get
    if f != g.futex then P.fail s!"LD gp.futex {f} but model has {g.futex}"
    if f == -1 then do
      st "gp.futex" "0"
      modify fun g => { g with futex := 0 }
      futexWake "gp.futex"
      cover "reader_wakes_gp"
    else cover "reader_waiting_no_sleeper"

/-- store own word (seq_cst) and tell the model -/
def qStore (t : Nat) (v : Nat) (mo : Nat) : M Unit := do
  st (rword t) (toString v) mo
  modify fun g => { g with rctr := upd g.rctr t v }

def qThreadOffline (t : Nat) : M Unit := do
  qStore t 0 5
  labq (.qOff t); labq (.flush t)
  qWakeUpGp t
  cb
  labq (.qFence t)
  cover "offline"

def qThreadOnline (t : Nat) : M Unit := do
  cb
  let v ← ld "gp.ctr"; let gv ← num v
  let g ← P.get
  if gv != g.gpctr then P.fail s!"LD gp.ctr {gv} but model has {g.gpctr}"
  labq (.qLd t)
  qStore t gv 0
  labq (.qSt t); labq (.flush t)
  mbEv
  labq (.qFence t)
  cover "online"

def qQuiescentState (t : Nat) : M Unit := do
  let v ← ld "gp.ctr"; let gv ← num v
  let g ← P.get
  if gv != g.gpctr then P.fail s!"LD gp.ctr {gv} but model has {g.gpctr}"
  labq (.qLd t)
  if gv == g.rctr t then do
    labq (.qSkip t); cover "qs_skip"
  else do
    qStore t gv 5
    labq (.qSt t); labq (.flush t)
    qWakeUpGp t
    mbEv
    labq (.qFence t)
    cover "qs_announce"

def qRegister (t : Nat) : M Unit := do
  P.expect "LOCK" ["registry_lock"]
  labq (.reg t)
  modify fun g => { g with registry := t :: g.registry }
  P.expect "UNLOCK" ["registry_lock"]
  qThreadOnline t
  cover "register"

def qUnregister (t : Nat) : M Unit := do
  qThreadOffline t
  P.expect "LOCK" ["registry_lock"]
  labq (.unreg t)
  modify fun g => { g with registry := g.registry.filter (· != t), qs := g.qs.filter (· != t) }
  P.expect "UNLOCK" ["registry_lock"]
  cover "unregister"

partial def qWaitGp : M Unit := do
  P.expect "RMB" []
  let rec loop : M Unit := do
    let v ← ld "gp.futex"; let f ← int v
    let g ← P.get
    if f != g.futex then P.fail s!"LD gp.futex {f} but model has {g.futex}"
    if f == -1 then do
      let o ← futexWait "gp.futex" "-1"
      cover s!"gp_futex_{o}"
      if o == "SLEEP" then do P.expect "FUTEX_WOKEN" ["gp.futex"]; loop
      else if o == "SPURIOUS" then loop
      else if o == "EAGAIN" then pure ()
      else if o == "EINTR" then loop
      else if o == "ENOSYS" then do compatWait "gp.futex" "-1"; loop
      else P.fail s!"unknown futex outcome {o}"
    else pure ()
  loop

def qSetWaiting : List Nat → M Unit
  | [] => pure ()
  | j :: js => do
    st (wword j) "1"
    modify fun g => { g with waiting := upd g.waiting j 1 }
    qSetWaiting js

def qScanOne (j : Nat) : M Unit := do
  let v ← ld (rword j); let w ← num v
  let g ← P.get
  if w != g.rctr j then P.fail s!"LD {rword j} {w} but model has {g.rctr j}"
  if w == 0 || w == g.gpctr then do
    labq (.uScan j)
    modify fun g => { g with registry := g.registry.filter (· != j), qs := j :: g.qs }
    cover (if w == 0 then "scan_inactive" else "scan_current")
  else do
    if (Qsbr.step { n := g.c.n } g.q (.uScan j)).isSome then
      P.fail s!"reader {j} classified ACTIVE_OLD but the model would move it"
    cover "scan_old"

def qScanList : List Nat → M Unit
  | [] => pure ()
  | j :: js => do qScanOne j; qScanList js

partial def qWaitForReaders (waitLoops : Nat) : M Unit := do
  let wl := if waitLoops < ATTEMPTS then waitLoops + 1 else waitLoops
  if wl ≥ ATTEMPTS then do
    st "gp.futex" "-1"
    modify fun g => { g with futex := -1 }
    -- cmm_smp_wmb(): a store-store fence (hardware no-op on x86-TSO); a full fence in its place is stronger and accepted
    P.ev "WMB (or MB)" fun e => if (e.op == "WMB" || e.op == "MB") && e.args == [] then some () else none
    let g ← P.get
    qSetWaiting g.registry
    P.ev "MB [qsbr: waiting[] stores before the scan of the reader words]" fun e => if e.op == "MB" && e.args == [] then some () else none
    cover "futex_arm"
  let g ← P.get
  qScanList g.registry
  let g ← P.get
  if g.registry.isEmpty then do
    if wl ≥ ATTEMPTS then do
      st "gp.futex" "0" 3
      modify fun g => { g with futex := 0 }
  else do
    P.expect "UNLOCK" ["registry_lock"]
    if wl ≥ ATTEMPTS then qWaitGp else P.expect "RELAX" []
    P.expect "LOCK" ["registry_lock"]
    qWaitForReaders wl

partial def qSynchronizeRcu (t : Nat) : M Unit := do
  let g ← P.get
  let wasOnline := g.rctr t != 0
  if wasOnline then qThreadOffline t else mbEv
  if g.legacyMb then mbEv
  let a ← P.evAt "XCHG" "waiters.head"
  let (newTok, oldTok) ← match a with
    | [n, o, mo] => if moOk mo 5 then pure (n, o) else P.fail "XCHG waiters.head: weaker than seq_cst"
    | _ => P.fail "bad XCHG"
  if nodeOf newTok != some t then P.fail s!"push: new head {newTok} is not this thread's wait node"
  let g ← P.get
  if oldTok != g.waitHead then P.fail s!"push: old head {oldTok}, model has {g.waitHead}"
  modify fun g => { g with waitHead := newTok, nodeNext := upd g.nodeNext t "0", nodeState := upd g.nodeState t W_WAITING,
                           nodeOff := upd g.nodeOff t (nodeOffOf newTok) }
  let g ← P.get
  st (nextLoc g t) oldTok 3
  modify fun g => { g with nodeNext := upd g.nodeNext t oldTok }
  if oldTok != "1" then busyWait t
  else do
    modify fun g => { g with nodeState := upd g.nodeState t W_RUNNING }
    P.expect "LOCK" ["gp_lock"]
    let a ← P.evAt "XCHG" "waiters.head"
    let g ← P.get
    let head ← match a with
      | [n, o, mo] =>
        if n != "1" then P.fail "pop_all: new head is not END"
        else if o != g.waitHead then P.fail s!"pop_all: old head {o}, model has {g.waitHead}"
        else if !moOk mo 5 then P.fail "pop_all: weaker than seq_cst" else pure o
      | _ => P.fail "bad XCHG"
    modify fun g => { g with waitHead := "1" }
    if g.legacyMb then mbEv
    P.expect "LOCK" ["registry_lock"]
    let g ← P.get
    if g.registry.isEmpty then do
      labq (.uEmpty false); cover "sync_empty_registry"
    else do
      let nv := g.gpctr + Gen.URCU_QSBR_GP_CTR
      st "gp.ctr" (toString nv)
      modify fun g => { g with gpctr := nv }
      labq (.uInc false)
      cb; mbEv
      qWaitForReaders 0
      labq .uEnd
      modify fun g => { g with registry := g.qs ++ g.registry, qs := [] }
      cover "sync_full_gp"
    P.expect "UNLOCK" ["registry_lock"]
    P.expect "UNLOCK" ["gp_lock"]
    if head == "1" then P.fail "pop_all returned an empty list to the leader" else wakeAll head
  if wasOnline then qThreadOnline t else mbEv

-- ------------------------------------------------------------------------------------------
-- thread top level: dispatch on CALL markers emitted by the scenario
-- ------------------------------------------------------------------------------------------


-- ------------------------------------------------------------------------------------------
-- bp flavor (src/urcu-bp.c, include/urcu/static/urcu-bp.h): the two-pass algorithm of the
-- memb flavor, automatic registration with signals blocked, no futex, no wait queue
-- ------------------------------------------------------------------------------------------

def BP_ATTEMPTS : Nat := Gen.BP_RCU_QS_ACTIVE_ATTEMPTS

def bpRegister (t : Nat) : M Unit := do
  P.expect "SIGMASK" ["block"]
  P.expect "LOCK" ["init_lock"]       -- _urcu_bp_init()
  P.expect "UNLOCK" ["init_lock"]
  P.expect "LOCK" ["registry_lock"]
  lab (.reg t)
  modify fun g => { g with registry := t :: g.registry }
  P.expect "UNLOCK" ["registry_lock"]
  P.expect "SIGMASK" ["restore"]
  cover "bp_register"

def bpEnsureRegistered (t : Nat) : M Unit := do
  let g ← P.get
  if !(g.s.reg t) then bpRegister t

def bpReadLock (t : Nat) : M Unit := do
  bpEnsureRegistered t
  cb
  let g ← P.get
  let tmp := g.rctr t
  if tmp % PHASE == 0 then do
    let v ← ld "gp.ctr"; let gv ← num v
    let g ← P.get
    if gv != g.gpctr then P.fail s!"LD gp.ctr {gv} but model has {g.gpctr}"
    lab (.rLd t)
    st (rword t) (toString gv)
    modify fun g => { g with rctr := upd g.rctr t gv }
    lab (.rSt t); lab (.flush t)
    slave
    lab (.rEnter t)
    cover "lock_outer"
  else do
    st (rword t) (toString (tmp + 1))
    modify fun g => { g with rctr := upd g.rctr t (tmp + 1) }
    lab (.rInc t); lab (.flush t)
    cover "lock_nested"

def bpReadUnlock (t : Nat) : M Unit := do
  let g ← P.get
  let tmp := g.rctr t
  if tmp % PHASE == 0 then P.fail "unlock with nesting 0"
  slave
  st (rword t) (toString (tmp - 1))
  modify fun g => { g with rctr := upd g.rctr t (tmp - 1) }
  if tmp % PHASE == 1 then do lab (.rUnlock t); lab (.flush t); cover "unlock_outer"
  else do lab (.rDec t); lab (.flush t); cover "unlock_nested"
  cb

/-- thread exit: the pthread key destructor unregisters the thread -/
def bpThreadExit (t : Nat) : M Unit := do
  let g ← P.get
  if g.s.reg t then do
    P.expect "SIGMASK" ["block"]
    P.expect "LOCK" ["registry_lock"]
    lab (.unreg t)
    modify fun g => { g with registry := g.registry.filter (· != t), curSnap := g.curSnap.filter (· != t),
                             qs := g.qs.filter (· != t), rctr := upd g.rctr t 0 }
    P.expect "UNLOCK" ["registry_lock"]
    P.expect "LOCK" ["init_lock"]     -- urcu_bp_exit(): refcount; signals stay blocked (fix 760a93b)
    P.expect "UNLOCK" ["init_lock"]
    P.expect "SIGMASK" ["restore"]
    cover "bp_exit_unregister"

partial def bpWaitForReaders (pass1 : Bool) (waitLoops : Nat) : M Unit := do
  let wl := if waitLoops < BP_ATTEMPTS then waitLoops + 1 else waitLoops
  let g ← P.get
  scanList pass1 (if pass1 then g.registry else g.curSnap)
  let g ← P.get
  let input := if pass1 then g.registry else g.curSnap
  if input.isEmpty then pure ()
  else do
    P.expect "UNLOCK" ["registry_lock"]
    if wl ≥ BP_ATTEMPTS then do P.expect "POLL" []; cover "bp_poll" else P.expect "RELAX" []
    P.expect "LOCK" ["registry_lock"]
    bpWaitForReaders pass1 wl

def bpSynchronizeRcu (_t : Nat) : M Unit := do
  P.expect "SIGMASK" ["block"]
  P.expect "LOCK" ["gp_lock"]
  P.expect "LOCK" ["registry_lock"]
  let g ← P.get
  if g.registry.isEmpty then do
    lab (.uStartEmpty false); cover "sync_empty_registry"
  else do
    master
    lab (.uStart false)
    if g.c.membarrier then forcedAll g.c.n
    lab .uMbarRet
    bpWaitForReaders true 0
    mbEv
    let g ← P.get
    let nv := if (g.gpctr / PHASE) % 2 == 0 then g.gpctr + PHASE else g.gpctr - PHASE
    st "gp.ctr" (toString nv)
    modify fun g => { g with gpctr := nv }
    lab .uFlip
    mbEv
    bpWaitForReaders false 0
    lab .uP2Done
    modify fun g => { g with registry := g.qs ++ g.registry, qs := [] }
    master
    let g ← P.get
    if g.c.membarrier then forcedAll g.c.n
    lab .uEnd
    cover "sync_full_gp"
  P.expect "UNLOCK" ["registry_lock"]
  P.expect "UNLOCK" ["gp_lock"]
  P.expect "SIGMASK" ["restore"]

partial def threadBp (t : Nat) (inH : Bool := false) : M Unit := do
  let e ← P.ev "CALL/…" fun e => some e
  match e.op, e.args with
  | "SIG_EXIT", _ => if inH then pure () else P.fail "SIG_EXIT outside a handler"
  | "CALL", ["lock"] => do bpReadLock t; P.expect "RET" ["lock"]; threadBp t inH
  | "CALL", ["unlock"] => do bpReadUnlock t; P.expect "RET" ["unlock"]; threadBp t inH
  | "CALL", ["register"] => do bpEnsureRegistered t; P.expect "RET" ["register"]; threadBp t inH
  | "CALL", ["sync"] => do bpSynchronizeRcu t; P.expect "RET" ["sync"]; threadBp t inH
  | "READER_DONE", _ => do bpThreadExit t; threadBp t inH
  | "DLD", _ => do
      let g ← P.get
      if g.s.rpc t == .cs then lab (.rRead t)
      threadBp t inH
  | "DST", _ => threadBp t inH
  | "READER", _ => threadBp t inH
  | "SPAWN", _ => threadBp t inH
  | "THREAD_EXIT", _ => pure ()
  | _, _ => P.fail s!"unexpected event outside an API call: {e.show}"

partial def threadQ (t : Nat) : M Unit := do
  let e ← P.ev "CALL/…" fun e => some e
  match e.op, e.args with
  | "CALL", ["qs"] => do qQuiescentState t; P.expect "RET" ["qs"]; threadQ t
  | "CALL", ["offline"] => do qThreadOffline t; P.expect "RET" ["offline"]; threadQ t
  | "CALL", ["online"] => do qThreadOnline t; P.expect "RET" ["online"]; threadQ t
  | "CALL", ["register"] => do qRegister t; P.expect "RET" ["register"]; threadQ t
  | "CALL", ["unregister"] => do qUnregister t; P.expect "RET" ["unregister"]; threadQ t
  | "CALL", ["sync"] => do qSynchronizeRcu t; P.expect "RET" ["sync"]; threadQ t
  | "DLD", _ => do
      let g ← P.get
      if g.q.rpc t == .out && g.q.lctr t != 0 then labq (.rRead t)
      threadQ t
  | "DST", _ => threadQ t
  | "READER", _ => threadQ t
  | "SPAWN", _ => threadQ t
  | "THREAD_EXIT", _ => pure ()
  | _, _ => P.fail s!"unexpected event outside an API call: {e.show}"

partial def thread (t : Nat) (inH : Bool := false) : M Unit := do
  let e ← P.ev "CALL/…" fun e => some e
  match e.op, e.args with
  | "SIG_EXIT", _ => if inH then pure () else P.fail "SIG_EXIT outside a handler"
  | "CALL", ["lock"] => do readLock t; P.expect "RET" ["lock"]; thread t inH
  | "CALL", ["unlock"] => do readUnlock t; P.expect "RET" ["unlock"]; thread t inH
  | "CALL", ["register"] => do registerThread t; P.expect "RET" ["register"]; thread t inH
  | "CALL", ["unregister"] => do unregisterThread t; P.expect "RET" ["unregister"]; thread t inH
  | "CALL", ["sync"] => do synchronizeRcu t; P.expect "RET" ["sync"]; thread t inH
  | "DLD", _ => do
      let g ← P.get
      if g.s.rpc t == .cs then lab (.rRead t)
      thread t inH
  | "DST", _ => thread t inH
  | "READER", _ => thread t inH
  | "SPAWN", _ => thread t inH
  | "THREAD_EXIT", _ => pure ()
  | _, _ => P.fail s!"unexpected event outside an API call: {e.show}"

/-- a synthetic signal handler frame on thread `t` (C19): if it interrupts rcu_read_lock() between
the load of rcu_gp.ctr and the store of the reader word, the model suspends that frame -/
def sigHandler (t : Nat) : M Unit := do
  let g ← P.get
  let pushed := match g.s.rpc t with
    | .ld _ => true
    | _ => false
  if pushed then do lab (.sigPush t); cover "sig_interrupts_lock_after_load"
  match g.s.rpc t with
  | .fence => cover "sig_interrupts_lock_after_store"
  | .cs => cover "sig_in_section"
  | .out => if !pushed then cover "sig_outside_section" else pure ()
  | _ => pure ()
  if g.bp then threadBp t true else thread t true
  if pushed then lab (.sigPop t)
  cover "sig_handler"

def cfgLine (g : G) (ws : List String) : G :=
  ws.foldl (fun g w =>
    match w.splitOn "=" with
    | ["flavor", "mb"] => { g with mb := true, c := { g.c with membarrier := false, slaveFence := true } }
    | ["flavor", "memb"] => { g with mb := false }
    | ["flavor", "qsbr"] => { g with qsbr := true }
    | ["flavor", "bp"] => { g with bp := true }
    | ["membarrier", "1"] => if g.mb then g else { g with c := { g.c with membarrier := true, slaveFence := false } }
    | ["membarrier", "0"] => { g with c := { g.c with membarrier := false, slaveFence := true } }
    | ["legacymb", "0"] => { g with legacyMb := false }
    | _ => g) g

end GpDrv

open GpDrv in
def main : IO UInt32 := do
  let f (r : Run G) (ws : List String) : Except String (Run G) :=
    match ws with
    | "CFG" :: rest => .ok { r with g := cfgLine r.g rest }
    | _ => match parseEv ws with
      | some e =>
        let fresh := fun (t : Nat) (g : G) => if g.qsbr then (threadQ t).run else if g.bp then (threadBp t).run else (thread t).run
        if e.op == "SIG_ENTER" then sigEnter fresh (sigHandler e.tid).run r e.tid
        else (feed fresh r e).map fun r' => sigResume r' e.tid
      | none => .error "unparsable line"
  loop (← IO.getStdin) f (fun r => showCov r.g.cov) ({ g := {} } : Run G) 0
