import Driver.Prog
import UrcuVerif.Fork.Model
import UrcuVerif.Fork.Bp
/-!
Trace checker for C16: `harness/scen/fork.c` (the real `src/urcu.c` / `urcu-qsbr.c` / `urcu-bp.c` with
`src/urcu-call-rcu-impl.h` under the macro shim), one trace per process (the child's trace starts
with the common prefix).

"L1": the fork handlers and the pause branch of `call_rcu_thread` are transliterated below as
coroutines that must consume exactly the events the real code emits on the locations of call_rcu
(`crdN.flags/futex/head/tail/qlen`, `dflt`, the per-CPU array, `call_rcu_mutex`, and – for the
registration steps – `registry_lock`, `gp_lock`): same accesses, operands, results and order
(`call_rcu_before_fork`: LOCK; per helper OR PAUSE, CB, wake; per helper load-until-PAUSED;
helper: LD flags, LOCK/UNLOCK registry, OR PAUSED, load-until-not-PAUSE, AND ~PAUSED, LOCK/UNLOCK
registry; `after_fork_parent`: per helper AND ~PAUSE, per helper load-until-not-PAUSED, UNLOCK;
`after_fork_child`: UNLOCK, LD dflt, LOCK, ALLOC, ST dflt, SPAWN, UNLOCK, (FREE percpu), ST
percpu_ptr 0, per inherited crd: ST flags STOPPED, LD flags, LOCK, empty check, [UNLOCK, LD dflt, LOCK,
splice xchg's, qlen, wake], UNLOCK, FREE – and no JOIN).  The rest of the library (call_rcu,
helper loop, grace periods, rcu_barrier, helper creation) is followed at the granularity of the L2
model: its linearisation events (enqueue xchg on `crdN.tail`, the helper's splice xchg, LOCK/UNLOCK
of `gp_lock`, INVOKE markers, `SUB crdN.qlen`, ALLOC) are mapped to L2 labels; other events of those
functions are skipped here (they are checked event by event by `Driver/CallRcu.lean`, C03/C04).
Every label is replayed on the proven model `UrcuVerif.Fork.step` and must be enabled; values the
model predicts (PAUSE seen or not at the loop top, queue empty or not at the splice, callback
invocation order, the helper `call_rcu()` selects, `call_rcu_data_list` at the fork / after the child
handler, the registry, the set of callbacks queued at the fork) are compared with the trace.
bp: the `urcu_bp_*_fork` handlers and every registry-lock / gp-lock section are replayed on
`UrcuVerif.ForkBp.step`; the registry printed by the harness is compared with the model's.
Replay stops at the `FINAL` marker (teardown = `call_rcu_data_free`, C03).
-/
open Driver UrcuVerif

namespace FkDrv
open UrcuVerif.Fork

def NT : Nat := 64
def WORK0 : Nat := 1000000
def F_RT : Nat := 1
def F_STOP : Nat := 4
def F_STOPPED : Nat := 8
def F_PAUSE : Nat := 16
def F_PAUSED : Nat := 32

structure G where
  c : Cfg := { n := NT }
  s : State := init
  bp : ForkBp.State := ForkBp.init
  flavor : String := "memb"
  tidH : List (Nat × Nat) := []          -- trace tid of a helper thread ↦ helper index
  lastCrd : List (Nat × Nat) := []       -- thread ↦ crd number it allocated last
  cpuOf : List (Nat × Nat) := []
  flags : List (Nat × Nat) := []         -- shadow of crdK.flags
  bpNest : List (Nat × Nat) := []
  stopped : Bool := false                -- after FINAL
  gen : Nat := 0
  pendEv : List (Nat × Ev) := []
  cov : List (String × Nat) := []

abbrev M := P G

def modify (f : G → G) : M Unit := P.act fun g => .ok (f g)
def cover (k : String) : M Unit := P.act fun g => .ok { g with cov := bump g.cov k }

/-- "UrcuVerif.Fork.Label.hTop 3" ↦ "hTop" -/
def labName (r : String) : String :=
  (((r.splitOn " ").headD "").splitOn ".").getLastD ""

def lab (l : Label) : M Unit := P.act fun g =>
  match step g.c g.s l with
  | some s' => .ok { g with s := s', cov := bump g.cov ("L." ++ (labName (toString (repr l)))) }
  | none => .error s!"model step {repr l} not enabled"

def labBp (l : ForkBp.Label) : M Unit := P.act fun g =>
  if g.flavor != "bp" then .ok g else
  match ForkBp.step g.bp l with
  | some s' => .ok { g with bp := s', cov := bump g.cov ("B." ++ (labName (toString (repr l)))) }
  | none => .error s!"bp model step {repr l} not enabled"

def check (f : G → Option String) : M Unit := P.act fun g => match f g with
  | some e => .error e
  | none => .ok g

def num (s : String) : M Nat := match natOf s with
  | .ok n => pure n
  | .error e => P.fail e

def int (s : String) : M Int := match intOf s with
  | .ok n => pure n
  | .error e => P.fail e

/-- "crd12.flags" ↦ (12, "flags") -/
def crdLoc (loc : String) : Option (Nat × String) :=
  if loc.startsWith "crd" then
    match (loc.drop 3).toString.splitOn "." with
    | [k, f] => k.toNat?.map fun n => (n, f)
    | _ => none
  else none

/-- "&cb17" ↦ 17, "&work3" ↦ WORK0 + 3 -/
def cbOfVal (v : String) : Option Nat :=
  if v.startsWith "&cb" then (v.drop 3).toString.toNat?
  else if v.startsWith "&work" then ((v.drop 5).toString.toNat?).map (WORK0 + ·)
  else none

def isMem (op : String) : Bool :=
  ["LD", "ST", "XCHG", "CAS", "ADD", "SUB", "ADDR", "SUBR", "AND", "OR", "FUTEX_WAIT", "FUTEX_WOKEN", "FUTEX_WAKE"].contains op

/-- events this checker looks at; everything else belongs to other components and is skipped -/
def relevant (e : Ev) : Bool :=
  if ["CALL", "RET", "INVOKE", "INVOKED", "ALLOC", "FREE", "SPAWN", "FORK", "FORK_PARENT", "FORK_CHILD", "CHILD_EXIT",
      "JOIN", "THREAD_EXIT", "WORKER", "QUIET", "RESUME", "CREADER", "ATFORK", "CRDLIST", "REGISTRY", "FINAL", "CPU",
      "FREERACER", "MASK", "FORK_EXEC", "FORKER2"].contains e.op then true
  else if e.op == "LOCK" || e.op == "UNLOCK" then
    e.arg 0 == "call_rcu_mutex" || e.arg 0 == "gp_lock" || e.arg 0 == "registry_lock"
  else if isMem e.op then
    let l := e.arg 0
    (crdLoc l).isSome || l == "dflt" || l == "percpu_ptr" || l.startsWith "percpu" ||
      (e.op == "SUBR" && l.startsWith "compl" && l.endsWith ".count")
  else false

def unget (t : Nat) (e : Ev) : M Unit := modify fun g => { g with pendEv := (t, e) :: g.pendEv }

/-- next relevant event of this thread -/
partial def rel (t : Nat) (desc : String) (sig : Bool := false) : M Ev := do
  let g ← P.get
  match g.pendEv.lookup t with
  | some e =>
    modify fun g => { g with pendEv := g.pendEv.filter (·.1 != t) }
    pure e
  | none =>
    let e ← P.ev desc some
    if relevant e || (sig && e.op == "SIGMASK") then
      -- bp: a registry-lock section of a thread that is neither inside a grace period nor inside the fork
      -- handlers is a registration (first use) or, if the thread is registered, its unregistration at exit
      if e.op == "UNLOCK" && e.arg 0 == "registry_lock" then
        let g ← P.get
        if g.flavor == "bp" && !g.stopped && g.bp.pc t == .idle then
          if g.bp.registry.contains t || g.bp.held.contains t then
            labBp (.unregBegin t); labBp (.unregEnd t)
          else
            labBp (.regBegin t); labBp (.regEnd t)
      pure e
    else rel t desc sig

/-- "m=8400" (hexadecimal bit set of blocked signals) -/
def maskOf (w : String) : Except String Nat :=
  if w.startsWith "m=" then natOf ("0x" ++ (w.drop 2).toString) else .error s!"bad mask {w}"

/-- pthread_sigmask() inside a bp fork handler; returns the mask the event carries (block: the old mask
handed back to the library; restore: the mask installed) -/
def expectSig (t : Nat) (what : String) : M Nat := do
  let e ← rel t s!"SIGMASK {what}" true
  if e.op == "SIGMASK" && e.arg 0 == what then
    match maskOf (e.arg 1) with
    | .ok m => pure m
    | .error _ => pure 0
  else P.fail s!"expected SIGMASK {what} (pthread_sigmask), got {e.show}"

/-- the mask the library installs / saves must be the one the bp model predicts for thread `t` -/
def checkMask (t m : Nat) (what : String) : M Unit := P.act fun g =>
  if g.flavor == "bp" && g.bp.mask t != m then
    .error s!"{what}: thread T{t} gets signal mask {m}, the model (mask_restored) says {g.bp.mask t}"
  else .ok { g with cov := bump g.cov "mask_checked" }

def expect (t : Nat) (op : String) (args : List String) : M Unit := do
  let e ← rel t s!"{op} {" ".intercalate args}"
  if e.op == op && e.args.take args.length == args then pure ()
  else P.fail s!"expected {op} {" ".intercalate args}, got {e.show}"

def hOf (g : G) (t : Nat) : Option Nat := g.tidH.lookup t
def rdFlags (g : G) (k : Nat) : Nat := (g.flags.lookup k).getD 0
def wrFlags (k v : Nat) : M Unit := modify fun g => { g with flags := (k, v) :: g.flags.filter (·.1 != k) }

/-- LD crdK.flags: value must equal the shadow; returns it -/
def ldFlags (t k : Nat) : M Nat := do
  let e ← rel t s!"LD crd{k}.flags"
  if !(e.op == "LD" && e.arg 0 == s!"crd{k}.flags") then P.fail s!"expected LD crd{k}.flags, got {e.show}"
  let v ← num (e.arg 1)
  let g ← P.get
  if v != rdFlags g k then P.fail s!"LD crd{k}.flags returned {v}, shadow has {rdFlags g k}"
  pure v

def orFlags (t k bit : Nat) : M Unit := do
  let e ← rel t s!"OR crd{k}.flags {bit}"
  if !(e.op == "OR" && e.arg 0 == s!"crd{k}.flags" && e.arg 1 == toString bit) then
    P.fail s!"expected OR crd{k}.flags {bit}, got {e.show}"
  let r ← num (e.arg 2)
  let g ← P.get
  if r != (rdFlags g k ||| bit) then P.fail s!"OR crd{k}.flags: result {r}, shadow gives {rdFlags g k ||| bit}"
  wrFlags k r

def andNotFlags (t k bit : Nat) : M Unit := do
  let e ← rel t s!"AND crd{k}.flags ~{bit}"
  -- `~URCU_CALL_RCU_PAUSE` is an `unsigned int` complement widened to `unsigned long`
  if !(e.op == "AND" && e.arg 0 == s!"crd{k}.flags" && (e.arg 1 == s!"-{bit + 1}" || e.arg 1 == toString (4294967295 - bit))) then
    P.fail s!"expected AND crd{k}.flags ~{bit}, got {e.show}"
  let r ← num (e.arg 2)
  let g ← P.get
  let want := rdFlags g k - (rdFlags g k &&& bit)
  if r != want then P.fail s!"AND crd{k}.flags: result {r}, shadow gives {want}"
  wrFlags k r

/-- `wake_call_rcu_thread(crdK)`: LD flags; unless RT: LD futex; if -1: ST futex 0, FUTEX_WAKE -/
def wake (t k : Nat) : M Unit := do
  let v ← ldFlags t k
  if v &&& F_RT == 0 then
    let e ← rel t s!"LD crd{k}.futex"
    if !(e.op == "LD" && e.arg 0 == s!"crd{k}.futex") then P.fail s!"expected LD crd{k}.futex, got {e.show}"
    if e.arg 1 == "-1" then
      expect t "ST" [s!"crd{k}.futex", "0"]
      let w ← rel t s!"FUTEX_WAKE crd{k}.futex"
      if !(w.op == "FUTEX_WAKE" && w.arg 0 == s!"crd{k}.futex") then P.fail s!"expected FUTEX_WAKE crd{k}.futex, got {w.show}"
      cover "wake_store"
    else cover "wake_nostore"
  else cover "wake_rt"

def lockM (t : Nat) : M Unit := expect t "LOCK" ["call_rcu_mutex"]
def unlockM (t : Nat) : M Unit := expect t "UNLOCK" ["call_rcu_mutex"]

-- ------------------------------------------------------------------------------------------
-- bp model helpers
-- ------------------------------------------------------------------------------------------

def isBp : M Bool := do let g ← P.get; pure (g.flavor == "bp")


-- ------------------------------------------------------------------------------------------
-- the handlers (exact)
-- ------------------------------------------------------------------------------------------

partial def waitFlag (t k bit : Nat) (wantSet : Bool) : M Unit := do
  let v ← ldFlags t k
  if ((v &&& bit) != 0) == wantSet then pure ()
  else do cover (if wantSet then "poll_paused" else "poll_unpaused"); waitFlag t k bit wantSet

def listOfRem (g : G) (t : Nat) : List Nat := match g.s.upc t with
  | .bfPause r | .bfWait r | .afpClr r | .afpWait r | .afcLoop r | .barLoop _ r => r
  | _ => []

partial def beforeFork (t : Nat) : M Unit := do
  lockM t
  lab (.bfLock t)
  let rec pauseLoop : M Unit := do
    let g ← P.get
    match listOfRem g t with
    | h :: _ =>
      orFlags t (h + 1) F_PAUSE
      lab (.bfPause t)
      wake t (h + 1)
      pauseLoop
    | [] => pure ()
  pauseLoop
  lab (.bfPauseDone t)
  let rec waitLoop : M Unit := do
    let g ← P.get
    match listOfRem g t with
    | h :: _ =>
      waitFlag t (h + 1) F_PAUSED true
      lab (.bfWait t)
      waitLoop
    | [] => pure ()
  waitLoop
  expect t "RET" ["before_fork"]
  lab (.bfRet t)

partial def afterForkParent (t : Nat) : M Unit := do
  let rec clrLoop : M Unit := do
    let g ← P.get
    match listOfRem g t with
    | h :: _ =>
      andNotFlags t (h + 1) F_PAUSE
      lab (.afpClr t)
      clrLoop
    | [] => pure ()
  clrLoop
  lab (.afpClrDone t)
  let rec waitLoop : M Unit := do
    let g ← P.get
    match listOfRem g t with
    | h :: _ =>
      waitFlag t (h + 1) F_PAUSED false
      lab (.afpWait t)
      waitLoop
    | [] => pure ()
  waitLoop
  unlockM t
  lab (.afpUnlock t)
  expect t "RET" ["after_fork_parent"]

/-- events of `__cds_wfcq_splice_blocking(dest = crdD, src = crdK)` on the crd locations: `LD crdK.head`
(non-null), `XCHG crdK.head 0`, `XCHG crdK.tail &crdK.head`, `XCHG crdD.tail`, then the link store -/
partial def spliceInto (t k d : Nat) : M Unit := do
  let e ← rel t s!"splice crd{k} -> crd{d}"
  if e.op == "LD" && (e.arg 0 == s!"crd{k}.head" || e.arg 0 == s!"crd{k}.tail") then spliceInto t k d
  else if e.op == "XCHG" && e.arg 0 == s!"crd{k}.head" then
    if e.arg 1 != "0" then P.fail s!"splice: XCHG crd{k}.head stores {e.arg 1}, expected 0"
    spliceInto t k d
  else if e.op == "XCHG" && e.arg 0 == s!"crd{k}.tail" then
    if e.arg 1 != s!"&crd{k}.head" then P.fail s!"splice: XCHG crd{k}.tail stores {e.arg 1}"
    spliceInto t k d
  else if e.op == "XCHG" && e.arg 0 == s!"crd{d}.tail" then
    -- linearisation point of the hand-over to the default helper
    lab (.afcDispose t)
    let e2 ← rel t "link store"
    if !(e2.op == "ST" && e2.arg 0 == s!"crd{d}.head") then unget t e2
  else P.fail s!"unexpected event inside the splice of crd{k} onto crd{d}: {e.show}"

partial def afterForkChild (t : Nat) : M Unit := do
  unlockM t
  lab (.afcUnlock t)
  let g ← P.get
  if g.s.list.isEmpty then
    expect t "RET" ["after_fork_child"]
    lab (.afcNone t)
    cover "child_nolist"
  else
    -- default_call_rcu_data = NULL (plain store); get_default_call_rcu_data()
    expect t "LD" ["dflt", "0"]
    lockM t
    let e ← rel t "ALLOC crd"
    if e.op != "ALLOC" || !(e.arg 0).startsWith "crd" then P.fail s!"expected ALLOC crdN, got {e.show}"
    let k ← num ((e.arg 0).drop 3).toString
    let g ← P.get
    if k != g.s.nextH + 1 then P.fail s!"child: new default helper is crd{k}, model expects crd{g.s.nextH + 1}"
    modify fun g => { g with lastCrd := (t, k) :: g.lastCrd.filter (·.1 != t) }
    wrFlags k 0
    lab (.afcCreate t)
    expect t "ST" ["dflt", s!"&crd{k}.tail"]
    let rec toSpawn : M Unit := do
      let e ← rel t "SPAWN"
      if e.op == "SIGMASK" then toSpawn
      else if e.op == "SPAWN" then
        let ht ← num ((e.arg 0).drop 1).toString
        modify fun g => { g with tidH := (ht, k - 1) :: g.tidH }
      else P.fail s!"expected SPAWN of the new default helper, got {e.show}"
    toSpawn
    let rec toUnlock : M Unit := do
      let e ← rel t "UNLOCK call_rcu_mutex"
      if e.op == "SIGMASK" then toUnlock
      else if e.op == "UNLOCK" && e.arg 0 == "call_rcu_mutex" then pure ()
      else P.fail s!"expected UNLOCK call_rcu_mutex, got {e.show}"
    toUnlock
    -- cpus_array_len_reset(); free(per_cpu_call_rcu_data); rcu_set_pointer(&per_cpu_call_rcu_data, NULL)
    let e ← rel t "FREE percpu / ST percpu_ptr 0"
    if e.op == "FREE" && e.arg 0 == "percpu" then expect t "ST" ["percpu_ptr", "0"]
    else if e.op == "ST" && e.arg 0 == "percpu_ptr" && e.arg 1 == "0" then pure ()
    else P.fail s!"expected the per-CPU array reset, got {e.show}"
    let d := k
    let rec loop : M Unit := do
      let g ← P.get
      match listOfRem g t with
      | h :: _ =>
        let kk := h + 1
        -- uatomic_store(&crdp->flags, URCU_CALL_RCU_STOPPED)
        expect t "ST" [s!"crd{kk}.flags", toString F_STOPPED]
        wrFlags kk F_STOPPED
        -- _call_rcu_data_free(crdp, 0): STOPPED is set: no STOP, no wait
        let v ← ldFlags t kk
        if v &&& F_STOPPED == 0 then P.fail "child: STOPPED not seen"
        lockM t
        let e ← rel t s!"LD crd{kk}.head"
        if !(e.op == "LD" && e.arg 0 == s!"crd{kk}.head") then P.fail s!"expected LD crd{kk}.head, got {e.show}"
        let qEmptyModel := (g.s.queue h).isEmpty
        if e.arg 1 == "0" then
          -- cds_wfcq_empty: head.next == NULL && tail == &head
          let e2 ← rel t s!"LD crd{kk}.tail"
          if !(e2.op == "LD" && e2.arg 0 == s!"crd{kk}.tail") then P.fail s!"expected LD crd{kk}.tail, got {e2.show}"
          if !qEmptyModel then P.fail s!"child: crd{kk} found empty, model queue is {g.s.queue h}"
          unlockM t
          expect t "FREE" [s!"crd{kk}"]
          lab (.afcDispose t)
          cover "dispose_empty"
        else
          if qEmptyModel then P.fail s!"child: crd{kk} found non-empty, model queue is empty"
          unlockM t
          expect t "LD" ["dflt", s!"&crd{d}.tail"]
          lockM t
          spliceInto t kk d
          -- uatomic_add(&default->qlen, uatomic_load(&crdp->qlen)); wake
          let e3 ← rel t "LD qlen"
          if !(e3.op == "LD" && e3.arg 0 == s!"crd{kk}.qlen") then P.fail s!"expected LD crd{kk}.qlen, got {e3.show}"
          let e4 ← rel t "ADD qlen"
          if !(e4.op == "ADD" && e4.arg 0 == s!"crd{d}.qlen") then P.fail s!"expected ADD crd{d}.qlen, got {e4.show}"
          wake t d
          unlockM t
          expect t "FREE" [s!"crd{kk}"]
          cover "dispose_spliced"
        loop
      | [] => pure ()
    loop
    expect t "RET" ["after_fork_child"]
    lab (.afcDone t)

-- ------------------------------------------------------------------------------------------
-- application-level operations (coarse)
-- ------------------------------------------------------------------------------------------

def isReg (g : G) (t : Nat) : Bool := g.s.registry.contains (.u t)

/-- skip to `RET name` of this thread -/
partial def skipToRet (t : Nat) (name : String) : M Unit := do
  let e ← rel t s!"RET {name}"
  if e.op == "RET" && e.arg 0 == name then pure () else skipToRet t name

/-- which `Via` selects helper `h` for thread `t` in the model -/
def viaFor (g : G) (t h : Nat) : Option Via :=
  if sel g.s t .thr == some h then some .thr
  else
    let cpu := (g.cpuOf.lookup t).getD 0
    if sel g.s t (.cpu cpu) == some h then some (.cpu cpu)
    else if sel g.s t .dflt == some h then some .dflt
    else none

/-- body of `call_rcu()` on an application thread, up to `RET call_rcu` -/
partial def callRcuBody (t id : Nat) : M Unit := do
  let e ← rel t "call_rcu events"
  if e.op == "RET" && e.arg 0 == "call_rcu" then
    P.fail "call_rcu returned without an enqueue"
  else if e.op == "ALLOC" && (e.arg 0).startsWith "crd" then
    -- get_default_call_rcu_data() creates the default helper
    let k ← num ((e.arg 0).drop 3).toString
    let g ← P.get
    if k != g.s.nextH + 1 then P.fail s!"new helper crd{k}, model expects crd{g.s.nextH + 1}"
    modify fun g => { g with lastCrd := (t, k) :: g.lastCrd.filter (·.1 != t) }
    wrFlags k 0
    lab (.createDflt t)
    callRcuBody t id
  else if e.op == "SPAWN" then
    let ht ← num ((e.arg 0).drop 1).toString
    let g ← P.get
    modify fun g' => { g' with tidH := (ht, ((g.lastCrd.lookup t).getD 1) - 1) :: g'.tidH }
    callRcuBody t id
  else if e.op == "XCHG" then
    match crdLoc (e.arg 0) with
    | some (k, "tail") =>
      if cbOfVal (e.arg 1) != some id then P.fail s!"call_rcu {id}: enqueues {e.arg 1}"
      let g ← P.get
      match viaFor g t (k - 1) with
      | some v =>
        -- the model's read-side section of call_rcu() is the instant of the enqueue (inside the real one)
        lab (.rlock t); lab (.enq t id v); lab (.runlock t)
      | none => P.fail s!"call_rcu {id} enqueues on crd{k}, which the model's get_call_rcu_data() does not select (thr={repr (g.s.thr t)} dflt={repr g.s.dflt})"
      skipToRet t "call_rcu"
    | _ => callRcuBody t id
  else callRcuBody t id

/-- `create_call_rcu_data()` -/
partial def createBody (t fl : Nat) : M Unit := do
  let e ← rel t "create events"
  if e.op == "ALLOC" && (e.arg 0).startsWith "crd" then
    let k ← num ((e.arg 0).drop 3).toString
    let g ← P.get
    if k != g.s.nextH + 1 then P.fail s!"new helper crd{k}, model expects crd{g.s.nextH + 1}"
    modify fun g => { g with lastCrd := (t, k) :: g.lastCrd.filter (·.1 != t) }
    wrFlags k fl
    lab (.create t)
    createBody t fl
  else if e.op == "SPAWN" then
    let ht ← num ((e.arg 0).drop 1).toString
    let g ← P.get
    modify fun g' => { g' with tidH := (ht, ((g.lastCrd.lookup t).getD 1) - 1) :: g'.tidH }
    createBody t fl
  else if e.op == "RET" && e.arg 0 == "create" then pure ()
  else createBody t fl

/-- `rcu_barrier()` -/
partial def barrierBody (t : Nat) : M Unit := do
  let e ← rel t "barrier events"
  if e.op == "RET" && e.arg 0 == "barrier" then
    -- refused inside a read-side section, or no helper at all
    pure ()
  else if e.op == "ALLOC" && (e.arg 0).startsWith "compl" then
    let b ← num ((e.arg 0).drop 5).toString
    lockM t
    lab (.barCall t b)
    let rec loop : M Unit := do
      let e ← rel t "barrier loop"
      if e.op == "ALLOC" && (e.arg 0).startsWith "work" then loop
      else if e.op == "XCHG" then
        match crdLoc (e.arg 0), cbOfVal (e.arg 1) with
        | some (k, "tail"), some id =>
          let g ← P.get
          match listOfRem g t with
          | h :: _ =>
            if h + 1 != k then P.fail s!"rcu_barrier queues its marker on crd{k}, model expects crd{h + 1} next"
            lab (.barEnq t id)
            loop
          | [] => P.fail "rcu_barrier queues a marker although the model's list is exhausted"
        | _, _ => loop
      else if e.op == "UNLOCK" && e.arg 0 == "call_rcu_mutex" then
        lab (.barUnlock t)
      else loop
    loop
    skipToRet t "barrier"
    lab (.barRet t)
  else barrierBody t

partial def syncBody (t : Nat) : M Unit := do
  let e ← rel t "synchronize_rcu events"
  if e.op == "RET" && e.arg 0 == "sync" then pure ()
  else if e.op == "LOCK" && e.arg 0 == "gp_lock" then
    lab (.gpBegin t); labBp (.gpCall t); labBp (.gpLock t); syncBody t
  else if e.op == "UNLOCK" && e.arg 0 == "gp_lock" then
    lab (.gpEnd t); labBp (.gpUnlock t); syncBody t
  else if e.op == "LOCK" && e.arg 0 == "registry_lock" then labBp (.rgLock t) *> syncBody t
  else if e.op == "UNLOCK" && e.arg 0 == "registry_lock" then labBp (.rgUnlock t) *> syncBody t
  else syncBody t

def natList (ws : List String) (pre : String) : List Nat :=
  ws.filterMap fun w => if w.startsWith pre then (w.drop pre.length).toString.toNat? else none

/-- compare a `REGISTRY T.. T..` line with the model (as sets) -/
def checkRegistry (t : Nat) (e : Ev) : M Unit := do
  let g ← P.get
  let tids := natList e.args "T"
  if g.flavor == "bp" then
    let want := g.bp.registry ++ g.bp.held
    if !(tids.all want.contains && want.all tids.contains) then
      P.fail s!"registry in the trace {tids} differs from the bp model's {want}"
  else
    let want := g.s.registry.filterMap fun r => match r with
      | .u u => some u
      | .h h => (g.tidH.find? (·.2 == h)).map (·.1)
    if !(tids.all want.contains && want.all tids.contains) then
      P.fail s!"registry in the trace {tids} differs from the model's {want}"
  let _ := t
  cover "registry_checked"

def checkCrdList (e : Ev) : M Unit := do
  let g ← P.get
  let ks := natList e.args "crd"
  if ks != g.s.list.map (· + 1) then P.fail s!"call_rcu_data_list in the trace {ks} differs from the model's {g.s.list.map (· + 1)}"
  cover "crdlist_checked"

def checkAtFork (e : Ev) : M Unit := do
  let g ← P.get
  let ids := (e.args.drop 1).filterMap String.toNat?
  let bad := ids.filter fun id => !isQueue (g.s.loc id)
  if !bad.isEmpty then P.fail s!"callbacks {bad} are queued at the fork according to the harness but not in a queue of the model"
  cover "atfork_checked"

/-- program of an application thread -/
partial def appLoop (t : Nat) : M Unit := do
  let e ← rel t "application-level event"
  let g ← P.get
  if g.stopped then appLoop t else
  if g.s.upc t == .gone then lab (.spawn t)
  if g.flavor == "bp" && g.bp.pc t == .gone then labBp (.spawn t)
  let g ← P.get
  match e.op, e.arg 0 with
  | "CALL", "register" =>
    skipToRet t "register"
    let g ← P.get
    -- bp: the other threads stay registered across the fork (that is ForkBp's business); the call_rcu model
    -- only registers them around their call_rcu()
    if !isReg g t && (g.flavor != "bp" || t == 0) then lab (.register t)
  | "CALL", "unregister" =>
    skipToRet t "unregister"
    let g ← P.get
    if g.flavor != "bp" && isReg g t then lab (.unregister t)
  | "CALL", "lock" =>
    skipToRet t "lock"
    if g.flavor != "bp" || isReg g t then lab (.rlock t)
  | "CALL", "unlock" =>
    if (g.flavor != "bp" || isReg g t) && g.s.nest t > 0 then lab (.runlock t)
    skipToRet t "unlock"
  | "CALL", "call_rcu" =>
    let id ← num (e.arg 1)
    let g ← P.get
    let tmpReg := !isReg g t
    if tmpReg then lab (.register t)
    callRcuBody t id
    let g ← P.get
    if tmpReg && g.s.nest t == 0 then lab (.unregister t)
  | "CALL", "create" =>
    let fl ← num (e.arg 1)
    createBody t fl
  | "CALL", "set_thread" =>
    let k ← num ((e.arg 1).drop 3).toString
    lab (.setThr t (if k == 0 then none else some (k - 1)))
    skipToRet t "set_thread"
  | "CALL", "set_cpu" =>
    let cpu ← num (e.arg 1)
    let k ← num ((e.arg 2).drop 3).toString
    let r ← rel t "set_cpu"
    if !(r.op == "LOCK" && r.arg 0 == "call_rcu_mutex") then P.fail s!"set_cpu: expected LOCK call_rcu_mutex, got {r.show}"
    let g ← P.get
    let ho := if k == 0 then none else some (k - 1)
    let ok := g.s.percpu cpu == none || ho == none
    if ok then lab (.setCpu t cpu ho)
    let rec toRet : M Unit := do
      let e ← rel t "RET set_cpu"
      if e.op == "RET" && e.arg 0 == "set_cpu" then
        if (e.arg 1 == "0") != ok then P.fail s!"set_cpu returned {e.arg 1}, model says ok={ok}"
      else toRet
    toRet
  | "CALL", "sync" => syncBody t
  | "CALL", "barrier" => barrierBody t
  | "CALL", "before_fork" => beforeFork t
  | "CALL", "after_fork_parent" => afterForkParent t
  | "CALL", "after_fork_child" => afterForkChild t
  | "CALL", "bp_before_fork" =>
    let m ← expectSig t "block"
    checkMask t m "urcu_bp_before_fork (old mask)"
    labBp (.bfCall t)
    expect t "LOCK" ["gp_lock"]; labBp (.bfGp t)
    expect t "LOCK" ["registry_lock"]; labBp (.bfRg t)
    expect t "RET" ["bp_before_fork"]
  | "CALL", "bp_after_fork_parent" =>
    expect t "UNLOCK" ["registry_lock"]; labBp (.apRg t)
    expect t "UNLOCK" ["gp_lock"]; labBp (.apGp t)
    let m ← expectSig t "restore"
    checkMask t m "urcu_bp_after_fork_parent"
    expect t "RET" ["bp_after_fork_parent"]
  | "CALL", "bp_after_fork_child" =>
    -- urcu_bp_prune_registry() only does plain stores (not visible); its effect is compared through REGISTRY
    expect t "UNLOCK" ["registry_lock"]; labBp (.acPrune t); labBp (.acRg t)
    expect t "UNLOCK" ["gp_lock"]; labBp (.acGp t)
    let m ← expectSig t "restore"
    checkMask t m "urcu_bp_after_fork_child"
    expect t "RET" ["bp_after_fork_child"]
  | "CALL", _ => skipToRet t (e.arg 0)
  | "CPU", _ =>
    let cpu ← num (e.arg 0)
    modify fun g => { g with cpuOf := (t, cpu) :: g.cpuOf.filter (·.1 != t) }
  | "FORK", _ =>
    let e2 ← rel t "FORK_PARENT / FORK_CHILD"
    if e2.op == "FORK_PARENT" then
      lab (.forkParent t); labBp (.forkParent t); cover "fork_parent"
    else if e2.op == "FORK_CHILD" then
      lab (.forkChild t); labBp (.fork t)
      modify fun g => { g with gen := g.gen + 1 }
      cover "fork_child"
    else P.fail s!"expected FORK_PARENT or FORK_CHILD, got {e2.show}"
  | "MASK", _ =>
    match maskOf (e.arg 0) with
    | .ok m => labBp (.setMask t m)
    | .error er => P.fail er
  | "FORK_EXEC", _ =>
    -- a thread that only uses the bp handlers: its fork() is seen from the parent side only
    labBp (.forkParent t); cover "fork_exec"
  | "REGISTRY", _ => checkRegistry t e
  | "CRDLIST", _ => checkCrdList e
  | "ATFORK", _ => checkAtFork e
  | "FINAL", _ => modify fun g => { g with stopped := true }
  | "LOCK", "registry_lock" =>
    -- bp: the pthread-key destructor unregisters an exiting thread (handled in `rel`); nothing else
    -- takes the registry lock at top level
    if g.flavor != "bp" then P.fail s!"registry_lock taken outside any known operation"
  | _, _ => pure ()
  appLoop t

-- ------------------------------------------------------------------------------------------
-- helper thread (`call_rcu_thread`)
-- ------------------------------------------------------------------------------------------

/-- `rcu_register_thread()` / `rcu_unregister_thread()` of a helper: memb/mb/qsbr = one registry-lock
section; bp: registration = one section (first time only), unregistration = nothing -/
partial def regSection (t : Nat) (what : String) : M Unit := do
  let e ← rel t s!"LOCK registry_lock ({what})"
  if e.op == "SIGMASK" then regSection t what
  else if e.op == "LOCK" && e.arg 0 == "registry_lock" then
    let rec toUnlock : M Unit := do
      let e ← rel t "UNLOCK registry_lock"
      if e.op == "UNLOCK" && e.arg 0 == "registry_lock" then pure ()
      else if e.op == "SIGMASK" then toUnlock
      else P.fail s!"{what}: expected UNLOCK registry_lock, got {e.show}"
    toUnlock
  else P.fail s!"{what}: expected LOCK registry_lock, got {e.show}"

/-- a callback running on helper `h` (thread `t`), up to its `INVOKED` -/
partial def cbBody (t h k id : Nat) : M Unit := do
  let e ← rel t "callback events"
  if e.op == "INVOKED" then pure ()
  else if e.op == "CALL" && e.arg 0 == "call_rcu" then
    let nid ← num (e.arg 1)
    let rec body : M Unit := do
      let e ← rel t "chained call_rcu"
      if e.op == "XCHG" then
        match crdLoc (e.arg 0) with
        | some (kk, "tail") =>
          if kk != k then P.fail s!"callback's call_rcu enqueues on crd{kk}, not on its own helper crd{k}"
          if cbOfVal (e.arg 1) != some nid then P.fail s!"chained call_rcu {nid}: enqueues {e.arg 1}"
          lab (.hChain h nid)
          skipToRet t "call_rcu"
        | _ => body
      else if e.op == "RET" then P.fail "chained call_rcu returned without an enqueue"
      else body
    body
    cbBody t h k id
  else if e.op == "CALL" then skipToRet t (e.arg 0) *> cbBody t h k id
  else cbBody t h k id

partial def helperLoop (t h : Nat) : M Unit := do
  let k := h + 1
  -- loop top: `if (uatomic_load(&crdp->flags) & URCU_CALL_RCU_PAUSE)`
  let g ← P.get
  if g.stopped then
    let _ ← rel t "events after FINAL"
    helperLoop t h
  else do
  if g.s.hpc h == .wait then lab (.hWait h)
  let v ← ldFlags t k
  let g ← P.get
  if g.stopped then helperLoop t h else do
  lab (.hTop h)
  let g ← P.get
  let sawPause := (v &&& F_PAUSE) != 0
  if sawPause != (g.s.hpc h == .unreg) then P.fail s!"helper crd{k} {if sawPause then "sees" else "does not see"} PAUSE, the model disagrees"
  if sawPause then
    cover "pause_branch"
    -- rcu_unregister_thread()
    if g.flavor == "bp" then pure () else regSection t "rcu_unregister_thread"
    lab (.hUnreg h)
    -- cmm_smp_mb__before_uatomic_or(); uatomic_or(&crdp->flags, URCU_CALL_RCU_PAUSED)
    orFlags t k F_PAUSED
    lab (.hSetPaused h)
    -- while (flags & PAUSE) poll
    waitFlag t k F_PAUSE false
    lab (.hSpinExit h)
    andNotFlags t k F_PAUSED
    lab (.hClrPaused h)
    if g.flavor == "bp" then pure () else regSection t "rcu_register_thread"
    lab (.hRereg h)
  -- __cds_wfcq_splice_blocking(&cbs_tmp, &crdp->cbs)
  let e ← rel t s!"LD crd{k}.head (splice)"
  if !(e.op == "LD" && e.arg 0 == s!"crd{k}.head") then P.fail s!"helper crd{k}: expected the splice (LD crd{k}.head), got {e.show}"
  let ldTail : M String := do
    let e2 ← rel t s!"LD crd{k}.tail"
    if e2.op == "LD" && e2.arg 0 == s!"crd{k}.tail" then pure (e2.arg 1)
    else P.fail s!"helper crd{k}: expected LD crd{k}.tail inside the splice, got {e2.show}"
  let rec xchgLoop : M Bool := do
    -- head = xchg(&src->head.next, NULL); NULL: empty, or an enqueue is in flight (busy-wait, retry)
    let e ← rel t s!"XCHG crd{k}.head 0"
    if !(e.op == "XCHG" && e.arg 0 == s!"crd{k}.head" && e.arg 1 == "0") then
      P.fail s!"helper crd{k}: expected XCHG crd{k}.head 0 inside the splice, got {e.show}"
    if e.arg 2 != "0" then
      let e3 ← rel t s!"XCHG crd{k}.tail"
      if !(e3.op == "XCHG" && e3.arg 0 == s!"crd{k}.tail" && e3.arg 1 == s!"&crd{k}.head") then
        P.fail s!"helper crd{k}: expected XCHG crd{k}.tail &crd{k}.head, got {e3.show}"
      pure true
    else
      let tl ← ldTail
      if tl == s!"&crd{k}.head" then pure false
      else do cover "splice_busywait"; xchgLoop
  let spliceEv (first : Ev) : M Bool := do
    -- returns true when something was spliced out
    if first.arg 1 == "0" then
      let tl ← ldTail
      if tl == s!"&crd{k}.head" then pure false else xchgLoop
    else xchgLoop
  let got ← spliceEv e
  let g ← P.get
  if got == (g.s.queue h).isEmpty then
    -- the enqueue xchg on the tail precedes the link store: the model already has the callback
    if got then P.fail s!"helper crd{k} splices callbacks, the model's queue is empty"
    else
      -- model has callbacks whose link is not yet visible: treat as empty splice is impossible in the model
      P.fail s!"helper crd{k} finds its queue empty, the model's queue is {g.s.queue h}"
  lab (.hSplice h)
  if got then
    cover "batch"
    -- synchronize_rcu(), then the callbacks in order, then `uatomic_sub(&crdp->qlen, cbcount)`
    let rec gpAndInvoke (inGp : Bool) (gpDone : Bool) : M Unit := do
      let e ← rel t "grace period / INVOKE"
      if e.op == "LOCK" && e.arg 0 == "gp_lock" then
        lab (.hGpBegin h); labBp (.gpCall t); labBp (.gpLock t); gpAndInvoke true false
      else if e.op == "UNLOCK" && e.arg 0 == "gp_lock" then
        lab (.hGpEnd h); labBp (.gpUnlock t); gpAndInvoke false true
      else if e.op == "LOCK" && e.arg 0 == "registry_lock" then labBp (.rgLock t) *> gpAndInvoke inGp gpDone
      else if e.op == "UNLOCK" && e.arg 0 == "registry_lock" then labBp (.rgUnlock t) *> gpAndInvoke inGp gpDone
      else if e.op == "SIGMASK" then gpAndInvoke inGp gpDone
      else
        if !gpDone then do lab (.hGpSkip h); cover "gp_piggyback"
        unget t e
    gpAndInvoke false false
    let rec invoke : M Unit := do
      let e ← rel t "INVOKE / SUB qlen"
      if e.op == "INVOKE" then
        let id ← num (e.arg 0)
        lab (.hInvoke h id)
        cbBody t h k id
        invoke
      else if e.op == "SUBR" && (e.arg 0).startsWith "compl" then
        -- _rcu_barrier_complete(): the marker at the head of the batch
        let g ← P.get
        match (g.s.batch h).head? with
        | some id =>
          if id < WORK0 then P.fail s!"helper crd{k} runs a barrier marker, the model's next callback is {id}"
          lab (.hInvoke h id)
          cover "marker"
          invoke
        | none => P.fail s!"helper crd{k} runs a barrier marker, the model's batch is empty"
      else if e.op == "SUB" && e.arg 0 == s!"crd{k}.qlen" then
        lab (.hInvDone h)
      else if e.op == "FREE" || e.op == "LD" && (e.arg 0).startsWith "compl" then invoke
      else if e.op == "FUTEX_WAKE" || e.op == "ST" then invoke
      else P.fail s!"helper crd{k}: unexpected {e.show} while invoking its batch (model batch {g.s.batch h})"
    invoke
  -- `if (uatomic_load(&crdp->flags) & URCU_CALL_RCU_STOP) break;`
  let v ← ldFlags t k
  if v &&& F_STOP != 0 then
    let g ← P.get
    if !g.stopped then P.fail s!"helper crd{k} sees STOP before the teardown phase"
  -- offline, empty check, futex wait / poll, online: skipped up to the next loop top
  let rec toTop : M Unit := do
    let e ← rel t "wait part of the helper loop"
    if e.op == "LD" && e.arg 0 == s!"crd{k}.flags" then unget t e
    else if e.op == "LD" || e.op == "SUB" || e.op == "FUTEX_WAIT" || e.op == "FUTEX_WOKEN" then
      if (crdLoc (e.arg 0)).map (·.1) == some k then toTop else P.fail s!"helper crd{k}: unexpected {e.show} in its wait part"
    else P.fail s!"helper crd{k}: unexpected {e.show} in its wait part"
  toTop
  helperLoop t h

def helperMain (t h : Nat) : M Unit := do
  let k := h + 1
  let g ← P.get
  if g.flavor == "bp" && g.bp.pc t == .gone then labBp (.spawn t)
  -- int rt = !!(flags & RT); rcu_register_thread(); TLS; if (!rt) { dec futex; mb }
  let _ ← ldFlags t k
  regSection t "rcu_register_thread"
  lab (.hStart h)
  let g ← P.get
  if rdFlags g k &&& F_RT == 0 then
    let e ← rel t s!"SUB crd{k}.futex"
    if !(e.op == "SUB" && e.arg 0 == s!"crd{k}.futex") then P.fail s!"expected SUB crd{k}.futex, got {e.show}"
  helperLoop t h

def fresh (t : Nat) (g : G) : Prog G :=
  match hOf g t with
  | some h => P.run (helperMain t h)
  | none => P.run (appLoop t)

structure St where
  r : Run G := { g := {} }
  n : Nat := 0

def feedLine (st : St) (ws : List String) : Except String St := do
  match ws with
  | "CFG" :: rest =>
    let fl := (rest.find? (·.startsWith "flavor=")).map (fun w => (w.drop 7).toString)
    pure { st with r := { st.r with g := { st.r.g with flavor := fl.getD "memb" } } }
  | _ =>
    match parseEv ws with
    | none => pure st
    | some e =>
      if st.r.g.stopped then pure { st with n := st.n + 1 }
      else
        -- RT flag of a new helper: `CALL create <flags> <cpu>` is followed by ALLOC; remember flags via the store? the
        -- helper's first LD flags is compared with the shadow, so record the creation flags here
        let r ← feed fresh st.r e
        pure { st with r := r, n := st.n + 1 }

def summary (st : St) : String :=
  let g := st.r.g
  s!"events={st.n} flavor={g.flavor} gen={g.gen} helpers={g.s.nextH} list={g.s.list.length} stopped={g.stopped} {showCov g.cov}"

end FkDrv

def main (args : List String) : IO UInt32 := do
  let _ := args
  let stdin ← IO.getStdin
  Driver.loop stdin FkDrv.feedLine FkDrv.summary {} 0
