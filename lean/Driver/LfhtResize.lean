import Driver.Common
import UrcuVerif.Lfht.Resize
import UrcuVerif.Lfht.Mm
/-! Trace checker for C09: replays the lines of `harness/scen/lfht_resize.c` on the executable
model (`Lfht/Resize.lean`, `Lfht/Mm.lean`) and reports the first line where they differ. -/
open UrcuVerif.Lfht.Resize UrcuVerif.Lfht.Mm UrcuVerif.Gen Driver

/-- what the harness can observe of the model's ghost events -/
inductive Obs
  | alloc (o size n nmemb : Nat) | rl (size n : Nat) | sync (size : Nat) | free (o size : Nat) | freeHt
  deriving Repr, DecidableEq

structure D where
  cov : List (String × Nat) := []
  pageBuckets : Nat := 256
  nrCpusMask : Int := 0
  splitMask : Nat := 15
  sco : Nat := 4
  params : Option Params := none
  cfg : Cfg := { mo := 0, n := 2, auto := false }
  st : State := init 0
  pend : List Obs := []           -- `ev` lines since the last operation (oldest first)
  keys : List Nat := []
  amax : Nat := 0                 -- section E table
  alive : Bool := false

def kindOf : String → Except String Kind
  | "order" => .ok .order | "chunk" => .ok .chunk | "mmap" => .ok .mmap
  | s => .error s!"bad allocator {s}"

def nThreads (mask : Int) (len : Nat) : Nat :=
  let p := partitionPlan mask len false none
  p.1.length + p.2.toList.length

/-- chronological model events → observations, tracking the published size -/
def toObs (p : Params) (mask : Int) : Nat → List Ev → List Obs
  | _, [] => []
  | cur, .alloc o :: es => .alloc o cur (allocCallocs p o).1 (if (allocCallocs p o).1 = 0 then 0 else (allocCallocs p o).2) :: toObs p mask cur es
  | cur, .populate o :: es => .rl cur (nThreads mask (2 ^ (o - 1))) :: toObs p mask cur es
  | _, .size s :: es => toObs p mask s es
  | cur, .sync :: es => .sync cur :: toObs p mask cur es
  | cur, .remove o :: es => .rl cur (nThreads mask (2 ^ (o - 1))) :: toObs p mask cur es
  | cur, .free o :: es => .free o cur :: toObs p mask cur es
  | _, .freeHt :: es => .freeHt :: toObs p mask 0 es

def newEvents (old new : State) : List Ev := (new.log.take (new.log.length - old.log.length)).reverse

def check (c : Bool) (msg : String) : Except String Unit := if c then .ok () else .error msg

/-- compare the model's new events with the `ev` lines collected -/
def cmpEvents (d : D) (old new : State) : Except String Unit := do
  let some p := d.params | .error "no table"
  let want := toObs p d.nrCpusMask old.size (newEvents old new)
  check (want = d.pend) s!"event order differs: model {repr want} implementation {repr d.pend}"
  check (!new.bad) "model: ordering rule broken (alloc→populate→publish / unpublish→GP→remove→GP→free / use after free)"

def stepE (d : D) (s : State) (op : Op) : Except String State :=
  match step d.cfg s op with
  | some s' => .ok s'
  | none => .error s!"model: operation {repr op} not enabled (size={s.size} target={s.target} rpc={repr s.rpc})"

/-- run the resizer through `step .rz` until it releases the mutex -/
def runRz (d : D) : Nat → State → Except String State
  | 0, _ => .error "model: resizer did not finish within the step budget"
  | f+1, s => if s.rpc = .idle then .ok s else do
      let s' ← stepE d s .rz
      runRz d f s'

def launchSteps (d : D) : Nat → State → Except String State
  | 0, s => .ok s
  | f+1, s => match s.apc 0 with
    | .l0 | .l1 | .l2 | .l3 => do let s' ← stepE d s (.launch 0); launchSteps d f s'
    | .cas _ _ => do let s' ← stepE d s (.cas 0); launchSteps d f s'
    | _ => .ok s

def parseRanges : List String → Except String (List (Nat × Nat) × List (Nat × Nat))
  | [] => .ok ([], [])
  | t :: s :: l :: more => do
      let s ← natOf s; let l ← natOf l
      let (hs, fs) ← parseRanges more
      if t = "H" then pure ((s, l) :: hs, fs) else pure (hs, (s, l) :: fs)
  | _ => .error "bad part line"

def drive (d : D) (ws : List String) : Except String D := do
  let d := { d with cov := bump d.cov ws.head! }
  match ws with
  | ["cfg", "pagebuckets", n] => do let n ← natOf n; pure { d with pageBuckets := n }
  | ["cfg", "nrcpusmask", m] => do let m ← intOf m; pure { d with nrCpusMask := m }
  | ["cfg", "nrcpusmask", m, "splitmask", sm, "sco", o] => do
      let m ← intOf m; let sm ← natOf sm; let o ← natOf o
      pure { d with nrCpusMask := m, splitMask := sm, sco := o }
  | ["cfg", "splitmask", sm, "sco", o] => do
      let sm ← natOf sm; let o ← natOf o; pure { d with splitMask := sm, sco := o }
  -- pure helpers -------------------------------------------------------------------------------
  | ["co", x, r] => do
      let x ← natOf x; let r ← intOf r
      check (getCountOrder x = r) s!"getCountOrder {x} = {getCountOrder x}"
      pure d
  | ["fls", x, r] => do
      let x ← natOf x; let r ← natOf r
      check (fls x = r) s!"fls {x} = {fls x}"
      pure d
  | ["rtuc", mx, req, t] => do
      let mx ← natOf mx; let req ← natOf req; let t ← natOf t
      let m := resizeTargetUpdateCount mx req
      check (m = t) s!"resizeTargetUpdateCount {mx} {req} = {m} (the target must be the clamped request rounded up to a power of two)"
      let tag := if req < MIN_TABLE_SIZE then "rtuc_min" else if req > mx then "rtuc_clamped"
                 else if isPow2 req then "rtuc_exact" else "rtuc_rounded"
      pure { d with cov := bump d.cov tag }
  | ["mmp", k, init, mn, mx, "null"] => do
      let k ← kindOf k; let init ← natOf init; let mn ← natOf mn; let mx ← natOf mx
      check (newTable k d.pageBuckets init mn mx = none) "model accepts the parameters, implementation returned NULL"
      pure { d with cov := bump d.cov "mmp_null" }
  | ["mmp", k, init, mn, mx, ma, mo, mx', sz] => do
      let k ← kindOf k; let init ← natOf init; let mn ← natOf mn; let mx ← natOf mx
      let ma ← natOf ma; let mo ← natOf mo; let mx' ← natOf mx'; let sz ← natOf sz
      let want : Params := { kind := k, minAlloc := ma, minOrder := mo, mx := mx', size0 := sz }
      check (newTable k d.pageBuckets init mn mx = some want) s!"table parameters: model {repr (newTable k d.pageBuckets init mn mx)}"
      pure d
  | ["ba", k, ma, mo, mx, idx, slot, off, len] => do
      let k ← kindOf k; let ma ← natOf ma; let mo ← natOf mo; let mx ← natOf mx
      let idx ← natOf idx; let slot ← natOf slot; let off ← natOf off; let len ← natOf len
      let p : Params := { kind := k, minAlloc := ma, minOrder := mo, mx := mx, size0 := 0 }
      let r := bucketAt p idx
      check (r = (slot, off)) s!"bucketAt {idx} = {repr r}"
      check (allocLen p slot = len) s!"allocLen slot {slot} = {allocLen p slot}"
      check (off < len) "offset outside the allocation"
      pure { d with cov := bump d.cov (if slot = 0 then "ba_slot0" else "ba_slotN") }
  | "part" :: mask :: len :: cf :: fa :: rest => do
      let mask ← intOf mask; let len ← natOf len; let cf ← boolOf cf; let fa ← intOf fa
      let (hs, fs) ← parseRanges rest
      let plan := partitionPlan mask len cf (if fa < 0 then none else some fa.toNat)
      check (plan.1 = hs ∧ plan.2.toList = fs) s!"partition plan: model {repr plan}"
      let tag := if hs.isEmpty then "part_fallback_only" else if fs.isEmpty then "part_threads_only" else "part_threads_and_leftover"
      pure { d with cov := bump d.cov tag }
  -- lazy arithmetic ------------------------------------------------------------------------------
  | ["lg", mx, tgt, size, growth, t', l] => do
      let mx ← natOf mx; let tgt ← natOf tgt; let size ← natOf size; let growth ← natOf growth
      let t' ← natOf t'; let l ← natOf l
      let r := lazyGrow mx tgt size growth
      check (r = (t', l != 0)) s!"lazyGrow = {repr r}"
      pure { d with cov := bump d.cov (if r.2 then "lg_store" else "lg_noop") }
  | ["lc", auto, mx, tgt, size, count, t', l] => do
      let auto ← boolOf auto; let mx ← natOf mx; let tgt ← natOf tgt; let size ← natOf size
      let count ← natOf count; let t' ← natOf t'; let l ← natOf l
      let r := lazyCount auto mx tgt size count
      check (r = (t', l != 0)) s!"lazyCount = {repr r}"
      let c := clampCount mx count
      let tag := if !auto then "lc_noauto" else if c = size then "lc_same" else if c > size then (if r.2 then "lc_grow" else "lc_grow_noop")
                 else (if r.2 then (if tgt = size then "lc_shrink" else "lc_shrink_retry") else if tgt > size then "lc_shrink_refused_growing" else "lc_shrink_refused_other")
      pure { d with cov := bump d.cov tag }
  | ["ca", auto, mx, sc, cnt, size, tgt, c', t', l] => do
      let auto ← boolOf auto; let mx ← natOf mx; let sc ← natOf sc; let cnt ← natOf cnt; let size ← natOf size
      let tgt ← natOf tgt; let c' ← natOf c'; let t' ← natOf t'; let l ← natOf l
      let r := htCountAdd sc cnt size
      check (r.1 = c') s!"htCountAdd count = {r.1}"
      let lz := match r.2 with | none => (tgt, false) | some a => lazyCount auto mx tgt size a
      check (lz = (t', l != 0)) s!"htCountAdd → lazyCount = {repr lz} (arg {repr r.2})"
      pure { d with cov := bump d.cov (if r.2.isSome then "ca_lazy" else "ca_none") }
  | ["cd", auto, mx, mask, sc, cnt, size, tgt, c', t', l] => do
      let auto ← boolOf auto; let mx ← natOf mx; let mask ← natOf mask; let sc ← natOf sc; let cnt ← natOf cnt
      let size ← natOf size; let tgt ← natOf tgt; let c' ← natOf c'; let t' ← natOf t'; let l ← natOf l
      let r := htCountDel mask sc cnt size
      check (r.1 = c') s!"htCountDel count = {r.1}"
      let lz := match r.2 with | none => (tgt, false) | some a => lazyCount auto mx tgt size a
      check (lz = (t', l != 0)) s!"htCountDel → lazyCount = {repr lz} (arg {repr r.2})"
      pure { d with cov := bump d.cov (if r.2.isSome then "cd_lazy" else "cd_none") }
  | ["cr", auto, acct, sco, mx, cnt, tgt, size, chain, t', l] => do
      let auto ← boolOf auto; let acct ← boolOf acct; let sco ← natOf sco; let mx ← natOf mx; let cnt ← natOf cnt
      let tgt ← natOf tgt; let size ← natOf size; let chain ← natOf chain; let t' ← natOf t'; let l ← natOf l
      let r := checkResize auto acct sco cnt size chain
      let lz := match r with | none => (tgt, false) | some (s, g) => lazyGrow mx tgt s g
      check (lz = (t', l != 0)) s!"checkResize = {repr r} → {repr lz}"
      pure { d with cov := bump d.cov (if r.isSome then "cr_grow" else "cr_none") }
  -- end-to-end -----------------------------------------------------------------------------------
  | ["new", k, ma, mo, mx, size, auto, _acct] => do
      let k ← kindOf k; let ma ← natOf ma; let mo ← natOf mo; let mx ← natOf mx; let size ← natOf size
      let auto ← boolOf auto
      check (isPow2 mx ∧ isPow2 size ∧ size ≤ mx ∧ isPow2 ma ∧ order ma = mo) "table header not well formed"
      let p : Params := { kind := k, minAlloc := ma, minOrder := mo, mx := mx, size0 := size }
      pure { d with params := some p, cfg := { mo := order mx, n := 2, auto := auto }, st := init (order size),
                    pend := [], keys := [], alive := true }
  | ["ev", kind, o, size, n, nmemb] => do
      let o ← natOf o; let size ← natOf size; let n ← natOf n; let nmemb ← natOf nmemb
      let e ← match kind with
        | "alloc" => pure (Obs.alloc o size n nmemb) | "rl" => pure (Obs.rl size n) | "sync" => pure (Obs.sync size)
        | "free" => pure (Obs.free o size) | "freeht" => pure Obs.freeHt
        | _ => .error "bad event"
      pure { d with pend := d.pend ++ [e] }
  | ["created"] => do
      let some p := d.params | .error "no table"
      let want := (List.range (order p.size0 + 1)).map fun o =>
        Obs.alloc o 0 (allocCallocs p o).1 (if (allocCallocs p o).1 = 0 then 0 else (allocCallocs p o).2)
      check (want = d.pend) s!"creation events: model {repr want} implementation {repr d.pend}"
      pure { d with pend := [] }
  | ["resize", req, size'] => do
      let req ← natOf req; let size' ← natOf size'
      let s0 := d.st
      let s ← stepE d s0 (.resizeCall 0 req)
      let s ← stepE d s (.resizeInit 0)
      let s ← stepE d s (.resizeLock 0)
      let s ← runRz d 4000 s
      cmpEvents d s0 s
      check (s.size = size') s!"size after resize: model {s.size}"
      check (s.size = s.target) "model: size ≠ target at exit"
      let tag := if s.size > s0.size then "resize_grow" else if s.size < s0.size then "resize_shrink" else "resize_same"
      let tag2 := if req = 0 then "req_zero" else if req ≥ 2^64 - 1 then "req_ulongmax" else if req > d.cfg.mx then "req_above_max"
                  else if isPow2 req then "req_pow2" else "req_nonpow2"
      pure { d with st := s, pend := [], cov := bump (bump d.cov tag) tag2 }
  | ["lgrow", sz, growth, t', l] => do
      let sz ← natOf sz; let growth ← natOf growth; let t' ← natOf t'; let l ← natOf l
      let s0 := d.st
      let s ← stepE d s0 (.lazyGrow 0 sz growth)
      check (s.target = t') s!"target after lazy grow: model {s.target}"
      let s ← launchSteps d 8 s
      check (s.queue.length - s0.queue.length = l) s!"works queued: model {s.queue.length - s0.queue.length}"
      pure { d with st := s }
  | ["lcount", sz, count, t', l] => do
      let sz ← natOf sz; let count ← natOf count; let t' ← natOf t'; let l ← natOf l
      let s0 := d.st
      let s ← stepE d s0 (.lazyCount 0 sz count)
      let s ← launchSteps d 80 s
      check (s.target = t') s!"target after lazy count: model {s.target}"
      check (s.queue.length - s0.queue.length = l) s!"works queued: model {s.queue.length - s0.queue.length}"
      pure { d with st := s }
  | "work" :: kind :: rest => do
      let s0 := d.st
      if kind = "none" then
        check (s0.queue = []) "model has queued work"
        pure d
      else
        let s ← stepE d s0 .workerTake
        if kind = "resize" then
          let size' ← natOf (rest.headD "x")
          check (s.wk = .wantLock) "model: oldest work is not a resize"
          let s ← stepE d s .workerLock
          let s ← runRz d 4000 s
          cmpEvents d s0 s
          check (s.size = size') s!"size after resize work: model {s.size}"
          pure { d with st := s, pend := [], cov := bump d.cov (if s0.destroy then "work_resize_cancelled" else "work_resize") }
        else
          check (s.wk = .destroying) "model: oldest work is not the destroy work"
          let s ← stepE d s .workerDestroy
          cmpEvents d s0 s
          check (s.dead) "model: table not freed"
          pure { d with st := s, pend := [], alive := false, cov := bump d.cov "work_destroy" }
  | ["destroy", rc] => do
      let rc ← intOf rc
      check (rc = 0) "cds_lfht_destroy failed on an empty table"
      check (d.keys = []) "harness destroyed a non-empty table"
      let s0 := d.st
      let s ← stepE d s0 (.destroy 0)
      if d.cfg.auto then
        let s ← stepE d s (.destroyQueue 0)
        check (!s.bad) "model: ordering rule broken"
        pure { d with st := s, cov := bump d.cov (if s0.queue.isEmpty then "destroy_queue_empty" else "destroy_behind_resize") }
      else
        cmpEvents d s0 s
        pure { d with st := s, pend := [], alive := false, cov := bump d.cov "destroy_direct" }
  | ["add", k, r] => do
      let k ← natOf k; let r ← boolOf r
      check (r = !d.keys.contains k) "add result differs from the reference key set"
      pure { d with keys := if r then k :: d.keys else d.keys }
  | ["del", k, rc] => do
      let k ← natOf k; let rc ← intOf rc
      check ((rc = 0) = d.keys.contains k) "del result differs from the reference key set"
      pure { d with keys := d.keys.erase k }
  | ["addrange", a, b] => do
      let a ← natOf a; let b ← natOf b
      pure { d with keys := (List.range (b - a)).map (· + a) ++ d.keys }
  | ["delrange", a, b] => do
      let a ← natOf a; let b ← natOf b
      pure { d with keys := d.keys.filter fun k => k < a ∨ k ≥ b }
  | ["chk", want, found] => do
      let want ← natOf want; let found ← natOf found
      check (want = d.keys.length ∧ found = want) s!"contents after resize: reference has {d.keys.length} keys, implementation wants {want} finds {found}"
      pure d
  -- automatic resize (asynchronous worker: arithmetic of each committing operation + invariants) --
  | ["auto", mx, mask, sco] => do
      let mx ← natOf mx; let mask ← natOf mask; let sco ← natOf sco
      pure { d with amax := mx, splitMask := mask, sco := sco }
  | ["cadd", _k, sc, cnt0, size0, tgt0, cnt1, tgt1] => do
      let sc ← natOf sc; let cnt0 ← natOf cnt0; let size0 ← natOf size0; let tgt0 ← natOf tgt0
      let cnt1 ← natOf cnt1; let tgt1 ← natOf tgt1
      let r := htCountAdd sc cnt0 size0
      check (r.1 = cnt1) s!"count after committing add: model {r.1}"
      check (isPow2 tgt1 ∧ tgt1 ≤ d.amax) "resize_target not a power of two within bounds"
      if cnt0 ≥ shl 1 (COUNT_COMMIT_ORDER + d.sco) then
        let lz := match r.2 with | none => tgt0 | some a => (lazyCount true d.amax tgt0 size0 a).1
        check (lz = tgt1) s!"target after committing add: model {lz}"
        pure { d with cov := bump d.cov (if r.2.isSome then "cadd_exact_lazy" else "cadd_exact_none") }
      else pure { d with cov := bump d.cov "cadd_small_table" }
  | ["cdel", _k, sc, cnt0, size0, tgt0, cnt1, tgt1] => do
      let sc ← natOf sc; let cnt0 ← natOf cnt0; let size0 ← natOf size0; let tgt0 ← natOf tgt0
      let cnt1 ← natOf cnt1; let tgt1 ← natOf tgt1
      let r := htCountDel d.splitMask sc cnt0 size0
      check (r.1 = cnt1) s!"count after committing del: model {r.1}"
      let lz := match r.2 with | none => tgt0 | some a => (lazyCount true d.amax tgt0 size0 a).1
      check (lz = tgt1) s!"target after committing del: model {lz}"
      pure { d with cov := bump d.cov (if r.2.isSome then "cdel_lazy" else "cdel_none") }
  | ["sadd", _k, size0, tgt0, tgt1] => do
      let size0 ← natOf size0; let tgt0 ← natOf tgt0; let tgt1 ← natOf tgt1
      check ((List.range 33).any fun g => (lazyGrow d.amax tgt0 size0 g).1 = tgt1)
        "chain-length growth: no growth ≤ 32 explains the new target"
      check (isPow2 tgt1 ∧ tgt1 ≤ d.amax ∧ tgt0 < tgt1) "resize_target not a larger power of two within bounds"
      pure d
  | ["achk", want, found] => do
      let want ← natOf want; let found ← natOf found
      check (found = want) "automatic resize lost or invented keys"
      pure d
  | ["asize", _k, size, tgt] => do
      let size ← natOf size; let tgt ← natOf tgt
      check (isPow2 size ∧ size ≤ d.amax ∧ size = tgt) "after quiescence: size must equal target, a power of two within bounds"
      pure d
  | ["autofin", size, tgt, g, s] => do
      let size ← natOf size; let tgt ← natOf tgt; let g ← natOf g; let s ← natOf s
      -- (whether this run both grew and shrank is coverage of the generator - the library's lazy-launch race can switch automatic
      -- resizing off for the rest of a run - and is reported by the harness as a NOTE, not checked here)
      let _ := g; let _ := s
      check (isPow2 size ∧ size ≤ d.amax ∧ size = tgt) "automatic resize summary"
      pure d
  | ["adestroy", rc, live] => do
      let rc ← intOf rc; let live ← intOf live
      check (rc = 0 ∧ live = 0) "automatic table: destroy / leak"
      pure d
  | ["rdestroy", rc, live] => do
      let rc ← intOf rc; let live ← intOf live
      check (rc = 0 ∧ live = 0) "destroy behind queued resize: rc / leak"
      pure d
  | ["conc", "done"] => pure d
  | "note" :: _ => pure d
  | ws => .error s!"unparsable line {ws}"

def main : IO UInt32 := do
  loop (← IO.getStdin) drive (fun d => showCov d.cov) ({} : D) 0
