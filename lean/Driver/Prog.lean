import Driver.Common
/-!
Thread programs as coroutines that *consume* the event stream of the harness.

A component's driver transliterates each C function into a `P G α` program (`do`-notation reads
like the C text): `ev` consumes the thread's next event and fails if it is not the expected one;
`act` updates the global driver state `G` (typically: feed a label to the proven Lean model and
fail if the model's `step` says it is not enabled).  The runner dispatches each trace line to the
program of its thread.  This is the "L1" event-level layer of DESIGN §10; it is executable glue
of the correspondence check, the theorems are about the model the labels are replayed on.
-/
namespace Driver

structure Ev where
  tid : Nat
  op : String
  args : List String
  deriving Repr

def Ev.arg (e : Ev) (i : Nat) : String := e.args.getD i ""
def Ev.show (e : Ev) : String := s!"T{e.tid} {e.op} {" ".intercalate e.args}"

/-- "T3 LD gp.ctr 1 0" -/
def parseEv (ws : List String) : Option Ev :=
  match ws with
  | t :: op :: args =>
    if t.startsWith "T" then (t.drop 1).toString.toNat?.map fun n => { tid := n, op := op, args := args }
    else none
  | _ => none

inductive Prog (G : Type) where
  | done : Prog G
  | need (k : G → Ev → Except String (G × Prog G)) : Prog G
  | tau (k : G → Except String (G × Prog G)) : Prog G

instance {G} : Inhabited (Prog G) := ⟨.done⟩

/-- continuation monad over `Prog` -/
def P (G : Type) (α : Type) := (α → Prog G) → Prog G

instance {G} : Monad (P G) where
  pure a := fun k => k a
  bind m f := fun k => m (fun a => f a k)

instance {G α} : Inhabited (P G α) := ⟨fun _ => .done⟩

namespace P
variable {G : Type}

/-- consume the next event of this thread; `m` returns the value extracted or an error -/
def evE {α} (m : G → Ev → Except String α) : P G α :=
  fun k => .need fun g e => (m g e).map fun a => (g, k a)

def ev {α} (desc : String) (m : Ev → Option α) : P G α :=
  evE fun _ e => match m e with
    | some a => .ok a
    | none => .error s!"expected {desc}"

/-- internal action on the global state -/
def act (f : G → Except String G) : P G Unit :=
  fun k => .tau fun g => (f g).map fun g' => (g', k ())

def get : P G G := fun k => .tau fun g => .ok (g, k g)

def fail {α} (msg : String) : P G α := fun _ => .tau fun _ => .error msg

def run (p : P G Unit) : Prog G := p (fun _ => .done)

/-- exactly this op with exactly these args -/
def expect (op : String) (args : List String) : P G Unit :=
  ev s!"{op} {" ".intercalate args}" fun e => if e.op == op && e.args == args then some () else none

/-- op with given location, returns remaining args -/
def evAt (op loc : String) : P G (List String) :=
  ev s!"{op} {loc} …" fun e => if e.op == op && e.arg 0 == loc then some (e.args.drop 1) else none

end P

/-- runner state: global + per-thread continuation -/
structure Run (G : Type) where
  g : G
  thr : List (Nat × Prog G) := []
  saved : List (Nat × Prog G) := []   -- continuations of frames interrupted by a synthetic signal (LIFO per thread)
  cov : List (String × Nat) := []

def Run.getT {G} (r : Run G) (t : Nat) : Option (Prog G) := (r.thr.find? (·.1 == t)).map (·.2)
def Run.setT {G} (r : Run G) (t : Nat) (p : Prog G) : Run G :=
  { r with thr := (t, p) :: r.thr.filter (·.1 != t) }

/-- run internal actions until the program needs an event (fuel guards against tau loops) -/
def settle {G} : Nat → G → Prog G → Except String (G × Prog G)
  | 0, _, _ => .error "internal: tau loop"
  | n+1, g, .tau k => do let (g', p') ← k g; settle n g' p'
  | _, g, p => .ok (g, p)

/-- feed one event.  `fresh t g` = program of a thread seen for the first time. -/
def feed {G} (fresh : Nat → G → Prog G) (r : Run G) (e : Ev) : Except String (Run G) := do
  let p := (r.getT e.tid).getD (fresh e.tid r.g)
  let (g1, p1) ← settle 10000 r.g p
  match p1 with
  | .need k =>
    let (g2, p2) ← k g1 e
    let (g3, p3) ← settle 10000 g2 p2
    pure ({ r with g := g3 }.setT e.tid p3)
  | .done => .error s!"thread T{e.tid} emitted an event after its program ended"
  | .tau _ => .error "internal: unsettled"

/-- `SIG_ENTER` on thread `t`: suspend its current program and run `handler` instead;
`SIG_EXIT` (consumed by the handler program, which then ends) resumes it. -/
def sigEnter {G} (fresh : Nat → G → Prog G) (handler : Prog G) (r : Run G) (t : Nat) : Except String (Run G) := do
  let p := (r.getT t).getD (fresh t r.g)
  let (g1, p1) ← settle 10000 r.g p
  let (g2, h2) ← settle 10000 g1 handler
  pure ({ r with g := g2, saved := (t, p1) :: r.saved }.setT t h2)

def isDone {G} : Prog G → Bool
  | .done => true
  | _ => false

/-- after an event: if the thread's (handler) program has ended and a suspended frame exists, resume it -/
def sigResume {G} (r : Run G) (t : Nat) : Run G :=
  match r.getT t with
  | some p =>
    if isDone p then
      match r.saved.find? (·.1 == t) with
      | some (_, q) => { r with saved := r.saved.eraseP (·.1 == t) }.setT t q
      | none => r
    else r
  | none => r

end Driver
