import Driver.Common
import UrcuVerif.Gen.Src
/-!
Validation of the source translator (`harness/gen/gen_src.py`) and of the IR semantics (`UrcuVerif/Src/IR.lean`) against the
**compiled code**: the traces of the existing scenario harnesses (which run the real /repo functions under the shim) are cut
into the per-thread event sequences of individual calls; for each call the generated IR of that function is run by `Src.exec`
with the oracle taken from the trace (values the loads / RMWs returned) and the events it emits must be, line for line, the
events the compiled function performed (same locations, values, memory orders, fences, in the same order).

usage: drv_src <mode>      modes: gp-memb gp-mb gp-bp wfs lfs wfcq        (trace on stdin)
Calls interrupted by the end of the trace are compared as prefixes.  Lines of operations that are not translated
(`LOCK`, `ALLOC`, …) are ignored; calls of functions without an entry in `callSpec` are counted as `skipped:<op>`.
-/
open UrcuVerif.Src Driver

namespace SrcDrv

structure Call where
  op : String
  fn : Stmt
  params : List String
  args : List Val
  lines : List (List String) := []     -- event lines (words without the thread id), newest first
  deriving Inhabited

structure Thr where
  priv : List (Loc × Val) := []
  ridx : Nat := 0                      -- gp: reader index (from `READER n`)
  cur : Option Call := none
  deriving Inhabited

structure D where
  mode : String
  cfg : List (String × String) := []
  thr : List (Nat × Thr) := []
  cov : List (String × Nat) := []
  compared : Nat := 0
  events : Nat := 0

def D.getT (d : D) (t : Nat) : Thr := ((d.thr.find? (·.1 == t)).map (·.2)).getD {}
def D.setT (d : D) (t : Nat) (x : Thr) : D := { d with thr := (t, x) :: d.thr.filter (·.1 != t) }
def D.cfgOf (d : D) (k : String) : String := ((d.cfg.find? (·.1 == k)).map (·.2)).getD ""

def flavor (mode : String) : String := (mode.drop 3).toString        -- "gp-memb" -> "memb"

/-- object numbering of the stack / queue scenarios: n<k> ↦ k, q<j>h ↦ 1000+j, q<j>t ↦ 2000+j, the stack ↦ 3000 -/
def objOfName (s : String) : Option Nat :=
  if s.startsWith "node" then (s.drop 4).toString.toNat?
  else if s.startsWith "dummy" then (s.drop 5).toString.toNat?.map (· + 500)
  else if s.startsWith "n" then (s.drop 1).toString.toNat?
  else if s.startsWith "q" && s.endsWith "h" then ((s.drop 1).toString.dropEnd 1).toString.toNat?.map (· + 1000)
  else if s.startsWith "q" && s.endsWith "t" then ((s.drop 1).toString.dropEnd 1).toString.toNat?.map (· + 2000)
  else if s.startsWith "q" then (s.drop 1).toString.toNat?.map (· + 1000)
  else none

def objNameLfq (k : Nat) : String := if k < 500 then s!"node{k}" else s!"dummy{k - 500}"

def objName (k : Nat) : String :=
  if k < 1000 then s!"n{k}" else if k < 2000 then s!"q{k - 1000}h" else if k < 3000 then s!"q{k - 2000}t" else "stack"

def valOf (s : String) : Except String Val :=
  if s.startsWith "&" then
    match objOfName (s.drop 1).toString with
    | some k => .ok (.ptr (.obj k))
    | none => .error s!"unparsed pointer value {s}"
  else (intOf s).map fun n => if n == 0 then Val.int 0 else Val.int n

/-- trace spelling of a value; pointers-vs-integers: the harness prints NULL as 0 -/
def valStr (mode : String := "") : Val → String
  | .int n => toString n
  | .ptr (.obj k) => "&" ++ (if mode == "lfq" then objNameLfq k else objName k)
  | .ptr (.field (.obj k) "node") => "&" ++ objName k
  | .ptr l => s!"&?{repr l}"

def locStr (mode : String) (r : Nat) : Loc → String
  | .field (.glob g) f =>
    if g == s!"urcu_{flavor mode}_gp" then s!"gp.{f}" else s!"{g}.{f}"
  | .field (.tls g) f =>
    if g == s!"urcu_{flavor mode}_reader" then s!"reader{r}.{f}" else s!"tls:{g}.{f}"
  | .field (.obj k) f =>
    if mode.startsWith "gp" then s!"reader{k}.{f}"
    else if mode == "lfq" then (if k == 3000 then s!"q.{f}" else if f == "next" then objNameLfq k else s!"{objNameLfq k}.{f}")
    else if k == 3000 && f == "head" then "head"
    else if f == "next" || f == "p" then objName k
    else s!"{objName k}.{f}"
  | .field (.field (.obj k) "node") "next" => objName k
  | l => s!"?{repr l}"

def primStr : Prim → String
  | .mb => "MB" | .rmb => "RMB" | .wmb => "WMB" | .barrier => "CB" | .relax => "RELAX"
  | .uadd => "ADD" | .usub => "SUB" | .uor => "OR" | .uand => "AND" | .uinc => "ADD" | .udec => "SUB"
  | .uaddret => "ADDR" | .usubret => "SUBR"
  | p => s!"{repr p}"

/-- the trace line (words) of an IR event; `none` = the shim prints nothing for it -/
def evWords (mode : String) (r : Nat) : Event → Option (List String)
  | .ld l v mo => if mo == 7 then none else some ["LD", locStr mode r l, valStr mode v, toString mo]
  | .st l v mo => if mo == 7 then none else some ["ST", locStr mode r l, valStr mode v, toString mo]
  | .xchg l n o mo => some ["XCHG", locStr mode r l, valStr mode n, valStr mode o, toString mo]
  | .cas l e n o ms mf => some ["CAS", locStr mode r l, valStr mode e, valStr mode n, valStr mode o, toString ms, toString mf]
  | .rmw p l a res mo => some [primStr p, locStr mode r l, valStr mode a, valStr mode res, toString mo]
  | .fence .relax => none
  | .fence p => some [primStr p]
  | .ext "futex_async" (a :: _ :: n :: _) ret =>
    some ["FUTEX_WAKE", (match a with | .ptr l => locStr mode r l | _ => "?"), s!"n={valStr mode n}", "->", valStr mode ret]
  | .ext "poll" _ _ => some ["POLL"]
  | .ext "CDS_WFCQ_WAIT_SLEEP" _ _ => some ["POLL"]
  | .ext name _ _ => some ["EXT", name]

/-- the oracle value a trace line delivers (value-returning accesses only) -/
def oracleOf : List String → Except String (Option Val)
  | ["FUTEX_WAKE", _, _, _, k] => (valOf k).map some
  | ["LD", _, v, _] => (valOf v).map some
  | ["XCHG", _, _, o, _] => (valOf o).map some
  | ["CAS", _, _, _, o, _, _] => (valOf o).map some
  | [op, _, _, r, _] =>
    if op ∈ ["ADD", "SUB", "OR", "AND", "ADDR", "SUBR"] then (valOf r).map some else .ok none
  | ["POLL"] => .ok (some (.int 0))
  | _ => .ok none

def isEventLine (ws : List String) : Bool :=
  match ws with
  | op :: _ => op ∈ ["LD", "ST", "XCHG", "CAS", "ADD", "SUB", "OR", "AND", "ADDR", "SUBR", "MB", "RMB", "WMB", "CB", "FUTEX_WAKE", "POLL"]
  | [] => false

open UrcuVerif.Gen.Src in
/-- which translated function a `CALL` marker of the scenario enters, with its arguments -/
def callSpec (d : D) (ws : List String) : Option (String × Stmt × List String × List Val) :=
  let S : Val := .ptr (.obj 3000)
  let node (s : String) : Option Val := (objOfName s).map fun k => .ptr (.obj k)
  let flag (key : String) : List String → Int := fun ws =>
    match ws.find? (·.startsWith (key ++ "=")) with
    | some w => if (w.drop (key.length + 1)).toString == "1" then 1 else 0
    | none => 0
  match d.mode, ws with
  | "gp-memb", ["lock"] => some ("memb.lock", «_urcu_memb_read_lock», [], [])
  | "gp-memb", ["unlock"] => some ("memb.unlock", «_urcu_memb_read_unlock», [], [])
  | "gp-mb", ["lock"] => some ("mb.lock", «_urcu_mb_read_lock», [], [])
  | "gp-mb", ["unlock"] => some ("mb.unlock", «_urcu_mb_read_unlock», [], [])
  | "gp-bp", ["lock"] => some ("bp.lock", «_urcu_bp_read_lock», [], [])
  | "gp-bp", ["unlock"] => some ("bp.unlock", «_urcu_bp_read_unlock», [], [])
  | "lfq", ["enq", n] => (node n).map fun v => ("lfq.enq", «_cds_lfq_enqueue_rcu», «_cds_lfq_enqueue_rcu.params», [S, v])
  | "wfs", ["push", n] => (node n).map fun v => ("wfs.push", «_cds_wfs_push», «_cds_wfs_push.params», [S, v])
  | "wfs", "pop" :: rest =>
    some ("wfs.pop", «___cds_wfs_pop», «___cds_wfs_pop.params»,
      [S, (if flag "state" rest == 1 then Val.ptr (.glob "&state") else Val.int 0), .int (flag "blocking" rest)])
  | "lfs", ["push", n] => (node n).map fun v => ("lfs.push", «_cds_lfs_push», «_cds_lfs_push.params», [S, v])
  | "lfs", "pop" :: _ => some ("lfs.pop", «___cds_lfs_pop», «___cds_lfs_pop.params», [S])
  | "wfs", "pop_all" :: _ => some ("wfs.pop_all", «___cds_wfs_pop_all», «___cds_wfs_pop_all.params», [S])
  | "lfs", "pop_all" :: _ => some ("lfs.pop_all", «___cds_lfs_pop_all», «___cds_lfs_pop_all.params», [S])
  | "wfs", ["empty"] => some ("wfs.empty", «_cds_wfs_empty», «_cds_wfs_empty.params», [S])
  | "lfs", ["empty"] => some ("lfs.empty", «_cds_lfs_empty», «_cds_lfs_empty.params», [S])
  | "gp-qsbr", ["offline"] => some ("qsbr.offline", «_urcu_qsbr_thread_offline», [], [])
  | "gp-qsbr", ["online"] => some ("qsbr.online", «_urcu_qsbr_thread_online», [], [])
  | "gp-qsbr", ["qs"] => some ("qsbr.qs", «_urcu_qsbr_quiescent_state», [], [])
  | "wfcq", ["empty", q] =>
    (objOfName q).map fun h => ("wfcq.empty", «_cds_wfcq_empty», «_cds_wfcq_empty.params», [.ptr (.obj h), .ptr (.obj (h + 1000))])
  | "wfcq", "deq" :: q :: rest =>
    (objOfName q).map fun h => ("wfcq.deq", «___cds_wfcq_dequeue_with_state», «___cds_wfcq_dequeue_with_state.params»,
      [.ptr (.obj h), .ptr (.obj (h + 1000)), .ptr (.glob "&state"), .int (flag "b" rest)])
  | "wfcq", "splice" :: dq :: sq :: rest =>
    match objOfName dq, objOfName sq with
    | some dh, some sh => some ("wfcq.splice", «___cds_wfcq_splice», «___cds_wfcq_splice.params»,
        [.ptr (.obj dh), .ptr (.obj (dh + 1000)), .ptr (.obj sh), .ptr (.obj (sh + 1000)), .int (flag "b" rest)])
    | _, _ => none
  | "wfcq", ["enq", q, n] =>
    match objOfName q, node n with
    | some h, some v => some ("wfcq.enq", «_cds_wfcq_enqueue», «_cds_wfcq_enqueue.params», [.ptr (.obj h), .ptr (.obj (h + 1000)), v])
    | _, _ => none
  | _, _ => none

def privFn (l : List (Loc × Val)) : Loc → Option Val := fun m => (l.find? (·.1 == m)).map (·.2)

/-- locations whose private value the driver carries from call to call (own reader word) -/
def carry (mode : String) (r : Nat) : List Loc :=
  if mode == "gp-bp" then [.field (.obj r) "ctr"]
  else [.field (.tls s!"urcu_{flavor mode}_reader") "ctr", .field (.tls s!"urcu_{flavor mode}_reader") "waiting"]

def initPriv (d : D) (r : Nat) : List (Loc × Val) :=
  let lv := if d.cfgOf "legacy_mb" != "" then d.cfgOf "legacy_mb" else d.cfgOf "legacymb"
  let legacy : Int := if lv == "1" then 1 else 0
  let fl := flavor d.mode
  [(.glob "CONFIG_RCU_EMIT_LEGACY_MB", .int legacy),
   (.glob s!"urcu_{fl}_has_sys_membarrier", .int (if d.cfgOf "membarrier" == "1" then 1 else 0)),
   (.field (.tls s!"urcu_{fl}_reader") "registered", .int 1),
   (.field (.tls s!"urcu_{fl}_reader") "ctr", .int 0),
   (.field (.tls s!"urcu_{fl}_reader") "waiting", .int 0),
   (.tls "urcu_bp_reader", .ptr (.obj r)), (.field (.obj r) "ctr", .int 0),
   (.glob "&state", .int 0)]

/-- run the IR of a finished (or cut) call and compare -/
def finish (d : D) (t : Nat) (th : Thr) (c : Call) (complete : Bool) : Except String D := do
  let lines := c.lines.reverse
  let mut inp : List Val := []
  for l in lines do
    match ← oracleOf l with
    | some v => inp := inp ++ [v]
    | none => pure ()
  let priv0 := if th.priv.isEmpty then initPriv d th.ridx else th.priv
  let env : Env := { vars := bindParams c.params c.args, priv := privFn priv0 }
  match exec 100000 c.fn env inp with
  | .error e => .error s!"IR of {c.op} fails on this call: {e}"
  | .ok out =>
    let got := out.events.filterMap (evWords d.mode th.ridx)
    if complete && out.ctl == .blocked then
      .error s!"{c.op}: the source IR wants another value-returning access after {got.length} events, the compiled call returned (trace events: {lines.length})"
    else if !(complete → got == lines) || !(got.length ≤ lines.length ∧ got == lines.take got.length) then
      let i := (List.range (max got.length lines.length)).find? (fun i => got[i]? != lines[i]?) |>.getD 0
      .error s!"{c.op}: event {i}: source IR gives {(got[i]?.map (" ".intercalate ·)).getD "(end)"}, compiled code did {(lines[i]?.map (" ".intercalate ·)).getD "(end)"}"
    else
      let keep := (carry d.mode th.ridx).filterMap fun l => (out.env.priv l).map fun v => (l, v)
      let priv1 := keep ++ priv0.filter fun p => !(keep.any (·.1 == p.1))
      .ok ({ d with cov := bump d.cov (c.op ++ (if complete then "" else ":prefix")), compared := d.compared + 1,
                    events := d.events + got.length }.setT t { th with priv := priv1, cur := none })

def drive (d : D) (ws : List String) : Except String D :=
  match ws with
  | "CFG" :: kvs =>
    .ok { d with cfg := (kvs.filterMap fun kv => match kv.splitOn "=" with | [k, v] => some (k, v) | _ => none) ++ d.cfg }
  | t :: rest =>
    if !t.startsWith "T" then .ok d else
    match (t.drop 1).toString.toNat? with
    | none => .ok d
    | some tid =>
      let th := d.getT tid
      match rest with
      | ["READER", r] => .ok (d.setT tid { th with ridx := r.toNat?.getD 0 })
      | "CALL" :: c =>
        match th.cur with
        | some _ => .ok d        -- nested marker (wrapper inside a call): keep collecting
        | none =>
          match callSpec d c with
          | some (op, fn, ps, as) => .ok (d.setT tid { th with cur := some { op := op, fn := fn, params := ps, args := as } })
          | none => .ok { d with cov := bump d.cov s!"skipped:{c.headD ""}" }
      | "RET" :: _ =>
        match th.cur with
        | some c => finish d tid th c true
        | none => .ok d
      | "SIG_ENTER" :: _ => .error "trace with signal handlers: not supported by drv_src (run the scenario with sig=0)"
      | ev =>
        match th.cur with
        | some c => if isEventLine ev then .ok (d.setT tid { th with cur := some { c with lines := ev :: c.lines } }) else .ok d
        | none =>
          -- a store to the thread's own carried word by an untranslated function (registration, synchronize_rcu of qsbr)
          match ev with
          | ["ST", loc, v, _] =>
            match (carry d.mode th.ridx).find? (fun l => locStr d.mode th.ridx l == loc), valOf v with
            | some l, .ok x =>
              let p0 := if th.priv.isEmpty then initPriv d th.ridx else th.priv
              .ok (d.setT tid { th with priv := (l, x) :: p0.filter (·.1 != l) })
            | _, _ => .ok d
          | _ => .ok d
  | [] => .ok d

def finishAll (d : D) : Except String D :=
  d.thr.foldlM (fun d (t, th) => match th.cur with
    | some c => finish d t th c false
    | none => .ok d) d

partial def loop (h : IO.FS.Stream) (d : D) (k : Nat) : IO UInt32 := do
  let line ← h.getLine
  if line.isEmpty then
    match finishAll d with
    | .ok d =>
      IO.println s!"OK lines={k} calls={d.compared} events={d.events} {showCov d.cov}"
      return 0
    | .error e =>
      IO.println s!"DIVERGE line {k} (end of trace) :: {e}"
      return 1
  let ws := words line
  if ws.isEmpty || (ws.head!.startsWith "#") then loop h d (k+1)
  else match drive d ws with
    | .ok d' => loop h d' (k+1)
    | .error e =>
      IO.println s!"DIVERGE line {k+1}: {line.trimAscii.toString} :: {e}"
      IO.println s!"PARTIAL lines={k} calls={d.compared} events={d.events} {showCov d.cov}"
      return 1

end SrcDrv

def main (args : List String) : IO UInt32 := do
  match args with
  | mode :: defaults =>
    -- defaults: k=v pairs used when the trace's CFG line does not give the key (e.g. legacymb=1 from /repo's config.h)
    let cfg := defaults.filterMap fun kv => match kv.splitOn "=" with | [k, v] => some (k, v) | _ => none
    SrcDrv.loop (← IO.getStdin) { mode := mode, cfg := cfg } 0
  | _ => IO.println "usage: drv_src <gp-memb|gp-mb|gp-bp|wfs|lfs|wfcq>"; return 2
