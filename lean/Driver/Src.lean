import Driver.Common
import UrcuVerif.Gen.Src
/-!
Validation of the source translator (`harness/gen/gen_src.py`) and of the IR semantics (`UrcuVerif/Src/IR.lean`) against the
**compiled code**: the traces of the existing scenario harnesses (which run the real /repo functions under the shim) are cut
into the per-thread event sequences of individual calls; for each call the generated IR of that function is run by `Src.exec`
with the oracle taken from the trace (values the loads / RMWs returned) and the events it emits must be, line for line, the
events the compiled function performed (same locations, values, memory orders, fences, in the same order).

usage: drv_src <mode>      modes: gp-memb gp-mb gp-bp wfs lfs wfcq        (trace on stdin)
Calls interrupted by the end of the trace are compared as prefixes.  Lines of operations that are not translated
(`LOCK`, `ALLOC`, …) are ignored; calls of functions without an entry in `callSpec` are counted as `skipped:<op>`.
-/
open UrcuVerif.Src Driver

namespace SrcDrv

structure Call where
  op : String
  fn : Stmt
  params : List String
  args : List Val
  lines : List (List String) := []     -- event lines (words without the thread id), newest first
  gpctr0 : Val := .int 1               -- value of gp.ctr when the call began
  search : Bool := false               -- the IR has oracle values the trace does not show (list operations): search for them
  deriving Inhabited

structure Thr where
  priv : List (Loc × Val) := []
  ridx : Nat := 0                      -- gp: reader index (from `READER n`)
  lastIter : String := ""              -- lfht: node of the thread's last iterator (RET lookup / first / next / next_dup)
  lastNext : String := "0"             -- lfht: its `next` word
  cur : Option Call := none
  deriving Inhabited

structure D where
  mode : String
  cfg : List (String × String) := []
  thr : List (Nat × Thr) := []
  cov : List (String × Nat) := []
  compared : Nat := 0
  events : Nat := 0
  nodeHash : List (Nat × Nat) := []    -- lfht: node id ↦ hash (from the CALL add* markers)
  buckets : List String := []          -- lfht: bucket names b<index>_<generation> seen so far
  gpctr : Val := .int 1                -- last value stored to gp.ctr by anyone (plain-read by the updater under the gp lock)
  searchRuns : Nat := 0

def D.getT (d : D) (t : Nat) : Thr := ((d.thr.find? (·.1 == t)).map (·.2)).getD {}
def D.setT (d : D) (t : Nat) (x : Thr) : D := { d with thr := (t, x) :: d.thr.filter (·.1 != t) }
def D.cfgOf (d : D) (k : String) : String := ((d.cfg.find? (·.1 == k)).map (·.2)).getD ""

def flavor (mode : String) : String := (mode.drop 3).toString        -- "gp-memb" -> "memb"

/-- object numbering of the stack / queue scenarios: n<k> ↦ k, q<j>h ↦ 1000+j, q<j>t ↦ 2000+j, the stack ↦ 3000 -/
def objOfName (s : String) : Option Nat :=
  if s.startsWith "node" && s.contains '|' then none else
  if s.startsWith "node" then (s.drop 4).toString.toNat?
  else if s.startsWith "dummy" then (s.drop 5).toString.toNat?.map (· + 500)
  else if s.startsWith "n" then (s.drop 1).toString.toNat?
  else if s.startsWith "q" && s.endsWith "h" then ((s.drop 1).toString.dropEnd 1).toString.toNat?.map (· + 1000)
  else if s.startsWith "q" && s.endsWith "t" then ((s.drop 1).toString.dropEnd 1).toString.toNat?.map (· + 2000)
  else if s.startsWith "q" then (s.drop 1).toString.toNat?.map (· + 1000)
  else none

def objNameLfq (k : Nat) : String := if k < 500 then s!"node{k}" else s!"dummy{k - 500}"

def objName (k : Nat) : String :=
  if k < 1000 then s!"n{k}" else if k < 2000 then s!"q{k - 1000}h" else if k < 3000 then s!"q{k - 2000}t" else "stack"

/-- defer scenario: callback objects `&cb<o>_<k>|<low bits>` are the integers 10^9 + 16·(100·o + k) + bits; the harness prints
words as signed longs, the IR's constants are unsigned -/
def cbOf (s : String) : Option Int :=
  if s.startsWith "&cb" then
    let body := (s.drop 3).toString
    let (nm, bits) := match body.splitOn "|" with
      | [a, b] => (a, b.toNat?.getD 0)
      | _ => (body, 0)
    match nm.splitOn "_" with
    | [o, k] => match o.toNat?, k.toNat? with
      | some o, some k => some (1000000000 + 16 * (100 * o + k) + bits : Nat)
      | _, _ => none
    | _ => none
  else none

def cbStr (n : Int) : Option String :=
  if 1000000000 ≤ n ∧ n < 1000000000 + 16 * 100000 then
    let m := (n - 1000000000).toNat
    let idx := m / 16
    let bits := m % 16
    some (s!"&cb{idx / 100}_{idx % 100}" ++ (if bits == 0 then "" else s!"|{bits}"))
  else none

def bitrev64 (n : Nat) : Nat := (List.range 64).foldl (fun acc i => if n.testBit i then acc + 2 ^ (63 - i) else acc) 0

def valOf (s : String) : Except String Val :=
  if (cbOf s).isSome then .ok (.int ((cbOf s).getD 0)) else
  -- lfht: `&name|flags`
  if s.startsWith "&" && s.contains '|' && !(s.startsWith "&cb") then
    match (s.drop 1).toString.splitOn "|" with
    | [nm, fl] =>
      let base : Loc := match objOfName nm with | some k => .obj k | none => .glob nm
      .ok (.ptr (base.withTag (fl.toNat?.getD 0)))
    | _ => .error s!"unparsed tagged pointer {s}"
  else
  if s.startsWith "&" then
    match objOfName (s.drop 1).toString with
    | some k => .ok (.ptr (.obj k))
    | none => .ok (.ptr (.glob (s.drop 1).toString))        -- an address the scenario did not name (stack objects): symbolic
  else (intOf s).map fun n => if n == 0 then Val.int 0 else Val.int n

/-- trace spelling of a value; pointers-vs-integers: the harness prints NULL as 0 -/
def valStr (mode : String := "") : Val → String
  | .int n =>
    if mode == "defer" then
      match cbStr n with
      | some s => s
      | none => if n ≥ 9223372036854775808 then toString (n - 18446744073709551616) else toString n
    else toString n
  | .ptr (.field (.obj k) "node") => "&" ++ objName k
  | .ptr (.field (.obj k) tg) =>
    if tg.startsWith "|" then "&" ++ (if mode == "lfht" then s!"node{k}" else objName k) ++ tg else s!"&?{k}.{tg}"
  | .ptr (.field (.glob g) tg) => if tg.startsWith "|" then s!"&{g}{tg}" else s!"&?{g}.{tg}"
  | .ptr (.obj k) => "&" ++ (if mode == "lfq" then objNameLfq k else if mode == "lfht" then s!"node{k}" else objName k)
  | .ptr (.glob g) => if g.startsWith "stack" || (mode == "lfht" && !g.startsWith "&") then s!"&{g}" else s!"&?{g}"
  | .ptr l => s!"&?{repr l}"

def locStr (mode : String) (r : Nat) : Loc → String
  | .field (.glob g) f =>
    if mode == "lfht" && f == "next" then g else
    if g == s!"urcu_{flavor mode}_gp" || g == "rcu_gp" then s!"gp.{f}"
    else if g.startsWith "&" || g.startsWith "stack" then s!"?{g}.{f}"
    else s!"{g}.{f}"
  | .field (.field (.glob "gp_waiters") "stack") "head" => "waiters.head"
  | .glob "defer_thread_futex" => "dfutex"
  | .glob "defer_thread_stop" => "dstop"
  | .glob g => if g.startsWith "rcu_" then (g.drop 4).toString else g
  | .field (.field (.tls "defer_queue") "q") ix =>
    -- element k of the ring: the scenario names the ring q<tid>, byte offsets
    let k := ((ix.drop 1).toString.dropEnd 1).toString.toNat?.getD 0
    if k == 0 then s!"q{r}" else s!"q{r}+{8 * k}"
  | .field (.tls "defer_queue") f =>
    if f == "head" then s!"dq{r}" else if f == "tail" then s!"dq{r}+16" else s!"dq{r}.{f}"
  | .field (.tls g) f =>
    if g == s!"urcu_{flavor mode}_reader" then s!"reader{r}.{f}" else s!"tls:{g}.{f}"
  | .field (.obj k) f =>
    if mode == "lfht" then (if f == "next" then s!"node{k}" else s!"node{k}.{f}") else
    if mode.startsWith "gp" then s!"reader{k}.{f}"
    else if mode == "lfq" then (if k == 3000 then s!"q.{f}" else if f == "next" then objNameLfq k else s!"{objNameLfq k}.{f}")
    else if k == 3000 && f == "head" then "head"
    else if f == "next" || f == "p" then objName k
    else s!"{objName k}.{f}"
  | .field (.field (.obj k) "node") "next" => objName k
  | l => s!"?{repr l}"

def primStr : Prim → String
  | .mb => "MB" | .rmb => "RMB" | .wmb => "WMB" | .barrier => "CB" | .relax => "RELAX"
  | .uadd => "ADD" | .usub => "SUB" | .uor => "OR" | .uand => "AND" | .uinc => "ADD" | .udec => "SUB"
  | .uaddret => "ADDR" | .usubret => "SUBR"
  | p => s!"{repr p}"

/-- the trace line (words) of an IR event; `none` = the shim prints nothing for it -/
def evWords (mode : String) (r : Nat) : Event → Option (List String)
  | .ld l v mo => if mo == 7 then none else some ["LD", locStr mode r l, valStr mode v, toString mo]
  | .st l v mo => if mo == 7 then none else some ["ST", locStr mode r l, valStr mode v, toString mo]
  | .xchg l n o mo => some ["XCHG", locStr mode r l, valStr mode n, valStr mode o, toString mo]
  | .cas l e n o ms mf => some ["CAS", locStr mode r l, valStr mode e, valStr mode n, valStr mode o, toString ms, toString mf]
  | .rmw p l a res mo => some [primStr p, locStr mode r l, valStr mode a, valStr mode res, toString mo]
  | .fence .relax => none
  | .fence p => some [primStr p]
  | .ext "futex_noasync" (a :: .int 1 :: n :: _) ret =>
    some ["FUTEX_WAKE", (match a with | .ptr l => locStr mode r l | _ => "?"), s!"n={valStr mode n}", "->", valStr mode ret]
  | .ext "futex_async" (a :: .int 1 :: n :: _) ret =>
    some ["FUTEX_WAKE", (match a with | .ptr l => locStr mode r l | _ => "?"), s!"n={valStr mode n}", "->", valStr mode ret]
  | .ext "futex_async" (a :: .int 0 :: v :: _) _ =>
    some ["FUTEX_WAIT", (match a with | .ptr l => locStr mode r l | _ => "?"), s!"val={valStr mode v}"]
  | .ext "futex_noasync" (a :: .int 0 :: v :: _) _ =>
    some ["FUTEX_WAIT", (match a with | .ptr l => locStr mode r l | _ => "?"), s!"val={valStr mode v}"]
  | .ext "errno" _ _ => none
  | .ext "mutex_lock" [.ptr l] _ => some ["LOCK", locStr mode r l]
  | .ext "mutex_unlock" [.ptr l] _ => some ["UNLOCK", locStr mode r l]
  | .ext "membarrier" (c :: _) _ => some ["MBAR", s!"cmd={valStr mode c}"]
  | .ext "cds_list_empty" _ _ => none
  | .ext "cds_list_move" _ _ => none
  | .ext "cds_list_splice" _ _ => none
  | .ext "cds_list_for_each_entry_safe.first" _ _ => none
  | .ext "cds_list_for_each_entry_safe.next" _ _ => none
  | .ext "poll" _ _ => some ["POLL"]
  | .ext "CDS_WFCQ_WAIT_SLEEP" _ _ => some ["POLL"]
  | .ext name _ _ => if mode == "lfht" && name != "abort" then none else some ["EXT", name]

/-- the oracle value a trace line delivers (value-returning accesses only) -/
def oracleOf : List String → Except String (Option Val)
  | ["LOCK", _] => .ok (some (.int 0))
  | ["UNLOCK", _] => .ok (some (.int 0))
  | ["MBAR", _] => .ok (some (.int 0))
  | ["FUTEX_WAKE", _, _, _, k] => (valOf k).map some
  | ["LD", _, v, _] => (valOf v).map some
  | ["XCHG", _, _, o, _] => (valOf o).map some
  | ["CAS", _, _, _, o, _, _] => (valOf o).map some
  | [op, _, _, r, _] =>
    if op ∈ ["ADD", "SUB", "OR", "AND", "ADDR", "SUBR"] then (valOf r).map some else .ok none
  | ["POLL"] => .ok (some (.int 0))
  | _ => .ok none

/-- all oracle values a trace line delivers: a failing FUTEX_WAIT delivers the return value and then errno -/
def oracleVals (ws : List String) : Except String (List Val) :=
  match ws with
  | ["FUTEX_WAIT", _, _, "->", r] =>
    if r == "EAGAIN" then .ok [.int (-1), .int 11] else if r == "EINTR" then .ok [.int (-1), .int 4] else .ok [.int 0]
  | _ => (oracleOf ws).map fun o => o.toList

def isSyncLine (ws : List String) : Bool :=
  match ws with
  | op :: _ => op ∈ ["LOCK", "UNLOCK", "MBAR", "FUTEX_WAIT"]
  | [] => false

def symbolic (w : String) : Bool := w.contains '?'

/-- words equal up to a consistent naming of the addresses the scenario did not name (`?sym` on the IR side, `stackN+off` in the trace) -/
def unifyWord (b : List (String × String)) (g l : String) : Option (List (String × String)) :=
  if g == l then some b
  else
    let g' := if g.startsWith "&" then (g.drop 1).toString else g
    let l' := if l.startsWith "&" then (l.drop 1).toString else l
    if g.startsWith "&" != l.startsWith "&" then none
    else if symbolic g' && (l'.startsWith "stack") then
      match b.find? (·.1 == g') with
      | some (_, x) => if x == l' then some b else none
      | none => some ((g', l') :: b)
    else none

def unifyLine (b : List (String × String)) (g l : List String) : Option (List (String × String)) :=
  let l := if l.head? == some "FUTEX_WAIT" then l.take 3 else l
  if g.length != l.length then none
  else (g.zip l).foldlM (fun b (x, y) => unifyWord b x y) b

/-- the longest matching prefix: number of lines matched, or the index of the first mismatch -/
def unifyPrefix (got lines : List (List String)) : Except Nat Nat :=
  let rec go (b : List (String × String)) (i : Nat) : List (List String) → List (List String) → Except Nat Nat
    | [], _ => .ok i
    | _ :: _, [] => .error i
    | g :: gs, l :: ls =>
      match unifyLine b g l with
      | some b' => go b' (i+1) gs ls
      | none => .error i
  go [] 0 got lines

def isEventLine (ws : List String) : Bool :=
  match ws with
  | op :: _ => op ∈ ["LD", "ST", "XCHG", "CAS", "ADD", "SUB", "OR", "AND", "ADDR", "SUBR", "MB", "RMB", "WMB", "CB", "FUTEX_WAKE", "POLL"]
  | [] => false

open UrcuVerif.Gen.Src in
/-- which translated function a `CALL` marker of the scenario enters, with its arguments -/
def callSpec (d : D) (ws : List String) : Option (String × Stmt × List String × List Val) :=
  let S : Val := .ptr (.obj 3000)
  let node (s : String) : Option Val := (objOfName s).map fun k => .ptr (.obj k)
  let flag (key : String) : List String → Int := fun ws =>
    match ws.find? (·.startsWith (key ++ "=")) with
    | some w => if (w.drop (key.length + 1)).toString == "1" then 1 else 0
    | none => 0
  match d.mode, ws with
  | "gp-memb", ["sync"] => some ("memb.sync", «memb.synchronize_rcu», [], [])
  | "gp-mb", ["sync"] => some ("mb.sync", «mb.synchronize_rcu», [], [])
  | "gp-qsbr", ["sync"] => some ("qsbr.sync", «qsbr.urcu_qsbr_synchronize_rcu», [], [])
  | "gp-memb", ["lock"] => some ("memb.lock", «_urcu_memb_read_lock», [], [])
  | "gp-memb", ["unlock"] => some ("memb.unlock", «_urcu_memb_read_unlock», [], [])
  | "gp-mb", ["lock"] => some ("mb.lock", «_urcu_mb_read_lock», [], [])
  | "gp-mb", ["unlock"] => some ("mb.unlock", «_urcu_mb_read_unlock», [], [])
  | "gp-bp", ["lock"] => some ("bp.lock", «_urcu_bp_read_lock», [], [])
  | "gp-bp", ["unlock"] => some ("bp.unlock", «_urcu_bp_read_unlock», [], [])
  | "lfht", ["add", n, h, _k] =>
    (node n).map fun v => ("lfht.add", «lfht.cds_lfht_add», «lfht.cds_lfht_add.params», [.ptr (.glob "ht"), .int (h.toNat?.getD 0), v])
  | "lfht", ["add_unique", n, h, k] =>
    (node n).map fun v => ("lfht.add_unique", «lfht.cds_lfht_add_unique», «lfht.cds_lfht_add_unique.params»,
      [.ptr (.glob "ht"), .int (h.toNat?.getD 0), .int 77, .int (k.toNat?.getD 0), v])
  | "lfht", ["add_replace", n, h, k] =>
    (node n).map fun v => ("lfht.add_replace", «lfht.cds_lfht_add_replace», «lfht.cds_lfht_add_replace.params»,
      [.ptr (.glob "ht"), .int (h.toNat?.getD 0), .int 77, .int (k.toNat?.getD 0), v])
  | "lfht", ["first"] => some ("lfht.first", «lfht.cds_lfht_first», «lfht.cds_lfht_first.params», [.ptr (.glob "ht"), .ptr (.glob "&iter")])
  | "lfht", ["next"] => some ("lfht.next", «lfht.cds_lfht_next», «lfht.cds_lfht_next.params», [.ptr (.glob "ht"), .ptr (.glob "&iter")])
  | "lfht", ["next_dup", k] =>
    some ("lfht.next_dup", «lfht.cds_lfht_next_duplicate», «lfht.cds_lfht_next_duplicate.params»,
      [.ptr (.glob "ht"), .int 77, .int (k.toNat?.getD 0), .ptr (.glob "&iter")])
  | "lfht", ["replace", n, h, k] =>
    (node n).map fun v => ("lfht.replace", «lfht.cds_lfht_replace», «lfht.cds_lfht_replace.params»,
      [.ptr (.glob "ht"), .ptr (.glob "&iter"), .int (h.toNat?.getD 0), .int 77, .int (k.toNat?.getD 0), v])
  | "lfht", ["lookup", h, k] =>
    some ("lfht.lookup", «lfht.cds_lfht_lookup», «lfht.cds_lfht_lookup.params»,
      [.ptr (.glob "ht"), .int (h.toNat?.getD 0), .int 77, .int (k.toNat?.getD 0), .ptr (.glob "&iter")])
  | "defer", ["defer", f, p] =>
    match valOf f, valOf p with
    | .ok fv, .ok pv =>
      let u : Val → Val := fun v => match v with | .int n => .int (if n < 0 then n + 18446744073709551616 else n) | x => x
      some ("defer.defer_rcu", «_defer_rcu», «_defer_rcu.params», [u fv, u pv])
    | _, _ => none
  | "lfq", ["enq", n] => (node n).map fun v => ("lfq.enq", «_cds_lfq_enqueue_rcu», «_cds_lfq_enqueue_rcu.params», [S, v])
  | "wfs", ["push", n] => (node n).map fun v => ("wfs.push", «_cds_wfs_push», «_cds_wfs_push.params», [S, v])
  | "wfs", "pop" :: rest =>
    some ("wfs.pop", «___cds_wfs_pop», «___cds_wfs_pop.params»,
      [S, (if flag "state" rest == 1 then Val.ptr (.glob "&state") else Val.int 0), .int (flag "blocking" rest)])
  | "lfs", ["push", n] => (node n).map fun v => ("lfs.push", «_cds_lfs_push», «_cds_lfs_push.params», [S, v])
  | "lfs", "pop" :: _ => some ("lfs.pop", «___cds_lfs_pop», «___cds_lfs_pop.params», [S])
  | "wfs", "pop_all" :: _ => some ("wfs.pop_all", «___cds_wfs_pop_all», «___cds_wfs_pop_all.params», [S])
  | "lfs", "pop_all" :: _ => some ("lfs.pop_all", «___cds_lfs_pop_all», «___cds_lfs_pop_all.params», [S])
  | "wfs", ["empty"] => some ("wfs.empty", «_cds_wfs_empty», «_cds_wfs_empty.params», [S])
  | "lfs", ["empty"] => some ("lfs.empty", «_cds_lfs_empty», «_cds_lfs_empty.params», [S])
  | "gp-qsbr", ["offline"] => some ("qsbr.offline", «_urcu_qsbr_thread_offline», [], [])
  | "gp-qsbr", ["online"] => some ("qsbr.online", «_urcu_qsbr_thread_online», [], [])
  | "gp-qsbr", ["qs"] => some ("qsbr.qs", «_urcu_qsbr_quiescent_state», [], [])
  | "wfcq", ["empty", q] =>
    (objOfName q).map fun h => ("wfcq.empty", «_cds_wfcq_empty», «_cds_wfcq_empty.params», [.ptr (.obj h), .ptr (.obj (h + 1000))])
  | "wfcq", "deq" :: q :: rest =>
    (objOfName q).map fun h => ("wfcq.deq", «___cds_wfcq_dequeue_with_state», «___cds_wfcq_dequeue_with_state.params»,
      [.ptr (.obj h), .ptr (.obj (h + 1000)), .ptr (.glob "&state"), .int (flag "b" rest)])
  | "wfcq", "splice" :: dq :: sq :: rest =>
    match objOfName dq, objOfName sq with
    | some dh, some sh => some ("wfcq.splice", «___cds_wfcq_splice», «___cds_wfcq_splice.params»,
        [.ptr (.obj dh), .ptr (.obj (dh + 1000)), .ptr (.obj sh), .ptr (.obj (sh + 1000)), .int (flag "b" rest)])
    | _, _ => none
  | "wfcq", ["enq", q, n] =>
    match objOfName q, node n with
    | some h, some v => some ("wfcq.enq", «_cds_wfcq_enqueue», «_cds_wfcq_enqueue.params», [.ptr (.obj h), .ptr (.obj (h + 1000)), v])
    | _, _ => none
  | _, _ => none

def privFn (l : List (Loc × Val)) : Loc → Option Val := fun m => (l.find? (·.1 == m)).map (·.2)

/-- locations whose private value the driver carries from call to call (own reader word) -/
def carry (mode : String) (r : Nat) : List Loc :=
  if mode == "defer" then [.field (.tls "defer_queue") "head", .field (.tls "defer_queue") "last_fct_in"] else
  if mode == "gp-bp" then [.field (.obj r) "ctr"]
  else [.field (.tls s!"urcu_{flavor mode}_reader") "ctr", .field (.tls s!"urcu_{flavor mode}_reader") "waiting"]

def initPriv (d : D) (r : Nat) : List (Loc × Val) :=
  let lv := if d.cfgOf "legacy_mb" != "" then d.cfgOf "legacy_mb" else d.cfgOf "legacymb"
  let legacy : Int := if lv == "1" then 1 else 0
  let fl := flavor d.mode
  [(.glob "CONFIG_RCU_EMIT_LEGACY_MB", .int legacy),
   (.glob s!"urcu_{fl}_has_sys_membarrier", .int (if d.cfgOf "membarrier" == "1" then 1 else 0)),
   (.field (.tls s!"urcu_{fl}_reader") "registered", .int 1),
   (.field (.tls s!"urcu_{fl}_reader") "ctr", .int 0),
   (.field (.tls s!"urcu_{fl}_reader") "waiting", .int 0),
   (.tls "urcu_bp_reader", .ptr (.obj r)), (.field (.obj r) "ctr", .int 0),
   (.glob "&state", .int 0),
   (.field (.tls "defer_queue") "head", .int 0), (.field (.tls "defer_queue") "last_fct_in", .int 0),
   (.glob s!"urcu_{fl}_has_sys_membarrier_private_expedited", .int (if d.cfgOf "membarrier" == "1" then 1 else 0)),
   (.field (.glob "rcu_gp") "ctr", d.gpctr)]

/-- depth-first search for the oracle values the trace does not show (answers of the list operations): the traced values are
consumed in order, an untraced value is one of `choices`; a branch dies at the first event that differs from the trace -/
partial def dfs (run : List Val → Except String Out) (got : Out → List (List String)) (evw : Event → Option (List String))
    (extc : String → List Val → Option (List Val)) (lines : List (List String))
    (complete : Bool) (choices : List Val) (inp tv : List Val) (budget : Nat) (best : Nat × String) :
    Option (Out × Nat) × Nat × (Nat × String) :=
  if budget == 0 then (none, 0, best) else
  match run inp with
  | .error e => (none, budget - 1, if best.1 == 0 then (0, s!"IR error after {inp.length} oracle values {repr inp}: " ++ e) else best)
  | .ok out =>
    let g := got out
    match unifyPrefix g lines with
    | .error i =>
      let msg := s!"event {i}: source IR gives {(g[i]?.map (" ".intercalate ·)).getD "(end)"}, compiled code did {(lines[i]?.map (" ".intercalate ·)).getD "(end)"}"
      (none, budget - 1, if i ≥ best.1 then (i, msg) else best)
    | .ok n =>
      if out.ctl != .blocked then
        if (n == lines.length && tv.isEmpty) || (!complete && tv.isEmpty) then (some (out, g.length), budget - 1, best)
        else (none, budget - 1, if n ≥ best.1 then (n, s!"the source IR ends after {n} events (unused traced values: {tv.length}), the compiled call did {lines.length}") else best)
      else if !complete && n == lines.length && tv.isEmpty then (some (out, g.length), budget - 1, best)
      else
        -- which access is waiting for a value?  probe it: the event that consumes the next value is events[m]
        let m := out.events.length
        -- (a probe value may make the run fail further on: try an integer, then pointers)
        let probe := [Val.int 0, Val.int 1, Val.ptr (.obj 1), Val.ptr (.glob "probe")].findSome? fun pv =>
          match run (inp ++ [pv]) with
          | .ok o' => o'.events[m]?
          | .error _ => none
        let cands : List (Val × List Val) := match probe with
          | some e =>
            if (evw e).isSome then (match tv with | v :: rest => [(v, rest)] | [] => [])       -- a traced access: the traced value
            else match e with
              | .ext name eargs _ =>
                if (extc name eargs).isSome then ((extc name eargs).getD []).map (fun c => (c, tv)) else
                if name ∈ ["cds_list_move", "cds_list_splice", "errno"] && name != "errno" then [(.int 0, tv)]   -- no result used
                else if name == "errno" then (match tv with | v :: rest => [(v, rest)] | [] => [])
                else choices.map (fun c => (c, tv))
              | _ => choices.map (fun c => (c, tv))
          | none => (match tv with | v :: rest => [(v, rest)] | [] => []) ++ choices.map (fun c => (c, tv))
        let best := if n ≥ best.1 then (n, s!"matched {n} events, then waiting at {(probe.map (fun e => repr e)).getD "?"} with {cands.length} candidates") else best
        cands.foldl (fun (acc : Option (Out × Nat) × Nat × (Nat × String)) (v, tv') => match acc with
          | (some r, b, bs) => (some r, b, bs)
          | (none, b, bs) => dfs run got evw extc lines complete choices (inp ++ [v]) tv' b bs) (none, budget - 1, best)

def finishSearch (d : D) (t : Nat) (th : Thr) (c : Call) (complete : Bool) : Except String D := do
  let lines := c.lines.reverse
  let mut tv : List Val := []
  for l in lines do
    tv := tv ++ (← oracleVals l)
  let priv0 := (if th.priv.isEmpty then initPriv d th.ridx else th.priv)
  let gl : List Loc := [.field (.glob "rcu_gp") "ctr", .field (.glob s!"urcu_{flavor d.mode}_gp") "ctr"]
  let priv0 := gl.map (fun l => (l, c.gpctr0)) ++ priv0.filter (fun p => !(gl.contains p.1))
  let lfht := d.mode == "lfht"
  let bidx (g : String) : Nat := (((g.drop 1).toString.splitOn "_").headD "0").toNat?.getD 0
  let privL : Loc → Option Val := fun l =>
    match l with
    | .field (.obj k) "reverse_hash" => if lfht then (d.nodeHash.find? (·.1 == k)).map (fun p => Val.int (bitrev64 p.2)) else privFn priv0 l
    | .field (.glob g) "reverse_hash" => if lfht && g.startsWith "b" then some (.int (bitrev64 (bidx g))) else privFn priv0 l
    | .field (.glob "ht") _ => if lfht then some (.int 0) else privFn priv0 l      -- plain configuration words of the table
    | .field (.glob "&iter") f =>
      if lfht then
        (match valOf (if f == "node" then th.lastIter else if f == "next" then th.lastNext else "0") with
         | .ok v => some v | .error _ => some (.int 0))
      else privFn priv0 l
    | _ => privFn priv0 l
  let env : Env := { vars := bindParams c.params c.args, priv := if lfht then privL else privFn priv0 }
  let choices : List Val := [.int 0, .int 1] ++ (List.range 8).map fun r => Val.ptr (.obj (r + 1))
  let extc : String → List Val → Option (List Val) := fun name eargs =>
    if !lfht then none else
    match name, eargs with
    | "bit_reverse_ulong", [.int h] => some [.int (bitrev64 h.toNat)]
    | "(*bucket_at)", [_, _, .int i] => some ((d.buckets.filter fun g => bidx g == i.toNat).map fun g => Val.ptr (.glob g))
    | "(*bucket_at)", [_, .int i] => some ((d.buckets.filter fun g => bidx g == i.toNat).map fun g => Val.ptr (.glob g))
    | "check_resize", _ => some [.int 0]
    | "ht_count_add", _ => some [.int 0]
    | "ht_count_del", _ => some [.int 0]
    | _, _ => none
  let budget := 40000
  let (res, left, best) := dfs (fun inp => exec 100000 c.fn env inp) (fun o => o.events.filterMap (evWords d.mode th.ridx))
    (evWords d.mode th.ridx) extc lines complete
    choices [] tv budget (0, "")
  match res with
  | some (out, n) =>
    let keep := (carry d.mode th.ridx).filterMap fun l => (out.env.priv l).map fun v => (l, v)
    let privB := if th.priv.isEmpty then initPriv d th.ridx else th.priv
    let priv1 := keep ++ privB.filter fun p => !(keep.any (·.1 == p.1))
    .ok ({ d with cov := bump d.cov (c.op ++ (if complete then "" else ":prefix")), compared := d.compared + 1, events := d.events + n,
                  searchRuns := d.searchRuns + (budget - left) }.setT t { th with cur := none, priv := priv1 })
  | none =>
    if left == 0 then
      .ok ({ d with cov := bump d.cov (c.op ++ ":search-budget") }.setT t { th with cur := none })
    else
      .error s!"{c.op}: no answers of the list operations make the source IR produce the {lines.length} events of the compiled call (search space exhausted after {budget - left} runs; furthest: {best.2}; traced values {repr tv}; buckets {d.buckets})"

/-- run the IR of a finished (or cut) call and compare -/
def finish (d : D) (t : Nat) (th : Thr) (c : Call) (complete : Bool) : Except String D := do
  if c.search then return ← finishSearch d t th c complete
  let lines := c.lines.reverse
  let mut inp : List Val := []
  for l in lines do
    match ← oracleOf l with
    | some v => inp := inp ++ [v]
    | none => pure ()
  let priv0 := if th.priv.isEmpty then initPriv d th.ridx else th.priv
  let env : Env := { vars := bindParams c.params c.args, priv := privFn priv0 }
  let inp2 := if d.mode == "defer" then inp.map (fun v => match v with
    | .int n => Val.int (if n < 0 ∧ n ≠ -1 then n + 18446744073709551616 else n) | x => x) else inp
  match exec 100000 c.fn env inp2 with
  | .error e => .error s!"IR of {c.op} fails on this call: {e}"
  | .ok out =>
    let got := out.events.filterMap (evWords d.mode th.ridx)
    if complete && out.ctl == .blocked then
      .error s!"{c.op}: the source IR wants another value-returning access after {got.length} events, the compiled call returned (trace events: {lines.length})"
    else if !(complete → got == lines) || !(got.length ≤ lines.length ∧ got == lines.take got.length) then
      let i := (List.range (max got.length lines.length)).find? (fun i => got[i]? != lines[i]?) |>.getD 0
      .error s!"{c.op}: event {i}: source IR gives {(got[i]?.map (" ".intercalate ·)).getD "(end)"}, compiled code did {(lines[i]?.map (" ".intercalate ·)).getD "(end)"}"
    else
      let keep := (carry d.mode th.ridx).filterMap fun l => (out.env.priv l).map fun v => (l, v)
      let priv1 := keep ++ priv0.filter fun p => !(keep.any (·.1 == p.1))
      .ok ({ d with cov := bump d.cov (c.op ++ (if complete then "" else ":prefix")), compared := d.compared + 1,
                    events := d.events + got.length }.setT t { th with priv := priv1, cur := none })

def drive (d : D) (ws : List String) : Except String D :=
  match ws with
  | "CFG" :: kvs =>
    .ok { d with cfg := (kvs.filterMap fun kv => match kv.splitOn "=" with | [k, v] => some (k, v) | _ => none) ++ d.cfg }
  | t :: rest =>
    if !t.startsWith "T" then .ok d else
    match (t.drop 1).toString.toNat? with
    | none => .ok d
    | some tid =>
      let th := d.getT tid
      let th := if d.mode == "defer" && th.ridx == 0 then { th with ridx := tid } else th
      -- lfht bookkeeping: bucket names seen, node hashes, the thread's last iterator
      let d := if d.mode == "lfht" then
          let bs := rest.filterMap fun w =>
            let w1 := if w.startsWith "&" then (w.drop 1).toString else w
            let w2 := (w1.splitOn "|").headD w1
            if w2.startsWith "b" && w2.contains '_' && (w2.drop 1).toString.front.isDigit && !(d.buckets.contains w2) then some w2 else none
          { d with buckets := d.buckets ++ bs.eraseDups }
        else d
      let d := match rest with
        | "CALL" :: op :: n :: h :: _ =>
          if d.mode == "lfht" && op.startsWith "add" || op == "replace" then
            match objOfName n, h.toNat? with
            | some k, some hv => { d with nodeHash := (k, hv) :: d.nodeHash.filter (·.1 != k) }
            | _, _ => d
          else d
        | _ => d
      match rest with
      | ["READER", r] => .ok (d.setT tid { th with ridx := r.toNat?.getD 0 })
      | "CALL" :: c =>
        match th.cur with
        | some _ => .ok d        -- nested marker (wrapper inside a call): keep collecting
        | none =>
          let spec := if d.mode == "lfht" && c == ["del"] then
              (if th.lastIter == "0" || th.lastIter == "" then
                some ("lfht.del", UrcuVerif.Gen.Src.«lfht.cds_lfht_del», UrcuVerif.Gen.Src.«lfht.cds_lfht_del.params», [Val.ptr (.glob "ht"), Val.int 0])
               else (objOfName ((th.lastIter.drop 1).toString)).map fun k =>
                ("lfht.del", UrcuVerif.Gen.Src.«lfht.cds_lfht_del», UrcuVerif.Gen.Src.«lfht.cds_lfht_del.params», [Val.ptr (.glob "ht"), Val.ptr (.obj k)]))
            else callSpec d c
          match spec with
          | some (op, fn, ps, as) =>
            .ok (d.setT tid { th with cur := some { op := op, fn := fn, params := ps, args := as, search := op.endsWith ".sync" || op.startsWith "lfht.", gpctr0 := d.gpctr } })
          | none => .ok { d with cov := bump d.cov s!"skipped:{c.headD ""}" }
      | "RET" :: retws =>
        -- lfht: the iterator the call leaves behind is the next call's input (recorded after this call is compared)
        let setIter (d : D) : D := match retws with
          | op :: n :: rest' =>
            if d.mode == "lfht" && op ∈ ["lookup", "first", "next", "next_dup"] then
              let t' := d.getT tid
              d.setT tid { t' with lastIter := n, lastNext := rest'.headD "0" }
            else d
          | _ => d
        match th.cur with
        | some c => (finish d tid th c true).map setIter
        | none => .ok (setIter d)
      | "SIG_ENTER" :: _ => .error "trace with signal handlers: not supported by drv_src (run the scenario with sig=0)"
      | ev =>
        match th.cur with
        | some c =>
          let d := match ev with
            | ["ST", "gp.ctr", v, _] => (match valOf v with | .ok x => { d with gpctr := x } | _ => d)
            | ["LD", "gp.ctr", v, _] => (match valOf v with | .ok x => { d with gpctr := x } | _ => d)
            | _ => d
          -- the updater reads gp.ctr plainly under rcu_gp_lock: its private value is the global one when it got the lock
          let c := if ev == ["LOCK", "gp_lock"] then { c with gpctr0 := d.gpctr } else c
          if isEventLine ev || (c.search && isSyncLine ev) then .ok (d.setT tid { th with cur := some { c with lines := ev :: c.lines } })
          else .ok (d.setT tid { th with cur := some c })
        | none =>
          -- a store to the thread's own carried word by an untranslated function (registration, synchronize_rcu of qsbr)
          match ev with
          | ["ST", "gp.ctr", v, _] => (match valOf v with | .ok x => .ok { d with gpctr := x } | _ => .ok d)
          | ["LD", "gp.ctr", v, _] => (match valOf v with | .ok x => .ok { d with gpctr := x } | _ => .ok d)
          | ["ST", loc, v, _] =>
            match (carry d.mode th.ridx).find? (fun l => locStr d.mode th.ridx l == loc), valOf v with
            | some l, .ok x =>
              let p0 := if th.priv.isEmpty then initPriv d th.ridx else th.priv
              .ok (d.setT tid { th with priv := (l, x) :: p0.filter (·.1 != l) })
            | _, _ => .ok d
          | _ => .ok d
  | [] => .ok d

def finishAll (d : D) : Except String D :=
  d.thr.foldlM (fun d (t, th) => match th.cur with
    | some c => finish d t th c false
    | none => .ok d) d

partial def loop (h : IO.FS.Stream) (d : D) (k : Nat) : IO UInt32 := do
  let line ← h.getLine
  if line.isEmpty then
    match finishAll d with
    | .ok d =>
      IO.println s!"OK lines={k} calls={d.compared} events={d.events} searchruns={d.searchRuns} {showCov d.cov}"
      return 0
    | .error e =>
      IO.println s!"DIVERGE line {k} (end of trace) :: {e}"
      return 1
  let ws := words line
  if ws.isEmpty || (ws.head!.startsWith "#") then loop h d (k+1)
  else match drive d ws with
    | .ok d' => loop h d' (k+1)
    | .error e =>
      IO.println s!"DIVERGE line {k+1}: {line.trimAscii.toString} :: {e}"
      IO.println s!"PARTIAL lines={k} calls={d.compared} events={d.events} {showCov d.cov}"
      return 1

end SrcDrv

def main (args : List String) : IO UInt32 := do
  match args with
  | mode :: defaults =>
    -- defaults: k=v pairs used when the trace's CFG line does not give the key (e.g. legacymb=1 from /repo's config.h)
    let cfg := defaults.filterMap fun kv => match kv.splitOn "=" with | [k, v] => some (k, v) | _ => none
    SrcDrv.loop (← IO.getStdin) { mode := mode, cfg := cfg } 0
  | _ => IO.println "usage: drv_src <gp-memb|gp-mb|gp-bp|wfs|lfs|wfcq>"; return 2
