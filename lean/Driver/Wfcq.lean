import Driver.Prog
import UrcuVerif.Wfcq.Model
import UrcuVerif.Wfq.Model
import UrcuVerif.Gen.Constants
/-!
Trace checker for `cds_wfcq` (include/urcu/static/wfcqueue.h + src/wfcqueue.c wrappers) and the
legacy `cds_wfq` (include/urcu/static/wfqueue.h): C10, and the wfcqueue facets of C17.

L1: every C function is transliterated below as a `P G _` program that must consume exactly the
events the real code emits under the shim (same accesses, locations, values, memory orders,
barriers, lock calls, spin hints, in the same order).  At each access the label of the proven L2
model (`UrcuVerif.Wfcq.step`) is replayed (flush-immediately mode: harness runs are sequentially
consistent) and must be enabled; every value the implementation read must equal the value the
model's memory holds; every API return value must equal the model's `Pc.done` result.
-/
open Driver UrcuVerif

namespace WfcqDrv
open Wfcq

structure G where
  s : State := init
  w : Wfq.State := Wfq.init            -- the legacy cds_wfq model (traces with `CFG comp=wfq`)
  wfq : Bool := false
  legacy : Bool := true
  attempts : Nat := Gen.WFCQ_ADAPT_ATTEMPTS
  opSteps : List (Nat × Nat) := []       -- per thread: model steps (= shimmed primitives) since the last SOLO_BEGIN
  opRelax : List (Nat × Nat) := []       -- (strict association lists: closures built by `upd` under an `if` are re-evaluated on every lookup)
  cov : List (String × Nat) := []

abbrev M := P G

def getC (l : List (Nat × Nat)) (t : Nat) : Nat := ((l.find? (·.1 == t)).map (·.2)).getD 0
def setC (l : List (Nat × Nat)) (t v : Nat) : List (Nat × Nat) := (t, v) :: l.filter (·.1 != t)

def cover (k : String) : M Unit := P.act fun g => .ok { g with cov := bump g.cov k }
def modify (f : G → G) : M Unit := P.act fun g => .ok (f g)

/-- drain thread `t`'s store buffer (flush-immediately mode) -/
def drain (t : Nat) : Nat → State → State
  | 0, s => s
  | n+1, s => match step s (.flush t) with
    | some s' => drain t n s'
    | none => s

/-- replay one model label; `cnt`: it corresponds to one shimmed primitive of the C code -/
def lab (l : Label) (cnt : Bool := true) : M Unit := P.act fun g =>
  match step g.s l with
  | some s' =>
    let t := l.tid
    .ok { g with s := drain t 8 s', opSteps := if cnt then setC g.opSteps t (getC g.opSteps t + 1) else g.opSteps }
  | none => .error s!"model step {repr l} not enabled (pc={repr (g.s.pc l.tid)})"

def moOk (got : String) (want : Nat) : Bool := match got.toNat? with
  | some m => m ≥ want
  | none => false

/-- "q1h" ↦ 1, "q2h" ↦ 2, "n7" ↦ 7 : the address whose `next` field the location names -/
def nextAddr (loc : String) : Option Nat :=
  if loc == "q1h" then some 1 else if loc == "q2h" then some 2
  else if loc.startsWith "n" then (loc.drop 1).toString.toNat?.bind fun n => if n ≥ 3 then some n else none
  else none

def nextLoc (a : Nat) : String := if a == 1 then "q1h" else if a == 2 then "q2h" else s!"n{a}"
def tailLoc (q : Nat) : String := s!"q{q}t"
def lockLoc (q : Nat) : String := s!"q{q}lock"

/-- pointer value token ↦ address ("0", "&q1h", "&n7") -/
def ptrOf (tok : String) : Option Nat :=
  if tok == "0" then some 0
  else if tok.startsWith "&" then nextAddr (tok.drop 1).toString
  else none

def ptrTok (a : Nat) : String := if a == 0 then "0" else "&" ++ nextLoc a

def qOf (tok : String) : M Nat :=
  if tok == "q1" then pure 1 else if tok == "q2" then pure 2 else P.fail s!"bad queue {tok}"

def ptr (tok : String) : M Nat := match ptrOf tok with
  | some a => pure a
  | none => P.fail s!"bad pointer value {tok}"

/-- `uatomic_load(&a->next, mo)`: the value read must be what the model's memory holds -/
def ldNext (t a : Nat) (want : Nat) : M Nat := do
  let r ← P.evAt "LD" (nextLoc a)
  match r with
  | [v, mo] =>
    let v ← ptr v
    if !moOk mo want then P.fail s!"LD {nextLoc a}: memory order {mo} weaker than {want}"
    let g ← P.get
    if rd g.s t a != v then P.fail s!"LD {nextLoc a} read {ptrTok v}, model memory has {ptrTok (rd g.s t a)}"
    pure v
  | _ => P.fail "bad LD"

def ldTail (q : Nat) (want : Nat) : M Nat := do
  let r ← P.evAt "LD" (tailLoc q)
  match r with
  | [v, mo] =>
    let v ← ptr v
    if !moOk mo want then P.fail s!"LD {tailLoc q}: memory order {mo} weaker than {want}"
    let g ← P.get
    if g.s.tail q != v then P.fail s!"LD {tailLoc q} read {ptrTok v}, model has {ptrTok (g.s.tail q)}"
    pure v
  | _ => P.fail "bad LD"

/-- `uatomic_store(&a->next, v, mo)` -/
def stNext (a v : Nat) (want : Nat) : M Unit := do
  let r ← P.evAt "ST" (nextLoc a)
  match r with
  | [x, mo] =>
    if x != ptrTok v then P.fail s!"ST {nextLoc a}: stores {x}, C text transliteration expects {ptrTok v}"
    if !moOk mo want then P.fail s!"ST {nextLoc a}: memory order {mo} weaker than {want}"
  | _ => P.fail "bad ST"

/-- `uatomic_xchg(loc, new, SEQ_CST)`: returns the old value token's address -/
def xchg (loc : String) (new : Nat) (modelOld : State → Nat) : M Nat := do
  let r ← P.evAt "XCHG" loc
  match r with
  | [n, o, mo] =>
    if n != ptrTok new then P.fail s!"XCHG {loc}: new value {n}, expected {ptrTok new}"
    if !moOk mo 5 then P.fail s!"XCHG {loc}: weaker than seq_cst"
    let o ← ptr o
    let g ← P.get       -- (after the event: the state the model is in when this access happens)
    if o != modelOld g.s then P.fail s!"XCHG {loc} returned {ptrTok o}, model has {ptrTok (modelOld g.s)}"
    pure o
  | _ => P.fail "bad XCHG"

def mbEv (t : Nat) : M Unit := do
  P.expect "MB" []
  lab (.fence t)

/-- `cmm_emit_legacy_smp_mb()` -/
def legacyMb (t : Nat) : M Unit := do
  let g ← P.get
  if g.legacy then mbEv t

def relaxCount (t : Nat) : M Unit :=
  modify fun g => { g with opRelax := setC g.opRelax t (getC g.opRelax t + 1), opSteps := setC g.opSteps t (getC g.opSteps t + 1) }

-- ------------------------------------------------------------------------------------------
-- include/urcu/static/wfcqueue.h, function by function
-- ------------------------------------------------------------------------------------------

/-- `_cds_wfcq_empty(head, tail)` (model pcs `e1`, `e2`) -/
def emptyP (t q : Nat) : M Bool := do
  let v ← ldNext t q 1                      -- uatomic_load(&head->node.next, CMM_CONSUME) == NULL
  lab (.ld1 t)
  if v != 0 then do cover "empty_head_nonnull"; pure false
  else do
    let tl ← ldTail q 1                     -- && uatomic_load(&tail->p, CMM_CONSUME) == &head->node
    lab (.ld2 t)
    cover (if tl == q then "empty_true" else "empty_tail_moved")
    pure (tl == q)

/-- `___cds_wfcq_busy_wait(&attempt, blocking)`: true = needs to block (non-blocking caller) -/
def busyWait (t : Nat) (attempt : Nat) (blocking : Bool) : M (Bool × Nat) := do
  if !blocking then pure (true, attempt)
  else do
    let g ← P.get
    if attempt + 1 ≥ g.attempts then do
      P.expect "POLL" []                    -- CDS_WFCQ_WAIT_SLEEP(WFCQ_WAIT)
      relaxCount t; cover "busy_poll"
      pure (false, 0)
    else do
      P.expect "RELAX" []                   -- caa_cpu_relax()
      relaxCount t; cover "busy_relax"
      pure (false, attempt + 1)

/-- `___cds_wfcq_node_sync_next(node, blocking)`: `none` = CDS_WFCQ_WOULDBLOCK (model pc `sync`) -/
partial def syncNext (t a : Nat) (blocking : Bool) (attempt : Nat := 0) : M (Option Nat) := do
  let v ← ldNext t a 1                      -- while ((next = uatomic_load(&node->next, CMM_CONSUME)) == NULL)
  lab (.sync t)
  if v != 0 then pure (some v)
  else do
    let (wb, attempt) ← busyWait t attempt blocking
    if wb then do cover "sync_wouldblock"; pure none
    else syncNext t a blocking attempt

/-- `___cds_wfcq_append(head, tail, new_head, new_tail)`; returns `old_tail != &head->node` -/
def append (t q newHead newTail : Nat) (l : Label) : M Bool := do
  let old ← xchg (tailLoc q) newTail (fun s => s.tail q)   -- old_tail = uatomic_xchg_mo(&tail->p, new_tail, CMM_SEQ_CST)
  lab l
  stNext old newHead 3                               -- uatomic_store(&old_tail->next, new_head, CMM_RELEASE)
  lab (.stIssue t)
  pure (old != q)

/-- `_cds_wfcq_enqueue` -/
def enqueue (t q n : Nat) : M Bool := do
  legacyMb t
  append t q n n (.enqXchg t q n)

/-- `___cds_wfcq_first(head, tail, blocking)`: result as `Res` -/
def first (t q : Nat) (blocking : Bool) : M Res := do
  if (← emptyP t q) then pure .null
  else match (← syncNext t q blocking) with
    | some n => pure (.node n false)
    | none => pure .wouldblock

/-- `___cds_wfcq_next(head, tail, node, blocking)` -/
def next (t q a : Nat) (blocking : Bool) : M Res := do
  let v ← ldNext t a 1                      -- if ((next = uatomic_load(&node->next, CMM_CONSUME)) == NULL)
  lab (.nx1 t)
  if v != 0 then do cover "next_fast"; pure (.node v false)
  else do
    let tl ← ldTail q 0                     -- if (uatomic_load(&tail->p) == node) return NULL
    lab (.nx2 t)
    if tl == a then do cover "next_end"; pure .null
    else do
      cover "next_sync"
      match (← syncNext t a blocking) with
      | some n => pure (.node n false)
      | none => pure .wouldblock

/-- `___cds_wfcq_dequeue_with_state(head, tail, state, blocking)` -/
def dequeue (t q : Nat) (blocking : Bool) : M Res := do
  if (← emptyP t q) then do cover "deq_empty"; pure .null
  else match (← syncNext t q blocking) with
    | none => do cover "deq_wb_head"; pure .wouldblock
    | some node => do
      let nx ← ldNext t node 1              -- if ((next = uatomic_load(&node->next, CMM_CONSUME)) == NULL)
      lab (.d2 t)
      let fin (nx : Nat) : M Res := do
        stNext q nx 0                       -- uatomic_store(&head->node.next, next)
        lab (.d6 t)
        legacyMb t
        pure (.node node false)
      if nx != 0 then do cover "deq_not_last"; fin nx
      else do
        stNext q 0 0                        -- _cds_wfcq_node_init_atomic(&head->node)
        lab (.d3 t)
        let r ← P.evAt "CAS" (tailLoc q)    -- uatomic_cmpxchg_mo(&tail->p, node, &head->node, SEQ_CST, SEQ_CST)
        let g ← P.get
        let old ← match r with
          | [e, n, o, mos, mof] =>
            if e != ptrTok node || n != ptrTok q then P.fail s!"CAS {tailLoc q}: expected/new {e}/{n}, C text has {ptrTok node}/{ptrTok q}"
            else if !moOk mos 5 || !moOk mof 5 then P.fail "CAS: weaker than seq_cst"
            else ptr o
          | _ => P.fail "bad CAS"
        if old != g.s.tail q then P.fail s!"CAS {tailLoc q} read {ptrTok old}, model has {ptrTok (g.s.tail q)}"
        lab (.d4 t)
        if old == node then do
          cover "deq_last_cas_ok"
          legacyMb t
          pure (.node node true)            -- *state |= CDS_WFCQ_STATE_LAST
        else do
          cover "deq_last_cas_failed"
          match (← syncNext t node blocking) with
          | none => do
            stNext q node 0                 -- uatomic_store(&head->node.next, node); return WOULDBLOCK
            lab (.d7 t)
            cover "deq_wb_restore"
            pure .wouldblock
          | some nx => fin nx

/-- `___cds_wfcq_splice(dest, src, blocking)` -/
partial def splice (t dst src : Nat) (blocking : Bool) : M Res := do
  if (← emptyP t src) then do cover "splice_src_empty_fast"; pure .srcEmpty
  else
    let rec loop (attempt : Nat) : M (Option (Option Nat)) := do   -- some (some head) | some none = SRC_EMPTY | none = WOULDBLOCK
      let h ← xchg (nextLoc src) 0 (fun s => s.next src)   -- head = uatomic_xchg_mo(&src_q_head->node.next, NULL, CMM_SEQ_CST)
      lab (.s3 t)
      if h != 0 then pure (some (some h))
      else do
        let tl ← ldTail src 1                       -- if (uatomic_load(&src_q_tail->p, CMM_CONSUME) == &src_q_head->node)
        lab (.s4 t)
        if tl == src then do cover "splice_src_empty_slow"; pure (some none)
        else do
          let (wb, attempt) ← busyWait t attempt blocking
          if wb then pure none else loop attempt
    match (← loop 0) with
    | none => do cover "splice_wouldblock"; pure .wouldblock
    | some none => pure .srcEmpty
    | some (some h) => do
      legacyMb t
      let tl ← xchg (tailLoc src) src (fun s => s.tail src)   -- tail = uatomic_xchg_mo(&src_q_tail->p, &src_q_head->node, SEQ_CST)
      lab (.s5 t)
      let ne ← append t dst h tl (.s6 t)
      cover (if ne then "splice_dest_nonempty" else "splice_dest_empty")
      pure (.dest ne)

def resTok : Res → String
  | .bool b => if b then "1" else "0"
  | .null => "0"
  | .node n _ => ptrTok n
  | .wouldblock => "WB"
  | .srcEmpty => "2"
  | .dest b => if b then "1" else "0"

/-- the C control flow (driven by the values in the events) ended with `r`: the model must be at `done r` -/
def modelDone (t : Nat) (r : Res) : M Unit := do
  let g ← P.get
  if g.s.pc t != .done r then P.fail s!"C code returns {repr r}, model is at {repr (g.s.pc t)}"
  lab (.ret t) false

def lockEv (t q : Nat) : M Unit := do
  P.expect "LOCK" [lockLoc q]
  lab (.acquire t q)

def unlockEv (t q : Nat) : M Unit := do
  P.expect "UNLOCK" [lockLoc q]
  lab (.release t q)

def retLine (op : String) (want : List String) : M Unit :=
  P.ev s!"RET {op} {" ".intercalate want}" fun e =>
    if e.op == "RET" && e.arg 0 == op && (e.args.drop 1).take want.length == want then some () else none

def flag (s : String) (pre : String) : M Bool :=
  if s == pre ++ "1" then pure true else if s == pre ++ "0" then pure false else P.fail s!"bad flag {s}"

def resetOp (t : Nat) : M Unit := modify fun g => { g with opSteps := setC g.opSteps t 0, opRelax := setC g.opRelax t 0 }

def kv (s pre : String) : M Nat :=
  if s.startsWith pre then match (s.drop pre.length).toString.toNat? with
    | some n => pure n
    | none => P.fail s!"bad {s}"
  else P.fail s!"bad {s}"

partial def thread (t : Nat) : M Unit := do
  let e ← P.ev "CALL / ROLE / SOLO / SPAWN" fun e => some e
  match e.op, e.args with
  | "SPAWN", _ => thread t
  | "THREAD_EXIT", _ => pure ()
  | "ROLE", ["acquire", q] => do lab (.acquire t (← qOf q)) false; thread t
  | "ROLE", ["release", q] => do lab (.release t (← qOf q)) false; thread t
  | "SOLO_BEGIN", _ => do resetOp t; thread t
  | "SOLO", [op, st, rl, _] => do
    let st ← kv st "steps="; let rl ← kv rl "relax="
    let g ← P.get
    -- own steps of the solo run = number of model steps (one per shimmed primitive); no waiting
    if st != getC g.opSteps t then P.fail s!"solo {op}: implementation took {st} own steps, model run has {getC g.opSteps t}"
    if rl != 0 || getC g.opRelax t != 0 then P.fail s!"solo {op}: {rl} spin hints in an operation that must not wait"
    cover s!"solo_{op}"
    modify fun g => { g with cov := (bump g.cov s!"K_{op}_max").map fun (k, n) => if k == s!"K_{op}_max" then (k, max (n - 1) st) else (k, n) }
    thread t
  | "CALL", ["enq", q, n] => do
    let q ← qOf q
    let n ← match nextAddr n with | some n => pure n | none => P.fail "bad node"
    let r ← enqueue t q n
    modelDone t (.bool r)
    retLine "enq" [resTok (.bool r)]
    cover (if r then "enq_nonempty" else "enq_empty")
    thread t
  | "CALL", ["empty", q] => do
    let q ← qOf q
    lab (.callEmpty t q) false
    let r ← emptyP t q
    modelDone t (.bool r)
    retLine "empty" [resTok (.bool r)]
    thread t
  | "CALL", ["lock", q] => do lockEv t (← qOf q); retLine "lock" []; thread t
  | "CALL", ["unlock", q] => do unlockEv t (← qOf q); retLine "unlock" []; thread t
  | "CALL", ["deq", q, b, lk] => do
    let q ← qOf q; let b ← flag b "b="; let lk ← flag lk "lk="
    if lk then lockEv t q
    lab (.callDeq t q b) false
    let r ← dequeue t q b
    modelDone t r
    if lk then unlockEv t q
    -- "RET deq <ptr> st=<state>": st=-1 when the variant has no state argument
    let st ← P.ev s!"RET deq {resTok r} st=…" fun e =>
      if e.op == "RET" && e.arg 0 == "deq" && e.arg 1 == resTok r then some (e.arg 2) else none
    let wantSt := match r with | .node _ true => "st=1" | _ => "st=0"
    if st != "st=-1" && st != wantSt then P.fail s!"dequeue state: implementation {st}, model {wantSt}"
    cover (match r with | .null => "ret_deq_null" | .wouldblock => "ret_deq_wb" | .node _ true => "ret_deq_last" | _ => "ret_deq_node")
    thread t
  | "CALL", ["first", q, b] => do
    let q ← qOf q; let b ← flag b "b="
    lab (.callFirst t q b) false
    let r ← first t q b
    modelDone t r
    retLine "first" [resTok r]
    cover (match r with | .null => "ret_first_null" | .wouldblock => "ret_first_wb" | _ => "ret_first_node")
    thread t
  | "CALL", ["next", q, a, b] => do
    let q ← qOf q; let b ← flag b "b="
    let a ← match nextAddr a with | some n => pure n | none => P.fail "bad node"
    lab (.callNext t q a b) false
    let r ← next t q a b
    modelDone t r
    retLine "next" [resTok r]
    cover (match r with | .null => "ret_next_null" | .wouldblock => "ret_next_wb" | _ => "ret_next_node")
    thread t
  | "CALL", ["splice", dst, src, b, lk] => do
    let dst ← qOf dst; let src ← qOf src; let b ← flag b "b="; let lk ← flag lk "lk="
    if lk then lockEv t src
    lab (.callSplice t dst src b) false
    let r ← splice t dst src b
    modelDone t r
    if lk then unlockEv t src
    retLine "splice" [match r with | .wouldblock => "-1" | r => resTok r]
    thread t
  | _, _ => P.fail s!"unexpected {e.show}"

def cfgLine (g : G) (ws : List String) : G :=
  ws.foldl (fun g w =>
    if w == "comp=wfq" then { g with wfq := true }
    else if w == "legacy_mb=0" then { g with legacy := false }
    else if w == "legacy_mb=1" then { g with legacy := true }
    else if w.startsWith "attempts=" then { g with attempts := (w.drop 9).toString.toNat?.getD g.attempts }
    else g) g

end WfcqDrv

-- ------------------------------------------------------------------------------------------
-- include/urcu/static/wfqueue.h (legacy cds_wfq), function by function, on `UrcuVerif.Wfq.step`
-- ------------------------------------------------------------------------------------------
namespace WfqDrv
open WfcqDrv

abbrev M := P G

def drainW (t : Nat) : Nat → Wfq.State → Wfq.State
  | 0, s => s
  | n+1, s => match Wfq.step s (.flush t) with
    | some s' => drainW t n s'
    | none => s

def lab (l : Wfq.Label) : M Unit := P.act fun g =>
  match Wfq.step g.w l with
  | some s' => .ok { g with w := drainW l.tid 8 s' }
  | none => .error s!"wfq model step {repr l} not enabled (pc={repr (g.w.pc l.tid)})"

/-- "n1" (the dummy) ↦ 1, "n7" ↦ 7 -/
def addr (loc : String) : Option Nat :=
  if loc.startsWith "n" then (loc.drop 1).toString.toNat?.bind fun n => if n == 1 || n ≥ 3 then some n else none
  else none

def tok (a : Nat) : String := if a == 0 then "0" else s!"&n{a}"

def ptr (t : String) : M Nat :=
  if t == "0" then pure 0
  else if t.startsWith "&" then match addr (t.drop 1).toString with
    | some a => pure a
    | none => P.fail s!"bad pointer value {t}"
  else P.fail s!"bad pointer value {t}"

def legacyMb (t : Nat) : M Unit := do
  let g ← P.get
  if g.legacy then do
    P.expect "MB" []
    lab (.fence t)

/-- `_cds_wfq_enqueue(q, node)`; `l` = the model label of its xchg (enqueue of a node / dummy re-enqueue) -/
def enqueue (t n : Nat) (l : Wfq.Label) : M Unit := do
  legacyMb t
  let r ← P.evAt "XCHG" "qt"                 -- old_tail = uatomic_xchg_mo(&q->tail, &node->next, CMM_SEQ_CST)
  let g ← P.get
  let old ← match r with
    | [nv, o, mo] =>
      if nv != tok n then P.fail s!"XCHG qt: new value {nv}, expected {tok n}"
      else if !moOk mo 5 then P.fail "XCHG qt: weaker than seq_cst"
      else ptr o
    | _ => P.fail "bad XCHG"
  if old != g.w.tail then P.fail s!"XCHG qt returned {tok old}, model has {tok g.w.tail}"
  lab l
  let r ← P.evAt "ST" s!"n{old}"             -- uatomic_store(old_tail, node, CMM_RELEASE)
  match r with
  | [x, mo] =>
    if x != tok n then P.fail s!"ST n{old}: stores {x}, C text transliteration expects {tok n}"
    if !moOk mo 3 then P.fail s!"ST n{old}: memory order {mo} weaker than release"
  | _ => P.fail "bad ST"
  lab (.stIssue t)

/-- `___cds_wfq_node_sync_next(node)` -/
partial def syncNext (t nd : Nat) (attempt : Nat := 0) : M Nat := do
  let r ← P.evAt "LD" s!"n{nd}"              -- while ((next = uatomic_load(&node->next, CMM_CONSUME)) == NULL)
  let v ← match r with
    | [v, mo] => if !moOk mo 1 then P.fail "LD next: weaker than consume" else ptr v
    | _ => P.fail "bad LD"
  let g ← P.get
  if Wfq.rd g.w t nd != v then P.fail s!"LD n{nd} read {tok v}, model memory has {tok (Wfq.rd g.w t nd)}"
  lab (.sync t)
  if v != 0 then pure v
  else do
    let g ← P.get
    if attempt + 1 ≥ g.attempts then do
      P.expect "POLL" []; cover "wfq_sync_poll"
      syncNext t nd 0
    else do
      P.expect "RELAX" []; cover "wfq_sync_relax"
      syncNext t nd (attempt + 1)

/-- `___cds_wfq_dequeue_blocking(q)`: `none` = NULL -/
partial def dequeue (t : Nat) : M (Option Nat) := do
  let g ← P.get
  let hd := g.w.head
  -- if (q->head == &q->dummy && uatomic_load(&q->tail, CMM_CONSUME) == &q->dummy.next) return NULL;
  let empty ← if hd == Wfq.D then do
      let r ← P.evAt "LD" "qt"
      match r with
      | [v, mo] =>
        let v ← ptr v
        if !moOk mo 1 then P.fail "LD qt: weaker than consume"
        let g ← P.get
        if v != g.w.tail then P.fail s!"LD qt read {tok v}, model has {tok g.w.tail}"
        pure (v == Wfq.D)
      | _ => P.fail "bad LD"
    else pure false
  lab (.q1 t)
  if empty then do cover "wfq_deq_empty"; pure none
  else do
    let nx ← syncNext t hd                   -- node = q->head; next = ___cds_wfq_node_sync_next(node); q->head = next
    let _ := nx
    if hd == Wfq.D then do
      cover "wfq_requeue_dummy"
      enqueue t Wfq.D (.redo t)              -- _cds_wfq_node_init(node); _cds_wfq_enqueue(q, node)
      dequeue t                              -- return ___cds_wfq_dequeue_blocking(q)
    else do cover "wfq_deq_node"; pure (some hd)

def modelDone (t : Nat) (r : Wfq.Res) : M Unit := do
  let g ← P.get
  if g.w.pc t != .done r then P.fail s!"C code returns {repr r}, wfq model is at {repr (g.w.pc t)}"
  lab (.ret t)

partial def thread (t : Nat) : M Unit := do
  let e ← P.ev "CALL / ROLE / SPAWN" fun e => some e
  match e.op, e.args with
  | "SPAWN", _ => thread t
  | "THREAD_EXIT", _ => pure ()
  | "ROLE", ["acquire"] => do lab (.acquire t); thread t
  | "ROLE", ["release"] => do lab (.release t); thread t
  | "CALL", ["wfq_enq", n] => do
    let n ← match addr n with | some n => pure n | none => P.fail "bad node"
    enqueue t n (.enqXchg t n)
    modelDone t .unit
    retLine "wfq_enq" []
    cover "wfq_enq"
    thread t
  | "CALL", ["wfq_deq", lk] => do
    let lk ← flag lk "lk="
    if lk then do P.expect "LOCK" ["qlock"]; lab (.acquire t)
    lab (.callDeq t)
    let r ← dequeue t
    modelDone t (match r with | none => .null | some n => .node n)
    if lk then do P.expect "UNLOCK" ["qlock"]; lab (.release t)
    retLine "wfq_deq" [match r with | none => "0" | some n => tok n]
    thread t
  | _, _ => P.fail s!"unexpected {e.show}"

end WfqDrv

open WfcqDrv in
def main : IO UInt32 := do
  let f (r : Run G) (ws : List String) : Except String (Run G) :=
    match ws with
    | "CFG" :: rest => .ok { r with g := cfgLine r.g rest }
    | _ => match parseEv ws with
      | some e => feed (fun t g => if g.wfq then (WfqDrv.thread t).run else (thread t).run) r e
      | none => .error "unparsable line"
  loop (← IO.getStdin) f (fun r => showCov r.g.cov) ({ g := {} } : Run G) 0
