import Driver.Prog
import UrcuVerif.CallRcu.Barrier
import UrcuVerif.Gen.Constants
/-!
Trace checker for `src/urcu-call-rcu-impl.h` (+ the wfcqueue accesses it makes): C03, C04.

"L1": every function of the C text is transliterated below as a coroutine that must consume exactly
the events the real code emits on the locations of call_rcu (queue head/tail and node `next` fields,
`flags`, `futex`, `qlen`, `call_rcu_mutex`, the default pointer, the per-CPU array, the completion
objects) – same accesses, same values (checked against a shadow memory), same order, same futex and
lock calls.  At the accesses that matter the labels of the proven "L2" model
(`UrcuVerif.CallRcu.bstep`) are replayed and must be enabled; callback identities and invocation
order are compared with the model's `batch`.

The grace-period implementation itself is not this component's: between the start of a
`synchronize_rcu()` and its return the events on its locations (`gp.*`, `reader*.ctr`, `waiters.*`,
`registry_lock`, `gp_lock`, on-stack wait nodes, barriers) are skipped; the call is replayed as the
`GpSpec` steps of the model, whose guard (every earlier section has ended) is checked against the
read-side sections seen in the trace.  `rcu_read_lock/unlock` inside `call_rcu()` are matched
structurally (values of the grace-period words are not interpreted).
-/
open Driver UrcuVerif UrcuVerif.CallRcu

namespace CrDrv

def NT : Nat := 64
def F_RT : Nat := Gen.URCU_CALL_RCU_RT
def F_STOP : Nat := Gen.URCU_CALL_RCU_STOP
def F_STOPPED : Nat := Gen.URCU_CALL_RCU_STOPPED
def F_PAUSE : Nat := Gen.URCU_CALL_RCU_PAUSE
def F_PAUSED : Nat := Gen.URCU_CALL_RCU_PAUSED
def ADAPT : Nat := Gen.WFCQ_ADAPT_ATTEMPTS
/-- callback ids of the model: user callback `cbN` ↦ N, barrier work item `workJ` ↦ WORK0 + J -/
def WORK0 : Nat := 1000000

structure G where
  c : Cfg := { n := NT, ncpu := 4 }
  s : BState := binit
  mem : List (String × String) := []
  slaveMB : Bool := false
  flavor : String := "memb"           -- memb | mb | qsbr | bp
  rctr : List (Nat × String) := []      -- qsbr: last value a thread stored to its own reader word
  bpReg : List Nat := []                -- bp: trace threads whose reader slot is registered
  legacyMb : Bool := true
  tidH : List (Nat × Nat) := []          -- trace tid of a helper thread ↦ helper id
  rnest : Nat → Nat := fun _ => 0
  pendEv : List (Nat × Ev) := []
  thrK : Nat → Nat := fun _ => 0         -- URCU_TLS(thread_call_rcu_data) as crd index (0 = NULL)
  arrAlloc : Bool := false
  workOf : List (String × (Nat × Nat)) := []
  complB : List (Nat × Nat) := []
  cov : List (String × Nat) := []

abbrev M := P G

def modify (f : G → G) : M Unit := P.act fun g => .ok (f g)
def cover (k : String) : M Unit := P.act fun g => .ok { g with cov := bump g.cov k }

/-- model thread id of trace thread `t` -/
def mt (g : G) (t : Nat) : Nat := match g.tidH.lookup t with
  | some h => NT + h
  | none => t

def showPc (g : G) (t : Nat) : String :=
  s!"tpc={repr (g.s.base.tpc (mt g t))} bpc={repr (g.s.bpc (mt g t))}"

def lab (l : BLabel) : M Unit := P.act fun g =>
  match bstep g.c g.s l with
  | some s' => .ok { g with s := s' }
  | none => .error s!"model step {repr l} not enabled"

def labB (l : Label) : M Unit := lab (.base l)

def check (f : G → Option String) : M Unit := P.act fun g => match f g with
  | some e => .error e
  | none => .ok g

def num (s : String) : M Nat := match natOf s with
  | .ok n => pure n
  | .error e => P.fail e

def int (s : String) : M Int := match intOf s with
  | .ok n => pure n
  | .error e => P.fail e

def moOk (got : String) (want : Nat) : Bool := match got.toNat? with
  | some m => m ≥ want
  | none => false

def rd (g : G) (loc : String) : String := (g.mem.lookup loc).getD "0"
def wr (g : G) (loc v : String) : G := { g with mem := (loc, v) :: g.mem.filter (·.1 != loc) }
def setMem (loc v : String) : M Unit := modify fun g => wr g loc v

-- ------------------------------------------------------------------------------------------
-- events
-- ------------------------------------------------------------------------------------------

def nextEv (t : Nat) (desc : String) : M Ev := do
  let g ← P.get
  match g.pendEv.lookup t with
  | some e =>
    modify fun g => { g with pendEv := g.pendEv.filter (·.1 != t) }
    pure e
  | none => P.ev desc some

def unget (t : Nat) (e : Ev) : M Unit := modify fun g => { g with pendEv := (t, e) :: g.pendEv }

def expectEv (t : Nat) (op : String) (args : List String) : M Unit := do
  let e ← nextEv t s!"{op} {" ".intercalate args}"
  if e.op == op && e.args == args then pure ()
  else P.fail s!"expected {op} {" ".intercalate args}"

/-- LD loc: value must equal the shadow memory; returns the value token -/
def ldM (t : Nat) (loc : String) (want : Nat := 0) : M String := do
  let e ← nextEv t s!"LD {loc}"
  if e.op != "LD" || e.arg 0 != loc then P.fail s!"expected LD {loc}"
  if !moOk (e.arg 2) want then P.fail s!"LD {loc}: memory order {e.arg 2} weaker than {want}"
  let g ← P.get
  if e.arg 1 != rd g loc then P.fail s!"LD {loc} returned {e.arg 1}, shadow memory has {rd g loc}"
  pure (e.arg 1)

def stM (t : Nat) (loc val : String) (want : Nat := 0) : M Unit := do
  let e ← nextEv t s!"ST {loc} {val}"
  if e.op != "ST" || e.arg 0 != loc then P.fail s!"expected ST {loc} {val}"
  if e.arg 1 != val then P.fail s!"ST {loc}: stores {e.arg 1}, expected {val}"
  if !moOk (e.arg 2) want then P.fail s!"ST {loc}: memory order {e.arg 2} weaker than {want}"
  setMem loc val

/-- XCHG loc new: returns the old value (checked against the shadow memory) -/
def xchgM (t : Nat) (loc new : String) : M String := do
  let e ← nextEv t s!"XCHG {loc} {new}"
  if e.op != "XCHG" || e.arg 0 != loc then P.fail s!"expected XCHG {loc} {new}"
  if e.arg 1 != new then P.fail s!"XCHG {loc}: stores {e.arg 1}, expected {new}"
  if !moOk (e.arg 3) 5 then P.fail s!"XCHG {loc}: weaker than seq_cst"
  let g ← P.get
  if e.arg 2 != rd g loc then P.fail s!"XCHG {loc} returned {e.arg 2}, shadow memory has {rd g loc}"
  setMem loc new
  pure (e.arg 2)

/-- arithmetic read-modify-write `op ∈ ADD SUB SUBR` on a numeric location; returns the new value -/
def rmwM (t : Nat) (op loc : String) (operand : Int) : M Int := do
  let e ← nextEv t s!"{op} {loc} {operand}"
  if e.op != op || e.arg 0 != loc then P.fail s!"expected {op} {loc} {operand}"
  let d ← int (e.arg 1)
  if d != operand then P.fail s!"{op} {loc}: operand {d}, expected {operand}"
  let r ← int (e.arg 2)
  let g ← P.get
  let old ← int (rd g loc)
  let want := if op == "ADD" then old + operand else old - operand
  if r != want then P.fail s!"{op} {loc}: result {r}, shadow memory gives {want}"
  setMem loc (toString r)
  pure r

/-- `uatomic_or` / `uatomic_and` on a flags word; returns the new value -/
def bitM (t : Nat) (op loc : String) (f : Nat → Nat) (operandTok : String) : M Nat := do
  let e ← nextEv t s!"{op} {loc}"
  if e.op != op || e.arg 0 != loc then P.fail s!"expected {op} {loc}"
  if e.arg 1 != operandTok then P.fail s!"{op} {loc}: operand {e.arg 1}, expected {operandTok}"
  let r ← num (e.arg 2)
  let g ← P.get
  let old ← num (rd g loc)
  if r != f old then P.fail s!"{op} {loc}: result {r}, shadow memory gives {f old}"
  setMem loc (toString r)
  pure r

def mbEv (t : Nat) : M Unit := expectEv t "MB" []
def cbEv (t : Nat) : M Unit := expectEv t "CB" []
def legacyMb (t : Nat) : M Unit := do
  let g ← P.get
  if g.legacyMb then mbEv t

def foreignLoc (l : String) : Bool :=
  l.startsWith "gp." || l.startsWith "reader" || l.startsWith "waiters." || l.startsWith "stack"

def isForeign (e : Ev) : Bool :=
  if ["MB", "CB", "RMB", "WMB", "RELAX", "POLL", "MBAR", "SIGMASK"].contains e.op then true
  else if e.op == "LOCK" || e.op == "UNLOCK" then e.arg 0 == "registry_lock" || e.arg 0 == "gp_lock"
  else if ["LD", "ST", "XCHG", "CAS", "ADD", "SUB", "ADDR", "SUBR", "AND", "OR", "FUTEX_WAIT", "FUTEX_WOKEN", "FUTEX_WAKE"].contains e.op then
    foreignLoc (e.arg 0)
  else false

/-- skip the events of `synchronize_rcu()`; the first event on a location of ours (`own` = this
thread's private queue on its stack) is pushed back; the call must really be there (its `urcu_wait_add`) -/
partial def syncOpaque (t : Nat) (own : List String) (seen : Bool := false) : M Unit := do
  let e ← nextEv t "events of synchronize_rcu()"
  if isForeign e && !(own.contains (e.arg 0)) then do
    -- qsbr: an online caller goes offline / online inside; remember what it left in its reader word
    if e.op == "ST" && e.arg 0 == s!"reader{t}.ctr" then
      modify fun g => { g with rctr := (t, e.arg 1) :: g.rctr.filter (·.1 != t) }
    -- every synchronize_rcu() queues itself on the grace-period wait queue (urcu_wait_add = xchg of the stack head);
    -- bp has no wait queue: it takes rcu_gp_lock
    syncOpaque t own (seen || (e.op == "XCHG" && e.arg 0 == "waiters.head") || (e.op == "LOCK" && e.arg 0 == "gp_lock"))
  else do
    unget t e
    if !seen then P.fail "expected synchronize_rcu() here (neither urcu_wait_add on waiters.head nor rcu_gp_lock seen)"

/-- futex(FUTEX_WAKE, 1) on `loc`; returns the number of threads woken (ENOSYS: compat = mb, 0) -/
def futexWake (t : Nat) (loc : String) : M Nat := do
  let e ← nextEv t s!"FUTEX_WAKE {loc} n=1"
  if !(e.op == "FUTEX_WAKE" && e.arg 0 == loc && e.arg 1 == "n=1" && e.arg 2 == "->") then P.fail s!"expected FUTEX_WAKE {loc} n=1"
  if e.arg 3 == "ENOSYS" then do mbEv t; cover "futex_wake_ENOSYS"; pure 0
  else num (e.arg 3)

/-- futex(FUTEX_WAIT, -1) on `loc`; returns the outcome token -/
def futexWait (t : Nat) (loc : String) : M String := do
  let e ← nextEv t s!"FUTEX_WAIT {loc} val=-1"
  if !(e.op == "FUTEX_WAIT" && e.arg 0 == loc && e.arg 1 == "val=-1" && e.arg 2 == "->") then P.fail s!"expected FUTEX_WAIT {loc} val=-1"
  pure (e.arg 3)

/-- compat_futex_async(FUTEX_WAIT): mb; while (load == -1) poll -/
partial def compatWait (t : Nat) (loc : String) : M Unit := do
  mbEv t
  let rec loop : M Unit := do
    let v ← ldM t loc
    if v == "-1" then do expectEv t "POLL" []; loop else pure ()
  loop

-- ------------------------------------------------------------------------------------------
-- read-side lock (other component; matched structurally)
-- ------------------------------------------------------------------------------------------

def slave (t : Nat) : M Unit := do
  let g ← P.get
  if g.slaveMB then mbEv t else cbEv t

def anyAt (t : Nat) (op loc : String) : M (List String) := do
  let e ← nextEv t s!"{op} {loc}"
  if e.op == op && e.arg 0 == loc then pure (e.args.drop 1) else P.fail s!"expected {op} {loc}"

/-- qsbr `urcu_qsbr_wake_up_gp()` -/
def wakeUpGp (t : Nat) : M Unit := do
  let a ← anyAt t "LD" s!"reader{t}.waiting"
  if a.head? != some "0" then do
    let b ← anyAt t "ST" s!"reader{t}.waiting"
    if b.head? != some "0" then P.fail "wake_up_gp: waiting := 0 expected"
    mbEv t
    let f ← anyAt t "LD" "gp.futex"
    if f.head? == some "-1" then do
      let _ ← anyAt t "ST" "gp.futex"
      let e ← nextEv t "FUTEX_WAKE gp.futex"
      if e.op != "FUTEX_WAKE" then P.fail "expected FUTEX_WAKE gp.futex"
      if e.arg 3 == "ENOSYS" then mbEv t
    cover "qsbr_wake_up_gp"

def setRctr (t : Nat) (v : String) : M Unit := modify fun g => { g with rctr := (t, v) :: g.rctr.filter (·.1 != t) }
def getRctr (g : G) (t : Nat) : String := (g.rctr.lookup t).getD "0"

/-- qsbr `_urcu_qsbr_thread_online()` -/
def qsOnline (t : Nat) (atStore : M Unit := pure ()) : M Unit := do
  cbEv t
  let a ← anyAt t "LD" "gp.ctr"
  let v := a.head?.getD "?"
  let b ← anyAt t "ST" s!"reader{t}.ctr"
  if b.head? != some v then P.fail s!"thread_online: stores {b.head?.getD "?"} to its reader word, gp.ctr was {v}"
  atStore
  mbEv t
  setRctr t v

/-- qsbr `_urcu_qsbr_thread_offline()` -/
def qsOffline (t : Nat) (atStore : M Unit := pure ()) : M Unit := do
  let b ← anyAt t "ST" s!"reader{t}.ctr"
  if b.head? != some "0" then P.fail "thread_offline: reader word := 0 expected"
  if !moOk ((b.drop 1).head?.getD "") 5 then P.fail "thread_offline: the store to the reader word must be seq_cst"
  atStore
  wakeUpGp t
  cbEv t
  setRctr t "0"

/-- qsbr `_urcu_qsbr_quiescent_state()` -/
def qsQuiescent (t : Nat) (atStore : M Unit := pure ()) : M Unit := do
  let a ← anyAt t "LD" "gp.ctr"
  let v := a.head?.getD "?"
  let g ← P.get
  if v == getRctr g t then do atStore; cover "qs_already_current"
  else do
    let b ← anyAt t "ST" s!"reader{t}.ctr"
    if b.head? != some v then P.fail s!"quiescent_state: stores {b.head?.getD "?"}, gp.ctr was {v}"
    if !moOk ((b.drop 1).head?.getD "") 5 then P.fail "quiescent_state: the store to the reader word must be seq_cst"
    atStore
    wakeUpGp t
    mbEv t
    setRctr t v
    cover "qs_announced"

def isQsbr (g : G) : Bool := g.flavor == "qsbr"
def isBp (g : G) : Bool := g.flavor == "bp"
def qsbrOnline (g : G) (t : Nat) : Bool := isQsbr g && getRctr g t != "0"

/-- bp `urcu_bp_register()` (first read-side use of a thread, signals blocked) -/
def bpRegister (t : Nat) : M Unit := do
  expectEv t "SIGMASK" ["block"]
  -- _urcu_bp_init(): init_lock section (constructor already ran: nothing else)
  let e ← nextEv t "LOCK init_lock / registry_lock"
  if e.op == "LOCK" && e.arg 0 == "init_lock" then do
    expectEv t "UNLOCK" ["init_lock"]
    expectEv t "LOCK" ["registry_lock"]
  else if e.op == "LOCK" && e.arg 0 == "registry_lock" then pure ()
  else P.fail "urcu_bp_register: expected LOCK init_lock / registry_lock"
  expectEv t "UNLOCK" ["registry_lock"]
  expectEv t "SIGMASK" ["restore"]
  modify fun g => { g with bpReg := t :: g.bpReg }
  cover "bp_registered"

def bpEnsureReg (t : Nat) : M Unit := do
  let g ← P.get
  if isBp g && !g.bpReg.contains t then bpRegister t

/-- bp: the pthread-key destructor unregisters an exiting thread (`urcu_bp_unregister`, signals blocked) -/
def bpExit (t : Nat) : M Unit := do
  let g ← P.get
  if isBp g && g.bpReg.contains t then do
    expectEv t "SIGMASK" ["block"]
    expectEv t "LOCK" ["registry_lock"]; expectEv t "UNLOCK" ["registry_lock"]
    expectEv t "LOCK" ["init_lock"]; expectEv t "UNLOCK" ["init_lock"]
    expectEv t "SIGMASK" ["restore"]
    modify fun g => { g with bpReg := g.bpReg.filter (· != t) }
    cover "bp_unregistered_at_exit"

def readLock (t : Nat) : M Unit := do
  let g ← P.get
  if isQsbr g then pure ()          -- rcu_read_lock() is a no-op
  else do
    bpEnsureReg t
    cbEv t
    if g.rnest t == 0 then do
      let _ ← anyAt t "LD" "gp.ctr"
      let _ ← anyAt t "ST" s!"reader{t}.ctr"
      slave t
    else do
      let _ ← anyAt t "ST" s!"reader{t}.ctr"
  modify fun g => { g with rnest := upd g.rnest t (g.rnest t + 1) }

def readUnlock (t : Nat) (mbFlavor : Bool) : M Unit := do
  let g ← P.get
  if g.rnest t == 0 then P.fail "rcu_read_unlock with nesting 0"
  if isQsbr g then pure ()
  else if isBp g then do
    slave t
    let _ ← anyAt t "ST" s!"reader{t}.ctr"
    cbEv t
  else do
    if g.rnest t == 1 then do
      if mbFlavor then do
        let _ ← anyAt t "ST" s!"reader{t}.ctr"
      else do
        slave t
        let _ ← anyAt t "ST" s!"reader{t}.ctr"
        slave t
      let a ← anyAt t "LD" "gp.futex"
      if a.head? == some "-1" then do
        let _ ← anyAt t "ST" "gp.futex"
        let e ← nextEv t "FUTEX_WAKE gp.futex"
        if e.op != "FUTEX_WAKE" then P.fail "expected FUTEX_WAKE gp.futex"
        if e.arg 3 == "ENOSYS" then mbEv t
    else do
      let _ ← anyAt t "ST" s!"reader{t}.ctr"
    cbEv t
  modify fun g => { g with rnest := upd g.rnest t (g.rnest t - 1) }

/-- `rcu_register_thread()` -/
def registerThread (t : Nat) (atStore : M Unit := pure ()) : M Unit := do
  let g ← P.get
  if isBp g then bpEnsureReg t      -- urcu_bp_register_thread(): registers unless a read-side section already did
  else do
    expectEv t "LOCK" ["registry_lock"]; expectEv t "UNLOCK" ["registry_lock"]
    if isQsbr g then qsOnline t atStore

/-- `rcu_unregister_thread()` -/
def unregisterThread (t : Nat) (atStore : M Unit := pure ()) : M Unit := do
  let g ← P.get
  if isBp g then pure ()
  else do
    if isQsbr g then qsOffline t atStore
    expectEv t "LOCK" ["registry_lock"]; expectEv t "UNLOCK" ["registry_lock"]

/-- `rcu_thread_offline()` / `rcu_thread_online()` as called by the call_rcu code (no-ops except in qsbr) -/
def threadOffline (t : Nat) (atStore : M Unit := pure ()) : M Unit := do
  let g ← P.get
  if isQsbr g then qsOffline t atStore
def threadOnline (t : Nat) (atStore : M Unit := pure ()) : M Unit := do
  let g ← P.get
  if isQsbr g then qsOnline t atStore

-- ------------------------------------------------------------------------------------------
-- names
-- ------------------------------------------------------------------------------------------

def crdName (h : Nat) : String := s!"crd{h+1}"

/-- "crd3" ↦ helper 2; "crd0" ↦ none -/
def crdOfTok (tok : String) : Option Nat :=
  if tok.startsWith "crd" then
    match (tok.drop 3).toString.toNat? with
    | some (k+1) => some k
    | _ => none
  else none

/-- pointer token "&crd3.tail" ↦ helper 2 -/
def crdOfPtr (tok : String) : Option Nat :=
  if tok.startsWith "&crd" && tok.endsWith ".tail" then
    crdOfTok ((tok.drop 1).toString.dropEnd 5).toString
  else none

/-- location of the `next` field the pointer token designates: "&crd1.head" ↦ "crd1.head", "&cb7" ↦ "cb7" -/
def locOfPtr (tok : String) : String := (tok.drop 1).toString

def flagsOf (s : State) (h : Nat) : Nat :=
  (if s.rt h then F_RT else 0) + (if s.stop h then F_STOP else 0) + (if s.stopped h then F_STOPPED else 0)
  + (if s.pause h then F_PAUSE else 0) + (if s.paused h then F_PAUSED else 0)

def hasBit (f b : Nat) : Bool := (f / b) % 2 == 1

/-- a loaded `crdp->flags` word must be what the model's flag bits say -/
def ldFlags (t h : Nat) : M Nat := do
  let v ← ldM t s!"{crdName h}.flags"
  let f ← num v
  let g ← P.get
  if f != flagsOf g.s.base h then P.fail s!"LD {crdName h}.flags = {f} but the model's flag bits give {flagsOf g.s.base h}"
  pure f

def chkFutex (h : Nat) (v : Int) : M Unit := check fun g =>
  if g.s.base.futex h != v then some s!"{crdName h}.futex = {v} but the model has {g.s.base.futex h}" else none

def chkQlen (h : Nat) (v : Int) : M Unit := check fun g =>
  if g.s.base.qlen h != v then some s!"{crdName h}.qlen = {v} but the model has {g.s.base.qlen h}" else none

-- ------------------------------------------------------------------------------------------
-- wfcqueue pieces (include/urcu/static/wfcqueue.h)
-- ------------------------------------------------------------------------------------------

/-- `___cds_wfcq_busy_wait` -/
def busyWait (t : Nat) (attempt : Nat) : M Nat := do
  if attempt + 1 ≥ ADAPT then do expectEv t "POLL" []; cover "wfcq_busy_poll"; pure 0
  else do expectEv t "RELAX" []; cover "wfcq_busy_relax"; pure (attempt + 1)

/-- `_cds_wfcq_empty(head, tail)`; `headLoc`/`tailLoc` are location names -/
def wfcqEmpty (t : Nat) (headLoc tailLoc : String) : M Bool := do
  let v ← ldM t headLoc 1
  if v != "0" then pure false
  else do
    let w ← ldM t tailLoc 1
    pure (w == s!"&{headLoc}")

/-- `___cds_wfcq_node_sync_next(node, blocking)` -/
partial def syncNext (t : Nat) (nodeLoc : String) (attempt : Nat) : M String := do
  let v ← ldM t nodeLoc 1
  if v == "0" then do
    let a ← busyWait t attempt
    syncNext t nodeLoc a
  else pure v

/-- `___cds_wfcq_append(dest, new_head, new_tail)`; runs `atXchg` right after the tail exchange -/
def wfcqAppend (t : Nat) (destTailLoc newHead newTail : String) (atXchg : M Unit) : M Unit := do
  let old ← xchgM t destTailLoc newTail
  atXchg
  stM t (locOfPtr old) newHead 3

/-- `wake_call_rcu_thread(crdp)` for helper `h` by trace thread `t` (model thread at `ldFlags h k`) -/
def wakeHelper (t h : Nat) : M Unit := do
  let f ← ldFlags t h
  let g ← P.get
  labB (.ldFlags (mt g t))
  if !hasBit f F_RT then do
    mbEv t
    let v ← ldM t s!"{crdName h}.futex"
    let fv ← int v
    chkFutex h fv
    let g ← P.get
    labB (.ldFutex (mt g t))
    if fv == -1 then do
      stM t s!"{crdName h}.futex" "0"
      let g ← P.get
      labB (.stFutex (mt g t))
      let k ← futexWake t s!"{crdName h}.futex"
      let g ← P.get
      let asleep := g.s.base.hpc h == .asleep
      if (k == 1) != asleep then P.fail s!"FUTEX_WAKE {crdName h}.futex woke {k} threads but the model's helper is {repr (g.s.base.hpc h)}"
      labB (.wake (mt g t))
      cover (if k == 1 then "wake_sleeping_helper" else "wake_nobody")
    else cover "wake_futex_not_-1"
  else cover "wake_rt_helper"

/-- `_call_rcu(head, func, crdp)`: model thread is at `enq cb h k`; `node` = name of the rcu_head -/
def callRcuInner (t h : Nat) (node : String) : M Unit := do
  -- cds_wfcq_node_init(&head->next); head->func = func  (private)
  setMem node "0"
  legacyMb t
  wfcqAppend t s!"{crdName h}.tail" s!"&{node}" s!"&{node}" (do
    let g ← P.get
    match g.s.base.tpc (mt g t) with
    | .enq _ h' _ => if h' != h then P.fail s!"enqueue on {crdName h} but the model selected {crdName h'}"
    | _ => P.fail s!"enqueue while the model thread is at {showPc g t}"
    labB (.enq (mt g t)))
  let r ← rmwM t "ADD" s!"{crdName h}.qlen" 1
  let g ← P.get
  labB (.inc (mt g t))
  chkQlen h r
  wakeHelper t h

/-- `call_rcu_data_init()` body under the mutex: returns the new helper; `after` = label to replay at SPAWN -/
def dataInit (t : Nat) (rtFlag : Bool) (ptrLoc : Option String) (after : M Unit) : M Nat := do
  let e ← nextEv t "ALLOC crdK"
  if e.op != "ALLOC" then P.fail "expected ALLOC crdK (call_rcu_data_init)"
  let h ← match crdOfTok (e.arg 0) with
    | some h => pure h
    | none => P.fail "bad ALLOC"
  let g ← P.get
  if h != g.s.base.nextH then P.fail s!"new helper {crdName h} but the model would create {crdName g.s.base.nextH}"
  let nm := crdName h
  setMem s!"{nm}.tail" s!"&{nm}.head"
  setMem s!"{nm}.head" "0"
  setMem s!"{nm}.flags" (if rtFlag then toString F_RT else "0")
  setMem s!"{nm}.futex" "0"
  setMem s!"{nm}.qlen" "0"
  -- rcu_set_pointer(crdpp, crdp)
  let e ← nextEv t "ST <crdpp> &crdK"
  if e.op != "ST" || e.arg 1 != s!"&{nm}.tail" || !moOk (e.arg 2) 3 then P.fail s!"expected ST <crdpp> &{nm}.tail (release)"
  match ptrLoc with
  | some l => if e.arg 0 != l then P.fail s!"expected the new helper to be published in {l}" else setMem l s!"&{nm}.tail"
  | none => if !(e.arg 0).startsWith "stack" then P.fail s!"expected the new helper pointer in a local, got {e.arg 0}"
  -- the store above is the publication point (the default pointer is read without the mutex)
  after
  -- pthread_sigmask(SIG_BLOCK) … pthread_create … pthread_sigmask(SIG_SETMASK): traced in the bp build only
  let g ← P.get
  if isBp g then expectEv t "SIGMASK" ["block"]
  let e ← nextEv t "SPAWN"
  if e.op != "SPAWN" || e.arg 1 != "lib" then P.fail "expected SPAWN of the helper thread"
  let nt ← num ((e.arg 0).drop 1).toString
  modify fun g => { g with tidH := (nt, h) :: g.tidH }
  if isBp g then expectEv t "SIGMASK" ["restore"]
  cover (if rtFlag then "helper_created_rt" else "helper_created")
  pure h

/-- `get_default_call_rcu_data()`: model thread is at `gdLd k`; returns the default helper -/
def getDefault (t : Nat) : M Nat := do
  let v ← ldM t "dflt" 1
  let g ← P.get
  labB (.gdLd (mt g t))
  match crdOfPtr v with
  | some d => cover "default_present"; pure d
  | none => do
    if v != "0" then P.fail s!"bad default pointer {v}"
    expectEv t "LOCK" ["call_rcu_mutex"]
    let g ← P.get
    labB (.gdLock (mt g t))
    let g ← P.get
    let d ← (if rd g "dflt" == "0" then
        dataInit t false (some "dflt") (do let g ← P.get; labB (.gdCreate (mt g t)))
      else do
        labB (.gdCreate (mt g t))
        cover "default_created_by_other"
        match crdOfPtr (rd g "dflt") with
        | some d => pure d
        | none => P.fail "bad default pointer")
    expectEv t "UNLOCK" ["call_rcu_mutex"]
    let g ← P.get
    labB (.gdUnlock (mt g t))
    cover "default_created_lazily"
    pure d

/-- `get_cpu_call_rcu_data(cpu)` where the cpu is only known from the slot the code reads -/
def getCpuAny (t : Nat) : M (Option Nat × String) := do
  let p ← ldM t "percpu_ptr" 1
  if p == "0" then pure (none, "0")
  else do
    let e ← nextEv t "LD percpu+off"
    let g ← P.get
    if e.op == "LD" && ((e.arg 0) == "percpu" || (e.arg 0).startsWith "percpu+") then do
      let off ← (if e.arg 0 == "percpu" then pure 0 else num ((e.arg 0).drop 7).toString)
      if e.arg 1 != rd g (e.arg 0) then P.fail s!"LD {e.arg 0} returned {e.arg 1}, shadow memory has {rd g (e.arg 0)}"
      if !moOk (e.arg 2) 1 then P.fail "rcu_dereference weaker than consume"
      pure (some (off / 8), e.arg 1)
    else do
      -- cpu out of range: no slot is read
      unget t e
      pure (none, "0")

def slotLoc (cpu : Nat) : String := if cpu == 0 then "percpu" else s!"percpu+{8 * cpu}"

/-- `get_cpu_call_rcu_data(cpu)` for a known cpu -/
def getCpu (t cpu : Nat) : M String := do
  let p ← ldM t "percpu_ptr" 1
  let g ← P.get
  if p == "0" || cpu ≥ g.c.ncpu then pure "0"
  else ldM t (slotLoc cpu) 1

-- ------------------------------------------------------------------------------------------
-- call_rcu()
-- ------------------------------------------------------------------------------------------

def callRcu (t id : Nat) : M Unit := do
  readLock t
  let g ← P.get
  labB (.crCall (mt g t) id)
  -- get_call_rcu_data()
  let h ← (if g.thrK t != 0 then do
      labB (.crSelThr (mt g t))
      cover "select_per_thread"
      pure (g.thrK t - 1)
    else do
      let g ← P.get
      if g.arrAlloc then do
        let (cpu?, v) ← getCpuAny t
        let g ← P.get
        match crdOfPtr v with
        | some h => do
          labB (.crSelCpu (mt g t) (cpu?.getD 0))
          cover "select_per_cpu"
          pure h
        | none => do
          labB (.crSelNoCpu (mt g t) (cpu?.getD g.c.ncpu))
          let d ← getDefault t
          cover "select_default"
          pure d
      else do
        labB (.crSelNoCpu (mt g t) 0)
        let d ← getDefault t
        cover "select_default"
        pure d)
  callRcuInner t h s!"cb{id}"
  let g ← P.get
  labB (.crRet (mt g t))

-- ------------------------------------------------------------------------------------------
-- operations under call_rcu_mutex
-- ------------------------------------------------------------------------------------------

def lockMutex (t : Nat) : M Unit := expectEv t "LOCK" ["call_rcu_mutex"]
def unlockMutex (t : Nat) : M Unit := expectEv t "UNLOCK" ["call_rcu_mutex"]

/-- `alloc_cpu_call_rcu_data()` (mutex held) -/
def allocArr (t : Nat) : M Unit := do
  let g ← P.get
  if !g.arrAlloc then do
    let e ← nextEv t "ALLOC percpu"
    if e.op != "ALLOC" || e.arg 0 != "percpu" then P.fail "expected ALLOC percpu"
    modify fun g => { g with arrAlloc := true }
    stM t "percpu_ptr" "&percpu" 3
    cover "percpu_array_allocated"

def resCode (r : Res) : Int := match r with
  | .code e => - (Int.ofNat e)
  | _ => 0

/-- `set_cpu_call_rcu_data(cpu, crdp)`; returns the C return value -/
def setCpu (t : Nat) (cpu : Int) (ho : Option Nat) : M Int := do
  let g ← P.get
  let mcpu : Nat := if cpu < 0 then g.c.ncpu + 1 else cpu.toNat
  labB (.opCall (mt g t) (.setCpu mcpu ho))
  lockMutex t
  let g ← P.get
  labB (.opLock (mt g t))
  allocArr t
  let g ← P.get
  let tok := match ho with | some h => s!"&{crdName h}.tail" | none => "0"
  if mcpu ≥ g.c.ncpu then cover "set_cpu_EINVAL"
  else if rd g (slotLoc mcpu) != "0" && ho.isSome then cover "set_cpu_EEXIST"
  else do
    stM t (slotLoc mcpu) tok (if ho.isSome then 3 else 0)
    cover (if ho.isSome then "set_cpu_publish" else "set_cpu_unpublish")
  let g ← P.get
  labB (.opDo (mt g t))
  unlockMutex t
  let g ← P.get
  let r := match g.s.base.tpc (mt g t) with | .opUnlock r => resCode r | _ => 1
  labB (.opUnlock (mt g t))
  pure r

/-- `create_call_rcu_data(flags, cpu_affinity)` -/
def createData (t : Nat) (rtFlag : Bool) : M Nat := do
  let g ← P.get
  labB (.opCall (mt g t) (.create rtFlag))
  lockMutex t
  let g ← P.get
  labB (.opLock (mt g t))
  let h ← dataInit t rtFlag none (do let g ← P.get; labB (.opDo (mt g t)))
  unlockMutex t
  let g ← P.get
  labB (.opUnlock (mt g t))
  pure h

-- ------------------------------------------------------------------------------------------
-- call_rcu_data_free()
-- ------------------------------------------------------------------------------------------

/-- `_call_rcu_data_free(crdp, CRDF_FLAG_JOIN_THREAD)` -/
partial def dataFree (t : Nat) (ho : Option Nat) : M Unit := do
  match ho with
  | none => cover "free_NULL"
  | some h => do
    let g ← P.get
    let isDflt := g.s.base.dflt == some h
    if isDflt != (rd g "dflt" == s!"&{crdName h}.tail") then P.fail "default pointer: model and shadow memory disagree"
    labB (.fCall (mt g t) h)
    if isDflt then cover "free_default_refused"
    else do
      let f ← ldFlags t h
      let g ← P.get
      labB (.fLdFlags (mt g t))
      if !hasBit f F_STOPPED then do
        let r ← bitM t "OR" s!"{crdName h}.flags" (fun o => o ||| F_STOP) (toString F_STOP)
        let _ := r
        let g ← P.get
        labB (.fOrStop (mt g t))
        wakeHelper t h
        let rec waitStopped : M Unit := do
          let f ← ldFlags t h
          if hasBit f F_STOPPED then do
            let g ← P.get
            labB (.fSeeStopped (mt g t))
          else do
            expectEv t "POLL" []
            cover "free_poll_stopped"
            waitStopped
        waitStopped
      else cover "free_already_stopped"
      lockMutex t
      let g ← P.get
      labB (.fLock (mt g t))
      let nm := crdName h
      let empty ← wfcqEmpty t s!"{nm}.head" s!"{nm}.tail"
      let g ← P.get
      if empty != (g.s.base.queue h).isEmpty then P.fail s!"cds_wfcq_empty({nm}) = {empty} but the model queue is {repr (g.s.base.queue h)}"
      labB (.fChk (mt g t))
      if !empty then do
        unlockMutex t
        let g ← P.get
        labB (.fUnlock1 (mt g t))
        let d ← getDefault t
        lockMutex t
        let g ← P.get
        labB (.fLock2 (mt g t))
        -- __cds_wfcq_splice_blocking(default, crdp)
        let e2 ← wfcqEmpty t s!"{nm}.head" s!"{nm}.tail"
        if e2 then P.fail "leftover queue became empty"
        let rec takeHead (attempt : Nat) : M String := do
          let hd ← xchgM t s!"{nm}.head" "0"
          if hd != "0" then pure hd
          else do
            let w ← ldM t s!"{nm}.tail" 1
            if w == s!"&{nm}.head" then P.fail "leftover queue became empty"
            let a ← busyWait t attempt
            takeHead a
        let hd ← takeHead 0
        legacyMb t
        let tl ← xchgM t s!"{nm}.tail" s!"&{nm}.head"
        let dn := crdName d
        wfcqAppend t s!"{dn}.tail" hd tl (do
          let g ← P.get
          labB (.fSplice (mt g t)))
        let q ← ldM t s!"{nm}.qlen"
        let qv ← int q
        let r ← rmwM t "ADD" s!"{dn}.qlen" qv
        let g ← P.get
        labB (.fAddQ (mt g t))
        chkQlen d r
        wakeHelper t d
        cover "free_splice_leftovers"
      else cover "free_queue_empty"
      -- cds_list_del(&crdp->list)
      unlockMutex t
      let g ← P.get
      labB (.fDel (mt g t))
      let e ← nextEv t "JOIN"
      if e.op != "JOIN" then P.fail "expected pthread_join of the helper thread"
      let jt ← num ((e.arg 0).drop 1).toString
      let g ← P.get
      if g.tidH.lookup jt != some h then P.fail s!"joins T{jt}, which is not the thread of {nm}"
      expectEv t "FREE" [nm]
      let g ← P.get
      labB (.fJoin (mt g t))
      labB (.fFree (mt g t))
      cover "helper_freed"

-- ------------------------------------------------------------------------------------------
-- rcu_barrier()
-- ------------------------------------------------------------------------------------------

def complName (g : G) (b : Nat) : String :=
  match g.complB.find? (·.2 == b) with
  | some (k, _) => s!"compl{k}"
  | none => "compl?"

/-- `call_rcu_completion_wait` / `call_rcu_wait` share their shape: mb; while (LD futex == -1) FUTEX_WAIT.
`onLd v`, `onWait o` replay the model labels. -/
partial def futexWaitLoop (t : Nat) (loc : String) (onLd : Int → M Unit) (onWait : FOut → M Unit) (tag : String) : M Unit := do
  mbEv t
  let rec loop : M Unit := do
    let v ← ldM t loc
    let fv ← int v
    onLd fv
    if fv == -1 then do
      let o ← futexWait t loc
      cover s!"{tag}_futex_{o}"
      if o == "SLEEP" then do
        onWait .sleep
        expectEv t "FUTEX_WOKEN" [loc]
        loop
      else if o == "SPURIOUS" then do onWait .spurious; loop
      else if o == "EAGAIN" then onWait .eagain
      else if o == "EINTR" then do onWait .eintr; loop
      else if o == "ENOSYS" then do
        onWait .spurious
        compatWait t loc
        loop
      else P.fail s!"unknown futex outcome {o}"
    else pure ()
  loop

partial def barrierBody (t : Nat) : M Unit := do
  let g ← P.get
  if g.rnest t > 0 then do
    lab (.bRefused (mt g t))
    cover "barrier_refused_in_cs"
  else do
    let e ← nextEv t "ALLOC complK"
    if e.op != "ALLOC" || !(e.arg 0).startsWith "compl" then P.fail "expected ALLOC complK (rcu_barrier)"
    let k ← num ((e.arg 0).drop 5).toString
    let g ← P.get
    let b := g.s.nextB
    modify fun g => { g with complB := (k, b) :: g.complB }
    let cn := s!"compl{k}"
    setMem s!"{cn}.count" "0"; setMem s!"{cn}.futex" "0"; setMem s!"{cn}.ref" "0"
    lab (.bCall (mt g t))
    lockMutex t
    let g ← P.get
    lab (.bLock (mt g t))
    let cnt := g.s.base.list.length
    stM t s!"{cn}.ref" (toString (cnt + 1))
    -- completion->barrier_count = count  (plain store)
    setMem s!"{cn}.count" (toString cnt)
    let g ← P.get
    lab (.bInit (mt g t))
    let rec enqAll : M Unit := do
      let g ← P.get
      match g.s.todo b with
      | [] => pure ()
      | h :: _ => do
        let e ← nextEv t "ALLOC workJ"
        if e.op != "ALLOC" || !(e.arg 0).startsWith "work" then P.fail s!"expected ALLOC workJ for {crdName h}"
        let wn := e.arg 0
        modify fun g => { g with workOf := (wn, (b, h)) :: g.workOf }
        let g ← P.get
        let wid ← num (wn.drop 4).toString
        lab (.bEnq (mt g t) (WORK0 + wid) h)
        callRcuInner t h wn
        cover "barrier_marker_enqueued"
        enqAll
    enqAll
    unlockMutex t
    let g ← P.get
    lab (.bUnlock (mt g t))
    if cnt == 0 then cover "barrier_no_helper"
    let rec waitLoop : M Unit := do
      let r ← rmwM t "SUB" s!"{cn}.futex" 1
      let g ← P.get
      lab (.bDec (mt g t))
      check fun g => if g.s.fut b != r then some s!"{cn}.futex = {r}, model {g.s.fut b}" else none
      mbEv t
      let v ← ldM t s!"{cn}.count"
      let cv ← int v
      check fun g => if g.s.cnt b != cv then some s!"{cn}.count = {cv}, model {g.s.cnt b}" else none
      let g ← P.get
      lab (.bLdCnt (mt g t))
      if cv == 0 then pure ()
      else do
        futexWaitLoop t s!"{cn}.futex"
          (fun fv => do
            check fun g => if g.s.fut b != fv then some s!"{cn}.futex = {fv}, model {g.s.fut b}" else none
            let g ← P.get
            lab (.bWaitLd (mt g t)))
          (fun o => do let g ← P.get; lab (.bWaitFx (mt g t) o)) "barrier"
        waitLoop
    waitLoop
    let r ← rmwM t "SUBR" s!"{cn}.ref" 1
    check fun g => if g.s.ref b - 1 != r then some s!"{cn}.ref = {r}, model {g.s.ref b - 1}" else none
    let g ← P.get
    lab (.bPut (mt g t))
    if r == 0 then do expectEv t "FREE" [cn]; cover "completion_freed_by_caller"
    cover "barrier_complete"

/-- `rcu_barrier()`: `was_online = _rcu_read_ongoing(); if (was_online) rcu_thread_offline(); … ; if (was_online)
rcu_thread_online()` – only qsbr has events here (bp: `_rcu_read_ongoing()` registers the thread on first use) -/
partial def barrier (t : Nat) : M Unit := do
  bpEnsureReg t
  let g ← P.get
  let wasOn := qsbrOnline g t
  if wasOn then do
    qsOffline t (do let g ← P.get; labB (.runlock (mt g t)))
    cover "barrier_caller_was_online"
  else if isQsbr g then cover "barrier_caller_was_offline"
  barrierBody t
  if wasOn then qsOnline t (do let g ← P.get; labB (.rlock (mt g t)))

/-- `_rcu_barrier_complete(head)` running on helper `h` for the work item `wn` -/
def barrierComplete (t h : Nat) (wn : String) : M Unit := do
  let g ← P.get
  let (b, h') ← match g.workOf.lookup wn with
    | some x => pure x
    | none => P.fail s!"unknown work item {wn}"
  let cn := complName g b
  let r ← rmwM t "SUBR" s!"{cn}.count" 1
  -- the callback is now running: the model must have exactly this marker at the head of the batch
  let wid ← num (wn.drop 4).toString
  check fun g => if (g.s.base.batch h).head? != some (WORK0 + wid) || g.s.base.mark (WORK0 + wid) != some (b, h') then
    some s!"invokes marker {wn} of barrier {b} queued on {crdName h'}, but the model's batch is {repr (g.s.base.batch h)}" else none
  labB (.hRunBegin h (WORK0 + wid))
  lab (.mSub h)
  check fun g => if g.s.cnt b != r then some s!"{cn}.count = {r}, model {g.s.cnt b}" else none
  if r == 0 then do
    mbEv t
    let v ← ldM t s!"{cn}.futex"
    let fv ← int v
    check fun g => if g.s.fut b != fv then some s!"{cn}.futex = {fv}, model {g.s.fut b}" else none
    lab (.mLdFut h)
    if fv == -1 then do
      stM t s!"{cn}.futex" "0"
      lab (.mStFut h)
      let k ← futexWake t s!"{cn}.futex"
      let g ← P.get
      let asleep := g.s.bpc (g.s.caller b) == .asleep b
      if (k == 1) != asleep then P.fail s!"FUTEX_WAKE {cn}.futex woke {k} threads, model caller is {repr (g.s.bpc (g.s.caller b))}"
      lab (.mWake h)
      cover (if k == 1 then "barrier_wake_sleeper" else "barrier_wake_nobody")
    else cover "barrier_last_marker_no_sleeper"
  else cover "barrier_marker_not_last"
  let r2 ← rmwM t "SUBR" s!"{cn}.ref" 1
  check fun g => if g.s.ref b - 1 != r2 then some s!"{cn}.ref = {r2}, model {g.s.ref b - 1}" else none
  lab (.mPut h)
  if r2 == 0 then do expectEv t "FREE" [cn]; cover "completion_freed_by_marker"
  expectEv t "FREE" [wn]
  labB (.hRunEnd h)

-- ------------------------------------------------------------------------------------------
-- user operations (dispatch on the CALL markers of the scenario)
-- ------------------------------------------------------------------------------------------

structure Flav where
  mb : Bool

mutual

/-- one user-level operation announced by a `CALL …` marker; returns false on a non-CALL event -/
partial def userOp (fl : Flav) (t : Nat) (e : Ev) : M Bool := do
  match e.op, e.args with
  | "CALL", ["lock"] => do
      readLock t
      expectEv t "RET" ["lock"]
      let g ← P.get
      labB (.rlock (mt g t)); cover "rcu_read_lock"; pure true
  | "CALL", ["unlock"] => do
      let g ← P.get
      labB (.runlock (mt g t))
      readUnlock t fl.mb
      expectEv t "RET" ["unlock"]; pure true
  | "CALL", ["register"] => do
      -- qsbr: a registered online thread is an open read-side section since its last quiescent state
      registerThread t (do let g ← P.get; labB (.rlock (mt g t)))
      expectEv t "RET" ["register"]; pure true
  | "CALL", ["unregister"] => do
      unregisterThread t (do let g ← P.get; labB (.runlock (mt g t)))
      expectEv t "RET" ["unregister"]; pure true
  | "CALL", ["qs"] => do
      qsQuiescent t (do let g ← P.get; labB (.runlock (mt g t)); labB (.rlock (mt g t)))
      expectEv t "RET" ["qs"]; pure true
  | "CALL", ["offline"] => do
      qsOffline t (do let g ← P.get; labB (.runlock (mt g t)))
      expectEv t "RET" ["offline"]; cover "user_offline"; pure true
  | "CALL", ["online"] => do
      qsOnline t (do let g ← P.get; labB (.rlock (mt g t)))
      expectEv t "RET" ["online"]; pure true
  | "CALL", ["sync"] => do
      let g ← P.get
      let wasOn := qsbrOnline g t
      if wasOn then do labB (.runlock (mt g t)); cover "sync_caller_was_online"
      labB (.syncStart (mt g t))
      syncOpaque t []
      expectEv t "RET" ["sync"]
      let g ← P.get
      labB (.syncEnd (mt g t))
      if wasOn then labB (.rlock (mt g t))
      cover "synchronize_rcu_user"; pure true
  | "CALL", ["call_rcu", ids] => do
      let id ← num ids
      callRcuFull fl t id
      expectEv t "RET" ["call_rcu"]; cover "call_rcu"; pure true
  | "CALL", ["barrier"] => do
      barrier t
      expectEv t "RET" ["barrier"]; pure true
  | "CALL", ["create", fs, _] => do
      let f ← num fs
      let h ← createData t (hasBit f F_RT)
      expectEv t "RET" ["create", crdName h]; pure true
  | "CALL", ["set_thread", tok] => do
      let ho := crdOfTok tok
      let g ← P.get
      labB (.setThr (mt g t) ho)
      modify fun g => { g with thrK := upd g.thrK t (match ho with | some h => h + 1 | none => 0) }
      expectEv t "RET" ["set_thread"]; cover (if ho.isSome then "set_thread" else "set_thread_NULL"); pure true
  | "CALL", ["set_cpu", cs, tok] => do
      let c ← int cs
      let r ← setCpu t c (crdOfTok tok)
      expectEv t "RET" ["set_cpu", toString r]; pure true
  | "CALL", ["get_cpu", cs] => do
      let c ← num cs
      let v ← getCpu t c
      let want := match crdOfPtr v with | some h => crdName h | none => "crd0"
      expectEv t "RET" ["get_cpu", want]; pure true
  | "CALL", ["get_default"] => do
      let g ← P.get
      labB (.gdCall (mt g t))
      let d ← getDefault t
      expectEv t "RET" ["get_default", crdName d]; pure true
  | "CALL", ["free", tok] => do
      dataFree t (crdOfTok tok)
      expectEv t "RET" ["free"]; pure true
  | "CALL", ["create_all", fs] => do
      let f ← num fs
      let r ← createAll t (hasBit f F_RT)
      expectEv t "RET" ["create_all", toString r]; pure true
  | "CALL", ["free_all"] => do
      freeAll t
      expectEv t "RET" ["free_all"]; pure true
  | "CALL", ["exit"] => do
      exitLib t
      expectEv t "RET" ["exit"]; pure true
  | "CALL", ["wait_worker"] => do
      -- scenario-level wait (directed teardown scenarios): poll() until the worker has started
      let rec w : M Unit := do
        let e ← nextEv t "POLL / RET wait_worker"
        if e.op == "POLL" then w
        else if e.op == "RET" && e.args == ["wait_worker"] then pure ()
        else P.fail "expected POLL or RET wait_worker"
      w
      pure true
  | _, _ => pure false

partial def callRcuFull (fl : Flav) (t id : Nat) : M Unit := do
  callRcu t id
  readUnlock t fl.mb

/-- `create_all_cpu_call_rcu_data(flags)` -/
partial def createAll (t : Nat) (rtFlag : Bool) : M Int := do
  let g ← P.get
  labB (.opCall (mt g t) .allocArr)
  lockMutex t
  let g ← P.get
  labB (.opLock (mt g t))
  allocArr t
  let g ← P.get
  labB (.opDo (mt g t))
  unlockMutex t
  let g ← P.get
  labB (.opUnlock (mt g t))
  let n := g.c.ncpu
  let rec loop (i : Nat) : M Int := do
    if i ≥ n then pure 0 else do
      let g ← P.get
      labB (.opCall (mt g t) (.createIfAbsent i rtFlag))
      lockMutex t
      let g ← P.get
      labB (.opLock (mt g t))
      let v ← getCpu t i
      if v != "0" then do
        let g ← P.get
        labB (.opDo (mt g t))
        check fun g => match g.s.base.tpc (mt g t) with | .opUnlock .absent => none | p => some s!"slot {i} occupied but model says {repr p}"
        unlockMutex t
        let g ← P.get
        labB (.opUnlock (mt g t))
        cover "create_all_slot_occupied"
        loop (i + 1)
      else do
        let h ← dataInit t rtFlag none (do let g ← P.get; labB (.opDo (mt g t)))
        unlockMutex t
        let g ← P.get
        labB (.opUnlock (mt g t))
        let r ← setCpu t i (some h)
        if r != 0 then do
          dataFree t (some h)
          cover "create_all_lost_race"
          if r == - (Int.ofNat EEXIST) then loop (i + 1) else pure r
        else loop (i + 1)
  loop 0

/-- `free_all_cpu_call_rcu_data()` -/
partial def freeAll (t : Nat) : M Unit := do
  let g ← P.get
  if !g.arrAlloc then cover "free_all_no_array"
  else do
    let n := g.c.ncpu
    let rec unpub (i : Nat) (acc : List Nat) : M (List Nat) := do
      if i ≥ n then pure acc.reverse else do
        let v ← getCpu t i
        match crdOfPtr v with
        | none => unpub (i + 1) acc
        | some h => do
          let _ ← setCpu t i none
          unpub (i + 1) (h :: acc)
    let hs ← unpub 0 []
    let g ← P.get
    labB (.syncStart (mt g t))
    syncOpaque t []
    let g ← P.get
    labB (.syncEnd (mt g t))
    let rec freeEach : List Nat → M Unit
      | [] => pure ()
      | h :: r => do dataFree t (some h); freeEach r
    freeEach hs
    cover (if hs.isEmpty then "free_all_nothing" else "free_all_helpers")

/-- `urcu_call_rcu_exit()` -/
partial def exitLib (t : Nat) : M Unit := do
  let g ← P.get
  if rd g "dflt" == "0" then cover "exit_no_default"
  else do
    labB (.opCall (mt g t) .unsetDflt)
    lockMutex t
    let g ← P.get
    labB (.opLock (mt g t))
    let d ← match crdOfPtr (rd g "dflt") with | some d => pure d | none => P.fail "bad default pointer"
    let nm := crdName d
    let empty ← wfcqEmpty t s!"{nm}.head" s!"{nm}.tail"
    if empty then stM t "dflt" "0"
    let g ← P.get
    labB (.opDo (mt g t))
    check fun g => match g.s.base.tpc (mt g t), empty with
      | .opUnlock (.helper d'), true => if d' == d then none else some "exit: wrong default"
      | .opUnlock .absent, false => none
      | p, _ => some s!"exit: queue empty = {empty} but model says {repr p}"
    unlockMutex t
    let g ← P.get
    labB (.opUnlock (mt g t))
    if empty then do
      let g ← P.get
      labB (.syncStart (mt g t))
      syncOpaque t []
      let g ← P.get
      labB (.syncEnd (mt g t))
      dataFree t (some d)
      cover "exit_default_torn_down"
    else cover "exit_default_kept"

end

/-- run user operations of trace thread `t` until `stop` (used for callback bodies) -/
partial def opsUntil (fl : Flav) (t : Nat) (stop : Ev → Bool) : M Ev := do
  let e ← nextEv t "CALL … / end marker"
  if stop e then pure e
  else do
    let ok ← userOp fl t e
    if ok then opsUntil fl t stop else P.fail s!"unexpected event inside a callback: {e.show}"

-- ------------------------------------------------------------------------------------------
-- call_rcu_thread()
-- ------------------------------------------------------------------------------------------

partial def helperThread (fl : Flav) (t h : Nat) : M Unit := do
  let nm := crdName h
  let f0 ← ldFlags t h
  let rt := hasBit f0 F_RT
  registerThread t
  labB (.hStart h)
  modify fun g => { g with thrK := upd g.thrK t (h + 1) }
  if !rt then do
    let r ← rmwM t "SUB" s!"{nm}.futex" 1
    labB (.hDec0 h)
    chkFutex h r
    mbEv t
  let rec invokeAll (node : String) (tmpHead tmpTail : String) (first : Bool) : M Unit := do
    -- `node` = current callback; compute the next one first (…_for_each_blocking_safe)
    let nx ← ldM t (locOfPtr node) 1
    let nxt ← (if nx == "0" then do
        let w ← ldM t tmpTail
        if w == node then pure "0" else syncNext t (locOfPtr node) 0
      else pure nx)
    let _ := first
    if (locOfPtr node).startsWith "work" then barrierComplete t h (locOfPtr node)
    else do
      let e ← nextEv t "INVOKE id"
      if e.op != "INVOKE" then P.fail s!"expected the invocation of {node}"
      if s!"&cb{e.arg 0}" != node then P.fail s!"callback of node {node} reports rcu_head cb{e.arg 0}"
      let id ← num (e.arg 0)
      check fun g => if (g.s.base.batch h).head? != some id then some s!"invokes cb{id}, but the model's batch is {repr (g.s.base.batch h)}" else none
      labB (.hRunBegin h id)
      let _ ← opsUntil fl t (fun e => e.op == "INVOKED" && e.args == [toString id])
      labB (.hRunEnd h)
      cover "callback_invoked"
    if nxt == "0" then pure () else invokeAll nxt tmpHead tmpTail false
  let rec mainLoop : M Unit := do
    let f ← ldFlags t h
    labB (.hTop h)
    if hasBit f F_PAUSE then P.fail "PAUSE branch (fork handlers) is not part of this component's scenarios"
    -- __cds_wfcq_splice_blocking(&cbs_tmp, &crdp->cbs)
    let empty ← wfcqEmpty t s!"{nm}.head" s!"{nm}.tail"
    if empty then do
      check fun g => if !(g.s.base.queue h).isEmpty then some s!"splice found {nm} empty but the model queue is {repr (g.s.base.queue h)}" else none
      labB (.hSplice h)
      cover "splice_empty"
    else do
      let rec takeHead (attempt : Nat) : M String := do
        let hd ← xchgM t s!"{nm}.head" "0"
        if hd != "0" then pure hd
        else do
          let w ← ldM t s!"{nm}.tail" 1
          if w == s!"&{nm}.head" then P.fail "queue became empty under the only dequeuer"
          let a ← busyWait t attempt
          takeHead a
      let hd ← takeHead 0
      legacyMb t
      let tl ← xchgM t s!"{nm}.tail" s!"&{nm}.head"
      check fun g => if (g.s.base.queue h).isEmpty then some s!"splice took {hd}..{tl} but the model queue is empty" else none
      check fun g =>
        let want := match (g.s.base.queue h).getLast? with
          | some id => if id ≥ WORK0 then s!"&work{id - WORK0}" else s!"&cb{id}"
          | none => "?"
        if want != tl then some s!"splice: last node {tl}, model queue ends with {want}" else none
      labB (.hSplice h)
      -- append to the private queue on the helper's stack
      let e ← nextEv t "XCHG <tmp tail>"
      if e.op != "XCHG" || !(e.arg 0).startsWith s!"stack{t}+" || e.arg 1 != tl || !(e.arg 2).startsWith s!"&stack{t}+" then
        P.fail s!"expected XCHG <private tail> {tl} <&private head>"
      let tmpTail := e.arg 0
      let tmpHead := locOfPtr (e.arg 2)
      setMem tmpTail tl
      stM t tmpHead hd 3
      cover "splice_batch"
      -- synchronize_rcu()
      syncOpaque t [tmpHead, tmpTail]
      labB (.hGpEnd h)
      cover "helper_grace_period"
      -- __cds_wfcq_for_each_blocking_safe
      let v ← ldM t tmpHead 1
      if v == "0" then P.fail "private queue empty after a non-empty splice"
      let first ← syncNext t tmpHead 0
      invokeAll first tmpHead tmpTail true
      let g ← P.get
      let cnt := g.s.base.cnt h
      labB (.hInvDone h)
      let r ← rmwM t "SUB" s!"{nm}.qlen" cnt
      labB (.hSub h)
      chkQlen h r
    let f ← ldFlags t h
    labB (.hStopChk h)
    if hasBit f F_STOP then cover "helper_stop_seen"
    else do
      -- rcu_thread_offline(): a helper never sleeps / polls online (qsbr: it would block every grace period)
      threadOffline t
      let g ← P.get
      if isQsbr g then cover "helper_sleeps_offline"
      if !rt then do
        let empty ← wfcqEmpty t s!"{nm}.head" s!"{nm}.tail"
        check fun g => if empty != (g.s.base.queue h).isEmpty then some s!"cds_wfcq_empty({nm}) = {empty} but the model queue is {repr (g.s.base.queue h)}" else none
        labB (.hEmptyChk h)
        if empty then do
          futexWaitLoop t s!"{nm}.futex"
            (fun fv => do chkFutex h fv; labB (.hWaitLd h))
            (fun o => labB (.hWaitFx h o)) "helper"
          expectEv t "POLL" []
          labB (.hPollW h)
          let r ← rmwM t "SUB" s!"{nm}.futex" 1
          labB (.hDec h)
          chkFutex h r
          mbEv t
          cover "helper_wait_path"
        else do
          expectEv t "POLL" []
          labB (.hPollN h)
          cover "helper_poll_nonempty"
      else do
        expectEv t "POLL" []
        labB (.hPollN h)
        cover "helper_poll_rt"
      -- rcu_thread_online()
      threadOnline t
      mainLoop
  mainLoop
  if !rt then do
    mbEv t
    stM t s!"{nm}.futex" "0"
    labB (.hExitSt h)
  let _ ← bitM t "OR" s!"{nm}.flags" (fun o => o ||| F_STOPPED) (toString F_STOPPED)
  labB (.hExitOr h)
  unregisterThread t
  bpExit t
  expectEv t "THREAD_EXIT" []
  cover "helper_exit"

-- ------------------------------------------------------------------------------------------
-- thread top level
-- ------------------------------------------------------------------------------------------

partial def thread (fl : Flav) (t : Nat) : M Unit := do
  let e ← nextEv t "CALL/…"
  let ok ← userOp fl t e
  if ok then thread fl t
  else match e.op with
    | "WORKER" | "ADMIN" | "SPAWN" | "FINAL" => thread fl t
    | "THREAD_EXIT" => pure ()
    | "SIGMASK" => do
        -- bp: the key destructor of an exiting thread
        unget t e
        let g ← P.get
        if isBp g && g.bpReg.contains t then do bpExit t; thread fl t
        else P.fail s!"unexpected event outside an API call: {e.show}"
    | _ => P.fail s!"unexpected event outside an API call: {e.show}"

def cfgLine (g : G) (ws : List String) : G :=
  ws.foldl (fun g w =>
    match w.splitOn "=" with
    | ["flavor", "mb"] => { g with slaveMB := true, flavor := "mb" }
    | ["flavor", "qsbr"] => { g with flavor := "qsbr", c := { g.c with qsbr := true } }
    | ["flavor", f] => { g with flavor := f }
    | ["membarrier", "0"] => { g with slaveMB := true }
    | ["ncpus", n] => { g with c := { g.c with ncpu := n.toNat?.getD 4 } }
    | ["legacymb", "0"] => { g with legacyMb := false }
    | _ => g) g

def isMb (ws : List String) : Bool := ws.contains "flavor=mb"

end CrDrv

open CrDrv in
def main : IO UInt32 := do
  let step (st : Run G × Bool) (ws : List String) : Except String (Run G × Bool) :=
    match ws with
    | "CFG" :: rest => .ok ({ st.1 with g := cfgLine st.1.g rest }, isMb rest)
    | _ => match parseEv ws with
      | some e =>
        let fl : Flav := { mb := st.2 }
        (feed (fun t g => match g.tidH.lookup t with
                | some h => (helperThread fl t h).run
                | none => (thread fl t).run) st.1 e).map fun r => (r, st.2)
      | none => .error "unparsable line"
  loop (← IO.getStdin) step (fun st => showCov st.1.g.cov) (({ g := {} } : Run G), false) 0
