import Driver.Prog
import UrcuVerif.Lfq.Solo
/-!
Trace checker for `include/urcu/static/rculfqueue.h` / `src/rculfqueue.c` (C12, C17 facets).

L1: the C functions `_cds_lfq_enqueue_rcu`, `enqueue_dummy`, `_cds_lfq_dequeue_rcu`, `_cds_lfq_destroy_rcu`
transliterated as event-consuming programs: between `CALL x` and `RET x` of a thread every event must be exactly
the access the C text performs next (location, expected / new / old value, memory order), the values the real run
loaded must be the ones the model's memory holds, and each access is replayed as a label of the proven model
`UrcuVerif.Lfq` (L2) whose `step` must be enabled and must return what the implementation returned.
Events of a thread outside its queue operations (the flavor's read-side, grace-period and call_rcu machinery, the
helper thread) are not owned by this driver and are skipped, except the scenario's markers:
`RLOCK`/`RUNLOCK` (section), `RECLAIM node` / `FREE dummy` (memory becomes free: must be allowed by the model's
grace-period guard), `CALL call_rcu dummy` … `RET call_rcu` (bracket around the real `call_rcu`).
-/
open Driver UrcuVerif UrcuVerif.Lfq

namespace LfqDrv

structure G where
  c : Cfg := { n := 64 }
  s : State := Lfq.init
  initDummy : Option Nat := none     -- harness number of the dummy that plays node 1 of the model
  legacyMb : Bool := true
  solo : Option (Nat × Nat × Nat) := none      -- (thread, own model steps so far, bound `mu` of the proven measure at the call)
  soloMax : Nat := 0                           -- largest (own steps) seen in a solo run
  soloSlack : Nat := 1000000                   -- smallest (bound - own steps) seen
  cov : List (String × Nat) := []

abbrev M := P G

def cover (k : String) : M Unit := P.act fun g => .ok { g with cov := bump g.cov k }

/-- "node3" / "dummy2" ↦ model node -/
def idOfName (g : G) (nm : String) : Option Nat :=
  if nm.startsWith "node" then (nm.drop 4).toString.toNat?.map (fun k => 2 * k + 2)
  else if nm.startsWith "dummy" then
    (nm.drop 5).toString.toNat?.map (fun k => if g.initDummy == some k then 1 else 2 * k + 3)
  else none

/-- pointer token: "0" or "&name" -/
def idOfTok (g : G) (tok : String) : Option Nat :=
  if tok == "0" then some 0
  else if tok.startsWith "&" then idOfName g (tok.drop 1).toString
  else none

def nameOf (g : G) (p : Nat) : String :=
  if p == 0 then "0"
  else if p == 1 then s!"dummy{g.initDummy.getD 0}"
  else if p % 2 == 0 then s!"node{(p - 2) / 2}"
  else s!"dummy{(p - 3) / 2}"

def tokOf (g : G) (p : Nat) : String := if p == 0 then "0" else "&" ++ nameOf g p

def moOk (got : String) (want : Nat) : Bool := match got.toNat? with
  | some m => m ≥ want
  | none => false

/-- next event of this thread inside an operation (the scenario's PARK marker is not an access) -/
partial def getEv (desc : String) : M Ev := do
  let e ← P.ev desc fun e => some e
  if e.op == "PARK" then getEv desc else do
    -- own-step accounting of a solo run (C17): every LD / CAS of the operation is exactly one step of the model
    P.act fun g => match g.solo with
      | some (t, k, b) => if t == e.tid && (e.op == "LD" || e.op == "CAS") then .ok { g with solo := some (t, k + 1, b) } else .ok g
      | none => .ok g
    pure e

/-- replay a label of the model for thread `t`; returns what the model returns -/
def lab (t : Nat) (l : Label) : M Out := fun k => .tau fun g =>
  match step g.c g.s t l with
  | some (s', o) => .ok ({ g with s := s' }, k o)
  | none => .error s!"model step {repr l} of thread {t} not enabled (pc={repr (g.s.pc t)} head={nameOf g g.s.head} tail={nameOf g g.s.tail})"

def labU (t : Nat) (l : Label) : M Unit := do let _ ← lab t l; pure ()

/-- `LD loc` with memory order ≥ consume; returns the value token -/
def ld (loc : String) : M String := do
  let e ← getEv s!"LD {loc}"
  if e.op == "LD" && e.arg 0 == loc then
    if moOk (e.arg 2) 1 then pure (e.arg 1) else P.fail s!"LD {loc}: memory order {e.arg 2} weaker than consume"
  else P.fail s!"expected LD {loc}, got {e.show}"

/-- `CAS loc expected new` (seq_cst both ways); returns the old-value token -/
def cas (loc exp new : String) : M String := do
  let e ← getEv s!"CAS {loc} {exp} {new}"
  if e.op == "CAS" && e.arg 0 == loc then
    if e.arg 1 != exp then P.fail s!"CAS {loc}: expected value {e.arg 1}, the C text gives {exp}"
    else if e.arg 2 != new then P.fail s!"CAS {loc}: new value {e.arg 2}, the C text gives {new}"
    else if !(moOk (e.arg 4) 5 && moOk (e.arg 5) 5) then P.fail s!"CAS {loc}: weaker than seq_cst"
    else pure (e.arg 3)
  else P.fail s!"expected CAS {loc} {exp} {new}, got {e.show}"

def sameTok (what got : String) (want : Nat) : M Unit := do
  let g ← P.get
  if got == tokOf g want then pure () else P.fail s!"{what}: implementation saw {got}, model memory holds {tokOf g want}"

/-- `_cds_lfq_enqueue_rcu(q, node)` -/
partial def enqueueP (t : Nat) (node : Nat) : M Unit := do
  let g0 ← P.get
  let nodeTok := tokOf g0 node
  -- tail = rcu_dereference(q->tail)
  let v ← ld "q.tail"
  let g ← P.get
  sameTok "LD q.tail" v g.s.tail
  let tl := g.s.tail
  labU t .ldTail
  -- cmm_emit_legacy_smp_mb()
  if g.legacyMb then do
    let e ← getEv "MB"
    if e.op != "MB" then P.fail s!"expected MB (cmm_emit_legacy_smp_mb), got {e.show}"
  -- next = uatomic_cmpxchg(&tail->next, NULL, node)
  let old ← cas (nameOf g tl) "0" nodeTok
  let g ← P.get
  sameTok "CAS tail->next" old (g.s.next tl)
  labU t .casNext
  if old == "0" then do
    -- (void) uatomic_cmpxchg(&q->tail, tail, node)
    let o2 ← cas "q.tail" (tokOf g tl) nodeTok
    let g ← P.get
    sameTok "CAS q.tail" o2 g.s.tail
    labU t .casTailAdv
    cover (if o2 == tokOf g tl then "enq_link_adv_ok" else "enq_link_adv_lost")
  else do
    -- help: (void) uatomic_cmpxchg(&q->tail, tail, next); continue
    let o2 ← cas "q.tail" (tokOf g tl) old
    let g ← P.get
    sameTok "CAS q.tail" o2 g.s.tail
    labU t .casTailHelp
    cover (if o2 == tokOf g tl then "enq_help_ok" else "enq_help_lost")
    enqueueP t node

/-- skip the real call_rcu between the scenario's markers -/
partial def skipCallRcu (t : Nat) : M Unit := do
  let e ← P.ev "… RET call_rcu" fun e => some e
  if e.op == "RET" && e.args == ["call_rcu"] then pure () else skipCallRcu t

/-- `_cds_lfq_dequeue_rcu(q)`: returns the node (0 = NULL) -/
partial def dequeueP (t : Nat) : M Nat := do
  -- head = rcu_dereference(q->head)
  let v ← ld "q.head"
  let g ← P.get
  sameTok "LD q.head" v g.s.head
  let hd := g.s.head
  labU t .ldHead
  -- next = rcu_dereference(head->next)
  let nv ← ld (nameOf g hd)
  let g ← P.get
  sameTok "LD head->next" nv (g.s.next hd)
  let isD := g.s.isDummy hd
  if isD && nv == "0" then do
    let o ← lab t (.ldNext 0)
    if o != .null then P.fail s!"model does not answer NULL here ({repr o})"
    cover "deq_null"
    pure 0
  else do
    let mut nx := nv
    if nv == "0" then do
      -- enqueue_dummy(q): make_dummy
      let e ← getEv "ALLOC dummy"
      if e.op != "ALLOC" then P.fail s!"expected ALLOC (make_dummy), got {e.show}"
      let g ← P.get
      let d ← match idOfName g (e.arg 0) with
        | some d => pure d
        | none => P.fail s!"bad dummy name {e.arg 0}"
      labU t (.ldNext d)
      enqueueP t d
      -- next = rcu_dereference(head->next)
      let nv2 ← ld (nameOf g hd)
      let g ← P.get
      sameTok "LD head->next (2)" nv2 (g.s.next hd)
      labU t .ldNext2
      nx := nv2
      cover "deq_enqueue_dummy"
    else
      labU t (.ldNext 0)
    -- if (rcu_dereference(q->tail) == head) (void) uatomic_cmpxchg(&q->tail, head, next)
    let g ← P.get
    if g.c.helpTail then do
      let tv ← ld "q.tail"
      let g ← P.get
      sameTok "LD q.tail (dequeue)" tv g.s.tail
      labU t .ldTailD
      if tv == tokOf g hd then do
        let o2 ← cas "q.tail" (tokOf g hd) nx
        let g ← P.get
        sameTok "CAS q.tail (dequeue)" o2 g.s.tail
        labU t .casTailD
        cover (if o2 == tokOf g hd then "deq_help_tail_ok" else "deq_help_tail_lost")
    -- uatomic_cmpxchg(&q->head, head, next)
    let g ← P.get
    let o3 ← cas "q.head" (tokOf g hd) nx
    let g ← P.get
    sameTok "CAS q.head" o3 g.s.head
    let out ← lab t .casHead
    if o3 != tokOf g hd then do
      cover "deq_cas_head_lost"
      dequeueP t
    else if isD then do
      -- rcu_free_dummy(head); continue
      if out != .unit then P.fail s!"model returns {repr out} for a removed dummy"
      let e ← getEv "CALL call_rcu"
      if !(e.op == "CALL" && e.arg 0 == "call_rcu" && e.arg 1 == nameOf g hd) then
        P.fail s!"expected queue_call_rcu({nameOf g hd}), got {e.show}"
      skipCallRcu t
      cover "deq_dummy_skipped"
      dequeueP t
    else do
      if out != .node hd then P.fail s!"model returns {repr out}, implementation removed {nameOf g hd}"
      cover "deq_node"
      pure hd

/-- `_cds_lfq_destroy_rcu(q)`: the walk reads plain fields (not events); every freed dummy is logged by the allocator hook -/
partial def destroyP (t : Nat) : M Unit := do
  let v ← ld "q.head"
  let g ← P.get
  sameTok "LD q.head (destroy)" v g.s.head
  let chain := g.s.chain
  let o ← lab t .destroy
  let rec frees : List Nat → M Unit
    | [] => pure ()
    | p :: r => do
      let e ← getEv "FREE"
      let g ← P.get
      if !(e.op == "FREE" && e.arg 0 == nameOf g p) then P.fail s!"expected FREE {nameOf g p} (destroy frees the chain), got {e.show}"
      frees r
  match o with
  | .destroyed true => do
    frees chain
    P.expect "RET" ["destroy", "0"]
    cover "destroy_ok"
    if chain.length > 1 then cover "destroy_ok_several_dummies"
  | .destroyed false => do
    P.expect "RET" ["destroy", "-1"]
    cover "destroy_eperm"
  | _ => P.fail "model: destroy returned something else"

/-- at the entry of an operation run solo (C17): the proven measure `mu` of the model state is the bound -/
def soloBound (t : Nat) : M Unit := P.act fun g => match g.solo with
  | some (u, k, _) => if u == t then .ok { g with solo := some (u, k, mu g.s t) } else .ok g
  | none => .ok g

partial def thread (t : Nat) : M Unit := do
  let e ← P.ev "…" fun e => some e
  match e.op, e.args with
  | "CALL", ["init"] => do
    let a ← P.ev "ALLOC dummy (make_dummy in cds_lfq_init_rcu)" fun e => if e.op == "ALLOC" then some (e.arg 0) else none
    let k ← match (a.drop 5).toString.toNat? with
      | some k => pure k
      | none => P.fail s!"bad dummy name {a}"
    P.act fun g => .ok { g with s := Lfq.init, initDummy := some k }
    P.expect "RET" ["init"]
    cover "init"
    thread t
  | "CALL", ["destroy"] => do destroyP t; thread t
  | "CALL", ["enq", nm] => do
    let g ← P.get
    let n ← match idOfName g nm with
      | some n => pure n
      | none => P.fail s!"bad node name {nm}"
    if g.s.gen n > 0 then cover "enq_recycled_node"
    labU t (.enqCall n)
    soloBound t
    enqueueP t n
    let e ← getEv "RET enq"
    if !(e.op == "RET" && e.args == ["enq"]) then P.fail s!"expected RET enq, got {e.show}"
    thread t
  | "CALL", ["deq"] => do
    labU t .deqCall
    soloBound t
    let r ← dequeueP t
    let g ← P.get
    let want := if r == 0 then "NULL" else nameOf g r
    let e ← getEv "RET deq"
    if !(e.op == "RET" && e.args == ["deq", want]) then P.fail s!"model: dequeue returns {want}; implementation: {e.show}"
    thread t
  | "RLOCK", _ => do labU t .lock; thread t
  | "RUNLOCK", _ => do labU t .unlock; thread t
  | "RECLAIM", nm :: _ => do
    let g ← P.get
    match idOfName g nm with
    | some p => do labU t (.reclaim p); cover "reclaim_node"
    | none => P.fail s!"bad node name {nm}"
    thread t
  | "FREE", [nm] => do
    -- a dummy freed by the call_rcu callback: allowed only once its grace period has elapsed
    let g ← P.get
    match idOfName g nm with
    | some p => do labU t (.reclaim p); cover "reclaim_dummy"
    | none => P.fail s!"bad dummy name {nm}"
    thread t
  | "SOLO_BEGIN", _ => do
    P.act fun g => .ok { g with solo := some (t, 0, 0) }
    thread t
  | "SOLO_END", _ => do
    let g ← P.get
    match g.solo with
    | some (_, k, b) =>
      if k > b then P.fail s!"solo run took {k} own steps, the proved bound mu is {b}"
      else if g.s.pc t != .idle then P.fail "solo run ended inside the operation"
      else do
        P.act (fun g => .ok { g with solo := none, soloMax := max g.soloMax k, soloSlack := min g.soloSlack (b - k) })
        cover "solo_run"
        if k ≥ 9 then cover "solo_run_long"
    | none => pure ()
    thread t
  | "THREAD_EXIT", _ => pure ()
  | _, _ => thread t       -- not owned by this driver (flavor / call_rcu / scenario bookkeeping)

def cfgLine (g : G) (ws : List String) : G :=
  ws.foldl (fun g w =>
    match w.splitOn "=" with
    | ["legacymb", "0"] => { g with legacyMb := false }
    | ["legacymb", "1"] => { g with legacyMb := true }
    | _ => g) g

end LfqDrv

open LfqDrv in
def main : IO UInt32 := do
  let f (r : Run G) (ws : List String) : Except String (Run G) :=
    match ws with
    | "CFG" :: rest => .ok { r with g := cfgLine r.g rest }
    | _ => match parseEv ws with
      | some e => feed (fun t _ => (thread t).run) r e
      | none => .error "unparsable line"
  loop (← IO.getStdin) f (fun r => showCov r.g.cov ++ s!" solo_max_steps={r.g.soloMax} solo_min_slack={if r.g.soloSlack == 1000000 then 0 else r.g.soloSlack}")
    ({ g := {} } : Run G) 0
