import Driver.Common
import UrcuVerif.Lfht.Seq.Ops
/-! Trace checker for C08: replays the operation lines printed by `harness/scen/lfht_seq.c`
(which runs the real `src/rculfhash.c`) on the sequential model `Lfht.Seq.step` and on the
pure functions of `Lfht/Bits.lean`, comparing every result. -/
open UrcuVerif.Lfht UrcuVerif.Lfht.Seq Driver

structure D where
  page : Nat := 256
  t : Option Table := none
  cov : List (String × Nat) := []

def optId (s : String) : Except String (Option Nat) :=
  if s = "-1" then .ok none else (natOf s).map some

def mmOf : String → Except String (Option Mm)
  | "order" => .ok (some .order) | "chunk" => .ok (some .chunk) | "mmap" => .ok (some .mmap)
  | "default" => .ok none | s => .error s!"bad mm {s}"

def mmName : Mm → String | .order => "order" | .chunk => "chunk" | .mmap => "mmap"

def natsOf (ws : List String) : Except String (List Nat) := ws.mapM natOf

def showOut : Out → String
  | .unit => "()" | .node none => "NULL" | .node (some i) => s!"node {i}" | .ret r => s!"ret {r}"
  | .ids l => s!"ids {l}" | .count n => s!"count {n}" | .flag b => s!"flag {b}"

def run (d : D) (op : Op) (want : Out) (tag : String) : Except String D :=
  match d.t with
  | none => .error "operation on a table that does not exist (no accepted `new`, or destroyed)"
  | some t =>
    match step t op with
    | none => .error s!"operation not enabled in the model (API misuse or bucket node missing); size={t.size}"
    | some (t', out) =>
      if out = want then .ok { d with t := some t', cov := bump d.cov tag }
      else .error s!"model: {showOut out}; implementation: {showOut want}"

def pure2 (d : D) (tag : String) (ok : Bool) (msg : String) : Except String D :=
  if ok then .ok { d with cov := bump d.cov tag } else .error msg

def sizeClass (n : Nat) : String :=
  if n ≤ 1 then "1" else if n ≤ 8 then "2-8" else if n ≤ 64 then "16-64" else ">64"

def drive (d : D) : List String → Except String D
  | ["page", p] => do let p ← natOf p; pure { d with page := p }
  | ["rev", x, y] => do
      let x ← natOf x; let y ← natOf y
      pure2 d "rev" (bitReverse64 x = y) s!"bitReverse64 {x} = {bitReverse64 x}"
  | ["fls", x, y] => do
      let x ← natOf x; let y ← natOf y
      pure2 d "fls" (fls x = y) s!"fls {x} = {fls x}"
  | ["cou", x, y] => do
      let x ← natOf x; let y ← intOf y
      pure2 d "count_order" (countOrder x = y) s!"countOrder {x} = {countOrder x}"
  | ["co32", x, y] => do
      let x ← natOf x; let y ← intOf y
      pure2 d "count_order_u32" (countOrderU32 x = y) s!"countOrderU32 {x} = {countOrderU32 x}"
  | ["new", i, mi, ma, fl, mm, _alloc, "NULL"] => do
      let i ← natOf i; let mi ← natOf mi; let ma ← natOf ma; let fl ← natOf fl; let mm ← mmOf mm
      match newNorm d.page i mi ma fl mm with
      | none => pure { d with t := none, cov := bump d.cov "new_rejected" }
      | some c => .error s!"model accepts: size={c.size} min={c.minAlloc} max={c.maxB} mm={mmName c.mm}"
  | ["new", i, mi, ma, fl, mm, al, sz, mn, mo, mx, rmm] => do
      let i ← natOf i; let mi ← natOf mi; let ma ← natOf ma; let fl ← natOf fl; let mm ← mmOf mm
      let sz ← natOf sz; let mn ← natOf mn; let mo ← natOf mo; let mx ← natOf mx
      match newNorm d.page i mi ma fl mm with
      | none => .error "model rejects (NULL)"
      | some c =>
        if c.size = sz ∧ c.minAlloc = mn ∧ c.minAllocOrder = mo ∧ c.maxB = mx ∧ mmName c.mm = rmm then
          match Table.ofCfg c with
          | none => .error "model: bucket creation failed"
          | some t =>
            let cov := bump d.cov "new_accepted"
            let cov := bump cov ("mm_" ++ rmm)
            let cov := bump cov ("flags_" ++ toString fl)
            let cov := bump cov ("alloc_" ++ al ++ "_size_" ++ sizeClass sz)
            pure { d with t := some t, cov := cov }
        else .error s!"model: size={c.size} min={c.minAlloc} minorder={c.minAllocOrder} max={c.maxB} mm={mmName c.mm}"
  | ["add", id, h, k] => do
      let id ← natOf id; let h ← natOf h; let k ← natOf k
      run d (.add id h k) .unit "add"
  | ["addu", id, h, k, r] => do
      let id ← natOf id; let h ← natOf h; let k ← natOf k; let r ← natOf r
      run d (.addUnique id h k) (.node (some r)) (if r = id then "add_unique_new" else "add_unique_dup")
  | ["addr", id, h, k, r] => do
      let id ← natOf id; let h ← natOf h; let k ← natOf k; let r ← optId r
      run d (.addReplace id h k) (.node r) (if r.isNone then "add_replace_new" else "add_replace_repl")
  | ["repl", o, id, h, k, r] => do
      let o ← optId o; let id ← natOf id; let h ← natOf h; let k ← natOf k; let r ← intOf r
      run d (.replace o id h k) (.ret r) s!"replace_ret{r}"
  | ["del", id, r] => do
      let id ← optId id; let r ← intOf r
      run d (.del id) (.ret r) s!"del_ret{r}"
  | "look" :: h :: k :: n :: ids => do
      let h ← natOf h; let k ← natOf k; let n ← natOf n; let ids ← natsOf ids
      if ids.length ≠ n then .error "bad id count"
      else run d (.lookup h k) (.ids ids) (if n = 0 then "lookup_none" else if n = 1 then "lookup_one" else "lookup_dups")
  | "trav" :: n :: ids => do
      let n ← natOf n; let ids ← natsOf ids
      if ids.length ≠ n then .error "bad id count" else run d .traverse (.ids ids) "traverse"
  | ["count", n] => do let n ← natOf n; run d .countNodes (.count n) "count_nodes"
  | ["isdel", id, b] => do
      let id ← natOf id; let b ← boolOf b
      run d (.isDeleted id) (.flag b) (if b then "is_deleted_1" else "is_deleted_0")
  | ["resize", n, sz] => do
      let n ← natOf n; let sz ← natOf sz
      let old := (d.t.map (·.size)).getD 0
      let d ← run d (.resize n) .unit "resize"
      let new := (d.t.map (·.size)).getD 0
      if new = sz then
        pure { d with cov := bump d.cov (if old < new then "resize_grow" else if new < old then "resize_shrink" else "resize_same") }
      else .error s!"model size after resize {new}, implementation {sz}"
  | ["resizea", n, sz] => do
      -- AUTO_RESIZE table: the implementation's chain-length heuristic may have raised the target
      -- while populating; the model follows the request and then the reported (power-of-two) size
      let n ← natOf n; let sz ← natOf sz
      let d ← run d (.resize n) .unit "resize_auto"
      let d ← run d (.resize sz) .unit "resize_auto_follow"
      let new := (d.t.map (·.size)).getD 0
      if new = sz then pure d else .error s!"model size after following resize {new}, implementation {sz}"
  | ["size", sz] => do
      let sz ← natOf sz
      match d.t with
      | some t => pure2 d "size_check" (t.size = sz) s!"model size {t.size}, implementation {sz}"
      | none => .error "no table"
  | ["destroy", r] => do
      let r ← intOf r
      let d ← run d .destroy (.ret r) s!"destroy_ret{r}"
      pure (if r = 0 then { d with t := none } else d)
  | ws => .error s!"unparsable line {ws}"

def main : IO UInt32 := do
  loop (← IO.getStdin) drive (fun d => showCov d.cov) ({} : D) 0
