import Driver.Prog
import UrcuVerif.Wfs.Model
import UrcuVerif.Gen.Constants
/-!
Trace checker for `src/wfstack.c` + `include/urcu/static/wfstack.h` (C11, C17 stack facets).

L1: each C function is transliterated below as a `P G Unit` program that must match the thread's
event stream exactly (same accesses, locations, values, memory orders, barriers, spin hints,
lock operations, in order).  At every shared access the corresponding label of the proven L2
model `UrcuVerif.Wfs` is replayed on its executable `step` (flush-immediately: harness runs are
sequentially consistent) and must be enabled; every value the implementation read or returned is
compared with the model's.  RCU scheme (`wfs/rcu`: concurrent `__cds_wfs_pop_*` callers inside
read-side sections of the real `src/urcu.c`): the events of the real flavor between the scenario's
CALL/RET markers of `rlock`, `runlock`, `sync`, `register`, `unregister` are not owned by this
driver and skipped (they are checked by C01's driver); the markers are mapped to the abstract
grace-period labels (`rlock` at RET rlock, `runlock` at CALL runlock, `gpStart` at CALL sync,
`gpEnd` at RET sync – where the model's GpSpec guard must hold –, `reclaim` at FREE).
-/
open Driver UrcuVerif

namespace WfsDrv

def END : Nat := Wfs.END
def ADAPT : Nat := Gen.CDS_WFS_ADAPT_ATTEMPTS

structure G where
  c : Wfs.Cfg := { scheme := .mutex, n := 64 }
  s : Wfs.State := Wfs.init
  legacyMb : Bool := true
  cov : List (String × Nat) := []

abbrev M := P G

def lab (l : Wfs.Label) : M Unit := P.act fun g =>
  match Wfs.step g.c g.s l with
  | some s' => .ok { g with s := s' }
  | none => .error s!"model step {repr l} not enabled"

def cover (k : String) : M Unit := P.act fun g => .ok { g with cov := bump g.cov k }

/-- node `nK` ↦ K + END + 1 (never NULL, never END) -/
def nodeOf (tok : String) : Option Nat :=
  let t := if tok.startsWith "&" then (tok.drop 1).toString else tok
  if t.startsWith "n" then (t.drop 1).toString.toNat?.map (· + END + 1) else none

def tokOf (v : Nat) : String :=
  if v = 0 then "0" else if v = END then toString END else s!"&n{v - END - 1}"

def locOf (v : Nat) : String := s!"n{v - END - 1}"

def moOk (got : String) (want : Nat) : Bool := match got.toNat? with
  | some m => m ≥ want
  | none => false

def node! (tok : String) : M Nat := match nodeOf tok with
  | some n => pure n
  | none => P.fail s!"bad node token {tok}"

def mbEv : M Unit := P.expect "MB" []

def legacyMb : M Unit := do
  let g ← P.get
  if g.legacyMb then mbEv

/-- LD loc: the value must be what the model's memory holds *when the event happens* (`val` is
evaluated on the state after the event was scheduled); memory order at least `want` -/
def ld (loc : String) (val : G → Nat) (want : Nat) : M Nat := do
  let a ← P.evAt "LD" loc
  let g ← P.get
  match a with
  | [v, mo] =>
    if v != tokOf (val g) then P.fail s!"LD {loc} returned {v}, model memory has {tokOf (val g)}"
    else if moOk mo want then pure (val g) else P.fail s!"LD {loc}: memory order {mo} weaker than {want}"
  | _ => P.fail "bad LD"

def retIs (t : Nat) (want : Wfs.Ret) (what : String) : M Unit := do
  let g ← P.get
  if g.s.ret t != want then P.fail s!"{what}: implementation returned {repr want}, model {repr (g.s.ret t)}"

-- ------------------------------------------------------------------------------------------
-- cds_wfs_push
-- ------------------------------------------------------------------------------------------
def push (t n : Nat) : M Unit := do
  legacyMb
  let a ← P.evAt "XCHG" "head"
  let g ← P.get
  let old := g.s.head
  match a with
  | [nw, o, mo] =>
    if nw != tokOf n then P.fail s!"push: xchg installs {nw}, not the pushed node {tokOf n}"
    if o != tokOf old then P.fail s!"push: xchg returned {o}, model head is {tokOf old}"
    if !moOk mo 5 then P.fail "push: xchg weaker than seq_cst"
  | _ => P.fail "bad XCHG"
  lab (.pushX t)
  let a ← P.evAt "ST" (locOf n)
  match a with
  | [v, mo] =>
    if v != tokOf old then P.fail s!"push: stores next={v}, old head was {tokOf old}"
    if !moOk mo 3 then P.fail "push: next store weaker than release"
  | _ => P.fail "bad ST"
  lab (.pushSt t); lab (.flush t)
  cover (if old == END then "push_empty" else "push_nonempty")
  let r ← P.ev "RET push" fun e => if e.op == "RET" && e.arg 0 == "push" then some (e.arg 1) else none
  retIs t (.flag (r == "1")) "push"

-- ------------------------------------------------------------------------------------------
-- ___cds_wfs_node_sync_next; `stepL` = the model label of one load (popSync / iterNext)
-- ------------------------------------------------------------------------------------------
partial def syncNext (t node : Nat) (blocking : Bool) (stepL : Wfs.Label) (attempt : Nat) : M (Option Nat) := do
  let v ← ld (locOf node) (fun g => Wfs.rd g.s t node) 1
  lab stepL
  if v == 0 then
    if !blocking then pure none
    else if attempt + 1 ≥ ADAPT then do P.expect "POLL" []; cover "sync_poll"; syncNext t node blocking stepL 0
    else do P.expect "RELAX" []; cover "sync_relax"; syncNext t node blocking stepL (attempt + 1)
  else pure (some v)

-- ------------------------------------------------------------------------------------------
-- ___cds_wfs_pop(state, blocking); returns the token the function returns and the state value
-- ------------------------------------------------------------------------------------------
partial def popLoop (t : Nat) (blocking : Bool) : M (String × Bool) := do
  let h ← ld "head" (fun g => g.s.head) 1
  lab (.popLd t)
  if h == END then do cover "pop_null"; pure ("0", false)
  else do
    let nx ← syncNext t h blocking (.popSync t) 0
    match nx with
    | none => do cover "pop_wouldblock_sync"; pure ("-1", false)
    | some nx => do
      let a ← P.evAt "CAS" "head"
      let g ← P.get
      let cur := g.s.head
      match a with
      | [e, nw, o, mos, mof] =>
        if e != tokOf h then P.fail s!"pop: cmpxchg expects {e}, loaded head was {tokOf h}"
        if nw != tokOf nx then P.fail s!"pop: cmpxchg installs {nw}, next read was {tokOf nx}"
        if o != tokOf cur then P.fail s!"pop: cmpxchg read {o}, model head is {tokOf cur}"
        if !(moOk mos 5 && moOk mof 5) then P.fail "pop: cmpxchg weaker than seq_cst"
      | _ => P.fail "bad CAS"
      lab (.popCas t)
      if cur == h then do
        legacyMb
        cover (if nx == END then "pop_last" else "pop_node")
        pure (tokOf h, nx == END)
      else do
        -- who interfered: the node this popper loaded was popped by a concurrent popper / pop_all
        -- (possible only without mutual exclusion: RCU scheme), or a push went on top of it
        let g ← P.get
        cover (if g.s.nst h != .inStack then "pop_cas_fail_by_pop" else "pop_cas_fail_by_push")
        if !blocking then do cover "pop_wouldblock_cas"; pure ("-1", false)
        else do cover "pop_cas_retry"; popLoop t blocking

def pop (t : Nat) (blocking withState locked : Bool) : M Unit := do
  if locked then do P.expect "LOCK" ["lock"]; lab (.lock t)
  lab (.popBegin t blocking)
  let (tok, last) ← popLoop t blocking
  if locked then do P.expect "UNLOCK" ["lock"]; lab (.unlock t)
  let e ← P.ev "RET pop" fun e => if e.op == "RET" && e.arg 0 == "pop" then some e else none
  if e.arg 1 != tok then P.fail s!"pop returned {e.arg 1}, transliteration expects {tok}"
  if withState then
    if tok != "-1" && e.arg 2 != (if last then "1" else "0") then P.fail s!"pop state {e.arg 2}, expected LAST={last}"
  else if e.arg 2 != "-" then P.fail "pop without state reported a state"
  match nodeOf tok with
  | some n => retIs t (.node n last) "pop"
  | none => if tok == "0" then retIs t .null "pop" else retIs t .wouldblock "pop"

-- ------------------------------------------------------------------------------------------
-- ___cds_wfs_pop_all
-- ------------------------------------------------------------------------------------------
def popAll (t : Nat) (locked : Bool) : M Unit := do
  if locked then do P.expect "LOCK" ["lock"]; lab (.lock t)
  let a ← P.evAt "XCHG" "head"
  let g ← P.get
  let old := g.s.head
  match a with
  | [nw, o, mo] =>
    if nw != tokOf END then P.fail s!"pop_all: xchg installs {nw}, not CDS_WFS_END"
    if o != tokOf old then P.fail s!"pop_all: xchg returned {o}, model head is {tokOf old}"
    if !moOk mo 5 then P.fail "pop_all: xchg weaker than seq_cst"
  | _ => P.fail "bad XCHG"
  lab (.popAll t)
  legacyMb
  if locked then do P.expect "UNLOCK" ["lock"]; lab (.unlock t)
  cover (if old == END then "popall_empty" else "popall_nonempty")
  let r ← P.ev "RET pop_all" fun e => if e.op == "RET" && e.arg 0 == "pop_all" then some (e.arg 1) else none
  if r != (if old == END then "0" else tokOf old) then P.fail s!"pop_all returned {r}, exchanged head was {tokOf old}"
  retIs t (if old == END then .null else .head old) "pop_all"

/-- cds_wfs_next_{blocking,nonblocking}(node) -/
def next (t node : Nat) (blocking : Bool) : M Unit := do
  let g ← P.get
  if g.s.cur t != node then P.fail s!"next({tokOf node}): model iterator is at {tokOf (g.s.cur t)}"
  let nx ← syncNext t node blocking (.iterNext t blocking) 0
  let r ← P.ev "RET next" fun e => if e.op == "RET" && e.arg 0 == "next" then some (e.arg 1) else none
  match nx with
  | none => do
    cover "next_wouldblock"
    if r != "-1" then P.fail s!"next returned {r}, expected WOULDBLOCK"
    retIs t .wouldblock "next"
  | some v => do
    let want := if v == END then "0" else tokOf v
    if r != want then P.fail s!"next returned {r}, expected {want}"
    cover (if v == END then "next_end" else "next_node")
    retIs t (if v == END then .null else .node v false) "next"

def empty (t : Nat) : M Unit := do
  let _ ← ld "head" (fun g => g.s.head) 0
  lab (.empty t)
  let r ← P.ev "RET empty" fun e => if e.op == "RET" && e.arg 0 == "empty" then some (e.arg 1) else none
  cover (if r == "1" then "empty_true" else "empty_false")
  retIs t (.flag (r == "1")) "empty"

def flagOf (s : String) : Bool := s.endsWith "=1"

/-- events of the real RCU flavor: not owned by this driver -/
partial def skipUntilRet (name : String) : M Unit := do
  let e ← P.ev s!"… RET {name}" fun e => some e
  if e.op == "RET" && e.arg 0 == name then pure () else skipUntilRet name

partial def thread (t : Nat) : M Unit := do
  let e ← P.ev "CALL/…" fun e => some e
  match e.op, e.args with
  | "ALLOC", _ => thread t
  | "RETIRE", _ => do cover "retire"; thread t
  | "FREE", [n] => do
      let g ← P.get
      if g.c.scheme == .rcu then do let k ← node! n; lab (.reclaim k); cover "reclaim_after_gp"
      thread t
  | "SOLO", _ => do cover "solo_probe"; thread t
  | "SOLOMID", _ => do cover "solo_mid"; thread t
  | "SPAWN", _ => thread t
  | "INIT", [n] => do
      -- cds_wfs_node_init: plain store node->next = NULL (reported by the scenario, or by the
      -- access callback as PST in the instrumented build)
      let k ← node! n; lab (.pushBegin t k); lab (.flush t); thread t
  | "PST", [_, "0", _] => thread t
  | "PLD", _ => thread t
  | "CALL", ["push", n] => do let k ← node! n; push t k; thread t
  | "CALL", ["pop", b, st, lk] => do pop t (flagOf b) (flagOf st) (flagOf lk); thread t
  | "CALL", ["pop_all", lk] => do popAll t (flagOf lk); thread t
  | "CALL", ["next", n, b] => do let k ← node! n; next t k (flagOf b); thread t
  | "CALL", ["empty"] => do empty t; thread t
  | "CALL", ["lock"] => do P.expect "LOCK" ["lock"]; lab (.lock t); P.expect "RET" ["lock"]; cover "lock"; thread t
  | "CALL", ["unlock"] => do P.expect "UNLOCK" ["lock"]; lab (.unlock t); P.expect "RET" ["unlock"]; thread t
  | "CALL", ["rlock"] => do skipUntilRet "rlock"; lab (.rlock t); cover "rlock"; thread t
  | "CALL", ["runlock"] => do lab (.runlock t); skipUntilRet "runlock"; thread t
  | "CALL", ["sync"] => do lab .gpStart; skipUntilRet "sync"; lab .gpEnd; cover "grace_period"; thread t
  | "CALL", ["register"] => do skipUntilRet "register"; thread t
  | "CALL", ["unregister"] => do skipUntilRet "unregister"; thread t
  | "THREAD_EXIT", _ => pure ()
  | _, _ => P.fail s!"unexpected event outside an API call: {e.show}"

def cfgLine (g : G) (ws : List String) : Except String G :=
  ws.foldlM (fun g w =>
    match w.splitOn "=" with
    | ["scheme", "mutex"] => .ok { g with c := { g.c with scheme := .mutex } }
    | ["scheme", "single"] => .ok { g with c := { g.c with scheme := .single } }
    | ["scheme", "rcu"] => .ok { g with c := { g.c with scheme := .rcu } }
    | ["consumer", n] => .ok { g with c := { g.c with consumer := n.toNat?.getD 0 } }
    | ["legacymb", "0"] => .ok { g with legacyMb := false }
    | ["end", n] => if n.toNat? == some END then .ok g
                    else .error s!"CDS_WFS_END of the implementation ({n}) differs from Gen.Constants ({END})"
    | _ => .ok g) g

end WfsDrv

open WfsDrv in
def main : IO UInt32 := do
  let f (r : Run G) (ws : List String) : Except String (Run G) :=
    match ws with
    | "CFG" :: rest => do let g ← cfgLine r.g rest; pure { r with g := g }
    | _ => match parseEv ws with
      | some e => feed (fun t _ => (thread t).run) r e
      | none => .error "unparsable line"
  loop (← IO.getStdin) f (fun r => showCov r.g.cov) ({ g := {} } : Run G) 0
