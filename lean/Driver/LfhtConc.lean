import Driver.Prog
import UrcuVerif.Lfht.Conc.Step3
/-!
Trace checker for the concurrent hash table (`src/rculfhash.c` under the shim): C05, C06, C07, C17.

L1: every thread's event stream must be exactly what the transliterated C text below produces —
`_cds_lfht_add` (all modes, bucket path), `_cds_lfht_gc_bucket`, `_cds_lfht_replace`, `_cds_lfht_del`,
lookup / next_duplicate / next / first, the API glue (`cds_lfht_replace`'s NULL / reverse-hash / key tests,
`cds_lfht_del(NULL)`, the `for (;;)` of `cds_lfht_add_replace`), the populate / remove partition loops,
`partition_resize_helper` (thread count and shares of the helper threads, create / join) and the level loops of
`init_table` / `fini_table` — same `next` words, same `ht->size` accesses, same values, same (or stronger) memory
orders, in the same order.  Control flow of L1 follows the values of the trace.
L2: at every such access the label of the proven model (`UrcuVerif.Lfht.Conc`) is replayed on `step` and must be
enabled; before the access the model's memory word must equal the value the implementation saw (and after every
RMW the value it wrote), every API result must equal the model's, the model's `uaf` flag (dereference of NULL /
freed / never linked memory) is an error, `FREE node` lines of the scenario (free after a grace period) and table
frees are replayed as `reclaim` / `tblFree` (enabled only after the model's grace period).
Skipped: by location name the flavor's own events (bracketed by `FLV_BEGIN/FLV_END`, mapped to `rlock`/`runlock`/
`gpStart`/`gpEnd`), the work queue, split counters / `count`, `resize_target`, `resize_initiated`,
`in_progress_destroy` (resize arbitration: C09); barriers, spin hints, futex and thread-exit events; everything after
`CALL destroy` (teardown: C09 + the scenario's quarantine oracle).  Table creation (`cds_lfht_create_bucket`, plain
stores) is replayed silently on the model.
-/
open Driver UrcuVerif UrcuVerif.Lfht UrcuVerif.Lfht.Conc

namespace LfhtC

structure Info where
  name : String
  rev : Nat
  key : Nat
  hash : Nat
  isB : Bool
  deriving Inhabited

structure G where
  c : Cfg := { n := 64 }
  s : State := init
  model : Bool := true
  names : List (String × Nat) := []             -- user nodes ("node<k>")
  tbls : List (Nat × String × Nat) := [(0, "0", 1)]   -- every bucket table ever allocated: (order, generation, first node id)
  big : Bool := false                           -- scenario names whole tables ("t<order>_<gen>+<byte offset>") instead of single buckets
  cpus : Nat := 1                               -- nr_cpus_mask + 1 of the library (CFG line), for partition_resize_helper
  helpers : List (Nat × (Nat × Nat × Nat × Bool)) := []   -- partition threads created and not yet started: tid ↦ (order, first index, len, grow)
  pendingJoin : List (Nat × Nat) := []          -- (parent, helper): pthread_join called, completion seen at the parent's next event
  infos : Array Info := #[default, { name := "b0_0", rev := 0, key := 0, hash := 0, isB := true }]
  tbl : List (Nat × Nat) := [(0, 1)]          -- L1's view of bucket_at: (order, first node id) of the tables currently allocated
  maxIdx : Nat := 1                           -- bucket indices ever allocated are < maxIdx
  its : List (Nat × (Nat × W)) := []          -- per-thread iterator
  outs : List (Nat × Out) := []           -- per thread: result of its last model step
  inOp : List (Nat × String) := []          -- operation each thread is inside (coverage only)
  rzBusy : Nat := 0                         -- 0 = no resize in progress, 1 = growing, 2 = shrinking (coverage only)
  shutdown : Bool := false
  created : Bool := false
  nsteps : Nat := 0
  cov : List (String × Nat) := []

abbrev M := P G

def cover (k : String) : M Unit := P.act fun g => .ok { g with cov := bump g.cov k }
def modify (f : G → G) : M Unit := P.act fun g => .ok (f g)

/-! ### keeping the function-valued model state shallow (semantically the identity) -/
@[noinline] def fromArr {α} (a : Array α) (f : Nat → α) : Nat → α :=
  fun p => if h : p < a.size then a[p] else f p

@[noinline] def tabulate {α} (f : Nat → α) (n : Nat) : Array α := Array.ofFn (n := n) fun i => f i.val

/-- The tables are computed HERE (strictly, `compact` returns a structure), the closures stored in the state are
partial applications of `fromArr` to finished arrays.  (Writing `fromArr (tabulate f n) f` in a helper of type
`Nat → α` gets eta-expanded by the compiler: the table would be rebuilt at every application — exponential.)
Beyond the table the fields fall back to `init`'s (identifiers ≥ `hi` are fresh, thread ids ≥ 64 never step, bucket
indices ≥ `maxIdx` were never allocated): the old closure chain is dropped, otherwise every compaction would keep
all earlier tables alive.  The fall-back is cross-checked on the first identifiers beyond the table. -/
def compact (s : State) (maxIdx : Nat) : Except String State :=
  let n := s.hi
  let bad := (List.range 4).any fun d =>
    let p := n + d
    s.nxt p != init.nxt p || s.life p != init.life p || s.freed p != init.freed p || s.isB p != init.isB p ||
    s.wins p != init.wins p || s.dels p != init.dels p || s.ownRet p != init.ownRet p || s.tbl (maxIdx + d) != init.tbl (maxIdx + d)
  if bad then .error "internal: model state is not default beyond `hi` / `maxIdx` (compaction would not be the identity)" else
  let aNxt := tabulate s.nxt n; let aHsh := tabulate s.hsh n; let aRev := tabulate s.rev n
  let aKey := tabulate s.key n; let aIsB := tabulate s.isB n; let aLife := tabulate s.life n
  let aFreed := tabulate s.freed n; let aWins := tabulate s.wins n; let aDels := tabulate s.dels n
  let aOwn := tabulate s.ownRet n; let aUnl := tabulate s.unlAt n; let aTbl := tabulate s.tbl maxIdx
  let aAlloc := tabulate s.alloc 66; let aTh := tabulate s.th 64; let aCs := tabulate s.cs 64
  let i0 : State := init
  .ok { s with nxt := fromArr aNxt (i0.nxt), hsh := fromArr aHsh (i0.hsh), rev := fromArr aRev (i0.rev), key := fromArr aKey (i0.key),
               isB := fromArr aIsB (i0.isB), life := fromArr aLife (i0.life), freed := fromArr aFreed (i0.freed),
               wins := fromArr aWins (i0.wins), dels := fromArr aDels (i0.dels), ownRet := fromArr aOwn (i0.ownRet),
               unlAt := fromArr aUnl (i0.unlAt), tbl := fromArr aTbl (i0.tbl), alloc := fromArr aAlloc (i0.alloc),
               th := fromArr aTh (i0.th), cs := fromArr aCs (i0.cs) }

def lblName : Label → String
  | .rlock => "rlock" | .runlock => "runlock" | .callAdd .. => "callAdd" | .callReplace .. => "callReplace"
  | .callDel => "callDel" | .callLookup .. => "callLookup" | .callDup _ => "callDup" | .callNext => "callNext"
  | .callFirst => "callFirst" | .ldSize => "ldSize" | .ldHeadA => "ldHeadA" | .ldNextA => "ldNextA"
  | .casIns => "casIns" | .casGc => "casGc" | .ldWalk => "ldWalk" | .ldAssertW => "ldAssertW" | .casRepl => "casRepl"
  | .ldAssertR => "ldAssertR" | .ldHeadG => "ldHeadG" | .ldNextG => "ldNextG" | .ldDel => "ldDel" | .orRem => "orRem"
  | .ldAssertD => "ldAssertD" | .ldDel2 => "ldDel2" | .xchgOwn => "xchgOwn" | .orOwn => "orOwn" | .ldHeadL => "ldHeadL"
  | .ldFirst => "ldFirst" | .rzLock => "rzLock" | .rzUnlock => "rzUnlock" | .tblAlloc _ => "tblAlloc"
  | .spawn .. => "spawn" | .join _ => "join" | .partBegin => "partBegin" | .partEnd => "partEnd"
  | .stSizeGrow => "stSizeGrow" | .stSizeShrink => "stSizeShrink" | .gpStart => "gpStart" | .gpEnd => "gpEnd"
  | .tblFree => "tblFree" | .orBkt => "orBkt" | .reclaim _ => "reclaim"

/-- replay one label of the proven model for thread `t` -/
def lblG (t : Nat) (l : Label) (g : G) : Except String G :=
  if !g.model then .ok g else
  let g := { g with cov := bump g.cov ("m." ++ lblName l) }
  match step g.c g.s t l with
  | some (_, .crash) => .error s!"model: {repr l} dereferences NULL / freed / never linked memory (pc={repr (g.s.th t).pc})"
  | some (s', o) =>
    -- flatten the closures every 96 steps, and around a table free (its `freed` closure scans the whole level)
    let now := (g.nsteps + 1) % 96 == 0 || l == .tblFree
    match (if now then compact s' g.maxIdx else .ok s') with
    | .ok s'' => .ok { g with s := s'', outs := (t, o) :: g.outs.filter (·.1 != t), nsteps := g.nsteps + 1 }
    | .error e => .error e
  | none => .error s!"model step {repr l} not enabled for T{t} (pc={repr (g.s.th t).pc})"

def lbl (t : Nat) (l : Label) : M Unit := P.act (lblG t l)

def tblRange (o : Nat) : Nat × Nat := if o == 0 then (0, 1) else (2 ^ (o - 1), 2 ^ o)
def orderOf (idx : Nat) : Nat := if idx == 0 then 0 else Nat.log2 idx + 1

/-- "node5" (user node), "b6_0" (bucket 6 of generation 0 of its table) or, when the scenario names whole tables,
"t3_1" / "t3_1+48" (byte offset into generation 1 of the table of order 3) -/
def idOf (tok : String) : M Nat := do
  let g ← P.get
  let bucket (o : Nat) (gen : String) (k : Nat) : M Nat :=
    match g.tbls.find? (fun x => x.1 == o && x.2.1 == gen) with
    | some (_, _, base) =>
      let (lo, hi) := tblRange o
      if k < hi - lo then pure (base + k) else P.fail s!"{tok}: beyond the end of its bucket table"
    | none => P.fail s!"unknown bucket table in {tok}"
  if tok.startsWith "node" then
    match g.names.find? (·.1 == tok) with
    | some (_, i) => pure i
    | none => P.fail s!"unknown object {tok}"
  else if tok.startsWith "b" then
    match ((tok.drop 1).toString.splitOn "_") with
    | [i, gen] => match i.toNat? with
      | some idx => let o := orderOf idx; bucket o gen (idx - (tblRange o).1)
      | none => P.fail s!"unknown object {tok}"
    | _ => P.fail s!"unknown object {tok}"
  else if tok.startsWith "t" then
    let (nm, off) := match (tok.drop 1).toString.splitOn "+" with
      | [a, b] => (a, b.toNat?.getD 1)
      | _ => ((tok.drop 1).toString, 0)
    match nm.splitOn "_" with
    | [o, gen] => match o.toNat? with
      | some o =>
        if off % Gen.SIZEOF_LFHT_NODE != 0 then P.fail s!"{tok}: not the address of a bucket node's next word"
        else bucket o gen (off / Gen.SIZEOF_LFHT_NODE)
      | none => P.fail s!"unknown object {tok}"
    | _ => P.fail s!"unknown object {tok}"
  else P.fail s!"unknown object {tok}"

def info (i : Nat) : M Info := do
  let g ← P.get
  match g.infos[i]? with
  | some x => pure x
  | none => P.fail s!"internal: no info for node id {i}"

/-- "&node5|5", "&b1_0|2", "0", "2" -/
def parseW (tok : String) : M W := do
  if tok.startsWith "&" then
    let body := (tok.drop 1).toString
    let (nm, fl) := match body.splitOn "|" with
      | [a, b] => (a, b.toNat?.getD 99)
      | _ => (body, 0)
    if fl ≥ 8 then P.fail s!"bad word {tok}"
    let i ← idOf nm
    pure { ptr := i, rem := fl % 2 == 1, bkt := fl / 2 % 2 == 1, own := fl / 4 % 2 == 1 }
  else match tok.toNat? with
    | some fl => if fl < 8 then pure { ptr := 0, rem := fl % 2 == 1, bkt := fl / 2 % 2 == 1, own := fl / 4 % 2 == 1 }
                 else P.fail s!"word {tok} is neither a named node nor NULL|flags"
    | none => P.fail s!"bad word {tok}"

def showW (w : W) : String := s!"({w.ptr}|{if w.rem then "R" else ""}{if w.bkt then "B" else ""}{if w.own then "O" else ""})"

/-- the model's memory word must be what the implementation sees -/
def chkMem (i : Nat) (w : W) (what : String) : M Unit := do
  let g ← P.get
  if g.model && g.s.nxt i != w then
    let nm := (g.infos[i]?.map (·.name)).getD "?"
    P.fail s!"{what} {nm}: implementation sees {showW w}, model memory holds {showW (g.s.nxt i)}"

/-- memory order of an access: the one of the C text, or a stronger one (DESIGN §1.2: a stronger order is at most an
extra fence on x86; a weaker one is a divergence) -/
def moRank (kind : String) (mo : Nat) : Option Nat :=
  match kind, mo with
  | "LD", 0 => some 0 | "LD", 1 => some 1 | "LD", 2 => some 2 | "LD", 5 => some 3 | "LD", 6 => some 4
  | "ST", 0 => some 0 | "ST", 3 => some 1 | "ST", 5 => some 2 | "ST", 6 => some 3
  | "RMW", 0 => some 0 | "RMW", 1 => some 1 | "RMW", 2 => some 1 | "RMW", 3 => some 1 | "RMW", 4 => some 2
  | "RMW", 5 => some 3 | "RMW", 6 => some 4
  | _, _ => none

def chkMo (kind what tok : String) (want : Nat) : M Unit :=
  match tok.toNat? with
  | some got =>
    match moRank kind got, moRank kind want with
    | some a, some b => if got == want || a > b then pure () else P.fail s!"{what}: memory order {got}, the C text uses {want} (weaker)"
    | _, _ => P.fail s!"{what}: memory order {got} is not valid for this access"
  | none => P.fail s!"{what}: no memory order"

def bucketAt (idx : Nat) : M Nat := do
  let g ← P.get
  let o := orderOf idx
  match g.tbl.find? (·.1 == o) with
  | some (_, base) => pure (base + (idx - (tblRange o).1))
  | none => P.fail s!"bucket_at({idx}): no table allocated for this index"

/-- `LD <node>.next`: `rcu_dereference` (consume) in the traversals, `uatomic_load` (relaxed) in the assertions and in del -/
def ldNode (t i : Nat) (l : Label) : M W := do
  let nm := (← info i).name
  let a ← P.evAt "LD" nm
  let w ← parseW (a.getD 0 "")
  let want := match l with
    | .ldAssertW | .ldAssertR | .ldAssertD | .ldDel | .ldDel2 => 0
    | _ => 1
  chkMo "LD" s!"LD {nm}" (a.getD 1 "") want
  chkMem i w "LD"
  lbl t l
  pure w

/-- `uatomic_cmpxchg(&<node>.next, exp, new)`; returns the old value -/
def casNode (t i : Nat) (exp new : W) (l : Label) : M W := do
  let nm := (← info i).name
  let a ← P.evAt "CAS" nm
  let e ← parseW (a.getD 0 ""); let n ← parseW (a.getD 1 ""); let o ← parseW (a.getD 2 "")
  if e != exp then P.fail s!"CAS {nm}: expected-value argument {showW e}, the C text computes {showW exp}"
  if n != new then P.fail s!"CAS {nm}: new-value argument {showW n}, the C text computes {showW new}"
  chkMo "RMW" s!"CAS {nm} (success order)" (a.getD 3 "") 6
  chkMo "RMW" s!"CAS {nm} (failure order)" (a.getD 4 "") 0
  chkMem i o "CAS"
  lbl t l
  chkMem i (if o == exp then new else o) "after CAS"
  pure o

/-- `uatomic_or(&<node>.next, REMOVED_FLAG)`: release in `_cds_lfht_del`, default (relaxed) in `remove_table_partition` -/
def orNode (t i : Nat) (l : Label) : M Unit := do
  let nm := (← info i).name
  let a ← P.evAt "OR" nm
  if a.getD 0 "" != toString Gen.REMOVED_FLAG then P.fail s!"OR {nm}: operand {a.getD 0 ""}, expected REMOVED_FLAG"
  let r ← parseW (a.getD 1 "")
  chkMo "RMW" s!"OR {nm}" (a.getD 2 "") (if l == .orRem then 3 else 0)
  lbl t l
  chkMem i r "after OR"

/-- `uatomic_xchg(&<node>.next, new)`; returns the old value -/
def xchgNode (t i : Nat) (new : W) (l : Label) : M W := do
  let nm := (← info i).name
  let a ← P.evAt "XCHG" nm
  let n ← parseW (a.getD 0 ""); let o ← parseW (a.getD 1 "")
  if n != new then P.fail s!"XCHG {nm}: new value {showW n}, the C text computes {showW new}"
  chkMo "RMW" s!"XCHG {nm}" (a.getD 2 "") 6
  chkMem i o "XCHG"
  lbl t l
  chkMem i new "after XCHG"
  pure o


/-! ### L1: the C text -/

def ldSize (t : Nat) : M Nat := do
  let a ← P.evAt "LD" "ht.size"
  chkMo "LD" "LD ht.size" (a.getD 1 "") 2        -- rcu_dereference-like acquire load of the published size
  match (a.getD 0 "").toNat? with
  | some v =>
    let g ← P.get
    if g.model && g.s.size != v then P.fail s!"LD ht.size {v}, model has {g.s.size}"
    lbl t .ldSize
    pure v
  | none => P.fail "bad LD ht.size"

/-- the loop shared by `cds_lfht_lookup`, `cds_lfht_next_duplicate` and `cds_lfht_next`, from `node` on -/
partial def walkLoop (t : Nat) (kind : WalkKind) (rh key : Nat) (node : Nat) : M (Nat × W) := do
  if node == 0 then return (0, {})
  let i ← info node
  if kind != .next && i.rev > rh then return (0, {})
  let next ← ldNode t node .ldWalk
  if next.rem then cover "walk_skip_removed"
  if next.bkt then cover "walk_skip_bucket"
  let hit := !next.rem && !next.bkt &&
    (match kind with
     | .lookup => i.rev == rh && i.key == key
     | .dup | .dupAdd => i.key == key
     | .next => true)
  if hit then
    let _ ← ldNode t node .ldAssertW     -- urcu_posix_assert(!is_bucket(uatomic_load(&node->next)))
    return (node, next)
  walkLoop t kind rh key next.ptr

mutual
/-- `_cds_lfht_add`: one pass from the bucket (`for (;;)` body) -/
partial def addRetry (t : Nat) (mode : Mode) (node key bucket : Nat) : M (Nat × W) := do
  let iter ← ldNode t bucket .ldHeadA
  addInner t mode node key bucket bucket iter

partial def addInner (t : Nat) (mode : Mode) (node key bucket iterPrev : Nat) (iter : W) : M (Nat × W) := do
  let ni ← info node
  let ins : M (Nat × W) := do
    let old ← casNode t iterPrev iter { ptr := node, bkt := iter.bkt } .casIns
    if old != iter then do cover (if mode == .bkt then "populate_cas_fail" else "cas_ins_fail"); addRetry t mode node key bucket
    else do cover "cas_ins_ok"; pure (node, {})
  if iter.ptr == 0 then ins else
  let ii ← info iter.ptr
  if ii.rev > ni.rev then ins
  else if mode == .bkt && ii.rev == ni.rev then ins
  else do
    let next ← ldNode t iter.ptr .ldNextA
    if next.rem then do
      let old ← casNode t iterPrev iter { ptr := next.ptr, bkt := iter.bkt } .casGc
      cover (if old == iter then "add_help_unlink_ok" else "add_help_unlink_fail")
      addRetry t mode node key bucket
    else if (mode == .uniq || mode == .repl) && !next.bkt && ii.rev == ni.rev then do
      let (dn, dx) ← walkLoop t .dupAdd ni.rev key iter.ptr
      if dn == 0 then ins else do cover "add_dup_found"; pure (dn, dx)
    else addInner t mode node key bucket iter.ptr next
end

/-- `_cds_lfht_gc_bucket(bucket, node)` -/
partial def gcP (t bucket node : Nat) : M Unit := do
  let ni ← info node
  let iter ← ldNode t bucket .ldHeadG
  let rec inner (iterPrev : Nat) (iter : W) : M Unit := do
    if iter.ptr == 0 then return
    let ii ← info iter.ptr
    if ii.rev > ni.rev then return
    let next ← ldNode t iter.ptr .ldNextG
    if next.rem then do
      let old ← casNode t iterPrev iter { ptr := next.ptr, bkt := iter.bkt } .casGc
      cover (if old == iter then "gc_unlink_ok" else "gc_unlink_fail")
      gcP t bucket node
    else inner iter.ptr next
  inner bucket iter

def hashBucket (size node : Nat) : M Nat := do
  let i ← info node
  bucketAt (i.hash % size)

/-- `_cds_lfht_replace` -/
partial def replP (t size old : Nat) (oldNext : W) (newNode : Nat) : M Int := do
  if oldNext.rem then do cover "replace_enoent"; return -ENOENT
  let ret ← casNode t old oldNext { ptr := newNode, rem := true, own := true } .casRepl
  if ret != oldNext then do cover "cas_repl_fail"; replP t size old ret newNode
  else do
    cover "cas_repl_ok"
    gcP t (← hashBucket size old) newNode
    let _ ← ldNode t old .ldAssertR
    pure 0

/-- `_cds_lfht_del` -/
def delP (t size node : Nat) : M Int := do
  let next ← ldNode t node .ldDel
  if next.rem then do cover "del_already_removed"; return -ENOENT
  orNode t node .orRem
  gcP t (← hashBucket size node) node
  let _ ← ldNode t node .ldAssertD
  let v ← ldNode t node .ldDel2
  let old ← xchgNode t node { v with own := true } .xchgOwn
  if !old.own then do cover "del_won"; pure 0 else do cover "del_lost_race"; pure (-ENOENT)

/-! ### API level -/

def outIs (t : Nat) (what : String) (o : Out) : M Unit := do
  let g ← P.get
  let mo := ((g.outs.find? (·.1 == t)).map (·.2)).getD .unit
  if g.model && mo != o then P.fail s!"{what}: model returned {repr mo}, implementation {repr o}"

def getIt (t : Nat) : M (Nat × W) := do
  let g ← P.get
  pure ((g.its.find? (·.1 == t)).map (·.2) |>.getD (0, {}))
def setIt (t : Nat) (it : Nat × W) : M Unit := modify fun g => { g with its := (t, it) :: g.its.filter (·.1 != t) }

def newNode (name : String) (hash key : Nat) : M Nat := do
  let g ← P.get
  let i := g.infos.size
  modify fun g => { g with names := (name, i) :: g.names,
                           infos := g.infos.push { name, rev := bitReverse64 hash, key, hash, isB := false } }
  pure i

def num (s : String) : M Nat := match natOf s with
  | .ok n => pure n
  | .error e => P.fail e

/-- `RET <op> <node> <next>` of the iterator-returning calls -/
def retIter (t : Nat) (op : String) (r : Nat × W) : M Unit := do
  let a ← P.evAt "RET" op
  let n ← parseW (a.getD 0 ""); let w ← parseW (a.getD 1 "")
  if n.ptr != r.1 || (r.1 != 0 && w != r.2) then
    P.fail s!"RET {op}: implementation returned ({n.ptr},{showW w}), the C text yields ({r.1},{showW r.2})"
  outIs t s!"RET {op}" (.iter r.1 (if r.1 == 0 then {} else r.2))
  setIt t (if r.1 == 0 then (0, {}) else r)
  cover (if r.1 == 0 then s!"{op}_null" else s!"{op}_found")

/-- the `for (;;)` of `cds_lfht_add_replace` -/
partial def addReplaceLoop (t node k bucket size : Nat) : M Nat := do
  let (n, nx) ← addRetry t .repl node k bucket
  if n == node then pure 0
  else do
    let r ← replP t size n nx node
    if r == 0 then pure n else do cover "add_replace_retry"; addReplaceLoop t node k bucket size

def callOp' (t : Nat) (e : Ev) : M Unit := do
  match e.arg 0 with
  | "add" | "add_unique" | "add_replace" =>
    let op := e.arg 0
    let h ← num (e.arg 2); let k ← num (e.arg 3)
    let node ← newNode (e.arg 1) h k
    let mode : Mode := if op == "add" then .plain else if op == "add_unique" then .uniq else .repl
    lbl t (.callAdd mode node h k)
    let size ← ldSize t
    let bucket ← bucketAt (h % size)
    if op == "add" then do
      let _ ← addRetry t .plain node k bucket
      P.expect "RET" ["add"]; outIs t "RET add" .unit
    else if op == "add_unique" then do
      let (n, _) ← addRetry t .uniq node k bucket
      let a ← P.evAt "RET" "add_unique"
      let w ← parseW (a.getD 0 "")
      if w.ptr != n then P.fail s!"RET add_unique: implementation returned {w.ptr}, the C text yields {n}"
      outIs t "RET add_unique" (.node n)
      cover (if n == node then "add_unique_inserted" else "add_unique_existing")
    else do
      let r ← addReplaceLoop t node k bucket size
      let a ← P.evAt "RET" "add_replace"
      let w ← parseW (a.getD 0 "")
      if w.ptr != r then P.fail s!"RET add_replace: implementation returned {w.ptr}, the C text yields {r}"
      outIs t "RET add_replace" (.node r)
      cover (if r == 0 then "add_replace_inserted" else "add_replace_replaced")
  | "replace" =>
    let h ← num (e.arg 2); let k ← num (e.arg 3)
    let node ← newNode (e.arg 1) h k
    let (old, oldNext) ← getIt t
    lbl t (.callReplace node h k)
    -- cds_lfht_replace: NULL node, then reverse-hash and key comparison, all before the first shared access
    let early : Option Int ←
      if old == 0 then pure (some (-ENOENT))
      else do
        let oi ← info old
        pure (if oi.rev != bitReverse64 h then some (-EINVAL) else if oi.key != k then some (-EINVAL) else none)
    match early with
    | some r => do
      cover (if r == -ENOENT then "replace_null" else "replace_einval")
      P.expect "RET" ["replace", toString r]; outIs t "RET replace" (.ret r)
    | none => do
      let size ← ldSize t
      let r ← replP t size old oldNext node
      P.expect "RET" ["replace", toString r]; outIs t "RET replace" (.ret r)
  | "del" =>
    let (old, _) ← getIt t
    lbl t .callDel
    let size ← ldSize t
    let r ← if old == 0 then do cover "del_null"; pure (-ENOENT) else delP t size old      -- _cds_lfht_del: `if (!node) return -ENOENT`
    P.expect "RET" ["del", toString r]; outIs t "RET del" (.ret r)
  | "lookup" =>
    let h ← num (e.arg 1); let k ← num (e.arg 2)
    lbl t (.callLookup h k)
    let size ← ldSize t
    let bucket ← bucketAt (h % size)
    let w ← ldNode t bucket .ldHeadL
    let r ← walkLoop t .lookup (bitReverse64 h) k w.ptr
    retIter t "lookup" r
  | "next_dup" =>
    let k ← num (e.arg 1)
    let (n, nx) ← getIt t
    lbl t (.callDup k)
    let r ← walkLoop t .dup (← info n).rev k nx.ptr
    retIter t "next_dup" r
  | "next" =>
    let (_, nx) ← getIt t
    lbl t .callNext
    let r ← walkLoop t .next 0 0 nx.ptr
    retIter t "next" r
  | "first" =>
    lbl t .callFirst
    let w ← ldNode t (← bucketAt 0) .ldFirst
    let r ← walkLoop t .next 0 0 w.ptr
    retIter t "first" r
  | "resize" => pure ()      -- the body starts at `LOCK ht.rmutex`, handled by the thread loop
  | "destroy" => modify fun g => { g with shutdown := true }
  | x => P.fail s!"unknown operation {x}"

def callOp (t : Nat) (e : Ev) : M Unit := do
  let g ← P.get
  if g.rzBusy == 1 && e.arg 0 != "resize" then cover s!"{e.arg 0}_during_grow"
  if g.rzBusy == 2 && e.arg 0 != "resize" then cover s!"{e.arg 0}_during_shrink"
  modify fun g => { g with inOp := (t, e.arg 0) :: g.inOp.filter (·.1 != t) }
  callOp' t e
  modify fun g => { g with inOp := g.inOp.filter (·.1 != t) }

/-! ### resize: `init_table` / `fini_table` level by level (events between LOCK and UNLOCK of the resize mutex) -/

/-- a bucket table appears: name its nodes; returns the first node id -/
def registerTable (o : Nat) (gen : String) : M Nat := do
  let g ← P.get
  let (lo, hi) := tblRange o
  let base := g.infos.size
  let nm (i : Nat) : String :=
    if g.big then (if i == lo then s!"t{o}_{gen}" else s!"t{o}_{gen}+{(i - lo) * Gen.SIZEOF_LFHT_NODE}") else s!"b{i}_{gen}"
  modify fun g => { g with
    tbls := (o, gen, base) :: g.tbls,
    infos := (List.range (hi - lo)).foldl (fun a k => a.push { name := nm (lo + k), rev := bitReverse64 (lo + k), key := 0, hash := lo + k, isB := true }) g.infos,
    tbl := (o, base) :: g.tbl.filter (·.1 != o),
    maxIdx := max g.maxIdx hi }
  pure base

def unregisterTable (o : Nat) : M Unit :=
  modify fun g => { g with tbl := g.tbl.filter (·.1 != o) }

def flvEnd (what : String) : M Unit := P.expect "FLV_END" [what]

/-- coverage: operations of other threads that are in flight while a resize level starts -/
def coverInflight (t : Nat) (pre : String) : M Unit := do
  let g ← P.get
  for (u, op) in g.inOp do
    if u != t then cover s!"{pre}_while_{op}"

/-- `init_table_populate_partition` / `remove_table_partition` (ht, o, start, len): by the resizing thread itself for the
whole level, or by a helper thread of `partition_resize_helper` for its share -/
def partition (t o start len : Nat) (grow : Bool) : M Unit := do
  flvEnd "read_lock"
  lbl t .partBegin
  let (lo, _) := tblRange o
  for j in List.range len do
    let idx := lo + start + j
    let node ← bucketAt idx
    let parent ← bucketAt (idx - lo)
    if grow then do
      let _ ← addRetry t .bkt node 0 parent
      cover "populate_bucket"
    else do
      orNode t node .orBkt
      gcP t parent node
      cover "remove_bucket"
  P.expect "FLV_BEGIN" ["read_unlock"]
  lbl t .partEnd
  flvEnd "read_unlock"

def tidOf (tok : String) : M Nat :=
  match (tok.drop 1).toString.toNat? with
  | some n => if tok.startsWith "T" then pure n else P.fail s!"bad thread name {tok}"
  | none => P.fail s!"bad thread name {tok}"

/-- `pthread_join` returned (seen at the parent's next event): the helper must have finished its partition -/
def flushJoins (t : Nat) : M Unit := do
  let g ← P.get
  for (p, u) in g.pendingJoin.reverse do
    if p == t then do lbl t (.join u); cover "helper_joined"
  modify fun g => { g with pendingJoin := g.pendingJoin.filter (·.1 != t) }

/-- `partition_resize_helper(ht, o, len, fct)` with worker threads: nr_threads = min(nr_cpus, len >> MIN_PARTITION_PER_THREAD_ORDER)
`pthread_create`s of equal shares, then as many `pthread_join`s.  The first SPAWN event has been consumed (`first`). -/
def helperSpawns (t o : Nat) (grow : Bool) (first : String) : M Unit := do
  let g ← P.get
  let (lo, hi) := tblRange o
  let len := hi - lo
  if len < 2 * Gen.MIN_PARTITION_PER_THREAD then P.fail s!"partition threads for a level of {len} buckets (the C text needs >= {2 * Gen.MIN_PARTITION_PER_THREAD})"
  let nr := if g.cpus > 1 then min g.cpus (len / Gen.MIN_PARTITION_PER_THREAD) else 1
  let plen := len / nr
  for k in List.range nr do
    let u ← if k == 0 then tidOf first else do
      let a ← P.ev "SPAWN (pthread_create of the next partition thread)" fun e => if e.op == "SPAWN" then some e.args else none
      tidOf (a.getD 0 "")
    lbl t (.spawn u plen)
    modify fun g => { g with helpers := (u, (o, k * plen, plen, grow)) :: g.helpers }
    cover "helper_spawned"
  for _ in List.range nr do
    let a ← P.ev "JOIN (pthread_join of a partition thread)" fun e => if e.op == "JOIN" then some e.args else none
    flushJoins t
    let u ← tidOf (a.getD 0 "")
    modify fun g => { g with pendingJoin := (t, u) :: g.pendingJoin }

partial def rzBody (t : Nat) (cur : Nat) (grow : Bool) : M Unit := do
  let e ← P.ev "resize event" some
  flushJoins t
  match e.op, e.args with
  | "SPAWN", tn :: _ => do helperSpawns t cur grow tn; rzBody t cur grow
  | "UNLOCK", ["ht.rmutex"] => do lbl t .rzUnlock; modify fun g => { g with rzBusy := 0 }
  | "TBL_ALLOC", [o, gen] =>
    let o ← num o
    let base ← registerTable o gen
    lbl t (.tblAlloc base)
    cover "grow_level"
    coverInflight t "grow"
    modify fun g => { g with rzBusy := 1 }
    rzBody t o true
  | "WMB", _ =>
    let a ← P.evAt "ST" "ht.size"       -- fini_table: cmm_smp_wmb(); uatomic_store(&ht->size, …) (relaxed)
    let v ← num (a.getD 0 "")
    chkMo "ST" "ST ht.size (shrink)" (a.getD 1 "") 0
    lbl t .stSizeShrink
    let g ← P.get
    if g.model && g.s.size != v then P.fail s!"ST ht.size {v} (shrink), model stores {g.s.size}"
    cover "shrink_level"
    coverInflight t "shrink"
    modify fun g => { g with rzBusy := 2 }
    rzBody t (Nat.log2 v + 1) false
  | "ST", "ht.size" :: v :: mo :: _ =>     -- init_table: uatomic_store(&ht->size, 1UL << i, CMM_RELEASE)
    let v ← num v
    chkMo "ST" "ST ht.size (grow)" mo 3
    lbl t .stSizeGrow
    let g ← P.get
    if g.model && g.s.size != v then P.fail s!"ST ht.size {v} (grow), model stores {g.s.size}"
    rzBody t cur grow
  | "FLV_BEGIN", ["sync"] => do lbl t .gpStart; flvEnd "sync"; lbl t .gpEnd; rzBody t cur grow
  | "FLV_BEGIN", ["read_lock"] => do
    let (lo, hi) := tblRange cur
    partition t cur 0 (hi - lo) grow; rzBody t cur grow
  | "TBL_FREE", [o, _] => do
    let o ← num o
    let g ← P.get
    if g.model && (g.s.th t).pfree != o then P.fail s!"free of bucket table order {o}, model expects order {(g.s.th t).pfree}"
    lbl t .tblFree; unregisterTable o; cover "table_freed"; rzBody t cur grow
  | _, _ => P.fail s!"unexpected event inside the resize critical section"

/-- creation (`cds_lfht_create_bucket` links with plain stores): the model reaches the same list by growing silently -/
partial def silentGrow (o : Nat) (gen : String) : M Unit := do
  let base ← registerTable o gen
  let g ← P.get
  if !g.model then return
  lbl 0 .rzLock; lbl 0 (.tblAlloc base); lbl 0 .partBegin
  -- one internal action for the whole level (the runner bounds the number of consecutive internal actions)
  let rec run (fuel : Nat) (g : G) : Except String G :=
    match fuel, (g.s.th 0).pc with
    | 0, _ => .error "internal: silent populate does not terminate"
    | _, .pEnd => .ok g
    | f+1, .aHead => do run f (← lblG 0 .ldHeadA g)
    | f+1, .aNext => do run f (← lblG 0 .ldNextA g)
    | f+1, .aCas => do run f (← lblG 0 .casIns g)
    | f+1, .aGc => do run f (← lblG 0 .casGc g)
    | _, pc => .error s!"internal: silent populate at {repr pc}"
  P.act (run 1000000)
  lbl 0 .partEnd; lbl 0 .stSizeGrow; lbl 0 .rzUnlock

partial def threadLoop (t : Nat) : M Unit := do
  let e ← P.ev "event" some
  let g ← P.get
  if g.shutdown then threadLoop t else
  match e.op, e.args with
  | "FLV_BEGIN", ["read_lock"] =>
    match g.helpers.find? (·.1 == t) with
    | some (_, (o, start, len, grow)) => do      -- partition_resize_thread: work->fct(ht, i, start, len)
      modify fun g => { g with helpers := g.helpers.filter (·.1 != t) }
      partition t o start len grow
      cover "helper_partition"
      threadLoop t
    | none => do flvEnd "read_lock"; lbl t .rlock; threadLoop t
  | "SPAWN", _ => threadLoop t      -- threads created outside a resize (workers of the scenario, the work-queue thread)
  | "JOIN", _ => threadLoop t
  | "FLV_BEGIN", ["read_unlock"] => do lbl t .runlock; setIt t (0, {}); flvEnd "read_unlock"; threadLoop t
  | "FLV_BEGIN", [w] => do flvEnd w; threadLoop t
  | "CALL", _ => do callOp t e; threadLoop t
  | "RET", ["resize"] => threadLoop t
  | "LOCK", ["ht.rmutex"] => do lbl t .rzLock; rzBody t 0 true; threadLoop t
  | "FREE", [nm] => do lbl t (.reclaim (← idOf nm)); cover "node_reclaimed"; threadLoop t
  | "TBL_ALLOC", [o, gen] =>
    if g.created then P.fail "table allocation outside the resize mutex"
    else do
      let o ← num o
      if o == 0 then threadLoop t else do silentGrow o gen; threadLoop t
  | "NEW", [sz] => do
    let sz ← num sz
    let g ← P.get
    if g.model && g.s.size != sz then P.fail s!"new table has size {sz}, model {g.s.size}"
    modify fun g => { g with created := true }
    threadLoop t
  | _, _ => P.fail "unexpected event (no C text produces it here)"

/-- events that belong to the flavor, the work queue, the accounting or the resize arbitration -/
def skipLoc (l : String) : Bool :=
  ["ht.rtarget", "ht.rinit", "ht.destroy", "ht.count", "split", "wq", "work", "aux", "stack", "reader", "gp"].any (fun p => l.startsWith p)

def skipEv (e : Ev) : Bool :=
  match e.op with
  | "CB" | "MB" | "RMB" | "MBAR" | "RELAX" | "POLL" | "THREAD_EXIT" | "FUTEX_WAIT" | "FUTEX_WOKEN"
  | "FUTEX_WAKE" => true
  | "LOCK" | "UNLOCK" | "TRYLOCK" => e.arg 0 != "ht.rmutex"
  | "LD" | "ST" | "CAS" | "XCHG" | "ADD" | "SUB" | "ADDR" | "SUBR" | "AND" | "OR" => skipLoc (e.arg 0)
  | _ => false

structure Top where
  r : Run G
  inFlv : List Nat := []

def cfgLine (g : G) (ws : List String) : G :=
  ws.foldl (fun g w => match w.splitOn "=" with
    | ["model", v] => { g with model := v == "1" }
    | ["big", "1"] => { g with big := true, infos := #[default, { name := "t0_0", rev := 0, key := 0, hash := 0, isB := true }] }
    | ["cpus", v] => { g with cpus := v.toNat?.getD 1 }
    | _ => g) g

end LfhtC

open LfhtC in
def main : IO UInt32 := do
  let f (tp : Top) (ws : List String) : Except String Top :=
    match ws with
    | "CFG" :: rest => .ok { tp with r := { tp.r with g := cfgLine tp.r.g rest } }
    | _ => match parseEv ws with
      | some e =>
        let fresh := fun (t : Nat) (_ : G) => (threadLoop t).run
        if tp.r.g.shutdown then .ok tp       -- after `CALL destroy`: teardown is not part of the model (C09 / quarantine oracle)
        else if e.op == "FLV_END" then
          (feed fresh tp.r e).map fun r' => { r := r', inFlv := tp.inFlv.filter (· != e.tid) }
        else if tp.inFlv.contains e.tid then .ok tp
        else if e.op == "FLV_BEGIN" then
          (feed fresh tp.r e).map fun r' => { r := r', inFlv := e.tid :: tp.inFlv }
        else if skipEv e || tp.r.g.shutdown then .ok tp
        else (feed fresh tp.r e).map fun r' => { tp with r := r' }
      | none => .error "unparsable line"
  loop (← IO.getStdin) f (fun tp =>
      let g := tp.r.g
      s!"model={if g.model then 1 else 0} steps={g.nsteps} nodes={g.infos.size} L={g.s.L.length} uaf={g.s.uaf} " ++ showCov g.cov)
    ({ r := { g := {} } } : Top) 0
