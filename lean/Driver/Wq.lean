import Driver.Prog
import UrcuVerif.Wq.Model
import UrcuVerif.Gen.Constants
/-!
Trace checker for `src/workqueue.c` (+ the wfcqueue accesses it makes, + `urcu_ref`): the hash table's internal work queue.

"L1": every function of the C text is transliterated below as a coroutine that must consume exactly the events the
real code emits on the locations of the work queue (queue head / tail and node `next` fields, `flags`, `futex`, `qlen`,
the completion objects) – same accesses, same values (checked against a shadow memory), same order, same futex calls,
same thread creation / join.  At the accesses that matter the labels of the proven "L2" model (`UrcuVerif.Wq.step`) are
replayed and must be enabled; work identities and execution order are compared with the model's private list, flag words
and futex / counter values with the model's fields.  Harness runs are sequentially consistent: the waker's plain
`futex := 0` is committed at once (`stFutex` immediately followed by `flush`).
-/
open Driver UrcuVerif UrcuVerif.Wq

namespace WqDrv

def ADAPT : Nat := Gen.WFCQ_ADAPT_ATTEMPTS
/-- work ids of the model: user work `wN` ↦ N, completion work item `cworkJ` ↦ WORK0 + J -/
def WORK0 : Nat := 1000000

structure G where
  c : Cfg := {}
  s : State := init
  mem : List (String × String) := []
  legacyMb : Bool := true
  tidW : Option Nat := none            -- trace tid of the current worker thread
  fRT : Nat := 1
  fSTOP : Nat := 2
  fPAUSE : Nat := 4
  fPAUSED : Nat := 8
  pendEv : List (Nat × Ev) := []
  complB : List (Nat × Nat) := []      -- harness completion number K ↦ model completion b
  cov : List (String × Nat) := []

abbrev M := P G

def modify (f : G → G) : M Unit := P.act fun g => .ok (f g)
def cover (k : String) : M Unit := P.act fun g => .ok { g with cov := bump g.cov k }

/-- model thread id of trace thread `t`: the worker's thread is 0 -/
def mt (g : G) (t : Nat) : Nat := if g.tidW == some t then 0 else t + 1

def lab (l : Label) : M Unit := P.act fun g =>
  match step g.c g.s l with
  | some s' => .ok { g with s := s' }
  | none => .error s!"model step {repr l} not enabled (worker at {repr g.s.wpc}, futex {g.s.futex}, queue {repr g.s.queue}, batch {repr g.s.batch})"

def labT (t : Nat) (f : Nat → Label) : M Unit := do
  let g ← P.get
  lab (f (mt g t))

def check (f : G → Option String) : M Unit := P.act fun g => match f g with
  | some e => .error e
  | none => .ok g

def num (s : String) : M Nat := match natOf s with
  | .ok n => pure n
  | .error e => P.fail e

def int (s : String) : M Int := match intOf s with
  | .ok n => pure n
  | .error e => P.fail e

def moOk (got : String) (want : Nat) : Bool := match got.toNat? with
  | some m => m ≥ want
  | none => false

def rd (g : G) (loc : String) : String := (g.mem.lookup loc).getD "0"
def wr (g : G) (loc v : String) : G := { g with mem := (loc, v) :: g.mem.filter (·.1 != loc) }
def setMem (loc v : String) : M Unit := modify fun g => wr g loc v

-- ------------------------------------------------------------------------------------------
-- events
-- ------------------------------------------------------------------------------------------

def nextEv (t : Nat) (desc : String) : M Ev := do
  let g ← P.get
  match g.pendEv.lookup t with
  | some e =>
    modify fun g => { g with pendEv := g.pendEv.filter (·.1 != t) }
    pure e
  | none => P.ev desc some

def unget (t : Nat) (e : Ev) : M Unit := modify fun g => { g with pendEv := (t, e) :: g.pendEv }

def expectEv (t : Nat) (op : String) (args : List String) : M Unit := do
  let e ← nextEv t s!"{op} {" ".intercalate args}"
  if e.op == op && e.args == args then pure ()
  else P.fail s!"expected {op} {" ".intercalate args}"

/-- LD loc: value must equal the shadow memory; returns the value token -/
def ldM (t : Nat) (loc : String) (want : Nat := 0) : M String := do
  let e ← nextEv t s!"LD {loc}"
  if e.op != "LD" || e.arg 0 != loc then P.fail s!"expected LD {loc}"
  if !moOk (e.arg 2) want then P.fail s!"LD {loc}: memory order {e.arg 2} weaker than {want}"
  let g ← P.get
  if e.arg 1 != rd g loc then P.fail s!"LD {loc} returned {e.arg 1}, shadow memory has {rd g loc}"
  pure (e.arg 1)

def stM (t : Nat) (loc val : String) (want : Nat := 0) : M Unit := do
  let e ← nextEv t s!"ST {loc} {val}"
  if e.op != "ST" || e.arg 0 != loc then P.fail s!"expected ST {loc} {val}"
  if e.arg 1 != val then P.fail s!"ST {loc}: stores {e.arg 1}, expected {val}"
  if !moOk (e.arg 2) want then P.fail s!"ST {loc}: memory order {e.arg 2} weaker than {want}"
  setMem loc val

/-- XCHG loc new: returns the old value (checked against the shadow memory) -/
def xchgM (t : Nat) (loc new : String) : M String := do
  let e ← nextEv t s!"XCHG {loc} {new}"
  if e.op != "XCHG" || e.arg 0 != loc then P.fail s!"expected XCHG {loc} {new}"
  if e.arg 1 != new then P.fail s!"XCHG {loc}: stores {e.arg 1}, expected {new}"
  if !moOk (e.arg 3) 5 then P.fail s!"XCHG {loc}: weaker than seq_cst"
  let g ← P.get
  if e.arg 2 != rd g loc then P.fail s!"XCHG {loc} returned {e.arg 2}, shadow memory has {rd g loc}"
  setMem loc new
  pure (e.arg 2)

/-- arithmetic read-modify-write `op ∈ ADD SUB SUBR` on a numeric location; returns the new value -/
def rmwM (t : Nat) (op loc : String) (operand : Int) : M Int := do
  let e ← nextEv t s!"{op} {loc} {operand}"
  if e.op != op || e.arg 0 != loc then P.fail s!"expected {op} {loc} {operand}"
  let d ← int (e.arg 1)
  if d != operand then P.fail s!"{op} {loc}: operand {d}, expected {operand}"
  let r ← int (e.arg 2)
  let g ← P.get
  let old ← int (rd g loc)
  let want := if op == "ADD" then old + operand else old - operand
  if r != want then P.fail s!"{op} {loc}: result {r}, shadow memory gives {want}"
  setMem loc (toString r)
  pure r

/-- `uatomic_or` / `uatomic_and` on the flags word; returns the new value -/
def bitM (t : Nat) (op loc : String) (f : Nat → Nat) (operand : Nat → Bool) : M Nat := do
  let e ← nextEv t s!"{op} {loc}"
  if e.op != op || e.arg 0 != loc then P.fail s!"expected {op} {loc}"
  let o ← num (e.arg 1)
  if !operand o then P.fail s!"{op} {loc}: unexpected operand {e.arg 1}"
  let r ← num (e.arg 2)
  let g ← P.get
  let old ← num (rd g loc)
  if r != f old then P.fail s!"{op} {loc}: result {r}, shadow memory gives {f old}"
  setMem loc (toString r)
  pure r

def mbEv (t : Nat) : M Unit := expectEv t "MB" []
def cbEv (t : Nat) : M Unit := expectEv t "CB" []
def legacyMb (t : Nat) : M Unit := do
  let g ← P.get
  if g.legacyMb then mbEv t

/-- futex(FUTEX_WAKE, 1) on `loc`; returns the number of threads woken (ENOSYS: compat = mb, 0) -/
def futexWake (t : Nat) (loc : String) : M Nat := do
  let e ← nextEv t s!"FUTEX_WAKE {loc} n=1"
  if !(e.op == "FUTEX_WAKE" && e.arg 0 == loc && e.arg 1 == "n=1" && e.arg 2 == "->") then P.fail s!"expected FUTEX_WAKE {loc} n=1"
  if e.arg 3 == "ENOSYS" then do mbEv t; cover "futex_wake_ENOSYS"; pure 0
  else num (e.arg 3)

/-- futex(FUTEX_WAIT, -1) on `loc`; returns the outcome token -/
def futexWait (t : Nat) (loc : String) : M String := do
  let e ← nextEv t s!"FUTEX_WAIT {loc} val=-1"
  if !(e.op == "FUTEX_WAIT" && e.arg 0 == loc && e.arg 1 == "val=-1" && e.arg 2 == "->") then P.fail s!"expected FUTEX_WAIT {loc} val=-1"
  pure (e.arg 3)

/-- compat_futex_async(FUTEX_WAIT): mb; while (load == -1) poll -/
partial def compatWait (t : Nat) (loc : String) : M Unit := do
  mbEv t
  let rec loop : M Unit := do
    let v ← ldM t loc
    if v == "-1" then do expectEv t "POLL" []; loop else pure ()
  loop

/-- `futex_wait(futex)` of workqueue.c: mb; while (LD futex == -1) { FUTEX_WAIT: 0 → again; EAGAIN → return; EINTR → again }.
`onLd v`, `onWait o` replay the model labels. -/
partial def futexWaitLoop (t : Nat) (loc : String) (onLd : Int → M Unit) (onWait : FOut → M Unit) (tag : String) : M Unit := do
  mbEv t
  let rec loop : M Unit := do
    let v ← ldM t loc
    let fv ← int v
    onLd fv
    if fv == -1 then do
      let o ← futexWait t loc
      cover s!"{tag}_futex_{o}"
      if o == "SLEEP" then do
        onWait .sleep
        expectEv t "FUTEX_WOKEN" [loc]
        loop
      else if o == "SPURIOUS" then do onWait .spurious; loop
      else if o == "EAGAIN" then onWait .eagain
      else if o == "EINTR" then do onWait .eintr; loop
      else if o == "ENOSYS" then do
        onWait .spurious
        compatWait t loc
        loop
      else P.fail s!"unknown futex outcome {o}"
    else pure ()
  loop

-- ------------------------------------------------------------------------------------------
-- names, flags
-- ------------------------------------------------------------------------------------------

def locOfPtr (tok : String) : String := (tok.drop 1).toString

/-- node name ↦ model work id: "w7" ↦ 7, "cwork3" ↦ WORK0 + 3 -/
def workOfNode (nm : String) : Option Nat :=
  if nm.startsWith "cwork" then (nm.drop 5).toString.toNat?.map (WORK0 + ·)
  else if nm.startsWith "w" then (nm.drop 1).toString.toNat?
  else none

def nodeOfWork (id : Nat) : String := if id ≥ WORK0 then s!"cwork{id - WORK0}" else s!"w{id}"

def hasBit (f b : Nat) : Bool := (f / b) % 2 == 1

def flagsOf (g : G) : Nat :=
  (if g.c.rt then g.fRT else 0) + (if g.s.stop then g.fSTOP else 0) + (if g.s.pause then g.fPAUSE else 0)
  + (if g.s.paused then g.fPAUSED else 0)

/-- a loaded `workqueue->flags` word must be what the model's flag bits say -/
def ldFlags (t : Nat) : M Nat := do
  let v ← ldM t "wq.flags"
  let f ← num v
  let g ← P.get
  if f != flagsOf g then P.fail s!"LD wq.flags = {f} but the model's flag bits give {flagsOf g}"
  pure f

def chkFutex (v : Int) : M Unit := check fun g =>
  if g.s.futex != v then some s!"wq.futex = {v} but the model has {g.s.futex}" else none

def chkQlen (v : Int) : M Unit := check fun g =>
  if g.s.qlen != v then some s!"wq.qlen = {v} but the model has {g.s.qlen}" else none

def complName (g : G) (b : Nat) : String :=
  match g.complB.find? (·.2 == b) with
  | some (k, _) => s!"compl{k}"
  | none => "compl?"

-- ------------------------------------------------------------------------------------------
-- wfcqueue pieces (include/urcu/static/wfcqueue.h)
-- ------------------------------------------------------------------------------------------

/-- `___cds_wfcq_busy_wait` -/
def busyWait (t : Nat) (attempt : Nat) : M Nat := do
  if attempt + 1 ≥ ADAPT then do expectEv t "POLL" []; cover "wfcq_busy_poll"; pure 0
  else do expectEv t "RELAX" []; cover "wfcq_busy_relax"; pure (attempt + 1)

/-- `_cds_wfcq_empty(head, tail)` -/
def wfcqEmpty (t : Nat) (headLoc tailLoc : String) : M Bool := do
  let v ← ldM t headLoc 1
  if v != "0" then pure false
  else do
    let w ← ldM t tailLoc 1
    pure (w == s!"&{headLoc}")

/-- `___cds_wfcq_node_sync_next(node, blocking)` -/
partial def syncNext (t : Nat) (nodeLoc : String) (attempt : Nat) : M String := do
  let v ← ldM t nodeLoc 1
  if v == "0" then do
    let a ← busyWait t attempt
    syncNext t nodeLoc a
  else pure v

/-- `___cds_wfcq_append(dest, new_head, new_tail)`; runs `atXchg` right after the tail exchange -/
def wfcqAppend (t : Nat) (destTailLoc newHead newTail : String) (atXchg : M Unit) : M Unit := do
  let old ← xchgM t destTailLoc newTail
  atXchg
  stM t (locOfPtr old) newHead 3

-- ------------------------------------------------------------------------------------------
-- urcu_workqueue_queue_work and the wake path
-- ------------------------------------------------------------------------------------------

/-- `wake_worker_thread(workqueue)` by trace thread `t` (model thread at `ldFlags k`) -/
def wakeWorker (t : Nat) : M Unit := do
  let f ← ldFlags t
  labT t .ldFlags
  let g ← P.get
  if !hasBit f g.fRT then do
    -- futex_wake_up(): mb; if (LD futex == -1) { ST futex 0; FUTEX_WAKE }
    mbEv t
    let v ← ldM t "wq.futex"
    let fv ← int v
    chkFutex fv
    labT t .ldFutex
    if fv == -1 then do
      stM t "wq.futex" "0"
      labT t .stFutex
      labT t .flush
      let k ← futexWake t "wq.futex"
      let g ← P.get
      let asleep := g.s.wpc == .asleep
      if (k == 1) != asleep then P.fail s!"FUTEX_WAKE wq.futex woke {k} threads but the model's worker is at {repr g.s.wpc}"
      labT t .wake
      cover (if k == 1 then "wake_sleeping_worker" else "wake_nobody")
    else cover "wake_futex_not_-1"
  else cover "wake_rt_worker"

/-- `urcu_workqueue_queue_work(workqueue, work, func)` after the model's entry label: the model thread is at `enq id k` -/
def queueWorkInner (t : Nat) (node : String) : M Unit := do
  -- cds_wfcq_node_init(&work->next); work->func = func  (private)
  setMem node "0"
  legacyMb t
  wfcqAppend t "wq.tail" s!"&{node}" s!"&{node}" (do
    let g ← P.get
    match g.s.tpc (mt g t) with
    | .enq id _ => if nodeOfWork id != node then P.fail s!"enqueue of {node} but the model thread is about to enqueue {nodeOfWork id}"
    | p => P.fail s!"enqueue while the model thread is at {repr p}"
    labT t .enq)
  let r ← rmwM t "ADD" "wq.qlen" 1
  labT t .inc
  chkQlen r
  wakeWorker t

def queueWork (t id : Nat) : M Unit := do
  let g ← P.get
  lab (.qCall (mt g t) id)
  queueWorkInner t s!"w{id}"
  cover (if mt g t == 0 then "queue_work_from_worker" else "queue_work")

-- ------------------------------------------------------------------------------------------
-- completions
-- ------------------------------------------------------------------------------------------

/-- `urcu_workqueue_create_completion()`; returns the model completion -/
def createCompletion (t : Nat) : M Nat := do
  let e ← nextEv t "ALLOC complK"
  if e.op != "ALLOC" || !(e.arg 0).startsWith "compl" then P.fail "expected ALLOC complK (create_completion)"
  let k ← num ((e.arg 0).drop 5).toString
  let cn := s!"compl{k}"
  setMem s!"{cn}.count" "0"; setMem s!"{cn}.futex" "0"; setMem s!"{cn}.ref" "0"
  stM t s!"{cn}.ref" "1"
  labT t .ccCreate
  -- the model numbers the completions in the order of this step
  let g ← P.get
  let b := g.s.nextB - 1
  modify fun g => { g with complB := (k, b) :: g.complB }
  pure b

/-- `urcu_workqueue_queue_completion(workqueue, completion)` -/
partial def queueCompletion (t b : Nat) : M Unit := do
  let g ← P.get
  let cn := complName g b
  let e ← nextEv t "ALLOC cworkJ"
  if e.op != "ALLOC" || !(e.arg 0).startsWith "cwork" then P.fail "expected ALLOC cworkJ (queue_completion)"
  let wn := e.arg 0
  let w ← match workOfNode wn with
    | some w => pure w
    | none => P.fail "bad ALLOC cwork"
  -- urcu_ref_get: load; cmpxchg loop
  let rec getRef : M Unit := do
    let v ← ldM t s!"{cn}.ref"
    let old ← int v
    let rec cas (old : Int) : M Unit := do
      let e ← nextEv t s!"CAS {cn}.ref"
      if e.op != "CAS" || e.arg 0 != s!"{cn}.ref" then P.fail s!"expected CAS {cn}.ref"
      let ex ← int (e.arg 1)
      let nw ← int (e.arg 2)
      let got ← int (e.arg 3)
      if ex != old || nw != old + 1 then P.fail s!"urcu_ref_get: CAS {ex} → {nw}, expected {old} → {old + 1}"
      let g ← P.get
      let cur ← int (rd g s!"{cn}.ref")
      if got != cur then P.fail s!"CAS {cn}.ref returned {got}, shadow memory has {cur}"
      if got == ex then setMem s!"{cn}.ref" (toString nw)
      else do cover "ref_get_retry"; cas got
    cas old
  getRef
  let g ← P.get
  lab (.qcGet (mt g t) b)
  check fun g => if toString (g.s.cref b) != rd g s!"{cn}.ref" then some s!"{cn}.ref = {rd g s!"{cn}.ref"}, model {g.s.cref b}" else none
  let r ← rmwM t "ADD" s!"{cn}.count" 1
  let g ← P.get
  lab (.qcInc (mt g t) w)
  check fun g => if g.s.ccnt b != r then some s!"{cn}.count = {r}, model {g.s.ccnt b}" else none
  queueWorkInner t wn
  cover "completion_queued"

/-- `urcu_workqueue_wait_completion(completion)` -/
partial def waitCompletion (t b : Nat) : M Unit := do
  let g ← P.get
  let cn := complName g b
  lab (.wcCall (mt g t) b)
  let rec waitLoop : M Unit := do
    let r ← rmwM t "SUB" s!"{cn}.futex" 1
    labT t .wcDec
    check fun g => if g.s.cfut b != r then some s!"{cn}.futex = {r}, model {g.s.cfut b}" else none
    mbEv t
    let v ← ldM t s!"{cn}.count"
    let cv ← int v
    check fun g => if g.s.ccnt b != cv then some s!"{cn}.count = {cv}, model {g.s.ccnt b}" else none
    labT t .wcLd
    if cv == 0 then pure ()
    else do
      futexWaitLoop t s!"{cn}.futex"
        (fun fv => do
          check fun g => if g.s.cfut b != fv then some s!"{cn}.futex = {fv}, model {g.s.cfut b}" else none
          labT t .wcWaitLd)
        (fun o => labT t (fun m => .wcWaitFx m o)) "waiter"
      waitLoop
  waitLoop
  cover "wait_completion_returned"

/-- `urcu_workqueue_destroy_completion(completion)` -/
def destroyCompletion (t b : Nat) : M Unit := do
  let g ← P.get
  let cn := complName g b
  let r ← rmwM t "SUBR" s!"{cn}.ref" 1
  lab (.dcPut (mt g t) b)
  check fun g => if g.s.cref b != r then some s!"{cn}.ref = {r}, model {g.s.cref b}" else none
  if r == 0 then do
    expectEv t "FREE" [cn]
    check fun g => if g.s.cfreed b != true then some s!"{cn} freed but the model still holds a reference" else none
    cover "completion_freed_by_caller"
  else check fun g => if g.s.cfreed b == true then some s!"{cn} not freed but the model says freed" else none

-- ------------------------------------------------------------------------------------------
-- pause / resume / create_worker / destroy
-- ------------------------------------------------------------------------------------------

partial def pauseWorker (t : Nat) : M Unit := do
  let g ← P.get
  let _ ← bitM t "OR" "wq.flags" (fun o => o ||| g.fPAUSE) (· == g.fPAUSE)
  labT t .pOr
  cbEv t        -- cmm_smp_mb__after_uatomic_or() (x86: compiler barrier)
  wakeWorker t
  let rec waitPaused : M Unit := do
    let f ← ldFlags t
    let g ← P.get
    if hasBit f g.fPAUSED then do labT t .pSee
    else do expectEv t "POLL" []; cover "pause_poll"; waitPaused
  waitPaused
  cover "pause_worker"

partial def resumeWorker (t : Nat) : M Unit := do
  let g ← P.get
  let _ ← bitM t "AND" "wq.flags" (fun o => o - (if hasBit o g.fPAUSE then g.fPAUSE else 0)) (fun o => !hasBit o g.fPAUSE && hasBit o g.fPAUSED)
  labT t .rAnd
  let rec waitResumed : M Unit := do
    let f ← ldFlags t
    let g ← P.get
    if !hasBit f g.fPAUSED then do labT t .rSee
    else do expectEv t "POLL" []; cover "resume_poll"; waitResumed
  waitResumed
  cover "resume_worker"

/-- `urcu_workqueue_create_worker(workqueue)` in the child (after the scenario's FORKSIM) -/
def createWorker (t : Nat) : M Unit := do
  -- workqueue->flags &= ~PAUSED; &= ~PAUSE; tid = 0   (plain, single-threaded)
  modify fun g =>
    let f := (rd g "wq.flags").toNat?.getD 0
    let f := f - (if hasBit f g.fPAUSED then g.fPAUSED else 0)
    let f := f - (if hasBit f g.fPAUSE then g.fPAUSE else 0)
    wr g "wq.flags" (toString f)
  let e ← nextEv t "SPAWN"
  if e.op != "SPAWN" || e.arg 1 != "lib" then P.fail "expected SPAWN of the new worker thread"
  let nt ← num ((e.arg 0).drop 1).toString
  labT t .createWorker
  modify fun g => { g with tidW := some nt }
  cover "create_worker"

def destroyWq (t : Nat) : M Unit := do
  let g ← P.get
  let _ ← bitM t "OR" "wq.flags" (fun o => o ||| g.fSTOP) (· == g.fSTOP)
  labT t .dOr
  wakeWorker t
  let e ← nextEv t "JOIN"
  if e.op != "JOIN" then P.fail "expected pthread_join of the worker thread"
  let jt ← num ((e.arg 0).drop 1).toString
  let g ← P.get
  if g.tidW != some jt then P.fail s!"joins T{jt}, which is not the worker thread"
  -- the next event of this thread comes after the worker has exited
  let empty ← wfcqEmpty t "wq.head" "wq.tail"
  labT t .dJoin
  -- workqueue->flags &= ~STOP (plain)
  modify fun g =>
    let f := (rd g "wq.flags").toNat?.getD 0
    wr g "wq.flags" (toString (f - (if hasBit f g.fSTOP then g.fSTOP else 0)))
  let e ← nextEv t "ASSERT destroy_empty"
  if e.op != "ASSERT" || e.arg 0 != "destroy_empty" then P.fail "expected the emptiness assertion of urcu_workqueue_destroy"
  if (e.arg 1 == "1") != empty then P.fail "assertion outcome differs from cds_wfcq_empty"
  check fun g => if empty != g.s.queue.isEmpty then some s!"cds_wfcq_empty = {empty} at destroy but the model queue is {repr g.s.queue}" else none
  labT t .dChk
  check fun g => if g.s.assertOk != empty then some "model assertOk differs" else none
  let e ← nextEv t "FREE wq"
  if e.op != "FREE" || e.arg 0 != "wq" then P.fail "expected FREE wq"
  check fun g => if e.arg 1 != s!"left={g.s.queue.length}" then some s!"{e.arg 1} works left in the queue, model queue {repr g.s.queue}" else none
  cover (if empty then "destroy_empty" else "destroy_leftover")

-- ------------------------------------------------------------------------------------------
-- user operations (dispatch on the CALL markers of the scenario)
-- ------------------------------------------------------------------------------------------

/-- one user-level operation announced by a `CALL …` marker; returns false on a non-CALL event -/
partial def userOp (t : Nat) (e : Ev) : M Bool := do
  match e.op, e.args with
  | "CALL", ["create", r] => do
      let e1 ← nextEv t "ALLOC wq"
      if e1.op != "ALLOC" || e1.arg 0 != "wq" then P.fail "expected ALLOC wq"
      let g ← P.get
      if (r == "1") != g.c.rt then P.fail "CFG rt and create flags disagree"
      setMem "wq.tail" "&wq.head"; setMem "wq.head" "0"; setMem "wq.futex" "0"; setMem "wq.qlen" "0"
      setMem "wq.flags" (if g.c.rt then toString g.fRT else "0")
      mbEv t
      let e2 ← nextEv t "SPAWN"
      if e2.op != "SPAWN" || e2.arg 1 != "lib" then P.fail "expected SPAWN of the worker thread"
      let nt ← num ((e2.arg 0).drop 1).toString
      modify fun g => { g with tidW := some nt }
      expectEv t "RET" ["create"]; cover "create"; pure true
  | "CALL", ["queue_work", ids] => do
      let id ← num ids
      queueWork t id
      expectEv t "RET" ["queue_work"]; pure true
  | "CALL", ["flush"] => do
      let b ← createCompletion t
      queueCompletion t b
      waitCompletion t b
      destroyCompletion t b
      expectEv t "RET" ["flush"]; cover "flush"; pure true
  | "CALL", ["create_completion"] => do
      let _ ← createCompletion t
      expectEv t "RET" ["create_completion"]; pure true
  | "CALL", ["queue_completion"] => do
      let g ← P.get
      -- the completion this thread created last and has not queued yet
      let b? := (List.range g.s.nextB).reverse.find? fun b => g.s.cowner b == mt g t && g.s.cphase b == .created
      match b? with
      | some b => queueCompletion t b
      | none => P.fail "queue_completion without a created completion"
      expectEv t "RET" ["queue_completion"]; pure true
  | "CALL", ["wait_completion"] => do
      let g ← P.get
      let b? := (List.range g.s.nextB).reverse.find? fun b => g.s.cowner b == mt g t && g.s.cphase b == .queued
      match b? with
      | some b => waitCompletion t b
      | none => P.fail "wait_completion without a queued completion"
      expectEv t "RET" ["wait_completion"]; cover "split_wait_completion"; pure true
  | "CALL", ["destroy_completion"] => do
      let g ← P.get
      let b? := (List.range g.s.nextB).reverse.find? fun b => g.s.cowner b == mt g t && g.s.cphase b == .waited
      match b? with
      | some b => destroyCompletion t b
      | none => P.fail "destroy_completion without a waited completion"
      expectEv t "RET" ["destroy_completion"]; pure true
  | "CALL", ["pause"] => do
      pauseWorker t
      expectEv t "RET" ["pause"]; pure true
  | "CALL", ["resume"] => do
      resumeWorker t
      expectEv t "RET" ["resume"]; pure true
  | "FORKSIM", _ => do
      labT t .fork
      cover "fork"; pure true
  | "CALL", ["create_worker"] => do
      createWorker t
      expectEv t "RET" ["create_worker"]; pure true
  | "CALL", ["destroy"] => do
      destroyWq t
      expectEv t "RET" ["destroy"]; pure true
  | _, _ => pure false

/-- run user operations of trace thread `t` until `stop` (used for work bodies) -/
partial def opsUntil (t : Nat) (stop : Ev → Bool) : M Ev := do
  let e ← nextEv t "CALL … / end marker"
  if stop e then pure e
  else do
    let ok ← userOp t e
    if ok then opsUntil t stop else P.fail s!"unexpected event inside a work function: {e.show}"

-- ------------------------------------------------------------------------------------------
-- workqueue_thread()
-- ------------------------------------------------------------------------------------------

/-- `_urcu_workqueue_wait_complete(work)` running on the worker for the completion work item `wn` -/
def waitComplete (t : Nat) (wn : String) (w : Nat) : M Unit := do
  let g ← P.get
  let b ← match g.s.cw w with
    | some b => pure b
    | none => P.fail s!"{wn} is not a completion work item of the model"
  let cn := complName g b
  let r ← rmwM t "SUBR" s!"{cn}.count" 1
  check fun g => if g.s.batch.head? != some w then some s!"runs {wn}, but the model's private list is {repr g.s.batch}" else none
  lab (.wRunBegin w)
  lab .cSub
  check fun g => if g.s.ccnt b != r then some s!"{cn}.count = {r}, model {g.s.ccnt b}" else none
  if r == 0 then do
    mbEv t
    let v ← ldM t s!"{cn}.futex"
    let fv ← int v
    check fun g => if g.s.cfut b != fv then some s!"{cn}.futex = {fv}, model {g.s.cfut b}" else none
    lab .cLd
    if fv == -1 then do
      stM t s!"{cn}.futex" "0"
      lab .cSt
      lab .cFlush
      let k ← futexWake t s!"{cn}.futex"
      let g ← P.get
      let asleep := g.s.tpc (g.s.cowner b) == .wcAsleep b
      if (k == 1) != asleep then P.fail s!"FUTEX_WAKE {cn}.futex woke {k} threads, model waiter is at {repr (g.s.tpc (g.s.cowner b))}"
      lab .cWake
      cover (if k == 1 then "completion_wake_sleeper" else "completion_wake_nobody")
    else cover "completion_no_sleeper"
  else cover "completion_count_nonzero"
  let r2 ← rmwM t "SUBR" s!"{cn}.ref" 1
  if r2 == 0 then do expectEv t "FREE" [cn]; cover "completion_freed_by_work_item"
  expectEv t "FREE" [wn]
  lab .cPut
  check fun g => if g.s.cref b != r2 then some s!"{cn}.ref = {r2}, model {g.s.cref b}" else none
  check fun g => if g.s.cfreed b != (r2 == 0) then some s!"{cn}: freed = {r2 == 0}, model {g.s.cfreed b}" else none

partial def workerThread (t : Nat) : M Unit := do
  let f0 ← ldFlags t
  let g ← P.get
  let rt := hasBit f0 g.fRT
  lab .wStart
  if !rt then do
    let r ← rmwM t "SUB" "wq.futex" 1
    lab .wDec0
    chkFutex r
    mbEv t
  let rec invokeAll (node : String) (tmpHead tmpTail : String) : M Unit := do
    -- `node` = current work; compute the next one first (…_for_each_blocking_safe)
    let nx ← ldM t (locOfPtr node) 1
    let nxt ← (if nx == "0" then do
        let w ← ldM t tmpTail
        if w == node then pure "0" else syncNext t (locOfPtr node) 0
      else pure nx)
    let nm := locOfPtr node
    let w ← match workOfNode nm with
      | some w => pure w
      | none => P.fail s!"unknown node {node} in the private list"
    if nm.startsWith "cwork" then waitComplete t nm w
    else do
      let e ← nextEv t "RUN id"
      if e.op != "RUN" then P.fail s!"expected the work function of {node}"
      if s!"&w{e.arg 0}" != node then P.fail s!"work function of node {node} reports w{e.arg 0}"
      check fun g => if g.s.batch.head? != some w then some s!"runs w{w}, but the model's private list is {repr g.s.batch}" else none
      lab (.wRunBegin w)
      let _ ← opsUntil t (fun e => e.op == "RAN" && e.args == [toString w])
      lab .wRunEnd
      cover "work_run"
    if nxt == "0" then pure () else invokeAll nxt tmpHead tmpTail
  let rec mainLoop : M Unit := do
    let f ← ldFlags t
    lab .wTop
    let g ← P.get
    if hasBit f g.fPAUSE then do
      cbEv t      -- cmm_smp_mb__before_uatomic_or()
      let _ ← bitM t "OR" "wq.flags" (fun o => o ||| g.fPAUSED) (· == g.fPAUSED)
      lab .wPause
      let rec spin : M Unit := do
        let f ← ldFlags t
        let g ← P.get
        if hasBit f g.fPAUSE then do expectEv t "POLL" []; cover "worker_paused_poll"; spin
        else lab .wSeeResume
      spin
      let _ ← bitM t "AND" "wq.flags" (fun o => o - (if hasBit o g.fPAUSED then g.fPAUSED else 0)) (fun o => !hasBit o g.fPAUSED && hasBit o g.fPAUSE)
      lab .wUnpause
      cbEv t      -- cmm_smp_mb__after_uatomic_and()
      cover "worker_paused_and_resumed"
    -- cds_wfcq_init(&cbs_tmp); __cds_wfcq_splice_blocking(&cbs_tmp, &workqueue->cbs)
    let empty ← wfcqEmpty t "wq.head" "wq.tail"
    if empty then do
      check fun g => if !g.s.queue.isEmpty then some s!"splice found the queue empty but the model queue is {repr g.s.queue}" else none
      lab .wSplice
      cover "splice_empty"
    else do
      let rec takeHead (attempt : Nat) : M String := do
        let hd ← xchgM t "wq.head" "0"
        if hd != "0" then pure hd
        else do
          let w ← ldM t "wq.tail" 1
          if w == "&wq.head" then P.fail "queue became empty under the only dequeuer"
          let a ← busyWait t attempt
          takeHead a
      let hd ← takeHead 0
      legacyMb t
      let tl ← xchgM t "wq.tail" "&wq.head"
      check fun g =>
        let want := match g.s.queue.getLast? with
          | some id => s!"&{nodeOfWork id}"
          | none => "?"
        if want != tl then some s!"splice: last node {tl}, model queue ends with {want}" else none
      check fun g =>
        let want := match g.s.queue.head? with
          | some id => s!"&{nodeOfWork id}"
          | none => "?"
        if want != hd then some s!"splice: first node {hd}, model queue begins with {want}" else none
      lab .wSplice
      -- append to the private queue on the worker's stack
      let e ← nextEv t "XCHG <tmp tail>"
      if e.op != "XCHG" || !(e.arg 0).startsWith s!"stack{t}+" || e.arg 1 != tl || !(e.arg 2).startsWith s!"&stack{t}+" then
        P.fail s!"expected XCHG <private tail> {tl} <&private head>"
      let tmpTail := e.arg 0
      let tmpHead := locOfPtr (e.arg 2)
      setMem tmpTail tl
      stM t tmpHead hd 3
      cover "splice_batch"
      -- __cds_wfcq_for_each_blocking_safe
      let v ← ldM t tmpHead 1
      if v == "0" then P.fail "private queue empty after a non-empty splice"
      let first ← syncNext t tmpHead 0
      invokeAll first tmpHead tmpTail
      let g ← P.get
      let cnt := g.s.cnt
      lab .wInvDone
      let r ← rmwM t "SUB" "wq.qlen" cnt
      lab .wSub
      chkQlen r
    let f ← ldFlags t
    lab .wStopChk
    let g ← P.get
    if hasBit f g.fSTOP then cover "worker_stop_seen"
    else do
      if !rt then do
        let empty ← wfcqEmpty t "wq.head" "wq.tail"
        check fun g => if empty != g.s.queue.isEmpty then some s!"cds_wfcq_empty = {empty} but the model queue is {repr g.s.queue}" else none
        lab .wEmptyChk
        if empty then do
          futexWaitLoop t "wq.futex"
            (fun fv => do chkFutex fv; lab .wWaitLd)
            (fun o => lab (.wWaitFx o)) "worker"
          let r ← rmwM t "SUB" "wq.futex" 1
          lab .wDec
          chkFutex r
          mbEv t
          cover "worker_wait_path"
        else cover "worker_queue_nonempty"
      else do
        let empty ← wfcqEmpty t "wq.head" "wq.tail"
        if empty then do expectEv t "POLL" []; cover "worker_poll_rt"
        else cover "worker_rt_nonempty"
        lab .wRtChk
      mainLoop
  mainLoop
  if !rt then do
    mbEv t
    stM t "wq.futex" "0"
    lab .wExitSt
  expectEv t "THREAD_EXIT" []
  check fun g => if g.s.wpc != .dead then some s!"worker thread exits but the model's worker is at {repr g.s.wpc}" else none
  cover "worker_exit"

-- ------------------------------------------------------------------------------------------
-- thread top level
-- ------------------------------------------------------------------------------------------

partial def thread (t : Nat) : M Unit := do
  let e ← nextEv t "CALL/…"
  let ok ← userOp t e
  if ok then thread t
  else match e.op with
    | "QUEUER" | "PAUSER" | "SPAWN" | "FINAL" => thread t
    | "THREAD_EXIT" => pure ()
    | _ => P.fail s!"unexpected event outside an API call: {e.show}"

def cfgLine (g : G) (ws : List String) : G :=
  ws.foldl (fun g w =>
    match w.splitOn "=" with
    | ["rt", "1"] => { g with c := { g.c with rt := true } }
    | ["legacymb", "0"] => { g with legacyMb := false }
    | ["F_RT", n] => { g with fRT := n.toNat?.getD 0 }
    | ["F_STOP", n] => { g with fSTOP := n.toNat?.getD 0 }
    | ["F_PAUSE", n] => { g with fPAUSE := n.toNat?.getD 0 }
    | ["F_PAUSED", n] => { g with fPAUSED := n.toNat?.getD 0 }
    | _ => g) g

/-- the flag bits of `workqueue.h` must be four distinct single bits -/
def flagsOk (g : G) : Bool :=
  let fs := [g.fRT, g.fSTOP, g.fPAUSE, g.fPAUSED]
  fs.all (fun f => [1, 2, 4, 8, 16, 32, 64, 128].contains f) && fs.eraseDups.length == 4

end WqDrv

open WqDrv in
def main : IO UInt32 := do
  let step (st : Run G) (ws : List String) : Except String (Run G) :=
    match ws with
    | "CFG" :: rest =>
      let g := cfgLine st.g rest
      if flagsOk g then .ok { st with g := g } else .error "URCU_WORKQUEUE_* flags are not four distinct single bits"
    | _ => match parseEv ws with
      | some e =>
        feed (fun t g => if g.tidW == some t then (workerThread t).run else (thread t).run) st e
      | none => .error "unparsable line"
  loop (← IO.getStdin) step (fun st => showCov st.g.cov) ({ g := {} } : Run G) 0
