import Driver.Prog
import UrcuVerif.Defer.ConcModel
import UrcuVerif.Defer.ConcWake
import UrcuVerif.Gen.Constants
/-!
Trace checker for the concurrent part of C13: `src/urcu-defer-impl.h` inside the real `src/urcu.c`
under the cooperative runtime (`harness/scen/defer_conc.c`).

L1: every thread's event stream must be exactly what the transliterated C functions below produce
(same accesses, locations, values, barriers, locks, futex calls, in the same order); the internals
of `synchronize_rcu()`, `rcu_read_lock/unlock`, `rcu_(un)register_thread` are bracketed by CALL/RET
markers and skipped (they belong to C01/C02's driver).
L2: at the accesses that matter the labels of the two PROVEN models are replayed on their executable
`step` (flush-immediately mode: the harness run is sequentially consistent) and must be enabled,
with the values the model predicts:
  * `UrcuVerif.DeferConc` – ring / store buffer / runner / GpSpec model (owner ids = thread ids);
  * `UrcuVerif.DeferWake` – futex handshake (`defer_thread_stop` is pseudo-queue `STOPQ`).
-/
open Driver UrcuVerif

namespace DcDrv

def NT : Nat := 64          -- thread ids are < VRT_MAXT = 64
def STOPQ : Nat := 63       -- pseudo-queue of the handshake model standing for `defer_thread_stop`
def two64 : Nat := 2^64

structure G where
  ca : DeferConc.Cfg := DeferConc.Cfg.real NT
  a : DeferConc.State := DeferConc.init (DeferConc.Cfg.real NT)
  cw : DeferWake.Cfg := { n := NT }
  w : DeferWake.State := DeferWake.init
  registry : List Nat := []
  dtid : Option Nat := none
  everReg : List Nat := []
  headOff : Nat := 0
  tailOff : Nat := 16
  nsteps : Nat := 0
  cov : List (String × Nat) := []

abbrev M := P G

/-- flatten the `upd` chains of the per-thread maps that `step` reads, so that look-ups stay cheap -/
def flatArr {α} (f : Nat → α) : Array α := (List.range NT).toArray.map f
def ofArr {α} (a : Array α) (d : α) (t : Nat) : α := if h : t < a.size then a[t] else d
/-- the tables are built here (strictly), the fields become look-ups in them -/
def flatA (s : DeferConc.State) : DeferConc.State :=
  let a_opc := flatArr s.opc; let d_opc := s.opc NT
  let a_af := flatArr s.af; let d_af := s.af NT
  let a_ap := flatArr s.ap; let d_ap := s.ap NT
  let a_pendW := flatArr s.pendW; let d_pendW := s.pendW NT
  let a_otl := flatArr s.otl; let d_otl := s.otl NT
  let a_lastIn := flatArr s.lastIn; let d_lastIn := s.lastIn NT
  let a_head := flatArr s.head; let d_head := s.head NT
  let a_bq := flatArr s.bq; let d_bq := s.bq NT
  let a_bh := flatArr s.bh; let d_bh := s.bh NT
  let a_mhead := flatArr s.mhead; let d_mhead := s.mhead NT
  let a_tail := flatArr s.tail; let d_tail := s.tail NT
  let a_mq := flatArr s.mq; let d_mq := s.mq NT
  let a_lastOut := flatArr s.lastOut; let d_lastOut := s.lastOut NT
  let a_snap := flatArr s.snap; let d_snap := s.snap NT
  let a_cs := flatArr s.cs; let d_cs := s.cs NT
  let a_wlen := flatArr s.wlen; let d_wlen := s.wlen NT
  let a_cons := flatArr s.cons; let d_cons := s.cons NT
  let a_queued := flatArr s.queued; let d_queued := s.queued NT
  let a_invoked := flatArr s.invoked; let d_invoked := s.invoked NT
  { s with opc := ofArr a_opc d_opc, af := ofArr a_af d_af, ap := ofArr a_ap d_ap, pendW := ofArr a_pendW d_pendW, otl := ofArr a_otl d_otl, lastIn := ofArr a_lastIn d_lastIn, head := ofArr a_head d_head, bq := ofArr a_bq d_bq, bh := ofArr a_bh d_bh, mhead := ofArr a_mhead d_mhead, tail := ofArr a_tail d_tail, mq := ofArr a_mq d_mq, lastOut := ofArr a_lastOut d_lastOut, snap := ofArr a_snap d_snap, cs := ofArr a_cs d_cs, wlen := ofArr a_wlen d_wlen, cons := ofArr a_cons d_cons, queued := ofArr a_queued d_queued, invoked := ofArr a_invoked d_invoked }

def flatW (s : DeferWake.State) : DeferWake.State :=
  let a_scanned := flatArr s.scanned; let d_scanned := s.scanned NT
  let a_kpc := flatArr s.kpc; let d_kpc := s.kpc NT
  let a_hd := flatArr s.hd; let d_hd := s.hd NT
  let a_mh := flatArr s.mh; let d_mh := s.mh NT
  let a_tl := flatArr s.tl; let d_tl := s.tl NT
  let a_bhd := flatArr s.bhd; let d_bhd := s.bhd NT
  let a_bfut := flatArr s.bfut; let d_bfut := s.bfut NT
  let a_r := flatArr s.r; let d_r := s.r NT
  { s with scanned := ofArr a_scanned d_scanned, kpc := ofArr a_kpc d_kpc, hd := ofArr a_hd d_hd, mh := ofArr a_mh d_mh, tl := ofArr a_tl d_tl, bhd := ofArr a_bhd d_bhd, bfut := ofArr a_bfut d_bfut, r := ofArr a_r d_r }

def labA (l : DeferConc.Label) : M Unit := P.act fun g =>
  match DeferConc.step g.ca g.a l with
  | some s' =>
    let n := g.nsteps + 1
    .ok { g with a := if n % 16 == 0 then flatA s' else s', nsteps := n }
  | none => .error s!"ring model: step {repr l} not enabled (lock={repr g.a.lock} rpc={repr g.a.rpc} rit={repr g.a.rit} todo={g.a.todo})"

def labW (l : DeferWake.Label) : M Unit := P.act fun g =>
  match DeferWake.step g.cw g.w l with
  | some s' =>
    let n := g.nsteps + 1
    .ok { g with w := if n % 16 == 0 then flatW s' else s', nsteps := n }
  | none => .error s!"handshake model: step {repr l} not enabled (dpc={repr g.w.dpc} futex={g.w.futex})"

def cover (k : String) : M Unit := P.act fun g => .ok { g with cov := bump g.cov k }
def modify (f : G → G) : M Unit := P.act fun g => .ok (f g)

def num (s : String) : M Nat := match natOf s with
  | .ok n => pure n
  | .error e => P.fail e
def int (s : String) : M Int := match intOf s with
  | .ok n => pure n
  | .error e => P.fail e

/-- symbolic word token ↦ 64-bit word.  "&cb<o>_<k>[|fl]" are the callback functions of owner o
(k = 2: at an odd address), numbers are arguments; "-2" is the mark -/
def wordOf (tok : String) : Except String (BitVec 64) :=
  if tok.startsWith "&cb" then
    let body := (tok.drop 3).toString
    let (nm, fl) := match body.splitOn "|" with
      | [a, b] => (a, b.toNat?.getD 0)
      | _ => (body, 0)
    let (nm, off) := match nm.splitOn "+" with
      | [a, b] => (a, b.toNat?.getD 0)
      | _ => (nm, 0)
    match nm.splitOn "_" with
    | [o, k] =>
      match o.toNat?, k.toNat? with
      | some o, some k => .ok (BitVec.ofNat 64 (0x7f0000000000 + (o * 4 + k) * 16 + off + fl))
      | _, _ => .error s!"bad function token {tok}"
    | _ => .error s!"bad function token {tok}"
  else if tok.startsWith "&" then .error s!"unexpected pointer token {tok}"
  else if tok.startsWith "-" then
    match (tok.drop 1).toString.toNat? with
    | some n => .ok (BitVec.ofNat 64 (two64 - n))
    | none => .error s!"bad word {tok}"
  else match natOf tok with
    | .ok n => .ok (BitVec.ofNat 64 n)
    | .error e => .error e

def word (tok : String) : M (BitVec 64) := match wordOf tok with
  | .ok w => pure w
  | .error e => P.fail e

def ld (loc : String) : M String := do
  let a ← P.evAt "LD" loc
  match a with
  | [v, _] => pure v
  | _ => P.fail "bad LD"

def st (loc : String) : M String := do
  let a ← P.evAt "ST" loc
  match a with
  | [v, _] => pure v
  | _ => P.fail "bad ST"

def mbEv : M Unit := P.expect "MB" []

def fieldLoc (t off : Nat) : String := if off == 0 then s!"dq{t}" else s!"dq{t}+{off}"
def headLoc (g : G) (t : Nat) : String := fieldLoc t g.headOff
def tailLoc (g : G) (t : Nat) : String := fieldLoc t g.tailOff
def slotLoc (g : G) (t i : Nat) : String :=
  let off := (i % g.ca.size) * 8
  if off == 0 then s!"q{t}" else s!"q{t}+{off}"

/-- consume this thread's events up to and including `RET name` (opaque library call) -/
partial def skipTo (name : String) : M (List String) := do
  let e ← P.ev s!"… RET {name}" fun e => some e
  if e.op == "RET" && e.arg 0 == name then pure (e.args.drop 1) else skipTo name

/-- `synchronize_rcu()` of the mutex holder: abstract GpSpec step of the ring model -/
def syncRcu : M Unit := do
  P.expect "CALL" ["sync"]
  labA .rGpCall
  let _ ← skipTo "sync"
  labA .rGp
  cover "gp"

-- ------------------------------------------------------------------------------------------
-- wake_up_defer / futex
-- ------------------------------------------------------------------------------------------

def futexWake : M Unit := do
  let r ← P.ev "FUTEX_WAKE dfutex n=1 -> k" fun e =>
    if e.op == "FUTEX_WAKE" && e.arg 0 == "dfutex" && e.arg 1 == "n=1" && e.arg 2 == "->" then some (e.arg 3) else none
  if r == "ENOSYS" then do mbEv; cover "futex_wake_ENOSYS"

/-- `wake_up_defer()` by handshake-model owner `i` -/
def wakeUpDefer (i : Nat) : M Unit := do
  let v ← ld "dfutex"
  let f ← int v
  let g ← P.get
  if f != g.w.futex then P.fail s!"LD dfutex {f} but the handshake model has {g.w.futex}"
  labW (.k1 i)
  if f == -1 then do
    let v ← st "dfutex"
    if v != "0" then P.fail s!"ST dfutex {v}, expected 0"
    labW (.k2Wake i); labW (.flushFut i)
    futexWake
    let g ← P.get
    if g.w.dpc == .dsleep then cover "wake_sleeping_defer_thread" else cover "wake_nobody_asleep"
    labW (.k3 i)
  else do
    labW (.k2Skip i)
    cover "wake_not_needed"

-- ------------------------------------------------------------------------------------------
-- rcu_defer_barrier_queue
-- ------------------------------------------------------------------------------------------

/-- loop of `rcu_defer_barrier_queue(queue t, snapshot)` + `mb; store tail` -/
partial def barrierQueue (t : Nat) : M Unit := do
  labA .rBegin
  let g ← P.get
  if g.a.cur != t then P.fail s!"model runs queue {g.a.cur}, code runs queue {t}"
  let rec oneLoad : M Unit := do
    let g ← P.get
    let v ← ld (slotLoc g t g.a.ri)
    let wv ← word v
    let g ← P.get
    let mw := DeferConc.rget g.ca (g.a.mq t) g.a.ri
    if wv != mw then P.fail s!"LD q{t}[{g.a.ri % g.ca.size}] = {v} but the model's memory holds {mw.toNat}"
    labA .rLd
  let rec iter (n : Nat) : M Unit := do
    let g ← P.get
    if g.a.ri == g.a.snap t then pure () else do
      P.expect "RMB" []
      oneLoad
      let rec more : M Unit := do
        let g ← P.get
        match g.a.rit with
        | .ready f p => do
          let a ← P.ev "INVK f p" fun e => if e.op == "INVK" then some e.args else none
          match a with
          | [ft, pt] =>
            let fw ← word ft; let pw ← word pt
            if fw != f || pw != p then P.fail s!"invocation ({ft}, {pt}) but the model decodes ({f.toNat}, {p.toNat})"
            labA .rInvoke
            cover "invoke"
          | _ => P.fail "bad INVK"
        | .top => P.fail "internal: iteration without a load"
        | _ => do oneLoad; more
      more
      iter (n+1)
  iter 0
  mbEv
  let g ← P.get
  let v ← st (tailLoc g t)
  let tv ← num v
  let g ← P.get
  if tv != g.a.ri % two64 then P.fail s!"ST tail {tv} but the model's loop ended at {g.a.ri}"
  labA .rEnd; labA .flushT
  let g ← P.get
  labW (.drain t (g.a.invoked t).length)
  cover "tail_store"

/-- `rcu_defer_barrier()` by thread `who` -/
def deferBarrier (who : Nat) : M Unit := do
  let g ← P.get
  if g.registry.isEmpty then do cover "barrier_empty_registry"; pure ()
  else do
    P.expect "LOCK" ["defer_mutex"]
    labA (.rLock who .barrier)
    let g ← P.get
    let reg := g.registry
    let rec snaps : List Nat → M Unit
      | [] => pure ()
      | t :: ts => do
        let g ← P.get
        let v ← ld (headLoc g t)
        let h ← num v
        let g ← P.get
        if h != g.a.mhead t % two64 then P.fail s!"LD head of queue {t} = {h} but the model's memory has {g.a.mhead t}"
        labA (.rSnap t)
        snaps ts
    snaps reg
    let g ← P.get
    if reg.all fun t => g.a.snap t == g.a.tail t then do
      P.expect "UNLOCK" ["defer_mutex"]
      labA .rSkip
      cover "barrier_nothing_queued"
    else do
      syncRcu
      let rec runs : List Nat → M Unit
        | [] => pure ()
        | t :: ts => do barrierQueue t; runs ts
      runs reg
      P.expect "UNLOCK" ["defer_mutex"]
      labA .rUnlock
      cover "barrier_run"

/-- `_rcu_defer_barrier_thread()` with `rcu_defer_mutex` held by `t` (own pass of the ring model) -/
def ownPass (t : Nat) : M Unit := do
  let g ← P.get
  if g.a.snap t == g.a.tail t then do
    P.expect "UNLOCK" ["defer_mutex"]
    labA .rSkip
    cover "own_flush_nothing_queued"
  else do
    syncRcu
    barrierQueue t
    P.expect "UNLOCK" ["defer_mutex"]
    labA .rUnlock
    cover "own_flush_run"

/-- `rcu_defer_barrier_thread()` -/
def barrierThread (t : Nat) : M Unit := do
  P.expect "LOCK" ["defer_mutex"]
  labA (.rLock t .own)
  ownPass t

-- ------------------------------------------------------------------------------------------
-- _defer_rcu
-- ------------------------------------------------------------------------------------------

def storeWords (t : Nat) : M Unit := do
  let rec go (n : Nat) : M Unit := do
    let g ← P.get
    match g.a.pendW t with
    | [] => pure ()
    | w :: _ => do
      let v ← st (slotLoc g t (g.a.wlen t))
      let wv ← word v
      if wv != w then P.fail s!"ST q{t}[{g.a.wlen t % g.ca.size}] := {v} but the model encodes {w.toNat}"
      labA (.oStQ t); labA (.flushQ t)
      match n with
      | 0 => P.fail "internal: entry longer than 3 words"
      | n+1 => go n
  go 3

def deferRcu (t : Nat) (ft pt : String) : M Unit := do
  let f ← word ft; let p ← word pt
  let g ← P.get
  let v ← ld (tailLoc g t)
  let tv ← num v
  let g ← P.get
  if tv != g.a.tail t % two64 then P.fail s!"LD tail of queue {t} = {tv} but the model's memory has {g.a.tail t}"
  labA (.oCall t f p)
  let g ← P.get
  if g.a.abort then P.fail "model: urcu_posix_assert(head - tail <= DEFER_QUEUE_SIZE) fires"
  if g.a.opc t == .full then do
    cover "threshold_flush"
    barrierThread t
    let g ← P.get
    let v ← ld (tailLoc g t)
    let tv ← num v
    let g ← P.get
    if tv != g.a.tail t % two64 then P.fail s!"LD tail (assert) = {tv} but the model's memory has {g.a.tail t}"
    labA (.oPostFlush t)
    let g ← P.get
    if g.a.abort then P.fail "model: urcu_posix_assert(head - tail == 0) after the flush fires"
  let g ← P.get
  let nw := (g.a.pendW t).length
  cover s!"entry_slots_{nw}"
  if nw > 1 && (g.a.wlen t % g.ca.size) + nw > g.ca.size then cover "entry_across_ring_wrap"
  if g.a.wlen t + nw - g.a.tail t == g.ca.size then cover "occupancy_eq_size"
  storeWords t
  -- cmm_smp_wmb(): store-store order is kept by x86-TSO itself and the neighbouring accesses are volatile, so the
  -- fence is a hardware no-op here: accepted when present, when stronger (MB), or when absent (Tso: extra/missing
  -- store-store fences do not change the set of runs); the full fence AFTER the head store is what the proof needs
  let g ← P.get
  let v? ← P.evE fun _ e =>
    if (e.op == "WMB" || e.op == "MB") && e.args == [] then .ok (none : Option String)
    else if e.op == "ST" && e.arg 0 == headLoc g t then .ok (some (e.arg 1))
    else .error s!"expected WMB (or the store of head {headLoc g t})"
  let v ← match v? with
    | some v => pure v
    | none => st (headLoc g t)
  let h ← num v
  let g ← P.get
  if h != g.a.wlen t % two64 then P.fail s!"ST head {h} but the model's head is {g.a.wlen t}"
  labA (.oStHead t); labA (.flushH t)
  labW (.k0 t); labW (.flushHd t)
  P.ev "MB [cmm_smp_mb before wake_up_defer: head store before futex load]" fun e =>
    if e.op == "MB" && e.args == [] then some () else none
  labA (.oMb t)
  labW (.kf t)
  wakeUpDefer t

-- ------------------------------------------------------------------------------------------
-- register / unregister
-- ------------------------------------------------------------------------------------------

def registerThread (t : Nat) : M Unit := do
  P.expect "LOCK" ["thread_mutex"]
  P.expect "LOCK" ["defer_mutex"]
  let g ← P.get
  let wasEmpty := g.registry.isEmpty
  modify fun g => { g with registry := t :: g.registry }
  P.expect "UNLOCK" ["defer_mutex"]
  -- new ring (malloc): arbitrary content
  let g ← P.get
  labA (.oRealloc t (Array.replicate g.ca.size 0xdead#64))
  if g.everReg.contains t then cover "re_register"
  modify fun g => { g with everReg := t :: g.everReg }
  if wasEmpty then do
    let d ← P.ev "SPAWN Tn lib" fun e =>
      if e.op == "SPAWN" && e.arg 1 == "lib" then ((e.arg 0).drop 1).toString.toNat? else none
    modify fun g => { g with dtid := some d }
    cover "start_defer_thread"
  P.expect "UNLOCK" ["thread_mutex"]

def unregisterThread (t : Nat) : M Unit := do
  P.expect "LOCK" ["thread_mutex"]
  P.expect "LOCK" ["defer_mutex"]
  modify fun g => { g with registry := g.registry.filter (· != t) }
  labA (.rLock t .own)
  ownPass t
  let g ← P.get
  if g.registry.isEmpty then do
    -- stop_defer_thread(): the stop flag is pseudo-queue STOPQ of the handshake model
    let v ← st "dstop"
    if v != "1" then P.fail "ST dstop 1 expected"
    labW (.k0 STOPQ); labW (.flushHd STOPQ)
    P.ev "MB [store defer_thread_stop before testing futex]" fun e => if e.op == "MB" && e.args == [] then some () else none
    labW (.kf STOPQ)
    wakeUpDefer STOPQ
    let g ← P.get
    match g.dtid with
    | none => P.fail "stop_defer_thread without a defer thread"
    | some d => P.expect "JOIN" [s!"T{d}"]
    let v ← st "dstop"
    if v != "0" then P.fail "ST dstop 0 expected"
    let g ← P.get
    labW (.drain STOPQ (g.w.mh STOPQ))
    let v ← ld "dfutex"
    if v != "0" then P.fail s!"defer thread exited with futex {v} (assert)"
    modify fun g => { g with dtid := none }
    cover "stop_defer_thread"
  P.expect "UNLOCK" ["thread_mutex"]

-- ------------------------------------------------------------------------------------------
-- the defer thread
-- ------------------------------------------------------------------------------------------

/-- the handshake model scans every queue slot; queues of unregistered threads are empty
(unregister flushes: C13 op-level) and are "scanned" without an event -/
def virtualScan : M Unit := do
  let rec go : Nat → M Unit
    | 0 => pure ()
    | n+1 => do
      go n
      let g ← P.get
      if !(g.w.scanned n) then do
        if g.w.mh n != g.w.tl n then P.fail s!"handshake model: queue {n} is not scanned by the code but is non-empty"
        labW (.dScanQ n)
  go NT

partial def compatWait : M Unit := do
  mbEv
  let rec loop : M Unit := do
    let v ← ld "dfutex"
    if v == "-1" then do P.expect "POLL" []; loop else pure ()
  loop

/-- `wait_defer()`; returns false when the thread exits -/
partial def waitDefer : M Bool := do
  let a ← P.evAt "SUB" "dfutex"
  let g ← P.get
  match a with
  | [d, r, _] =>
    let r ← int r
    if d != "1" || r != g.w.futex - 1 then P.fail s!"uatomic_dec(dfutex): got {r}, handshake model {g.w.futex - 1}"
  | _ => P.fail "bad SUB"
  labW .dDec
  P.ev "MB [write futex before read queue]" fun e => if e.op == "MB" && e.args == [] then some () else none
  let v ← ld "dstop"
  let g ← P.get
  let stopM := g.w.mh STOPQ != g.w.tl STOPQ
  if (v == "1") != stopM then P.fail s!"LD dstop {v} but the handshake model's stop flag is {stopM}"
  labW (.dScanQ STOPQ)
  if v == "1" then do
    labW .dScanEnd
    let v ← st "dfutex"
    if v != "0" then P.fail "ST dfutex 0 expected"
    labW .dStore0; labW .flushD
    cover "defer_thread_exit"
    pure false
  else do
    -- rcu_defer_num_callbacks()
    P.expect "LOCK" ["defer_mutex"]
    let g ← P.get
    let rec scan : List Nat → Bool → M Bool
      | [], acc => pure acc
      | t :: ts, acc => do
        let g ← P.get
        let v ← ld (headLoc g t)
        let h ← num v
        let g ← P.get
        if h != g.a.mhead t % two64 then P.fail s!"LD head of queue {t} = {h} but the ring model's memory has {g.a.mhead t}"
        let ne := g.a.mhead t != g.a.tail t
        if ne != (g.w.mh t != g.w.tl t) then P.fail s!"queue {t}: ring model non-empty={ne}, handshake model disagrees"
        labW (.dScanQ t)
        scan ts (acc || ne)
    let some_ ← scan g.registry false
    P.expect "UNLOCK" ["defer_mutex"]
    -- the scan is over when the mutex is released (other runners may store tails from here on)
    if !some_ then virtualScan
    labW .dScanEnd
    if some_ then do
      P.ev "MB [read queue before write futex]" fun e => if e.op == "MB" && e.args == [] then some () else none
      let v ← st "dfutex"
      if v != "0" then P.fail "ST dfutex 0 expected"
      labW .dStore0; labW .flushD
      cover "wait_defer_callbacks_queued"
      pure true
    else do
      P.expect "RMB" []
      let rec loop : M Unit := do
        let v ← ld "dfutex"
        let f ← int v
        let g ← P.get
        if f != g.w.futex then P.fail s!"LD dfutex {f} but the handshake model has {g.w.futex}"
        labW .dLoad
        if f == -1 then do
          let o ← P.ev "FUTEX_WAIT dfutex val=-1 -> …" fun e =>
            if e.op == "FUTEX_WAIT" && e.arg 0 == "dfutex" && e.arg 1 == "val=-1" && e.arg 2 == "->" then some (e.arg 3) else none
          cover s!"defer_futex_{o}"
          if o == "SLEEP" then do
            labW .dWaitSleep
            P.expect "FUTEX_WOKEN" ["dfutex"]
            let g ← P.get
            if g.w.dpc != .dwloop then P.fail "FUTEX_WOKEN but no owner of the handshake model has called FUTEX_WAKE"
            loop
          else if o == "SPURIOUS" then do labW .dWaitIntr; loop
          else if o == "EINTR" then do labW .dWaitIntr; loop
          else if o == "EAGAIN" then do labW .dWaitEagain; pure ()
          else if o == "ENOSYS" then do compatWait; labW .dWaitIntr; loop
          else P.fail s!"unknown futex outcome {o}"
        else pure ()
      loop
      pure true

partial def thrDefer (t : Nat) : M Unit := do
  let go ← waitDefer
  if go then do
    P.expect "POLL" []
    deferBarrier t
    cover "defer_thread_pass"
    thrDefer t
  else P.expect "THREAD_EXIT" []

-- ------------------------------------------------------------------------------------------
-- application threads
-- ------------------------------------------------------------------------------------------

partial def thread (t : Nat) : M Unit := do
  let e ← P.ev "CALL/…" fun e => some e
  match e.op, e.args with
  | "CALL", ["dreg"] => do registerThread t; P.expect "RET" ["dreg"]; thread t
  | "CALL", ["dunreg"] => do unregisterThread t; P.expect "RET" ["dunreg"]; thread t
  | "CALL", ["defer", f, p] => do deferRcu t f p; P.expect "RET" ["defer"]; thread t
  | "CALL", ["dbt"] => do barrierThread t; P.expect "RET" ["dbt"]; cover "barrier_thread_call"; thread t
  | "CALL", ["dbar"] => do deferBarrier t; P.expect "RET" ["dbar"]; cover "barrier_by_thread"; thread t
  | "CALL", ["lock"] => do
      let a ← skipTo "lock"
      match a with
      | [r] => let r ← num r; labA (.rdLock r); cover "reader_lock"
      | _ => P.fail "RET lock without reader index"
      thread t
  | "CALL", ["unlock", r] => do
      let r ← num r; labA (.rdUnlock r)
      let _ ← skipTo "unlock"; thread t
  | "CALL", ["rreg"] => do let _ ← skipTo "rreg"; thread t
  | "CALL", ["runreg"] => do let _ ← skipTo "runreg"; thread t
  | "OWNER", _ => thread t
  | "READER", _ => thread t
  | "SPAWN", _ => thread t
  | "THREAD_EXIT", _ => pure ()
  | _, _ => P.fail s!"unexpected event outside an API call: {e.show}"

def cfgLine (g : G) (ws : List String) : Except String G :=
  ws.foldlM (fun g w =>
    match w.splitOn "=" with
    | ["size", n] =>
      if n.toNat? == some Gen.DEFER_QUEUE_SIZE then .ok g
      else .error s!"DEFER_QUEUE_SIZE of the harness ({n}) differs from the generated constant {Gen.DEFER_QUEUE_SIZE}"
    | ["mask", n] =>
      if n.toNat? == some Gen.DEFER_QUEUE_MASK then .ok g else .error s!"DEFER_QUEUE_MASK {n} differs from the generated constant"
    | ["head_off", n] => .ok { g with headOff := n.toNat?.getD 0 }
    | ["tail_off", n] => .ok { g with tailOff := n.toNat?.getD 16 }
    | _ => .ok g) g

def summary (g : G) : String :=
  let inv := (List.range 8).foldl (fun acc t => acc + (g.a.invoked t).length) 0
  let qd := (List.range 8).foldl (fun acc t => acc + (g.a.queued t).length) 0
  s!"{showCov g.cov} calls_queued={qd} calls_invoked={inv}"

end DcDrv

open DcDrv in
def main : IO UInt32 := do
  let f (r : Run G) (ws : List String) : Except String (Run G) :=
    match ws with
    | "CFG" :: rest => do let g ← cfgLine r.g rest; pure { r with g := g }
    | _ => match parseEv ws with
      | some e =>
        let fresh := fun (t : Nat) (g : G) => if g.dtid == some t then (thrDefer t).run else (thread t).run
        feed fresh r e
      | none => .error "unparsable line"
  loop (← IO.getStdin) f (fun r => summary r.g) ({ g := {} } : Run G) 0
