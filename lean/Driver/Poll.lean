import Driver.Common
import UrcuVerif.Poll.Model
/-! Trace checker for C14: replays the harness' operation sequence on `Poll.step`. -/
open UrcuVerif.Poll Driver

structure D where
  n : Nat := 0
  s : State := init
  cov : List (String × Nat) := []

def expect (d : D) (op : Op) (want : Out) (tag : String) : Except String D :=
  match step d.n d.s op with
  | none => .error s!"operation not enabled in the model (cur={d.s.cur} latest={d.s.latest} active={d.s.active} pending={d.s.pending})"
  | some (s', out) =>
    if out = want then .ok { d with s := s', cov := bump d.cov tag }
    else .error s!"model returns {repr out}, implementation {repr want}"

def drive (d : D) : List String → Except String D
  | ["n", k] => do let k ← natOf k; pure { d with n := k }
  | ["start", g, q] => do
      let g ← natOf g; let q ← boolOf q
      expect d .startPoll (.handle g q) (if q then "start_idle" else "start_active")
  | ["poll", g, r] => do
      let g ← natOf g; let r ← boolOf r
      expect d (.poll g) (.reached r) (if r then "poll_true" else "poll_false")
  | ["worker", r] => do
      let r ← boolOf r
      expect d .worker (.requeued r) (if r then "worker_requeue" else "worker_idle")
  | ["gps"] => expect d .gpStart .unit "gps"
  | ["gpe"] => expect d .gpEnd .unit "gpe"
  | ["lock", i] => do let i ← natOf i; expect d (.rlock i) .unit "lock"
  | ["unlock", i] => do let i ← natOf i; expect d (.runlock i) .unit "unlock"
  | ws => .error s!"unparsable line {ws}"

def main : IO UInt32 := do
  loop (← IO.getStdin) drive (fun d => showCov d.cov) ({} : D) 0
