import Driver.Common
import UrcuVerif.Defer.Model
/-! Trace checker for C13: replays the harness' lines (harness/scen/defer.c) on `Defer.step`.

Model steps are taken at the lines where the C code takes them: `…Snapshot` at `ev lockD`, `gp` at
`ev gp`, `…Run` at `ev unlockD` (compared with the `inv` lines seen since), `enq` at `ret defer` /
`nenq`, `reg` at `ret reg`; `st` lines compare head / tail / last_fct_in / last_fct_out /
last_head / q==NULL (counters modulo 2^64).  The lock / sync / gp / start / stop skeleton of every
operation is compared with the one the model's outcome implies. -/
open UrcuVerif UrcuVerif.Defer Driver

inductive Kind | reg | unreg | barrier | flush | defer
  deriving DecidableEq, Repr

structure Cur where
  kind : Kind
  t : Nat
  f : BitVec 64 := 0
  p : BitVec 64 := 0
  evs : List String := []        -- skeleton events seen
  want : List String := []       -- skeleton implied by the model's outcomes so far
  full : Bool := false           -- defer: model answered `full`
  snap : Bool := false           -- a …Snapshot step returned `.snapshot`
  stopped : Bool := false        -- unreg: model's stopThread

structure D where
  c : Cfg := Cfg.real
  n : Nat := 0
  s : State := init fun _ => 0
  cur : Option Cur := none
  invs : List (BitVec 64 × BitVec 64) := []
  cov : List (String × Nat) := []
  maxOcc : Nat := 0

def w64 (s : String) : Except String (BitVec 64) := do
  let n ← natOf s
  if n < 2^64 then pure (BitVec.ofNat 64 n) else .error s!"word out of range {s}"

def two64 : Nat := 2^64

def whoOf (k : Nat) : Option Nat := if k < 4 then some k else none

def doStep (d : D) (op : Op) : Except String (D × Out) :=
  match step d.c d.n d.s op with
  | none => .error s!"operation {repr op} not enabled in the model (lock={repr d.s.lock} registry={d.s.registry})"
  | some (s', out) =>
    -- flatten the `upd` chain of the per-thread map (5 simulated threads) so that look-ups stay O(1)
    let a := (List.range 5).toArray.map s'.th
    let dflt := s'.th 5
    .ok ({ d with s := { s' with th := fun t => if h : t < a.size then a[t] else dflt } }, out)

def noteEv (d : D) (e : String) : Except String D :=
  match d.cur with
  | none => .error s!"event {e} outside an operation"
  | some cu => .ok { d with cur := some { cu with evs := cu.evs ++ [e] } }

def addWant (cu : Cur) (l : List String) : Cur := { cu with want := cu.want ++ l }

def showPairs (l : List (BitVec 64 × BitVec 64)) : String :=
  " ".intercalate ((l.take 6).map fun fp => s!"({fp.1.toNat},{fp.2.toNat})") ++ (if l.length > 6 then s!" … ({l.length})" else "")

def occOf (d : D) (t : Nat) : Nat := (d.s.th t).head - (d.s.th t).tail

def enqTag (d : D) (t : Nat) (ws : List (BitVec 64)) (pfx : String) : D :=
  let x := d.s.th t
  let oh := x.head - ws.length
  let d := { d with cov := bump d.cov s!"{pfx}{ws.length}", maxOcc := max d.maxOcc (occOf d t) }
  let d := if ws.length > 1 ∧ (oh % d.c.size) + ws.length > d.c.size then { d with cov := bump d.cov "entry_across_ring_wrap" } else d
  let d := if oh % two64 + ws.length > two64 ∨ (oh % two64 + ws.length = two64) then { d with cov := bump d.cov "head_crosses_2^64" } else d
  let d := if occOf d t = d.c.size then { d with cov := bump d.cov "occupancy_eq_size" } else d
  let d := if occOf d t + 2 ≥ d.c.size then { d with cov := bump d.cov "enq_to_threshold" } else d
  d

def drive (d : D) : List String → Except String D
  | ["cfg", size, mask, bit, mark, _nth, nrd] => do
      let size ← natOf size; let mask ← natOf mask; let bit ← natOf bit; let mark ← natOf mark; let nrd ← natOf nrd
      if size ≠ Gen.DEFER_QUEUE_SIZE ∨ mask ≠ Gen.DEFER_QUEUE_MASK ∨ bit ≠ Gen.DQ_FCT_BIT ∨ mark ≠ Gen.DQ_FCT_MARK then
        .error s!"constants compiled into the harness differ from UrcuVerif.Gen.Constants"
      else pure { d with n := nrd }
  | ["init", t, b] => do
      let t ← natOf t; let b ← natOf b
      let x := d.s.th t
      if t ≥ 5 then .error "thread index out of range" else
      pure { d with s := { d.s with th := upd d.s.th t { x with head := b, tail := b } } }
  | ["op", "reg", t] => do
      let t ← natOf t
      if d.cur.isSome then .error "nested op" else
      pure { d with cur := some { kind := .reg, t := t } }
  | ["op", "unreg", t] => do
      let t ← natOf t
      if d.cur.isSome then .error "nested op" else
      pure { d with cur := some { kind := .unreg, t := t } }
  | ["op", "barrier", w] => do
      let w ← natOf w
      if d.cur.isSome then .error "nested op" else
      pure { d with cur := some { kind := .barrier, t := w } }
  | ["op", "flush", t] => do
      let t ← natOf t
      if d.cur.isSome then .error "nested op" else
      pure { d with cur := some { kind := .flush, t := t } }
  | ["op", "defer", t, f, p] => do
      let t ← natOf t; let f ← w64 f; let p ← w64 p
      if d.cur.isSome then .error "nested op" else
      let x := d.s.th t
      if x.q.size = 0 then .error "defer_rcu by a thread the model has not registered" else
      -- the threshold test of _defer_rcu (pure query of the model; the enqueue itself is replayed at `ret defer`)
      let fullNow := needFlush d.c x
      pure { d with cur := some { kind := .defer, t := t, f := f, p := p, full := fullNow },
                    cov := if fullNow then bump d.cov "defer_threshold_flush" else d.cov }
  | ["ev", "lockT"] => noteEv d "lockT"
  | ["ev", "unlockT"] => noteEv d "unlockT"
  | ["ev", "start"] => noteEv d "start"
  | ["ev", "stop"] => noteEv d "stop"
  | ["ev", "sync"] => do
      match d.s.lock with
      | some ⟨_, _, false⟩ => noteEv d "sync"
      | _ => .error "synchronize_rcu() called but the model is not at a grace-period wait"
  | ["ev", "lockD"] => do
      let d ← noteEv d "lockD"
      match d.cur with
      | none => .error "lock outside op"
      | some cu =>
        match cu.kind with
        | .reg => pure d
        | .unreg => do
            let (d, out) ← doStep d (.unregBegin cu.t)
            match out with
            | .snapshot => pure { d with cur := some { cu with snap := true } }
            | .unregistered [] st =>
              pure { d with cur := some (addWant { cu with stopped := st } ["lockT", "lockD", "unlockD"] ), cov := bump d.cov "unreg_nothing_queued" }
            | o => .error s!"model: unregister gives {repr o}"
        | .barrier => do
            let (d, out) ← doStep d (.barrierSnapshot (whoOf cu.t))
            match out with
            | .snapshot => pure { d with cur := some { cu with snap := true } }
            | .skipped .noItems => pure { d with cur := some (addWant cu ["lockD", "unlockD"]), cov := bump d.cov "barrier_nothing_queued" }
            | o => .error s!"model: rcu_defer_barrier gives {repr o} but the implementation took the mutex"
        | .flush => do
            let (d, out) ← doStep d (.flushSnapshot cu.t)
            match out with
            | .snapshot => pure { d with cur := some { cu with snap := true } }
            | .skipped _ => pure { d with cur := some (addWant cu ["lockD", "unlockD"]), cov := bump d.cov "flush_nothing_queued" }
            | o => .error s!"model: rcu_defer_barrier_thread gives {repr o}"
        | .defer => do
            if !cu.full then .error "defer_rcu flushes although the model's queue is below the threshold" else
            let (d, out) ← doStep d (.flushSnapshot cu.t)
            match out with
            | .snapshot => pure { d with cur := some { cu with snap := true } }
            | o => .error s!"model: flush inside defer_rcu gives {repr o}"
  | ["ev", "gp"] => do
      let d ← noteEv d "gp"
      let (d, _) ← doStep d .gp
      pure { d with cov := bump d.cov "gp" }
  | ["inv", f, p] => do
      let f ← w64 f; let p ← w64 p
      match d.s.lock with
      | some ⟨_, _, true⟩ => pure { d with invs := d.invs ++ [(f, p)] }
      | _ => .error "callback invoked but the model is not past a grace period under the mutex"
  | ["ev", "unlockD"] => do
      let d ← noteEv d "unlockD"
      match d.cur with
      | none => .error "unlock outside op"
      | some cu =>
        if !cu.snap then
          if d.invs ≠ [] then .error "callbacks invoked in an operation that the model completes without running anything" else pure d
        else
          let op : Op := match cu.kind with
            | .unreg => .unregEnd cu.t
            | .barrier => .barrierRun
            | _ => .flushRun cu.t
          -- partial batch? (some queue concerned holds more than the snapshot)
          let partialB := match cu.kind with
            | .barrier => d.s.registry.any fun t => (d.s.th t).lastHead < (d.s.th t).head
            | _ => false
          let (d, out) ← doStep d op
          let calls ← match out with
            | .ran cs => pure cs
            | .unregistered cs _ => pure cs
            | o => .error s!"model: run gives {repr o}"
          let got := d.invs
          let wantCalls := calls.map fun x => (x.2.1, x.2.2)
          if got ≠ wantCalls then
            .error s!"invocations differ: implementation [{showPairs got}] model [{showPairs wantCalls}]"
          else
            let stopped := match out with | .unregistered _ st => st | _ => false
            let sk := match cu.kind with
              | .unreg => ["lockT", "lockD", "sync", "gp", "unlockD"]
              | _ => ["lockD", "sync", "gp", "unlockD"]
            let tag := match cu.kind with
              | .unreg => "unreg_run" | .barrier => "barrier_run" | .flush => "flush_run" | _ => "defer_flush_run"
            let cov := bump d.cov tag
            let cov := if partialB then bump cov "barrier_partial_batch" else cov
            let cov := (List.range got.length).foldl (fun cv _ => bump cv "invocations") cov
            pure { d with invs := [], cur := some (addWant { cu with stopped := stopped, snap := false } sk), cov := cov }
  | ["ret", "reg", t, rc] => do
      let t ← natOf t; let rc ← intOf rc
      match d.cur with
      | some cu =>
        if cu.kind ≠ .reg ∨ cu.t ≠ t then .error "ret does not match op" else
        let again := (d.s.th t).queuedR ≠ [] ∨ (d.s.th t).lastHead ≠ 0
        let (d, out) ← doStep d (.reg t (Array.replicate d.c.size 0#64))
        match out with
        | .registered st =>
          let want := ["lockT", "lockD", "unlockD"] ++ (if st then ["start"] else []) ++ ["unlockT"]
          if rc ≠ 0 then .error s!"register returned {rc}" else
          if cu.evs ≠ want then .error s!"register: events {cu.evs}, model implies {want}" else
          pure { d with cur := none, cov := bump (bump d.cov (if st then "reg_start_thread" else "reg")) (if again then "re_register" else "first_register") }
        | o => .error s!"model: register gives {repr o}, implementation returned {rc}"
      | none => .error "ret without op"
  | ["ret", "unreg", t] => do
      let t ← natOf t
      match d.cur with
      | some cu =>
        if cu.kind ≠ .unreg ∨ cu.t ≠ t then .error "ret does not match op" else
        let want := cu.want ++ (if cu.stopped then ["stop"] else []) ++ ["unlockT"]
        if cu.evs ≠ want then .error s!"unregister: events {cu.evs}, model implies {want}" else
        pure { d with cur := none, cov := bump d.cov (if cu.stopped then "unreg_stop_thread" else "unreg") }
      | none => .error "ret without op"
  | ["ret", "barrier", w] => do
      let w ← natOf w
      match d.cur with
      | some cu =>
        if cu.kind ≠ .barrier ∨ cu.t ≠ w then .error "ret does not match op" else
        if cu.evs = [] then
          let (d, out) ← doStep d (.barrierSnapshot (whoOf w))
          match out with
          | .skipped .emptyRegistry => pure { d with cur := none, cov := bump d.cov "barrier_empty_registry" }
          | o => .error s!"rcu_defer_barrier returned without taking the mutex; model gives {repr o}"
        else if cu.evs ≠ cu.want then .error s!"barrier: events {cu.evs}, model implies {cu.want}"
        else pure { d with cur := none, cov := bump d.cov (if w < 4 then "barrier_by_thread" else "barrier_by_reclaimer") }
      | none => .error "ret without op"
  | ["ret", "flush", t] => do
      let t ← natOf t
      match d.cur with
      | some cu =>
        if cu.kind ≠ .flush ∨ cu.t ≠ t then .error "ret does not match op" else
        if cu.evs ≠ cu.want then .error s!"barrier_thread: events {cu.evs}, model implies {cu.want}" else
        pure { d with cur := none }
      | none => .error "ret without op"
  | "ret" :: "defer" :: t :: nw :: ws => do
      let t ← natOf t; let nw ← natOf nw
      let ws ← ws.mapM w64
      match d.cur with
      | some cu =>
        if cu.kind ≠ .defer ∨ cu.t ≠ t then .error "ret does not match op" else
        if cu.evs ≠ cu.want then .error s!"defer_rcu: events {cu.evs}, model implies {cu.want}" else
        if cu.full ∧ (d.s.th t).head ≠ (d.s.th t).tail then .error "model: queue not empty after the flush inside defer_rcu" else
        let (d, out) ← doStep d (.enq t cu.f cu.p)
        match out with
        | .enqueued mws =>
          if mws ≠ ws ∨ nw ≠ ws.length then
            .error s!"words stored differ: implementation {ws.map (·.toNat)} model {mws.map (·.toNat)}"
          else pure (enqTag { d with cur := none } t mws "defer_slots_")
        | o => .error s!"model: enqueue gives {repr o}"
      | none => .error "ret without op"
  | "nenq" :: t :: f :: p :: nw :: ws => do
      let t ← natOf t; let f ← w64 f; let p ← w64 p; let nw ← natOf nw
      let ws ← ws.mapM w64
      if d.s.lock.isNone then .error "nested enqueue outside a barrier" else
      let (d, out) ← doStep d (.enq t f p)
      match out with
      | .enqueued mws =>
        if mws ≠ ws ∨ nw ≠ ws.length then
          .error s!"words stored differ: implementation {ws.map (·.toNat)} model {mws.map (·.toNat)}"
        else
          let tag := match d.s.lock with
            | some ⟨_, _, true⟩ => "enq_between_gp_and_run_"
            | _ => "enq_between_snapshot_and_gp_"
          pure (enqTag d t mws tag)
      | o => .error s!"model: nested enqueue gives {repr o}"
  | ["st", t, head, tail, lfi, lfo, lh, qnull] => do
      let t ← natOf t; let head ← natOf head; let tail ← natOf tail; let lfi ← w64 lfi; let lfo ← w64 lfo
      let lh ← natOf lh; let qnull ← boolOf qnull
      let x := d.s.th t
      if x.head % two64 ≠ head then .error s!"head: model {x.head % two64}" else
      if x.tail % two64 ≠ tail then .error s!"tail: model {x.tail % two64}" else
      if x.lastIn ≠ lfi then .error s!"last_fct_in: model {x.lastIn.toNat}" else
      if x.lastOut ≠ lfo then .error s!"last_fct_out: model {x.lastOut.toNat}" else
      if x.lastHead % two64 ≠ lh then .error s!"last_head: model {x.lastHead % two64}" else
      if (x.q.size == 0) ≠ qnull then .error s!"q == NULL: model {x.q.size == 0}" else
      pure d
  | ["rl", i] => do let i ← natOf i; let (d, _) ← doStep d (.rlock i); pure { d with cov := bump d.cov "reader_lock" }
  | ["ru", i] => do let i ← natOf i; let (d, _) ← doStep d (.runlock i); pure d
  | ["ev", "rl", i] => do let i ← natOf i; let (d, _) ← doStep d (.rlock i); pure { d with cov := bump d.cov "reader_lock_during_gp" }
  | ["ev", "ru", i] => do let i ← natOf i; let (d, _) ← doStep d (.runlock i); pure d
  | ["abort", w] => .error s!"assertion '{w}' of the implementation fired; the model does not abort here"
  | ["crash", "signal", k] => .error s!"implementation crashed with signal {k}"
  | ["end"] => do
      if d.cur.isSome then .error "trace ends inside an operation" else
      if d.s.registry ≠ [] then .error "model: registry not empty at the end" else
      pure d
  | ws => .error s!"unparsable line {ws}"

def main : IO UInt32 := do
  loop (← IO.getStdin) drive (fun d => showCov d.cov ++ s!" max_occupancy={d.maxOcc}") ({} : D) 0
