import Driver.Common
import UrcuVerif.Gp.BpArena
/-! Trace checker for C15 (bp part): replays the lines of `harness/scen/bp_arena.c` on
`BpArena.step` (arena lines: `reg`/`unreg`/`prune`/`libinit`/`libexit`/`use`/`st`) and on
`BpArena.Sig.step` (`S <tid> <event>` lines).  Untrusted glue: part of the tie. -/
open UrcuVerif UrcuVerif.BpArena Driver

structure D where
  a : State := init
  saved : Option (State × List (Nat × Sig.State)) := none   -- parent state while a forked child reports
  sig : List (Nat × Sig.State) := []
  cov : List (String × Nat) := []
  maxLive : Nat := 0
  maxChunks : Nat := 0
  maxCap : Nat := 0

def sigOf (d : D) (t : Nat) : Sig.State := (d.sig.lookup t).getD Sig.init
def setSig (d : D) (t : Nat) (s : Sig.State) : D :=
  { d with sig := (t, s) :: d.sig.filter (·.1 ≠ t) }

def showChunk (c : Chunk) : String :=
  s!"{c.cap}:{c.used}:" ++ ",".intercalate (c.slots.map fun x => match x with | none => "-" | some t => toString t)

def showState (s : State) : String :=
  s!"refcount={s.refcount} chunks=[" ++ " ".intercalate (s.chunks.map showChunk) ++ "] registry=" ++
    " ".intercalate (s.registry.map fun (k, i) => s!"{k}.{i}")

def parseSlot (w : String) : Except String (Option Nat) :=
  if w = "-" then .ok none else (natOf w).map some

def parseChunk (w : String) : Except String Chunk := do
  match w.splitOn ":" with
  | [c, u, sl] =>
    let c ← natOf c; let u ← natOf u
    let sl ← (if sl = "" then pure [] else (sl.splitOn ",").mapM parseSlot)
    pure { cap := c, used := u, slots := sl }
  | _ => .error s!"bad chunk {w}"

def parseReg (w : String) : Except String (Nat × Nat) := do
  match w.splitOn "." with
  | [k, i] => let k ← natOf k; let i ← natOf i; pure (k, i)
  | _ => .error s!"bad registry entry {w}"

def after (pre w : String) : Option String :=
  if w.startsWith pre then some (w.drop pre.length).toString else none

def applyA (d : D) (op : Op) (want : Out) (tag : String) : Except String D :=
  match step d.a op with
  | none => .error s!"operation not enabled in the model ({showState d.a})"
  | some (s', out) =>
    if out = want then
      .ok { d with a := s', cov := bump d.cov tag,
                   maxLive := max d.maxLive s'.registry.length,
                   maxChunks := max d.maxChunks s'.chunks.length,
                   maxCap := s'.chunks.foldl (fun m c => max m c.cap) d.maxCap }
    else .error s!"model returns {repr out}, implementation {repr want}"

/-! signal model glue -/
open Sig in
def evOf : Sig.Pc → Option String
  | .mask | .xmask => some "MASK"
  | .unmask | .xunmask => some "UNMASK"
  | .initLock | .xinitLock => some "LOCK I"
  | .initUnlock | .xinitUnlock => some "UNLOCK I"
  | .lock | .xlock => some "LOCK R"
  | .unlock | .xunlock => some "UNLOCK R"
  | .add => some "ADD"
  | _ => none

def pcName (p : Sig.Pc) : String := ((reprStr p).splitOn ".").getLast!

def silent (p : Sig.Pc) : Bool := (evOf p).isNone && p != .idle

/-- run the silent steps (TLS tests, counter updates, the section itself) up to the next
interposed call -/
def advance (cov : List (String × Nat)) (s : Sig.State) : Nat → Except String (Sig.State × List (String × Nat))
  | 0 => .error "signal model: too many silent steps"
  | n + 1 =>
    if silent s.top then
      match Sig.step Sig.real s .run with
      | none => .error s!"signal model stuck at {repr s.top} (NULL reader in a read-side section)"
      | some s' =>
        let cov := if s.top = .recheck ∧ s.tls then bump cov "recheck_saw_handler_registration" else cov
        advance cov s' n
    else .ok (s, cov)

def sigEvent (d : D) (t : Nat) (ev : String) : Except String D := do
  let s := sigOf d t
  if ev = "CALL_RL" then
    match Sig.step Sig.real s .readLock with
    | some s' => pure (setSig { d with cov := bump d.cov "S_read_lock" } t s')
    | none => .error s!"signal model: read_lock call not enabled at {repr s.top}"
  else if ev = "CALL_EXIT" then
    match Sig.step Sig.real s .exit with
    | some s' => pure (setSig { d with cov := bump d.cov "S_thread_exit" } t s')
    | none => .error s!"signal model: exit notifier not enabled (pc {repr s.top}, tls {s.tls})"
  else if ev = "RET" then
    let (s, cov) ← advance d.cov s 12
    if s.top = .idle ∧ s.below = [] then
      if s.tls = (d.a.tls t).isSome then pure (setSig { d with cov := cov } t s)
      else .error s!"thread {t}: signal model says registered={s.tls}, arena model says {(d.a.tls t).isSome}"
    else .error s!"signal model: API returned but the model is at {repr s.top} with {s.below.length} interrupted frames"
  else if ev = "SIG_ENTER pre" ∨ ev = "SIG_ENTER post" then
    let (s, cov) ← (if ev = "SIG_ENTER pre" then advance d.cov s 12 else pure (s, d.cov))
    match Sig.step Sig.real s .signal with
    | some s' => pure (setSig { d with cov := bump cov ("sig@" ++ pcName s.top) } t s')
    | none => .error s!"signal handler entered at {repr s.top} where the model has all signals blocked"
  else if ev = "SIG_RET" then
    let (s, cov) ← advance d.cov s 12
    if s.top = .idle ∧ s.below ≠ [] then
      match Sig.step Sig.real s .run with
      | some s' => pure (setSig { d with cov := cov } t s')
      | none => .error "signal model: sigreturn not enabled"
    else .error s!"signal model: handler returned but the model is at {repr s.top}"
  else if ev = "DEADLOCK I" ∨ ev = "DEADLOCK R" then
    let (s, cov) ← advance d.cov s 12
    let okPc := if ev = "DEADLOCK I" then (s.top = .initLock ∨ s.top = .xinitLock) else (s.top = .lock ∨ s.top = .xlock)
    if okPc ∧ Sig.step Sig.real s .run = none then
      pure (setSig { d with cov := bump cov ("model_confirms_self_deadlock_" ++ (if ev = "DEADLOCK I" then "init_lock" else "registry_lock")) } t s)
    else .error s!"implementation self-deadlocks, the model is at {repr s.top} and can proceed"
  else
    let (s, cov) ← advance d.cov s 12
    if evOf s.top = some ev then
      match Sig.step Sig.real s .run with
      | some s' => pure (setSig { d with cov := bump cov "S_calls" } t s')
      | none => .error s!"signal model: {ev} would self-deadlock (pc {repr s.top})"
    else .error s!"signal model expects {(evOf s.top).getD (reprStr s.top)} (pc {repr s.top}), implementation did {ev}"

def drive (d : D) : List String → Except String D
  | ["init", n] => do
      let n ← natOf n
      (List.range n).foldlM (fun d _ => applyA d .libInit (.unit false) "ctor_init") d
  | "st" :: rc :: rest => do
      let rc ← natOf rc
      let cs ← (rest.filterMap (after "c=")).mapM parseChunk
      let rg ← (rest.filterMap (after "r=")).mapM parseReg
      if rc ≠ d.a.refcount then .error s!"refcount: model {d.a.refcount}"
      else if cs ≠ d.a.chunks then .error s!"chunks differ: model {showState d.a}"
      else if rg ≠ d.a.registry then .error s!"registry order differs: model {showState d.a}"
      else pure { d with cov := bump d.cov "states_compared" }
  | ["reg", t, g, k, i] => do
      let t ← natOf t; let k ← natOf k; let i ← natOf i
      let (gi, gr) ← (match g with
        | "no" => pure (Growth.inPlace, Grew.no)
        | "first" => pure (Growth.newChunk, Grew.first)
        | "inplace" => pure (Growth.inPlace, Grew.inPlace)
        | "new" => pure (Growth.newChunk, Grew.newChunk)
        | _ => .error s!"bad growth {g}")
      let nfree := d.a.chunks.foldl (fun n c => n + c.slots.countP (·.isNone)) 0
      let d := if nfree > 0 ∧ (scan d.a.chunks 0).map (·.1 + 1) != some d.a.chunks.length then
                 { d with cov := bump d.cov "reuse_in_older_chunk" } else d
      applyA d (.register t gi) (.slot k i gr) ("reg_" ++ g)
  | ["unreg", t, k, i] => do
      let t ← natOf t; let k ← natOf k; let i ← natOf i
      applyA d (.unregister t) (.freed k i) "unreg"
  | ["libinit"] => applyA d .libInit (.unit false) "libinit"
  | ["libexit", f] => do
      let f ← boolOf f
      applyA d .libExit (.unit f) (if f then "libexit_unmap" else "libexit")
  | ["prune", t, n] => do
      let t ← natOf t; let n ← natOf n
      let d ← applyA d (.prune t) (.pruned n) (if (d.a.tls t).isSome then "prune_by_registered" else "prune_by_unregistered")
      pure { d with sig := d.sig.filter (·.1 = t) }
  | ["use", t, k, i] => do
      let t ← natOf t; let k ← natOf k; let i ← natOf i
      if d.a.tls t = some (k, i) then pure { d with cov := bump d.cov "use" }
      else .error s!"thread {t} uses slot {k}.{i}, model has {repr (d.a.tls t)}"
  | ["fork", _] => pure { d with saved := some (d.a, d.sig), cov := bump d.cov "fork" }
  | ["endfork"] =>
      match d.saved with
      | some (a, sg) => pure { d with a := a, sig := sg, saved := none }
      | none => .error "endfork without fork"
  | "S" :: t :: ev => do
      let t ← natOf t
      sigEvent d t (" ".intercalate ev)
  | ws => .error s!"unparsable line {ws}"

def main : IO UInt32 := do
  loop (← IO.getStdin) drive
    (fun d => showCov d.cov ++ s!" max_live={d.maxLive} max_chunks={d.maxChunks} max_cap={d.maxCap}") ({} : D) 0
