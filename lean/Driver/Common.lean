/-! Line-protocol plumbing shared by the component drivers (untrusted glue: part of the tie). -/
namespace Driver

def words (line : String) : List String :=
  (line.trimAscii.toString.splitOn " ").filter (· ≠ "")

/-- Generic loop: feed stdin line by line to `f`; stop at the first error.
Prints `OK lines=<n> <summary>` or `DIVERGE line <k>: <text> :: <reason>`; exit code 0 / 1. -/
partial def loop {σ} (h : IO.FS.Stream) (f : σ → List String → Except String σ)
    (summary : σ → String) (st : σ) (k : Nat) : IO UInt32 := do
  let line ← h.getLine
  if line.isEmpty then
    IO.println s!"OK lines={k} {summary st}"
    return 0
  let ws := words line
  if ws.isEmpty || (ws.head!.startsWith "#") then
    loop h f summary st (k+1)
  else
    match f st ws with
    | .ok st' => loop h f summary st' (k+1)
    | .error e =>
      IO.println s!"DIVERGE line {k+1}: {line.trimAscii.toString} :: {e}"
      IO.println s!"PARTIAL lines={k} {summary st}"
      return 1

def natOf (s : String) : Except String Nat :=
  match s.toNat? with
  | some n => .ok n
  | none =>
    -- hexadecimal 0x...
    if s.startsWith "0x" then
      let digs := (s.drop 2).toString
      let r := digs.foldl (fun (acc : Option Nat) c =>
        acc.bind fun a =>
          if c.isDigit then some (a * 16 + (c.toNat - '0'.toNat))
          else if 'a' ≤ c ∧ c ≤ 'f' then some (a * 16 + (c.toNat - 'a'.toNat + 10))
          else if 'A' ≤ c ∧ c ≤ 'F' then some (a * 16 + (c.toNat - 'A'.toNat + 10))
          else none) (some 0)
      match r with
      | some n => .ok n
      | none => .error s!"bad number {s}"
    else .error s!"bad number {s}"

def intOf (s : String) : Except String Int :=
  if s.startsWith "-" then (natOf (s.drop 1).toString).map (fun n => - (Int.ofNat n))
  else (natOf s).map Int.ofNat

def boolOf (s : String) : Except String Bool :=
  if s = "1" then .ok true else if s = "0" then .ok false else .error s!"bad bool {s}"

/-- bump a named counter in a small association list (coverage histogram) -/
def bump (cov : List (String × Nat)) (k : String) : List (String × Nat) :=
  match cov with
  | [] => [(k, 1)]
  | (k', n) :: rest => if k' = k then (k', n+1) :: rest else (k', n) :: bump rest k

def showCov (cov : List (String × Nat)) : String :=
  " ".intercalate (cov.map fun (k, n) => s!"{k}={n}")

end Driver
