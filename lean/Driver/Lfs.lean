import Driver.Prog
import UrcuVerif.Lfs.Model
/-!
Trace checker for `src/lfstack.c` + `include/urcu/static/lfstack.h` and the legacy
`src/rculfstack.c` + `include/urcu/static/rculfstack.h` (C11, C17 stack facets).

L1: transliteration of each C function as a `P G Unit` program over the thread's event stream;
at every shared access the label of the proven L2 model `UrcuVerif.Lfs` is replayed on its
executable `step` (flush-immediately) and must be enabled; values read / returned are compared
with the model's.  RCU scheme: the events of the real flavor between the scenario's CALL/RET
markers of `rlock`, `runlock`, `sync`, `register`, `unregister` are not owned by this driver and
skipped; the markers are mapped to the abstract grace-period labels (`rlock` at RET rlock,
`runlock` at CALL runlock, `gpStart` at CALL sync, `gpEnd` at RET sync – where the model's GpSpec
guard must hold –, `reclaim` at FREE).
-/
open Driver UrcuVerif

namespace LfsDrv

structure G where
  c : Lfs.Cfg := { scheme := .mutex, n := 64 }
  s : Lfs.State := Lfs.init
  legacyMb : Bool := true
  tsan : Bool := false
  cov : List (String × Nat) := []

abbrev M := P G

def lab (l : Lfs.Label) : M Unit := P.act fun g =>
  match Lfs.step g.c g.s l with
  | some s' => .ok { g with s := s' }
  | none => .error s!"model step {repr l} not enabled"

def cover (k : String) : M Unit := P.act fun g => .ok { g with cov := bump g.cov k }

/-- node `nK` ↦ K + 1 (never NULL) -/
def nodeOf (tok : String) : Option Nat :=
  let t := if tok.startsWith "&" then (tok.drop 1).toString else tok
  if t.startsWith "n" then (t.drop 1).toString.toNat?.map (· + 1) else none

def tokOf (v : Nat) : String := if v = 0 then "0" else s!"&n{v - 1}"
def locOf (v : Nat) : String := s!"n{v - 1}"

def moOk (got : String) (want : Nat) : Bool := match got.toNat? with
  | some m => m ≥ want
  | none => false

def node! (tok : String) : M Nat := match nodeOf tok with
  | some n => pure n
  | none => P.fail s!"bad node token {tok}"

def legacyMb : M Unit := do
  let g ← P.get
  if g.legacyMb then P.expect "MB" []

def ld (loc : String) (val : G → Nat) (want : Nat) : M Nat := do
  let a ← P.evAt "LD" loc
  let g ← P.get
  match a with
  | [v, mo] =>
    if v != tokOf (val g) then P.fail s!"LD {loc} returned {v}, model memory has {tokOf (val g)}"
    else if moOk mo want then pure (val g) else P.fail s!"LD {loc}: memory order {mo} weaker than {want}"
  | _ => P.fail "bad LD"

def retIs (t : Nat) (want : Lfs.Ret) (what : String) : M Unit := do
  let g ← P.get
  if g.s.ret t != want then P.fail s!"{what}: implementation returned {repr want}, model {repr (g.s.ret t)}"

/-- `cds_lfs_push` / `cds_lfs_push_rcu`: for (;;) { node->next = head; mb; head = cmpxchg(...) } -/
partial def pushLoop (t n : Nat) (attempt : Nat) : M Unit := do
  let g ← P.get
  let guess ← match g.s.pc t with
    | .pushSt _ h => pure h
    | _ => P.fail "internal: push pc"
  if g.tsan then do
    -- plain store node->next = head, reported by the access callback
    let a ← P.evAt "PST" (locOf n)
    match a with
    | v :: _ => if v != tokOf guess then P.fail s!"push: plain store next={v}, current guess of head is {tokOf guess}"
    | _ => P.fail "bad PST"
  lab (.pushSt t); lab (.flush t)
  legacyMb
  let a ← P.evAt "CAS" "head"
  let g ← P.get
  let cur := g.s.head
  match a with
  | [e, nw, o, mos, mof] =>
    if e != tokOf guess then P.fail s!"push: cmpxchg expects {e}, last value read was {tokOf guess}"
    if nw != tokOf n then P.fail s!"push: cmpxchg installs {nw}, not the pushed node {tokOf n}"
    if o != tokOf cur then P.fail s!"push: cmpxchg read {o}, model head is {tokOf cur}"
    if !(moOk mos 5 && moOk mof 5) then P.fail "push: cmpxchg weaker than seq_cst"
  | _ => P.fail "bad CAS"
  lab (.pushCas t)
  if cur == guess then do
    cover (if cur == 0 then "push_empty" else "push_nonempty")
    if attempt > 0 then cover "push_retried"
    let r ← P.ev "RET push" fun e => if e.op == "RET" && e.arg 0 == "push" then some (e.arg 1) else none
    retIs t (.flag (r == "1")) "push"
  else do cover "push_cas_fail"; pushLoop t n (attempt + 1)

def push (t n : Nat) : M Unit := do
  lab (.pushBegin t n)
  pushLoop t n 0

partial def popLoop (t : Nat) (attempt : Nat) : M String := do
  let h ← ld "head" (fun g => g.s.head) 1
  lab (.popLd t)
  if h == 0 then do cover "pop_null"; pure "0"
  else do
    let nx ← ld (locOf h) (fun g => Lfs.rd g.s t h) 0
    lab (.popLdN t)
    let a ← P.evAt "CAS" "head"
    let g ← P.get
    let cur := g.s.head
    match a with
    | [e, nw, o, mos, mof] =>
      if e != tokOf h then P.fail s!"pop: cmpxchg expects {e}, loaded head was {tokOf h}"
      if nw != tokOf nx then P.fail s!"pop: cmpxchg installs {nw}, next read was {tokOf nx}"
      if o != tokOf cur then P.fail s!"pop: cmpxchg read {o}, model head is {tokOf cur}"
      if !(moOk mos 5 && moOk mof 5) then P.fail "pop: cmpxchg weaker than seq_cst"
    | _ => P.fail "bad CAS"
    lab (.popCas t)
    if cur == h then do
      legacyMb
      cover (if nx == 0 then "pop_last" else "pop_node")
      if attempt > 0 then cover "pop_retried"
      pure (tokOf h)
    else do cover "pop_cas_fail"; popLoop t (attempt + 1)

def pop (t : Nat) (locked : Bool) : M Unit := do
  if locked then do P.expect "LOCK" ["lock"]; lab (.lock t)
  lab (.popBegin t)
  let tok ← popLoop t 0
  if locked then do P.expect "UNLOCK" ["lock"]; lab (.unlock t)
  let r ← P.ev "RET pop" fun e => if e.op == "RET" && e.arg 0 == "pop" then some (e.arg 1) else none
  if r != tok then P.fail s!"pop returned {r}, transliteration expects {tok}"
  match nodeOf tok with
  | some n => retIs t (.node n) "pop"
  | none => retIs t .null "pop"

def popAll (t : Nat) (locked : Bool) : M Unit := do
  if locked then do P.expect "LOCK" ["lock"]; lab (.lock t)
  let a ← P.evAt "XCHG" "head"
  let g ← P.get
  let old := g.s.head
  match a with
  | [nw, o, mo] =>
    if nw != "0" then P.fail s!"pop_all: xchg installs {nw}, not NULL"
    if o != tokOf old then P.fail s!"pop_all: xchg returned {o}, model head is {tokOf old}"
    if !moOk mo 5 then P.fail "pop_all: xchg weaker than seq_cst"
  | _ => P.fail "bad XCHG"
  lab (.popAll t)
  legacyMb
  if locked then do P.expect "UNLOCK" ["lock"]; lab (.unlock t)
  cover (if old == 0 then "popall_empty" else "popall_nonempty")
  let r ← P.ev "RET pop_all" fun e => if e.op == "RET" && e.arg 0 == "pop_all" then some (e.arg 1) else none
  if r != tokOf old then P.fail s!"pop_all returned {r}, exchanged head was {tokOf old}"
  retIs t (if old == 0 then .null else .head old) "pop_all"

/-- one step of `cds_lfs_for_each_safe`: the successor of `node` was read (plain load) -/
def next (t node : Nat) (nxTok : String) : M Unit := do
  let g ← P.get
  if g.s.cur t != node then P.fail s!"iteration at {tokOf node}: model iterator is at {tokOf (g.s.cur t)}"
  let v := Lfs.rd g.s t node
  if nxTok != tokOf v then P.fail s!"iteration: {tokOf node}.next read as {nxTok}, model memory has {tokOf v}"
  lab (.iterNext t)
  cover (if v == 0 then "next_end" else "next_node")
  retIs t (if v == 0 then .null else .node v) "next"

def empty (t : Nat) : M Unit := do
  let _ ← ld "head" (fun g => g.s.head) 0
  lab (.empty t)
  let r ← P.ev "RET empty" fun e => if e.op == "RET" && e.arg 0 == "empty" then some (e.arg 1) else none
  cover (if r == "1" then "empty_true" else "empty_false")
  retIs t (.flag (r == "1")) "empty"

def flagOf (s : String) : Bool := s.endsWith "=1"

/-- events of the real RCU flavor: not owned by this driver -/
partial def skipUntilRet (name : String) : M Unit := do
  let e ← P.ev s!"… RET {name}" fun e => some e
  if e.op == "RET" && e.arg 0 == name then pure () else skipUntilRet name

partial def thread (t : Nat) : M Unit := do
  let e ← P.ev "CALL/…" fun e => some e
  match e.op, e.args with
  | "ALLOC", _ => thread t
  | "RETIRE", _ => do cover "retire"; thread t
  | "FREE", [n] => do
      let g ← P.get
      if g.c.scheme == .rcu then do let k ← node! n; lab (.reclaim k); cover "reclaim_after_gp"
      thread t
  | "SOLO", _ => do cover "solo_probe"; thread t
  | "SOLOMID", _ => do cover "solo_mid"; thread t
  | "SPAWN", _ => thread t
  | "PLD", _ => thread t
  | "CALL", ["push", n] => do let k ← node! n; push t k; thread t
  | "CALL", ["pop", lk] => do pop t (flagOf lk); thread t
  | "CALL", ["pop_all", lk] => do popAll t (flagOf lk); thread t
  | "NEXT", [n, nx] => do let k ← node! n; next t k nx; thread t
  | "CALL", ["empty"] => do empty t; thread t
  | "CALL", ["lock"] => do P.expect "LOCK" ["lock"]; lab (.lock t); P.expect "RET" ["lock"]; cover "lock"; thread t
  | "CALL", ["unlock"] => do P.expect "UNLOCK" ["lock"]; lab (.unlock t); P.expect "RET" ["unlock"]; thread t
  | "CALL", ["rlock"] => do skipUntilRet "rlock"; lab (.rlock t); cover "rlock"; thread t
  | "CALL", ["runlock"] => do lab (.runlock t); skipUntilRet "runlock"; thread t
  | "CALL", ["sync"] => do lab .gpStart; skipUntilRet "sync"; lab .gpEnd; cover "grace_period"; thread t
  | "CALL", ["register"] => do skipUntilRet "register"; thread t
  | "CALL", ["unregister"] => do skipUntilRet "unregister"; thread t
  | "THREAD_EXIT", _ => pure ()
  | _, _ => P.fail s!"unexpected event outside an API call: {e.show}"

def cfgLine (g : G) (ws : List String) : G :=
  ws.foldl (fun g w =>
    match w.splitOn "=" with
    | ["scheme", "mutex"] => { g with c := { g.c with scheme := .mutex } }
    | ["scheme", "single"] => { g with c := { g.c with scheme := .single } }
    | ["scheme", "rcu"] => { g with c := { g.c with scheme := .rcu } }
    | ["consumer", n] => { g with c := { g.c with consumer := n.toNat?.getD 0 } }
    | ["legacymb", "0"] => { g with legacyMb := false }
    | ["tsan", "1"] => { g with tsan := true }
    | _ => g) g

end LfsDrv

open LfsDrv in
def main : IO UInt32 := do
  let f (r : Run G) (ws : List String) : Except String (Run G) :=
    match ws with
    | "CFG" :: rest => .ok { r with g := cfgLine r.g rest }
    | _ => match parseEv ws with
      | some e => feed (fun t _ => (thread t).run) r e
      | none => .error "unparsable line"
  loop (← IO.getStdin) f (fun r => showCov r.g.cov) ({ g := {} } : Run G) 0
