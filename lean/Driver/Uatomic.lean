import Driver.Common
import UrcuVerif.Uatomic.Model
/-! Trace checker for C20: replays every line printed by `harness/scen/uatomic.c` (the real
`<urcu/uatomic.h>`, default or builtins build) on the Lean model `Uatomic.exec` and compares the
returned value and the 16-byte memory image.  Untrusted glue (part of the tie). -/
open UrcuVerif.Uatomic Driver

/-- coverage counters (fixed slots, printed in the summary) -/
def covNames : Array String := #[
  "set", "read", "xchg", "cmpxchg", "add_return", "sub_return", "add", "sub", "inc", "dec", "and", "or",
  "w8", "w16", "w32", "w64", "signed", "unsigned",
  "kind_n", "kind_i", "kind_j", "kind_l", "kind_u",
  "cas_success", "cas_fail", "operand_bits_above_w", "wraps", "value_unchanged",
  "off0", "off_nonzero", "rtype", "hammer", "litmus"]

structure D where
  impl : Option Impl := none
  cov : Array Nat := Array.replicate 33 0

def D.hit (d : D) (i : Nat) : D := { d with cov := d.cov.modify i (· + 1) }

def hexDigit (c : Char) : Option Nat :=
  if c.isDigit then some (c.toNat - '0'.toNat)
  else if 'a' ≤ c ∧ c ≤ 'f' then some (c.toNat - 'a'.toNat + 10)
  else if 'A' ≤ c ∧ c ≤ 'F' then some (c.toNat - 'A'.toNat + 10)
  else none

def hexNat (s : String) : Except String Nat :=
  if s.isEmpty then .error "empty hex number" else
  match s.foldl (fun (acc : Option Nat) c => acc.bind fun a => (hexDigit c).map (a * 16 + ·)) (some 0) with
  | some n => .ok n
  | none => .error s!"bad hex number {s}"

/-- 32 hex digits -> 16 bytes -/
def parseImg (s : String) : Except String (Array (BitVec 8)) := do
  if s.length ≠ 32 then throw s!"memory image must have 32 hex digits: {s}"
  let cs := s.toList.toArray
  let mut out : Array (BitVec 8) := Array.mkEmpty 16
  for i in [0:16] do
    match hexDigit cs[2*i]!, hexDigit cs[2*i+1]! with
    | some h, some l => out := out.push (BitVec.ofNat 8 (h * 16 + l))
    | _, _ => throw s!"bad memory image {s}"
  return out

def memOf (img : Array (BitVec 8)) : Nat → BitVec 8 := fun a => img.getD a 0

def opOf : String → Option (Op × Nat × Nat)   -- op, number of operands, coverage slot
  | "set" => some (.set, 1, 0) | "read" => some (.read, 0, 1) | "xchg" => some (.xchg, 1, 2)
  | "cmpxchg" => some (.cmpxchg, 2, 3) | "add_return" => some (.addReturn, 1, 4)
  | "sub_return" => some (.subReturn, 1, 5) | "add" => some (.add, 1, 6) | "sub" => some (.sub, 1, 7)
  | "inc" => some (.inc, 0, 8) | "dec" => some (.dec, 0, 9) | "and" => some (.and, 1, 10) | "or" => some (.or, 1, 11)
  | _ => none

/-- operand token `k:hex` -> the C operand expression (type + value) and its coverage slot -/
def argOf (w : Nat) (sgn : Bool) (tok : String) : Except String (Arg × Nat) := do
  match tok.splitOn ":" with
  | [k, h] =>
    let v ← hexNat h
    match k with
    | "n" => if v < 2 ^ w then pure (⟨sgn, w, BitVec.ofNat w v⟩, 18) else throw s!"operand {tok} wider than its type"
    | "i" => if v < 2 ^ 32 then pure (⟨true, 32, BitVec.ofNat 32 v⟩, 19) else throw s!"operand {tok} wider than its type"
    | "j" => if v < 2 ^ 32 then pure (⟨false, 32, BitVec.ofNat 32 v⟩, 20) else throw s!"operand {tok} wider than its type"
    | "l" => if v < 2 ^ 64 then pure (⟨true, 64, BitVec.ofNat 64 v⟩, 21) else throw s!"operand {tok} wider than its type"
    | "u" => if v < 2 ^ 64 then pure (⟨false, 64, BitVec.ofNat 64 v⟩, 22) else throw s!"operand {tok} wider than its type"
    | _ => throw s!"unknown operand kind in {tok}"
  | _ => throw s!"bad operand {tok}"

def showImg (m : Nat → BitVec 8) : String :=
  String.join ((List.range 16).map fun a =>
    let s := String.ofList (Nat.toDigits 16 (m a).toNat)
    if s.length < 2 then "0" ++ s else s)

def checkOp (d : D) (opS : String) (rest : List String) : Except String D := do
  let some impl := d.impl | throw "no `impl` line before the first operation"
  let some (op, nargs, slot) := opOf opS | throw s!"unknown operation {opS}"
  match rest with
  | wS :: sS :: offS :: oldS :: tail =>
    let w ← natOf wS
    let sgn ← boolOf sS
    let off ← natOf offS
    if !(w = 8 ∨ w = 16 ∨ w = 32 ∨ w = 64) then throw s!"unsupported width {w}"
    if off % (w / 8) ≠ 0 ∨ off + w / 8 > 16 then throw s!"offset {off} not naturally aligned inside the window"
    let old ← parseImg oldS
    if tail.length ≠ nargs + 3 then throw s!"expected {nargs} operand(s) then `-> result image`"
    let dummy : Arg := Arg.int 0
    let (a, ka) ← if nargs ≥ 1 then argOf w sgn tail[0]! else pure (dummy, 0)
    let (b, _) ← if nargs ≥ 2 then argOf w sgn tail[1]! else pure (dummy, 0)
    if tail[nargs]! ≠ "->" then throw "missing `->`"
    let resS := tail[nargs+1]!
    let new ← parseImg tail[nargs+2]!
    let m := memOf old
    let (m', r) := exec impl op w m off a b
    -- the proved-equal documented semantics, executed as a second opinion
    let (m'', r') := specExec op w m off (a.to w) (b.to w)
    if r ≠ r' ∨ (List.range 16).any (fun x => m' x ≠ m'' x) then
      throw s!"INTERNAL: exec and specExec disagree (impossible by op_semantics)"
    -- returned value
    match r with
    | none => if resS ≠ "-" then throw s!"model: operation returns nothing, implementation printed {resS}"
    | some rv =>
      if resS = "-" then throw s!"model returns {(retLong sgn rv).toNat}, implementation nothing"
      let got ← hexNat resS
      let want := (retLong sgn rv).toNat
      if got ≠ want then
        throw s!"returned value: model {String.ofList (Nat.toDigits 16 want)}, implementation {String.ofList (Nat.toDigits 16 got)} (as unsigned long)"
    -- memory image
    if (List.range 16).any (fun x => m' x ≠ new.getD x 0) then
      throw s!"memory image: model {showImg m'}, implementation {showImg (memOf new)}"
    -- coverage
    let oldv : BitVec 64 := (load 64 (fun x => if x < w / 8 then m (off + x) else 0) 0)
    let newv : BitVec 64 := (load 64 (fun x => if x < w / 8 then m' (off + x) else 0) 0)
    let mut d := d.hit slot
    d := d.hit (if w = 8 then 12 else if w = 16 then 13 else if w = 32 then 14 else 15)
    d := d.hit (if sgn then 16 else 17)
    if nargs ≥ 1 then d := d.hit ka
    if op = .cmpxchg then d := d.hit (if oldv.setWidth w = a.to w then 23 else 24)
    if nargs ≥ 1 ∧ a.bits > w ∧ a.long.toNat ≥ 2 ^ w then d := d.hit 25
    if (op = .add ∨ op = .addReturn ∨ op = .inc) ∧ newv.toNat < oldv.toNat then d := d.hit 26
    if (op = .sub ∨ op = .subReturn ∨ op = .dec) ∧ newv.toNat > oldv.toNat then d := d.hit 26
    if newv = oldv then d := d.hit 27
    d := d.hit (if off = 0 then 28 else 29)
    pure d
  | _ => throw "truncated line"

def drive (d : D) : List String → Except String D
  | ["impl", i, "stdc", _] =>
    if i = "x86" then .ok { d with impl := some .x86 }
    else if i = "builtins" then .ok { d with impl := some .builtins }
    else .error s!"unknown implementation {i}"
  | ["rtype", _, w, s, size, sg] => do
    -- the returned expression has the pointee type (doc: `type uatomic_xchg(type *addr, type new)`)
    let w ← natOf w; let s ← boolOf s; let size ← natOf size; let sg ← boolOf sg
    if size * 8 ≠ w then throw s!"result expression has {size} bytes, pointee has {w / 8}"
    if sg ≠ s then throw s!"result expression signedness {sg}, pointee {s}"
    pure (d.hit 30)
  | "hammer" :: rest =>
    if rest.getLast? = some "ok" then .ok (d.hit 31) else .error "hammer run failed (lost update / tokens not conserved)"
  | "litmus" :: rest =>
    if rest.getLast? = some "ok" then .ok (d.hit 32) else .error "store-buffering outcome r0=r1=0 observed around an RMW"
  | op :: rest => checkOp d op rest
  | [] => .ok d

def summary (d : D) : String :=
  " ".intercalate ((List.range covNames.size).map fun i => s!"{covNames[i]!}={d.cov.getD i 0}")

def main : IO UInt32 := do
  loop (← IO.getStdin) drive summary ({} : D) 0
