import Driver.Prog
import UrcuVerif.RcuList.Model
/-!
Trace checker for `urcu/rculist.h`, `urcu/rcuhlist.h` (C18), harness `harness/scen/rculist.c`.

The updater's and the readers' event streams must be exactly what the transliterated C text below
produces: every plain store (`PST`, reported by the access callbacks of `harness/rt/vrt_tsan.c`),
every publishing / unlinking `uatomic_store` (`ST loc val mo`) and every `rcu_dereference`
(`LD loc val mo`) at the predicted location with the predicted value, in the order of the C
statements.  Each store is replayed as one step of the proven model `UrcuVerif.RcuList`
(`Label.u .st` followed by `Label.flush`: the harness run is sequentially consistent) and must be
the store the model performs at that pc (`storeOf`).  Plain LOADS of the updater (`PLD`) are
validated by value against the model's memory but not by position: the updater is the only writer,
so its loads cannot influence any reader, and the compiler may legitimately merge them
(gcc -O1 merges the two `head->next` loads of `cds_list_add_rcu`).  `PSTV` lines (value found at the
location of the thread's previous plain store) are checked against the predicted value.
-/
open Driver UrcuVerif UrcuVerif.RcuList

namespace RcuListDrv

structure G where
  c : Cfg := { n := 64, hl := false }
  s : State := RcuList.init
  pend : List (Nat × String × String) := []     -- thread ↦ (loc, predicted value) of its last PST
  cov : List (String × Nat) := []

abbrev M := P G

def cover (k : String) : M Unit := P.act fun g => .ok { g with cov := bump g.cov k }

def lab (l : Label) : M Unit := P.act fun g =>
  match RcuList.step g.c g.s l with
  | some s' => .ok { g with s := s' }
  | none => .error s!"model step {repr l} not enabled (updater pc {repr g.s.u.pc})"

/-- "UrcuVerif.RcuList.UPc.a1 5" ↦ "a1" -/
def pcName (pc : UPc) : String :=
  let w := ((reprStr pc).splitOn " ").headD ""
  (w.splitOn ".").getLastD ""

def num (s : String) : M Nat := match natOf s with
  | .ok n => pure n
  | .error e => P.fail e

-- ---- names ---------------------------------------------------------------------------------
def locName : Loc → String
  | .next 0 => "h.next"
  | .prev 0 => "h.prev"
  | .data 0 => "h.data"
  | .next a => s!"n{a}.next"
  | .prev a => s!"n{a}.prev"
  | .data a => s!"n{a}.data"

/-- "n12" ↦ 12 -/
def nodeOfName (s : String) : Option Nat :=
  if s == "h" then some 0
  else if s.startsWith "n" then (s.drop 1).toString.toNat? else none

def parseLoc (s : String) : Option Loc :=
  match s.splitOn "." with
  | [nd, "next"] => (nodeOfName nd).map .next
  | [nd, "prev"] => (nodeOfName nd).map .prev
  | [nd, "data"] => (nodeOfName nd).map .data
  | _ => none

/-- pointer token of node `v` as stored in a `next` field: list: head = `&h.next`; hlist: end = NULL -/
def tokNext (c : Cfg) (v : Nat) : String :=
  if v = 0 then (if c.hl then "0" else "&h.next") else s!"&n{v}.next"
/-- … in a `prev` field (hlist: the first node's prev is the head cast to a node) -/
def tokPrev (v : Nat) : String := if v = 0 then "&h.next" else s!"&n{v}.next"
/-- payload convention of the scenario: 1000*id+7 written before the add -/
def tokData (a : Nat) (init : Bool) : String := if init then toString (1000 * a + 7) else "0"

def tokOf (c : Cfg) (m : Seq) : Loc → String
  | .next a => tokNext c (m.next a)
  | .prev a => tokPrev (m.prev a)
  | .data a => tokData a (m.data a)

def tokVal (c : Cfg) : Loc → Nat → String
  | .next _, v => tokNext c v
  | .prev _, v => tokPrev v
  | .data a, v => tokData a (v != 0)

-- ---- updater --------------------------------------------------------------------------------

/-- next event of the updater that is not a plain load; plain loads are validated by value -/
partial def nextNonLoad (t : Nat) : M Ev := do
  let e ← P.ev "updater event" fun e => some e
  if e.op == "PLD" then do
    let g ← P.get
    match parseLoc (e.arg 0) with
    | none => P.fail s!"PLD of unknown location {e.arg 0}"
    | some l =>
      let want := tokOf g.c g.s.m l
      if e.arg 1 != want then P.fail s!"PLD {e.arg 0} returned {e.arg 1}, the model's memory holds {want}"
      cover "upd_plain_load"
      nextNonLoad t
  else pure e

/-- the model performs the next store of the primitive in progress; it must be `(l, v)` -/
def modelStore (l : Loc) (v : Nat) : M Unit := do
  let g ← P.get
  match storeOf g.c g.s.u .st with
  | some (l', v') =>
    if l' != l || v' != v then
      P.fail s!"C text stores {locName l} := {v}, the model's next store is {locName l'} := {v'} (pc {repr g.s.u.pc})"
  | none => P.fail s!"C text stores {locName l} := {v}, the model has no store at pc {repr g.s.u.pc}"
  cover s!"store_{pcName g.s.u.pc}"
  lab (.u .st); lab .flush

/-- a statement whose store is skipped (`if (next)` guards of the hlist primitives) -/
def modelSkip : M Unit := do
  let g ← P.get
  match storeOf g.c g.s.u .st with
  | some (l', v') => P.fail s!"C text skips a store, the model stores {locName l'} := {v'}"
  | none => pure ()
  cover s!"skip_{pcName g.s.u.pc}"
  lab (.u .st); lab .flush

/-- plain C store `*l = v` -/
def pst (t : Nat) (l : Loc) (v : Nat) : M Unit := do
  let e ← nextNonLoad t
  let g ← P.get
  if e.op != "PST" || e.arg 0 != locName l || e.arg 1 != "8" then
    P.fail s!"expected PST {locName l} 8 (plain store of {tokVal g.c l v}), got {e.show}"
  if (g.pend.find? (·.1 == t)).isSome then P.fail "previous plain store of this thread has no PSTV line"
  P.act fun g => .ok { g with pend := (t, locName l, tokVal g.c l v) :: g.pend }
  modelStore l v

/-- `uatomic_store(&l, v, mo)` / `rcu_assign_pointer` -/
def stAtomic (t : Nat) (l : Loc) (v : Nat) (mo : Nat) : M Unit := do
  let e ← nextNonLoad t
  let g ← P.get
  let want := tokVal g.c l v
  if e.op != "ST" || e.arg 0 != locName l then
    P.fail s!"expected ST {locName l} {want} {mo} (uatomic_store), got {e.show}"
  if e.arg 1 != want then P.fail s!"ST {locName l} stores {e.arg 1}, the C text / model store {want}"
  match (e.arg 2).toNat? with
  | some m => if m < mo then P.fail s!"ST {locName l}: memory order {m} weaker than {mo}"
  | none => P.fail "bad ST"
  modelStore l v

/-- the updater's own view of a field (flush-immediately: equals memory) -/
def rdNext (a : Nat) : M Nat := do let g ← P.get; pure (g.s.u.next a)
def rdPrev (a : Nat) : M Nat := do let g ← P.get; pure (g.s.u.prev a)

def CMM_RELAXED : Nat := 0
def CMM_RELEASE : Nat := 3

/-- `cds_list_add_rcu(newp, head)` / `cds_hlist_add_head_rcu(newp, head)` -/
def addRcu (t n : Nat) : M Unit := do
  let g ← P.get
  let hn ← rdNext 0
  pst t (.next n) hn                       -- newp->next = head->next;
  pst t (.prev n) 0                        -- newp->prev = head;
  let hn ← rdNext 0
  if g.c.hl && hn == 0 then modelSkip      -- if (head->next)
  else pst t (.prev hn) n                  --   head->next->prev = newp;
  stAtomic t (.next 0) n CMM_RELEASE       -- rcu_assign_pointer(head->next, newp);

/-- `cds_list_add_tail_rcu(newp, head)` -/
def addTailRcu (t n : Nat) : M Unit := do
  pst t (.next n) 0                        -- newp->next = head;
  let hp ← rdPrev 0
  pst t (.prev n) hp                       -- newp->prev = head->prev;
  let hp ← rdPrev 0
  stAtomic t (.next hp) n CMM_RELEASE      -- rcu_assign_pointer(head->prev->next, newp);
  pst t (.prev 0) n                        -- head->prev = newp;

/-- `cds_list_replace_rcu(old, _new)` -/
def replaceRcu (t o n : Nat) : M Unit := do
  let on ← rdNext o
  pst t (.next n) on                       -- _new->next = old->next;
  let op ← rdPrev o
  pst t (.prev n) op                       -- _new->prev = old->prev;
  let np ← rdPrev n
  stAtomic t (.next np) n CMM_RELEASE      -- rcu_assign_pointer(_new->prev->next, _new);
  let nn ← rdNext n
  pst t (.prev nn) n                       -- _new->next->prev = _new;

/-- `cds_list_del_rcu(elem)` / `cds_hlist_del_rcu(elem)` -/
def delRcu (t e : Nat) : M Unit := do
  let g ← P.get
  let en ← rdNext e
  let ep ← rdPrev e
  if g.c.hl && en == 0 then modelSkip      -- if (elem->next)
  else pst t (.prev en) ep                 --   elem->next->prev = elem->prev;
  let ep ← rdPrev e
  let en ← rdNext e
  stAtomic t (.next ep) en CMM_RELAXED     -- uatomic_store(&elem->prev->next, elem->next);

def nodeArg (s : String) : M Nat := match nodeOfName s with
  | some n => if n == 0 then P.fail "node 0 is the head" else pure n
  | none => P.fail s!"bad node name {s}"

/-- RET marker (plain loads emitted after the last store of a primitive are still validated) -/
def ret (t : Nat) (what : String) : M Unit := do
  let e ← nextNonLoad t
  if e.op != "RET" || e.args != [what] then P.fail s!"expected RET {what}, got {e.show}"

-- ---- reader ---------------------------------------------------------------------------------

/-- the loop of `cds_list_for_each_(entry_)rcu` / `cds_hlist_for_each_(entry_)rcu(_2)`:
`pos = rcu_dereference(pos->next)` until the head (NULL) is reached; the body reads the payload -/
partial def traverse (t : Nat) : M Unit := do
  let e ← P.ev "reader event" fun e => some e
  let g ← P.get
  match e.op with
  | "LD" => do
    match g.s.pos t with
    | none => P.fail "rcu_dereference outside a traversal"
    | some p =>
      let l := Loc.next p
      if e.arg 0 != locName l then P.fail s!"reader is positioned on {locName l}, but loads {e.arg 0}"
      let want := tokNext g.c (g.s.m.next p)
      if e.arg 1 != want then P.fail s!"LD {e.arg 0} returned {e.arg 1}, the model's memory holds {want}"
      match (e.arg 2).toNat? with
      | some m => if m < 1 then P.fail s!"LD {e.arg 0}: memory order {m} weaker than consume (rcu_dereference)"
      | none => P.fail "bad LD"
      if p != 0 && g.s.m.st p == .dead then cover "deref_from_removed_node"
      if g.s.m.next p == 0 then cover "reach_head" else cover "deref_next"
      lab (.rNext t)
      traverse t
  | "PLD" => do
    match g.s.pos t with
    | some p =>
      if e.arg 0 == locName (.next p) then
        P.fail s!"expected LD {e.arg 0} … 1 [rcu_dereference], got a PLAIN load of the forward pointer"
      if p == 0 || e.arg 0 != locName (.data p) then P.fail s!"reader positioned on node {p} reads {e.arg 0}"
      let want := tokData p (g.s.m.data p)
      if e.arg 1 != want then P.fail s!"payload of n{p} read as {e.arg 1}, model: {want}"
      if g.s.m.st p == .dead then cover "read_removed_node"
      cover "read_payload"
      lab (.rRead t)
      traverse t
    | none => P.fail "payload read outside a traversal"
  | "TRAV_END" => do
    let n ← num (e.arg 0)
    if n != (g.s.vis t).length then P.fail s!"harness visited {n} nodes, model {(g.s.vis t).length}"
    if e.arg 1 == "complete" then do
      if g.s.fin t != true || (g.s.pos t).isSome then P.fail "harness says the traversal is complete, the model's is not"
      cover "trav_complete"
    else cover "trav_aborted"
  | _ => P.fail s!"unexpected event inside a traversal: {e.show}"

-- ---- thread top level -------------------------------------------------------------------------

partial def thread (t : Nat) : M Unit := do
  let e ← P.ev "CALL/…" fun e => some e
  match e.op, e.args with
  | "CALL", ["add", nm] => do
      let n ← nodeArg nm
      lab (.u (.add n)); lab .flush
      pst t (.data n) 1                    -- payload initialised before the add
      addRcu t n; ret t "add"; cover "add"; thread t
  | "CALL", ["addtail", nm] => do
      let n ← nodeArg nm
      lab (.u (.addTail n)); lab .flush
      pst t (.data n) 1
      addTailRcu t n; ret t "addtail"; cover "addtail"; thread t
  | "CALL", ["del", nm] => do
      let n ← nodeArg nm
      lab (.u (.del n)); lab .flush
      delRcu t n; ret t "del"; cover "del"; thread t
  | "CALL", ["repl", om, nm] => do
      let o ← nodeArg om
      let n ← nodeArg nm
      lab (.u (.repl o n)); lab .flush
      pst t (.data n) 1
      replaceRcu t o n; ret t "repl"; cover "repl"; thread t
  | "GP_START", [] => do lab .gpStart; cover "gp_start"; thread t
  | "GP_END", [] => do lab .gpEnd; cover "gp_end"; thread t
  | "FREE", [nm] => do
      let n ← nodeArg nm
      lab (.free n); cover "free"; thread t
  | "RLOCK", [] => do lab (.rLock t); thread t
  | "RUNLOCK", [] => do lab (.rUnlock t); thread t
  | "TRAV_BEGIN", [k] => do lab (.rStart t); cover s!"trav_{k}"; traverse t; thread t
  | "SPAWN", _ => thread t
  | "THREAD_EXIT", _ => pure ()
  | _, _ => P.fail s!"unexpected event outside an API call: {e.show}"

def cfgLine (g : G) (ws : List String) : G :=
  ws.foldl (fun g w =>
    match w.splitOn "=" with
    | ["kind", "hlist"] => { g with c := { g.c with hl := true } }
    | ["kind", "list"] => { g with c := { g.c with hl := false } }
    | _ => g) g

/-- `T<t> PSTV loc val size`: the value found at the location of thread t's last plain store -/
def pstv (g : G) (t : Nat) (args : List String) : Except String G :=
  match g.pend.find? (·.1 == t), args with
  | some (_, loc, val), [loc', val', _] =>
    if loc != loc' then .error s!"PSTV for {loc'}, the last plain store of T{t} was to {loc}"
    else if val != val' then .error s!"plain store to {loc} wrote {val'}, the C text / model store {val}"
    else .ok { g with pend := g.pend.filter (·.1 != t), cov := bump g.cov "pstv_checked" }
  | none, _ => .error s!"PSTV without a pending plain store of T{t}"
  | _, _ => .error "bad PSTV"

end RcuListDrv

open RcuListDrv in
def main : IO UInt32 := do
  let f (r : Run G) (ws : List String) : Except String (Run G) :=
    match ws with
    | "CFG" :: rest => .ok { r with g := cfgLine r.g rest }
    | _ => match parseEv ws with
      | some e =>
        if e.op == "PSTV" then (pstv r.g e.tid e.args).map fun g => { r with g := g }
        else feed (fun t _ => (thread t).run) r e
      | none => .error "unparsable line"
  loop (← IO.getStdin) f (fun r => showCov r.g.cov) ({ g := {} } : Run G) 0
