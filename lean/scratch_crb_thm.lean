import UrcuVerif.CallRcu.InvE
import UrcuVerif.CallRcu.InvL
import UrcuVerif.CallRcu.InvF
namespace UrcuVerif.CallRcu

theorem inv_reach (c : Cfg) {s : State} (h : Reach c s) :
    InvA c s ∧ InvB c s ∧ InvF c s ∧ InvD c s ∧ InvE c s ∧ InvL c s := by
  induction h with
  | init => exact ⟨invA_init c, invB_init c, invF_init c, invD_init c, invE_init c, invL_init c⟩
  | step _ st ih =>
    obtain ⟨a, b, f, d, e, l⟩ := ih
    exact ⟨inva_step c a st, invb_step c a b st, invf_step c a f st, invd_step c a d st, inve_step c a b d e st,
      invl_step c a d l st⟩

theorem no_enqueue_to_freed_helper (c : Cfg) {s : State} (h : Reach c s) (t x : Nat) (k : K)
    (ht : (s.tpc t).tgt = some (x, k)) :
    s.freed x = false ∧ x < s.nextH ∧ (k = .user ∨ k = .ext → s.retired x = false ∧ x ∈ s.list) := by
  obtain ⟨A, B, -, D, E, L⟩ := inv_reach c h
  have hlt := L.tgt_lt t x k ht
  have hfr := tgt_freeing ht
  have hho := tgt_holds ht
  have hic := tgt_inCall ht
  have key : k = .user ∨ k = .ext → s.retired x = false := by
    intro hk
    rcases hk with rfl | rfl
    · -- call_rcu()
      have hn := E.e_nest t (by rw [hic]; rfl)
      have hgp := B.gpd_open t hn
      cases hv : s.via t with
      | thr =>
        have h1 := E.e_thr t x ht hv
        cases hr : s.retired x with
        | false => rfl
        | true =>
          have h2 := D.red_ring x hr
          have h3 := E.e_ring_thr x t h2.1 h1
          have h4 := D.stopped_dead x h2.2
          have h5 := D.hthr_run t (by omega) (by intro h0; rw [h0] at ht; simp [TPc.tgt] at ht)
          have : t - c.n = x := by omega
          rw [this, h4] at h5
          exact absurd h5 (by decide)
      | cpu =>
        cases hr : s.retired x with
        | false => rfl
        | true =>
          have h2 := (D.red_ring x hr).1
          rcases E.e_cpu t x ht hv with ⟨cpu, hc, hp⟩ | hu
          · exact absurd hp (E.e_ring_cpu x cpu h2 hc)
          · rcases E.e_ring_gp x h2 with h0 | h0 <;> omega
      | dflt =>
        cases hr : s.retired x with
        | false => rfl
        | true =>
          have h2 := (D.red_ring x hr).1
          rcases E.e_dflt t x ht hv with hp | hu
          · exact absurd hp (E.e_ring_dflt x h2)
          · rcases E.e_ring_gp x h2 with h0 | h0 <;> omega
      | ext => exact absurd hv (E.e_via t x ht)
    · -- rcu_barrier(): the marker is enqueued under call_rcu_mutex on a helper of the list
      have hl := D.ext_list t x .ext ht rfl
      have hm := D.holds_mutex t (by rw [hho]; rfl)
      cases hr : s.retired x with
      | false => rfl
      | true =>
        have := D.red_owner x t hr hl hm
        rw [hfr] at this
        simp [K.fr] at this
  refine ⟨?_, hlt, fun hk => ⟨key hk, ?_⟩⟩
  · cases hf : s.freed x with
    | false => rfl
    | true =>
      have h1 := (D.freed_red x hf).1
      cases k with
      | user => rw [key (Or.inl rfl)] at h1; exact absurd h1 (by decide)
      | ext => rw [key (Or.inr rfl)] at h1; exact absurd h1 (by decide)
      | fstop =>
        have := (D.f_ok t x 0 (by rw [hfr]; rfl)).2.1
        rw [hf] at this; exact absurd this (by decide)
      | fdflt h0 =>
        have h2 := E.e_fd t x h0 ht
        exact absurd h2 (E.e_ring_dflt x (D.red_ring x h1).1)
  · cases hm : decide (x ∈ s.list) with
    | true => exact of_decide_eq_true hm
    | false =>
      have := L.delisted x hlt (of_decide_eq_false hm)
      rw [key hk] at this; exact absurd this (by decide)

#print axioms no_enqueue_to_freed_helper
end UrcuVerif.CallRcu
