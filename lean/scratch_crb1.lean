import UrcuVerif.CallRcu.Inv
/-!
# C03 — destruction of helpers: the protocol of `call_rcu_data_free()` (helper lemmas; statements in
`Props/C03.lean`)

`InvD`: at most one thread destroys a given helper; it goes through the stages
0 (STOP requested, waiting for STOPPED) → 1 (STOPPED seen; leftovers not yet dealt with) →
2 (queue found empty / leftovers spliced onto the default helper, `call_rcu_mutex` still held) →
3 (removed from `call_rcu_data_list`, joining, `free`).  `retired` (nothing may be enqueued any more) is
set only at 1 → 2, only after the helper's thread has set STOPPED (its last access to the structure
is that store), and `freed` only after the removal from the list.  While a retired helper is still in
the list the destroyer holds the mutex (so `rcu_barrier()`, which enqueues on the helpers of the list
under the mutex, never sees it).  Threads of helpers only act while their helper executes a callback.
-/
set_option linter.unusedVariables false
set_option linter.unusedSimpArgs false
namespace UrcuVerif.CallRcu

/-- thread inside `call_rcu_data_free(h)`: `some (h, stage)` -/
def TPc.freeing : TPc → Option (Nat × Nat)
  | .fLdFlags h | .fOrStop h | .fWaitStopped h => some (h, 0)
  | .enq _ h .fstop | .inc h .fstop | .ldFlags h .fstop | .ldFutex h .fstop | .stFutex h .fstop | .wake h .fstop => some (h, 0)
  | .fLock h | .fChk h | .fUnlock1 h | .fLock2 h | .fSplice h => some (h, 1)
  | .gdLd (.free h) | .gdLock (.free h) | .gdCreate (.free h) | .gdUnlock (.free h) => some (h, 1)
  | .fAddQ h | .fDel h => some (h, 2)
  | .enq _ _ (.fdflt h) | .inc _ (.fdflt h) | .ldFlags _ (.fdflt h) | .ldFutex _ (.fdflt h) | .stFutex _ (.fdflt h)
  | .wake _ (.fdflt h) => some (h, 2)
  | .fJoin h | .fFree h => some (h, 3)
  | _ => none

/-- program points at which the thread holds `call_rcu_mutex` -/
def TPc.holds : TPc → Bool
  | .gdCreate _ | .gdUnlock _ | .opDo _ | .opUnlock _ | .fChk _ | .fUnlock1 _ | .fSplice _ | .fAddQ _ | .fDel _ => true
  | .enq _ _ (.fdflt _) | .inc _ (.fdflt _) | .ldFlags _ (.fdflt _) | .ldFutex _ (.fdflt _) | .stFutex _ (.fdflt _)
  | .wake _ (.fdflt _) => true
  | .enq _ _ .ext | .inc _ .ext | .ldFlags _ .ext | .ldFutex _ .ext | .stFutex _ .ext | .wake _ .ext => true
  | _ => false

/-- what being at stage `g` of the destruction of `h` promises -/
def FOk (s : State) (t h g : Nat) : Prop :=
  s.retiring h = true ∧ s.freed h = false ∧ (g ≤ 1 → s.retired h = false) ∧ (1 ≤ g → s.stopped h = true) ∧
  (g = 2 → h ∈ s.list) ∧ (g = 3 → h ∉ s.list)

structure InvD (c : Cfg) (s : State) : Prop where
  ring_lt : ∀ h, s.retiring h = true → h < s.nextH
  f_ok : ∀ t h g, (s.tpc t).freeing = some (h, g) → FOk s t h g
  f_uniq : ∀ t1 t2 h g1 g2, (s.tpc t1).freeing = some (h, g1) → (s.tpc t2).freeing = some (h, g2) → t1 = t2
  red_ring : ∀ h, s.retired h = true → s.retiring h = true ∧ s.stopped h = true
  freed_red : ∀ h, s.freed h = true → s.retired h = true ∧ h ∉ s.list
  red_lock : ∀ h, s.retired h = true → h ∈ s.list → s.mutex ≠ none
  red_owner : ∀ h t, s.retired h = true → h ∈ s.list → s.mutex = some t → (s.tpc t).freeing = some (h, 2)
  list_nd : s.list.Nodup
  stopped_dead : ∀ h, s.stopped h = true → s.hpc h = .dead
  hthr_run : ∀ t, c.n ≤ t → s.tpc t ≠ .idle → s.hpc (t - c.n) = .run
  holds_mutex : ∀ t, (s.tpc t).holds = true → s.mutex = some t
  ext_list : ∀ t h k, (s.tpc t).tgt = some (h, k) → k = .ext → h ∈ s.list

theorem invD_init (c) : InvD c init := by
  constructor <;> simp [init, TPc.freeing, TPc.holds, TPc.tgt, FOk]

theorem mem_erase_nd {l : List Nat} {a b : Nat} (h : l.Nodup) : a ∈ l.erase b ↔ a ≠ b ∧ a ∈ l := h.mem_erase_iff
theorem nd_erase {l : List Nat} (b : Nat) (h : l.Nodup) : (l.erase b).Nodup := h.erase b

set_option hygiene false in
macro "d_tac" : tactic => `(tactic| (
  have a11 := hA.fresh
  have a15 := hA.list_lt
  have a5 := hA.tpc_ok
  clear hA
  obtain ⟨h1, h2, h3, h4, h5, h6, h7, h8, h9, h10, h11, h12⟩ := h
  simp only [step] at st
  (repeat' split at st)
  all_goals (first | (simp at st; done) | skip)
  all_goals (simp only [Option.some.injEq] at st; subst st)
  all_goals (constructor <;> first | assumption | (simp only [upd, lockS, unlockS, newHelper, relocate, K.cont, FreeObl, userCtx, nthr] at * <;>
    grind [upd, TOk, FOk, TPc.freeing, TPc.holds, TPc.tgt, mem_erase_nd, nd_erase]))))

theorem invd_gdLd (c : Cfg) {s s' : State} (hA : InvA c s) (h : InvD c s) (t : _)
    (st : step c s (.gdLd t) = some s') : InvD c s' := by
  d_tac
end UrcuVerif.CallRcu
