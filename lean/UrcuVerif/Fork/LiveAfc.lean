import UrcuVerif.Machine.Fair
import UrcuVerif.Props.C16
/-! Helper lemmas for `Props/LiveC16.lean`: `call_rcu_after_fork_child()` eventually returns. -/
set_option linter.unusedSimpArgs false
namespace UrcuVerif.Fork
open UrcuVerif UrcuVerif.Fair

/-- the steps of `call_rcu_after_fork_child()` executed by thread `t` -/
def afcLabels (t : Nat) : List Label := [.afcUnlock t, .afcNone t, .afcCreate t, .afcSkip t, .afcDispose t, .afcDone t]

/-- in the child, between fork and the end of the handler, every other application thread is gone -/
theorem afc_others_gone (c : Cfg) {s : State} (h : Reach c s) (t : Nat) (ht : (s.upc t).inAfc = true) :
    ∀ u, u ≠ t → s.upc u = .gone := by
  obtain ⟨p, l, k⟩ := inv_reach c h
  have hchild := p.child_pc t ht
  have hwin := p.pc_win t (Or.inr ht)
  intro u hu
  rcases p.child_only hchild u with h1 | h1
  · have := p.pc_win u (Or.inr h1); rw [hwin] at this; injection this with this; exact absurd this.symm hu
  · exact h1

theorem afc_enabled (c : Cfg) {s : State} (h : Reach c s) (t : Nat) (ht : (s.upc t).inAfc = true) :
    Enabled (step c) (fun l => l ∈ afcLabels t) s := by
  obtain ⟨l, s', st, -, hl⟩ := after_fork_child_terminates c h t ht
  refine ⟨l, ?_, by rw [st]; rfl⟩
  simp only [afcLabels, List.mem_cons, List.mem_nil_iff, or_false]
  exact hl

/-- every step of the handler strictly decreases `afcMeasure` -/
theorem afc_dec (c : Cfg) {s s' : State} {l : Label} (t : Nat) (hl : l ∈ afcLabels t) (st : step c s l = some s') :
    afcMeasure s' t < afcMeasure s t := by
  simp only [afcLabels, List.mem_cons, List.mem_nil_iff, or_false] at hl
  rcases hl with rfl | rfl | rfl | rfl | rfl | rfl <;> simp only [step] at st <;> (repeat' split at st) <;>
    (first | (simp at st; done) | skip) <;>
    simp only [Option.some.injEq] at st <;> subst st <;> simp_all [afcMeasure, upd, newHelper] <;> omega

/-- any other step leaves the handler's thread and the helper list alone -/
theorem afc_frame (c : Cfg) {s s' : State} {l : Label} (t : Nat) (ht : (s.upc t).inAfc = true)
    (ho : ∀ u, u ≠ t → s.upc u = .gone) (hl : l ∉ afcLabels t) (st : step c s l = some s') :
    s'.upc t = s.upc t ∧ s'.list = s.list := by
  cases l <;> simp only [step] at st <;> (repeat' split at st) <;>
    (first | (simp at st; done) | skip) <;>
    simp only [Option.some.injEq] at st <;> subst st <;>
    simp only [afcLabels, List.mem_cons, List.mem_nil_iff, or_false, Label.afcUnlock.injEq, Label.afcNone.injEq,
      Label.afcCreate.injEq, Label.afcSkip.injEq, Label.afcDispose.injEq, Label.afcDone.injEq, reduceCtorEq, false_or,
      not_false_eq_true] at hl <;>
    simp only [upd, newHelper, childOf, parentOf] <;> grind [UPc.inAfc]

theorem afc_measure_frame (c : Cfg) {s s' : State} {l : Label} (t : Nat) (ht : (s.upc t).inAfc = true)
    (ho : ∀ u, u ≠ t → s.upc u = .gone) (hl : l ∉ afcLabels t) (st : step c s l = some s') :
    afcMeasure s' t = afcMeasure s t := by
  obtain ⟨h1, h2⟩ := afc_frame c t ht ho hl st
  simp only [afcMeasure, h1, h2]

end UrcuVerif.Fork
