import UrcuVerif.Fork.LiveAfc
/-! Step-level lemmas for `Props/LiveC16E2E.lean`: the loop of `call_rcu_thread` in the fork model. -/
set_option linter.unusedSimpArgs false
set_option linter.unusedVariables false
namespace UrcuVerif.Fork
open UrcuVerif UrcuVerif.Fair

theorem length_tail_of_head? {l : List Nat} {a : Nat} (h : l.head? = some a) : l.tail.length + 1 = l.length := by
  cases l <;> simp_all

/-- the steps of helper `x`'s own thread (`hChain`, a callback calling `call_rcu()`, is the callback's choice) -/
def fhOwn (x : Nat) : Label → Prop
  | .hStart y | .hTop y | .hUnreg y | .hSetPaused y | .hSpinExit y | .hClrPaused y | .hRereg y
  | .hSplice y | .hGpBegin y | .hGpSkip y | .hGpEnd y | .hInvoke y _ | .hInvDone y | .hWait y => y = x
  | _ => False

/-- fork-related steps (another `call_rcu_before_fork`, another fork) -/
def Label.forky : Label → Bool
  | .bfLock _ | .bfPause _ | .forkChild _ | .forkParent _ => true
  | _ => false

/-- position of the helper in its loop, counted towards the next splice (work on the current batch included) -/
def loopRank (s : State) (x : Nat) : Nat :=
  match s.hpc x with
  | .splice => 1 | .top => 2 | .wait => 3 | .rereg => 4 | .clrPaused => 5 | .spin => 6 | .setPaused => 7 | .unreg => 8
  | .start => 9
  | .inv => 10 + (s.batch x).length | .g1 => 11 + (s.batch x).length | .g0 => 12 + (s.batch x).length
  | .none => 0 | .gone => 0

/-- the helper thread exists -/
def HPc.alive : HPc → Bool
  | .none => false | .gone => false
  | .start => true | .top => true | .unreg => true | .setPaused => true | .spin => true | .clrPaused => true
  | .rereg => true | .splice => true | .g0 => true | .g1 => true | .inv => true | .wait => true

set_option hygiene false in
macro "f_bash" : tactic => `(tactic| (
  simp only [step] at st <;> (repeat' split at st) <;>
  (first | (simp at st; done) | skip) <;>
  simp only [Option.some.injEq] at st <;> subst st))

/-- own steps of an alive, unpaused helper with `id` in its queue: it splices `id` out or gets closer to the splice -/
theorem loop_own (c : Cfg) {s s' : State} {l : Label} (x id : Nat) (ha : (s.hpc x).alive = true) (hp : s.pause x = false)
    (hq : id ∈ s.queue x) (hl : fhOwn x l) (st : step c s l = some s') :
    id ∈ s'.batch x ∨ ((s'.hpc x).alive = true ∧ s'.pause x = false ∧ id ∈ s'.queue x ∧ loopRank s' x < loopRank s x) := by
  have hne : s.queue x ≠ [] := by intro h; rw [h] at hq; simp at hq
  cases l <;> simp only [fhOwn] at hl <;> (try subst hl) <;> f_bash <;>
    simp_all [loopRank, upd, HPc.alive] <;>
    (first | done | omega | (right; rename_i hg _; have := length_tail_of_head? hg.2; omega))

/-- an alive, unpaused helper has an enabled step of its own unless it waits for readers in its grace period -/
theorem loop_enabled (c : Cfg) {s : State} (hL : InvL c s) (x : Nat) (ha : (s.hpc x).alive = true) (hp : s.pause x = false)
    (hw : s.hpc x = .g1 → s.waitL = []) : Enabled (step c) (fhOwn x) s := by
  cases hq : s.hpc x <;> simp [hq, HPc.alive] at ha
  case start => exact ⟨.hStart x, rfl, by simp [step, hq]⟩
  case top => exact ⟨.hTop x, rfl, by simp [step, hq]⟩
  case unreg => exact ⟨.hUnreg x, rfl, by simp [step, hq]⟩
  case setPaused => exact ⟨.hSetPaused x, rfl, by simp [step, hq]⟩
  case spin => exact ⟨.hSpinExit x, rfl, by simp [step, hq, hp]⟩
  case clrPaused => exact ⟨.hClrPaused x, rfl, by simp [step, hq]⟩
  case rereg => exact ⟨.hRereg x, rfl, by simp [step, hq]⟩
  case splice => exact ⟨.hSplice x, rfl, by simp [step, hq]; split <;> simp⟩
  case g0 => exact ⟨.hGpSkip x, rfl, by simp [step, hq]⟩
  case g1 =>
    have hg := hL.g_pch x (by rw [hq]; rfl)
    exact ⟨.hGpEnd x, rfl, by simp [step, hq, hg, hw hq]⟩
  case inv =>
    cases hb : s.batch x with
    | nil => exact ⟨.hInvDone x, rfl, by simp [step, hq, hb]⟩
    | cons cb r => exact ⟨.hInvoke x cb, rfl, by simp [step, hq, hb]⟩
  case wait => exact ⟨.hWait x, rfl, by simp [step, hq]⟩

/-- other steps (no further fork) leave an alive helper, its batch and the callbacks in its queue alone -/
theorem loop_frame (c : Cfg) {s s' : State} {l : Label} (hP : InvP c s) (x : Nat) (ha : (s.hpc x).alive = true)
    (hl : ¬ fhOwn x l) (hf : l.forky = false) (st : step c s l = some s') :
    s'.hpc x = s.hpc x ∧ s'.batch x = s.batch x ∧ (s.pause x = false → s'.pause x = false) ∧
      (∀ id, id ∈ s.queue x → id ∈ s'.queue x) := by
  have hn : s.hpc x ≠ .none ∧ s.hpc x ≠ .gone := by cases hq : s.hpc x <;> simp_all [HPc.alive]
  have p3 := hP.fresh x
  have p13 := hP.ch_dflt
  have p14 := hP.ch_loop
  cases l <;> simp only [fhOwn] at hl <;> simp only [Label.forky, Bool.true_eq_false] at hf <;> f_bash <;>
    simp only [upd, newHelper] <;> grind [HPc.alive]

theorem tail_facts {l : List Nat} {id cb : Nat} (hb : id ∈ l) (hh : l.head? = some cb) :
    cb = id ∨ (id ∈ l.tail ∧ l.tail.length + 1 = l.length) := by
  cases l <;> simp_all
  rcases hb with h | h
  · exact Or.inl h.symm
  · exact Or.inr h

/-- remaining work on the current batch -/
def batchRank (s : State) (x : Nat) : Nat :=
  2 * (s.batch x).length + (match s.hpc x with | .g0 => 2 | .g1 => 1 | _ => 0)

/-- own steps of a helper with `id` in its batch: it invokes `id` or gets closer -/
theorem batch_own (c : Cfg) {s s' : State} {l : Label} (hC : InvC c s) (x id : Nat) (hb : id ∈ s.batch x)
    (hl : fhOwn x l) (st : step c s l = some s') :
    s'.loc id = .done ∨ (id ∈ s'.batch x ∧ batchRank s' x < batchRank s x) := by
  have hmb := hC.batch_pc x (by intro h; rw [h] at hb; simp at hb)
  have hnd := hC.b_nodup x
  cases l <;> simp only [fhOwn] at hl <;> (try subst hl) <;> f_bash <;>
    simp only [batchRank, upd] <;> grind [HPc.mayBatch, tail_facts]

theorem batch_alive (c : Cfg) {s : State} (hC : InvC c s) (x id : Nat) (hb : id ∈ s.batch x) : (s.hpc x).alive = true := by
  have hmb := hC.batch_pc x (by intro h; rw [h] at hb; simp at hb)
  cases hq : s.hpc x <;> simp_all [HPc.mayBatch, HPc.alive]

/-- while the helper waits in its grace period nobody is added to the set it waits for -/
theorem waitL_sub (c : Cfg) {s s' : State} {l : Label} (hL : InvL c s) (x : Nat) (hg : s.hpc x = .g1)
    (st : step c s l = some s') : ∀ u, u ∈ s'.waitL → u ∈ s.waitL := by
  have hgl := hL.g_pch x (by rw [hg]; rfl)
  cases l <;> f_bash <;> (try simp only [upd]) <;> (first | (intro u hu; exact hu) | grind | (simp_all))

theorem busy_enabled (c : Cfg) {s : State} (hL : InvL c s) (hC : InvC c s) (x id : Nat) (hb : id ∈ s.batch x)
    (hw : s.hpc x = .g1 → s.waitL = []) : Enabled (step c) (fhOwn x) s := by
  have hmb := hC.batch_pc x (by intro h; rw [h] at hb; simp at hb)
  cases hq : s.hpc x <;> simp [hq, HPc.mayBatch] at hmb
  case g0 => exact ⟨.hGpSkip x, rfl, by simp [step, hq]⟩
  case g1 =>
    have hg := hL.g_pch x (by rw [hq]; rfl)
    exact ⟨.hGpEnd x, rfl, by simp [step, hq, hg, hw hq]⟩
  case inv =>
    cases hbb : s.batch x with
    | nil => rw [hbb] at hb; simp at hb
    | cons cb r => exact ⟨.hInvoke x cb, rfl, by simp [step, hq, hbb]⟩

theorem done_stable (c : Cfg) {s s' : State} {l : Label} (hC : InvC c s) (id : Nat) (hd : s.loc id = .done)
    (st : step c s l = some s') : s'.loc id = .done := by
  have h1 := hC.reg_loc id
  cases l <;> f_bash <;> (try simp only [upd, relocate, newHelper, childOf, parentOf]) <;> grind

end UrcuVerif.Fork
