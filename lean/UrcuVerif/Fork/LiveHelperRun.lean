import UrcuVerif.Fork.LiveHelper
/-! Run-level lemmas for `Props/LiveC16E2E.lean`: in the fork model, a callback in the queue of an alive, unpaused
helper is eventually invoked. -/
set_option linter.unusedSimpArgs false
set_option linter.unusedVariables false
namespace UrcuVerif.Fork
open UrcuVerif UrcuVerif.Fair

theorem freach_along (c : Cfg) {ρ : Nat → State} {ℓ : Nat → Option Label} (hrun : IsRun (step c) ρ ℓ)
    (hreach : Reach c (ρ 0)) (j : Nat) : Reach c (ρ j) :=
  inv_along hrun (Reach c) (fun _ _ _ h st => Reach.step h st) 0 hreach j (Nat.zero_le j)

/-- the step relation without fork-related steps ("no further fork during the run") -/
def stepN (c : Cfg) (s : State) (l : Label) : Option State := if l.forky = true then none else step c s l

theorem stepN_step {c : Cfg} {s s' : State} {l : Label} (h : stepN c s l = some s') : step c s l = some s' ∧ l.forky = false := by
  unfold stepN at h
  split at h
  · simp at h
  · rename_i hf; exact ⟨h, by simpa using hf⟩

theorem isRunN (c : Cfg) {ρ : Nat → State} {ℓ : Nat → Option Label} (hrun : IsRun (step c) ρ ℓ)
    (hnf : ∀ j l, ℓ j = some l → l.forky = false) : IsRun (stepN c) ρ ℓ :=
  ⟨fun i l hl => by unfold stepN; rw [if_neg (by rw [hnf i l hl]; simp)]; exact hrun.move i l hl, hrun.idle⟩

theorem fhOwn_not_forky {x : Nat} {l : Label} (h : fhOwn x l) : l.forky = false := by
  cases l <;> simp_all [fhOwn, Label.forky]

theorem enabledN (c : Cfg) {s : State} (x : Nat) (h : Enabled (step c) (fhOwn x) s) : Enabled (stepN c) (fhOwn x) s := by
  obtain ⟨l, hl, he⟩ := h
  exact ⟨l, hl, by unfold stepN; rw [if_neg (by rw [fhOwn_not_forky hl]; simp)]; exact he⟩

theorem weakFairN (c : Cfg) {ρ : Nat → State} {ℓ : Nat → Option Label} (x : Nat) (h : WeakFair (step c) ρ ℓ (fhOwn x)) :
    WeakFair (stepN c) ρ ℓ (fhOwn x) := by
  intro i he
  refine h i (fun j hj => ?_)
  obtain ⟨l, hl, hen⟩ := he j hj
  refine ⟨l, hl, ?_⟩
  unfold stepN at hen
  rw [if_neg (by rw [fhOwn_not_forky hl]; simp)] at hen
  exact hen

/-- **the helper's grace period ends if read-side sections end**: a helper that waits at `g1` eventually takes a step -/
theorem g1_progress (c : Cfg) {ρ : Nat → State} {ℓ : Nat → Option Label} (hrun : IsRun (step c) ρ ℓ)
    (hR : ∀ j, Reach c (ρ j)) (x : Nat) (hfair : WeakFair (step c) ρ ℓ (fhOwn x))
    (hsec : ∀ u j, 0 < (ρ j).nest u → ∃ j', j ≤ j' ∧ (ρ j').nest u = 0) :
    Progress ρ ℓ (fun s => s.hpc x = .g1) (fhOwn x) := by
  intro j0 hg
  have hL : ∀ j, InvL c (ρ j) := fun j => (inv_reach c (hR j)).l
  -- the wait set only shrinks
  have hsub : ∀ j, j0 ≤ j → ∀ d u, u ∈ (ρ (j + d)).waitL → u ∈ (ρ j).waitL := by
    intro j hj d
    induction d with
    | zero => intro u hu; exact hu
    | succ d ih =>
      intro u hu
      cases hl : ℓ (j + d) with
      | none => rw [show j + (d + 1) = j + d + 1 by omega, hrun.idle _ hl] at hu; exact ih u hu
      | some l =>
        rw [show j + (d + 1) = j + d + 1 by omega] at hu
        exact ih u (waitL_sub c (hL (j + d)) x (hg (j + d) (by omega)) (hrun.move _ l hl) u hu)
  -- every thread of the initial wait set leaves it for good
  have each : ∀ u, u ∈ (ρ j0).waitL → ∃ J, j0 ≤ J ∧ ∀ j, J ≤ j → u ∉ (ρ j).waitL := by
    intro u hu
    obtain ⟨j', hj', hz⟩ := hsec u j0 ((hL j0).wait_in u hu).2
    refine ⟨j', hj', fun j hj hm => ?_⟩
    have := hsub j' hj' (j - j') u (by rw [show j' + (j - j') = j by omega]; exact hm)
    have := ((hL j').wait_in u this).2
    omega
  obtain ⟨J, hJ, hall⟩ := eventually_all ρ (fun u s => u ∉ s.waitL) (ρ j0).waitL j0 each
  have hempty : ∀ j, J ≤ j → (ρ j).waitL = [] := by
    intro j hj
    cases hw : (ρ j).waitL with
    | nil => rfl
    | cons u r =>
      have hu : u ∈ (ρ j).waitL := by rw [hw]; simp
      have h0 := hsub j0 (Nat.le_refl _) (j - j0) u (by rw [show j0 + (j - j0) = j by omega]; exact hu)
      exact absurd hu (hall j hj u h0)
  obtain ⟨j, hj, ht⟩ := hfair J (fun j hj => by
    have hgj := hg j (by omega)
    have hg' := (hL j).g_pch x (by rw [hgj]; rfl)
    exact ⟨.hGpEnd x, rfl, by simp [step, hgj, hg', hempty j hj]⟩)
  exact ⟨j, by omega, ht⟩

/-- **a callback in the queue of an alive helper that is not (and will not be) paused is eventually spliced out** -/
theorem fork_queued_eventually_batched (c : Cfg) {ρ : Nat → State} {ℓ : Nat → Option Label} (hrun : IsRun (step c) ρ ℓ)
    (hR : ∀ j, Reach c (ρ j)) (x : Nat) (hfair : WeakFair (step c) ρ ℓ (fhOwn x))
    (hsec : ∀ u j, 0 < (ρ j).nest u → ∃ j', j ≤ j' ∧ (ρ j').nest u = 0)
    (hnf : ∀ j l, ℓ j = some l → l.forky = false) :
    ∀ id i, id ∈ (ρ i).queue x → ((ρ i).hpc x).alive = true → (ρ i).pause x = false → ∃ j, i ≤ j ∧ id ∈ (ρ j).batch x := by
  intro id i hq ha hp
  apply Classical.byContradiction
  intro hno
  have hnb : ∀ j, i ≤ j → ¬ id ∈ (ρ j).batch x := fun j hj h => hno ⟨j, hj, h⟩
  have hst : ∀ d, ((ρ (i + d)).hpc x).alive = true ∧ (ρ (i + d)).pause x = false ∧ id ∈ (ρ (i + d)).queue x := by
    intro d
    induction d with
    | zero => exact ⟨ha, hp, hq⟩
    | succ d ih =>
      cases hl : ℓ (i + d) with
      | none => rw [show i + (d + 1) = i + d + 1 by omega, hrun.idle _ hl]; exact ih
      | some l =>
        rw [show i + (d + 1) = i + d + 1 by omega]
        have st := hrun.move _ l hl
        by_cases ho : fhOwn x l
        · rcases loop_own c x id ih.1 ih.2.1 ih.2.2 ho st with h | h
          · exact absurd h (hnb _ (by omega))
          · exact ⟨h.1, h.2.1, h.2.2.1⟩
        · have := loop_frame c (inv_reach c (hR _)).p x ih.1 ho (hnf _ l hl) st
          exact ⟨by rw [this.1]; exact ih.1, this.2.2.1 ih.2.1, this.2.2.2 id ih.2.2⟩
  have hinv : ∀ j, i ≤ j → Reach c (ρ j) ∧ ((ρ j).hpc x).alive = true ∧ (ρ j).pause x = false ∧ id ∈ (ρ j).queue x := by
    intro j hj
    have := hst (j - i); rw [show i + (j - i) = j by omega] at this
    exact ⟨hR j, this⟩
  refine hno (fair_measure_leadsto_family (isRunN c hrun hnf) (κ := Bool) (fun _ => fhOwn x)
    (fun b s => if b then s.hpc x = .g1 else s.hpc x ≠ .g1)
    (fun s => Reach c s ∧ (s.hpc x).alive = true ∧ s.pause x = false ∧ id ∈ s.queue x) (fun s => id ∈ s.batch x)
    (fun s => loopRank s x) i hinv ?_ ?_ ?_ ?_ ?_)
  · intro b
    cases b with
    | true => simpa using g1_progress c hrun hR x hfair hsec
    | false =>
      intro j0 hen
      obtain ⟨j, hj, ht⟩ := hfair (max j0 i) (fun j hj => by
        have h1 := hinv j (by omega)
        have h2 := hen j (by omega)
        simp only [Bool.false_eq_true, ↓reduceIte] at h2
        exact loop_enabled c (inv_reach c h1.1).l x h1.2.1 h1.2.2.1 (fun h => absurd h h2))
      exact ⟨j, by omega, ht⟩
  · intro s I _
    by_cases h : s.hpc x = .g1
    · exact ⟨true, by simpa using h⟩
    · exact ⟨false, by simpa using h⟩
  · intro s l s' k I _ hl st
    rcases loop_own c x id I.2.1 I.2.2.1 I.2.2.2 hl (stepN_step st).1 with h | h
    · exact Or.inr h
    · exact Or.inl h.2.2.2
  · intro s l s' I _ hl st
    have := loop_frame c (inv_reach c I.1).p x I.2.1 (hl true) (stepN_step st).2 (stepN_step st).1
    exact Or.inl (by simp only [loopRank, this.1, this.2.1]; exact Nat.le_refl _)
  · intro s l s' k I _ hen hl st
    have := loop_frame c (inv_reach c I.1).p x I.2.1 hl (stepN_step st).2 (stepN_step st).1
    exact Or.inl (by rw [this.1]; exact hen)

/-- **a callback in the batch of a helper is eventually invoked** -/
theorem fork_batched_eventually_done (c : Cfg) {ρ : Nat → State} {ℓ : Nat → Option Label} (hrun : IsRun (step c) ρ ℓ)
    (hR : ∀ j, Reach c (ρ j)) (x : Nat) (hfair : WeakFair (step c) ρ ℓ (fhOwn x))
    (hsec : ∀ u j, 0 < (ρ j).nest u → ∃ j', j ≤ j' ∧ (ρ j').nest u = 0)
    (hnf : ∀ j l, ℓ j = some l → l.forky = false) :
    ∀ id i, id ∈ (ρ i).batch x → ∃ j, i ≤ j ∧ (ρ j).loc id = .done := by
  intro id i hb
  apply Classical.byContradiction
  intro hno
  have hnd : ∀ j, i ≤ j → ¬ (ρ j).loc id = .done := fun j hj h => hno ⟨j, hj, h⟩
  have hst : ∀ d, id ∈ (ρ (i + d)).batch x := by
    intro d
    induction d with
    | zero => exact hb
    | succ d ih =>
      cases hl : ℓ (i + d) with
      | none => rw [show i + (d + 1) = i + d + 1 by omega, hrun.idle _ hl]; exact ih
      | some l =>
        rw [show i + (d + 1) = i + d + 1 by omega]
        have st := hrun.move _ l hl
        have I := inv_reach c (hR (i + d))
        by_cases ho : fhOwn x l
        · rcases batch_own c I.k x id ih ho st with h | h
          · exact absurd h (hnd _ (by omega))
          · exact h.1
        · have := loop_frame c I.p x (batch_alive c I.k x id ih) ho (hnf _ l hl) st
          rw [this.2.1]; exact ih
  have hinv : ∀ j, i ≤ j → Reach c (ρ j) ∧ id ∈ (ρ j).batch x := by
    intro j hj
    have := hst (j - i); rw [show i + (j - i) = j by omega] at this
    exact ⟨hR j, this⟩
  refine hno (fair_measure_leadsto_family (isRunN c hrun hnf) (κ := Bool) (fun _ => fhOwn x)
    (fun b s => if b then s.hpc x = .g1 else s.hpc x ≠ .g1)
    (fun s => Reach c s ∧ id ∈ s.batch x) (fun s => s.loc id = .done)
    (fun s => batchRank s x) i hinv ?_ ?_ ?_ ?_ ?_)
  · intro b
    cases b with
    | true => simpa using g1_progress c hrun hR x hfair hsec
    | false =>
      intro j0 hen
      obtain ⟨j, hj, ht⟩ := hfair (max j0 i) (fun j hj => by
        have h1 := hinv j (by omega)
        have h2 := hen j (by omega)
        simp only [Bool.false_eq_true, ↓reduceIte] at h2
        have I := inv_reach c h1.1
        exact busy_enabled c I.l I.k x id h1.2 (fun h => absurd h h2))
      exact ⟨j, by omega, ht⟩
  · intro s I _
    by_cases h : s.hpc x = .g1
    · exact ⟨true, by simpa using h⟩
    · exact ⟨false, by simpa using h⟩
  · intro s l s' k I _ hl st
    rcases batch_own c (inv_reach c I.1).k x id I.2 hl (stepN_step st).1 with h | h
    · exact Or.inr h
    · exact Or.inl h.2
  · intro s l s' I _ hl st
    have Iv := inv_reach c I.1
    have := loop_frame c Iv.p x (batch_alive c Iv.k x id I.2) (hl true) (stepN_step st).2 (stepN_step st).1
    exact Or.inl (by simp only [batchRank, this.1, this.2.1]; exact Nat.le_refl _)
  · intro s l s' k I _ hen hl st
    have Iv := inv_reach c I.1
    have := loop_frame c Iv.p x (batch_alive c Iv.k x id I.2) hl (stepN_step st).2 (stepN_step st).1
    exact Or.inl (by rw [this.1]; exact hen)

/-- **fork model: a callback that is queued on, or being processed by, an alive helper is eventually invoked**, if the
helper is scheduled fairly, read-side sections end and there is no further fork -/
theorem fork_callback_eventually_done (c : Cfg) {ρ : Nat → State} {ℓ : Nat → Option Label} (hrun : IsRun (step c) ρ ℓ)
    (hR : ∀ j, Reach c (ρ j)) (hfair : ∀ x, WeakFair (step c) ρ ℓ (fhOwn x))
    (hsec : ∀ u j, 0 < (ρ j).nest u → ∃ j', j ≤ j' ∧ (ρ j').nest u = 0)
    (hnf : ∀ j l, ℓ j = some l → l.forky = false) :
    ∀ id i, ((ρ i).loc id).isQ = true → (∀ x, (ρ i).loc id = .queue x → ((ρ i).hpc x).alive = true ∧ (ρ i).pause x = false) →
      ∃ j, i ≤ j ∧ (ρ j).loc id = .done := by
  intro id i hq hal
  have I := inv_reach c (hR i)
  cases hloc : (ρ i).loc id <;> simp [hloc, Loc.isQ] at hq
  case queue x =>
    have h1 := hal x hloc
    obtain ⟨j1, hj1, hb⟩ := fork_queued_eventually_batched c hrun hR x (hfair x) hsec hnf id i (I.k.loc_q x id hloc).1 h1.1 h1.2
    obtain ⟨j, hj, hd⟩ := fork_batched_eventually_done c hrun hR x (hfair x) hsec hnf id j1 hb
    exact ⟨j, by omega, hd⟩
  case batch x =>
    exact fork_batched_eventually_done c hrun hR x (hfair x) hsec hnf id i (I.k.loc_b x id hloc)

end UrcuVerif.Fork
