import UrcuVerif.Machine.Upd
/-!
# C16 — fork() with the documented handlers (`src/urcu-call-rcu-impl.h`: `call_rcu_before_fork`,
`call_rcu_after_fork_parent`, `call_rcu_after_fork_child`, the pause branch of `call_rcu_thread`,
`_call_rcu_data_free(crdp, 0)`)

Abstract-algorithm level ("L2") executable model, self-contained (core Lean only).  One `State` is the
state of ONE process.  The label `forkChild t` maps the state of the forking process to the initial
state of the child *as a function of the parent state* (`childOf`): same memory (queues, flags, locks,
registry, lists, pointers – exactly as the other threads left them), only thread `t` survives, every
other thread's program counter is erased (`gone`); what lived only in an erased thread's stack
(`batch`) is unreachable in the child.  `forkParent t` is the same instant seen from the parent
(`parentOf`).  `Reach` is closed under both, so it contains the states of every process of the
process tree (children may fork again).

Granularity.  The pause / resume handshake is modelled flag access by flag access:
`call_rcu_before_fork` = lock `call_rcu_mutex`; for each helper of `call_rcu_data_list`: set `PAUSE`
(+ wake); for each helper: wait until `PAUSED`;  helper pause branch = load flags at the loop top,
`rcu_unregister_thread()`, set `PAUSED`, spin while `PAUSE`, clear `PAUSED`, `rcu_register_thread()`;
`call_rcu_after_fork_parent` = for each helper clear `PAUSE`; for each helper wait until `PAUSED` is
clear; unlock.  `call_rcu_after_fork_child` = unlock; (nothing if the list is empty) create a fresh
default helper, reset the per-CPU array and the per-thread pointer; for every other `call_rcu_data`
of the list: mark `STOPPED`, `_call_rcu_data_free(·, 0)` = splice its queue onto the default
helper's, unlink, free – no `pthread_join` (`afcDispose`, one atomic step per `call_rcu_data`: in the
child nobody but the forking thread touches these objects).
Everything else is coarse: operations that only touch data protected by a mutex are one atomic step
guarded by "mutex free" (`create`, `setCpu`, `createDflt`; registration = atomic block under
`rcu_registry_lock`); `call_rcu()` = `enq` at the enqueue xchg (C10, C03); a grace period =
`gpBegin` (takes `rcu_gp_lock`, `waitL` := registered application threads inside a read-side section)
… `gpEnd` (only when every thread of `waitL` has left its section: `GpSpec` abstraction of C01;
`hGpSkip` = served by another thread's grace period through the wait queue, no lock);
`rcu_barrier()` = one marker callback per helper of the list, queued under the mutex
(`bpend b` = markers of barrier `b` not yet run).  Futex sleep/wake-up of helpers is abstracted
(`hWait` may always continue: C02/C03 prove the handshake; the tie's deadlock detector checks it on
every run).  The event-level transliteration of the C text in `Driver/Fork.lean` ("L1") must match
the event stream of the real code exactly inside the handlers and the pause branch and replays the
labels below on `step`.

* application threads `t < c.n` (`upc t`), helper threads `h < nextH` (`hpc h`, running
  `call_rcu_thread`; a running callback may call `call_rcu()` again: `hChain`, it lands on the
  helper's own queue because `URCU_TLS(thread_call_rcu_data)` of a helper thread is its own `crdp`);
* ghost: `reg`, `loc` (where a callback is), `invN` (invocations in the history of this process incl.
  its ancestors before the fork), `atFork` (queued at the last fork), `invSince` (invocations since
  the last fork, in this process), `win` (thread inside the fork window), `child` (between fork and
  the end of `after_fork_child`), `gen`.

Not modelled here: `call_rcu_data_free()` / helper STOP in a running process (C03; concurrent with
`call_rcu_before_fork` it can block the latter, see Props/C16), the lfht work-queue hook
(`Fork/Wq.lean`), urcu-bp (`Fork/Bp.lean`).  Documented preconditions are guards: `bfLock` (the
handlers are called outside read-side sections, by an application thread), `forkParent/forkChild`
(`ForkPre`: every other application thread is outside liburcu and not registered as a reader).
-/
namespace UrcuVerif.Fork

structure Cfg where
  n : Nat          -- application thread ids are `t < n`
  deriving Repr

/-- a thread: application thread or the thread of helper `h` -/
inductive Th | u (t : Nat) | h (h : Nat)
  deriving DecidableEq, Repr

inductive Loc | none | queue (h : Nat) | batch (h : Nat) | done
  deriving DecidableEq, Repr

inductive Via | thr | cpu (c : Nat) | dflt
  deriving DecidableEq, Repr

/-- application-level program counter of a thread -/
inductive UPc
  | gone | idle
  | gp                                              -- inside synchronize_rcu(), holds rcu_gp_lock
  | barLoop (b : Nat) (rem : List Nat) | barWait (b : Nat)
  | bfPause (rem : List Nat) | bfWait (rem : List Nat) | atFork
  | afpClr (rem : List Nat) | afpWait (rem : List Nat)
  | afcUnlock | afcCreate | afcLoop (rem : List Nat)
  deriving DecidableEq, Repr

/-- program counter of `call_rcu_thread` -/
inductive HPc
  | none | gone
  | start                                           -- thread created, not yet registered
  | top | unreg | setPaused | spin | clrPaused | rereg
  | splice | g0 | g1 | inv | wait
  deriving DecidableEq, Repr

structure State where
  upc     : Nat → UPc
  nest    : Nat → Nat
  thr     : Nat → Option Nat
  hpc     : Nat → HPc
  queue   : Nat → List Nat
  batch   : Nat → List Nat
  pause   : Nat → Bool
  paused  : Nat → Bool
  stopped : Nat → Bool
  freed   : Nat → Bool
  nextH   : Nat
  list    : List Nat
  dflt    : Option Nat
  arr     : Bool
  percpu  : Nat → Option Nat
  mutex   : Option Nat
  gpl     : Option Th
  registry : List Th
  waitL   : List Nat
  bpend   : Nat → List Nat
  -- ghost
  reg     : Nat → Bool
  loc     : Nat → Loc
  invN    : Nat → Nat
  bar     : Nat → Option Nat
  atFork  : Nat → Bool
  invSince : Nat → Nat
  win     : Option Nat
  child   : Bool
  gen     : Nat

def init : State :=
  { upc := fun _ => .idle, nest := fun _ => 0, thr := fun _ => none, hpc := fun _ => .none,
    queue := fun _ => [], batch := fun _ => [], pause := fun _ => false, paused := fun _ => false,
    stopped := fun _ => false, freed := fun _ => false, nextH := 0, list := [], dflt := none, arr := false,
    percpu := fun _ => none, mutex := none, gpl := none, registry := [], waitL := [], bpend := fun _ => [],
    reg := fun _ => false, loc := fun _ => .none, invN := fun _ => 0, bar := fun _ => none,
    atFork := fun _ => false, invSince := fun _ => 0, win := none, child := false, gen := 0 }

inductive Label
  -- read-side sections, registration, synchronize_rcu() of application threads
  | spawn (t : Nat) | rlock (t : Nat) | runlock (t : Nat) | register (t : Nat) | unregister (t : Nat) | gpBegin (t : Nat) | gpEnd (t : Nat)
  -- call_rcu() and helper management
  | enq (t id : Nat) (v : Via) | createDflt (t : Nat) | create (t : Nat) | setCpu (t cpu : Nat) (ho : Option Nat)
  | setThr (t : Nat) (ho : Option Nat)
  -- rcu_barrier()
  | barCall (t b : Nat) | barEnq (t id : Nat) | barUnlock (t : Nat) | barRet (t : Nat)
  -- call_rcu_before_fork()
  | bfLock (t : Nat) | bfPause (t : Nat) | bfPauseDone (t : Nat) | bfWait (t : Nat) | bfRet (t : Nat)
  -- fork()
  | forkParent (t : Nat) | forkChild (t : Nat)
  -- call_rcu_after_fork_parent()
  | afpClr (t : Nat) | afpClrDone (t : Nat) | afpWait (t : Nat) | afpUnlock (t : Nat)
  -- call_rcu_after_fork_child()
  | afcUnlock (t : Nat) | afcNone (t : Nat) | afcCreate (t : Nat) | afcSkip (t : Nat) | afcDispose (t : Nat) | afcDone (t : Nat)
  -- helper thread
  | hStart (h : Nat) | hTop (h : Nat) | hUnreg (h : Nat) | hSetPaused (h : Nat) | hSpinExit (h : Nat)
  | hClrPaused (h : Nat) | hRereg (h : Nat)
  | hSplice (h : Nat) | hGpBegin (h : Nat) | hGpSkip (h : Nat) | hGpEnd (h : Nat)
  | hInvoke (h cb : Nat) | hChain (h id : Nat) | hInvDone (h : Nat) | hWait (h : Nat)
  deriving DecidableEq, Repr

/-- `call_rcu_data_init()`: new helper `nextH`, first in `call_rcu_data_list`, thread spawned -/
def newHelper (s : State) : State :=
  { s with hpc := upd s.hpc s.nextH .start, list := s.nextH :: s.list, nextH := s.nextH + 1 }

def relocate (loc : Nat → Loc) (frm to : Loc) : Nat → Loc :=
  fun id => if loc id = frm then to else loc id

/-- **Documented precondition of fork() for the flavors other than bp**: every other application
thread is outside liburcu (idle) and not registered as a reader. -/
def ForkPre (c : Cfg) (s : State) (t : Nat) : Prop :=
  t < c.n ∧ (∀ u, u < c.n → u ≠ t → s.upc u = .idle ∨ s.upc u = .gone) ∧ (∀ u, Th.u u ∈ s.registry → u = t)

/-- executable form of `ForkPre` -/
def forkPreB (c : Cfg) (s : State) (t : Nat) : Bool :=
  decide (t < c.n) && (List.range c.n).all (fun u => u == t || s.upc u == .idle || s.upc u == .gone) &&
  s.registry.all (fun r => match r with | .u u => u == t | .h _ => true)

/-- obligation when publishing a helper (per-thread or per-CPU): it exists -/
def PtrOk (s : State) : Option Nat → Prop
  | none => True
  | some h => h ∈ s.list

instance (s ho) : Decidable (PtrOk s ho) := by unfold PtrOk; cases ho <;> infer_instance

/-- the helper `call_rcu()` of thread `t` selects (`get_call_rcu_data()`): per-thread, else per-CPU,
else default -/
def sel (s : State) (t : Nat) : Via → Option Nat
  | .thr => s.thr t
  | .cpu cpu => if s.thr t = none ∧ s.arr = true then s.percpu cpu else none
  | .dflt => if s.thr t = none then s.dflt else none

/-- application threads a grace period started by `me` has to wait for: registered and inside a
read-side section -/
def waitSet (s : State) (me : Option Nat) : List Nat :=
  s.registry.filterMap (fun r => match r with
    | .u u => if some u ≠ me ∧ 0 < s.nest u then some u else none
    | .h _ => none)

def isQueue : Loc → Bool
  | .queue _ => true
  | _ => false

/-- the child's state as a function of the parent's state at the fork -/
def childOf (s : State) (t : Nat) : State :=
  { s with upc := fun u => if u = t then .afcUnlock else .gone,
           hpc := fun h => if s.hpc h = .none then .none else .gone,
           batch := fun _ => [],
           atFork := fun id => isQueue (s.loc id), invSince := fun _ => 0,
           child := true, gen := s.gen + 1 }

/-- the parent's state right after fork() returned -/
def parentOf (s : State) (t : Nat) : State :=
  { s with upc := upd s.upc t (.afpClr s.list),
           atFork := fun id => isQueue (s.loc id), invSince := fun _ => 0 }

/-- One step; `none` = not enabled. -/
def step (c : Cfg) (s : State) : Label → Option State
  -- ---------------------------------------------------------------- readers, registration, grace periods
  | .spawn t =>
    -- a new application thread (pthread_create by the application; in a child: with an id the erased
    -- threads no longer use): fresh thread-local storage
    if t < c.n ∧ s.upc t = .gone ∧ s.child = false ∧ Th.u t ∉ s.registry then
      some { s with upc := upd s.upc t .idle, thr := upd s.thr t none, nest := upd s.nest t 0 }
    else none
  | .rlock t =>
    if t < c.n ∧ s.upc t = .idle then some { s with nest := upd s.nest t (s.nest t + 1) } else none
  | .runlock t =>
    if t < c.n ∧ s.upc t = .idle ∧ 0 < s.nest t then
      some { s with nest := upd s.nest t (s.nest t - 1), waitL := if s.nest t = 1 then s.waitL.filter (· ≠ t) else s.waitL }
    else none
  | .register t =>
    if t < c.n ∧ s.upc t = .idle ∧ Th.u t ∉ s.registry ∧ s.nest t = 0 then some { s with registry := .u t :: s.registry } else none
  | .unregister t =>
    if t < c.n ∧ s.upc t = .idle ∧ Th.u t ∈ s.registry ∧ s.nest t = 0 then
      some { s with registry := s.registry.filter (· ≠ .u t) }
    else none
  | .gpBegin t =>
    if t < c.n ∧ s.upc t = .idle ∧ s.nest t = 0 ∧ s.gpl = none then
      some { s with upc := upd s.upc t .gp, gpl := some (.u t), waitL := waitSet s (some t) }
    else none
  | .gpEnd t =>
    if s.upc t = .gp ∧ s.gpl = some (.u t) ∧ s.waitL = [] then some { s with upc := upd s.upc t .idle, gpl := none } else none
  -- ---------------------------------------------------------------- call_rcu(), helper management
  | .enq t id v =>
    match sel s t v with
    | some h =>
      if t < c.n ∧ s.upc t = .idle ∧ Th.u t ∈ s.registry ∧ s.reg id = false then
        some { s with reg := upd s.reg id true, loc := upd s.loc id (.queue h), queue := upd s.queue h (s.queue h ++ [id]) }
      else none
    | none => none
  | .createDflt t =>
    -- get_default_call_rcu_data() when there is no default helper yet (under the mutex)
    if t < c.n ∧ s.upc t = .idle ∧ s.mutex = none ∧ s.dflt = none then
      some { newHelper s with dflt := some s.nextH }
    else none
  | .create t =>
    if t < c.n ∧ s.upc t = .idle ∧ s.mutex = none then some (newHelper s) else none
  | .setCpu t cpu ho =>
    if t < c.n ∧ s.upc t = .idle ∧ s.mutex = none ∧ PtrOk s ho ∧ (s.percpu cpu = none ∨ ho = none) then
      some { s with arr := true, percpu := upd s.percpu cpu ho }
    else none
  | .setThr t ho =>
    if t < c.n ∧ s.upc t = .idle ∧ PtrOk s ho then some { s with thr := upd s.thr t ho } else none
  -- ---------------------------------------------------------------- rcu_barrier()
  | .barCall t b =>
    if t < c.n ∧ s.upc t = .idle ∧ s.nest t = 0 ∧ s.bpend b = [] ∧ s.mutex = none then
      some { s with upc := upd s.upc t (.barLoop b s.list), mutex := some t }
    else none
  | .barEnq t id =>
    match s.upc t with
    | .barLoop b (h :: rem) =>
      if s.reg id = false then
        some { s with upc := upd s.upc t (.barLoop b rem), reg := upd s.reg id true, bar := upd s.bar id (some b),
                      loc := upd s.loc id (.queue h), queue := upd s.queue h (s.queue h ++ [id]),
                      bpend := upd s.bpend b (id :: s.bpend b) }
      else none
    | _ => none
  | .barUnlock t =>
    match s.upc t with
    | .barLoop b [] => if s.mutex = some t then some { s with upc := upd s.upc t (.barWait b), mutex := none } else none
    | _ => none
  | .barRet t =>
    match s.upc t with
    | .barWait b => if s.bpend b = [] then some { s with upc := upd s.upc t .idle } else none
    | _ => none
  -- ---------------------------------------------------------------- call_rcu_before_fork()
  | .bfLock t =>
    if t < c.n ∧ s.upc t = .idle ∧ s.nest t = 0 ∧ s.mutex = none then
      some { s with upc := upd s.upc t (.bfPause s.list), mutex := some t, win := some t }
    else none
  | .bfPause t =>
    match s.upc t with
    | .bfPause (h :: rem) => some { s with upc := upd s.upc t (.bfPause rem), pause := upd s.pause h true }
    | _ => none
  | .bfPauseDone t =>
    match s.upc t with
    | .bfPause [] => some { s with upc := upd s.upc t (.bfWait s.list) }
    | _ => none
  | .bfWait t =>
    match s.upc t with
    | .bfWait (h :: rem) => if s.paused h = true then some { s with upc := upd s.upc t (.bfWait rem) } else none
    | _ => none
  | .bfRet t =>
    match s.upc t with
    | .bfWait [] => some { s with upc := upd s.upc t .atFork }
    | _ => none
  -- ---------------------------------------------------------------- fork()
  | .forkParent t =>
    if s.upc t = .atFork ∧ forkPreB c s t = true then some (parentOf s t) else none
  | .forkChild t =>
    if s.upc t = .atFork ∧ forkPreB c s t = true then some (childOf s t) else none
  -- ---------------------------------------------------------------- call_rcu_after_fork_parent()
  | .afpClr t =>
    match s.upc t with
    | .afpClr (h :: rem) => some { s with upc := upd s.upc t (.afpClr rem), pause := upd s.pause h false }
    | _ => none
  | .afpClrDone t =>
    match s.upc t with
    | .afpClr [] => some { s with upc := upd s.upc t (.afpWait s.list) }
    | _ => none
  | .afpWait t =>
    match s.upc t with
    | .afpWait (h :: rem) => if s.paused h = false then some { s with upc := upd s.upc t (.afpWait rem) } else none
    | _ => none
  | .afpUnlock t =>
    match s.upc t with
    | .afpWait [] => if s.mutex = some t then some { s with upc := upd s.upc t .idle, mutex := none, win := none } else none
    | _ => none
  -- ---------------------------------------------------------------- call_rcu_after_fork_child()
  | .afcUnlock t =>
    if s.upc t = .afcUnlock ∧ s.mutex = some t then some { s with upc := upd s.upc t .afcCreate, mutex := none } else none
  | .afcNone t =>
    -- "Do nothing when call_rcu() has not been used"
    if s.upc t = .afcCreate ∧ s.list = [] then some { s with upc := upd s.upc t .idle, win := none, child := false } else none
  | .afcCreate t =>
    -- default_call_rcu_data = NULL; get_default_call_rcu_data() (lock, call_rcu_data_init, unlock);
    -- cpus_array_len_reset(); free(per_cpu_call_rcu_data); per_cpu_call_rcu_data = NULL; thread_call_rcu_data = NULL
    if s.upc t = .afcCreate ∧ s.list ≠ [] ∧ s.mutex = none then
      some { newHelper s with upc := upd s.upc t (.afcLoop s.list), dflt := some s.nextH,
                              arr := false, percpu := fun _ => none, thr := upd s.thr t none }
    else none
  | .afcSkip t =>
    match s.upc t with
    | .afcLoop (h :: rem) => if s.dflt = some h then some { s with upc := upd s.upc t (.afcLoop rem) } else none
    | _ => none
  | .afcDispose t =>
    -- flags := STOPPED; _call_rcu_data_free(h, 0): (STOPPED set: no STOP / no wait) lock; leftovers spliced
    -- onto the default helper's queue (+ wake); cds_list_del; unlock; NO pthread_join; free
    match s.upc t, s.dflt with
    | .afcLoop (h :: rem), some d =>
      if d ≠ h ∧ s.mutex = none then
        some { s with upc := upd s.upc t (.afcLoop rem), stopped := upd s.stopped h true,
                      pause := upd s.pause h false, paused := upd s.paused h false,
                      queue := upd (upd s.queue d (s.queue d ++ s.queue h)) h [],
                      loc := relocate s.loc (.queue h) (.queue d),
                      list := s.list.erase h, freed := upd s.freed h true }
      else none
    | _, _ => none
  | .afcDone t =>
    match s.upc t with
    | .afcLoop [] => some { s with upc := upd s.upc t .idle, win := none, child := false }
    | _ => none
  -- ---------------------------------------------------------------- helper thread
  | .hStart h =>
    -- rcu_register_thread(); URCU_TLS(thread_call_rcu_data) = crdp; (futex) → loop
    if s.hpc h = .start then some { s with hpc := upd s.hpc h .top, registry := .h h :: s.registry } else none
  | .hTop h =>
    if s.hpc h = .top then some { s with hpc := upd s.hpc h (if s.pause h then .unreg else .splice) } else none
  | .hUnreg h =>
    if s.hpc h = .unreg then some { s with hpc := upd s.hpc h .setPaused, registry := s.registry.filter (· ≠ .h h) } else none
  | .hSetPaused h =>
    if s.hpc h = .setPaused then some { s with hpc := upd s.hpc h .spin, paused := upd s.paused h true } else none
  | .hSpinExit h =>
    if s.hpc h = .spin ∧ s.pause h = false then some { s with hpc := upd s.hpc h .clrPaused } else none
  | .hClrPaused h =>
    if s.hpc h = .clrPaused then some { s with hpc := upd s.hpc h .rereg, paused := upd s.paused h false } else none
  | .hRereg h =>
    if s.hpc h = .rereg then some { s with hpc := upd s.hpc h .splice, registry := .h h :: s.registry } else none
  | .hSplice h =>
    if s.hpc h = .splice then
      if s.queue h = [] then some { s with hpc := upd s.hpc h .wait }
      else some { s with hpc := upd s.hpc h .g0, batch := upd s.batch h (s.queue h), queue := upd s.queue h [],
                         loc := relocate s.loc (.queue h) (.batch h) }
    else none
  | .hGpBegin h =>
    if s.hpc h = .g0 ∧ s.gpl = none then
      some { s with hpc := upd s.hpc h .g1, gpl := some (.h h), waitL := waitSet s none }
    else none
  | .hGpSkip h =>
    if s.hpc h = .g0 then some { s with hpc := upd s.hpc h .inv } else none
  | .hGpEnd h =>
    if s.hpc h = .g1 ∧ s.gpl = some (.h h) ∧ s.waitL = [] then some { s with hpc := upd s.hpc h .inv, gpl := none } else none
  | .hInvoke h cb =>
    -- `cb` must be the first callback of the batch (`__cds_wfcq_for_each_blocking_safe` order)
    if s.hpc h = .inv ∧ (s.batch h).head? = some cb then
      some { s with batch := upd s.batch h (s.batch h).tail, loc := upd s.loc cb .done,
                    invN := upd s.invN cb (s.invN cb + 1), invSince := upd s.invSince cb (s.invSince cb + 1),
                    bpend := match s.bar cb with
                      | some b => upd s.bpend b ((s.bpend b).filter (· ≠ cb))
                      | none => s.bpend }
    else none
  | .hChain h id =>
    -- a running callback calls call_rcu(): enqueue on the helper's own queue
    if s.hpc h = .inv ∧ s.reg id = false then
      some { s with reg := upd s.reg id true, loc := upd s.loc id (.queue h), queue := upd s.queue h (s.queue h ++ [id]) }
    else none
  | .hInvDone h =>
    if s.hpc h = .inv ∧ s.batch h = [] then some { s with hpc := upd s.hpc h .wait } else none
  | .hWait h =>
    -- STOP check (never set here), offline, empty check, futex wait / poll, online
    if s.hpc h = .wait then some { s with hpc := upd s.hpc h .top } else none

inductive Reach (c : Cfg) : State → Prop
  | init : Reach c init
  | step {s s' l} : Reach c s → step c s l = some s' → Reach c s'

/-- reachability inside one process from a given state (`forkChild` leaves the process) -/
inductive ReachFrom (c : Cfg) (s0 : State) : State → Prop
  | refl : ReachFrom c s0 s0
  | step {s s' l} : ReachFrom c s0 s → (∀ t, l ≠ .forkChild t) → step c s l = some s' → ReachFrom c s0 s'

def run (c : Cfg) : State → List Label → Option State
  | s, [] => some s
  | s, l :: ls => match step c s l with
    | none => none
    | some s' => run c s' ls

end UrcuVerif.Fork
