import UrcuVerif.Machine.Upd
/-!
# C16 — fork() with the documented handlers (`src/urcu-call-rcu-impl.h`: `call_rcu_before_fork`,
`call_rcu_after_fork_parent`, `call_rcu_after_fork_child`, the pause branch of `call_rcu_thread`,
`_call_rcu_data_free(crdp, 0)`)

Abstract-algorithm level ("L2") executable model, self-contained (core Lean only).  One `State` is the
state of ONE process.  The label `forkChild t` maps the state of the forking process to the initial
state of the child *as a function of the parent state*: same memory (queues, flags, futexes, locks,
registry, lists, pointers – exactly as the other threads left them), only thread `t` survives, every
other thread's program counter is erased (`gone`); what lived only in an erased thread's stack
(`batch`, `cur`) is unreachable in the child.  `forkParent t` is the same instant seen from the
parent.  `Reach` is closed under both, so it contains the states of every process of the process
tree (children may fork again).

* application threads `t < c.n` (`Th.u t`, program counter `upc t`) and helper threads (`Th.h h`,
  running `call_rcu_thread`: `hpc h`; while a helper executes a callback (`run`) the callback may
  call `call_rcu()` again – `hChain` + `hWake`, it lands on the helper's own queue because
  `URCU_TLS(thread_call_rcu_data)` of a helper thread is its own `crdp`);
* helpers `h < nextH` with `queue` (the wfcqueue `crdp->cbs` as an abstract FIFO, enqueue atomic at
  the xchg: C10), `batch` (spliced-out private list), `cur` (callback being run), the flag bits
  `rt / pause / paused / stopped` of `crdp->flags`, `futex`; `list` = `call_rcu_data_list` in C order
  (`cds_list_add` = cons), `dflt`, per-CPU array `percpu` (+ `arr` = allocated), per-thread pointer
  `thr`, `mutex` = `call_rcu_mutex`;
* reader registry of the flavor: `registry` (thread ids, `cds_list_add` = cons), `rgl` =
  `rcu_registry_lock`, `gpl` = `rcu_gp_lock`; a grace period takes `gpl`, then `rgl` (first
  acquisition: `waitL` := registered threads inside a read-side section), may drop/retake `rgl` while
  waiting and returns (releases `gpl`) only when every thread of `waitL` has left its section
  (`GpSpec` abstraction of C01; `gpSkip` = the caller was served by another thread's grace period
  through the wait queue and takes no lock);
* `wake_call_rcu_thread(h)` = one step `wake` (`wakeS`: a non-RT helper whose futex is -1 gets 0 and is
  made runnable if it sleeps; the trace checker feeds it at the store of 0, or at the load when no
  store follows);
* `rcu_barrier()` = markers (callbacks with `bar id = some b`) queued on every helper of `list` under
  the mutex; `bpend b` = markers of barrier `b` not yet run (`barrier_count` = its length).
* ghost: `reg`, `loc` (where a callback is), `holder`, `invN` (invocations in the whole history of
  this process incl. its ancestors up to the fork), `atFork` (queued at the last fork), `invSince`
  (invocations since the last fork, in this process), `win` (thread inside the fork window),
  `child` (between fork and the end of `after_fork_child`), `gen`.

Not modelled (see Props/C16): `call_rcu_data_free()` / helper STOP in a running process (C03), the
lfht work-queue hook (separate model `Fork/Wq.lean`), urcu-bp (separate model `Fork/Bp.lean`).
Documented preconditions are guards: `bfCall` (handlers are called outside read-side sections, by an
application thread), `forkParent/forkChild` (`ForkPre`: every other application thread is outside
liburcu and not registered as a reader).
-/
namespace UrcuVerif.Fork

structure Cfg where
  n : Nat          -- application thread ids are `t < n`
  deriving Repr

/-- a thread: application thread or the thread of helper `h` -/
inductive Th | u (t : Nat) | h (h : Nat)
  deriving DecidableEq, Repr

inductive Loc | none | pend | queue (h : Nat) | batch (h : Nat) | run (h : Nat) | done
  deriving DecidableEq, Repr

inductive Via | thr | cpu (c : Nat) | dflt
  deriving DecidableEq, Repr

inductive Op
  | create (rt : Bool)                       -- create_call_rcu_data(flags, _)
  | setCpu (cpu : Nat) (ho : Option Nat)     -- set_cpu_call_rcu_data(cpu, crdp)
  deriving DecidableEq, Repr

/-- application-level program counter of a thread -/
inductive UPc
  | gone | idle
  | sel (id : Nat) | gdLock (id : Nat) | gdCreate (id : Nat) | gdUnlock (id : Nat)
  | enq (id h : Nat) | crWk (h : Nat) | crRet
  | opLock (op : Op) | opDo (op : Op) | opUnlock
  | regLock | regDo | unregLock | unregDo
  | g0 | g1 | g2 | g3
  | barLock (b : Nat) | barLoop (b : Nat) (rem : List Nat) | barWk (b h : Nat) (rem : List Nat) | barWait (b : Nat)
  | bfLock | bfPause (rem : List Nat) | bfWk (h : Nat) (rem : List Nat) | bfWait (rem : List Nat) | atFork
  | afpClr (rem : List Nat) | afpWait (rem : List Nat)
  | afcUnlock | afcChk | afcGdLock | afcGdCreate | afcGdUnlock | afcReset
  | afcLoop (rem : List Nat) | afcStop (h : Nat) (rem : List Nat) | afcFLock (h : Nat) (rem : List Nat)
  | afcFChk (h : Nat) (rem : List Nat) | afcFLock2 (h : Nat) (rem : List Nat) | afcSplice (h : Nat) (rem : List Nat)
  | afcWk (d h : Nat) (rem : List Nat) | afcDel (h : Nat) (rem : List Nat)
  deriving DecidableEq, Repr

/-- program counter of `call_rcu_thread` -/
inductive HPc
  | none | gone
  | start | startReg | dec0
  | top | unreg1 | unreg2 | setPaused | spin | clrPaused | rereg1 | rereg2
  | splice | g0 | g1 | g2 | g3 | inv | run | runWk | stopchk | emptychk
  | waitLd | waitSys | asleep | pollW | dec | pollN
  deriving DecidableEq, Repr

/-- outcome of `futex(FUTEX_WAIT)` chosen by the environment -/
inductive FOut | sleep | eagain | eintr | spurious
  deriving DecidableEq, Repr

structure State where
  upc     : Nat → UPc
  nest    : Nat → Nat
  thr     : Nat → Option Nat
  hpc     : Nat → HPc
  queue   : Nat → List Nat
  batch   : Nat → List Nat
  cur     : Nat → Option Nat
  rt      : Nat → Bool
  pause   : Nat → Bool
  paused  : Nat → Bool
  stopped : Nat → Bool
  freed   : Nat → Bool
  futex   : Nat → Int
  nextH   : Nat
  list    : List Nat
  dflt    : Option Nat
  arr     : Bool
  percpu  : Nat → Option Nat
  mutex   : Option Nat
  gpl     : Option Th
  rgl     : Option Th
  registry : List Th
  waitL   : List Nat
  bpend   : Nat → List Nat
  -- ghost
  reg     : Nat → Bool
  loc     : Nat → Loc
  holder  : Nat → Nat
  invN    : Nat → Nat
  bar     : Nat → Option Nat
  atFork  : Nat → Bool
  invSince : Nat → Nat
  win     : Option Nat
  child   : Bool
  gen     : Nat

def init : State :=
  { upc := fun _ => .idle, nest := fun _ => 0, thr := fun _ => none, hpc := fun _ => .none,
    queue := fun _ => [], batch := fun _ => [], cur := fun _ => none, rt := fun _ => false,
    pause := fun _ => false, paused := fun _ => false, stopped := fun _ => false, freed := fun _ => false,
    futex := fun _ => 0, nextH := 0, list := [], dflt := none, arr := false, percpu := fun _ => none,
    mutex := none, gpl := none, rgl := none, registry := [], waitL := [], bpend := fun _ => [],
    reg := fun _ => false, loc := fun _ => .none, holder := fun _ => 0, invN := fun _ => 0, bar := fun _ => none,
    atFork := fun _ => false, invSince := fun _ => 0, win := none, child := false, gen := 0 }

inductive Label
  -- read-side sections, registration, synchronize_rcu() of any thread
  | rlock (t : Nat) | runlock (t : Nat)
  | regCall (t : Nat) | regLock (t : Nat) | regDone (t : Nat)
  | unregCall (t : Nat) | unregLock (t : Nat) | unregDone (t : Nat)
  | syncCall (t : Nat) | gpLock (t : Nat) | gpSkip (t : Nat) | rgLock (t : Nat) | rgUnlock (t : Nat) | gpUnlock (t : Nat)
  -- call_rcu()
  | crCall (t id : Nat) | crSel (t : Nat) (v : Via) | crNoSel (t : Nat) | gdLock (t : Nat) | gdCreate (t : Nat) | gdUnlock (t : Nat)
  | crEnq (t : Nat) | wake (t : Nat) | crRet (t : Nat)
  -- create_call_rcu_data / set_cpu_call_rcu_data / set_thread_call_rcu_data
  | opCall (t : Nat) (op : Op) | opLock (t : Nat) | opDo (t : Nat) | opUnlock (t : Nat) | setThr (t : Nat) (ho : Option Nat)
  -- rcu_barrier()
  | barCall (t b : Nat) | barLock (t : Nat) | barEnq (t id : Nat) | barUnlock (t : Nat) | barRet (t : Nat)
  -- call_rcu_before_fork()
  | bfCall (t : Nat) | bfLock (t : Nat) | bfPause (t : Nat) | bfPauseDone (t : Nat) | bfWait (t : Nat) | bfRet (t : Nat)
  -- fork()
  | forkParent (t : Nat) | forkChild (t : Nat)
  -- call_rcu_after_fork_parent()
  | afpClr (t : Nat) | afpClrDone (t : Nat) | afpWait (t : Nat) | afpUnlock (t : Nat)
  -- call_rcu_after_fork_child()
  | afcUnlock (t : Nat) | afcChk (t : Nat) | afcGdLock (t : Nat) | afcGdCreate (t : Nat) | afcGdUnlock (t : Nat)
  | afcReset (t : Nat) | afcNext (t : Nat) | afcStop (t : Nat) | afcFLock (t : Nat) | afcFChk (t : Nat)
  | afcFLock2 (t : Nat) | afcSplice (t : Nat) | afcDel (t : Nat) | afcDone (t : Nat)
  -- helper thread
  | hStart (h : Nat) | hStartDone (h : Nat) | hDec0 (h : Nat)
  | hTop (h : Nat) | hUnreg1 (h : Nat) | hUnreg2 (h : Nat) | hSetPaused (h : Nat) | hSpinExit (h : Nat)
  | hClrPaused (h : Nat) | hRereg1 (h : Nat) | hRereg2 (h : Nat)
  | hSplice (h : Nat) | hGpLock (h : Nat) | hGpSkip (h : Nat) | hRgLock (h : Nat) | hRgUnlock (h : Nat) | hGpUnlock (h : Nat)
  | hRunBegin (h cb : Nat) | hChain (h id : Nat) | hWake (h : Nat) | hRunEnd (h : Nat) | hInvDone (h : Nat) | hStopChk (h : Nat) | hEmptyChk (h : Nat)
  | hWaitLd (h : Nat) | hWaitSys (h : Nat) (o : FOut) | hSpurious (h : Nat) | hPollW (h : Nat) | hDec (h : Nat) | hPollN (h : Nat)
  deriving DecidableEq, Repr

/-- `call_rcu_data_init()`: new helper `nextH`, first in `call_rcu_data_list`, thread spawned -/
def newHelper (s : State) (rt : Bool) : State :=
  { s with hpc := upd s.hpc s.nextH .start, rt := upd s.rt s.nextH rt, list := s.nextH :: s.list,
           nextH := s.nextH + 1 }

/-- `wake_call_rcu_thread(h)` as one step (the store of 0 and the FUTEX_WAKE; a helper that is not
RT and whose futex is -1 gets 0 and, if it sleeps, is made runnable) -/
def wakes (s : State) (h : Nat) : Prop := s.rt h = false ∧ s.futex h = -1

instance (s h) : Decidable (wakes s h) := by unfold wakes; infer_instance

def wakeS (s : State) (h : Nat) (t : Nat) (pc : UPc) : State :=
  { s with upc := upd s.upc t pc,
           futex := if wakes s h then upd s.futex h 0 else s.futex,
           hpc := if wakes s h ∧ s.hpc h = .asleep then upd s.hpc h .waitLd else s.hpc }

def relocate (loc : Nat → Loc) (frm to : Loc) : Nat → Loc :=
  fun id => if loc id = frm then to else loc id

/-- **Documented precondition of fork() for the flavors other than bp**: every other application
thread is outside liburcu (idle) and not registered as a reader. -/
def ForkPre (c : Cfg) (s : State) (t : Nat) : Prop :=
  t < c.n ∧ (∀ u, u < c.n → u ≠ t → s.upc u = .idle ∨ s.upc u = .gone) ∧ (∀ u, Th.u u ∈ s.registry → u = t)

/-- executable form of `ForkPre` -/
def forkPreB (c : Cfg) (s : State) (t : Nat) : Bool :=
  decide (t < c.n) && (List.range c.n).all (fun u => u == t || s.upc u == .idle || s.upc u == .gone) &&
  s.registry.all (fun r => match r with | .u u => u == t | .h _ => true)

/-- obligation when publishing a helper (per-thread or per-CPU): it exists -/
def PtrOk (s : State) : Option Nat → Prop
  | none => True
  | some h => h ∈ s.list

instance (s ho) : Decidable (PtrOk s ho) := by unfold PtrOk; cases ho <;> infer_instance

def OpOk (s : State) : Op → Prop
  | .setCpu _ ho => PtrOk s ho
  | _ => True

instance (s op) : Decidable (OpOk s op) := by unfold OpOk; cases op <;> infer_instance

/-- application threads a grace period started by `me` has to wait for: registered and inside a
read-side section (helper threads only take sections inside `call_rcu()`, folded into `hChain`) -/
def waitSet (s : State) (me : Option Nat) : List Nat :=
  s.registry.filterMap (fun r => match r with
    | .u u => if some u ≠ me ∧ 0 < s.nest u then some u else none
    | .h _ => none)

def isQueue : Loc → Bool
  | .queue _ => true
  | _ => false

/-- the child's state as a function of the parent's state at the fork -/
def childOf (s : State) (t : Nat) : State :=
  { s with upc := fun u => if u = t then .afcUnlock else .gone,
           hpc := fun h => if s.hpc h = .none then .none else .gone,
           batch := fun _ => [], cur := fun _ => none,
           atFork := fun id => isQueue (s.loc id), invSince := fun _ => 0,
           child := true, gen := s.gen + 1 }

/-- the parent's state right after fork() returned -/
def parentOf (s : State) (t : Nat) : State :=
  { s with upc := upd s.upc t (.afpClr s.list),
           atFork := fun id => isQueue (s.loc id), invSince := fun _ => 0 }

/-- One step; `none` = not enabled. -/
def step (c : Cfg) (s : State) : Label → Option State
  -- ---------------------------------------------------------------- readers, registration
  | .rlock t =>
    if t < c.n ∧ s.upc t = .idle then some { s with nest := upd s.nest t (s.nest t + 1) } else none
  | .runlock t =>
    if t < c.n ∧ s.upc t = .idle ∧ 0 < s.nest t then
      some { s with nest := upd s.nest t (s.nest t - 1), waitL := if s.nest t = 1 then s.waitL.erase t else s.waitL }
    else none
  | .regCall t =>
    if t < c.n ∧ s.upc t = .idle ∧ Th.u t ∉ s.registry then some { s with upc := upd s.upc t .regLock } else none
  | .regLock t =>
    if s.upc t = .regLock ∧ s.rgl = none then some { s with upc := upd s.upc t .regDo, rgl := some (.u t) } else none
  | .regDone t =>
    if s.upc t = .regDo ∧ s.rgl = some (.u t) then
      some { s with upc := upd s.upc t .idle, rgl := none, registry := .u t :: s.registry }
    else none
  | .unregCall t =>
    if t < c.n ∧ s.upc t = .idle ∧ Th.u t ∈ s.registry ∧ s.nest t = 0 then some { s with upc := upd s.upc t .unregLock } else none
  | .unregLock t =>
    if s.upc t = .unregLock ∧ s.rgl = none then some { s with upc := upd s.upc t .unregDo, rgl := some (.u t) } else none
  | .unregDone t =>
    if s.upc t = .unregDo ∧ s.rgl = some (.u t) then
      some { s with upc := upd s.upc t .idle, rgl := none, registry := s.registry.filter (· ≠ .u t) }
    else none
  -- ---------------------------------------------------------------- synchronize_rcu()
  | .syncCall t =>
    if t < c.n ∧ s.upc t = .idle ∧ s.nest t = 0 then some { s with upc := upd s.upc t .g0 } else none
  | .gpLock t =>
    if s.upc t = .g0 ∧ s.gpl = none then some { s with upc := upd s.upc t .g1, gpl := some (.u t) } else none
  | .gpSkip t =>
    if s.upc t = .g0 then some { s with upc := upd s.upc t .idle } else none
  | .rgLock t =>
    if s.rgl = none then
      match s.upc t with
      | .g1 => some { s with upc := upd s.upc t .g2, rgl := some (.u t), waitL := waitSet s (some t) }
      | .g3 => some { s with upc := upd s.upc t .g2, rgl := some (.u t) }
      | _ => none
    else none
  | .rgUnlock t =>
    if s.upc t = .g2 ∧ s.rgl = some (.u t) then some { s with upc := upd s.upc t .g3, rgl := none } else none
  | .gpUnlock t =>
    if s.upc t = .g3 ∧ s.gpl = some (.u t) ∧ s.waitL = [] then some { s with upc := upd s.upc t .idle, gpl := none } else none
  -- ---------------------------------------------------------------- call_rcu()
  | .crCall t id =>
    if t < c.n ∧ s.upc t = .idle ∧ Th.u t ∈ s.registry ∧ s.reg id = false then
      some { s with upc := upd s.upc t (.sel id), nest := upd s.nest t (s.nest t + 1), reg := upd s.reg id true,
                    loc := upd s.loc id .pend, holder := upd s.holder id t }
    else none
  | .crSel t v =>
    match s.upc t with
    | .sel id =>
      match v with
      | .thr => match s.thr t with
        | some h => some { s with upc := upd s.upc t (.enq id h) }
        | none => none
      | .cpu cpu => match s.thr t, s.percpu cpu with
        | none, some h => if s.arr = true then some { s with upc := upd s.upc t (.enq id h) } else none
        | _, _ => none
      | .dflt => match s.thr t, s.dflt with
        | none, some d => some { s with upc := upd s.upc t (.enq id d) }
        | _, _ => none
    | _ => none
  | .crNoSel t =>
    match s.upc t, s.thr t, s.dflt with
    | .sel id, none, none => some { s with upc := upd s.upc t (.gdLock id) }
    | _, _, _ => none
  | .gdLock t =>
    match s.upc t with
    | .gdLock id => if s.mutex = none then some { s with upc := upd s.upc t (.gdCreate id), mutex := some t } else none
    | _ => none
  | .gdCreate t =>
    match s.upc t with
    | .gdCreate id =>
      match s.dflt with
      | some _ => some { s with upc := upd s.upc t (.gdUnlock id) }
      | none =>
        let s1 := newHelper s false
        some { s1 with upc := upd s1.upc t (.gdUnlock id), dflt := some s.nextH }
    | _ => none
  | .gdUnlock t =>
    match s.upc t, s.dflt with
    | .gdUnlock id, some d =>
      if s.mutex = some t then some { s with upc := upd s.upc t (.enq id d), mutex := none } else none
    | _, _ => none
  | .crEnq t =>
    match s.upc t with
    | .enq id h =>
      some { s with upc := upd s.upc t (.crWk h), queue := upd s.queue h (s.queue h ++ [id]),
                    loc := upd s.loc id (.queue h) }
    | _ => none
  | .wake t =>
    match s.upc t with
    | .crWk h => some (wakeS s h t .crRet)
    | .barWk b h rem => some (wakeS s h t (.barLoop b rem))
    | .bfWk h rem => some (wakeS s h t (.bfPause rem))
    | .afcWk d h rem => some (wakeS s d t (.afcDel h rem))
    | _ => none
  | .crRet t =>
    if s.upc t = .crRet ∧ 0 < s.nest t then
      some { s with upc := upd s.upc t .idle, nest := upd s.nest t (s.nest t - 1),
                    waitL := if s.nest t = 1 then s.waitL.erase t else s.waitL }
    else none
  -- ---------------------------------------------------------------- operations under the mutex
  | .opCall t op =>
    if t < c.n ∧ s.upc t = .idle ∧ OpOk s op then
      some { s with upc := upd s.upc t (.opLock op) }
    else none
  | .opLock t =>
    match s.upc t with
    | .opLock op => if s.mutex = none then some { s with upc := upd s.upc t (.opDo op), mutex := some t } else none
    | _ => none
  | .opDo t =>
    match s.upc t with
    | .opDo (.create rt) =>
      let s1 := newHelper s rt
      some { s1 with upc := upd s1.upc t .opUnlock }
    | .opDo (.setCpu cpu ho) =>
      if s.percpu cpu ≠ none ∧ ho ≠ none then some { s with arr := true, upc := upd s.upc t .opUnlock }
      else if PtrOk s ho then
        some { s with arr := true, upc := upd s.upc t .opUnlock, percpu := upd s.percpu cpu ho }
      else none
    | _ => none
  | .opUnlock t =>
    if s.upc t = .opUnlock ∧ s.mutex = some t then some { s with upc := upd s.upc t .idle, mutex := none } else none
  | .setThr t ho =>
    if t < c.n ∧ s.upc t = .idle ∧ PtrOk s ho then some { s with thr := upd s.thr t ho } else none
  -- ---------------------------------------------------------------- rcu_barrier()
  | .barCall t b =>
    if t < c.n ∧ s.upc t = .idle ∧ s.nest t = 0 ∧ s.bpend b = [] then
      some { s with upc := upd s.upc t (.barLock b) }
    else none
  | .barLock t =>
    match s.upc t with
    | .barLock b => if s.mutex = none then some { s with upc := upd s.upc t (.barLoop b s.list), mutex := some t } else none
    | _ => none
  | .barEnq t id =>
    match s.upc t with
    | .barLoop b (h :: rem) =>
      if s.reg id = false then
        some { s with upc := upd s.upc t (.barWk b h rem), reg := upd s.reg id true, bar := upd s.bar id (some b),
                      loc := upd s.loc id (.queue h), holder := upd s.holder id t,
                      queue := upd s.queue h (s.queue h ++ [id]), bpend := upd s.bpend b (id :: s.bpend b) }
      else none
    | _ => none
  | .barUnlock t =>
    match s.upc t with
    | .barLoop b [] => if s.mutex = some t then some { s with upc := upd s.upc t (.barWait b), mutex := none } else none
    | _ => none
  | .barRet t =>
    match s.upc t with
    | .barWait b => if s.bpend b = [] then some { s with upc := upd s.upc t .idle } else none
    | _ => none
  -- ---------------------------------------------------------------- call_rcu_before_fork()
  | .bfCall t =>
    if t < c.n ∧ s.upc t = .idle ∧ s.nest t = 0 then some { s with upc := upd s.upc t .bfLock } else none
  | .bfLock t =>
    if s.upc t = .bfLock ∧ s.mutex = none then
      some { s with upc := upd s.upc t (.bfPause s.list), mutex := some t, win := some t }
    else none
  | .bfPause t =>
    match s.upc t with
    | .bfPause (h :: rem) => some { s with upc := upd s.upc t (.bfWk h rem), pause := upd s.pause h true }
    | _ => none
  | .bfPauseDone t =>
    match s.upc t with
    | .bfPause [] => some { s with upc := upd s.upc t (.bfWait s.list) }
    | _ => none
  | .bfWait t =>
    match s.upc t with
    | .bfWait (h :: rem) => if s.paused h = true then some { s with upc := upd s.upc t (.bfWait rem) } else none
    | _ => none
  | .bfRet t =>
    match s.upc t with
    | .bfWait [] => some { s with upc := upd s.upc t .atFork }
    | _ => none
  -- ---------------------------------------------------------------- fork()
  | .forkParent t =>
    if s.upc t = .atFork ∧ forkPreB c s t = true then some (parentOf s t) else none
  | .forkChild t =>
    if s.upc t = .atFork ∧ forkPreB c s t = true then some (childOf s t) else none
  -- ---------------------------------------------------------------- call_rcu_after_fork_parent()
  | .afpClr t =>
    match s.upc t with
    | .afpClr (h :: rem) => some { s with upc := upd s.upc t (.afpClr rem), pause := upd s.pause h false }
    | _ => none
  | .afpClrDone t =>
    match s.upc t with
    | .afpClr [] => some { s with upc := upd s.upc t (.afpWait s.list) }
    | _ => none
  | .afpWait t =>
    match s.upc t with
    | .afpWait (h :: rem) => if s.paused h = false then some { s with upc := upd s.upc t (.afpWait rem) } else none
    | _ => none
  | .afpUnlock t =>
    match s.upc t with
    | .afpWait [] => if s.mutex = some t then some { s with upc := upd s.upc t .idle, mutex := none, win := none } else none
    | _ => none
  -- ---------------------------------------------------------------- call_rcu_after_fork_child()
  | .afcUnlock t =>
    if s.upc t = .afcUnlock ∧ s.mutex = some t then some { s with upc := upd s.upc t .afcChk, mutex := none } else none
  | .afcChk t =>
    if s.upc t = .afcChk then
      if s.list = [] then some { s with upc := upd s.upc t .idle, win := none, child := false }
      else some { s with upc := upd s.upc t .afcGdLock, dflt := none }
    else none
  | .afcGdLock t =>
    if s.upc t = .afcGdLock ∧ s.mutex = none then some { s with upc := upd s.upc t .afcGdCreate, mutex := some t } else none
  | .afcGdCreate t =>
    if s.upc t = .afcGdCreate then
      let s1 := newHelper s false
      some { s1 with upc := upd s1.upc t .afcGdUnlock, dflt := some s.nextH }
    else none
  | .afcGdUnlock t =>
    if s.upc t = .afcGdUnlock ∧ s.mutex = some t then some { s with upc := upd s.upc t .afcReset, mutex := none } else none
  | .afcReset t =>
    if s.upc t = .afcReset then
      some { s with upc := upd s.upc t (.afcLoop s.list), arr := false, percpu := fun _ => none, thr := upd s.thr t none }
    else none
  | .afcNext t =>
    match s.upc t with
    | .afcLoop (h :: rem) =>
      some { s with upc := upd s.upc t (if s.dflt = some h then .afcLoop rem else .afcStop h rem) }
    | _ => none
  | .afcStop t =>
    match s.upc t with
    | .afcStop h rem =>
      -- `uatomic_store(&crdp->flags, URCU_CALL_RCU_STOPPED)`: every other flag bit is overwritten
      some { s with upc := upd s.upc t (.afcFLock h rem), stopped := upd s.stopped h true, pause := upd s.pause h false,
                    paused := upd s.paused h false, rt := upd s.rt h false }
    | _ => none
  | .afcFLock t =>
    match s.upc t with
    | .afcFLock h rem =>
      -- `_call_rcu_data_free(h, 0)`: STOPPED is set, so no STOP / wait-for-STOPPED; lock
      if s.stopped h = true ∧ s.mutex = none then some { s with upc := upd s.upc t (.afcFChk h rem), mutex := some t } else none
    | _ => none
  | .afcFChk t =>
    match s.upc t with
    | .afcFChk h rem =>
      if s.queue h = [] then some { s with upc := upd s.upc t (.afcDel h rem) }
      else if s.mutex = some t ∧ s.dflt ≠ none then some { s with upc := upd s.upc t (.afcFLock2 h rem), mutex := none }
      else none
    | _ => none
  | .afcFLock2 t =>
    match s.upc t with
    | .afcFLock2 h rem => if s.mutex = none then some { s with upc := upd s.upc t (.afcSplice h rem), mutex := some t } else none
    | _ => none
  | .afcSplice t =>
    match s.upc t, s.dflt with
    | .afcSplice h rem, some d =>
      if d ≠ h then
        some { s with upc := upd s.upc t (.afcWk d h rem),
                      queue := upd (upd s.queue d (s.queue d ++ s.queue h)) h [],
                      loc := relocate s.loc (.queue h) (.queue d) }
      else none
    | _, _ => none
  | .afcDel t =>
    match s.upc t with
    | .afcDel h rem =>
      -- `cds_list_del(&crdp->list)`, unlock, NO pthread_join (flags = 0), `free(crdp)`
      if s.mutex = some t then
        some { s with upc := upd s.upc t (.afcLoop rem), list := s.list.erase h, mutex := none, freed := upd s.freed h true }
      else none
    | _ => none
  | .afcDone t =>
    match s.upc t with
    | .afcLoop [] => some { s with upc := upd s.upc t .idle, win := none, child := false }
    | _ => none
  -- ---------------------------------------------------------------- helper thread
  | .hStart h =>
    if s.hpc h = .start ∧ s.rgl = none then some { s with hpc := upd s.hpc h .startReg, rgl := some (.h h) } else none
  | .hStartDone h =>
    if s.hpc h = .startReg ∧ s.rgl = some (.h h) then
      some { s with hpc := upd s.hpc h (if s.rt h then .top else .dec0), rgl := none, registry := .h h :: s.registry }
    else none
  | .hDec0 h =>
    if s.hpc h = .dec0 then some { s with hpc := upd s.hpc h .top, futex := upd s.futex h (s.futex h - 1) } else none
  | .hTop h =>
    if s.hpc h = .top then some { s with hpc := upd s.hpc h (if s.pause h then .unreg1 else .splice) } else none
  | .hUnreg1 h =>
    if s.hpc h = .unreg1 ∧ s.rgl = none then some { s with hpc := upd s.hpc h .unreg2, rgl := some (.h h) } else none
  | .hUnreg2 h =>
    if s.hpc h = .unreg2 ∧ s.rgl = some (.h h) then
      some { s with hpc := upd s.hpc h .setPaused, rgl := none, registry := s.registry.filter (· ≠ .h h) }
    else none
  | .hSetPaused h =>
    if s.hpc h = .setPaused then some { s with hpc := upd s.hpc h .spin, paused := upd s.paused h true } else none
  | .hSpinExit h =>
    if s.hpc h = .spin ∧ s.pause h = false then some { s with hpc := upd s.hpc h .clrPaused } else none
  | .hClrPaused h =>
    if s.hpc h = .clrPaused then some { s with hpc := upd s.hpc h .rereg1, paused := upd s.paused h false } else none
  | .hRereg1 h =>
    if s.hpc h = .rereg1 ∧ s.rgl = none then some { s with hpc := upd s.hpc h .rereg2, rgl := some (.h h) } else none
  | .hRereg2 h =>
    if s.hpc h = .rereg2 ∧ s.rgl = some (.h h) then
      some { s with hpc := upd s.hpc h .splice, rgl := none, registry := .h h :: s.registry }
    else none
  | .hSplice h =>
    if s.hpc h = .splice then
      if s.queue h = [] then some { s with hpc := upd s.hpc h .stopchk }
      else some { s with hpc := upd s.hpc h .g0, batch := upd s.batch h (s.queue h), queue := upd s.queue h [],
                         loc := relocate s.loc (.queue h) (.batch h) }
    else none
  | .hGpLock h =>
    if s.hpc h = .g0 ∧ s.gpl = none then some { s with hpc := upd s.hpc h .g1, gpl := some (.h h) } else none
  | .hGpSkip h =>
    if s.hpc h = .g0 then some { s with hpc := upd s.hpc h .inv } else none
  | .hRgLock h =>
    if s.rgl = none then
      match s.hpc h with
      | .g1 => some { s with hpc := upd s.hpc h .g2, rgl := some (.h h), waitL := waitSet s none }
      | .g3 => some { s with hpc := upd s.hpc h .g2, rgl := some (.h h) }
      | _ => none
    else none
  | .hRgUnlock h =>
    if s.hpc h = .g2 ∧ s.rgl = some (.h h) then some { s with hpc := upd s.hpc h .g3, rgl := none } else none
  | .hGpUnlock h =>
    if s.hpc h = .g3 ∧ s.gpl = some (.h h) ∧ s.waitL = [] then some { s with hpc := upd s.hpc h .inv, gpl := none } else none
  | .hRunBegin h cb =>
    if s.hpc h = .inv ∧ (s.batch h).head? = some cb then
      some { s with hpc := upd s.hpc h .run, batch := upd s.batch h (s.batch h).tail, cur := upd s.cur h (some cb),
                    loc := upd s.loc cb (.run h), invN := upd s.invN cb (s.invN cb + 1),
                    invSince := upd s.invSince cb (s.invSince cb + 1) }
    else none
  | .hRunEnd h =>
    match s.cur h with
    | some cb =>
      if s.hpc h = .run then
        some { s with hpc := upd s.hpc h .inv, cur := upd s.cur h none, loc := upd s.loc cb .done,
                      bpend := match s.bar cb with
                        | some b => upd s.bpend b ((s.bpend b).erase cb)
                        | none => s.bpend }
      else none
    | none => none
  | .hChain h id =>
    -- the running callback calls call_rcu(): enqueue on the helper's own queue
    if s.hpc h = .run ∧ s.reg id = false then
      some { s with hpc := upd s.hpc h .runWk, reg := upd s.reg id true, loc := upd s.loc id (.queue h),
                    queue := upd s.queue h (s.queue h ++ [id]) }
    else none
  | .hWake h =>
    if s.hpc h = .runWk then
      some { s with hpc := upd s.hpc h .run, futex := if wakes s h then upd s.futex h 0 else s.futex }
    else none
  | .hInvDone h =>
    if s.hpc h = .inv ∧ s.batch h = [] then some { s with hpc := upd s.hpc h .stopchk } else none
  | .hStopChk h =>
    if s.hpc h = .stopchk then some { s with hpc := upd s.hpc h (if s.rt h then .pollN else .emptychk) } else none
  | .hEmptyChk h =>
    if s.hpc h = .emptychk then some { s with hpc := upd s.hpc h (if s.queue h = [] then .waitLd else .pollN) } else none
  | .hWaitLd h =>
    if s.hpc h = .waitLd then some { s with hpc := upd s.hpc h (if s.futex h = -1 then .waitSys else .pollW) } else none
  | .hWaitSys h o =>
    if s.hpc h = .waitSys then
      match o with
      | .sleep => if s.futex h = -1 then some { s with hpc := upd s.hpc h .asleep } else none
      | .eagain => if s.futex h ≠ -1 then some { s with hpc := upd s.hpc h .pollW } else none
      | .eintr => some { s with hpc := upd s.hpc h .waitLd }
      | .spurious => some { s with hpc := upd s.hpc h .waitLd }
    else none
  | .hSpurious h =>
    if s.hpc h = .asleep then some { s with hpc := upd s.hpc h .waitLd } else none
  | .hPollW h =>
    if s.hpc h = .pollW then some { s with hpc := upd s.hpc h .dec } else none
  | .hDec h =>
    if s.hpc h = .dec then some { s with hpc := upd s.hpc h .top, futex := upd s.futex h (s.futex h - 1) } else none
  | .hPollN h =>
    if s.hpc h = .pollN then some { s with hpc := upd s.hpc h .top } else none

inductive Reach (c : Cfg) : State → Prop
  | init : Reach c init
  | step {s s' l} : Reach c s → step c s l = some s' → Reach c s'

/-- reachability inside one process from a given state (no further fork into a child: `forkChild`
leaves the process; `forkParent` stays) -/
inductive ReachFrom (c : Cfg) (s0 : State) : State → Prop
  | refl : ReachFrom c s0 s0
  | step {s s' l} : ReachFrom c s0 s → (∀ t, l ≠ .forkChild t) → step c s l = some s' → ReachFrom c s0 s'

def run (c : Cfg) : State → List Label → Option State
  | s, [] => some s
  | s, l :: ls => match step c s l with
    | none => none
    | some s' => run c s' ls

end UrcuVerif.Fork
