import UrcuVerif.Fork.Pcs
/-!
# C16 — inductive invariants of the fork model (definitions, initial state, proof macros; the
per-label lemmas are in `InvP.lean`, `InvL.lean`, `InvC.lean`, assembled in `InvAll.lean`; statements
in `Props/C16.lean`)

ONE invariant for every process of the process tree (`Reach` is closed under `forkParent` and
`forkChild`), in three groups:

* `InvP` – pause protocol and structure.  `call_rcu_data_list` is duplicate free; a helper thread
  that exists in this process has its `call_rcu_data` in the list and, outside the child's
  `after_fork_child` window, every `call_rcu_data` of the list has a thread (`list_alive`);
  `call_rcu_mutex` is held exactly by the thread whose program counter says so; per program counter
  of the thread inside the fork window (`bfPause/bfWait/atFork/afpClr/afpWait`) which helpers have
  `PAUSE` and which are known to spin; `PAUSED` ⇔ helper at `spin/clrPaused`; a helper that saw `PAUSE`
  keeps seeing it until it spins; child window: the forking thread is the only application thread,
  every inherited `call_rcu_data` is thread-less and either still to be disposed of or already
  unlinked, the new default helper is the only helper with a thread, per-CPU array and per-thread
  pointer reset.
* `InvL` – `rcu_gp_lock` and registry.  The lock is held exactly by the thread whose program counter
  says so – never by an erased thread; the registry holds exactly the helpers whose program counter
  is in the registered part of `call_rcu_thread` and only application threads that exist; `waitL` ⊆
  registered threads inside a read-side section.
* `InvC` – callbacks and pointers.  The ghost location agrees with queues / batches in both
  directions, no duplicates, a queue that holds callbacks belongs to `call_rcu_data_list`; `batch` is
  empty outside the grace-period / invocation part of the helper loop; `invN` = 1 iff run;
  `atFork`/`invSince` bookkeeping; pending barrier markers are queued; `dflt`, per-CPU and per-thread
  pointers point into the list.
-/
set_option linter.unusedVariables false
set_option linter.unusedSimpArgs false
namespace UrcuVerif.Fork

/-- first loop of `call_rcu_before_fork`: `rem` = helpers still to be given PAUSE -/
def BfA (s : State) (rem : List Nat) : Prop :=
  rem.Nodup ∧ (∀ h, h ∈ rem → h ∈ s.list ∧ s.pause h = false ∧ s.paused h = false) ∧
  (∀ h, h ∈ s.list → h ∉ rem → s.pause h = true)

/-- child loop: `rem` = inherited `call_rcu_data` still to be disposed of (or the new default) -/
def ChA (s : State) (rem : List Nat) : Prop :=
  rem.Nodup ∧ (∀ h, h ∈ rem → h ∈ s.list) ∧ (∀ h, h ∈ s.list → s.hpc h = .gone → h ∈ rem)

/-- child, after the pointer reset -/
def Late (s : State) (t : Nat) : Prop :=
  (∀ cpu, s.percpu cpu = none) ∧ s.thr t = none ∧ s.arr = false ∧ s.dflt ≠ none ∧
  ∀ d, s.dflt = some d → s.hpc d ≠ .gone ∧ s.hpc d ≠ .none

structure InvP (c : Cfg) (s : State) : Prop where
  list_nodup : s.list.Nodup
  list_lt : ∀ h, h ∈ s.list → h < s.nextH
  fresh : ∀ h, s.nextH ≤ h → s.hpc h = .none ∧ s.pause h = false ∧ s.paused h = false
  used : ∀ h, h < s.nextH → s.hpc h ≠ .none
  live_in_list : ∀ h, s.hpc h ≠ .none → s.hpc h ≠ .gone → h ∈ s.list
  list_alive : s.child = false → ∀ h, h ∈ s.list → s.hpc h ≠ .gone
  m_pc : ∀ t, (s.upc t).holdsM = true → s.mutex = some t
  m_own : ∀ t, s.mutex = some t → (s.upc t).holdsM = true
  pc_win : ∀ t, (s.upc t).inBf = true ∨ (s.upc t).inAfc = true → s.win = some t
  win_pc : ∀ t, s.win = some t → (s.upc t).inBf = true ∨ (s.upc t).inAfc = true
  child_pc : ∀ t, (s.upc t).inAfc = true → s.child = true
  child_only : s.child = true → ∀ t, (s.upc t).inAfc = true ∨ s.upc t = .gone
  nowin : s.win = none → ∀ h, s.hpc h ≠ .gone → s.pause h = false ∧ s.paused h = false
  ch_flags : s.child = true → ∀ h, s.hpc h ≠ .gone → s.pause h = false ∧ s.paused h = false
  paused_pc : ∀ h, s.hpc h ≠ .gone → (s.paused h = true ↔ (s.hpc h = .spin ∨ s.hpc h = .clrPaused))
  pausing_pc : ∀ h, (s.hpc h).pausing = true → s.pause h = true
  clr_pc : ∀ h, s.hpc h = .clrPaused → s.pause h = false
  bf1 : ∀ t rem, s.upc t = .bfPause rem → BfA s rem ∧ s.win = some t ∧ s.child = false ∧ s.mutex = some t
  bf2 : ∀ t rem, s.upc t = .bfWait rem → (∀ h, h ∈ rem → h ∈ s.list) ∧ (∀ h, h ∈ s.list → s.pause h = true) ∧
          (∀ h, h ∈ s.list → h ∉ rem → s.hpc h = .spin) ∧ s.win = some t ∧ s.child = false ∧ s.mutex = some t
  bf3 : ∀ t, s.upc t = .atFork → (∀ h, h ∈ s.list → s.pause h = true ∧ s.hpc h = .spin) ∧
          s.win = some t ∧ s.child = false ∧ s.mutex = some t
  bf4 : ∀ t rem, s.upc t = .afpClr rem → rem.Nodup ∧ (∀ h, h ∈ rem → h ∈ s.list ∧ s.pause h = true ∧ s.hpc h = .spin) ∧
          (∀ h, h ∈ s.list → h ∉ rem → s.pause h = false) ∧ s.win = some t ∧ s.child = false ∧ s.mutex = some t
  bf5 : ∀ t rem, s.upc t = .afpWait rem → (∀ h, h ∈ rem → h ∈ s.list) ∧ (∀ h, h ∈ s.list → s.pause h = false) ∧
          (∀ h, h ∈ s.list → h ∉ rem → s.paused h = false) ∧ s.win = some t ∧ s.child = false ∧ s.mutex = some t
  bar_m : ∀ t b rem, s.upc t = .barLoop b rem → s.mutex = some t ∧ s.child = false ∧ ∀ h, h ∈ rem → h ∈ s.list
  ch_e1 : ∀ t, s.upc t = .afcUnlock → s.win = some t ∧ s.child = true ∧ s.mutex = some t ∧ ∀ h, s.hpc h = .none ∨ s.hpc h = .gone
  ch_e2 : ∀ t, s.upc t = .afcCreate → s.win = some t ∧ s.child = true ∧ ∀ h, s.hpc h = .none ∨ s.hpc h = .gone
  ch_dflt : s.child = true → ∀ h, s.hpc h ≠ .none → s.hpc h ≠ .gone → s.dflt = some h
  ch_loop : ∀ t rem, s.upc t = .afcLoop rem → ChA s rem ∧ Late s t ∧ s.win = some t ∧ s.child = true
  idle_nochild : ∀ t, s.upc t = .idle ∨ s.upc t = .gp → s.child = false ∧ s.win ≠ some t
  win_mutex : ∀ t, s.win = some t → s.child = false → s.mutex = some t
  big_idle : ∀ t, c.n ≤ t → s.upc t = .idle ∨ s.upc t = .gone

structure InvL (c : Cfg) (s : State) : Prop where
  g_ownu : ∀ t, s.gpl = some (.u t) → (s.upc t).holdsG = true
  g_ownh : ∀ h, s.gpl = some (.h h) → (s.hpc h).holdsG = true
  g_pcu : ∀ t, (s.upc t).holdsG = true → s.gpl = some (.u t)
  g_pch : ∀ h, (s.hpc h).holdsG = true → s.gpl = some (.h h)
  wait_gp : s.gpl = none → s.waitL = []
  reg_h : ∀ h, Th.h h ∈ s.registry → (s.hpc h).isReg = true
  reg_h' : ∀ h, (s.hpc h).isReg = true → Th.h h ∈ s.registry
  reg_u : ∀ t, Th.u t ∈ s.registry → s.upc t ≠ .gone
  wait_in : ∀ u, u ∈ s.waitL → Th.u u ∈ s.registry ∧ 0 < s.nest u

structure InvC (c : Cfg) (s : State) : Prop where
  dflt_in : ∀ d, s.dflt = some d → d ∈ s.list
  cpu_in : ∀ cpu h, s.percpu cpu = some h → h ∈ s.list
  thr_in : ∀ t h, s.thr t = some h → s.upc t ≠ .gone → h ∈ s.list
  q_loc : ∀ h id, id ∈ s.queue h → s.loc id = .queue h
  loc_q : ∀ h id, s.loc id = .queue h → id ∈ s.queue h ∧ h ∈ s.list
  q_nodup : ∀ h, (s.queue h).Nodup
  b_loc : ∀ h id, id ∈ s.batch h → s.loc id = .batch h
  loc_b : ∀ h id, s.loc id = .batch h → id ∈ s.batch h
  b_nodup : ∀ h, (s.batch h).Nodup
  batch_pc : ∀ h, s.batch h ≠ [] → (s.hpc h).mayBatch = true
  reg_loc : ∀ id, s.reg id = false → s.loc id = .none
  loc_reg : ∀ id, s.loc id = .none → s.reg id = false
  inv_cnt : ∀ id, s.invN id = if (s.loc id).invoked then 1 else 0
  af_loc : ∀ id, s.atFork id = true → (s.loc id).isQ = true ∨ (s.loc id).invoked = true
  af_cnt : ∀ id, s.atFork id = true → s.invSince id = if (s.loc id).invoked then 1 else 0
  since_le : ∀ id, s.invSince id ≤ s.invN id
  bp_loc : ∀ b id, id ∈ s.bpend b → s.bar id = some b ∧ (s.loc id).isQ = true
  fresh_q : ∀ h, s.nextH ≤ h → s.queue h = [] ∧ s.batch h = []

theorem invP_init (c) : InvP c init := by
  constructor <;> simp [init, UPc.holdsM, UPc.inAfc, UPc.inBf, UPc.afcEarly, HPc.pausing]

theorem invL_init (c) : InvL c init := by
  constructor <;> simp [init, UPc.holdsG, HPc.holdsG, HPc.isReg]

theorem invC_init (c) : InvC c init := by
  constructor <;> simp [init, HPc.mayBatch, Loc.isQ, Loc.invoked]

theorem mem_of_head? {l : List Nat} {a : Nat} (h : l.head? = some a) : a ∈ l := by
  cases l <;> simp_all
theorem mem_of_mem_tail' {l : List Nat} {x : Nat} (h : x ∈ l.tail) : x ∈ l := List.mem_of_mem_tail h
theorem nodup_tail' {l : List Nat} (h : l.Nodup) : l.tail.Nodup := by
  cases l <;> simp_all
theorem head?_notin_tail {l : List Nat} {a : Nat} (hn : l.Nodup) (h : l.head? = some a) : a ∉ l.tail := by
  cases l <;> simp_all
theorem ne_nil_of_head? {l : List Nat} {a : Nat} (h : l.head? = some a) : l ≠ [] := by
  cases l <;> simp_all
theorem mem_tail_or_head {l : List Nat} {a x : Nat} (h : l.head? = some a) (hx : x ∈ l) : x = a ∨ x ∈ l.tail := by
  cases l <;> simp_all
theorem mem_erase_nodup {l : List Nat} (hn : l.Nodup) (a x : Nat) : x ∈ l.erase a ↔ x ∈ l ∧ x ≠ a := by
  rw [hn.mem_erase_iff]; constructor <;> (intro h; exact ⟨h.2, h.1⟩)
theorem nodup_erase' {l : List Nat} (hn : l.Nodup) (a : Nat) : (l.erase a).Nodup := hn.erase a
theorem mem_filter_ne (l : List Th) (a x : Th) : x ∈ l.filter (· ≠ a) ↔ x ∈ l ∧ x ≠ a := by
  simp [List.mem_filter]
theorem mem_filter_neN (l : List Nat) (a x : Nat) : x ∈ l.filter (· ≠ a) ↔ x ∈ l ∧ x ≠ a := by
  simp [List.mem_filter]
theorem nodup_cons' {a : Nat} {l : List Nat} : (a :: l).Nodup ↔ a ∉ l ∧ l.Nodup := List.nodup_cons
theorem nodup_append' {l₁ l₂ : List Nat} : (l₁ ++ l₂).Nodup ↔ l₁.Nodup ∧ l₂.Nodup ∧ ∀ a, a ∈ l₁ → a ∉ l₂ := by
  rw [List.nodup_append]
  constructor
  · rintro ⟨h1, h2, h3⟩; exact ⟨h1, h2, fun a ha hb => h3 a ha a hb rfl⟩
  · rintro ⟨h1, h2, h3⟩; exact ⟨h1, h2, fun a ha b hb hab => h3 a ha (hab ▸ hb)⟩
theorem mem_waitSet (s : State) (me : Option Nat) (u : Nat) :
    u ∈ waitSet s me ↔ Th.u u ∈ s.registry ∧ some u ≠ me ∧ 0 < s.nest u := by
  unfold waitSet
  simp only [List.mem_filterMap]
  constructor
  · rintro ⟨r, hr, h⟩
    cases r with
    | u v => simp only [] at h; split at h <;> simp_all
    | h v => simp at h
  · rintro ⟨h1, h2, h3⟩
    exact ⟨.u u, h1, by simp [h2, h3]⟩
theorem forkPreB_iff (c : Cfg) (s : State) (t : Nat) : forkPreB c s t = true ↔ ForkPre c s t := by
  unfold forkPreB ForkPre
  simp only [Bool.and_eq_true, decide_eq_true_eq, List.all_eq_true, List.mem_range, Bool.or_eq_true, beq_iff_eq]
  constructor
  · rintro ⟨⟨h1, h2⟩, h3⟩
    refine ⟨h1, fun u hu hne => ?_, fun u hu => ?_⟩
    · rcases h2 u hu with (h | h) | h
      · exact absurd h hne
      · exact Or.inl h
      · exact Or.inr h
    · have := h3 (.u u) hu; simpa using this
  · rintro ⟨h1, h2, h3⟩
    refine ⟨⟨h1, fun u hu => ?_⟩, fun r hr => ?_⟩
    · by_cases h : u = t
      · exact Or.inl (Or.inl h)
      · rcases h2 u hu h with h | h
        · exact Or.inl (Or.inr h)
        · exact Or.inr h
    · cases r with
      | u v => simpa using h3 v hr
      | h v => rfl

theorem afcEarly_inAfc {p : UPc} (h : p.afcEarly = true) : p.inAfc = true := by cases p <;> simp_all [UPc.afcEarly, UPc.inAfc]
theorem inBf_holdsM {p : UPc} (h : p.inBf = true) : p.holdsM = true := by cases p <;> simp_all [UPc.inBf, UPc.holdsM]
theorem inBf_not_inAfc {p : UPc} (h : p.inBf = true) : p.inAfc = false := by cases p <;> simp_all [UPc.inBf, UPc.inAfc]

theorem hHoldsG_g1 {p : HPc} (h : p.holdsG = true) : p = .g1 := by cases p <;> simp_all [HPc.holdsG]
theorem hIsReg_ne {p : HPc} (h : p.isReg = true) : p ≠ .none ∧ p ≠ .gone ∧ p ≠ .spin := by cases p <;> simp_all [HPc.isReg]
theorem hMayBatch_ne {p : HPc} (h : p.mayBatch = true) : p ≠ .none ∧ p ≠ .gone ∧ p ≠ .spin := by cases p <;> simp_all [HPc.mayBatch]
theorem uHoldsG_gp {p : UPc} (h : p.holdsG = true) : p = .gp := by cases p <;> simp_all [UPc.holdsG]

theorem isQueue_isQ {l : Loc} (h : isQueue l = true) : l.isQ = true ∧ l.invoked = false ∧ ∃ x, l = .queue x := by
  cases l <;> simp_all [isQueue, Loc.isQ, Loc.invoked]
theorem sel_in (c : Cfg) {s : State} (h : InvC c s) {t : Nat} {v : Via} {x : Nat} (hs : sel s t v = some x)
    (ht : s.upc t ≠ .gone) : x ∈ s.list := by
  cases v <;> simp only [sel] at hs
  · exact h.thr_in t x hs ht
  · split at hs
    · exact h.cpu_in _ x hs
    · cases hs
  · split at hs
    · exact h.dflt_in x hs
    · cases hs

/-- unfold the step, split its guards, substitute the post state -/
syntax "unfold_step" : tactic
set_option hygiene false in
macro_rules | `(tactic| unfold_step) => `(tactic| (
  simp only [step] at st
  (repeat' split at st)
  all_goals (first | (simp at st; done) | skip)
  all_goals (simp only [Option.some.injEq] at st; subst st)))

end UrcuVerif.Fork
