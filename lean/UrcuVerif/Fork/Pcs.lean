import UrcuVerif.Fork.Model
/-!
# C16 — classification of program counters (every constructor is listed, so that each function has
unconditional equation lemmas)
-/
namespace UrcuVerif.Fork

/-- the thread holds `call_rcu_mutex` -/
def UPc.holdsM : UPc → Bool
  | .gone => false
  | .idle => false
  | .gp => false
  | .barLoop _ _ => true
  | .barWait _ => false
  | .bfPause _ => true
  | .bfWait _ => true
  | .atFork => true
  | .afpClr _ => true
  | .afpWait _ => true
  | .afcUnlock => true
  | .afcCreate => false
  | .afcLoop _ => false

/-- the thread holds `rcu_gp_lock` -/
def UPc.holdsG : UPc → Bool
  | .gone => false
  | .idle => false
  | .gp => true
  | .barLoop _ _ => false
  | .barWait _ => false
  | .bfPause _ => false
  | .bfWait _ => false
  | .atFork => false
  | .afpClr _ => false
  | .afpWait _ => false
  | .afcUnlock => false
  | .afcCreate => false
  | .afcLoop _ => false

/-- inside the fork window on the parent side (mutex held since `bfLock`) -/
def UPc.inBf : UPc → Bool
  | .gone => false
  | .idle => false
  | .gp => false
  | .barLoop _ _ => false
  | .barWait _ => false
  | .bfPause _ => true
  | .bfWait _ => true
  | .atFork => true
  | .afpClr _ => true
  | .afpWait _ => true
  | .afcUnlock => false
  | .afcCreate => false
  | .afcLoop _ => false

/-- inside `call_rcu_after_fork_child()` -/
def UPc.inAfc : UPc → Bool
  | .gone => false
  | .idle => false
  | .gp => false
  | .barLoop _ _ => false
  | .barWait _ => false
  | .bfPause _ => false
  | .bfWait _ => false
  | .atFork => false
  | .afpClr _ => false
  | .afpWait _ => false
  | .afcUnlock => true
  | .afcCreate => true
  | .afcLoop _ => true

/-- `after_fork_child` before the new default helper exists -/
def UPc.afcEarly : UPc → Bool
  | .gone => false
  | .idle => false
  | .gp => false
  | .barLoop _ _ => false
  | .barWait _ => false
  | .bfPause _ => false
  | .bfWait _ => false
  | .atFork => false
  | .afpClr _ => false
  | .afpWait _ => false
  | .afcUnlock => true
  | .afcCreate => true
  | .afcLoop _ => false

/-- the helper thread holds `rcu_gp_lock` -/
def HPc.holdsG : HPc → Bool
  | .none => false
  | .gone => false
  | .start => false
  | .top => false
  | .unreg => false
  | .setPaused => false
  | .spin => false
  | .clrPaused => false
  | .rereg => false
  | .splice => false
  | .g0 => false
  | .g1 => true
  | .inv => false
  | .wait => false

/-- the helper thread is in the reader registry -/
def HPc.isReg : HPc → Bool
  | .none => false
  | .gone => false
  | .start => false
  | .top => true
  | .unreg => true
  | .setPaused => false
  | .spin => false
  | .clrPaused => false
  | .rereg => false
  | .splice => true
  | .g0 => true
  | .g1 => true
  | .inv => true
  | .wait => true

/-- the helper may hold a spliced-out batch -/
def HPc.mayBatch : HPc → Bool
  | .none => false
  | .gone => false
  | .start => false
  | .top => false
  | .unreg => false
  | .setPaused => false
  | .spin => false
  | .clrPaused => false
  | .rereg => false
  | .splice => false
  | .g0 => true
  | .g1 => true
  | .inv => true
  | .wait => false

/-- the helper has seen PAUSE and has not reached the spin yet -/
def HPc.pausing : HPc → Bool
  | .none => false
  | .gone => false
  | .start => false
  | .top => false
  | .unreg => true
  | .setPaused => true
  | .spin => false
  | .clrPaused => false
  | .rereg => false
  | .splice => false
  | .g0 => false
  | .g1 => false
  | .inv => false
  | .wait => false

def Loc.isQ : Loc → Bool
  | .none => false
  | .queue _ => true
  | .batch _ => true
  | .done => false

def Loc.invoked : Loc → Bool
  | .none => false
  | .queue _ => false
  | .batch _ => false
  | .done => true

end UrcuVerif.Fork
