import UrcuVerif.Machine.Upd
/-!
# C16, bp flavor — `urcu_bp_before_fork` / `urcu_bp_after_fork_parent` / `urcu_bp_after_fork_child`
(`src/urcu-bp.c`)

Small self-contained model.  bp does NOT require the other threads to unregister: any number of
threads may be registered, inside read-side sections, registering, unregistering or inside
`synchronize_rcu()` when another thread starts the fork sequence.

* `registry` = the reader registry (thread ids whose arena slot is linked), protected by
  `rcu_registry_lock` (`rgl`); `rcu_gp_lock` (`gpl`) serialises grace periods and is taken before
  `rgl`; a grace period holds `gpl`, repeatedly takes/drops `rgl` and, while it waits, keeps the
  readers it still waits for on a private list (`held` = readers currently moved out of `registry`
  by the grace period in flight: they are put back before `gpl` is released);
* `urcu_bp_before_fork`: block all signals, lock `gpl`, lock `rgl`, save the mask;
  `after_fork_parent`: unlock `rgl`, unlock `gpl`, restore the mask;
  `after_fork_child`: prune every slot whose `tid` is not the caller's, unlock, unlock, restore;
* `fork t`: the child keeps only thread `t`; every other program counter is erased; memory (the
  registry, the reader words `nest`, both locks) is copied as it is;
* a signal handler of thread `t` that uses RCU registers the thread (takes `rgl`): `sigReg`, only
  when signals are not blocked.
-/
namespace UrcuVerif.ForkBp

inductive Pc
  | gone | idle
  | regL | unregL                    -- holding rgl inside register / unregister (signals blocked)
  | g0 | g1 | g2 | g3                -- synchronize_rcu: signals blocked / gpl / gpl+rgl / gpl (rgl dropped while waiting)
  | bf1 | bf2 | atFork               -- before_fork: signals blocked / + gpl / + rgl (returned)
  | ap1 | ap2                        -- after_fork_parent: rgl released / gpl released
  | ac0 | ac1 | ac2                  -- after_fork_child: about to prune / pruned / rgl released
  deriving DecidableEq, Repr

structure State where
  pc : Nat → Pc
  nest : Nat → Nat
  sigblk : Nat → Bool
  registry : List Nat
  held : List Nat          -- readers moved to the private lists of the grace period in flight
  gpl : Option Nat
  rgl : Option Nat
  child : Bool             -- between fork and the prune, in the child
  mask : Nat → Nat         -- signal mask of a thread outside liburcu calls (as a bit set)
  omask : Nat → Nat        -- the handlers' local `oldmask`
  saved : Nat              -- `saved_fork_signal_mask` (file scope, protected by rcu_gp_lock)
  pre : Nat → Nat          -- ghost: the thread's mask when it entered urcu_bp_before_fork()

def init : State :=
  { pc := fun _ => .idle, nest := fun _ => 0, sigblk := fun _ => false, registry := [], held := [],
    gpl := none, rgl := none, child := false, mask := fun _ => 0, omask := fun _ => 0, saved := 0, pre := fun _ => 0 }

inductive Label
  | spawn (t : Nat) | setMask (t m : Nat) | rlock (t : Nat) | runlock (t : Nat)
  | regBegin (t : Nat) | regEnd (t : Nat) | unregBegin (t : Nat) | unregEnd (t : Nat) | sigReg (t : Nat)
  | gpCall (t : Nat) | gpLock (t : Nat) | rgLock (t : Nat) | gpMove (t r : Nat) | rgDrop (t : Nat) | gpBack (t : Nat)
  | rgUnlock (t : Nat) | gpUnlock (t : Nat)
  | bfCall (t : Nat) | bfGp (t : Nat) | bfRg (t : Nat)
  | fork (t : Nat) | forkParent (t : Nat)
  | apRg (t : Nat) | apGp (t : Nat)
  | acPrune (t : Nat) | acRg (t : Nat) | acGp (t : Nat)
  deriving DecidableEq, Repr

def step (s : State) : Label → Option State
  | .spawn t =>
    -- a new thread (in a child: with an id no erased thread uses any more)
    if s.pc t = .gone ∧ s.child = false ∧ t ∉ s.registry ∧ t ∉ s.held then
      some { s with pc := upd s.pc t .idle, sigblk := upd s.sigblk t false, nest := upd s.nest t 0 }
    else none
  | .setMask t m =>
    -- the application changes the thread's signal mask (outside liburcu)
    if s.pc t = .idle then some { s with mask := upd s.mask t m } else none
  | .rlock t =>
    -- the first rcu_read_lock() of a thread registers it (regBegin/regEnd) – here: already registered
    if s.pc t = .idle ∧ (t ∈ s.registry ∨ t ∈ s.held) then some { s with nest := upd s.nest t (s.nest t + 1) } else none
  | .runlock t =>
    if s.pc t = .idle ∧ 0 < s.nest t then some { s with nest := upd s.nest t (s.nest t - 1) } else none
  | .regBegin t =>
    if s.pc t = .idle ∧ t ∉ s.registry ∧ t ∉ s.held ∧ s.rgl = none then
      some { s with pc := upd s.pc t .regL, rgl := some t, sigblk := upd s.sigblk t true }
    else none
  | .regEnd t =>
    if s.pc t = .regL then
      some { s with pc := upd s.pc t .idle, rgl := none, sigblk := upd s.sigblk t false, registry := t :: s.registry,
                    nest := upd s.nest t 0 }
    else none
  | .unregBegin t =>
    -- thread exit: the pthread-key destructor unregisters
    if s.pc t = .idle ∧ t ∈ s.registry ∧ s.nest t = 0 ∧ s.rgl = none then
      some { s with pc := upd s.pc t .unregL, rgl := some t, sigblk := upd s.sigblk t true }
    else none
  | .unregEnd t =>
    if s.pc t = .unregL then
      some { s with pc := upd s.pc t .idle, rgl := none, sigblk := upd s.sigblk t false,
                    registry := s.registry.filter (· ≠ t) }
    else none
  | .sigReg t =>
    -- a signal handler using RCU on a not yet registered thread: only when signals are deliverable
    if s.sigblk t = false ∧ s.pc t ≠ .gone ∧ t ∉ s.registry ∧ t ∉ s.held ∧ s.rgl = none then
      some { s with registry := t :: s.registry, nest := upd s.nest t 0 }
    else none
  | .gpCall t =>
    if s.pc t = .idle ∧ s.nest t = 0 then some { s with pc := upd s.pc t .g0, sigblk := upd s.sigblk t true } else none
  | .gpLock t =>
    if s.pc t = .g0 ∧ s.gpl = none then some { s with pc := upd s.pc t .g1, gpl := some t } else none
  | .rgLock t =>
    if (s.pc t = .g1 ∨ s.pc t = .g3) ∧ s.rgl = none then some { s with pc := upd s.pc t .g2, rgl := some t } else none
  | .gpMove t r =>
    -- wait_for_readers moves a reader to cur_snap_readers / qsreaders
    if s.pc t = .g2 ∧ r ∈ s.registry then
      some { s with registry := s.registry.filter (· ≠ r), held := r :: s.held }
    else none
  | .rgDrop t =>
    if s.pc t = .g2 ∧ s.rgl = some t then some { s with pc := upd s.pc t .g3, rgl := none } else none
  | .gpBack t =>
    -- cds_list_splice(&qsreaders, &registry) once every reader has been seen quiescent
    if s.pc t = .g2 then some { s with registry := s.held ++ s.registry, held := [] } else none
  | .rgUnlock t =>
    if s.pc t = .g2 ∧ s.rgl = some t ∧ s.held = [] then some { s with pc := upd s.pc t .g1, rgl := none } else none
  | .gpUnlock t =>
    if s.pc t = .g1 ∧ s.gpl = some t then
      some { s with pc := upd s.pc t .idle, gpl := none, sigblk := upd s.sigblk t false }
    else none
  | .bfCall t =>
    -- pthread_sigmask(SIG_BLOCK, &newmask, &oldmask)
    if s.pc t = .idle then
      some { s with pc := upd s.pc t .bf1, sigblk := upd s.sigblk t true, omask := upd s.omask t (s.mask t), pre := upd s.pre t (s.mask t) }
    else none
  | .bfGp t =>
    if s.pc t = .bf1 ∧ s.gpl = none then some { s with pc := upd s.pc t .bf2, gpl := some t } else none
  | .bfRg t =>
    -- mutex_lock(&rcu_registry_lock); saved_fork_signal_mask = oldmask;
    if s.pc t = .bf2 ∧ s.rgl = none then some { s with pc := upd s.pc t .atFork, rgl := some t, saved := s.omask t } else none
  | .fork t =>
    if s.pc t = .atFork then
      some { s with pc := fun u => if u = t then .ac0 else .gone, child := true }
    else none
  | .forkParent t =>
    if s.pc t = .atFork then some { s with pc := upd s.pc t .ap1 } else none
  | .apRg t =>
    -- oldmask = saved_fork_signal_mask; mutex_unlock(&rcu_registry_lock)
    if s.pc t = .ap1 ∧ s.rgl = some t then some { s with pc := upd s.pc t .ap2, rgl := none, omask := upd s.omask t s.saved } else none
  | .apGp t =>
    -- mutex_unlock(&rcu_gp_lock); pthread_sigmask(SIG_SETMASK, &oldmask, NULL)
    if s.pc t = .ap2 ∧ s.gpl = some t then
      some { s with pc := upd s.pc t .idle, gpl := none, sigblk := upd s.sigblk t false, mask := upd s.mask t (s.omask t) }
    else none
  | .acPrune t =>
    if s.pc t = .ac0 then
      some { s with pc := upd s.pc t .ac1, registry := s.registry.filter (· = t), child := false, omask := upd s.omask t s.saved }
    else none
  | .acRg t =>
    if s.pc t = .ac1 ∧ s.rgl = some t then some { s with pc := upd s.pc t .ac2, rgl := none } else none
  | .acGp t =>
    if s.pc t = .ac2 ∧ s.gpl = some t then
      some { s with pc := upd s.pc t .idle, gpl := none, sigblk := upd s.sigblk t false, mask := upd s.mask t (s.omask t) }
    else none

inductive Reach : State → Prop
  | init : Reach init
  | step {s s' l} : Reach s → step s l = some s' → Reach s'

def run : State → List Label → Option State
  | s, [] => some s
  | s, l :: ls => match step s l with
    | none => none
    | some s' => run s' ls

/-- the thread holds `rcu_gp_lock` -/
def Pc.holdsG : Pc → Bool
  | .gone => false | .idle => false | .regL => false | .unregL => false
  | .g0 => false | .g1 => true | .g2 => true | .g3 => true
  | .bf1 => false | .bf2 => true | .atFork => true | .ap1 => true | .ap2 => true
  | .ac0 => true | .ac1 => true | .ac2 => true

/-- the thread holds `rcu_registry_lock` -/
def Pc.holdsR : Pc → Bool
  | .gone => false | .idle => false | .regL => true | .unregL => true
  | .g0 => false | .g1 => false | .g2 => true | .g3 => false
  | .bf1 => false | .bf2 => false | .atFork => true | .ap1 => true | .ap2 => false
  | .ac0 => true | .ac1 => true | .ac2 => false

/-- the thread runs with all signals blocked -/
def Pc.blocked : Pc → Bool
  | .gone => false | .idle => false | .regL => true | .unregL => true
  | .g0 => true | .g1 => true | .g2 => true | .g3 => true
  | .bf1 => true | .bf2 => true | .atFork => true | .ap1 => true | .ap2 => true
  | .ac0 => true | .ac1 => true | .ac2 => true

structure Inv (s : State) : Prop where
  g_own : ∀ t, s.gpl = some t → (s.pc t).holdsG = true
  g_pc : ∀ t, (s.pc t).holdsG = true → s.gpl = some t
  r_own : ∀ t, s.rgl = some t → (s.pc t).holdsR = true
  r_pc : ∀ t, (s.pc t).holdsR = true → s.rgl = some t
  blk : ∀ t, (s.pc t).blocked = true → s.sigblk t = true
  reg_alive : s.child = false → ∀ r, r ∈ s.registry ∨ r ∈ s.held → s.pc r ≠ .gone
  held_gp : ∀ t, s.held ≠ [] → s.gpl = some t → s.pc t = .g2 ∨ s.pc t = .g3
  held_gp' : s.held ≠ [] → s.gpl ≠ none
  child_pc : s.child = true → ∀ u, s.pc u = .ac0 ∨ s.pc u = .gone
  ac0_child : ∀ t, s.pc t = .ac0 → s.child = true
  mk_entry : ∀ t, s.pc t = .bf1 ∨ s.pc t = .bf2 → s.omask t = s.pre t ∧ s.mask t = s.pre t
  mk_saved : ∀ t, s.pc t = .atFork ∨ s.pc t = .ap1 ∨ s.pc t = .ac0 → s.saved = s.pre t ∧ s.mask t = s.pre t
  mk_exit : ∀ t, s.pc t = .ap2 ∨ s.pc t = .ac1 ∨ s.pc t = .ac2 → s.omask t = s.pre t ∧ s.mask t = s.pre t

theorem inv_init : Inv init := by
  constructor <;> simp [init, Pc.holdsG, Pc.holdsR, Pc.blocked]

set_option linter.unusedVariables false
set_option linter.unusedSimpArgs false
set_option hygiene false in
macro "b_tac" : tactic => `(tactic| (
  obtain ⟨h1, h2, h3, h4, h5, h6, h7, h7', h8, h9, h10, h11, h12⟩ := h
  simp only [step] at st
  split at st
  all_goals (first | (simp at st; done) | skip)
  all_goals (simp only [Option.some.injEq] at st; subst st)
  all_goals (constructor <;> first | assumption | (simp only [upd, List.mem_filter, List.mem_cons, List.mem_append, decide_eq_true_eq] at * <;> grind (splits := 25) [upd, Pc.holdsG, Pc.holdsR, Pc.blocked]))))

theorem inv_spawn {s s' : State} (h : Inv s) (a0 : _) (st : step s (.spawn a0) = some s') : Inv s' := by
  b_tac

theorem inv_setMask {s s' : State} (h : Inv s) (a0 a1 : _) (st : step s (.setMask a0 a1) = some s') : Inv s' := by
  b_tac

theorem inv_rlock {s s' : State} (h : Inv s) (a0 : _) (st : step s (.rlock a0) = some s') : Inv s' := by
  b_tac

theorem inv_runlock {s s' : State} (h : Inv s) (a0 : _) (st : step s (.runlock a0) = some s') : Inv s' := by
  b_tac

theorem inv_regBegin {s s' : State} (h : Inv s) (a0 : _) (st : step s (.regBegin a0) = some s') : Inv s' := by
  b_tac

theorem inv_regEnd {s s' : State} (h : Inv s) (a0 : _) (st : step s (.regEnd a0) = some s') : Inv s' := by
  b_tac

theorem inv_unregBegin {s s' : State} (h : Inv s) (a0 : _) (st : step s (.unregBegin a0) = some s') : Inv s' := by
  b_tac

theorem inv_unregEnd {s s' : State} (h : Inv s) (a0 : _) (st : step s (.unregEnd a0) = some s') : Inv s' := by
  b_tac

theorem inv_sigReg {s s' : State} (h : Inv s) (a0 : _) (st : step s (.sigReg a0) = some s') : Inv s' := by
  b_tac

theorem inv_gpCall {s s' : State} (h : Inv s) (a0 : _) (st : step s (.gpCall a0) = some s') : Inv s' := by
  b_tac

theorem inv_gpLock {s s' : State} (h : Inv s) (a0 : _) (st : step s (.gpLock a0) = some s') : Inv s' := by
  b_tac

theorem inv_rgLock {s s' : State} (h : Inv s) (a0 : _) (st : step s (.rgLock a0) = some s') : Inv s' := by
  b_tac

theorem inv_gpMove {s s' : State} (h : Inv s) (a0 a1 : _) (st : step s (.gpMove a0 a1) = some s') : Inv s' := by
  b_tac

theorem inv_rgDrop {s s' : State} (h : Inv s) (a0 : _) (st : step s (.rgDrop a0) = some s') : Inv s' := by
  b_tac

theorem inv_gpBack {s s' : State} (h : Inv s) (a0 : _) (st : step s (.gpBack a0) = some s') : Inv s' := by
  b_tac

theorem inv_rgUnlock {s s' : State} (h : Inv s) (a0 : _) (st : step s (.rgUnlock a0) = some s') : Inv s' := by
  b_tac

theorem inv_gpUnlock {s s' : State} (h : Inv s) (a0 : _) (st : step s (.gpUnlock a0) = some s') : Inv s' := by
  b_tac

theorem inv_bfCall {s s' : State} (h : Inv s) (a0 : _) (st : step s (.bfCall a0) = some s') : Inv s' := by
  b_tac

theorem inv_bfGp {s s' : State} (h : Inv s) (a0 : _) (st : step s (.bfGp a0) = some s') : Inv s' := by
  b_tac

theorem inv_bfRg {s s' : State} (h : Inv s) (a0 : _) (st : step s (.bfRg a0) = some s') : Inv s' := by
  b_tac

theorem inv_fork {s s' : State} (h : Inv s) (a0 : _) (st : step s (.fork a0) = some s') : Inv s' := by
  b_tac

theorem inv_forkParent {s s' : State} (h : Inv s) (a0 : _) (st : step s (.forkParent a0) = some s') : Inv s' := by
  b_tac

theorem inv_apRg {s s' : State} (h : Inv s) (a0 : _) (st : step s (.apRg a0) = some s') : Inv s' := by
  b_tac

theorem inv_apGp {s s' : State} (h : Inv s) (a0 : _) (st : step s (.apGp a0) = some s') : Inv s' := by
  b_tac

theorem inv_acPrune {s s' : State} (h : Inv s) (a0 : _) (st : step s (.acPrune a0) = some s') : Inv s' := by
  b_tac

theorem inv_acRg {s s' : State} (h : Inv s) (a0 : _) (st : step s (.acRg a0) = some s') : Inv s' := by
  b_tac

theorem inv_acGp {s s' : State} (h : Inv s) (a0 : _) (st : step s (.acGp a0) = some s') : Inv s' := by
  b_tac

theorem inv_step {s s' : State} {l : Label} (h : Inv s) (st : step s l = some s') : Inv s' := by
  cases l with
  | spawn a0 => exact inv_spawn h _ st
  | setMask a0 a1 => exact inv_setMask h _ _ st
  | rlock a0 => exact inv_rlock h _ st
  | runlock a0 => exact inv_runlock h _ st
  | regBegin a0 => exact inv_regBegin h _ st
  | regEnd a0 => exact inv_regEnd h _ st
  | unregBegin a0 => exact inv_unregBegin h _ st
  | unregEnd a0 => exact inv_unregEnd h _ st
  | sigReg a0 => exact inv_sigReg h _ st
  | gpCall a0 => exact inv_gpCall h _ st
  | gpLock a0 => exact inv_gpLock h _ st
  | rgLock a0 => exact inv_rgLock h _ st
  | gpMove a0 a1 => exact inv_gpMove h _ _ st
  | rgDrop a0 => exact inv_rgDrop h _ st
  | gpBack a0 => exact inv_gpBack h _ st
  | rgUnlock a0 => exact inv_rgUnlock h _ st
  | gpUnlock a0 => exact inv_gpUnlock h _ st
  | bfCall a0 => exact inv_bfCall h _ st
  | bfGp a0 => exact inv_bfGp h _ st
  | bfRg a0 => exact inv_bfRg h _ st
  | fork a0 => exact inv_fork h _ st
  | forkParent a0 => exact inv_forkParent h _ st
  | apRg a0 => exact inv_apRg h _ st
  | apGp a0 => exact inv_apGp h _ st
  | acPrune a0 => exact inv_acPrune h _ st
  | acRg a0 => exact inv_acRg h _ st
  | acGp a0 => exact inv_acGp h _ st

theorem inv_reach {s : State} (h : Reach s) : Inv s := by
  induction h with
  | init => exact inv_init
  | step _ st ih => exact inv_step ih st

end UrcuVerif.ForkBp
