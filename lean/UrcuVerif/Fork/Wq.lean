import UrcuVerif.Machine.Upd
/-!
# C16, hash-table part — the cds_lfht atfork hooks and the work-queue handlers
(`src/rculfhash.c`: `cds_lfht_before_fork` / `cds_lfht_after_fork_parent` / `cds_lfht_after_fork_child`
with `cds_lfht_workqueue_atfork_nesting`; `src/workqueue.c`: `urcu_workqueue_pause_worker`,
`urcu_workqueue_resume_worker`, `urcu_workqueue_create_worker`, pause branch of `workqueue_thread`)

Small self-contained model: ONE forking thread that calls the hook once per flavor it uses (each
flavor's `call_rcu_before_fork` calls the shared hook: nesting counter), and the resize worker.

* `nest` = `cds_lfht_workqueue_atfork_nesting`, `fm` = `cds_lfht_fork_mutex` held, `wq` = the work
  queue exists, `pause/paused` = `URCU_WORKQUEUE_PAUSE/PAUSED`, `wpc` = worker program counter,
  `queue`/`done` = queued / executed work items (resize requests), `child` = this process is a child
  whose worker has not been re-created yet;
* ghost `nb`/`na` = number of `before` / `after` hook calls since the last balanced point.
-/
namespace UrcuVerif.ForkWq

inductive FPc
  | idle
  | b1 | b2 | b3             -- before: counter 0→1 done, lock / set PAUSE+wake / wait PAUSED
  | p1 | p2 | p3             -- after_parent (counter reached 0): clear PAUSE / wait !PAUSED / unlock
  | c1 | c2                  -- after_child (counter reached 0): create worker / unlock
  deriving DecidableEq, Repr

inductive WPc
  | none | gone
  | top | setPaused | spin | clrPaused | work
  deriving DecidableEq, Repr

structure State where
  fpc : FPc
  wpc : WPc
  nest : Nat
  fm : Bool
  wq : Bool
  pause : Bool
  paused : Bool
  queue : List Nat
  done : List Nat
  forked : Bool        -- between fork() and the first after_* hook call in this process
  child : Bool
  nb : Nat
  na : Nat

def init (wq : Bool) : State :=
  { fpc := .idle, wpc := if wq then .top else .none, nest := 0, fm := false, wq := wq, pause := false, paused := false,
    queue := [], done := [], forked := false, child := false, nb := 0, na := 0 }

inductive Label
  | queueWork (w : Nat)
  | before | bLock | bPause | bWait
  | fork (child : Bool)
  | afterParent | pClr | pWait | pUnlock
  | afterChild | cCreate | cUnlock
  | wTop | wSetPaused | wSpinExit | wClrPaused | wRun
  deriving DecidableEq, Repr

def step (s : State) : Label → Option State
  | .queueWork w =>
    -- urcu_workqueue_queue_work (lazy resize request) by the application thread between hooks
    if s.fpc = .idle ∧ s.wq = true then some { s with queue := s.queue ++ [w] } else none
  | .before =>
    -- if (nesting++) return;
    if s.fpc = .idle ∧ s.forked = false then
      if s.nest = 0 then some { s with nest := 1, fpc := .b1, nb := s.nb + 1 }
      else some { s with nest := s.nest + 1, nb := s.nb + 1 }
    else none
  | .bLock =>
    if s.fpc = .b1 ∧ s.fm = false then some { s with fm := true, fpc := if s.wq then .b2 else .idle } else none
  | .bPause =>
    if s.fpc = .b2 then some { s with pause := true, fpc := .b3 } else none
  | .bWait =>
    if s.fpc = .b3 ∧ s.paused = true then some { s with fpc := .idle } else none
  | .fork ch =>
    -- fork() bracketed by the handlers: all `before` calls done
    if s.fpc = .idle ∧ 0 < s.nest ∧ s.forked = false then
      if ch then some { s with forked := true, child := true, wpc := if s.wpc = .none then .none else .gone }
      else some { s with forked := true }
    else none
  | .afterParent =>
    -- if (--nesting) return;
    if s.fpc = .idle ∧ s.forked = true ∧ s.child = false ∧ 0 < s.nest then
      if s.nest = 1 then some { s with nest := 0, fpc := if s.wq then .p1 else .p3, na := s.na + 1 }
      else some { s with nest := s.nest - 1, na := s.na + 1 }
    else none
  | .pClr =>
    if s.fpc = .p1 then some { s with pause := false, fpc := .p2 } else none
  | .pWait =>
    if s.fpc = .p2 ∧ s.paused = false then some { s with fpc := .p3 } else none
  | .pUnlock =>
    if s.fpc = .p3 ∧ s.fm = true then some { s with fm := false, fpc := .idle, forked := false, nb := 0, na := 0 } else none
  | .afterChild =>
    if s.fpc = .idle ∧ s.forked = true ∧ s.child = true ∧ 0 < s.nest then
      if s.nest = 1 then some { s with nest := 0, fpc := if s.wq then .c1 else .c2, na := s.na + 1 }
      else some { s with nest := s.nest - 1, na := s.na + 1 }
    else none
  | .cCreate =>
    -- urcu_workqueue_create_worker: flags &= ~(PAUSED|PAUSE); new thread
    if s.fpc = .c1 then some { s with pause := false, paused := false, wpc := .top, fpc := .c2 } else none
  | .cUnlock =>
    if s.fpc = .c2 ∧ s.fm = true then
      some { s with fm := false, fpc := .idle, forked := false, child := false, nb := 0, na := 0 }
    else none
  | .wTop =>
    if s.wpc = .top then some { s with wpc := if s.pause then .setPaused else .work } else none
  | .wSetPaused =>
    if s.wpc = .setPaused then some { s with paused := true, wpc := .spin } else none
  | .wSpinExit =>
    if s.wpc = .spin ∧ s.pause = false then some { s with wpc := .clrPaused } else none
  | .wClrPaused =>
    if s.wpc = .clrPaused then some { s with paused := false, wpc := .top } else none
  | .wRun =>
    -- splice + execute everything queued (do_resize_cb), then wait / next iteration
    if s.wpc = .work then some { s with done := s.done ++ s.queue, queue := [], wpc := .top } else none

inductive Reach (wq : Bool) : State → Prop
  | init : Reach wq (init wq)
  | step {s s' l} : Reach wq s → step s l = some s' → Reach wq s'

def run : State → List Label → Option State
  | s, [] => some s
  | s, l :: ls => match step s l with
    | none => none
    | some s' => run s' ls

/-- the forking thread holds `cds_lfht_fork_mutex` -/
def FPc.holds : FPc → Bool
  | .idle => false | .b1 => false | .b2 => true | .b3 => true
  | .p1 => true | .p2 => true | .p3 => true | .c1 => true | .c2 => true

structure Inv (s : State) : Prop where
  cnt : s.nest + s.na = s.nb
  fm_iff : s.fm = true ↔ (s.fpc.holds = true ∨ (s.fpc = .idle ∧ 0 < s.nest))
  b1_nest : s.fpc = .b1 ∨ s.fpc = .b2 ∨ s.fpc = .b3 → s.nest = 1 ∧ s.forked = false
  after_nest : s.fpc = .p1 ∨ s.fpc = .p2 ∨ s.fpc = .p3 ∨ s.fpc = .c1 ∨ s.fpc = .c2 → s.nest = 0 ∧ s.forked = true
  wq_pc : s.wq = false → s.wpc = .none ∧ s.fpc ≠ .b2 ∧ s.fpc ≠ .b3 ∧ s.fpc ≠ .p1 ∧ s.fpc ≠ .p2 ∧ s.fpc ≠ .c1 ∧ s.pause = false ∧ s.paused = false
  wq_pc' : s.wq = true → s.wpc ≠ .none
  parked : s.wq = true → s.fpc = .idle → 0 < s.nest → s.pause = true ∧ (s.wpc = .spin ∨ s.wpc = .gone) ∧ (s.child = true ↔ s.wpc = .gone)
  b3_pause : s.fpc = .b3 → s.pause = true
  p1_parked : s.fpc = .p1 → s.pause = true ∧ s.wpc = .spin ∧ s.child = false
  paused_pc : s.wpc ≠ .gone → (s.paused = true ↔ (s.wpc = .spin ∨ s.wpc = .clrPaused))
  pausing : s.wpc = .setPaused → s.pause = true
  clr : s.wpc = .clrPaused → s.pause = false
  nopause : s.fpc = .idle → s.nest = 0 → s.pause = false ∧ s.paused = false ∧ s.wpc ≠ .gone ∧ s.child = false ∧ s.forked = false
  b12 : s.fpc = .b1 ∨ s.fpc = .b2 → s.pause = false ∧ s.paused = false ∧ s.wpc ≠ .gone ∧ s.child = false
  p23 : s.fpc = .p2 ∨ s.fpc = .p3 → s.pause = false ∧ s.wpc ≠ .gone ∧ s.child = false
  p3u : s.fpc = .p3 → s.paused = false
  c_child : s.fpc = .c1 → s.child = true ∧ s.wpc = .gone
  c2_ok : s.fpc = .c2 → s.child = true ∧ s.pause = false ∧ s.paused = false ∧ (s.wq = true → s.wpc ≠ .gone)
  child_forked : s.child = true → s.forked = true
  gone_child : s.wpc = .gone → s.child = true
  forked_nb : s.forked = false → s.na = 0

theorem inv_init (wq : Bool) : Inv (init wq) := by
  cases wq <;> constructor <;> simp [init, FPc.holds]

set_option linter.unusedVariables false
set_option hygiene false in
macro "w_tac" : tactic => `(tactic| (
  obtain ⟨h1, h2, h3, h4, h5, h6, h7, h8, h9, h10, h11, h12, h13, h14, h15, h16, h17, h18, h19, h20, h21⟩ := h
  simp only [step] at st
  (repeat' split at st)
  all_goals (first | (simp at st; done) | skip)
  all_goals (simp only [Option.some.injEq] at st; subst st)
  all_goals (constructor <;> first | assumption | (simp only [FPc.holds] at * <;> grind (splits := 30) [FPc.holds]))))

theorem inv_queueWork {s s' : State} (h : Inv s) (a0 : _) (st : step s (.queueWork a0) = some s') : Inv s' := by
  w_tac

theorem inv_before {s s' : State} (h : Inv s) (st : step s (.before ) = some s') : Inv s' := by
  w_tac

theorem inv_bLock {s s' : State} (h : Inv s) (st : step s (.bLock ) = some s') : Inv s' := by
  w_tac

theorem inv_bPause {s s' : State} (h : Inv s) (st : step s (.bPause ) = some s') : Inv s' := by
  w_tac

theorem inv_bWait {s s' : State} (h : Inv s) (st : step s (.bWait ) = some s') : Inv s' := by
  w_tac

theorem inv_fork {s s' : State} (h : Inv s) (a0 : _) (st : step s (.fork a0) = some s') : Inv s' := by
  w_tac

theorem inv_afterParent {s s' : State} (h : Inv s) (st : step s (.afterParent ) = some s') : Inv s' := by
  w_tac

theorem inv_pClr {s s' : State} (h : Inv s) (st : step s (.pClr ) = some s') : Inv s' := by
  w_tac

theorem inv_pWait {s s' : State} (h : Inv s) (st : step s (.pWait ) = some s') : Inv s' := by
  w_tac

theorem inv_pUnlock {s s' : State} (h : Inv s) (st : step s (.pUnlock ) = some s') : Inv s' := by
  w_tac

theorem inv_afterChild {s s' : State} (h : Inv s) (st : step s (.afterChild ) = some s') : Inv s' := by
  w_tac

theorem inv_cCreate {s s' : State} (h : Inv s) (st : step s (.cCreate ) = some s') : Inv s' := by
  w_tac

theorem inv_cUnlock {s s' : State} (h : Inv s) (st : step s (.cUnlock ) = some s') : Inv s' := by
  w_tac

theorem inv_wTop {s s' : State} (h : Inv s) (st : step s (.wTop ) = some s') : Inv s' := by
  w_tac

theorem inv_wSetPaused {s s' : State} (h : Inv s) (st : step s (.wSetPaused ) = some s') : Inv s' := by
  w_tac

theorem inv_wSpinExit {s s' : State} (h : Inv s) (st : step s (.wSpinExit ) = some s') : Inv s' := by
  w_tac

theorem inv_wClrPaused {s s' : State} (h : Inv s) (st : step s (.wClrPaused ) = some s') : Inv s' := by
  w_tac

theorem inv_wRun {s s' : State} (h : Inv s) (st : step s (.wRun ) = some s') : Inv s' := by
  w_tac

theorem inv_step {s s' : State} {l : Label} (h : Inv s) (st : step s l = some s') : Inv s' := by
  cases l with
  | queueWork a0 => exact inv_queueWork h _ st
  | before  => exact inv_before h  st
  | bLock  => exact inv_bLock h  st
  | bPause  => exact inv_bPause h  st
  | bWait  => exact inv_bWait h  st
  | fork a0 => exact inv_fork h _ st
  | afterParent  => exact inv_afterParent h  st
  | pClr  => exact inv_pClr h  st
  | pWait  => exact inv_pWait h  st
  | pUnlock  => exact inv_pUnlock h  st
  | afterChild  => exact inv_afterChild h  st
  | cCreate  => exact inv_cCreate h  st
  | cUnlock  => exact inv_cUnlock h  st
  | wTop  => exact inv_wTop h  st
  | wSetPaused  => exact inv_wSetPaused h  st
  | wSpinExit  => exact inv_wSpinExit h  st
  | wClrPaused  => exact inv_wClrPaused h  st
  | wRun  => exact inv_wRun h  st

theorem inv_reach {wq : Bool} {s : State} (h : Reach wq s) : Inv s := by
  induction h with
  | init => exact inv_init wq
  | step _ st ih => exact inv_step ih st

end UrcuVerif.ForkWq
