import UrcuVerif.Fork.LiveHelperRun
/-! Step-level lemmas for `Props/LiveC16E2E.lean`: `call_rcu_after_fork_parent()` clears PAUSE. -/
set_option linter.unusedSimpArgs false
set_option linter.unusedVariables false
namespace UrcuVerif.Fork
open UrcuVerif UrcuVerif.Fair

/-- the steps of `call_rcu_after_fork_parent()` executed by thread `t` -/
def afpLabels (t : Nat) : List Label := [.afpClr t, .afpClrDone t, .afpWait t, .afpUnlock t]

def UPc.inClr : UPc → Bool
  | .afpClr _ => true
  | .gone => false | .idle => false | .gp => false | .barLoop _ _ => false | .barWait _ => false
  | .bfPause _ => false | .bfWait _ => false | .atFork => false | .afpWait _ => false
  | .afcUnlock => false | .afcCreate => false | .afcLoop _ => false

def UPc.inWait : UPc → Bool
  | .afpWait _ => true
  | .gone => false | .idle => false | .gp => false | .barLoop _ _ => false | .barWait _ => false
  | .bfPause _ => false | .bfWait _ => false | .atFork => false | .afpClr _ => false
  | .afcUnlock => false | .afcCreate => false | .afcLoop _ => false

def clrRank : UPc → Nat
  | .afpClr rem => rem.length + 1
  | .gone => 0 | .idle => 0 | .gp => 0 | .barLoop _ _ => 0 | .barWait _ => 0
  | .bfPause _ => 0 | .bfWait _ => 0 | .atFork => 0 | .afpWait _ => 0
  | .afcUnlock => 0 | .afcCreate => 0 | .afcLoop _ => 0

theorem clr_own (c : Cfg) {s s' : State} {l : Label} (t : Nat) (hp : (s.upc t).inClr = true) (hl : l ∈ afpLabels t)
    (st : step c s l = some s') :
    (s'.upc t).inWait = true ∨ ((s'.upc t).inClr = true ∧ clrRank (s'.upc t) < clrRank (s.upc t)) := by
  simp only [afpLabels, List.mem_cons, List.mem_nil_iff, or_false] at hl
  rcases hl with rfl | rfl | rfl | rfl <;> f_bash <;> simp_all [upd, UPc.inClr, UPc.inWait, clrRank]

theorem clr_enabled (c : Cfg) {s : State} (t : Nat) (hp : (s.upc t).inClr = true) :
    Enabled (step c) (fun l => l ∈ afpLabels t) s := by
  cases hq : s.upc t <;> simp [hq, UPc.inClr] at hp
  rename_i rem
  cases rem with
  | nil => exact ⟨.afpClrDone t, by simp [afpLabels], by simp [step, hq]⟩
  | cons h r => exact ⟨.afpClr t, by simp [afpLabels], by simp [step, hq]⟩

theorem clr_frame (c : Cfg) {s s' : State} {l : Label} (hP : InvP c s) (t : Nat) (hp : (s.upc t).inClr = true)
    (hl : l ∉ afpLabels t) (hf : l.forky = false) (st : step c s l = some s') : s'.upc t = s.upc t := by
  cases l <;> simp only [Label.forky, Bool.true_eq_false] at hf <;>
    simp only [afpLabels, List.mem_cons, List.mem_nil_iff, or_false, reduceCtorEq, false_or, Label.afpClr.injEq,
      Label.afpClrDone.injEq, Label.afpWait.injEq, Label.afpUnlock.injEq, not_false_eq_true] at hl <;>
    f_bash <;> (try simp only [upd, newHelper]) <;> grind [UPc.inClr]

/-- `atFork` (queued at the last fork) changes only at a fork -/
theorem atFork_frame (c : Cfg) {s s' : State} {l : Label} (hf : l.forky = false) (st : step c s l = some s') :
    s'.atFork = s.atFork := by
  cases l <;> simp only [Label.forky, Bool.true_eq_false] at hf <;> f_bash <;> rfl

end UrcuVerif.Fork
