import UrcuVerif.Machine.Upd
/-!
# C13, concurrent part — the defer thread's futex handshake on x86-TSO

`wait_defer()` (the defer thread `D`, one thread) against `wake_up_defer()` at the end of every
`_defer_rcu()` (any number of owners, each calling `defer_rcu` any number of times):

    owner i:  store head_i (through its FIFO store buffer) ; cmm_smp_mb() ; r := load futex ;
              if r == -1 { store futex := 0 (buffered) ; FUTEX_WAKE (system call: drains the buffer) }
    D:        uatomic_dec(&futex) (locked: 0 → -1) ; mb ; [load stop] ;
              scan under rcu_defer_mutex: for each queue load head_i from MEMORY, read tail_i ;
              some queue non-empty → mb ; store futex := 0 (buffered) ; return
              (the model lets the scan end as soon as a non-empty queue was seen: a superset)
              else rmb ; while (load futex == -1) FUTEX_WAIT(&futex, -1)
                   – atomically: value ≠ -1 → EAGAIN → return, else sleep; EINTR / spurious 0 → loop.
    after returning: poll(100ms) ; rcu_defer_barrier() – here: `drain` steps.

`drain i v` is any runner (the defer thread itself, `rcu_defer_barrier()` callers, an owner's own
flush) advancing `tail_i` to `v ≤ head_i` in memory.  In the code runners hold `rcu_defer_mutex`, so
no drain happens while `D` scans; the model allows it at any time (a superset: a drain never makes
an empty queue non-empty).  The stop flag of `stop_defer_thread()` (store `defer_thread_stop := 1`;
mb; `wake_up_defer()`) is one more instance of the owner protocol: a "queue" that is never
drained and that `D` inspects first.

`Cfg.mbBeforeWake = false` and `Cfg.decFirst = false` are NOT configurations of the code; they are
the algorithm minus one step, for the necessity witnesses in `Neg/C13.lean`.
-/
namespace UrcuVerif.DeferWake

structure Cfg where
  n : Nat
  /-- `cmm_smp_mb()` between the store of `head` and the load of the futex in `_defer_rcu` -/
  mbBeforeWake : Bool := true
  /-- `wait_defer` decrements the futex before it scans the queues -/
  decFirst : Bool := true
  deriving Repr, DecidableEq

def Cfg.WF (c : Cfg) : Prop := c.mbBeforeWake = true ∧ c.decFirst = true

inductive DPc | d0 | dscan | dpost | dfound | dwloop | dwait | dsleep
  deriving DecidableEq, Repr
inductive KPc | k0 | kf | k1 | k2 | k3
  deriving DecidableEq, Repr

structure State where
  futex : Int
  dpc : DPc
  dfutB : Bool              -- D's buffered `futex := 0`
  scanned : Nat → Bool
  found : Bool
  kpc : Nat → KPc
  hd : Nat → Nat            -- head_i as its owner sees it
  mh : Nat → Nat            -- head_i in memory
  tl : Nat → Nat            -- tail_i in memory
  bhd : Nat → Bool          -- owner i's buffered head store
  bfut : Nat → Bool         -- owner i's buffered `futex := 0` (behind the head store)
  r : Nat → Int

def init : State :=
  { futex := 0, dpc := .d0, dfutB := false, scanned := fun _ => false, found := false, kpc := fun _ => .k0,
    hd := fun _ => 0, mh := fun _ => 0, tl := fun _ => 0, bhd := fun _ => false, bfut := fun _ => false, r := fun _ => 0 }

inductive Label
  | dDec | dScanStart | dScanQ (i : Nat) | dScanEnd | dStore0 | flushD | dLoad
  | dWaitSleep | dWaitEagain | dWaitIntr | dSpurious
  | k0 (i : Nat) | kf (i : Nat) | k1 (i : Nat) | k2Wake (i : Nat) | k2Skip (i : Nat) | k3 (i : Nat)
  | flushHd (i : Nat) | flushFut (i : Nat)
  | drain (i v : Nat)
  deriving DecidableEq, Repr

def step (c : Cfg) (s : State) : Label → Option State
  | .dDec =>
    if s.dfutB = false ∧ ((c.decFirst = true ∧ s.dpc = .d0) ∨ (c.decFirst = false ∧ s.dpc = .dpost)) then
      some { s with futex := s.futex - 1,
                    dpc := if c.decFirst then .dscan else (if s.found then .dfound else .dwloop),
                    found := if c.decFirst then false else s.found }
    else none
  | .dScanStart =>
    if c.decFirst = false ∧ s.dpc = .d0 then some { s with dpc := .dscan, found := false } else none
  | .dScanQ i =>
    if s.dpc = .dscan ∧ i < c.n ∧ s.scanned i = false then
      some { s with scanned := upd s.scanned i true, found := if s.mh i ≠ s.tl i then true else s.found }
    else none
  | .dScanEnd =>
    if s.dpc = .dscan ∧ (s.found = true ∨ ∀ i, i < c.n → s.scanned i = true) then
      some { s with scanned := fun _ => false,
                    dpc := if c.decFirst then (if s.found then .dfound else .dwloop) else .dpost }
    else none
  | .dStore0 => if s.dpc = .dfound then some { s with dfutB := true, dpc := .d0 } else none
  | .flushD => if s.dfutB = true then some { s with futex := 0, dfutB := false } else none
  | .dLoad => if s.dpc = .dwloop then some { s with dpc := if s.futex = -1 then .dwait else .d0 } else none
  | .dWaitSleep => if s.dpc = .dwait ∧ s.futex = -1 then some { s with dpc := .dsleep } else none
  | .dWaitEagain => if s.dpc = .dwait ∧ s.futex ≠ -1 then some { s with dpc := .d0 } else none
  | .dWaitIntr => if s.dpc = .dwait then some { s with dpc := .dwloop } else none
  | .dSpurious => if s.dpc = .dsleep then some { s with dpc := .dwloop } else none
  | .k0 i =>
    if i < c.n ∧ s.kpc i = .k0 then
      some { s with hd := upd s.hd i (s.hd i + 1), bhd := upd s.bhd i true, kpc := upd s.kpc i .kf }
    else none
  | .kf i =>
    if s.kpc i = .kf ∧ (c.mbBeforeWake = true → s.bhd i = false) then some { s with kpc := upd s.kpc i .k1 } else none
  | .k1 i => if s.kpc i = .k1 then some { s with r := upd s.r i s.futex, kpc := upd s.kpc i .k2 } else none
  | .k2Wake i =>
    if s.kpc i = .k2 ∧ s.r i = -1 then some { s with bfut := upd s.bfut i true, kpc := upd s.kpc i .k3 } else none
  | .k2Skip i => if s.kpc i = .k2 ∧ s.r i ≠ -1 then some { s with kpc := upd s.kpc i .k0 } else none
  | .k3 i =>
    -- FUTEX_WAKE: a system call, the owner's store buffer is drained before it takes effect
    if s.kpc i = .k3 ∧ s.bhd i = false ∧ s.bfut i = false then
      some { s with kpc := upd s.kpc i .k0, dpc := if s.dpc = .dsleep then .dwloop else s.dpc }
    else none
  | .flushHd i =>
    if s.bhd i = true then some { s with mh := upd s.mh i (s.hd i), bhd := upd s.bhd i false } else none
  | .flushFut i =>
    if s.bfut i = true ∧ s.bhd i = false then some { s with futex := 0, bfut := upd s.bfut i false } else none
  | .drain i v =>
    if s.tl i ≤ v ∧ v ≤ s.mh i then some { s with tl := upd s.tl i v } else none

inductive Reach (c : Cfg) : State → Prop
  | init : Reach c init
  | step {s s' l} : Reach c s → step c s l = some s' → Reach c s'

def run (c : Cfg) : State → List Label → Option State
  | s, [] => some s
  | s, l :: ls => match step c s l with
    | none => none
    | some s' => run c s' ls

/-- owner `i` has stored a new `head` and has not yet passed its futex test with a stale value: it
will (re)set the futex and call `FUTEX_WAKE` -/
def willWake (s : State) (i : Nat) : Prop :=
  s.kpc i = .kf ∨ s.kpc i = .k1 ∨ (s.kpc i = .k2 ∧ s.r i = -1) ∨ (s.kpc i = .k3 ∧ s.bfut i = true)

end UrcuVerif.DeferWake
