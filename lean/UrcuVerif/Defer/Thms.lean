import UrcuVerif.Defer.Inv
/-!
# C13 — consequences of the invariant (helper lemmas for `Props/C13.lean`)

`*_spec` lemmas describe, for a state satisfying `Inv`, what each run / snapshot / (un)register
step does; `invoked_step` says that only a run adds invocations and that every added invocation
is covered by a completed grace period; `abort_only_double_register` says no assertion fires;
`deferAllSolo_spec` is the single-thread functional form (any stream length, `SIZE − 2` rule).
-/
namespace UrcuVerif.Defer


theorem TInv.all_done {c : Cfg} {x : TState} (h : TInv c x) (he : x.head = x.tail) :
    x.invoked.map Invk.pair = pairs x.queued := by
  have := h.empty he
  rw [h.done, this, List.take_length]

theorem barrierRun_spec {c : Cfg} {n : Nat} {s s' : State} {out : Out} (h : Inv c n s)
    (st : step c n s .barrierRun = some (s', out)) :
    ∃ who gs, s.lock = some ⟨.barrier who, gs, true⟩ ∧ s'.lock = none ∧ (∃ calls, out = .ran calls) ∧
      ∀ t, t ∈ s.registry → (s'.th t).head = (s.th t).head ∧ (s'.th t).tail = (s.th t).lastHead ∧
        (s'.th t).queued = (s.th t).queued ∧
        ∀ k cl, (s.th t).queued[k]? = some cl → cl.time < gs → k < (s'.th t).invoked.length := by
  obtain ⟨h1, h2, h3, h4, h5, h6, h7, h8, h9, h10, h11, h12, h13⟩ := h
  simp only [step] at st
  split at st
  · rename_i who gs hl
    have hsn := h11 who gs true hl
    split at st
    · simp only [Option.some.injEq, Prod.mk.injEq] at st
      obtain ⟨rfl, rfl⟩ := st
      refine ⟨who, gs, hl, rfl, ⟨_, rfl⟩, ?_⟩
      intro t ht
      have hs := hsn t ht
      have e := runT_eq (h1 t) hs s.clock
      rcases hrt : runT c (s.th t) (s.th t).lastHead s.clock with ⟨x', cs⟩
      rw [hrt] at e
      obtain ⟨f1, f2, f3, f4, f5, f6, f7, f8, f9, f10⟩ := runQ_frame (h1 t) hs s.clock e
      simp only [tick, ht, if_true, hrt]
      refine ⟨f2, f1, by simp [TState.queued, f4], ?_⟩
      intro k cl hk hlt
      rw [f8]
      exact (hs.before k cl hk).2 hlt
    · rename_i hall
      exfalso; apply hall
      rw [List.all_eq_true]
      intro t ht
      exact runQ_isSome (h1 t) (hsn t ht) s.clock
  · simp at st

theorem sum_eq_zero {l : List Nat} (h : l.sum = 0) : ∀ x, x ∈ l → x = 0 := by
  induction l with
  | nil => intro x hx; cases hx
  | cons a l ih =>
    simp only [List.sum_cons] at h
    intro x hx
    rcases List.mem_cons.1 hx with rfl | hx
    · omega
    · exact ih (by omega) x hx

theorem barrierSnapshot_spec {c : Cfg} {n : Nat} {s s' : State} {out : Out} {who : Option Nat} (h : Inv c n s)
    (st : step c n s (.barrierSnapshot who) = some (s', out)) :
    (out = .skipped .emptyRegistry ∧ s.registry = []) ∨
    (out = .skipped .noItems ∧ s'.lock = none ∧ ∀ t, t ∈ s.registry →
        (s.th t).invoked.map Invk.pair = pairs (s.th t).queued) ∨
    (out = .snapshot ∧ s'.lock = some ⟨.barrier who, s.clock, false⟩ ∧ s'.registry = s.registry ∧
        ∀ t cl, cl ∈ (s.th t).queued → cl.time < s.clock) := by
  obtain ⟨h1, h2, h3, h4, h5, h6, h7, h8, h9, h10, h11, h12, h13⟩ := h
  simp only [step] at st
  split at st
  · rename_i he
    simp only [Option.some.injEq, Prod.mk.injEq] at st
    obtain ⟨rfl, rfl⟩ := st
    exact Or.inl ⟨rfl, he⟩
  split at st
  · simp at st
  rename_i hl
  have hl' : s.lock = none := by simpa using hl
  split at st
  · rename_i hz
    simp only [Option.some.injEq, Prod.mk.injEq] at st
    obtain ⟨rfl, rfl⟩ := st
    refine Or.inr (Or.inl ⟨rfl, hl', ?_⟩)
    intro t ht
    have := sum_eq_zero hz ((snapTh s.th s.registry t).lastHead - (snapTh s.th s.registry t).tail)
      (List.mem_map.2 ⟨t, ht, rfl⟩)
    simp only [snapTh, ht, if_true] at this
    have htl := (h1 t).tail_le
    exact (h1 t).all_done (by omega)
  · simp only [Option.some.injEq, Prod.mk.injEq] at st
    obtain ⟨rfl, rfl⟩ := st
    refine Or.inr (Or.inr ⟨rfl, rfl, rfl, ?_⟩)
    intro t cl hcl
    exact h2 t cl (by simpa [TState.queued] using hcl)

theorem unregister_spec {c : Cfg} {n : Nat} {s s' : State} {op : Op} {out : Out} (h : Inv c n s)
    (st : step c n s op = some (s', out)) {t : Nat} (hop : op = .unregBegin t ∨ op = .unregEnd t)
    {cs : List (Nat × BitVec 64 × BitVec 64)} {b : Bool} (ho : out = .unregistered cs b) :
    (s'.th t).invoked.map Invk.pair = pairs (s'.th t).queued ∧ (s'.th t).queued = (s.th t).queued ∧
    (s'.th t).q.size = 0 ∧ (c.fixed = true → (s'.th t).lastHead = 0) ∧ t ∉ s'.registry ∧ s'.lock = none := by
  have hh := h
  obtain ⟨h1, h2, h3, h4, h5, h6, h7, h8, h9, h10, h11, h12, h13⟩ := h
  rcases hop with rfl | rfl
  · simp only [step] at st
    split at st
    · simp at st
    rename_i hl
    have hl' : s.lock = none := by simpa using hl
    split at st
    · simp at st
    split at st
    · rename_i he
      simp only [Option.some.injEq, Prod.mk.injEq] at st
      obtain ⟨rfl, -⟩ := st
      obtain ⟨u1, u2, u3, u4, u5⟩ := unregT_fields c (s.th t)
      have := (h1 t).all_done he
      have hnm : t ∉ s.registry.erase t := by
        intro hm; exact (h3.mem_erase_iff.1 hm).1 rfl
      simp only [tick, upd, if_true]
      exact ⟨by simpa [unregT, TState.queued] using this, by simp [TState.queued, u3], u1, u2, hnm, hl'⟩
    · simp only [Option.some.injEq, Prod.mk.injEq] at st
      obtain ⟨-, rfl⟩ := st
      cases ho
  · simp only [step] at st
    split at st
    · rename_i t' snap gs hl
      split at st
      · simp at st
      rename_i hne
      have : t' = t := by simpa using hne
      subst this
      split at st
      · simp only [Option.some.injEq, Prod.mk.injEq] at st; obtain ⟨-, rfl⟩ := st; cases ho
      rename_i x' cs' hr
      simp only [Option.some.injEq, Prod.mk.injEq] at st
      obtain ⟨rfl, -⟩ := st
      obtain ⟨hs, hsn⟩ := h13 t' snap gs true hl
      have ht := runQ_TInv (h1 t') hs s.clock hr
      obtain ⟨f1, f2, f3, f4, f5, f6, f7, f8, f9, f10⟩ := runQ_frame (h1 t') hs s.clock hr
      obtain ⟨u1, u2, u3, u4, u5⟩ := unregT_fields c x'
      have := ht.all_done (by omega)
      have hnr := (h6 t' snap gs true hl).1
      simp only [tick, upd, if_true]
      exact ⟨by simpa [unregT, TState.queued] using this, by simp [TState.queued, u3, f4], u1, u2, hnr, trivial⟩
    · simp at st

theorem reg_ok {c : Cfg} (hf : c.fixed = true) {n : Nat} {s : State} (h : Inv c n s) {t : Nat}
    (ht : t ∉ s.registry) (hl : s.lock = none) (g : Array (BitVec 64)) (hg : g.size = c.size) :
    ∃ s', step c n s (.reg t g) = some (s', .registered s.registry.isEmpty) ∧ t ∈ s'.registry := by
  have := h.unreg_q t ht (by simp [hl])
  simp only [step, hl, Option.isSome_none, Bool.false_eq_true, if_false, hg, ne_eq, not_true_eq_false,
    this.1, this.2 hf]
  exact ⟨_, rfl, by simp [tick]⟩

theorem flushRun_spec {c : Cfg} {n : Nat} {s s' : State} {out : Out} {t : Nat} (h : Inv c n s)
    (st : step c n s (.flushRun t) = some (s', out)) :
    (∃ calls, out = .ran calls) ∧ (s'.th t).head = (s'.th t).tail ∧
    (s'.th t).invoked.map Invk.pair = pairs (s'.th t).queued ∧ (s'.th t).queued = (s.th t).queued := by
  obtain ⟨h1, h2, h3, h4, h5, h6, h7, h8, h9, h10, h11, h12, h13⟩ := h
  simp only [step] at st
  split at st
  · rename_i t' snap gs hl
    split at st
    · simp at st
    rename_i hne
    have : t' = t := by simpa using hne
    subst this
    obtain ⟨hs, hsn⟩ := h12 t' snap gs true hl
    split at st
    · rename_i hnone
      have := runQ_isSome (h1 t') hs s.clock
      rw [hnone] at this; cases this
    rename_i x' cs' hr
    simp only [Option.some.injEq, Prod.mk.injEq] at st
    obtain ⟨rfl, rfl⟩ := st
    have ht := runQ_TInv (h1 t') hs s.clock hr
    obtain ⟨f1, f2, f3, f4, f5, f6, f7, f8, f9, f10⟩ := runQ_frame (h1 t') hs s.clock hr
    simp only [tick, upd, if_true]
    exact ⟨⟨_, rfl⟩, by omega, ht.all_done (by omega), by simp [TState.queued, f4]⟩
  · simp at st

/-- the only assertion that can fire in a reachable state is the one guarding double registration -/
theorem abort_only_double_register {c : Cfg} (hf : c.fixed = true) {n : Nat} {s s' : State} {op : Op} {a : Abort}
    (h : Inv c n s) (st : step c n s op = some (s', .abort a)) :
    ∃ t g, op = .reg t g ∧ t ∈ s.registry := by
  have hh := h
  obtain ⟨h1, h2, h3, h4, h5, h6, h7, h8, h9, h10, h11, h12, h13⟩ := h
  cases op with
  | reg t g =>
    refine ⟨t, g, rfl, ?_⟩
    apply Classical.byContradiction
    intro hn
    simp only [step] at st
    split at st
    · simp at st
    rename_i hl
    have hl' : s.lock = none := by simpa using hl
    have := h5 t hn (by simp [hl'])
    split at st
    · simp at st
    simp [this.1, this.2 hf, tick] at st
  | unregBegin t =>
    simp only [step] at st
    (repeat' split at st) <;> simp at st
  | unregEnd t =>
    simp only [step] at st
    split at st
    · rename_i t' snap gs hl
      split at st
      · simp at st
      rename_i hne
      have : t' = t := by simpa using hne
      subst this
      obtain ⟨hs, -⟩ := h13 t' snap gs true hl
      have := runQ_isSome (h1 t') hs s.clock
      split at st
      · rename_i hnone; rw [hnone] at this; cases this
      · simp at st
    · simp at st
  | barrierSnapshot who =>
    simp only [step] at st
    (repeat' split at st) <;> simp at st
  | barrierRun =>
    obtain ⟨_, _, _, _, ⟨calls, hc⟩, _⟩ := barrierRun_spec hh st
    cases hc
  | flushSnapshot t =>
    simp only [step] at st
    (repeat' split at st) <;> simp at st
  | flushRun t =>
    obtain ⟨⟨calls, hc⟩, _⟩ := flushRun_spec hh st
    cases hc
  | gp =>
    simp only [step] at st
    (repeat' split at st) <;> simp at st
  | enq t f p =>
    simp only [step] at st
    split at st
    · simp at st
    split at st
    · simp at st
    split at st
    · split at st
      · simp at st
      · rename_i hocc; exact absurd (h1 t).occ hocc
    · simp at st
  | rlock i =>
    simp only [step] at st
    (repeat' split at st) <;> simp at st
  | runlock i =>
    simp only [step] at st
    (repeat' split at st) <;> simp at st


/-- only a run adds invocations, and it adds them for the calls a completed grace period covers -/
theorem invoked_step {c : Cfg} {n : Nat} {s s' : State} {op : Op} {out : Out}
    (h : Inv c n s) (st : step c n s op = some (s', out)) (t k : Nat)
    (hk : (s.th t).invoked.length ≤ k) (hk' : k < (s'.th t).invoked.length) :
    ∃ l cl, s.lock = some l ∧ l.gpDone = true ∧ (s.th t).queued[k]? = some cl ∧ cl.time < l.gpStart ∧
      l.gpStart < s.clock ∧ (∀ i b, s.cs i = some b → l.gpStart ≤ b) := by
  have hh := h
  obtain ⟨h1, h2, h3, h4, h5, h6, h7, h8, h9, h10, h11, h12, h13⟩ := h
  have key : ∀ (x x' : TState) (snap gs : Nat) (cs : List (BitVec 64 × BitVec 64)),
      x = s.th t → Snap c x snap gs → runQ c x snap s.clock = some (x', cs) → k < x'.invoked.length →
      ∃ cl, (s.th t).queued[k]? = some cl ∧ cl.time < gs := by
    intro x x' snap gs cs hx hs hr hlt
    subst hx
    obtain ⟨f1, f2, f3, f4, f5, f6, f7, f8, f9, f10⟩ := runQ_frame (h1 t) hs s.clock hr
    have hkq : k < (s.th t).queued.length := by have := hs.nq2; omega
    refine ⟨(s.th t).queued[k], by simp [hkq], ?_⟩
    exact (hs.before k _ (by simp [hkq])).1 (by omega)
  cases op with
  | reg t' g =>
    simp only [step] at st
    (repeat' split at st) <;> simp only [Option.some.injEq, Prod.mk.injEq, reduceCtorEq] at st <;>
      (try (obtain ⟨rfl, -⟩ := st)) <;> (try simp only [tick, upd] at hk') <;> (try grind) <;> simp at st
  | unregBegin t' =>
    simp only [step] at st
    (repeat' split at st) <;> simp only [Option.some.injEq, Prod.mk.injEq, reduceCtorEq] at st <;>
      (try (obtain ⟨rfl, -⟩ := st)) <;> (try simp only [tick, upd, unregT] at hk') <;> (try grind) <;> simp at st
  | unregEnd t' =>
    simp only [step] at st
    split at st
    · rename_i t'' snap gs hl
      split at st
      · simp at st
      rename_i hne
      have : t'' = t' := by simpa using hne
      subst this
      split at st
      · simp only [Option.some.injEq, Prod.mk.injEq] at st; obtain ⟨rfl, -⟩ := st; omega
      rename_i x' cs hr
      simp only [Option.some.injEq, Prod.mk.injEq] at st
      obtain ⟨rfl, -⟩ := st
      simp only [tick, upd] at hk'
      by_cases e : t = t''
      · subst e
        simp only [if_true] at hk'
        obtain ⟨hs, -⟩ := h13 t snap gs true hl
        obtain ⟨cl, a, b⟩ := key _ x' snap gs cs rfl hs hr (by simpa [unregT] using hk')
        exact ⟨_, cl, hl, rfl, a, b, h7 _ hl, h8 _ hl rfl⟩
      · simp only [e, if_false] at hk'; omega
    · simp at st
  | barrierSnapshot who =>
    simp only [step] at st
    (repeat' split at st) <;> simp only [Option.some.injEq, Prod.mk.injEq, reduceCtorEq] at st <;>
      (try (obtain ⟨rfl, -⟩ := st)) <;> (try simp only [tick, snapTh] at hk') <;> (try grind) <;> simp at st
  | barrierRun =>
    simp only [step] at st
    split at st
    · rename_i who gs hl
      split at st
      · simp only [Option.some.injEq, Prod.mk.injEq] at st
        obtain ⟨rfl, -⟩ := st
        simp only [tick] at hk'
        by_cases e : t ∈ s.registry
        · simp only [e, if_true] at hk'
          have hs := h11 who gs true hl t e
          have hr := runT_eq (h1 t) hs s.clock
          obtain ⟨cl, a, b⟩ := key _ _ _ gs _ rfl hs hr hk'
          exact ⟨_, cl, hl, rfl, a, b, h7 _ hl, h8 _ hl rfl⟩
        · simp only [e, if_false] at hk'; omega
      · simp only [Option.some.injEq, Prod.mk.injEq] at st; obtain ⟨rfl, -⟩ := st; omega
    · simp at st
  | flushSnapshot t' =>
    simp only [step] at st
    (repeat' split at st) <;> simp only [Option.some.injEq, Prod.mk.injEq, reduceCtorEq] at st <;>
      (try (obtain ⟨rfl, -⟩ := st)) <;> (try simp only [tick, upd] at hk') <;> (try grind) <;> simp at st
  | flushRun t' =>
    simp only [step] at st
    split at st
    · rename_i t'' snap gs hl
      split at st
      · simp at st
      rename_i hne
      have : t'' = t' := by simpa using hne
      subst this
      split at st
      · simp only [Option.some.injEq, Prod.mk.injEq] at st; obtain ⟨rfl, -⟩ := st; omega
      rename_i x' cs hr
      simp only [Option.some.injEq, Prod.mk.injEq] at st
      obtain ⟨rfl, -⟩ := st
      simp only [tick, upd] at hk'
      by_cases e : t = t''
      · subst e
        simp only [if_true] at hk'
        obtain ⟨hs, -⟩ := h12 t snap gs true hl
        obtain ⟨cl, a, b⟩ := key _ x' snap gs cs rfl hs hr hk'
        exact ⟨_, cl, hl, rfl, a, b, h7 _ hl, h8 _ hl rfl⟩
      · simp only [e, if_false] at hk'; omega
    · simp at st
  | gp =>
    simp only [step] at st
    (repeat' split at st) <;> simp only [Option.some.injEq, Prod.mk.injEq, reduceCtorEq] at st <;>
      (try (obtain ⟨rfl, -⟩ := st)) <;> (try simp only [tick] at hk') <;> (try grind) <;> simp at st
  | enq t' f p =>
    simp only [step] at st
    (repeat' split at st) <;> simp only [Option.some.injEq, Prod.mk.injEq, reduceCtorEq] at st <;>
      (try (obtain ⟨rfl, -⟩ := st)) <;> (try simp only [tick, upd] at hk') <;> (try grind [enqT_invoked]) <;> simp at st
  | rlock i =>
    simp only [step] at st
    (repeat' split at st) <;> simp only [Option.some.injEq, Prod.mk.injEq, reduceCtorEq] at st <;>
      (try (obtain ⟨rfl, -⟩ := st)) <;> (try simp only [tick] at hk') <;> (try grind) <;> simp at st
  | runlock i =>
    simp only [step] at st
    (repeat' split at st) <;> simp only [Option.some.injEq, Prod.mk.injEq, reduceCtorEq] at st <;>
      (try (obtain ⟨rfl, -⟩ := st)) <;> (try simp only [tick] at hk') <;> (try grind) <;> simp at st


/-- `rcu_defer_barrier_thread()` of a thread running alone (snapshot = current head) -/
def flushSolo (c : Cfg) (x : TState) (now : Nat) : Option TState :=
  (runQ c { x with snapQ := x.queuedR.length } x.head now).map (·.1)

/-- `defer_rcu(f, p)` of a thread running alone: the `SIZE − 2` rule, then the enqueue -/
def deferSolo (c : Cfg) (x : TState) (fp : BitVec 64 × BitVec 64) (now : Nat) : Option TState :=
  if needFlush c x then (flushSolo c x now).map fun x' => (enqT c x' fp.1 fp.2 now).1
  else some (enqT c x fp.1 fp.2 now).1

def deferAllSolo (c : Cfg) (now : Nat) : TState → List (BitVec 64 × BitVec 64) → Option TState
  | x, [] => some x
  | x, fp :: rest => (deferSolo c x fp now).bind fun x' => deferAllSolo c now x' rest

theorem TInv.pairs_queued {c : Cfg} {x : TState} (h : TInv c x) :
    pairs x.queued = x.invoked.map Invk.pair ++ x.pend := by
  rw [h.done, TState.pend, ← pairs_append, List.take_append_drop]

def maxTime : List Call → Nat
  | [] => 0
  | cl :: l => max cl.time (maxTime l)

theorem le_maxTime {l : List Call} {cl : Call} (h : cl ∈ l) : cl.time ≤ maxTime l := by
  induction l with
  | nil => cases h
  | cons a l ih =>
    rcases List.mem_cons.1 h with rfl | h
    · simp [maxTime]; omega
    · have := ih h; simp [maxTime]; omega

theorem flushSolo_spec {c : Cfg} {x : TState} (h : TInv c x) (now : Nat) :
    ∃ x', flushSolo c x now = some x' ∧ TInv c x' ∧ x'.head = x'.tail ∧ x'.q = x.q ∧
      x'.queued = x.queued ∧ x'.invoked.map Invk.pair = pairs x.queued := by
  have hs := Snap.create h (maxTime x.queuedR + 1) (fun cl hcl => Nat.lt_succ_of_le (le_maxTime hcl)) x.lastHead
  have ht := h.snapUpd x.lastHead x.queuedR.length
  have e := runT_eq ht hs now
  rcases hrt : runT c { x with lastHead := x.lastHead, snapQ := x.queuedR.length } x.head now with ⟨x', cs⟩
  rw [hrt] at e
  have ht' := runQ_TInv ht hs now e
  obtain ⟨f1, f2, f3, f4, f5, f6, f7, f8, f9, f10⟩ := runQ_frame ht hs now e
  have hq : x'.queued = x.queued := by simp [TState.queued, f4]
  refine ⟨x', ?_, ht', by rw [f1, f2], f3, hq, ?_⟩
  · simp only [flushSolo]; rw [e]; rfl
  · have := ht'.all_done (by rw [f1, f2])
    rw [this, hq]

theorem deferSolo_spec {c : Cfg} (hc : c.WF) {x : TState} (h : TInv c x) (hq : x.q.size = c.size)
    (fp : BitVec 64 × BitVec 64) (now : Nat) :
    ∃ x', deferSolo c x fp now = some x' ∧ TInv c x' ∧ x'.q.size = c.size ∧
      pairs x'.queued = pairs x.queued ++ [fp] := by
  have h4 := hc.ge4
  unfold deferSolo
  split
  · obtain ⟨x1, e1, t1, he, q1, qq, _⟩ := flushSolo_spec h now
    have hnf : needFlush c x1 = false := by simp [needFlush, he]; omega
    have hq1 : x1.q.size = c.size := by rw [q1]; exact hq
    refine ⟨_, by rw [e1]; rfl, enqT_TInv hc t1 hq1 hnf _ _ _, by simp [writeWords_size, hq1], ?_⟩
    simp [qq, pairs]
  · rename_i hnf
    refine ⟨_, rfl, enqT_TInv hc h hq (by simpa using hnf) _ _ _, by simp [writeWords_size, hq], ?_⟩
    simp [pairs]

theorem deferAllSolo_spec {c : Cfg} (hc : c.WF) (now : Nat) (xs : List (BitVec 64 × BitVec 64)) :
    ∀ {x : TState}, TInv c x → x.q.size = c.size →
    ∃ x', deferAllSolo c now x xs = some x' ∧ TInv c x' ∧ x'.q.size = c.size ∧
      pairs x'.queued = pairs x.queued ++ xs := by
  induction xs with
  | nil => intro x h hq; exact ⟨x, rfl, h, hq, by simp⟩
  | cons fp rest ih =>
    intro x h hq
    obtain ⟨x1, e1, t1, q1, p1⟩ := deferSolo_spec hc h hq fp now
    obtain ⟨x2, e2, t2, q2, p2⟩ := ih t1 q1
    refine ⟨x2, ?_, t2, q2, ?_⟩
    · simp only [deferAllSolo, e1, Option.bind_some, e2]
    · rw [p2, p1]; simp


/-- the ghost list of queued calls only grows (at the end) -/
theorem queued_mono_step {c : Cfg} {n : Nat} {s s' : State} {op : Op} {out : Out}
    (st : step c n s op = some (s', out)) (t : Nat) : ∃ l, (s'.th t).queuedR = l ++ (s.th t).queuedR := by
  cases op with
  | barrierRun =>
    simp only [step] at st
    split at st
    · split at st
      · simp only [Option.some.injEq, Prod.mk.injEq] at st
        obtain ⟨rfl, -⟩ := st
        refine ⟨[], ?_⟩
        simp only [tick, List.nil_append]
        split
        · simp only [runT, runQ]
          split <;> rename_i h <;> split at h <;> simp at h
          · obtain ⟨rfl, -⟩ := h; rfl
          · rfl
        · rfl
      · simp only [Option.some.injEq, Prod.mk.injEq] at st; obtain ⟨rfl, -⟩ := st; exact ⟨[], rfl⟩
    · simp at st
  | enq t' f p =>
    simp only [step] at st
    (repeat' split at st) <;> simp only [Option.some.injEq, Prod.mk.injEq, reduceCtorEq] at st <;>
      (try (obtain ⟨rfl, -⟩ := st)) <;> (try simp only [tick, upd]) <;> (try (first | exact ⟨[], rfl⟩ | skip)) <;> (try simp at st)
    split
    · rename_i e; subst e; exact ⟨[_], rfl⟩
    · exact ⟨[], rfl⟩
  | unregEnd t' =>
    simp only [step] at st
    split at st
    · split at st
      · simp at st
      split at st
      · simp only [Option.some.injEq, Prod.mk.injEq] at st; obtain ⟨rfl, -⟩ := st; exact ⟨[], rfl⟩
      rename_i x' cs hr
      simp only [Option.some.injEq, Prod.mk.injEq] at st
      obtain ⟨rfl, -⟩ := st
      simp only [tick, upd]
      split
      · rename_i e; subst e
        simp only [runQ] at hr
        split at hr <;> simp at hr
        obtain ⟨rfl, -⟩ := hr; exact ⟨[], rfl⟩
      · exact ⟨[], rfl⟩
    · simp at st
  | flushRun t' =>
    simp only [step] at st
    split at st
    · split at st
      · simp at st
      split at st
      · simp only [Option.some.injEq, Prod.mk.injEq] at st; obtain ⟨rfl, -⟩ := st; exact ⟨[], rfl⟩
      rename_i x' cs hr
      simp only [Option.some.injEq, Prod.mk.injEq] at st
      obtain ⟨rfl, -⟩ := st
      simp only [tick, upd]
      split
      · rename_i e; subst e
        simp only [runQ] at hr
        split at hr <;> simp at hr
        obtain ⟨rfl, -⟩ := hr; exact ⟨[], rfl⟩
      · exact ⟨[], rfl⟩
    · simp at st
  | reg t' g =>
    simp only [step] at st
    (repeat' split at st) <;> simp only [Option.some.injEq, Prod.mk.injEq, reduceCtorEq] at st <;>
      (try (obtain ⟨rfl, -⟩ := st)) <;> (try simp only [tick, upd]) <;> (try (split <;> exact ⟨[], by first | rfl | (rename_i e; subst e; rfl)⟩)) <;> (try exact ⟨[], rfl⟩) <;> simp at st
  | unregBegin t' =>
    simp only [step] at st
    (repeat' split at st) <;> simp only [Option.some.injEq, Prod.mk.injEq, reduceCtorEq] at st <;>
      (try (obtain ⟨rfl, -⟩ := st)) <;> (try simp only [tick, upd, unregT]) <;> (try (split <;> exact ⟨[], by first | rfl | (rename_i e; subst e; rfl)⟩)) <;> (try exact ⟨[], rfl⟩) <;> simp at st
  | barrierSnapshot who =>
    simp only [step] at st
    (repeat' split at st) <;> simp only [Option.some.injEq, Prod.mk.injEq, reduceCtorEq] at st <;>
      (try (obtain ⟨rfl, -⟩ := st)) <;> (try simp only [tick, snapTh]) <;> (try (split <;> exact ⟨[], rfl⟩)) <;> (try exact ⟨[], rfl⟩) <;> simp at st
  | flushSnapshot t' =>
    simp only [step] at st
    (repeat' split at st) <;> simp only [Option.some.injEq, Prod.mk.injEq, reduceCtorEq] at st <;>
      (try (obtain ⟨rfl, -⟩ := st)) <;> (try simp only [tick, upd]) <;> (try (split <;> exact ⟨[], by first | rfl | (rename_i e; subst e; rfl)⟩)) <;> (try exact ⟨[], rfl⟩) <;> simp at st
  | gp =>
    simp only [step] at st
    (repeat' split at st) <;> simp only [Option.some.injEq, Prod.mk.injEq, reduceCtorEq] at st <;>
      (try (obtain ⟨rfl, -⟩ := st)) <;> (try exact ⟨[], rfl⟩) <;> simp at st
  | rlock i =>
    simp only [step] at st
    (repeat' split at st) <;> simp only [Option.some.injEq, Prod.mk.injEq, reduceCtorEq] at st <;>
      (try (obtain ⟨rfl, -⟩ := st)) <;> (try exact ⟨[], rfl⟩) <;> simp at st
  | runlock i =>
    simp only [step] at st
    (repeat' split at st) <;> simp only [Option.some.injEq, Prod.mk.injEq, reduceCtorEq] at st <;>
      (try (obtain ⟨rfl, -⟩ := st)) <;> (try exact ⟨[], rfl⟩) <;> simp at st

/-- Runs: reflexive-transitive closure of `step`. -/
inductive Steps (c : Cfg) (n : Nat) : State → State → Prop
  | refl (s) : Steps c n s s
  | tail {s s' s'' op out} : Steps c n s s' → step c n s' op = some (s'', out) → Steps c n s s''

theorem reach_steps {c n h0 s s'} (h : Reach c n h0 s) (st : Steps c n s s') : Reach c n h0 s' := by
  induction st with
  | refl => exact h
  | tail _ hs ih => exact Reach.step ih hs

theorem Steps.trans {c n} {a b d : State} (h1 : Steps c n a b) (h2 : Steps c n b d) : Steps c n a d := by
  induction h2 with
  | refl => exact h1
  | tail _ hs ih => exact Steps.tail ih hs

theorem queued_mono_steps {c : Cfg} {n : Nat} {s s' : State} (st : Steps c n s s') (t : Nat) :
    ∃ l, (s'.th t).queued = (s.th t).queued ++ l := by
  induction st with
  | refl => exact ⟨[], by simp⟩
  | tail _ hs ih =>
    obtain ⟨l1, e1⟩ := ih
    obtain ⟨l2, e2⟩ := queued_mono_step hs t
    refine ⟨l1 ++ l2.reverse, ?_⟩
    simp only [TState.queued] at e1 ⊢
    rw [e2, List.reverse_append, e1, List.append_assoc]

/-- a call queued at some point keeps its index in the ghost list forever -/
theorem queued_getElem_steps {c : Cfg} {n : Nat} {s s' : State} (st : Steps c n s s') (t k : Nat) {cl : Call}
    (h : (s.th t).queued[k]? = some cl) : (s'.th t).queued[k]? = some cl := by
  obtain ⟨l, e⟩ := queued_mono_steps st t
  have : k < (s.th t).queued.length := by
    rcases Nat.lt_or_ge k (s.th t).queued.length with a | b
    · exact a
    · rw [List.getElem?_eq_none b] at h; cases h
  rw [e, List.getElem?_append, if_pos this]
  exact h

end UrcuVerif.Defer
