import UrcuVerif.Defer.ConcTac
/-! Step lemmas of the concurrent defer_rcu invariant: owner, store-buffer and reader labels. -/
set_option linter.unusedSimpArgs false
set_option linter.unusedVariables false
namespace UrcuVerif.DeferConc
open UrcuVerif
open UrcuVerif.Defer (enc1 dec1 isFct clrFct setFct fctMark Call Invk)

theorem o_oMb (c : Cfg) (hc : c.WF) {s s' : State} (h : Inv c s) (t : Nat)
    (st : step c s (.oMb t) = some s') : InvO c s' := by
  dpre; openO; dgo
theorem e_oMb (c : Cfg) (hc : c.WF) {s s' : State} (h : Inv c s) (t : Nat)
    (st : step c s (.oMb t) = some s') : InvE c s' := by
  dpre; openE; dgo
theorem r_oMb (c : Cfg) (hc : c.WF) {s s' : State} (h : Inv c s) (t : Nat)
    (st : step c s (.oMb t) = some s') : InvR c s' := by
  dpre; openR; dgo
theorem g_oMb (c : Cfg) (hc : c.WF) {s s' : State} (h : Inv c s) (t : Nat)
    (st : step c s (.oMb t) = some s') : InvG c s' := by
  dpre; openG; dgo
theorem inv_oMb (c : Cfg) (hc : c.WF) {s s' : State} (h : Inv c s) (t : Nat)
    (st : step c s (.oMb t) = some s') : Inv c s' :=
  ⟨o_oMb c hc h t st, e_oMb c hc h t st, r_oMb c hc h t st, g_oMb c hc h t st⟩

theorem o_oStHead (c : Cfg) (hc : c.WF) {s s' : State} (h : Inv c s) (t : Nat)
    (st : step c s (.oStHead t) = some s') : InvO c s' := by
  dpre; openO; dgo
theorem e_oStHead (c : Cfg) (hc : c.WF) {s s' : State} (h : Inv c s) (t : Nat)
    (st : step c s (.oStHead t) = some s') : InvE c s' := by
  dpre; openE; dgo
theorem r_oStHead (c : Cfg) (hc : c.WF) {s s' : State} (h : Inv c s) (t : Nat)
    (st : step c s (.oStHead t) = some s') : InvR c s' := by
  dpre; openR; dgo
theorem g_oStHead (c : Cfg) (hc : c.WF) {s s' : State} (h : Inv c s) (t : Nat)
    (st : step c s (.oStHead t) = some s') : InvG c s' := by
  dpre; openG; dgo
theorem inv_oStHead (c : Cfg) (hc : c.WF) {s s' : State} (h : Inv c s) (t : Nat)
    (st : step c s (.oStHead t) = some s') : Inv c s' :=
  ⟨o_oStHead c hc h t st, e_oStHead c hc h t st, r_oStHead c hc h t st, g_oStHead c hc h t st⟩

theorem o_oStQ (c : Cfg) (hc : c.WF) {s s' : State} (h : Inv c s) (t : Nat)
    (st : step c s (.oStQ t) = some s') : InvO c s' := by
  dpre; rename_i hpc x w ws heq; openO; dgo?
  · intro t1 k i w1 hk
    by_cases ht : t1 = t
    · subst ht
      simp only [if_true] at hk ⊢
      rw [List.getElem?_append] at hk
      split at hk
      · obtain ⟨h1, h2⟩ := o8 t1 k i w1 hk
        simp only [List.length_append, List.length_singleton]
        exact ⟨by omega, h2⟩
      · rename_i hlt
        have h0 := o16 t1 0 (by simp [heq])
        simp [heq] at h0
        cases hkk : k - (s.bq t1).length with
        | zero =>
          simp [hkk] at hk; obtain ⟨rfl, rfl⟩ := hk; simp
          exact ⟨by omega, h0⟩
        | succ n => simp [hkk] at hk
    · simp only [ht, if_false] at hk ⊢
      exact o8 t1 k i w1 hk
  · intro t1 m hm
    by_cases ht : t1 = t
    · subst ht
      simp only [if_true] at hm ⊢
      have := o16 t1 (m+1) (by simp [heq]; omega)
      simp only [heq, List.getD_cons_succ] at this
      rw [this]; congr 1; omega
    · simp only [ht, if_false] at hm ⊢
      exact o16 t1 m hm
theorem e_oStQ (c : Cfg) (hc : c.WF) {s s' : State} (h : Inv c s) (t : Nat)
    (st : step c s (.oStQ t) = some s') : InvE c s' := by
  dpre; rename_i hpc x w ws heq; openE; dgo
theorem r_oStQ (c : Cfg) (hc : c.WF) {s s' : State} (h : Inv c s) (t : Nat)
    (st : step c s (.oStQ t) = some s') : InvR c s' := by
  dpre; openR; dgo
theorem g_oStQ (c : Cfg) (hc : c.WF) {s s' : State} (h : Inv c s) (t : Nat)
    (st : step c s (.oStQ t) = some s') : InvG c s' := by
  dpre; openG; dgo
theorem inv_oStQ (c : Cfg) (hc : c.WF) {s s' : State} (h : Inv c s) (t : Nat)
    (st : step c s (.oStQ t) = some s') : Inv c s' :=
  ⟨o_oStQ c hc h t st, e_oStQ c hc h t st, r_oStQ c hc h t st, g_oStQ c hc h t st⟩

theorem o_flushQ (c : Cfg) (hc : c.WF) {s s' : State} (h : Inv c s) (t : Nat)
    (st : step c s (.flushQ t) = some s') : InvO c s' := by
  dpre; rename_i x i w r heq; openO
  have hs : 0 < c.size := by have := hc.1; omega
  obtain ⟨hi1, hi2⟩ := o8 t 0 i w (by simp [heq])
  have hlen : (s.bq t).length = r.length + 1 := by simp [heq]
  dgo?
  · intro t1; split
    · rw [rset_size]; exact o2 t
    · exact o2 t1
  · intro t1 k i1 w1 hk
    by_cases ht : t1 = t
    · subst ht
      simp only [if_true] at hk ⊢
      obtain ⟨h1, h2⟩ := o8 t1 (k+1) i1 w1 (by simp [heq, hk])
      exact ⟨by omega, h2⟩
    · simp only [ht, if_false] at hk ⊢
      exact o8 t1 k i1 w1 hk
  · intro t1 j hj1 hj2
    by_cases ht : t1 = t
    · subst ht
      simp only [if_true] at hj2 ⊢
      have a1 := o12 t1; have a2 := o9 t1; have a3 := o13 t1; have a4 := o14 t1
      by_cases hji : j = i
      · subst hji
        rw [rget_rset_same c _ (o2 t1) hs]; exact hi2
      · rw [rget_rset_ne c _ (o2 t1) hs i j w (fun e => hji e.symm) (by omega) (by omega)]
        exact o15 t1 j hj1 (by omega)
    · simp only [ht, if_false] at hj2 ⊢
      exact o15 t1 j hj1 hj2
theorem e_flushQ (c : Cfg) (hc : c.WF) {s s' : State} (h : Inv c s) (t : Nat)
    (st : step c s (.flushQ t) = some s') : InvE c s' := by
  dpre; openE; dgo
theorem r_flushQ (c : Cfg) (hc : c.WF) {s s' : State} (h : Inv c s) (t : Nat)
    (st : step c s (.flushQ t) = some s') : InvR c s' := by
  dpre; openR; dgo
theorem g_flushQ (c : Cfg) (hc : c.WF) {s s' : State} (h : Inv c s) (t : Nat)
    (st : step c s (.flushQ t) = some s') : InvG c s' := by
  dpre; openG; dgo
theorem inv_flushQ (c : Cfg) (hc : c.WF) {s s' : State} (h : Inv c s) (t : Nat)
    (st : step c s (.flushQ t) = some s') : Inv c s' :=
  ⟨o_flushQ c hc h t st, e_flushQ c hc h t st, r_flushQ c hc h t st, g_flushQ c hc h t st⟩

theorem o_flushH (c : Cfg) (hc : c.WF) {s s' : State} (h : Inv c s) (t : Nat)
    (st : step c s (.flushH t) = some s') : InvO c s' := by
  dpre; openO; dgo
theorem e_flushH (c : Cfg) (hc : c.WF) {s s' : State} (h : Inv c s) (t : Nat)
    (st : step c s (.flushH t) = some s') : InvE c s' := by
  dpre; openE; openO; dgo
theorem r_flushH (c : Cfg) (hc : c.WF) {s s' : State} (h : Inv c s) (t : Nat)
    (st : step c s (.flushH t) = some s') : InvR c s' := by
  dpre; openR; openO; dgo
theorem g_flushH (c : Cfg) (hc : c.WF) {s s' : State} (h : Inv c s) (t : Nat)
    (st : step c s (.flushH t) = some s') : InvG c s' := by
  dpre; openG; dgo
theorem inv_flushH (c : Cfg) (hc : c.WF) {s s' : State} (h : Inv c s) (t : Nat)
    (st : step c s (.flushH t) = some s') : Inv c s' :=
  ⟨o_flushH c hc h t st, e_flushH c hc h t st, r_flushH c hc h t st, g_flushH c hc h t st⟩

theorem o_oRealloc (c : Cfg) (hc : c.WF) {s s' : State} (h : Inv c s) (t : Nat) (g : Array (BitVec 64))
    (st : step c s (.oRealloc t g) = some s') : InvO c s' := by
  dpre; openO; dgo
theorem e_oRealloc (c : Cfg) (hc : c.WF) {s s' : State} (h : Inv c s) (t : Nat) (g : Array (BitVec 64))
    (st : step c s (.oRealloc t g) = some s') : InvE c s' := by
  dpre; openE; dgo
theorem r_oRealloc (c : Cfg) (hc : c.WF) {s s' : State} (h : Inv c s) (t : Nat) (g : Array (BitVec 64))
    (st : step c s (.oRealloc t g) = some s') : InvR c s' := by
  dpre; openR; dgo
theorem g_oRealloc (c : Cfg) (hc : c.WF) {s s' : State} (h : Inv c s) (t : Nat) (g : Array (BitVec 64))
    (st : step c s (.oRealloc t g) = some s') : InvG c s' := by
  dpre; openG; dgo
theorem inv_oRealloc (c : Cfg) (hc : c.WF) {s s' : State} (h : Inv c s) (t : Nat) (g : Array (BitVec 64))
    (st : step c s (.oRealloc t g) = some s') : Inv c s' :=
  ⟨o_oRealloc c hc h t g st, e_oRealloc c hc h t g st, r_oRealloc c hc h t g st, g_oRealloc c hc h t g st⟩

theorem o_rdLock (c : Cfg) (hc : c.WF) {s s' : State} (h : Inv c s) (i : Nat)
    (st : step c s (.rdLock i) = some s') : InvO c s' := by
  dpre; openO; dgo
theorem e_rdLock (c : Cfg) (hc : c.WF) {s s' : State} (h : Inv c s) (i : Nat)
    (st : step c s (.rdLock i) = some s') : InvE c s' := by
  dpre; openE; dgo
theorem r_rdLock (c : Cfg) (hc : c.WF) {s s' : State} (h : Inv c s) (i : Nat)
    (st : step c s (.rdLock i) = some s') : InvR c s' := by
  dpre; openR; dgo
theorem g_rdLock (c : Cfg) (hc : c.WF) {s s' : State} (h : Inv c s) (i : Nat)
    (st : step c s (.rdLock i) = some s') : InvG c s' := by
  dpre; openG; dgo
theorem inv_rdLock (c : Cfg) (hc : c.WF) {s s' : State} (h : Inv c s) (i : Nat)
    (st : step c s (.rdLock i) = some s') : Inv c s' :=
  ⟨o_rdLock c hc h i st, e_rdLock c hc h i st, r_rdLock c hc h i st, g_rdLock c hc h i st⟩

theorem o_rdUnlock (c : Cfg) (hc : c.WF) {s s' : State} (h : Inv c s) (i : Nat)
    (st : step c s (.rdUnlock i) = some s') : InvO c s' := by
  dpre; openO; dgo
theorem e_rdUnlock (c : Cfg) (hc : c.WF) {s s' : State} (h : Inv c s) (i : Nat)
    (st : step c s (.rdUnlock i) = some s') : InvE c s' := by
  dpre; openE; dgo
theorem r_rdUnlock (c : Cfg) (hc : c.WF) {s s' : State} (h : Inv c s) (i : Nat)
    (st : step c s (.rdUnlock i) = some s') : InvR c s' := by
  dpre; openR; dgo
theorem g_rdUnlock (c : Cfg) (hc : c.WF) {s s' : State} (h : Inv c s) (i : Nat)
    (st : step c s (.rdUnlock i) = some s') : InvG c s' := by
  dpre; openG; dgo
theorem inv_rdUnlock (c : Cfg) (hc : c.WF) {s s' : State} (h : Inv c s) (i : Nat)
    (st : step c s (.rdUnlock i) = some s') : Inv c s' :=
  ⟨o_rdUnlock c hc h i st, e_rdUnlock c hc h i st, r_rdUnlock c hc h i st, g_rdUnlock c hc h i st⟩

/-! ### creation of an entry -/

theorem inv_len_le {c s} (hE : InvE c s) (t : Nat) : (s.invoked t).length ≤ (s.queued t).length := by
  have := congrArg List.length (hE.order t)
  simp at this
  omega

set_option hygiene false in
macro "mk_simp" : tactic => `(tactic| simp only [upd, upd2, watWrite, tick, mkEntry])

theorem e_mkEntry (c : Cfg) {s : State} (hE : InvE c s) (t : Nat) (f p : BitVec 64)
    (hp : s.pendW t = []) (hh : s.head t = s.wlen t) (hm : s.mhead t ≤ s.head t) (hcm : s.cons t ≤ s.mhead t) :
    InvE c (tick (mkEntry s t f p)) := by
  have hpos := enc1_len_pos (s.lastIn t) f p
  have hlt := fun x h1 h2 => est_lt_total hE t x h1 h2
  have hsnd := Defer.enc1_snd (s.lastIn t) f p
  have hEnd := hE.eEnd
  refine { estStart := ?_, eWs := ?_, eEnd := ?_, eNext := ?_, eLo := ?_, eSeq := ?_, eQ := ?_, eWat := ?_, eTime := ?_,
           loEnd := ?_, seqEnd := ?_, loCons := ?_, seqCons := ?_, order := ?_, headBd := ?_, mheadBd := ?_ }
  · have a := hE.estStart; clear hE; mk_simp; grind
  · have a := hE.eWs; have b := hE.loEnd; clear hE; mk_simp; grind
  · clear hE; mk_simp; grind
  · have a := hE.eNext; clear hE; mk_simp; grind
  · have a := hE.eLo; clear hE; mk_simp; grind
  · have a := hE.eSeq; have b := hE.seqEnd; clear hE; mk_simp; grind
  · have a := hE.eQ; have b := hE.seqEnd; clear hE; mk_simp; grind
  · have a := hE.eWat; clear hE; mk_simp; grind
  · have a := hE.eTime; clear hE; mk_simp; grind
  · have a := hE.loEnd; clear hE; mk_simp; grind
  · have a := hE.seqEnd; clear hE; mk_simp; grind
  · have a := hE.loCons; clear hE; mk_simp; grind
  · have a := hE.seqCons; clear hE; mk_simp; grind
  · have a := hE.order; have b := inv_len_le hE; clear hE; mk_simp
    intro t1; split
    · rename_i ht; subst ht; rw [List.take_append_of_le_length (b t1)]; exact a t1
    · exact a t1
  · have a := hE.headBd; clear hE; mk_simp; grind
  · have a := hE.mheadBd; clear hE; mk_simp; grind

/-- the entry table does not mention the owner's copy of `tail` -/
theorem e_otl (c : Cfg) {s : State} (hE : InvE c s) (f : Nat → Nat) : InvE c { s with otl := f } := by
  obtain ⟨e1, e2, e3, e4, e5, e6, e7, e8, e9, e10, e11, e12, e13, e14, e15, e16⟩ := hE
  constructor <;> assumption

theorem o_oCall (c : Cfg) (hc : c.WF) {s s' : State} (h : Inv c s) (t : Nat) (f p : BitVec 64)
    (st : step c s (.oCall t f p) = some s') : InvO c s' := by
  have hpos := enc1_len_pos (s.lastIn t) f p
  have hle := enc1_len_le (s.lastIn t) f p
  have hs := hc.1
  have hlt := fun x h1 h2 => est_lt_total h.e t x h1 h2
  have hsl := h.r.snapLe
  dpre <;> openO <;> dgo
theorem e_oCall (c : Cfg) (hc : c.WF) {s s' : State} (h : Inv c s) (t : Nat) (f p : BitVec 64)
    (st : step c s (.oCall t f p) = some s') : InvE c s' := by
  have hI := h.o.idleBuf t
  have h2 := h.o.ord2 t; have h3 := h.o.consLe t
  have hab : s.head t - s.tail t ≤ c.size := by
    have := h.o.room t; have := h.o.otlLe t; have := h.o.ord1 t; have := h.o.ord3 t; omega
  have hg : s.opc t = .idle := by
    simp only [step] at st; split at st
    · rename_i hg; exact hg.1
    · simp at st
  obtain ⟨hi1, hi2, hi3, hi4⟩ := hI (Or.inl hg)
  dpre
  · openE; dgo
  · exact e_mkEntry c (e_otl c h.e _) t f p hi3 hi4 h2 h3
theorem r_oCall (c : Cfg) (hc : c.WF) {s s' : State} (h : Inv c s) (t : Nat) (f p : BitVec 64)
    (st : step c s (.oCall t f p) = some s') : InvR c s' := by
  have hpos := enc1_len_pos (s.lastIn t) f p
  have hle := enc1_len_le (s.lastIn t) f p
  have hs := hc.1
  have hlt := fun x h1 h2 => est_lt_total h.e t x h1 h2
  have hsl := h.r.snapLe
  dpre <;> openO <;> openR <;> dgo
theorem g_oCall (c : Cfg) (hc : c.WF) {s s' : State} (h : Inv c s) (t : Nat) (f p : BitVec 64)
    (st : step c s (.oCall t f p) = some s') : InvG c s' := by
  have hpos := enc1_len_pos (s.lastIn t) f p
  have hle := enc1_len_le (s.lastIn t) f p
  have hs := hc.1
  have hlt := fun x h1 h2 => est_lt_total h.e t x h1 h2
  have hsl := h.r.snapLe
  dpre <;> openO <;> openG <;> dgo
theorem inv_oCall (c : Cfg) (hc : c.WF) {s s' : State} (h : Inv c s) (t : Nat) (f p : BitVec 64)
    (st : step c s (.oCall t f p) = some s') : Inv c s' :=
  ⟨o_oCall c hc h t f p st, e_oCall c hc h t f p st, r_oCall c hc h t f p st, g_oCall c hc h t f p st⟩

theorem o_oPostFlush (c : Cfg) (hc : c.WF) {s s' : State} (h : Inv c s) (t : Nat)
    (st : step c s (.oPostFlush t) = some s') : InvO c s' := by
  have hpos := enc1_len_pos (s.lastIn t) (s.af t) (s.ap t)
  have hle := enc1_len_le (s.lastIn t) (s.af t) (s.ap t)
  have hs := hc.1
  have hlt := fun x h1 h2 => est_lt_total h.e t x h1 h2
  have hsl := h.r.snapLe
  dpre <;> openO <;> dgo?
  intro t1 m hm
  by_cases ht : t1 = t
  · subst ht; simp only [if_true, true_and] at hm ⊢
    simp [hm]
  · simp only [ht, if_false, false_and] at hm ⊢
    exact o16 t1 m hm
theorem e_oPostFlush (c : Cfg) (hc : c.WF) {s s' : State} (h : Inv c s) (t : Nat)
    (st : step c s (.oPostFlush t) = some s') : InvE c s' := by
  have hI := h.o.idleBuf t
  have h2 := h.o.ord2 t; have h3 := h.o.consLe t
  have hfe := h.o.flushedEmpty t
  have hg : s.opc t = .flushed := by
    simp only [step] at st; split at st
    · rename_i hg; exact hg.1
    · simp at st
  obtain ⟨hi1, hi2, hi3, hi4⟩ := hI (Or.inr (Or.inr hg))
  dpre
  · exact e_mkEntry c (e_otl c h.e _) t _ _ hi3 hi4 h2 h3
  · rename_i hne; exact absurd (by rw [hfe hg]; omega) hne
theorem r_oPostFlush (c : Cfg) (hc : c.WF) {s s' : State} (h : Inv c s) (t : Nat)
    (st : step c s (.oPostFlush t) = some s') : InvR c s' := by
  have hpos := enc1_len_pos (s.lastIn t) (s.af t) (s.ap t)
  have hle := enc1_len_le (s.lastIn t) (s.af t) (s.ap t)
  have hs := hc.1
  have hlt := fun x h1 h2 => est_lt_total h.e t x h1 h2
  have hsl := h.r.snapLe
  dpre <;> openO <;> openR <;> dgo
theorem g_oPostFlush (c : Cfg) (hc : c.WF) {s s' : State} (h : Inv c s) (t : Nat)
    (st : step c s (.oPostFlush t) = some s') : InvG c s' := by
  have hpos := enc1_len_pos (s.lastIn t) (s.af t) (s.ap t)
  have hle := enc1_len_le (s.lastIn t) (s.af t) (s.ap t)
  have hs := hc.1
  have hlt := fun x h1 h2 => est_lt_total h.e t x h1 h2
  have hsl := h.r.snapLe
  dpre <;> openO <;> openG <;> dgo
theorem inv_oPostFlush (c : Cfg) (hc : c.WF) {s s' : State} (h : Inv c s) (t : Nat)
    (st : step c s (.oPostFlush t) = some s') : Inv c s' :=
  ⟨o_oPostFlush c hc h t st, e_oPostFlush c hc h t st, r_oPostFlush c hc h t st, g_oPostFlush c hc h t st⟩

end UrcuVerif.DeferConc
