import UrcuVerif.Defer.ConcWake
/-! Inductive invariant of the defer thread's TSO futex handshake (statements in `Props/C13Conc.lean`). -/
set_option linter.unusedSimpArgs false
set_option linter.unusedVariables false
namespace UrcuVerif.DeferWake
open UrcuVerif

structure Inv (c : Cfg) (s : State) : Prop where
  fut_range : s.futex = 0 ∨ s.futex = -1
  d0_fut : s.dpc = .d0 → s.dfutB = false → s.futex = 0
  dfut_d0 : s.dfutB = true → s.dpc = .d0
  no_post : s.dpc ≠ .dpost
  bfut_k3 : ∀ i, s.bfut i = true → s.kpc i = .k3
  bhd_kf : ∀ i, s.bhd i = true → s.kpc i = .kf
  view : ∀ i, s.bhd i = false → s.mh i = s.hd i
  ord : ∀ i, s.tl i ≤ s.mh i ∧ s.mh i ≤ s.hd i
  kpc_bound : ∀ i, s.kpc i ≠ .k0 → i < c.n
  r_range : ∀ i, s.r i = 0 ∨ s.r i = -1
  scan_clear : s.dpc ≠ .dscan → ∀ i, s.scanned i = false
  /-- a queue the scan of this round has seen empty and that is non-empty now (in memory or in its
  owner's buffer) belongs to an owner that is still going to wake the defer thread -/
  scan_m1 : s.dpc = .dscan → s.futex = -1 → s.found = false →
      ∀ i, s.scanned i = true → (s.mh i ≠ s.tl i ∨ s.bhd i = true) → willWake s i
  wait_m1 : (s.dpc = .dwloop ∨ s.dpc = .dwait ∨ s.dpc = .dsleep) → s.futex = -1 →
      ∀ i, i < c.n → (s.mh i ≠ s.tl i ∨ s.bhd i = true) → willWake s i
  asleep_0 : s.dpc = .dsleep → s.futex = 0 → ∃ i, i < c.n ∧ s.kpc i = .k3

theorem inv_init (c) : Inv c init := by
  constructor <;> simp [init, willWake]

set_option hygiene false in
macro "wk_pre" : tactic => `(tactic| (
  simp only [step] at st
  (repeat' split at st)
  all_goals (first | (simp at st; done) | skip)
  all_goals (simp only [Option.some.injEq] at st; subst st)))

set_option hygiene false in
macro "wk_open" : tactic => `(tactic| (
  obtain ⟨h1, h2, h3, h4, h5, h6, h7, h8, h9, h10, h11, h12, h13, h14⟩ := h
  obtain ⟨hc1, hc2⟩ := hc))

set_option hygiene false in
macro "wk_tac" : tactic => `(tactic| (
  wk_pre
  all_goals (wk_open; constructor <;> simp only [upd, willWake] at * <;> grind)))

theorem inv_dDec (c : Cfg) (hc : c.WF) {s s' : State} (h : Inv c s)
    (st : step c s .dDec = some s') : Inv c s' := by wk_tac
theorem inv_dScanStart (c : Cfg) (hc : c.WF) {s s' : State} (h : Inv c s)
    (st : step c s .dScanStart = some s') : Inv c s' := by wk_tac
theorem inv_dScanQ (c : Cfg) (hc : c.WF) {s s' : State} (h : Inv c s) (i : Nat)
    (st : step c s (.dScanQ i) = some s') : Inv c s' := by wk_tac
theorem inv_dScanEnd (c : Cfg) (hc : c.WF) {s s' : State} (h : Inv c s)
    (st : step c s .dScanEnd = some s') : Inv c s' := by wk_tac
theorem inv_dStore0 (c : Cfg) (hc : c.WF) {s s' : State} (h : Inv c s)
    (st : step c s .dStore0 = some s') : Inv c s' := by wk_tac
theorem inv_flushD (c : Cfg) (hc : c.WF) {s s' : State} (h : Inv c s)
    (st : step c s .flushD = some s') : Inv c s' := by wk_tac
theorem inv_dLoad (c : Cfg) (hc : c.WF) {s s' : State} (h : Inv c s)
    (st : step c s .dLoad = some s') : Inv c s' := by wk_tac
theorem inv_dWaitSleep (c : Cfg) (hc : c.WF) {s s' : State} (h : Inv c s)
    (st : step c s .dWaitSleep = some s') : Inv c s' := by wk_tac
theorem inv_dWaitEagain (c : Cfg) (hc : c.WF) {s s' : State} (h : Inv c s)
    (st : step c s .dWaitEagain = some s') : Inv c s' := by wk_tac
theorem inv_dWaitIntr (c : Cfg) (hc : c.WF) {s s' : State} (h : Inv c s)
    (st : step c s .dWaitIntr = some s') : Inv c s' := by wk_tac
theorem inv_dSpurious (c : Cfg) (hc : c.WF) {s s' : State} (h : Inv c s)
    (st : step c s .dSpurious = some s') : Inv c s' := by wk_tac
theorem inv_k0 (c : Cfg) (hc : c.WF) {s s' : State} (h : Inv c s) (i : Nat)
    (st : step c s (.k0 i) = some s') : Inv c s' := by wk_tac
theorem inv_kf (c : Cfg) (hc : c.WF) {s s' : State} (h : Inv c s) (i : Nat)
    (st : step c s (.kf i) = some s') : Inv c s' := by wk_tac
theorem inv_k1 (c : Cfg) (hc : c.WF) {s s' : State} (h : Inv c s) (i : Nat)
    (st : step c s (.k1 i) = some s') : Inv c s' := by wk_tac
theorem inv_k2Wake (c : Cfg) (hc : c.WF) {s s' : State} (h : Inv c s) (i : Nat)
    (st : step c s (.k2Wake i) = some s') : Inv c s' := by wk_tac
theorem inv_k2Skip (c : Cfg) (hc : c.WF) {s s' : State} (h : Inv c s) (i : Nat)
    (st : step c s (.k2Skip i) = some s') : Inv c s' := by wk_tac
theorem inv_k3 (c : Cfg) (hc : c.WF) {s s' : State} (h : Inv c s) (i : Nat)
    (st : step c s (.k3 i) = some s') : Inv c s' := by wk_tac
theorem inv_flushHd (c : Cfg) (hc : c.WF) {s s' : State} (h : Inv c s) (i : Nat)
    (st : step c s (.flushHd i) = some s') : Inv c s' := by wk_tac
theorem inv_flushFut (c : Cfg) (hc : c.WF) {s s' : State} (h : Inv c s) (i : Nat)
    (st : step c s (.flushFut i) = some s') : Inv c s' := by wk_tac
theorem inv_drain (c : Cfg) (hc : c.WF) {s s' : State} (h : Inv c s) (i v : Nat)
    (st : step c s (.drain i v) = some s') : Inv c s' := by wk_tac

theorem inv_step (c : Cfg) (hc : c.WF) {s s' : State} {l : Label} (h : Inv c s)
    (st : step c s l = some s') : Inv c s' := by
  cases l with
  | dDec => exact inv_dDec c hc h st
  | dScanStart => exact inv_dScanStart c hc h st
  | dScanQ i => exact inv_dScanQ c hc h i st
  | dScanEnd => exact inv_dScanEnd c hc h st
  | dStore0 => exact inv_dStore0 c hc h st
  | flushD => exact inv_flushD c hc h st
  | dLoad => exact inv_dLoad c hc h st
  | dWaitSleep => exact inv_dWaitSleep c hc h st
  | dWaitEagain => exact inv_dWaitEagain c hc h st
  | dWaitIntr => exact inv_dWaitIntr c hc h st
  | dSpurious => exact inv_dSpurious c hc h st
  | k0 i => exact inv_k0 c hc h i st
  | kf i => exact inv_kf c hc h i st
  | k1 i => exact inv_k1 c hc h i st
  | k2Wake i => exact inv_k2Wake c hc h i st
  | k2Skip i => exact inv_k2Skip c hc h i st
  | k3 i => exact inv_k3 c hc h i st
  | flushHd i => exact inv_flushHd c hc h i st
  | flushFut i => exact inv_flushFut c hc h i st
  | drain i v => exact inv_drain c hc h i v st

theorem inv_reach (c : Cfg) (hc : c.WF) {s : State} (h : Reach c s) : Inv c s := by
  induction h with
  | init => exact inv_init c
  | step _ st ih => exact inv_step c hc ih st

theorem reach_run (c : Cfg) (ls : List Label) : ∀ {s s'}, Reach c s → run c s ls = some s' → Reach c s' := by
  induction ls with
  | nil => intro s s' h e; simp only [run, Option.some.injEq] at e; subst e; exact h
  | cons l ls ih =>
    intro s s' h e
    simp only [run] at e
    split at e
    · cases e
    · rename_i s1 h1; exact ih (h.step h1) e

