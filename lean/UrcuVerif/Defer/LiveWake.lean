import UrcuVerif.Machine.Fair
import UrcuVerif.Props.C13Conc
/-! Helper lemmas for `Props/LiveC13.lean`: the defer thread's futex handshake (`Defer/ConcWake.lean`). -/
set_option linter.unusedSimpArgs false
namespace UrcuVerif.DeferWake
open UrcuVerif UrcuVerif.Fair

/-- an owner on its way to `FUTEX_WAKE` has an enabled step of its own -/
theorem own_enabled (c : Cfg) {s : State} (i : Nat) (hk : s.kpc i ≠ .k0) :
    Enabled (step c) (fun l => l ∈ ownLabels i) s := waker_not_stuck c i hk

/-- a step that is not owner `i`'s own leaves an owner that is past its `head` store alone -/
theorem own_frame (c : Cfg) {s s' : State} {l : Label} (i : Nat) (hk : s.kpc i ≠ .k0) (hl : l ∉ ownLabels i)
    (st : step c s l = some s') :
    s'.kpc i = s.kpc i ∧ s'.bhd i = s.bhd i ∧ s'.bfut i = s.bfut i ∧ s'.r i = s.r i := by
  cases l <;> simp only [step] at st <;> (repeat' split at st) <;> simp only [Option.some.injEq, reduceCtorEq] at st <;>
    subst st <;> simp_all [ownLabels, upd] <;> grind

/-- phase A: while the futex reads -1, an owner that is going to reset it stays so -/
theorem willWake_unless (c : Cfg) {s s' : State} {l : Label} (I : Inv c s) (i : Nat) (hw : willWake s i)
    (hf : s.futex = -1) (st : step c s l = some s') : willWake s' i ∨ s'.futex ≠ -1 := by
  have hb := I.bfut_k3 i
  have hh := I.bhd_kf i
  by_cases hl : l ∈ ownLabels i
  · simp only [ownLabels, List.mem_cons, List.mem_nil_iff, or_false] at hl
    unfold willWake at hw ⊢
    rcases hl with rfl | rfl | rfl | rfl | rfl | rfl | rfl <;>
      simp only [step] at st <;> split at st <;> simp only [Option.some.injEq, reduceCtorEq] at st <;>
      subst st <;> simp_all [upd] <;> grind
  · have hk : s.kpc i ≠ .k0 := by unfold willWake at hw; grind
    obtain ⟨h1, h2, h3, h4⟩ := own_frame c i hk hl st
    left; unfold willWake at hw ⊢; rw [h1, h3, h4]; exact hw

/-- phase B: an owner whose `FUTEX_WAKE` is still to come stays so until it wakes the sleeper -/
theorem k3_unless (c : Cfg) {s s' : State} {l : Label} (I : Inv c s) (i : Nat) (hk : s.kpc i = .k3)
    (hs : s.dpc = .dsleep) (st : step c s l = some s') : s'.kpc i = .k3 ∨ s'.dpc ≠ .dsleep := by
  have hh := I.bhd_kf i
  by_cases hl : l ∈ ownLabels i
  · simp only [ownLabels, List.mem_cons, List.mem_nil_iff, or_false] at hl
    rcases hl with rfl | rfl | rfl | rfl | rfl | rfl | rfl <;>
      simp only [step] at st <;> split at st <;> simp only [Option.some.injEq, reduceCtorEq] at st <;>
      subst st <;> simp_all [upd]
  · exact Or.inl (by rw [(own_frame c i (by rw [hk]; decide) hl st).1]; exact hk)

theorem measure_frame (c : Cfg) {s s' : State} {l : Label} (i : Nat) (hk : s.kpc i ≠ .k0) (hl : l ∉ ownLabels i)
    (st : step c s l = some s') : measure s' i = measure s i := by
  obtain ⟨h1, h2, h3, -⟩ := own_frame c i hk hl st
  simp only [measure, h1, h2, h3]

end UrcuVerif.DeferWake
