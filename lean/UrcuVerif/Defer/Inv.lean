import UrcuVerif.Defer.Model
/-!
# C13 — invariants of the defer_rcu model

Part 1: the per-queue invariant `TInv` ("the slots `[tail, head)` hold the encoding, relative to
`last_fct_out`, of exactly the calls queued and not yet invoked; the invocations so far are a
prefix of the calls queued") and the snapshot invariant `Snap` ("the snapshot lies on an entry
boundary and covers exactly the calls queued before the grace period started"); their
preservation by the enqueue (`enqT_TInv`, `enqT_Snap`) and by a run of the queue
(`runQ_spec`).

Part 2: the global invariant `Inv` and `inv_step`.
-/
namespace UrcuVerif.Defer

def pairs (l : List Call) : List (BitVec 64 × BitVec 64) := l.map fun cl => (cl.fct, cl.arg)
def Invk.pair (i : Invk) : BitVec 64 × BitVec 64 := (i.fct, i.arg)
def mkInvk (now : Nat) (fp : BitVec 64 × BitVec 64) : Invk := ⟨fp.1, fp.2, now⟩

/-- calls queued and not yet invoked -/
def TState.pend (x : TState) : List (BitVec 64 × BitVec 64) := pairs (x.queued.drop x.invoked.length)

@[simp] theorem pairs_append (a b : List Call) : pairs (a ++ b) = pairs a ++ pairs b := by simp [pairs]
@[simp] theorem pairs_length (a : List Call) : (pairs a).length = a.length := by simp [pairs]
theorem pairs_take (a : List Call) (n : Nat) : pairs (a.take n) = (pairs a).take n := by simp [pairs, List.map_take]
theorem pairs_drop (a : List Call) (n : Nat) : pairs (a.drop n) = (pairs a).drop n := by simp [pairs, List.map_drop]
@[simp] theorem map_pair_mkInvk (now : Nat) (cs : List (BitVec 64 × BitVec 64)) :
    (cs.map (mkInvk now)).map Invk.pair = cs := by
  induction cs with
  | nil => rfl
  | cons a cs ih => simp [mkInvk, Invk.pair, ih]

structure TInv (c : Cfg) (x : TState) : Prop where
  tail_le : x.tail ≤ x.head
  occ : x.head - x.tail ≤ c.size
  ninv_le : x.invoked.length ≤ x.queued.length
  done : x.invoked.map Invk.pair = pairs (x.queued.take x.invoked.length)
  ring : ringWords c x.q x.tail (x.head - x.tail) = encode x.lastOut x.pend
  codec : encState x.lastOut x.pend = x.lastIn
  qsz : x.q.size = c.size ∨ (x.q.size = 0 ∧ x.head = x.tail)

/-- `snap` is a snapshot of `head` taken when the grace period that started at `gs` was requested;
`x.snapQ` calls had been queued at that moment. -/
structure Snap (c : Cfg) (x : TState) (snap gs : Nat) : Prop where
  lo : x.tail ≤ snap
  hi : snap ≤ x.head
  nq1 : x.invoked.length ≤ x.snapQ
  nq2 : x.snapQ ≤ x.queued.length
  bnd : snap - x.tail = (encode x.lastOut (x.pend.take (x.snapQ - x.invoked.length))).length
  before : ∀ k cl, x.queued[k]? = some cl → (k < x.snapQ ↔ cl.time < gs)

theorem TInv.pend_length {c : Cfg} {x : TState} (_h : TInv c x) :
    x.pend.length = x.queued.length - x.invoked.length := by
  simp [TState.pend]

/-- an empty ring means nothing is pending -/
theorem TInv.empty {c : Cfg} {x : TState} (h : TInv c x) (he : x.head = x.tail) :
    x.invoked.length = x.queued.length := by
  have h1 := h.ring
  rw [he, Nat.sub_self] at h1
  have h2 : (encode x.lastOut x.pend).length = 0 := by rw [← h1]; rfl
  have h3 := encode_eq_nil h2
  have h4 := h.pend_length
  have := h.ninv_le
  rw [h3] at h4
  simp at h4
  omega

@[simp] theorem enqT_queued (c : Cfg) (x : TState) (f p : BitVec 64) (now : Nat) :
    (enqT c x f p now).1.queued = x.queued ++ [⟨f, p, now⟩] := by
  simp [enqT, TState.queued]

@[simp] theorem enqT_invoked (c : Cfg) (x : TState) (f p : BitVec 64) (now : Nat) :
    (enqT c x f p now).1.invoked = x.invoked := rfl
@[simp] theorem enqT_tail (c : Cfg) (x : TState) (f p : BitVec 64) (now : Nat) :
    (enqT c x f p now).1.tail = x.tail := rfl
@[simp] theorem enqT_head (c : Cfg) (x : TState) (f p : BitVec 64) (now : Nat) :
    (enqT c x f p now).1.head = x.head + (enc1 x.lastIn f p).1.length := rfl
@[simp] theorem enqT_lastOut (c : Cfg) (x : TState) (f p : BitVec 64) (now : Nat) :
    (enqT c x f p now).1.lastOut = x.lastOut := rfl
@[simp] theorem enqT_lastIn (c : Cfg) (x : TState) (f p : BitVec 64) (now : Nat) :
    (enqT c x f p now).1.lastIn = (enc1 x.lastIn f p).2 := rfl
@[simp] theorem enqT_q (c : Cfg) (x : TState) (f p : BitVec 64) (now : Nat) :
    (enqT c x f p now).1.q = writeWords c x.q x.head (enc1 x.lastIn f p).1 := rfl
@[simp] theorem enqT_snapQ (c : Cfg) (x : TState) (f p : BitVec 64) (now : Nat) :
    (enqT c x f p now).1.snapQ = x.snapQ := rfl
@[simp] theorem enqT_lastHead (c : Cfg) (x : TState) (f p : BitVec 64) (now : Nat) :
    (enqT c x f p now).1.lastHead = x.lastHead := rfl
@[simp] theorem enqT_words (c : Cfg) (x : TState) (f p : BitVec 64) (now : Nat) :
    (enqT c x f p now).2 = (enc1 x.lastIn f p).1 := rfl

theorem enqT_pend {c : Cfg} {x : TState} (hni : x.invoked.length ≤ x.queued.length) (f p : BitVec 64) (now : Nat) :
    (enqT c x f p now).1.pend = x.pend ++ [(f, p)] := by
  simp only [TState.pend, enqT_queued, enqT_invoked]
  rw [List.drop_append_of_le_length hni]
  simp [pairs]

/-- the enqueue of `_defer_rcu()` below the threshold preserves the queue invariant -/
theorem enqT_TInv {c : Cfg} (hc : c.WF) {x : TState} (h : TInv c x) (hq : x.q.size = c.size)
    (hf : needFlush c x = false) (f p : BitVec 64) (now : Nat) : TInv c (enqT c x f p now).1 := by
  have h4 := hc.ge4
  have hlen1 := enc1_length_pos x.lastIn f p
  have hlen3 := enc1_length_le x.lastIn f p
  have hocc : x.head - x.tail < c.size - 2 := by
    have : ¬ (c.size - 2 ≤ x.head - x.tail) := by simpa [needFlush] using hf
    omega
  have htl := h.tail_le
  have hpl := h.pend_length
  have hni := h.ninv_le
  have hpend := enqT_pend (c := c) hni f p now
  constructor
  · simp only [enqT_tail, enqT_head]; omega
  · simp only [enqT_tail, enqT_head]; omega
  · simp only [enqT_queued, enqT_invoked, List.length_append, List.length_singleton]; omega
  · simp only [enqT_queued, enqT_invoked]
    rw [List.take_append_of_le_length hni]; exact h.done
  · rw [hpend]
    simp only [enqT_tail, enqT_head, enqT_lastOut, enqT_q]
    rw [encode_append, h.codec]
    rw [show x.head + (enc1 x.lastIn f p).1.length - x.tail
          = (x.head - x.tail) + (enc1 x.lastIn f p).1.length by omega, ringWords_add,
        ringWords_writeWords_frame c x.q hq x.head x.tail _ _ (by omega) (by omega), h.ring,
        show x.tail + (x.head - x.tail) = x.head by omega,
        ringWords_writeWords_same c x.q hq x.head _ (by omega)]
    simp [encode]
  · rw [hpend]
    simp only [enqT_lastOut, enqT_lastIn]
    rw [encState_append, h.codec]; simp [encState]
  · left; simp only [enqT_q]; rw [writeWords_size, hq]

/-- … and every snapshot taken before it -/
theorem enqT_Snap {c : Cfg} {x : TState} (h : TInv c x) {snap gs : Nat} (hs : Snap c x snap gs)
    (f p : BitVec 64) (now : Nat) (hnow : gs ≤ now) : Snap c (enqT c x f p now).1 snap gs := by
  have hni := h.ninv_le
  have hpl := h.pend_length
  have hpend := enqT_pend (c := c) hni f p now
  have h1 := hs.nq1
  have h2 := hs.nq2
  have hlo := hs.lo
  have hhi := hs.hi
  constructor
  · exact hs.lo
  · simp only [enqT_head]; omega
  · exact hs.nq1
  · simp only [enqT_queued, enqT_snapQ, List.length_append, List.length_singleton]; omega
  · rw [hpend]
    simp only [enqT_tail, enqT_lastOut, enqT_snapQ, enqT_invoked]
    rw [List.take_append_of_le_length (by omega)]; exact hs.bnd
  · intro k cl hk
    rw [enqT_queued, List.getElem?_append] at hk
    simp only [enqT_snapQ]
    split at hk
    · exact hs.before k cl hk
    · rename_i hge
      have : k = x.queued.length ∧ cl = ⟨f, p, now⟩ := by
        have hge' : x.queued.length ≤ k := by omega
        rcases Nat.eq_or_lt_of_le hge' with e | l
        · subst e; simp at hk; exact ⟨rfl, hk.symm⟩
        · have : k - x.queued.length ≠ 0 := by omega
          rw [List.getElem?_singleton] at hk
          simp [this] at hk
      obtain ⟨rfl, rfl⟩ := this
      constructor
      · intro; omega
      · intro (hh : now < gs); omega

/-- **Run of a queue up to a snapshot** (`rcu_defer_barrier_queue`): never overruns, invokes
exactly the calls the snapshot covers – the first `snapQ − |invoked|` pending calls, in order –
and moves `tail` to the snapshot. -/
theorem runQ_spec {c : Cfg} {x : TState} (h : TInv c x) {snap gs : Nat} (hs : Snap c x snap gs)
    (now : Nat) :
    runQ c x snap now =
      some ({ x with tail := snap,
                     lastOut := encState x.lastOut (x.pend.take (x.snapQ - x.invoked.length)),
                     invoked := x.invoked ++ (x.pend.take (x.snapQ - x.invoked.length)).map (mkInvk now) },
            x.pend.take (x.snapQ - x.invoked.length)) := by
  have hlo := hs.lo
  have hhi := hs.hi
  have hbnd := hs.bnd
  have hring := h.ring
  generalize hm : x.snapQ - x.invoked.length = m at *
  have hsplit : x.pend = x.pend.take m ++ x.pend.drop m := (List.take_append_drop m x.pend).symm
  rw [hsplit, encode_append,
      show x.head - x.tail = (snap - x.tail) + (x.head - snap) by omega, ringWords_add] at hring
  have hr1 := List.append_inj_left hring (by rw [ringWords_length, hbnd])
  rw [hbnd] at hr1
  have hfuel := length_le_encode x.lastOut (x.pend.take m)
  have := runLoop_encode c x.q (x.pend.take m) (snap - x.tail) x.tail x.lastOut (by omega) hr1
  rw [← hbnd, show x.tail + (snap - x.tail) = snap by omega] at this
  simp only [runQ, this]
  rfl

theorem runQ_TInv {c : Cfg} {x : TState} (h : TInv c x) {snap gs : Nat} (hs : Snap c x snap gs)
    (now : Nat) {x' : TState} {cs : List (BitVec 64 × BitVec 64)} (hr : runQ c x snap now = some (x', cs)) :
    TInv c x' := by
  rw [runQ_spec h hs now] at hr
  simp only [Option.some.injEq, Prod.mk.injEq] at hr
  obtain ⟨rfl, -⟩ := hr
  have hlo := hs.lo
  have hhi := hs.hi
  have hbnd := hs.bnd
  have hring := h.ring
  have h1 := hs.nq1
  have h2 := hs.nq2
  have hpl := h.pend_length
  have htl := h.tail_le
  have hocc := h.occ
  generalize hm : x.snapQ - x.invoked.length = m at *
  have hmle : m ≤ x.pend.length := by omega
  have hsplit : x.pend = x.pend.take m ++ x.pend.drop m := (List.take_append_drop m x.pend).symm
  have hlen : (x.invoked ++ (x.pend.take m).map (mkInvk now)).length = x.invoked.length + m := by
    simp [List.length_take]; omega
  have hpend' : pairs (x.queued.drop (x.invoked.length + m)) = x.pend.drop m := by
    simp only [TState.pend, pairs_drop, List.drop_drop]
  constructor
  · show snap ≤ x.head; exact hhi
  · show x.head - snap ≤ c.size; omega
  · show (x.invoked ++ _).length ≤ x.queued.length; rw [hlen]; omega
  · show (x.invoked ++ _).map Invk.pair = pairs (x.queued.take (x.invoked ++ _).length)
    rw [hlen, List.map_append, map_pair_mkInvk, h.done, List.take_add, pairs_append]
    congr 1
    simp only [TState.pend, pairs_take]
  · show ringWords c x.q snap (x.head - snap) = encode (encState x.lastOut (x.pend.take m)) (pairs (x.queued.drop (x.invoked ++ _).length))
    rw [hlen, hpend']
    rw [hsplit, encode_append,
      show x.head - x.tail = (snap - x.tail) + (x.head - snap) by omega, ringWords_add] at hring
    have hr2 := List.append_inj_right hring (by rw [ringWords_length, hbnd])
    rw [show x.tail + (snap - x.tail) = snap by omega] at hr2
    rw [hr2]
  · show encState (encState x.lastOut (x.pend.take m)) (pairs (x.queued.drop (x.invoked ++ _).length)) = x.lastIn
    rw [hlen, hpend', ← encState_append, List.take_append_drop]; exact h.codec
  · rcases h.qsz with hq | ⟨hq, he⟩
    · left; exact hq
    · right; exact ⟨hq, by show x.head = snap; omega⟩

/-- what a run leaves behind -/
theorem runQ_frame {c : Cfg} {x : TState} (h : TInv c x) {snap gs : Nat} (hs : Snap c x snap gs)
    (now : Nat) {x' : TState} {cs : List (BitVec 64 × BitVec 64)} (hr : runQ c x snap now = some (x', cs)) :
    x'.tail = snap ∧ x'.head = x.head ∧ x'.q = x.q ∧ x'.queuedR = x.queuedR ∧ x'.lastHead = x.lastHead ∧
    x'.snapQ = x.snapQ ∧ x'.lastIn = x.lastIn ∧ x'.invoked.length = x.snapQ ∧
    cs = x.pend.take (x.snapQ - x.invoked.length) ∧ x'.invoked = x.invoked ++ cs.map (mkInvk now) := by
  rw [runQ_spec h hs now] at hr
  simp only [Option.some.injEq, Prod.mk.injEq] at hr
  obtain ⟨rfl, rfl⟩ := hr
  refine ⟨rfl, rfl, rfl, rfl, rfl, rfl, rfl, ?_, rfl, rfl⟩
  have := h.pend_length
  have := hs.nq1
  have := hs.nq2
  simp [List.length_take]; omega

theorem runQ_Snap {c : Cfg} {x : TState} (h : TInv c x) {snap gs : Nat} (hs : Snap c x snap gs)
    (now : Nat) {x' : TState} {cs : List (BitVec 64 × BitVec 64)} (hr : runQ c x snap now = some (x', cs)) :
    Snap c x' snap gs := by
  obtain ⟨f1, f2, f3, f4, f5, f6, f7, f8, f9, f10⟩ := runQ_frame h hs now hr
  have hq : x'.queued = x.queued := by simp [TState.queued, f4]
  constructor
  · omega
  · rw [f2]; exact hs.hi
  · omega
  · rw [f6, hq]; exact hs.nq2
  · rw [f1, f6, f8]; simp [encode]
  · intro k cl hk; rw [hq] at hk; rw [f6]; exact hs.before k cl hk

theorem runQ_isSome {c : Cfg} {x : TState} (h : TInv c x) {snap gs : Nat} (hs : Snap c x snap gs)
    (now : Nat) : (runQ c x snap now).isSome = true := by
  rw [runQ_spec h hs now]; rfl

/-- `TInv` does not mention `last_head` / `snapQ` -/
theorem TInv.snapUpd {c : Cfg} {x : TState} (h : TInv c x) (a b : Nat) :
    TInv c { x with lastHead := a, snapQ := b } :=
  ⟨h.tail_le, h.occ, h.ninv_le, h.done, h.ring, h.codec, h.qsz⟩

/-- taking a snapshot of `head` now -/
theorem Snap.create {c : Cfg} {x : TState} (h : TInv c x) (gs : Nat)
    (hq : ∀ cl, cl ∈ x.queuedR → cl.time < gs) (a : Nat) :
    Snap c { x with lastHead := a, snapQ := x.queuedR.length } x.head gs := by
  have hl : x.queued.length = x.queuedR.length := by simp [TState.queued]
  have hpl := h.pend_length
  have hni := h.ninv_le
  constructor
  · exact h.tail_le
  · exact Nat.le_refl _
  · show x.invoked.length ≤ x.queuedR.length; omega
  · show x.queuedR.length ≤ x.queued.length; omega
  · show x.head - x.tail = (encode x.lastOut (x.pend.take (x.queuedR.length - x.invoked.length))).length
    rw [List.take_of_length_le (by omega), ← h.ring, ringWords_length]
  · intro k cl hk
    change x.queued[k]? = some cl at hk
    show k < x.queuedR.length ↔ cl.time < gs
    have hm : cl ∈ x.queuedR := by
      have := List.mem_of_getElem? hk
      simpa [TState.queued] using this
    have hk' : k < x.queued.length := by
      rcases Nat.lt_or_ge k x.queued.length with l | g
      · exact l
      · rw [List.getElem?_eq_none g] at hk; cases hk
    constructor
    · intro _; exact hq cl hm
    · intro _; omega

/-- `free(q); q = NULL; last_head = 0` after the queue has been run to its head -/
theorem unregT_TInv {c : Cfg} {x : TState} (h : TInv c x) (he : x.head = x.tail) : TInv c (unregT c x) := by
  have hpl := h.pend_length
  have hem := h.empty he
  have hp : x.pend = [] := List.eq_nil_of_length_eq_zero (by omega)
  refine ⟨h.tail_le, h.occ, h.ninv_le, h.done, ?_, h.codec, Or.inr ⟨rfl, he⟩⟩
  show ringWords c #[] x.tail (x.head - x.tail) = encode x.lastOut x.pend
  rw [he, Nat.sub_self, hp]; rfl

/-! ## Part 2: the global invariant -/

inductive Reach (c : Cfg) (n : Nat) (h0 : Nat → Nat) : State → Prop
  | init : Reach c n h0 (init h0)
  | step {s s' op out} : Reach c n h0 s → step c n s op = some (s', out) → Reach c n h0 s'

structure Inv (c : Cfg) (n : Nat) (s : State) : Prop where
  tinv : ∀ t, TInv c (s.th t)
  qtime : ∀ t cl, cl ∈ (s.th t).queuedR → cl.time < s.clock
  nodup : s.registry.Nodup
  reg_q : ∀ t, t ∈ s.registry → (s.th t).q.size = c.size
  unreg_q : ∀ t, t ∉ s.registry → (∀ snap gs d, s.lock ≠ some ⟨.unreg t snap, gs, d⟩) →
      (s.th t).q.size = 0 ∧ (c.fixed = true → (s.th t).lastHead = 0)
  unregging : ∀ t snap gs d, s.lock = some ⟨.unreg t snap, gs, d⟩ →
      t ∉ s.registry ∧ (s.th t).q.size = c.size
  lock_gs : ∀ l, s.lock = some l → l.gpStart < s.clock
  lock_cs : ∀ l, s.lock = some l → l.gpDone = true → ∀ i b, s.cs i = some b → l.gpStart ≤ b
  cs_lt : ∀ i b, s.cs i = some b → b < s.clock
  cs_bound : ∀ i b, s.cs i = some b → i < n
  snap_bar : ∀ who gs d, s.lock = some ⟨.barrier who, gs, d⟩ →
      ∀ t, t ∈ s.registry → Snap c (s.th t) (s.th t).lastHead gs
  snap_fl : ∀ t snap gs d, s.lock = some ⟨.flush t snap, gs, d⟩ →
      Snap c (s.th t) snap gs ∧ snap = (s.th t).head
  snap_un : ∀ t snap gs d, s.lock = some ⟨.unreg t snap, gs, d⟩ →
      Snap c (s.th t) snap gs ∧ snap = (s.th t).head

theorem inv_init (c : Cfg) (n : Nat) (h0 : Nat → Nat) : Inv c n (init h0) := by
  constructor <;> simp [init]
  intro t
  constructor <;> simp [TState.queued, TState.pend, pairs, ringWords, encode, encState]


theorem inv_rlock {c : Cfg} {n : Nat} {s s' : State} {out : Out} (i : Nat) (h : Inv c n s)
    (st : step c n s (.rlock i) = some (s', out)) : Inv c n s' := by
  obtain ⟨h1, h2, h3, h4, h5, h6, h7, h8, h9, h10, h11, h12, h13⟩ := h
  simp only [step] at st
  split at st
  · simp at st
  · split at st
    · simp only [Option.some.injEq, Prod.mk.injEq] at st
      obtain ⟨rfl, -⟩ := st
      constructor <;> simp only [tick, upd] <;> grind
    · simp at st

theorem inv_runlock {c : Cfg} {n : Nat} {s s' : State} {out : Out} (i : Nat) (h : Inv c n s)
    (st : step c n s (.runlock i) = some (s', out)) : Inv c n s' := by
  obtain ⟨h1, h2, h3, h4, h5, h6, h7, h8, h9, h10, h11, h12, h13⟩ := h
  simp only [step] at st
  split at st
  · simp only [Option.some.injEq, Prod.mk.injEq] at st
    obtain ⟨rfl, -⟩ := st
    constructor <;> simp only [tick, upd] <;> grind
  · simp at st

theorem inv_gp {c : Cfg} {n : Nat} {s s' : State} {out : Out} (h : Inv c n s)
    (st : step c n s .gp = some (s', out)) : Inv c n s' := by
  obtain ⟨h1, h2, h3, h4, h5, h6, h7, h8, h9, h10, h11, h12, h13⟩ := h
  simp only [step] at st
  split at st
  · split at st
    · simp only [Option.some.injEq, Prod.mk.injEq] at st
      obtain ⟨rfl, -⟩ := st
      constructor <;> simp only [tick] <;> grind
    · simp at st
  · simp at st


/-- allocating the ring of an empty queue -/
theorem allocT_TInv {c : Cfg} {x : TState} (h : TInv c x) (hq : x.q.size = 0) (hc : 0 < c.size)
    (g : Array (BitVec 64)) (hg : g.size = c.size) : TInv c { x with q := g } := by
  have he : x.head = x.tail := by
    rcases h.qsz with a | ⟨_, b⟩
    · omega
    · exact b
  have hpl := h.pend_length
  have hem := h.empty he
  have hp : x.pend = [] := List.eq_nil_of_length_eq_zero (by omega)
  refine ⟨h.tail_le, h.occ, h.ninv_le, h.done, ?_, h.codec, Or.inl hg⟩
  show ringWords c g x.tail (x.head - x.tail) = encode x.lastOut x.pend
  rw [he, Nat.sub_self, hp]; rfl

theorem inv_reg {c : Cfg} (hc : c.WF) {n : Nat} {s s' : State} {out : Out} (t : Nat) (g : Array (BitVec 64))
    (h : Inv c n s) (st : step c n s (.reg t g) = some (s', out)) : Inv c n s' := by
  have h4 := hc.ge4
  have hh := h
  obtain ⟨h1, h2, h3, h4, h5, h6, h7, h8, h9, h10, h11, h12, h13⟩ := h
  simp only [step] at st
  split at st
  · simp at st
  rename_i hl
  have hl' : s.lock = none := by simpa using hl
  split at st
  · simp at st
  rename_i hg
  split at st
  · simp only [Option.some.injEq, Prod.mk.injEq] at st; obtain ⟨rfl, -⟩ := st; exact hh
  split at st
  · simp only [Option.some.injEq, Prod.mk.injEq] at st; obtain ⟨rfl, -⟩ := st; exact hh
  rename_i hq
  simp only [Option.some.injEq, Prod.mk.injEq] at st
  obtain ⟨rfl, -⟩ := st
  have hq0 : (s.th t).q.size = 0 := by simpa using hq
  have hgs : g.size = c.size := by simpa using hg
  have hnot : t ∉ s.registry := by intro hm; have := h4 t hm; omega
  have ht := allocT_TInv (h1 t) hq0 (by omega) g hgs
  constructor <;> simp only [tick, upd, hl'] <;> grind


theorem mem_enqT_queuedR {c : Cfg} {x : TState} {f p : BitVec 64} {now : Nat} {cl : Call}
    (h : cl ∈ (enqT c x f p now).1.queuedR) : cl.time = now ∨ cl ∈ x.queuedR := by
  simp only [enqT, List.mem_cons] at h
  rcases h with rfl | h
  · exact Or.inl rfl
  · exact Or.inr h

theorem inv_enq {c : Cfg} (hc : c.WF) {n : Nat} {s s' : State} {out : Out} (t : Nat) (f p : BitVec 64)
    (h : Inv c n s) (st : step c n s (.enq t f p) = some (s', out)) : Inv c n s' := by
  have hge := hc.ge4
  have hh := h
  obtain ⟨h1, h2, h3, h4, h5, h6, h7, h8, h9, h10, h11, h12, h13⟩ := h
  simp only [step] at st
  split at st
  · simp at st
  rename_i hbusy
  split at st
  · simp at st
  rename_i hq
  split at st
  · split at st <;> (simp only [Option.some.injEq, Prod.mk.injEq] at st; obtain ⟨rfl, -⟩ := st; exact hh)
  rename_i hnf
  simp only [Option.some.injEq, Prod.mk.injEq] at st
  obtain ⟨rfl, -⟩ := st
  have hnf' : needFlush c (s.th t) = false := by simpa using hnf
  have hqs : (s.th t).q.size = c.size := by
    rcases (h1 t).qsz with a | ⟨b, _⟩
    · exact a
    · exact absurd b hq
  have ht := enqT_TInv hc (h1 t) hqs hnf' f p s.clock
  have hsn : ∀ snap gs, gs ≤ s.clock → Snap c (s.th t) snap gs → Snap c (enqT c (s.th t) f p s.clock).1 snap gs :=
    fun snap gs hle hs => enqT_Snap (h1 t) hs f p s.clock hle
  have hqq : (enqT c (s.th t) f p s.clock).1.q.size = c.size := by simp [writeWords_size, hqs]
  have hmem := @mem_enqT_queuedR c (s.th t) f p s.clock
  have hlh : (enqT c (s.th t) f p s.clock).1.lastHead = (s.th t).lastHead := rfl
  have hhd : (s.th t).head ≤ (enqT c (s.th t) f p s.clock).1.head := by simp
  constructor
  · intro t'; simp only [tick, upd]; grind
  · intro t' cl; simp only [tick, upd]; grind
  · exact h3
  · intro t'; simp only [tick, upd]; grind
  · intro t'; simp only [tick, upd]; grind
  · intro t'; simp only [tick, upd]; grind
  · simp only [tick]; grind
  · simp only [tick]; grind
  · simp only [tick]; grind
  · simp only [tick]; grind
  · intro who gs d hl t' ht'
    simp only [tick, upd] at *
    have := h11 who gs d hl t' ht'
    have := h7 _ hl
    grind
  · intro t' snap gs d hl
    simp only [tick, upd] at *
    have := h12 t' snap gs d hl
    have := h7 _ hl
    have : t' ≠ t := by intro e; subst e; simp [hl, Holder.thread] at hbusy
    grind
  · intro t' snap gs d hl
    simp only [tick, upd] at *
    have := h13 t' snap gs d hl
    have := h7 _ hl
    have : t' ≠ t := by intro e; subst e; simp [hl, Holder.thread] at hbusy
    grind


theorem inv_flushSnapshot {c : Cfg} {n : Nat} {s s' : State} {out : Out} (t : Nat)
    (h : Inv c n s) (st : step c n s (.flushSnapshot t) = some (s', out)) : Inv c n s' := by
  have hh := h
  obtain ⟨h1, h2, h3, h4, h5, h6, h7, h8, h9, h10, h11, h12, h13⟩ := h
  simp only [step] at st
  split at st
  · simp at st
  rename_i hl
  have hl' : s.lock = none := by simpa using hl
  split at st
  · simp only [Option.some.injEq, Prod.mk.injEq] at st
    obtain ⟨rfl, -⟩ := st
    constructor <;> simp only [tick] <;> grind
  simp only [Option.some.injEq, Prod.mk.injEq] at st
  obtain ⟨rfl, -⟩ := st
  have ht := (h1 t).snapUpd (s.th t).lastHead (s.th t).queuedR.length
  have hs := Snap.create (h1 t) s.clock (h2 t) (s.th t).lastHead
  constructor <;> simp only [tick, upd] <;> grind

theorem inv_flushRun {c : Cfg} {n : Nat} {s s' : State} {out : Out} (t : Nat)
    (h : Inv c n s) (st : step c n s (.flushRun t) = some (s', out)) : Inv c n s' := by
  have hh := h
  obtain ⟨h1, h2, h3, h4, h5, h6, h7, h8, h9, h10, h11, h12, h13⟩ := h
  simp only [step] at st
  split at st
  · rename_i t' snap gs hl
    split at st
    · simp at st
    rename_i hne
    have : t' = t := by simpa using hne
    subst this
    split at st
    · simp only [Option.some.injEq, Prod.mk.injEq] at st; obtain ⟨rfl, -⟩ := st; exact hh
    rename_i x' cs hr
    simp only [Option.some.injEq, Prod.mk.injEq] at st
    obtain ⟨rfl, -⟩ := st
    obtain ⟨hs, hsn⟩ := h12 t' snap gs true hl
    have ht := runQ_TInv (h1 t') hs s.clock hr
    obtain ⟨f1, f2, f3, f4, f5, f6, f7, f8, f9, f10⟩ := runQ_frame (h1 t') hs s.clock hr
    constructor <;> simp only [tick, upd] <;> grind
  · simp at st


theorem unregT_fields (c : Cfg) (x : TState) :
    (unregT c x).q.size = 0 ∧ (c.fixed = true → (unregT c x).lastHead = 0) ∧ (unregT c x).queuedR = x.queuedR
    ∧ (unregT c x).head = x.head ∧ (unregT c x).tail = x.tail := by
  refine ⟨rfl, ?_, rfl, rfl, rfl⟩
  intro h; simp [unregT, h]

theorem inv_unregBegin {c : Cfg} {n : Nat} {s s' : State} {out : Out} (t : Nat)
    (h : Inv c n s) (st : step c n s (.unregBegin t) = some (s', out)) : Inv c n s' := by
  have hh := h
  obtain ⟨h1, h2, h3, h4, h5, h6, h7, h8, h9, h10, h11, h12, h13⟩ := h
  simp only [step] at st
  split at st
  · simp at st
  rename_i hl
  have hl' : s.lock = none := by simpa using hl
  split at st
  · simp at st
  rename_i hin
  have hin' : t ∈ s.registry := by simpa using hin
  have hme : ∀ t', t' ∈ s.registry.erase t ↔ (t' ≠ t ∧ t' ∈ s.registry) := fun t' => h3.mem_erase_iff
  have hnd : (s.registry.erase t).Nodup := h3.erase t
  split at st
  · rename_i he
    simp only [Option.some.injEq, Prod.mk.injEq] at st
    obtain ⟨rfl, -⟩ := st
    have ht := unregT_TInv (h1 t) he
    obtain ⟨u1, u2, u3, u4, u5⟩ := unregT_fields c (s.th t)
    constructor <;> simp only [tick, upd, hl'] <;> grind
  simp only [Option.some.injEq, Prod.mk.injEq] at st
  obtain ⟨rfl, -⟩ := st
  have ht := (h1 t).snapUpd (s.th t).lastHead (s.th t).queuedR.length
  have hs := Snap.create (h1 t) s.clock (h2 t) (s.th t).lastHead
  constructor
  case unreg_q =>
    intro t' hnin hno
    by_cases e : t' = t
    · subst e; exact absurd rfl (hno _ _ _)
    · simp only [tick, upd] at *; grind
  all_goals (simp only [tick, upd]; grind)

theorem inv_unregEnd {c : Cfg} {n : Nat} {s s' : State} {out : Out} (t : Nat)
    (h : Inv c n s) (st : step c n s (.unregEnd t) = some (s', out)) : Inv c n s' := by
  have hh := h
  obtain ⟨h1, h2, h3, h4, h5, h6, h7, h8, h9, h10, h11, h12, h13⟩ := h
  simp only [step] at st
  split at st
  · rename_i t' snap gs hl
    split at st
    · simp at st
    rename_i hne
    have : t' = t := by simpa using hne
    subst this
    split at st
    · simp only [Option.some.injEq, Prod.mk.injEq] at st; obtain ⟨rfl, -⟩ := st; exact hh
    rename_i x' cs hr
    simp only [Option.some.injEq, Prod.mk.injEq] at st
    obtain ⟨rfl, -⟩ := st
    obtain ⟨hs, hsn⟩ := h13 t' snap gs true hl
    have ht := runQ_TInv (h1 t') hs s.clock hr
    obtain ⟨f1, f2, f3, f4, f5, f6, f7, f8, f9, f10⟩ := runQ_frame (h1 t') hs s.clock hr
    have ht2 := unregT_TInv ht (by omega)
    obtain ⟨u1, u2, u3, u4, u5⟩ := unregT_fields c x'
    have := h6 t' snap gs true hl
    constructor <;> simp only [tick, upd] <;> grind
  · simp at st


theorem runT_eq {c : Cfg} {x : TState} (h : TInv c x) {snap gs : Nat} (hs : Snap c x snap gs) (now : Nat) :
    runQ c x snap now = some (runT c x snap now) := by
  have := runQ_spec h hs now
  simp only [runT, this]

theorem inv_barrierSnapshot {c : Cfg} {n : Nat} {s s' : State} {out : Out} (who : Option Nat)
    (h : Inv c n s) (st : step c n s (.barrierSnapshot who) = some (s', out)) : Inv c n s' := by
  have hh := h
  obtain ⟨h1, h2, h3, h4, h5, h6, h7, h8, h9, h10, h11, h12, h13⟩ := h
  simp only [step] at st
  split at st
  · simp only [Option.some.injEq, Prod.mk.injEq] at st
    obtain ⟨rfl, -⟩ := st
    constructor <;> simp only [tick] <;> grind
  split at st
  · simp at st
  rename_i hl
  have hl' : s.lock = none := by simpa using hl
  have ht : ∀ t, TInv c { s.th t with lastHead := (s.th t).head, snapQ := (s.th t).queuedR.length } :=
    fun t => (h1 t).snapUpd _ _
  have hs : ∀ t, Snap c { s.th t with lastHead := (s.th t).head, snapQ := (s.th t).queuedR.length } (s.th t).head s.clock :=
    fun t => Snap.create (h1 t) s.clock (h2 t) _
  split at st
  · simp only [Option.some.injEq, Prod.mk.injEq] at st
    obtain ⟨rfl, -⟩ := st
    constructor <;> simp only [tick, snapTh] <;> grind
  · simp only [Option.some.injEq, Prod.mk.injEq] at st
    obtain ⟨rfl, -⟩ := st
    constructor <;> simp only [tick, snapTh] <;> grind

theorem inv_barrierRun {c : Cfg} {n : Nat} {s s' : State} {out : Out}
    (h : Inv c n s) (st : step c n s .barrierRun = some (s', out)) : Inv c n s' := by
  have hh := h
  obtain ⟨h1, h2, h3, h4, h5, h6, h7, h8, h9, h10, h11, h12, h13⟩ := h
  simp only [step] at st
  split at st
  · rename_i who gs hl
    split at st
    · simp only [Option.some.injEq, Prod.mk.injEq] at st
      obtain ⟨rfl, -⟩ := st
      have hsn := h11 who gs true hl
      have hrun : ∀ t, t ∈ s.registry →
          TInv c (runT c (s.th t) (s.th t).lastHead s.clock).1 ∧
          (runT c (s.th t) (s.th t).lastHead s.clock).1.q = (s.th t).q ∧
          (runT c (s.th t) (s.th t).lastHead s.clock).1.queuedR = (s.th t).queuedR := by
        intro t ht
        have e := runT_eq (h1 t) (hsn t ht) s.clock
        have a := runQ_TInv (h1 t) (hsn t ht) s.clock e
        obtain ⟨f1, f2, f3, f4, f5, f6, f7, f8, f9, f10⟩ := runQ_frame (h1 t) (hsn t ht) s.clock e
        exact ⟨a, f3, f4⟩
      constructor <;> simp only [tick] <;> grind
    · simp only [Option.some.injEq, Prod.mk.injEq] at st; obtain ⟨rfl, -⟩ := st; exact hh
  · simp at st

/-- the invariant is inductive -/
theorem inv_step {c : Cfg} (hc : c.WF) {n : Nat} {s s' : State} {op : Op} {out : Out} (h : Inv c n s)
    (st : step c n s op = some (s', out)) : Inv c n s' := by
  cases op with
  | reg t g => exact inv_reg hc t g h st
  | unregBegin t => exact inv_unregBegin t h st
  | unregEnd t => exact inv_unregEnd t h st
  | barrierSnapshot who => exact inv_barrierSnapshot who h st
  | barrierRun => exact inv_barrierRun h st
  | flushSnapshot t => exact inv_flushSnapshot t h st
  | flushRun t => exact inv_flushRun t h st
  | gp => exact inv_gp h st
  | enq t f p => exact inv_enq hc t f p h st
  | rlock i => exact inv_rlock i h st
  | runlock i => exact inv_runlock i h st

theorem inv_reach {c : Cfg} (hc : c.WF) {n : Nat} {h0 : Nat → Nat} {s : State} (h : Reach c n h0 s) :
    Inv c n s := by
  induction h with
  | init => exact inv_init c n h0
  | step _ st ih => exact inv_step hc ih st

end UrcuVerif.Defer
