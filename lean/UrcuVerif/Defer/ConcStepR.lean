import UrcuVerif.Defer.ConcTac
/-! Step lemmas of the concurrent defer_rcu invariant: the labels of the holder of `rcu_defer_mutex`. -/
set_option linter.unusedSimpArgs false
set_option linter.unusedVariables false
namespace UrcuVerif.DeferConc
open UrcuVerif
open UrcuVerif.Defer (enc1 dec1 isFct clrFct setFct fctMark Call Invk)

theorem o_rLock (c : Cfg) (hc : c.WF) {s s' : State} (h : Inv c s) (who : Nat) (k : RKind)
    (st : step c s (.rLock who k) = some s') : InvO c s' := by
  dpre <;> openO <;> dgo?
theorem e_rLock (c : Cfg) (hc : c.WF) {s s' : State} (h : Inv c s) (who : Nat) (k : RKind)
    (st : step c s (.rLock who k) = some s') : InvE c s' := by
  dpre <;> openE <;> dgo?
theorem r_rLock (c : Cfg) (hc : c.WF) {s s' : State} (h : Inv c s) (who : Nat) (k : RKind)
    (st : step c s (.rLock who k) = some s') : InvR c s' := by
  have hhb := h.e.headBd; dpre <;> openR <;> openO <;> dgo?
theorem g_rLock (c : Cfg) (hc : c.WF) {s s' : State} (h : Inv c s) (who : Nat) (k : RKind)
    (st : step c s (.rLock who k) = some s') : InvG c s' := by
  dpre <;> openG <;> dgo?
theorem inv_rLock (c : Cfg) (hc : c.WF) {s s' : State} (h : Inv c s) (who : Nat) (k : RKind)
    (st : step c s (.rLock who k) = some s') : Inv c s' :=
  ⟨o_rLock c hc h who k st, e_rLock c hc h who k st, r_rLock c hc h who k st, g_rLock c hc h who k st⟩

theorem o_rSnap (c : Cfg) (hc : c.WF) {s s' : State} (h : Inv c s) (t : Nat)
    (st : step c s (.rSnap t) = some s') : InvO c s' := by
  dpre <;> openO <;> dgo?
theorem e_rSnap (c : Cfg) (hc : c.WF) {s s' : State} (h : Inv c s) (t : Nat)
    (st : step c s (.rSnap t) = some s') : InvE c s' := by
  dpre <;> openE <;> dgo?
theorem r_rSnap (c : Cfg) (hc : c.WF) {s s' : State} (h : Inv c s) (t : Nat)
    (st : step c s (.rSnap t) = some s') : InvR c s' := by
  have hmb := h.e.mheadBd; dpre <;> openR <;> openO <;> dgo?
theorem g_rSnap (c : Cfg) (hc : c.WF) {s s' : State} (h : Inv c s) (t : Nat)
    (st : step c s (.rSnap t) = some s') : InvG c s' := by
  dpre <;> openG <;> dgo?
theorem inv_rSnap (c : Cfg) (hc : c.WF) {s s' : State} (h : Inv c s) (t : Nat)
    (st : step c s (.rSnap t) = some s') : Inv c s' :=
  ⟨o_rSnap c hc h t st, e_rSnap c hc h t st, r_rSnap c hc h t st, g_rSnap c hc h t st⟩

theorem o_rSkip (c : Cfg) (hc : c.WF) {s s' : State} (h : Inv c s) 
    (st : step c s (.rSkip) = some s') : InvO c s' := by
  dpre <;> openO <;> openR <;> dgo?
theorem e_rSkip (c : Cfg) (hc : c.WF) {s s' : State} (h : Inv c s) 
    (st : step c s (.rSkip) = some s') : InvE c s' := by
  dpre <;> openE <;> dgo?
theorem r_rSkip (c : Cfg) (hc : c.WF) {s s' : State} (h : Inv c s) 
    (st : step c s (.rSkip) = some s') : InvR c s' := by
  dpre <;> openR <;> dgo?
theorem g_rSkip (c : Cfg) (hc : c.WF) {s s' : State} (h : Inv c s) 
    (st : step c s (.rSkip) = some s') : InvG c s' := by
  dpre <;> openG <;> dgo?
theorem inv_rSkip (c : Cfg) (hc : c.WF) {s s' : State} (h : Inv c s) 
    (st : step c s (.rSkip) = some s') : Inv c s' :=
  ⟨o_rSkip c hc h  st, e_rSkip c hc h  st, r_rSkip c hc h  st, g_rSkip c hc h  st⟩

theorem o_rGpCall (c : Cfg) (hc : c.WF) {s s' : State} (h : Inv c s) 
    (st : step c s (.rGpCall) = some s') : InvO c s' := by
  dpre <;> openO <;> dgo?
theorem e_rGpCall (c : Cfg) (hc : c.WF) {s s' : State} (h : Inv c s) 
    (st : step c s (.rGpCall) = some s') : InvE c s' := by
  dpre <;> openE <;> dgo?
theorem r_rGpCall (c : Cfg) (hc : c.WF) {s s' : State} (h : Inv c s) 
    (st : step c s (.rGpCall) = some s') : InvR c s' := by
  dpre <;> openR <;> dgo?
theorem g_rGpCall (c : Cfg) (hc : c.WF) {s s' : State} (h : Inv c s) 
    (st : step c s (.rGpCall) = some s') : InvG c s' := by
  have het := h.e.eTime; dpre <;> openG <;> dgo?
theorem inv_rGpCall (c : Cfg) (hc : c.WF) {s s' : State} (h : Inv c s) 
    (st : step c s (.rGpCall) = some s') : Inv c s' :=
  ⟨o_rGpCall c hc h  st, e_rGpCall c hc h  st, r_rGpCall c hc h  st, g_rGpCall c hc h  st⟩

theorem o_rGp (c : Cfg) (hc : c.WF) {s s' : State} (h : Inv c s) 
    (st : step c s (.rGp) = some s') : InvO c s' := by
  dpre <;> openO <;> dgo?
theorem e_rGp (c : Cfg) (hc : c.WF) {s s' : State} (h : Inv c s) 
    (st : step c s (.rGp) = some s') : InvE c s' := by
  dpre <;> openE <;> dgo?
theorem r_rGp (c : Cfg) (hc : c.WF) {s s' : State} (h : Inv c s) 
    (st : step c s (.rGp) = some s') : InvR c s' := by
  dpre <;> openR <;> dgo?
theorem g_rGp (c : Cfg) (hc : c.WF) {s s' : State} (h : Inv c s) 
    (st : step c s (.rGp) = some s') : InvG c s' := by
  dpre <;> openG <;> dgo?
theorem inv_rGp (c : Cfg) (hc : c.WF) {s s' : State} (h : Inv c s) 
    (st : step c s (.rGp) = some s') : Inv c s' :=
  ⟨o_rGp c hc h  st, e_rGp c hc h  st, r_rGp c hc h  st, g_rGp c hc h  st⟩

theorem o_rBegin (c : Cfg) (hc : c.WF) {s s' : State} (h : Inv c s) 
    (st : step c s (.rBegin) = some s') : InvO c s' := by
  have htl := hc.2
  dpre <;> openO <;> dgo?
theorem e_rBegin (c : Cfg) (hc : c.WF) {s s' : State} (h : Inv c s) 
    (st : step c s (.rBegin) = some s') : InvE c s' := by
  have htl := hc.2
  dpre <;> openE <;> dgo?
theorem r_rBegin (c : Cfg) (hc : c.WF) {s s' : State} (h : Inv c s) 
    (st : step c s (.rBegin) = some s') : InvR c s' := by
  have htl := hc.2
  dpre <;> openR <;> dgo?
theorem g_rBegin (c : Cfg) (hc : c.WF) {s s' : State} (h : Inv c s) 
    (st : step c s (.rBegin) = some s') : InvG c s' := by
  have htl := hc.2
  dpre <;> openG <;> dgo?
theorem inv_rBegin (c : Cfg) (hc : c.WF) {s s' : State} (h : Inv c s) 
    (st : step c s (.rBegin) = some s') : Inv c s' :=
  ⟨o_rBegin c hc h  st, e_rBegin c hc h  st, r_rBegin c hc h  st, g_rBegin c hc h  st⟩

theorem o_rEnd (c : Cfg) (hc : c.WF) {s s' : State} (h : Inv c s) 
    (st : step c s (.rEnd) = some s') : InvO c s' := by
  have htl := hc.2
  dpre <;> openO <;> dgo?
theorem e_rEnd (c : Cfg) (hc : c.WF) {s s' : State} (h : Inv c s) 
    (st : step c s (.rEnd) = some s') : InvE c s' := by
  have htl := hc.2
  dpre <;> openE <;> dgo?
theorem r_rEnd (c : Cfg) (hc : c.WF) {s s' : State} (h : Inv c s) 
    (st : step c s (.rEnd) = some s') : InvR c s' := by
  have htl := hc.2
  have hrest : s.rpc = .iter → ∃ rest, s.todo = s.cur :: rest := by
    intro hi; have := h.r.iterHead hi
    cases hto : s.todo with
    | nil => simp [hto] at this
    | cons a l => simp [hto] at this; exact ⟨l, by rw [this]⟩
  dpre
  rename_i hg
  obtain ⟨rest, hrest⟩ := hrest hg.2.1
  openR
  simp only [hrest, List.mem_cons, List.nodup_cons, List.tail_cons] at *
  dgo?
  intro t h1 h2
  have := h2 s.ri
  grind
theorem g_rEnd (c : Cfg) (hc : c.WF) {s s' : State} (h : Inv c s) 
    (st : step c s (.rEnd) = some s') : InvG c s' := by
  have htl := hc.2
  have hrest : s.rpc = .iter → ∃ rest, s.todo = s.cur :: rest := by
    intro hi; have := h.r.iterHead hi
    cases hto : s.todo with
    | nil => simp [hto] at this
    | cons a l => simp [hto] at this; exact ⟨l, by rw [this]⟩
  dpre
  rename_i hg
  obtain ⟨rest, hrest⟩ := hrest hg.2.1
  openG
  simp only [hrest, List.mem_cons, List.nodup_cons, List.tail_cons] at *
  dgo?
theorem inv_rEnd (c : Cfg) (hc : c.WF) {s s' : State} (h : Inv c s) 
    (st : step c s (.rEnd) = some s') : Inv c s' :=
  ⟨o_rEnd c hc h  st, e_rEnd c hc h  st, r_rEnd c hc h  st, g_rEnd c hc h  st⟩

theorem o_flushT (c : Cfg) (hc : c.WF) {s s' : State} (h : Inv c s) 
    (st : step c s (.flushT) = some s') : InvO c s' := by
  dpre <;> openO <;> openR <;> dgo?
theorem e_flushT (c : Cfg) (hc : c.WF) {s s' : State} (h : Inv c s) 
    (st : step c s (.flushT) = some s') : InvE c s' := by
  dpre <;> openE <;> dgo?
theorem r_flushT (c : Cfg) (hc : c.WF) {s s' : State} (h : Inv c s) 
    (st : step c s (.flushT) = some s') : InvR c s' := by
  dpre <;> openR <;> dgo?
theorem g_flushT (c : Cfg) (hc : c.WF) {s s' : State} (h : Inv c s) 
    (st : step c s (.flushT) = some s') : InvG c s' := by
  dpre <;> openG <;> dgo?
theorem inv_flushT (c : Cfg) (hc : c.WF) {s s' : State} (h : Inv c s) 
    (st : step c s (.flushT) = some s') : Inv c s' :=
  ⟨o_flushT c hc h  st, e_flushT c hc h  st, r_flushT c hc h  st, g_flushT c hc h  st⟩

theorem o_rUnlock (c : Cfg) (hc : c.WF) {s s' : State} (h : Inv c s) 
    (st : step c s (.rUnlock) = some s') : InvO c s' := by
  dpre <;> openO <;> openR <;> dgo?
theorem e_rUnlock (c : Cfg) (hc : c.WF) {s s' : State} (h : Inv c s) 
    (st : step c s (.rUnlock) = some s') : InvE c s' := by
  dpre <;> openE <;> dgo?
theorem r_rUnlock (c : Cfg) (hc : c.WF) {s s' : State} (h : Inv c s) 
    (st : step c s (.rUnlock) = some s') : InvR c s' := by
  dpre <;> openR <;> dgo?
theorem g_rUnlock (c : Cfg) (hc : c.WF) {s s' : State} (h : Inv c s) 
    (st : step c s (.rUnlock) = some s') : InvG c s' := by
  dpre <;> openG <;> dgo?
theorem inv_rUnlock (c : Cfg) (hc : c.WF) {s s' : State} (h : Inv c s) 
    (st : step c s (.rUnlock) = some s') : Inv c s' :=
  ⟨o_rUnlock c hc h  st, e_rUnlock c hc h  st, r_rUnlock c hc h  st, g_rUnlock c hc h  st⟩

theorem o_rInvoke (c : Cfg) (hc : c.WF) {s s' : State} (h : Inv c s) 
    (st : step c s (.rInvoke) = some s') : InvO c s' := by
  have hrest : s.rpc = .iter → s.cur ∈ s.todo := by
    intro hi; have := h.r.iterHead hi
    cases hto : s.todo with
    | nil => simp [hto] at this
    | cons a l => simp [hto] at this; simp [this]
  have hrd := h.r.itReady
  have hsb := h.r.snapBd s.cur
  have hsl := h.r.snapLe s.cur
  have hpos := fun x h1 h2 => ent_len_pos h.e s.cur x h1 h2
  dpre
  rename_i hg x f p hrit
  have hcur := hrest hg.2
  obtain ⟨hr1, hr2, hr3, hr4, hr5⟩ := hrd f p hg.2 hrit
  have hsb := hsb hcur _ hr1 (Nat.le_refl _) hr2
  have hsl := hsl hcur
  have hpos := hpos _ hr1 (Nat.le_refl _)
  openO <;> dgo?
theorem e_rInvoke (c : Cfg) (hc : c.WF) {s s' : State} (h : Inv c s)
    (st : step c s (.rInvoke) = some s') : InvE c s' := by
  have hrd := h.r.itReady
  have hpos := fun x h1 h2 => ent_len_pos h.e s.cur x h1 h2
  have hE := h.e
  dpre
  rename_i hg x f p hrit
  obtain ⟨hr1, hr2, hr3, hr4, hr5⟩ := hrd f p hg.2 hrit
  have hpos := hpos _ hr1 (Nat.le_refl _)
  clear h hrd
  refine { estStart := ?_, eWs := ?_, eEnd := ?_, eNext := ?_, eLo := ?_, eSeq := ?_, eQ := ?_, eWat := ?_, eTime := ?_,
           loEnd := ?_, seqEnd := ?_, loCons := ?_, seqCons := ?_, order := ?_, headBd := ?_, mheadBd := ?_ }
  · have a := hE.estStart; have b := hE.eNext _ _ hr1 (Nat.le_refl _); clear hE; simp only [upd, tick]; grind
  · have a := hE.eWs; clear hE; simp only [upd, tick]; grind
  · have a := hE.eEnd; clear hE; simp only [upd, tick]; grind
  · have a := hE.eNext; clear hE; simp only [upd, tick]; grind
  · have a := hE.eLo; clear hE; simp only [upd, tick]; grind
  · have a := hE.eSeq; clear hE; simp only [upd, tick]; grind
  · have a := hE.eQ; clear hE; simp only [upd, tick]; grind
  · have a := hE.eWat; clear hE; simp only [upd, tick]; grind
  · have a := hE.eTime; clear hE; simp only [upd, tick]; grind
  · exact hE.loEnd
  · exact hE.seqEnd
  · have a := hE.loCons; have b := hE.eLo _ _ hr1 (Nat.le_refl _); clear hE; simp only [upd, tick]; grind
  · have a := hE.seqCons; have b := hE.eSeq _ _ hr1 (Nat.le_refl _); clear hE; simp only [upd, tick]; grind
  · have a := hE.order; have b := hE.eQ _ _ hr1 (Nat.le_refl _); have d := hE.seqCons s.cur
    clear hE; simp only [upd, tick]
    intro t1; split
    · rename_i ht; subst ht
      rw [d] at b
      simp only [List.map_append, List.length_append, List.length_singleton, List.take_add_one, b, a s.cur]
      simp [Invk.pair, Call.pair, hr4, hr5]
    · exact a t1
  · have a := hE.headBd; clear hE; simp only [upd, tick]; grind
  · have a := hE.mheadBd; clear hE; simp only [upd, tick]; grind
theorem r_rInvoke (c : Cfg) (hc : c.WF) {s s' : State} (h : Inv c s) 
    (st : step c s (.rInvoke) = some s') : InvR c s' := by
  have hrest : s.rpc = .iter → s.cur ∈ s.todo := by
    intro hi; have := h.r.iterHead hi
    cases hto : s.todo with
    | nil => simp [hto] at this
    | cons a l => simp [hto] at this; simp [this]
  have hrd := h.r.itReady
  have hsb := h.r.snapBd s.cur
  have hsl := h.r.snapLe s.cur
  have hpos := fun x h1 h2 => ent_len_pos h.e s.cur x h1 h2
  dpre
  rename_i hg x f p hrit
  have hcur := hrest hg.2
  obtain ⟨hr1, hr2, hr3, hr4, hr5⟩ := hrd f p hg.2 hrit
  have hsb := hsb hcur _ hr1 (Nat.le_refl _) hr2
  have hsl := hsl hcur
  have hpos := hpos _ hr1 (Nat.le_refl _)
  openR <;> dgo?
theorem g_rInvoke (c : Cfg) (hc : c.WF) {s s' : State} (h : Inv c s) 
    (st : step c s (.rInvoke) = some s') : InvG c s' := by
  have hrest : s.rpc = .iter → s.cur ∈ s.todo := by
    intro hi; have := h.r.iterHead hi
    cases hto : s.todo with
    | nil => simp [hto] at this
    | cons a l => simp [hto] at this; simp [this]
  have hrd := h.r.itReady
  have hsb := h.r.snapBd s.cur
  have hsl := h.r.snapLe s.cur
  have hpos := fun x h1 h2 => ent_len_pos h.e s.cur x h1 h2
  dpre
  rename_i hg x f p hrit
  have hcur := hrest hg.2
  obtain ⟨hr1, hr2, hr3, hr4, hr5⟩ := hrd f p hg.2 hrit
  have hsb := hsb hcur _ hr1 (Nat.le_refl _) hr2
  have hsl := hsl hcur
  have hpos := hpos _ hr1 (Nat.le_refl _)
  openG <;> dgo?
theorem inv_rInvoke (c : Cfg) (hc : c.WF) {s s' : State} (h : Inv c s) 
    (st : step c s (.rInvoke) = some s') : Inv c s' :=
  ⟨o_rInvoke c hc h  st, e_rInvoke c hc h  st, r_rInvoke c hc h  st, g_rInvoke c hc h  st⟩

/-- what the first word(s) of an encoded entry tell the decoder -/
theorem enc1_shape (lo f p : BitVec 64) :
    (isFct ((enc1 lo f p).1.getD 0 0#64) = false → ((enc1 lo f p).1.getD 0 0#64 == fctMark) = false →
      (enc1 lo f p).1.length = 1 ∧ lo = f ∧ (enc1 lo f p).1.getD 0 0#64 = p) ∧
    (isFct ((enc1 lo f p).1.getD 0 0#64) = true →
      (enc1 lo f p).1.length = 2 ∧ clrFct ((enc1 lo f p).1.getD 0 0#64) = f ∧ (enc1 lo f p).1.getD 1 0#64 = p) ∧
    (isFct ((enc1 lo f p).1.getD 0 0#64) = false → ((enc1 lo f p).1.getD 0 0#64 == fctMark) = true →
      (enc1 lo f p).1.length = 3 ∧ (enc1 lo f p).1.getD 1 0#64 = f ∧ (enc1 lo f p).1.getD 2 0#64 = p) := by
  rcases Defer.enc1_cases lo f p with ⟨e, rfl, h1, h2⟩ | ⟨e, h1⟩ | e
  · simp [e, h1, h2]
  · simp [e, Defer.isFct_setFct, Defer.clrFct_setFct h1]
  · simp [e, Defer.isFct_fctMark]

theorem r_rLd (c : Cfg) (hc : c.WF) {s s' : State} (h : Inv c s)
    (st : step c s (.rLd) = some s') : InvR c s' := by
  have hcur : s.rpc = .iter → s.cur ∈ s.todo := by
    intro hi; have := h.r.iterHead hi
    cases hto : s.todo with
    | nil => simp [hto] at this
    | cons a l => simp [hto] at this; simp [this]
  have hiter : s.rpc = .iter := by
    simp only [step] at st; split at st
    · rename_i hg; exact hg.2
    · simp at st
  have hcur := hcur hiter
  -- facts about the entry at the first unconsumed word, valid whenever it lies below the snapshot
  have hsl := h.r.snapLe s.cur hcur
  have key : s.cons s.cur < s.snap s.cur →
      s.est s.cur (s.cons s.cur) = true ∧
      s.cons s.cur + (s.ent s.cur (s.cons s.cur)).ws.length ≤ s.snap s.cur ∧
      (∀ m, m < (s.ent s.cur (s.cons s.cur)).ws.length →
        rget c (s.mq s.cur) (s.cons s.cur + m) = (s.ent s.cur (s.cons s.cur)).ws.getD m 0#64) := by
    intro hlt
    have a1 := h.o.ord2 s.cur; have a2 := h.o.ord3 s.cur; have a3 := h.o.ordB s.cur; have a4 := h.o.tailCons s.cur
    have hest := h.e.estStart s.cur (by omega)
    have hbd := h.r.snapBd s.cur hcur _ hest (Nat.le_refl _) hlt
    refine ⟨hest, hbd, fun m hm => ?_⟩
    rw [h.o.mem s.cur _ (by omega) (by omega)]
    exact h.e.eWat s.cur _ hest (Nat.le_refl _) m hm
  have hlp := fun x h1 h2 => ent_len_pos h.e s.cur x h1 h2
  have hws := fun he => h.e.eWs s.cur (s.cons s.cur) he (Nat.le_refl _)
  have hlo := h.e.loCons s.cur
  have htop := h.r.itTop hiter
  have hone := fun w0 => h.r.itOne w0 hiter
  have htwo := fun w0 w1 => h.r.itTwo w0 w1 hiter
  dpre <;> openR <;> dgo?

  case h_1.isTrue.isFalse.isFalse.itReady =>
    rename_i hg x heq hne hw hm
    intro f p _ hfp; injection hfp with hf hp'; subst hf; subst hp'
    have hri := htop heq
    have hlt : s.cons s.cur < s.snap s.cur := by omega
    obtain ⟨k1, k2, k3⟩ := key hlt
    have hp := hlp _ k1 (Nat.le_refl _)
    have k30 : rget c (s.mq s.cur) s.ri = (s.ent s.cur (s.cons s.cur)).ws.getD 0 0#64 := by
      rw [hri]; exact k3 0 (by omega)
    have hsh := (enc1_shape (s.loAt s.cur (s.cons s.cur)) (s.ent s.cur (s.cons s.cur)).fct (s.ent s.cur (s.cons s.cur)).arg).1
    rw [← hws k1, ← k30] at hsh
    obtain ⟨s1, s2, s3⟩ := hsh (by simpa using hw) (by simpa using hm)
    exact ⟨k1, hlt, by omega, by rw [hlo, s2], s3⟩
  case h_2.isTrue.itReady =>
    rename_i hg x w0 heq hw
    intro f p _ hfp; injection hfp with hf hp'; subst hf; subst hp'
    obtain ⟨k1, hlt, hri, hw0, _⟩ := hone w0 heq
    obtain ⟨_, k2, k3⟩ := key hlt
    have hsh := (enc1_shape (s.loAt s.cur (s.cons s.cur)) (s.ent s.cur (s.cons s.cur)).fct (s.ent s.cur (s.cons s.cur)).arg).2.1
    rw [← hws k1, ← hw0] at hsh
    obtain ⟨s1, s2, s3⟩ := hsh hw
    have k31 : rget c (s.mq s.cur) s.ri = (s.ent s.cur (s.cons s.cur)).ws.getD 1 0#64 := by
      rw [hri]; exact k3 1 (by omega)
    exact ⟨k1, hlt, by omega, s2, by rw [k31, s3]⟩
  case h_2.isFalse.itTwo =>
    rename_i hg x w0 heq hw
    intro w0' w1' _ hww; injection hww with h0 h1; subst h0; subst h1
    obtain ⟨k1, hlt, hri, hw0, hor⟩ := hone w0 heq
    obtain ⟨_, k2, k3⟩ := key hlt
    have hwf : isFct w0 = false := by simpa using hw
    have hwm : (w0 == fctMark) = true := by rcases hor with h | h; · simp [h] at hwf
                                            · exact h
    have hsh := (enc1_shape (s.loAt s.cur (s.cons s.cur)) (s.ent s.cur (s.cons s.cur)).fct (s.ent s.cur (s.cons s.cur)).arg).2.2
    rw [← hws k1, ← hw0] at hsh
    obtain ⟨s1, s2, s3⟩ := hsh hwf hwm
    have k31 : rget c (s.mq s.cur) s.ri = (s.ent s.cur (s.cons s.cur)).ws.getD 1 0#64 := by
      rw [hri]; exact k3 1 (by omega)
    exact ⟨k1, hlt, by omega, hw0, k31, hwf, hwm⟩
  case h_3.itReady =>
    rename_i hg x w0 w1 heq
    intro f p _ hfp; injection hfp with hf hp'; subst hf; subst hp'
    obtain ⟨k1, hlt, hri, hw0, hw1, hwf, hwm⟩ := htwo w0 w1 heq
    obtain ⟨_, k2, k3⟩ := key hlt
    have hsh := (enc1_shape (s.loAt s.cur (s.cons s.cur)) (s.ent s.cur (s.cons s.cur)).fct (s.ent s.cur (s.cons s.cur)).arg).2.2
    rw [← hws k1, ← hw0] at hsh
    obtain ⟨s1, s2, s3⟩ := hsh hwf hwm
    have k32 : rget c (s.mq s.cur) s.ri = (s.ent s.cur (s.cons s.cur)).ws.getD 2 0#64 := by
      rw [hri]; exact k3 2 (by omega)
    exact ⟨k1, hlt, by omega, by rw [hw1, s2], by rw [k32, s3]⟩

theorem o_rLd (c : Cfg) (hc : c.WF) {s s' : State} (h : Inv c s) 
    (st : step c s (.rLd) = some s') : InvO c s' := by
  dpre <;> openO <;> dgo?
theorem e_rLd (c : Cfg) (hc : c.WF) {s s' : State} (h : Inv c s) 
    (st : step c s (.rLd) = some s') : InvE c s' := by
  dpre <;> openE <;> dgo?
theorem g_rLd (c : Cfg) (hc : c.WF) {s s' : State} (h : Inv c s) 
    (st : step c s (.rLd) = some s') : InvG c s' := by
  dpre <;> openG <;> dgo?
theorem inv_rLd (c : Cfg) (hc : c.WF) {s s' : State} (h : Inv c s) 
    (st : step c s (.rLd) = some s') : Inv c s' :=
  ⟨o_rLd c hc h  st, e_rLd c hc h  st, r_rLd c hc h  st, g_rLd c hc h  st⟩


end UrcuVerif.DeferConc
