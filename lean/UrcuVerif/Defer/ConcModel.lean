import UrcuVerif.Machine.Upd
import UrcuVerif.Defer.Model
/-!
# C13, concurrent part — `defer_rcu` owner vs. runners at single-access granularity on x86-TSO

L2 proof model of `src/urcu-defer-impl.h` (DESIGN §10.2).  One step per shared-memory access that
matters:

* **owner `t`** (`_defer_rcu`): load `tail` (possibly stale), threshold test
  `head - tail >= SIZE - 2` (→ flush the own queue as a runner, then `assert(head - tail == 0)`),
  one step per `q[head++ & MASK] = w` store – the store enters the owner's FIFO store buffer –,
  `wmb` + store of `head` (buffered behind the `q[]` stores), `cmm_smp_mb()` (enabled only when the
  buffer is empty).  `flushQ` / `flushH` are the environment steps that commit the oldest buffered
  store; a `head` store can be committed only when no `q[]` store is pending (FIFO).
* **runner** = the holder of `rcu_defer_mutex` (the defer thread's `rcu_defer_barrier()`, an
  application thread's `rcu_defer_barrier()`, `rcu_defer_barrier_thread()` – also from the
  full-queue path of `_defer_rcu` and from unregister): lock (locked RMW: own buffer empty);
  per queue one load of `head` from MEMORY (`last_head`); `synchronize_rcu()` as an abstract
  `GpSpec` step; per queue `i = tail`, then one step per load of `q[i++ & MASK]` from MEMORY,
  one step per invocation, `cmm_smp_mb()` + store of `tail` (through the runner's store buffer:
  `tpend`, committed by `flushT`, at the latest by the unlock).
* readers: outermost lock / unlock with ghost begin times (GpSpec).

The order in which a barrier visits the queues is left open (any duplicate-free sequence: a
superset of the registry order of the C code).  `oRealloc` = unregister + register of an idle
thread with an empty queue (new ring with arbitrary content).

Ghost state (never read by a guard): the logical clock; per owner the log of words issued
(`wlen`, `wat`), the entry table indexed by the free-running index of an entry's first word
(`est`, `ent`), the decoder state expected at each entry boundary (`loAt`), the sequence number of
the call starting at a boundary (`seqAt`), the index of the first word not yet consumed by an
invocation (`cons`), the log of calls queued and of invocations.

`Cfg.tailLate = false` / the flags are NOT configurations of the code: they exist for the
necessity witnesses in `Neg/C13.lean`.
-/
namespace UrcuVerif.DeferConc
open UrcuVerif.Defer (enc1 dec1 isFct clrFct fctMark Call Invk)

structure Cfg where
  /-- `DEFER_QUEUE_SIZE` -/
  size : Nat
  /-- number of reader threads (arbitrary) -/
  nr : Nat
  /-- `true` (the code): `tail` is stored after the callbacks of the batch have run;
  `false`: stored right after it was read (necessity witness only) -/
  tailLate : Bool := true
  deriving Repr, DecidableEq

/-- the compiled queue size, any number of readers -/
def Cfg.real (nr : Nat) : Cfg := { size := Gen.DEFER_QUEUE_SIZE, nr := nr }

/-- what the proofs need: room for one 3-slot entry below the `size - 2` threshold (the mask
arithmetic of the C code additionally needs a power of two: `Defer.ring_index_wrap`) -/
def Cfg.WF (c : Cfg) : Prop := 4 ≤ c.size ∧ c.tailLate = true

/-- `q[i & MASK]` (load) -/
def rget (c : Cfg) (q : Array (BitVec 64)) (i : Nat) : BitVec 64 := q.getD (i % c.size) 0#64
/-- `q[i & MASK] = v` (store reaching memory) -/
def rset (c : Cfg) (q : Array (BitVec 64)) (i : Nat) (v : BitVec 64) : Array (BitVec 64) :=
  q.setIfInBounds (i % c.size) v

/-- ghost: one queued call and its encoding -/
structure Ent where
  fct : BitVec 64
  arg : BitVec 64
  time : Nat
  ws : List (BitVec 64)
  deriving DecidableEq, Repr, Inhabited

inductive OPc
  | idle      -- outside `_defer_rcu`
  | full      -- threshold reached: `rcu_defer_barrier_thread()` to be run
  | flushed   -- back from it: `assert(head - tail == 0)` next
  | stq       -- storing the words of the entry, then `head`
  | mb        -- `head` stored; `cmm_smp_mb()` next
  deriving DecidableEq, Repr

inductive RPc | snap | gpwait | run | iter
  deriving DecidableEq, Repr

/-- progress of one iteration of the loop of `rcu_defer_barrier_queue()` -/
inductive RIt
  | top
  | one (w0 : BitVec 64)
  | two (w0 w1 : BitVec 64)
  | ready (f p : BitVec 64)
  deriving DecidableEq, Repr

inductive RKind | barrier | own
  deriving DecidableEq, Repr

structure State where
  -- owner t: TLS `struct defer_queue` as the owner sees it, registers, store buffer
  opc : Nat → OPc
  af : Nat → BitVec 64
  ap : Nat → BitVec 64
  pendW : Nat → List (BitVec 64)          -- words of the current entry still to be stored
  otl : Nat → Nat                          -- the (possibly stale) `tail` the owner loaded
  lastIn : Nat → BitVec 64
  head : Nat → Nat                         -- `.head` as the owner sees it (its latest store)
  bq : Nat → List (Nat × BitVec 64)        -- buffered `q[]` stores, oldest first: (free-running index, word)
  bh : Nat → Option Nat                    -- buffered `head` store (always behind every `bq` entry)
  -- shared memory
  mhead : Nat → Nat
  tail : Nat → Nat
  mq : Nat → Array (BitVec 64)
  lastOut : Nat → BitVec 64
  -- the holder of rcu_defer_mutex
  lock : Option Nat
  rk : RKind
  rpc : RPc
  todo : List Nat                          -- queues still to be run (current one first)
  snap : Nat → Nat                         -- `last_head` / local `head` of the pass
  cur : Nat
  ri : Nat
  rit : RIt
  gpStart : Nat
  tpend : Option (Nat × Nat)               -- runner's buffered `tail` store (queue, value)
  -- readers, clock, assertion failures
  cs : Nat → Option Nat
  clock : Nat
  abort : Bool
  -- ghost
  wlen : Nat → Nat
  wat : Nat → Nat → BitVec 64
  est : Nat → Nat → Bool
  ent : Nat → Nat → Ent
  loAt : Nat → Nat → BitVec 64
  seqAt : Nat → Nat → Nat
  cons : Nat → Nat
  queued : Nat → List Call
  invoked : Nat → List Invk

def init (c : Cfg) : State :=
  { opc := fun _ => .idle, af := fun _ => 0#64, ap := fun _ => 0#64, pendW := fun _ => [], otl := fun _ => 0,
    lastIn := fun _ => 0#64, head := fun _ => 0, bq := fun _ => [], bh := fun _ => none,
    mhead := fun _ => 0, tail := fun _ => 0, mq := fun _ => Array.replicate c.size 0#64, lastOut := fun _ => 0#64,
    lock := none, rk := .barrier, rpc := .snap, todo := [], snap := fun _ => 0, cur := 0, ri := 0, rit := .top,
    gpStart := 0, tpend := none, cs := fun _ => none, clock := 1, abort := false,
    wlen := fun _ => 0, wat := fun _ _ => 0#64, est := fun _ _ => false, ent := fun _ _ => default,
    loAt := fun _ _ => 0#64, seqAt := fun _ _ => 0, cons := fun _ => 0, queued := fun _ => [], invoked := fun _ => [] }

inductive Label
  | oCall (t : Nat) (f p : BitVec 64)    -- `_defer_rcu(f, p)`: load tail, threshold test, encode
  | oPostFlush (t : Nat)                 -- after the own flush: load tail, assert empty, encode
  | oStQ (t : Nat)                       -- `q[head++ & MASK] = w` (into the store buffer)
  | oStHead (t : Nat)                    -- `wmb; head = head` (into the store buffer)
  | oMb (t : Nat)                        -- `cmm_smp_mb()`
  | flushQ (t : Nat) | flushH (t : Nat)  -- store buffer commits
  | oRealloc (t : Nat) (g : Array (BitVec 64))
  | rLock (who : Nat) (k : RKind)
  | rSnap (t : Nat)                      -- `index->last_head = load(&index->head)`
  | rSkip                                -- nothing queued: unlock without a grace period
  | rGpCall | rGp                        -- `synchronize_rcu()` called / returns
  | rBegin                               -- `rcu_defer_barrier_queue`: `i = queue->tail`
  | rLd                                  -- `rmb; p = load(&q[i++ & MASK])`
  | rInvoke                              -- `fct(p)`
  | rEnd                                 -- `mb; store(&queue->tail, i)`
  | flushT
  | rUnlock
  | rdLock (i : Nat) | rdUnlock (i : Nat)
  deriving DecidableEq, Repr

/-- update of a two-level ghost table -/
def upd2 {α} (f : Nat → Nat → α) (t x : Nat) (v : α) : Nat → Nat → α :=
  fun t' x' => if t' = t ∧ x' = x then v else f t' x'

/-- ghost: the words of a new entry of owner `t` at indices `H, H+1, …` -/
def watWrite (wat : Nat → Nat → BitVec 64) (t H : Nat) (ws : List (BitVec 64)) : Nat → Nat → BitVec 64 :=
  fun t' j => if t' = t ∧ H ≤ j ∧ j < H + ws.length then ws.getD (j - H) 0#64 else wat t' j

/-- `_defer_rcu` from the encode on: decide the words, record the call (ghost) -/
def mkEntry (s : State) (t : Nat) (f p : BitVec 64) : State :=
  let e := enc1 (s.lastIn t) f p
  let H := s.wlen t
  { s with pendW := upd s.pendW t e.1, lastIn := upd s.lastIn t e.2, opc := upd s.opc t .stq,
           wat := watWrite s.wat t H e.1,
           est := upd2 s.est t H true,
           ent := upd2 s.ent t H ⟨f, p, s.clock, e.1⟩,
           loAt := upd2 s.loAt t (H + e.1.length) e.2,
           seqAt := upd2 s.seqAt t (H + e.1.length) ((s.queued t).length + 1),
           queued := upd s.queued t (s.queued t ++ [⟨f, p, s.clock⟩]) }

/-- release of the mutex: a thread that flushed from `_defer_rcu` continues there -/
def unlockBy (s : State) (who : Nat) : State :=
  { s with lock := none, todo := [], opc := fun t => if t = who ∧ s.opc who = .full then .flushed else s.opc t }

def tick (s : State) : State := { s with clock := s.clock + 1 }

/-- one step; `none` = not enabled -/
def step (c : Cfg) (s : State) : Label → Option State
  | .oCall t f p =>
    if s.opc t = .idle ∧ s.lock ≠ some t ∧ s.abort = false then
      let tl := s.tail t
      if c.size - 2 ≤ s.head t - tl then
        if s.head t - tl ≤ c.size then
          some (tick { s with opc := upd s.opc t .full, af := upd s.af t f, ap := upd s.ap t p, otl := upd s.otl t tl })
        else some (tick { s with abort := true })
      else some (tick (mkEntry { s with otl := upd s.otl t tl } t f p))
    else none
  | .oPostFlush t =>
    if s.opc t = .flushed ∧ s.abort = false then
      let tl := s.tail t
      if s.head t - tl = 0 then some (tick (mkEntry { s with otl := upd s.otl t tl } t (s.af t) (s.ap t)))
      else some (tick { s with abort := true })
    else none
  | .oStQ t =>
    if s.opc t = .stq then
      match s.pendW t with
      | w :: ws =>
        some (tick { s with bq := upd s.bq t (s.bq t ++ [(s.wlen t, w)]), wlen := upd s.wlen t (s.wlen t + 1),
                            pendW := upd s.pendW t ws })
      | [] => none
    else none
  | .oStHead t =>
    if s.opc t = .stq ∧ s.pendW t = [] then
      some (tick { s with bh := upd s.bh t (some (s.wlen t)), head := upd s.head t (s.wlen t), opc := upd s.opc t .mb })
    else none
  | .oMb t =>
    if s.opc t = .mb ∧ s.bq t = [] ∧ s.bh t = none then some (tick { s with opc := upd s.opc t .idle }) else none
  | .flushQ t =>
    match s.bq t with
    | (i, w) :: r => some (tick { s with mq := upd s.mq t (rset c (s.mq t) i w), bq := upd s.bq t r })
    | [] => none
  | .flushH t =>
    match s.bh t with
    | some v => if s.bq t = [] then some (tick { s with mhead := upd s.mhead t v, bh := upd s.bh t none }) else none
    | none => none
  | .oRealloc t g =>
    if s.opc t = .idle ∧ s.lock = none ∧ s.tail t = s.head t ∧ g.size = c.size then
      some (tick { s with mq := upd s.mq t g })
    else none
  | .rLock who k =>
    if s.lock = none ∧ s.abort = false ∧ s.bq who = [] ∧ s.bh who = none ∧
        (s.opc who = .idle ∨ (k = .own ∧ s.opc who = .full)) then
      some (tick { s with lock := some who, rk := k, rpc := .snap, rit := .top,
                          todo := if k = .own then [who] else [],
                          snap := if k = .own then upd s.snap who (s.head who) else s.snap })
    else none
  | .rSnap t =>
    if s.lock.isSome ∧ s.rpc = .snap ∧ s.rk = .barrier ∧ t ∉ s.todo then
      some (tick { s with todo := s.todo ++ [t], snap := upd s.snap t (s.mhead t) })
    else none
  | .rSkip =>
    match s.lock with
    | some who =>
      if s.rpc = .snap ∧ (∀ t, t ∈ s.todo → s.snap t = s.tail t) then some (tick (unlockBy s who)) else none
    | none => none
  | .rGpCall =>
    if s.lock.isSome ∧ s.rpc = .snap ∧ (∃ t, t ∈ s.todo ∧ s.snap t ≠ s.tail t) then
      some (tick { s with rpc := .gpwait, gpStart := s.clock })
    else none
  | .rGp =>
    if s.lock.isSome ∧ s.rpc = .gpwait ∧ (∀ i, i < c.nr → ∀ b, s.cs i = some b → s.gpStart ≤ b) then
      some (tick { s with rpc := .run })
    else none
  | .rBegin =>
    match s.todo with
    | t :: _ =>
      if s.lock.isSome ∧ s.rpc = .run ∧ (c.tailLate = false → s.tpend = none) then
        some (tick { s with cur := t, ri := s.tail t, rit := .top, rpc := .iter,
                            tpend := if c.tailLate then s.tpend else some (t, s.snap t) })
      else none
    | [] => none
  | .rLd =>
    if s.lock.isSome ∧ s.rpc = .iter then
      let t := s.cur
      let w := rget c (s.mq t) s.ri
      match s.rit with
      | .top =>
        if s.ri ≠ s.snap t then
          some (tick { s with ri := s.ri + 1,
                              rit := if isFct w then .one w else if w == fctMark then .one w else .ready (s.lastOut t) w })
        else none
      | .one w0 =>
        some (tick { s with ri := s.ri + 1, rit := if isFct w0 then .ready (clrFct w0) w else .two w0 w })
      | .two _ w1 => some (tick { s with ri := s.ri + 1, rit := .ready w1 w })
      | .ready _ _ => none
    else none
  | .rInvoke =>
    if s.lock.isSome ∧ s.rpc = .iter then
      match s.rit with
      | .ready f p =>
        some (tick { s with lastOut := upd s.lastOut s.cur f, rit := .top, cons := upd s.cons s.cur s.ri,
                            invoked := upd s.invoked s.cur (s.invoked s.cur ++ [⟨f, p, s.clock⟩]) })
      | _ => none
    else none
  | .rEnd =>
    if s.lock.isSome ∧ s.rpc = .iter ∧ s.rit = .top ∧ s.ri = s.snap s.cur ∧ (c.tailLate = true → s.tpend = none) then
      some (tick { s with rpc := .run, todo := s.todo.tail,
                          tpend := if c.tailLate then some (s.cur, s.ri) else s.tpend })
    else none
  | .flushT =>
    match s.tpend with
    | some (t, v) => some (tick { s with tail := upd s.tail t v, tpend := none })
    | none => none
  | .rUnlock =>
    match s.lock with
    | some who => if s.rpc = .run ∧ s.todo = [] ∧ s.tpend = none then some (tick (unlockBy s who)) else none
    | none => none
  | .rdLock i =>
    if i < c.nr ∧ s.cs i = none then some (tick { s with cs := upd s.cs i (some s.clock) }) else none
  | .rdUnlock i =>
    if (s.cs i).isSome then some (tick { s with cs := upd s.cs i none }) else none

inductive Reach (c : Cfg) : State → Prop
  | init : Reach c (init c)
  | step {s s' l} : Reach c s → step c s l = some s' → Reach c s'

def run (c : Cfg) : State → List Label → Option State
  | s, [] => some s
  | s, l :: ls => match step c s l with
    | none => none
    | some s' => run c s' ls

end UrcuVerif.DeferConc
