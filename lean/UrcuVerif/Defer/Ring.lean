import UrcuVerif.Defer.Codec
/-!
# C13 — the per-thread ring of `struct defer_queue`

`q[]` has `size` slots (`DEFER_QUEUE_SIZE`), indexed by the free-running counters `head` / `tail`
masked with `size − 1`.  In the model the counters are unbounded `Nat`s and the slot index is
`i % size`; `ring_index_wrap` (Props/C13.lean) shows that this is what the 64-bit C arithmetic
(`i & DEFER_QUEUE_MASK`, `head - tail`, `i++`, `i != head`) computes, also across the 2^64 wrap.

* `writeWords` – the `q[head++ & MASK] = w` stores of `_defer_rcu()`;
* `runLoop`   – the loop of `rcu_defer_barrier_queue()` from `tail` to the snapshot `head`.
-/
namespace UrcuVerif.Defer

/-- Configuration quantifiers of the model. -/
structure Cfg where
  /-- `DEFER_QUEUE_SIZE` -/
  size : Nat
  /-- `true`: `rcu_defer_unregister_thread()` resets `last_head` (current source);
  `false`: the source before commit "fix: let a thread register for defer_rcu again…" -/
  fixed : Bool := true
  deriving Repr, DecidableEq

/-- the configuration compiled into the library -/
def Cfg.real : Cfg := { size := Gen.DEFER_QUEUE_SIZE }

/-- what the proofs need of the queue size: a power of two (for the mask and the 2^64 wrap),
at least 4 (room for one 3-slot entry below the `size − 2` threshold), less than 2^64 -/
def Cfg.WF (c : Cfg) : Prop := ∃ k, c.size = 2 ^ k ∧ 2 ≤ k ∧ k < 64

theorem Cfg.real_wf : Cfg.real.WF :=
  ⟨Nat.log2 Gen.DEFER_QUEUE_SIZE, DEFER_QUEUE_SIZE_pow2, by decide +kernel, by decide +kernel⟩
theorem Cfg.real_mask : Gen.DEFER_QUEUE_MASK = Cfg.real.size - 1 := by decide

theorem Cfg.WF.ge4 {c : Cfg} (h : c.WF) : 4 ≤ c.size := by
  obtain ⟨k, hk, h2, -⟩ := h
  have : 2 ^ 2 ≤ 2 ^ k := Nat.pow_le_pow_right (by decide) h2
  omega

/-- `q[i & MASK]` (load) -/
def rget (c : Cfg) (q : Array (BitVec 64)) (i : Nat) : BitVec 64 := q.getD (i % c.size) 0#64
/-- `q[i & MASK] = v` (store) -/
def rset (c : Cfg) (q : Array (BitVec 64)) (i : Nat) (v : BitVec 64) : Array (BitVec 64) :=
  q.setIfInBounds (i % c.size) v

/-- the `n` words stored from position `i` on -/
def ringWords (c : Cfg) (q : Array (BitVec 64)) : Nat → Nat → List (BitVec 64)
  | _, 0 => []
  | i, n+1 => rget c q i :: ringWords c q (i+1) n

/-- `_defer_rcu()`: store the words of one entry at `head`, `head+1`, … -/
def writeWords (c : Cfg) : Array (BitVec 64) → Nat → List (BitVec 64) → Array (BitVec 64)
  | q, _, [] => q
  | q, i, w :: ws => writeWords c (rset c q i w) (i+1) ws

/-- `rcu_defer_barrier_queue(queue, head)`: decode and "invoke" from `i` until `i == head`.
Returns the final `i` (stored to `tail`), the final `last_fct_out` and the calls in invocation
order; `none` when `i` steps over `head` (the C loop would run on into stale slots). -/
def runLoop (c : Cfg) (q : Array (BitVec 64)) :
    Nat → Nat → Nat → BitVec 64 → Option (Nat × BitVec 64 × List (BitVec 64 × BitVec 64))
  | 0, i, head, lo => if i = head then some (i, lo, []) else none
  | fuel+1, i, head, lo =>
    if i = head then some (i, lo, []) else
    let d := dec1 lo (rget c q i) (rget c q (i+1)) (rget c q (i+2))
    match runLoop c q fuel (i + d.n) head d.fct with
    | some (i', lo', cs) => some (i', lo', (d.fct, d.arg) :: cs)
    | none => none

/-! ## lemmas -/

theorem rset_size (c : Cfg) (q : Array (BitVec 64)) (i : Nat) (v : BitVec 64) :
    (rset c q i v).size = q.size := by simp [rset]

theorem writeWords_size (c : Cfg) (q : Array (BitVec 64)) (i : Nat) (ws : List (BitVec 64)) :
    (writeWords c q i ws).size = q.size := by
  induction ws generalizing q i with
  | nil => rfl
  | cons w ws ih => simp [writeWords, ih, rset_size]

theorem rget_rset (c : Cfg) (q : Array (BitVec 64)) (hq : q.size = c.size) (hs : 0 < c.size)
    (i j : Nat) (v : BitVec 64) :
    rget c (rset c q i v) j = if i % c.size = j % c.size then v else rget c q j := by
  have hi : i % c.size < q.size := by rw [hq]; exact Nat.mod_lt _ hs
  unfold rget rset
  simp only [Array.getD_eq_getD_getElem?, Array.getElem?_setIfInBounds]
  split
  · simp
  · rfl

theorem mod_ne_of_lt {s i j : Nat} (h1 : j < i) (h2 : i - j < s) : i % s ≠ j % s := by
  intro h
  have : (i - j) % s = 0 := Nat.sub_mod_eq_zero_of_mod_eq h
  have := Nat.mod_eq_of_lt h2
  omega

theorem ringWords_length (c : Cfg) (q : Array (BitVec 64)) (i n : Nat) :
    (ringWords c q i n).length = n := by
  induction n generalizing i with
  | zero => rfl
  | succ n ih => simp [ringWords, ih]

theorem ringWords_add (c : Cfg) (q : Array (BitVec 64)) (i n m : Nat) :
    ringWords c q i (n + m) = ringWords c q i n ++ ringWords c q (i + n) m := by
  induction n generalizing i with
  | zero => simp [ringWords]
  | succ n ih =>
    have : n + 1 + m = (n + m) + 1 := by omega
    rw [this]
    simp only [ringWords, ih, List.cons_append]
    congr 3; omega

/-- slots outside the written window keep their value -/
theorem rget_writeWords_frame (c : Cfg) (q : Array (BitVec 64)) (hq : q.size = c.size)
    (h j : Nat) (ws : List (BitVec 64)) (h1 : j < h) (h2 : h + ws.length ≤ j + c.size) :
    rget c (writeWords c q h ws) j = rget c q j := by
  induction ws generalizing q h with
  | nil => rfl
  | cons w ws ih =>
    simp only [List.length_cons] at h2
    simp only [writeWords]
    rw [ih (rset c q h w) (by simp [rset_size, hq]) (h+1) (by omega) (by omega)]
    rw [rget_rset c q hq (by omega)]
    have := mod_ne_of_lt (s := c.size) h1 (by omega)
    simp [this]

theorem ringWords_writeWords_frame (c : Cfg) (q : Array (BitVec 64)) (hq : q.size = c.size)
    (h t n : Nat) (ws : List (BitVec 64)) (h1 : t + n ≤ h) (h2 : h + ws.length ≤ t + c.size) :
    ringWords c (writeWords c q h ws) t n = ringWords c q t n := by
  induction n generalizing t with
  | zero => rfl
  | succ n ih =>
    simp only [ringWords]
    rw [ih (t+1) (by omega) (by omega), rget_writeWords_frame c q hq h t ws (by omega) (by omega)]

/-- the written window reads back as written -/
theorem ringWords_writeWords_same (c : Cfg) (q : Array (BitVec 64)) (hq : q.size = c.size)
    (h : Nat) (ws : List (BitVec 64)) (hl : ws.length ≤ c.size) :
    ringWords c (writeWords c q h ws) h ws.length = ws := by
  induction ws generalizing q h with
  | nil => rfl
  | cons w ws ih =>
    simp only [List.length_cons] at hl
    simp only [writeWords, List.length_cons, ringWords]
    rw [ih (rset c q h w) (by simp [rset_size, hq]) (h+1) (by omega)]
    rw [rget_writeWords_frame c _ (by simp [rset_size, hq]) (h+1) h ws (by omega) (by omega)]
    rw [rget_rset c q hq (by omega)]
    simp

theorem runLoop_step (c : Cfg) (q : Array (BitVec 64)) (fuel i head : Nat) (lo : BitVec 64)
    (d : Dec) (hne : i ≠ head)
    (hd : dec1 lo (rget c q i) (rget c q (i+1)) (rget c q (i+2)) = d)
    {r : Nat × BitVec 64 × List (BitVec 64 × BitVec 64)}
    (hr : runLoop c q fuel (i + d.n) head d.fct = some r) :
    runLoop c q (fuel+1) i head lo = some (r.1, r.2.1, (d.fct, d.arg) :: r.2.2) := by
  simp only [runLoop, hne, if_false, hd, hr]

/-- the decoder's view of one encoded entry lying in the ring at `i` -/
theorem dec1_ring (c : Cfg) (q : Array (BitVec 64)) (i : Nat) (lo f p : BitVec 64)
    (h : ringWords c q i (enc1 lo f p).1.length = (enc1 lo f p).1) :
    dec1 lo (rget c q i) (rget c q (i+1)) (rget c q (i+2)) = ⟨(enc1 lo f p).1.length, f, p⟩ := by
  rcases enc1_cases lo f p with ⟨e, rfl, h1, h2⟩ | ⟨e, h1⟩ | e
  · simp only [e, List.length_cons, List.length_nil, ringWords, List.cons.injEq, and_true] at h ⊢
    simp [dec1, h, h1, h2]
  · simp only [e, List.length_cons, List.length_nil, ringWords, List.cons.injEq, and_true] at h ⊢
    simp [dec1, h.1, h.2, isFct_setFct, clrFct_setFct h1]
  · simp only [e, List.length_cons, List.length_nil, ringWords, List.cons.injEq, and_true] at h ⊢
    have a1 : i + 1 + 1 = i + 2 := by omega
    rw [a1] at h
    simp [dec1, h.1, h.2.1, h.2.2, isFct_fctMark]

/-- **Ring decoding**: if the slots from `i` on hold the encoding of `xs` (relative to
`last_fct_out = lo`), the loop of `rcu_defer_barrier_queue` invokes exactly `xs`, in order, stops
exactly at the end of the encoding and leaves `last_fct_out` equal to the encoder's state. -/
theorem runLoop_encode (c : Cfg) (q : Array (BitVec 64)) (xs : List (BitVec 64 × BitVec 64)) :
    ∀ (fuel i : Nat) (lo : BitVec 64), xs.length ≤ fuel →
      ringWords c q i (encode lo xs).length = encode lo xs →
      runLoop c q fuel i (i + (encode lo xs).length) lo
        = some (i + (encode lo xs).length, encState lo xs, xs) := by
  induction xs with
  | nil => intro fuel i lo _ _; cases fuel <;> simp [encode, encState, runLoop]
  | cons x xs ih =>
    obtain ⟨f, p⟩ := x
    intro fuel i lo hf hr
    match fuel, hf with
    | fuel+1, hf =>
      have hpos := enc1_length_pos lo f p
      have e2 := enc1_snd lo f p
      simp only [encode, List.length_append] at hr ⊢
      rw [ringWords_add] at hr
      have hr1 := List.append_inj_left hr (by simp [ringWords_length])
      have hr2 := List.append_inj_right hr (by simp [ringWords_length])
      rw [e2] at hr2 ⊢
      have ih' := ih fuel (i + (enc1 lo f p).1.length) f (by simpa using hf) hr2
      have hd := dec1_ring c q i lo f p hr1
      have := runLoop_step c q fuel i (i + ((enc1 lo f p).1.length + (encode f xs).length)) lo _
        (by omega) hd (r := (i + (enc1 lo f p).1.length + (encode f xs).length, encState f xs, xs))
        (by rw [← ih']; congr 1; omega)
      rw [this]
      simp only [encState, e2]
      congr 2; omega

end UrcuVerif.Defer
