import UrcuVerif.Gen.Constants
/-!
# C13 — the defer_rcu queue encoding (`src/urcu-defer-impl.h`), pure part

Words are `BitVec 64` (pointers / `unsigned long`).  The flag bit and the marker come from the
generated constants (`DQ_FCT_BIT`, `DQ_FCT_MARK`); the side conditions the proofs need are
re-proved about the generated values on every run (`fctBit_eq_one`, `fctMark_eq`, …).

* `enc1` / `encode` – the three-way case analysis of `_defer_rcu()` driven by `last_fct_in`;
* `dec1` – one iteration of the loop of `rcu_defer_barrier_queue()` driven by `last_fct_out`
  (shared by the stream decoder here and by the ring decoder in `Ring.lean`);
* `decode` – stream form of that loop.
-/
namespace UrcuVerif.Defer

/-- `DQ_FCT_BIT` as a machine word. -/
def fctBit : BitVec 64 := BitVec.ofNat 64 Gen.DQ_FCT_BIT
/-- `DQ_FCT_MARK` as a machine word. -/
def fctMark : BitVec 64 := BitVec.ofNat 64 Gen.DQ_FCT_MARK

/-! ## side conditions on the generated constants (fail the build if the source changes them) -/

theorem DQ_FCT_BIT_eq_one : Gen.DQ_FCT_BIT = 1 := by decide
theorem DQ_FCT_MARK_even : Gen.DQ_FCT_MARK % 2 = 0 := by decide
theorem DQ_FCT_MARK_lt : Gen.DQ_FCT_MARK < 2 ^ 64 := by decide
/-- `DEFER_QUEUE_SIZE` is a power of two ("Must be power of 2") -/
theorem DEFER_QUEUE_SIZE_pow2 : Gen.DEFER_QUEUE_SIZE = 2 ^ Nat.log2 Gen.DEFER_QUEUE_SIZE := by decide +kernel
theorem DEFER_QUEUE_SIZE_ge4 : 4 ≤ Gen.DEFER_QUEUE_SIZE := by decide
theorem DEFER_QUEUE_MASK_eq : Gen.DEFER_QUEUE_MASK = Gen.DEFER_QUEUE_SIZE - 1 := by decide
theorem fctBit_eq_one : fctBit = 1#64 := by decide
/-- `DQ_FCT_MARK == ~DQ_FCT_BIT` ("Required for the test order"). -/
theorem fctMark_eq : fctMark = ~~~fctBit := by decide
theorem fctBit_ne_zero : fctBit ≠ 0#64 := by decide

/-! ## the codec -/

/-- `DQ_IS_FCT_BIT(x)` -/
def isFct (w : BitVec 64) : Bool := (w &&& fctBit) != 0#64
/-- `DQ_SET_FCT_BIT(x)` -/
def setFct (w : BitVec 64) : BitVec 64 := w ||| fctBit
/-- `DQ_CLEAR_FCT_BIT(x)` -/
def clrFct (w : BitVec 64) : BitVec 64 := w &&& ~~~fctBit

/-- `_defer_rcu`: the words stored for one `(fct, p)` given `last_fct_in`, and the new
`last_fct_in`. -/
def enc1 (last f p : BitVec 64) : List (BitVec 64) × BitVec 64 :=
  if last != f || isFct p || p == fctMark then
    if isFct f || f == fctMark then ([fctMark, f, p], f) else ([setFct f, p], f)
  else ([p], last)

/-- words of a whole sequence of calls, starting with `last_fct_in = last` -/
def encode : BitVec 64 → List (BitVec 64 × BitVec 64) → List (BitVec 64)
  | _, [] => []
  | last, (f, p) :: xs => (enc1 last f p).1 ++ encode (enc1 last f p).2 xs

/-- `last_fct_in` after a whole sequence of calls -/
def encState : BitVec 64 → List (BitVec 64 × BitVec 64) → BitVec 64
  | last, [] => last
  | last, (f, p) :: xs => encState (enc1 last f p).2 xs

/-- Result of one iteration of the decoding loop: slots consumed, the function called (also the new
`last_fct_out`) and its argument. -/
structure Dec where
  n : Nat
  fct : BitVec 64
  arg : BitVec 64
  deriving DecidableEq, Repr

/-- One iteration of `rcu_defer_barrier_queue()`'s loop: `w0` is `q[i]`, `w1`,`w2` the next two
slots (read only in the branches that use them). -/
def dec1 (lastOut w0 w1 w2 : BitVec 64) : Dec :=
  if isFct w0 then ⟨2, clrFct w0, w1⟩
  else if w0 == fctMark then ⟨3, w1, w2⟩
  else ⟨1, lastOut, w0⟩

/-- Stream form of the decoding loop (`fuel` ≥ number of calls). -/
def decode : Nat → BitVec 64 → List (BitVec 64) → List (BitVec 64 × BitVec 64)
  | 0, _, _ => []
  | _, _, [] => []
  | n+1, last, w :: ws =>
    let d := dec1 last w (ws.getD 0 0#64) (ws.getD 1 0#64)
    (d.fct, d.arg) :: decode n d.fct (ws.drop (d.n - 1))

/-! ## lemmas -/

theorem isFct_setFct (f : BitVec 64) : isFct (setFct f) = true := by
  have h : (f ||| fctBit) &&& fctBit = fctBit := by
    ext i hi; simp; intro h; exact Or.inr h
  simp [isFct, setFct, h, fctBit_ne_zero]

theorem clrFct_setFct {f : BitVec 64} (h : isFct f = false) : clrFct (setFct f) = f := by
  have h0 : f &&& fctBit = 0#64 := by simpa [isFct] using h
  unfold clrFct setFct
  ext i hi
  have := congrArg (fun x => x[i]) h0
  simp at this
  simp
  grind

theorem isFct_fctMark : isFct fctMark = false := by
  have : ~~~fctBit &&& fctBit = 0#64 := by ext i hi; simp
  simp [isFct, fctMark_eq, this]

theorem enc1_snd (last f p : BitVec 64) : (enc1 last f p).2 = f := by
  unfold enc1
  split
  · split <;> rfl
  · simp_all

theorem enc1_length_pos (last f p : BitVec 64) : 0 < (enc1 last f p).1.length := by
  unfold enc1; split <;> (try split) <;> simp

theorem enc1_length_le (last f p : BitVec 64) : (enc1 last f p).1.length ≤ 3 := by
  unfold enc1; split <;> (try split) <;> simp

/-- The three shapes of an entry, with what the decoder does on each. -/
theorem enc1_cases (last f p : BitVec 64) :
    ((enc1 last f p).1 = [p] ∧ last = f ∧ isFct p = false ∧ (p == fctMark) = false) ∨
    ((enc1 last f p).1 = [setFct f, p] ∧ isFct f = false) ∨
    ((enc1 last f p).1 = [fctMark, f, p]) := by
  unfold enc1
  by_cases h1 : (last != f || isFct p || p == fctMark) = true
  · by_cases h2 : (isFct f || f == fctMark) = true
    · simp [h1, h2]
    · have : isFct f = false ∧ (f == fctMark) = false := by simp_all
      simp [h1, this]
  · have : isFct p = false ∧ (p == fctMark) = false ∧ last = f := by simp_all
    simp [this]

/-- one queued call decodes to itself, whatever follows, and whatever lies in the slots the
decoder does not use -/
theorem dec1_enc1 (last f p a b : BitVec 64) :
    let ws := (enc1 last f p).1 ++ [a, b]
    dec1 last (ws.getD 0 0#64) (ws.getD 1 0#64) (ws.getD 2 0#64) = ⟨(enc1 last f p).1.length, f, p⟩ := by
  intro ws
  rcases enc1_cases last f p with ⟨h, rfl, h1, h2⟩ | ⟨h, h1⟩ | h
  · simp [ws, h, dec1, h1, h2]
  · simp [ws, h, dec1, isFct_setFct, clrFct_setFct h1]
  · simp [ws, h, dec1, isFct_fctMark]

theorem encode_append (last : BitVec 64) (xs ys : List (BitVec 64 × BitVec 64)) :
    encode last (xs ++ ys) = encode last xs ++ encode (encState last xs) ys := by
  induction xs generalizing last with
  | nil => simp [encode, encState]
  | cons x xs ih => obtain ⟨f, p⟩ := x; simp [encode, encState, ih]

theorem encState_append (last : BitVec 64) (xs ys : List (BitVec 64 × BitVec 64)) :
    encState last (xs ++ ys) = encState (encState last xs) ys := by
  induction xs generalizing last with
  | nil => simp [encState]
  | cons x xs ih => obtain ⟨f, p⟩ := x; simp [encState, ih]

theorem length_le_encode (last : BitVec 64) (xs : List (BitVec 64 × BitVec 64)) :
    xs.length ≤ (encode last xs).length := by
  induction xs generalizing last with
  | nil => simp [encode]
  | cons x xs ih =>
    obtain ⟨f, p⟩ := x
    have := enc1_length_pos last f p
    have := ih (enc1 last f p).2
    simp [encode]; omega

theorem encode_length_le (last : BitVec 64) (xs : List (BitVec 64 × BitVec 64)) :
    (encode last xs).length ≤ 3 * xs.length := by
  induction xs generalizing last with
  | nil => simp [encode]
  | cons x xs ih =>
    obtain ⟨f, p⟩ := x
    have := enc1_length_le last f p
    have := ih (enc1 last f p).2
    simp [encode]; omega

theorem encode_eq_nil {last : BitVec 64} {xs : List (BitVec 64 × BitVec 64)}
    (h : (encode last xs).length = 0) : xs = [] := by
  have := length_le_encode last xs
  exact List.eq_nil_of_length_eq_zero (by omega)

/-- **Stream round trip**: decoding the encoding of any sequence of calls returns the sequence,
for every `last_fct` start value shared by both sides. -/
theorem decode_encode (xs : List (BitVec 64 × BitVec 64)) :
    ∀ (last : BitVec 64) (n : Nat), xs.length ≤ n → decode n last (encode last xs) = xs := by
  induction xs with
  | nil => intro last n _; cases n <;> simp [encode, decode]
  | cons x xs ih =>
    obtain ⟨f, p⟩ := x
    intro last n hn
    match n, hn with
    | n+1, hn =>
      have key := dec1_enc1 last f p
      rcases enc1_cases last f p with ⟨h, rfl, h1, h2⟩ | ⟨h, h1⟩ | h
      · have e2 := enc1_snd last last p
        simp only [encode, h, e2] at *
        simp [decode, dec1, h1, h2, ih last n (by simpa using hn)]
      · have e2 := enc1_snd last f p
        simp only [encode, h, e2] at *
        simp [decode, dec1, isFct_setFct, clrFct_setFct h1, ih f n (by simpa using hn)]
      · have e2 := enc1_snd last f p
        simp only [encode, h, e2] at *
        simp [decode, dec1, isFct_fctMark, ih f n (by simpa using hn)]

end UrcuVerif.Defer
