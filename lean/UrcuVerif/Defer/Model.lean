import UrcuVerif.Machine.Upd
import UrcuVerif.Defer.Ring
/-!
# C13 — defer_rcu (`src/urcu-defer-impl.h`): executable model at the level of operation sequences

Every API call of a thread and every pass of the background reclaimer takes `rcu_defer_mutex`
for its whole body, so each is atomic with respect to the others.  The two exceptions are kept
as separate steps:

* the owner's lock-free enqueue in `_defer_rcu()` (`enq`), which may run while another thread
  holds the mutex – in particular between a reclaimer's snapshot of `head` and its execution of
  the batch;
* `synchronize_rcu()` inside a barrier, which is not atomic with respect to readers and
  enqueuers.  A barrier is therefore three steps: `…Snapshot` (lock; read `head` of the queues
  concerned; nothing queued ⇒ unlock and return without a grace period; otherwise call
  `synchronize_rcu()`), `gp` (the grace period completes – abstract `GpSpec`: enabled only when
  every read-side section that began before the call has ended) and `…Run` (decode and invoke
  `[tail, snapshot)` of each queue, publish `tail`, unlock).

`defer_rcu(f,p)` is `enq`, preceded by `flushSnapshot; gp; flushRun` of the caller's own queue when
`enq` answers `full` (the `head - tail >= DEFER_QUEUE_SIZE - 2` rule).

The asserts of the C code are explicit `abort` outcomes.  Ghost state: logical clock, per thread
the list of calls ever queued (with queue time) and the list of invocations (with time), the
number of queued calls covered by the snapshot in progress, readers' open sections.
-/
namespace UrcuVerif.Defer

/-- ghost: one `defer_rcu(fct, arg)` call and the time it was queued -/
structure Call where
  fct : BitVec 64
  arg : BitVec 64
  time : Nat
  deriving Repr, DecidableEq

/-- ghost: one invocation `fct(arg)` by a barrier, and when -/
structure Invk where
  fct : BitVec 64
  arg : BitVec 64
  time : Nat
  deriving Repr, DecidableEq

/-- `struct defer_queue` of one thread (TLS) plus ghost logs -/
structure TState where
  head : Nat              -- free-running; the C word is `head mod 2^64`
  tail : Nat
  lastIn : BitVec 64      -- last_fct_in
  lastOut : BitVec 64     -- last_fct_out
  lastHead : Nat          -- last_head (registry information, written by rcu_defer_barrier)
  q : Array (BitVec 64)   -- `#[]` = NULL
  queuedR : List Call     -- ghost: calls ever queued by this thread, NEWEST FIRST (see `TState.queued`)
  invoked : List Invk     -- ghost
  snapQ : Nat             -- ghost: `queued.length` at the snapshot of the barrier in progress
  deriving Repr, DecidableEq

/-- ghost: the calls ever queued by the thread, in queueing order -/
def TState.queued (x : TState) : List Call := x.queuedR.reverse

/-- who holds `rcu_defer_mutex` across a grace period -/
inductive Holder
  | barrier (who : Option Nat)      -- rcu_defer_barrier() by thread `who` (`none`: the reclaimer thread)
  | flush (t : Nat) (snap : Nat)    -- rcu_defer_barrier_thread() by `t`, local `head` = snap
  | unreg (t : Nat) (snap : Nat)    -- rcu_defer_unregister_thread() by `t`
  deriving Repr, DecidableEq

def Holder.thread : Holder → Option Nat
  | .barrier w => w
  | .flush t _ => some t
  | .unreg t _ => some t

structure Lock where
  holder : Holder
  gpStart : Nat      -- ghost: time synchronize_rcu() was called
  gpDone : Bool      -- synchronize_rcu() has returned
  deriving Repr, DecidableEq

structure State where
  th : Nat → TState
  registry : List Nat           -- registry_defer, in list order (cds_list_add = cons)
  lock : Option Lock            -- rcu_defer_mutex (+ defer_thread_mutex for (un)register)
  clock : Nat                   -- ghost
  cs : Nat → Option Nat         -- ghost: begin time of reader i's open section

/-- Initial state: all-zero TLS, except that `head = tail = h0 t` may start anywhere (the C
initial value is 0; the generalisation covers counters that have run for a long time). -/
def init (h0 : Nat → Nat) : State :=
  { th := fun t => { head := h0 t, tail := h0 t, lastIn := 0#64, lastOut := 0#64, lastHead := 0,
                     q := #[], queuedR := [], invoked := [], snapQ := 0 },
    registry := [], lock := none, clock := 1, cs := fun _ => none }

inductive Abort
  | lastHead     -- urcu_posix_assert(last_head == 0) in register
  | qNotNull     -- urcu_posix_assert(q == NULL) in register
  | occupancy    -- urcu_posix_assert(head - tail <= DEFER_QUEUE_SIZE) in _defer_rcu
  | overrun      -- rcu_defer_barrier_queue's `i` stepped over `head` (wild run)
  deriving Repr, DecidableEq

inductive Skip
  | emptyRegistry   -- rcu_defer_barrier(): cds_list_empty(&registry_defer)
  | noItems         -- num_items == 0: no grace period
  deriving Repr, DecidableEq

inductive Op
  | reg (t : Nat) (g : Array (BitVec 64))  -- rcu_defer_register_thread(); `g` = content of the malloc'ed block
  | unregBegin (t : Nat) | unregEnd (t : Nat)     -- rcu_defer_unregister_thread()
  | barrierSnapshot (who : Option Nat) | barrierRun   -- rcu_defer_barrier() / reclaimer pass
  | flushSnapshot (t : Nat) | flushRun (t : Nat)  -- rcu_defer_barrier_thread() (also from _defer_rcu when full)
  | gp                                            -- the holder's synchronize_rcu() returns
  | enq (t : Nat) (f p : BitVec 64)               -- _defer_rcu(f, p) from the threshold test on
  | rlock (i : Nat) | runlock (i : Nat)           -- reader i: outermost rcu_read_lock / unlock
  deriving Repr, DecidableEq

inductive Out
  | unit
  | abort (a : Abort)
  | registered (startThread : Bool)
  | skipped (why : Skip)
  | snapshot                                        -- mutex held, synchronize_rcu() called
  | ran (calls : List (Nat × BitVec 64 × BitVec 64))  -- invocations in order: (queue owner, fct, arg)
  | unregistered (calls : List (Nat × BitVec 64 × BitVec 64)) (stopThread : Bool)
  | enqueued (words : List (BitVec 64))             -- words stored at old head, old head+1, …
  | full                                            -- threshold reached: flush own queue first
  deriving Repr, DecidableEq

/-- `head - tail >= DEFER_QUEUE_SIZE - 2` -/
def needFlush (c : Cfg) (x : TState) : Bool := decide (c.size - 2 ≤ x.head - x.tail)

/-- the stores of `_defer_rcu()` after the threshold test -/
def enqT (c : Cfg) (x : TState) (f p : BitVec 64) (now : Nat) : TState × List (BitVec 64) :=
  let e := enc1 x.lastIn f p
  ({ x with q := writeWords c x.q x.head e.1, head := x.head + e.1.length, lastIn := e.2,
            queuedR := ⟨f, p, now⟩ :: x.queuedR }, e.1)

/-- `rcu_defer_barrier_queue(x, snap)` -/
def runQ (c : Cfg) (x : TState) (snap now : Nat) : Option (TState × List (BitVec 64 × BitVec 64)) :=
  match runLoop c x.q (snap - x.tail) x.tail snap x.lastOut with
  | none => none
  | some (i, lo, cs) =>
    some ({ x with tail := i, lastOut := lo,
                   invoked := x.invoked ++ cs.map fun fp => ⟨fp.1, fp.2, now⟩ }, cs)

/-- total version used for the per-queue part of `rcu_defer_barrier()` -/
def runT (c : Cfg) (x : TState) (snap now : Nat) : TState × List (BitVec 64 × BitVec 64) :=
  match runQ c x snap now with
  | some r => r
  | none => (x, [])

/-- `index->last_head = index->head` for every registered queue -/
def snapTh (th : Nat → TState) (registry : List Nat) : Nat → TState := fun t =>
  if t ∈ registry then { th t with lastHead := (th t).head, snapQ := (th t).queuedR.length } else th t

/-- `num_items` of `rcu_defer_barrier()` -/
def numItems (th : Nat → TState) (registry : List Nat) : Nat :=
  (registry.map fun t => (th t).lastHead - (th t).tail).sum

def tick (s : State) : State := { s with clock := s.clock + 1 }

/-- `free(q); q = NULL; last_head = 0` of unregister -/
def unregT (c : Cfg) (x : TState) : TState :=
  { x with q := #[], lastHead := if c.fixed then 0 else x.lastHead }

/-- One step; `n` = number of reader threads (arbitrary); `none` = not enabled (blocked on the
mutex, or outside the API contract: enqueue/unregister by an unregistered thread). -/
def step (c : Cfg) (n : Nat) (s : State) : Op → Option (State × Out)
  | .reg t g =>
    if s.lock.isSome then none else
    if g.size ≠ c.size then none else
    let x := s.th t
    if x.lastHead ≠ 0 then some (s, .abort .lastHead) else
    if x.q.size ≠ 0 then some (s, .abort .qNotNull) else
    some (tick { s with th := upd s.th t { x with q := g }, registry := t :: s.registry },
          .registered s.registry.isEmpty)
  | .unregBegin t =>
    if s.lock.isSome then none else
    if t ∉ s.registry then none else
    let x := s.th t
    let reg' := s.registry.erase t
    if x.head = x.tail then
      some (tick { s with th := upd s.th t (unregT c x), registry := reg' }, .unregistered [] reg'.isEmpty)
    else
      some (tick { s with th := upd s.th t { x with snapQ := x.queuedR.length }, registry := reg',
                          lock := some ⟨.unreg t x.head, s.clock, false⟩ }, .snapshot)
  | .unregEnd t =>
    match s.lock with
    | some ⟨.unreg t' snap, _, true⟩ =>
      if t' ≠ t then none else
      match runQ c (s.th t) snap s.clock with
      | none => some (s, .abort .overrun)
      | some (x', cs) =>
        some (tick { s with th := upd s.th t (unregT c x'), lock := none },
              .unregistered (cs.map fun fp => (t, fp.1, fp.2)) s.registry.isEmpty)
    | _ => none
  | .barrierSnapshot who =>
    if s.registry = [] then some (tick s, .skipped .emptyRegistry) else
    if s.lock.isSome then none else
    let th' := snapTh s.th s.registry
    if numItems th' s.registry = 0 then some (tick { s with th := th' }, .skipped .noItems)
    else some (tick { s with th := th', lock := some ⟨.barrier who, s.clock, false⟩ }, .snapshot)
  | .barrierRun =>
    match s.lock with
    | some ⟨.barrier _, _, true⟩ =>
      if s.registry.all fun t => (runQ c (s.th t) (s.th t).lastHead s.clock).isSome then
        let th' : Nat → TState := fun t =>
          if t ∈ s.registry then (runT c (s.th t) (s.th t).lastHead s.clock).1 else s.th t
        let out := s.registry.flatMap fun t =>
          (runT c (s.th t) (s.th t).lastHead s.clock).2.map fun fp => (t, fp.1, fp.2)
        some (tick { s with th := th', lock := none }, .ran out)
      else some (s, .abort .overrun)
    | _ => none
  | .flushSnapshot t =>
    if s.lock.isSome then none else
    let x := s.th t
    if x.head = x.tail then some (tick s, .skipped .noItems)
    else some (tick { s with th := upd s.th t { x with snapQ := x.queuedR.length },
                             lock := some ⟨.flush t x.head, s.clock, false⟩ }, .snapshot)
  | .flushRun t =>
    match s.lock with
    | some ⟨.flush t' snap, _, true⟩ =>
      if t' ≠ t then none else
      match runQ c (s.th t) snap s.clock with
      | none => some (s, .abort .overrun)
      | some (x', cs) =>
        some (tick { s with th := upd s.th t x', lock := none }, .ran (cs.map fun fp => (t, fp.1, fp.2)))
    | _ => none
  | .gp =>
    match s.lock with
    | some ⟨h, a, false⟩ =>
      -- GpSpec: every section that began before synchronize_rcu() was called has ended
      if (∀ i, i < n → ∀ b, s.cs i = some b → a ≤ b) then
        some (tick { s with lock := some ⟨h, a, true⟩ }, .unit)
      else none
    | _ => none
  | .enq t f p =>
    if (s.lock.bind fun l => l.holder.thread) = some t then none else
    let x := s.th t
    if x.q.size = 0 then none else
    if needFlush c x then
      if x.head - x.tail ≤ c.size then some (s, .full) else some (s, .abort .occupancy)
    else
      let r := enqT c x f p s.clock
      some (tick { s with th := upd s.th t r.1 }, .enqueued r.2)
  | .rlock i =>
    if n ≤ i then none else
    match s.cs i with
    | none => some (tick { s with cs := upd s.cs i (some s.clock) }, .unit)
    | some _ => none
  | .runlock i =>
    match s.cs i with
    | some _ => some (tick { s with cs := upd s.cs i none }, .unit)
    | none => none

/-- run a list of operations, collecting the outputs (`none` if one is not enabled) -/
def runOps (c : Cfg) (n : Nat) : State → List Op → Option (State × List Out)
  | s, [] => some (s, [])
  | s, op :: ops =>
    match step c n s op with
    | none => none
    | some (s', o) => (runOps c n s' ops).map fun r => (r.1, o :: r.2)

end UrcuVerif.Defer
