import UrcuVerif.Defer.ConcModel
/-!
Inductive invariant of the concurrent defer_rcu model (`ConcModel.lean`): definition, helper
lemmas, initial state.  One lemma per label in `ConcStepO.lean` (owner side) and
`ConcStepR.lean` (runner side); the statements of the property are in `Props/C13Conc.lean`.
-/
set_option linter.unusedSimpArgs false
set_option linter.unusedVariables false
namespace UrcuVerif.DeferConc
open UrcuVerif
open UrcuVerif.Defer (enc1 dec1 isFct clrFct setFct fctMark Call Invk)

def Call.pair (c : Call) : BitVec 64 × BitVec 64 := (c.fct, c.arg)
def Invk.pair (c : Invk) : BitVec 64 × BitVec 64 := (c.fct, c.arg)

/-! ## ring lemmas -/

theorem rget_rset (c : Cfg) (q : Array (BitVec 64)) (hq : q.size = c.size) (hs : 0 < c.size)
    (i j : Nat) (v : BitVec 64) :
    rget c (rset c q i v) j = if i % c.size = j % c.size then v else rget c q j := by
  have hi : i % c.size < q.size := by rw [hq]; exact Nat.mod_lt _ hs
  unfold rget rset
  simp only [Array.getD_eq_getD_getElem?, Array.getElem?_setIfInBounds]
  split
  · simp
  · rfl

theorem rset_size (c : Cfg) (q : Array (BitVec 64)) (i : Nat) (v : BitVec 64) :
    (rset c q i v).size = q.size := by simp [rset]

/-- a store to index `i` does not touch any other index of a window of at most `size` indices -/
theorem rget_rset_ne (c : Cfg) (q : Array (BitVec 64)) (hq : q.size = c.size) (hs : 0 < c.size)
    (i j : Nat) (v : BitVec 64) (hne : i ≠ j) (h1 : i < j + c.size) (h2 : j < i + c.size) :
    rget c (rset c q i v) j = rget c q j := by
  rw [rget_rset c q hq hs]
  have : i % c.size ≠ j % c.size := by
    rcases Nat.lt_or_gt_of_ne hne with h | h
    · exact fun e => Defer.mod_ne_of_lt (s := c.size) h (by omega) e.symm
    · exact Defer.mod_ne_of_lt (s := c.size) h (by omega)
  simp [this]

theorem rget_rset_same (c : Cfg) (q : Array (BitVec 64)) (hq : q.size = c.size) (hs : 0 < c.size)
    (i : Nat) (v : BitVec 64) : rget c (rset c q i v) i = v := by
  rw [rget_rset c q hq hs]; simp

/-! ## the invariant -/

/-- owner side: program counters, store buffer shape, index order, occupancy, memory content -/
structure InvO (c : Cfg) (s : State) : Prop where
  noAbort : s.abort = false
  mqSize : ∀ t, (s.mq t).size = c.size
  idleBuf : ∀ t, (s.opc t = .idle ∨ s.opc t = .full ∨ s.opc t = .flushed) →
    s.bq t = [] ∧ s.bh t = none ∧ s.pendW t = [] ∧ s.head t = s.wlen t
  stqBuf : ∀ t, s.opc t = .stq → s.bh t = none
  mbBuf : ∀ t, s.opc t = .mb → s.pendW t = [] ∧ s.head t = s.wlen t
  bhVal : ∀ t v, s.bh t = some v → v = s.head t
  bhNone : ∀ t, s.bh t = none → s.mhead t = s.head t
  /-- the buffered `q[]` stores are exactly the last words issued, in order -/
  bqIdx : ∀ t k i w, (s.bq t)[k]? = some (i, w) → i + (s.bq t).length = s.wlen t + k ∧ w = s.wat t i
  ord1 : ∀ t, s.tail t ≤ s.mhead t
  ord2 : ∀ t, s.mhead t ≤ s.head t
  ord3 : ∀ t, s.head t ≤ s.wlen t
  ordB : ∀ t, s.mhead t + (s.bq t).length ≤ s.wlen t
  /-- the owner's copy of `tail` is stale only in the safe direction -/
  otlLe : ∀ t, s.otl t ≤ s.tail t
  /-- the `SIZE - 2` rule: everything issued or about to be issued fits behind the owner's `tail` -/
  room : ∀ t, s.wlen t + (s.pendW t).length ≤ s.otl t + c.size
  /-- every index from `tail` on whose store has left the buffer holds the word issued for it -/
  mem : ∀ t j, s.tail t ≤ j → j + (s.bq t).length < s.wlen t → rget c (s.mq t) j = s.wat t j
  pend : ∀ t m, m < (s.pendW t).length → (s.pendW t).getD m 0#64 = s.wat t (s.wlen t + m)
  tailCons : ∀ t, s.tail t ≤ s.cons t
  consLe : ∀ t, s.cons t ≤ s.mhead t
  /-- back from the own flush the queue is empty (the assertion of `_defer_rcu` holds) -/
  flushedEmpty : ∀ t, s.opc t = .flushed → s.tail t = s.head t

/-- ghost entry table: structure of the word log from the first unconsumed word on -/
structure InvE (c : Cfg) (s : State) : Prop where
  estStart : ∀ t, s.cons t < s.wlen t + (s.pendW t).length → s.est t (s.cons t) = true
  eWs : ∀ t x, s.est t x = true → s.cons t ≤ x →
    (s.ent t x).ws = (enc1 (s.loAt t x) (s.ent t x).fct (s.ent t x).arg).1
  eEnd : ∀ t x, s.est t x = true → s.cons t ≤ x →
    x + (s.ent t x).ws.length ≤ s.wlen t + (s.pendW t).length
  eNext : ∀ t x, s.est t x = true → s.cons t ≤ x →
    x + (s.ent t x).ws.length < s.wlen t + (s.pendW t).length → s.est t (x + (s.ent t x).ws.length) = true
  eLo : ∀ t x, s.est t x = true → s.cons t ≤ x → s.loAt t (x + (s.ent t x).ws.length) = (s.ent t x).fct
  eSeq : ∀ t x, s.est t x = true → s.cons t ≤ x →
    s.seqAt t (x + (s.ent t x).ws.length) = s.seqAt t x + 1
  eQ : ∀ t x, s.est t x = true → s.cons t ≤ x →
    (s.queued t)[s.seqAt t x]? = some ⟨(s.ent t x).fct, (s.ent t x).arg, (s.ent t x).time⟩
  eWat : ∀ t x, s.est t x = true → s.cons t ≤ x → ∀ m, m < (s.ent t x).ws.length →
    s.wat t (x + m) = (s.ent t x).ws.getD m 0#64
  eTime : ∀ t x, s.est t x = true → s.cons t ≤ x → (s.ent t x).time < s.clock
  loEnd : ∀ t, s.loAt t (s.wlen t + (s.pendW t).length) = s.lastIn t
  seqEnd : ∀ t, s.seqAt t (s.wlen t + (s.pendW t).length) = (s.queued t).length
  loCons : ∀ t, s.lastOut t = s.loAt t (s.cons t)
  seqCons : ∀ t, s.seqAt t (s.cons t) = (s.invoked t).length
  order : ∀ t, (s.invoked t).map Invk.pair = ((s.queued t).take (s.invoked t).length).map Call.pair
  /-- published heads cover whole entries -/
  headBd : ∀ t x, s.est t x = true → s.cons t ≤ x → x < s.head t → x + (s.ent t x).ws.length ≤ s.head t
  mheadBd : ∀ t x, s.est t x = true → s.cons t ≤ x → x < s.mhead t → x + (s.ent t x).ws.length ≤ s.mhead t

/-- the holder of the mutex -/
structure InvR (c : Cfg) (s : State) : Prop where
  lockTodo : s.lock = none → s.todo = [] ∧ s.tpend = none ∧ s.rpc ≠ .iter ∧ s.rpc ≠ .gpwait
  nodup : s.todo.Nodup
  tpendP : ∀ q v, s.tpend = some (q, v) → q ∉ s.todo ∧ s.cons q = v ∧ s.lock ≠ none
  consIdle : ∀ t, ¬ (s.rpc = .iter ∧ s.cur = t) → (∀ v, s.tpend ≠ some (t, v)) → s.cons t = s.tail t
  snapBd : ∀ t, t ∈ s.todo → ∀ x, s.est t x = true → s.cons t ≤ x → x < s.snap t →
    x + (s.ent t x).ws.length ≤ s.snap t
  snapLe : ∀ t, t ∈ s.todo → s.snap t ≤ s.mhead t ∧ s.cons t ≤ s.snap t
  iterHead : s.rpc = .iter → s.todo.head? = some s.cur
  /-- a thread flushing from `_defer_rcu` runs its own queue up to its own `head` -/
  fullLock : ∀ who, s.lock = some who → s.opc who = .full →
    s.rk = .own ∧ ((who ∈ s.todo ∧ s.snap who = s.head who) ∨ (who ∉ s.todo ∧ s.cons who = s.head who))
  snapPend : s.rpc = .snap → s.tpend = none
  itTop : s.rpc = .iter → s.rit = .top → s.ri = s.cons s.cur
  itOne : ∀ w0, s.rpc = .iter → s.rit = .one w0 →
    s.est s.cur (s.cons s.cur) = true ∧ s.cons s.cur < s.snap s.cur ∧ s.ri = s.cons s.cur + 1 ∧
    w0 = (s.ent s.cur (s.cons s.cur)).ws.getD 0 0#64 ∧ (isFct w0 = true ∨ (w0 == fctMark) = true)
  itTwo : ∀ w0 w1, s.rpc = .iter → s.rit = .two w0 w1 →
    s.est s.cur (s.cons s.cur) = true ∧ s.cons s.cur < s.snap s.cur ∧ s.ri = s.cons s.cur + 2 ∧
    w0 = (s.ent s.cur (s.cons s.cur)).ws.getD 0 0#64 ∧ w1 = (s.ent s.cur (s.cons s.cur)).ws.getD 1 0#64 ∧
    isFct w0 = false ∧ (w0 == fctMark) = true
  itReady : ∀ f p, s.rpc = .iter → s.rit = .ready f p →
    s.est s.cur (s.cons s.cur) = true ∧ s.cons s.cur < s.snap s.cur ∧
    s.ri = s.cons s.cur + (s.ent s.cur (s.cons s.cur)).ws.length ∧
    f = (s.ent s.cur (s.cons s.cur)).fct ∧ p = (s.ent s.cur (s.cons s.cur)).arg

/-- grace period bookkeeping (GpSpec) -/
structure InvG (c : Cfg) (s : State) : Prop where
  csP : ∀ i b, s.cs i = some b → i < c.nr ∧ b < s.clock
  gpClk : (s.rpc = .gpwait ∨ s.rpc = .run ∨ s.rpc = .iter) → s.gpStart < s.clock
  /-- every call covered by a snapshot of the pass was queued before its grace period started -/
  gpT : (s.rpc = .gpwait ∨ s.rpc = .run ∨ s.rpc = .iter) → ∀ t, t ∈ s.todo → ∀ x, s.est t x = true →
    s.cons t ≤ x → x < s.snap t → (s.ent t x).time < s.gpStart
  /-- after `synchronize_rcu()` returned every open section began after it was called -/
  gpCs : (s.rpc = .run ∨ s.rpc = .iter) → ∀ i b, s.cs i = some b → s.gpStart ≤ b

structure Inv (c : Cfg) (s : State) : Prop where
  o : InvO c s
  e : InvE c s
  r : InvR c s
  g : InvG c s

theorem inv_init (c : Cfg) : Inv c (init c) := by
  refine ⟨?_, ?_, ?_, ?_⟩ <;> constructor <;> simp [init]

/-! ## small facts used by the step lemmas -/

theorem enc1_len_pos (lo f p : BitVec 64) : 1 ≤ (enc1 lo f p).1.length := Defer.enc1_length_pos lo f p
theorem enc1_len_le (lo f p : BitVec 64) : (enc1 lo f p).1.length ≤ 3 := Defer.enc1_length_le lo f p

/-- every entry has at least one word -/
theorem ent_len_pos {c s} (I : InvE c s) (t x : Nat) (h1 : s.est t x = true) (h2 : s.cons t ≤ x) :
    1 ≤ (s.ent t x).ws.length := by
  rw [I.eWs t x h1 h2]; exact enc1_len_pos _ _ _

theorem ent_len_le {c s} (I : InvE c s) (t x : Nat) (h1 : s.est t x = true) (h2 : s.cons t ≤ x) :
    (s.ent t x).ws.length ≤ 3 := by
  rw [I.eWs t x h1 h2]; exact enc1_len_le _ _ _

/-- a live entry start lies below the end of the log -/
theorem est_lt_total {c s} (I : InvE c s) (t x : Nat) (h1 : s.est t x = true) (h2 : s.cons t ≤ x) :
    x < s.wlen t + (s.pendW t).length := by
  have := ent_len_pos I t x h1 h2
  have := I.eEnd t x h1 h2
  omega

end UrcuVerif.DeferConc
