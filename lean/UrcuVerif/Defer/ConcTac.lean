import UrcuVerif.Defer.ConcInv
/-! Tactic macros shared by the step lemmas of the concurrent defer_rcu model. -/
namespace UrcuVerif.DeferConc

set_option hygiene false in
/-- unfold `step` for the label at hand, split its guards, substitute the post-state -/
macro "dpre" : tactic => `(tactic| (
  simp only [step] at st
  (repeat' split at st)
  all_goals (first | (simp at st; done) | skip)
  all_goals (simp only [Option.some.injEq] at st; subst st)))

set_option hygiene false in
macro "openO" : tactic => `(tactic| (
  obtain ⟨o1, o2, o3, o4, o5, o6, o7, o8, o9, o10, o11, o12, o13, o14, o15, o16, o17, o18, o19⟩ := h.o))
set_option hygiene false in
macro "openE" : tactic => `(tactic| (
  obtain ⟨e1, e2, e3, e4, e5, e6, e7, e8, e9, e10, e11, e12, e13, e14, e15, e16⟩ := h.e))
set_option hygiene false in
macro "openR" : tactic => `(tactic| (
  obtain ⟨r1, r2, r3, r4, r5, r6, r7, r8, r9, r10, r11, r12, r13⟩ := h.r))
set_option hygiene false in
macro "openG" : tactic => `(tactic| (obtain ⟨g1, g2, g3, g4⟩ := h.g))

set_option hygiene false in
/-- one clause per goal; untouched clauses are closed by `assumption` -/
macro "dgo" : tactic => `(tactic| (
  clear h; constructor <;> (try simp only [upd, upd2, watWrite, tick, unlockBy, mkEntry, List.tail_cons, Option.some.injEq, Prod.mk.injEq]) <;> (first | assumption | grind)))

set_option hygiene false in
/-- like `dgo` but leaves the clauses `grind` cannot close -/
macro "dgo?" : tactic => `(tactic| (
  clear h; constructor <;> (try simp only [upd, upd2, watWrite, tick, unlockBy, mkEntry, List.tail_cons, Option.some.injEq, Prod.mk.injEq]) <;> (first | assumption | grind | skip)))

end UrcuVerif.DeferConc
