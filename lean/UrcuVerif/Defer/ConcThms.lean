import UrcuVerif.Defer.ConcStepO
import UrcuVerif.Defer.ConcStepR
/-! The invariant of the concurrent defer_rcu model holds in every reachable state. -/
namespace UrcuVerif.DeferConc

theorem inv_step (c : Cfg) (hc : c.WF) {s s' : State} {l : Label} (h : Inv c s)
    (st : step c s l = some s') : Inv c s' := by
  cases l with
  | oCall t f p => exact inv_oCall c hc h t f p st
  | oPostFlush t => exact inv_oPostFlush c hc h t st
  | oStQ t => exact inv_oStQ c hc h t st
  | oStHead t => exact inv_oStHead c hc h t st
  | oMb t => exact inv_oMb c hc h t st
  | flushQ t => exact inv_flushQ c hc h t st
  | flushH t => exact inv_flushH c hc h t st
  | oRealloc t g => exact inv_oRealloc c hc h t g st
  | rLock who k => exact inv_rLock c hc h who k st
  | rSnap t => exact inv_rSnap c hc h t st
  | rSkip => exact inv_rSkip c hc h st
  | rGpCall => exact inv_rGpCall c hc h st
  | rGp => exact inv_rGp c hc h st
  | rBegin => exact inv_rBegin c hc h st
  | rLd => exact inv_rLd c hc h st
  | rInvoke => exact inv_rInvoke c hc h st
  | rEnd => exact inv_rEnd c hc h st
  | flushT => exact inv_flushT c hc h st
  | rUnlock => exact inv_rUnlock c hc h st
  | rdLock i => exact inv_rdLock c hc h i st
  | rdUnlock i => exact inv_rdUnlock c hc h i st

theorem inv_reach (c : Cfg) (hc : c.WF) {s : State} (h : Reach c s) : Inv c s := by
  induction h with
  | init => exact inv_init c
  | step _ st ih => exact inv_step c hc ih st

theorem reach_run (c : Cfg) (ls : List Label) : ∀ {s s'}, Reach c s → run c s ls = some s' → Reach c s' := by
  induction ls with
  | nil => intro s s' h e; simp only [run, Option.some.injEq] at e; subst e; exact h
  | cons l ls ih =>
    intro s s' h e
    simp only [run] at e
    split at e
    · cases e
    · rename_i s1 h1; exact ih (h.step h1) e

end UrcuVerif.DeferConc
