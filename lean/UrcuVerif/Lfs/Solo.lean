import UrcuVerif.Lfs.Thms
/-!
C17 facets of the lfstack model: solo runs (all other threads frozen wherever they are) of the
lock-free push and pop terminate within a constant number of own steps; a cmpxchg can fail only
because another thread changed `head` since this thread last read it.
-/
set_option linter.unusedVariables false
namespace UrcuVerif.Lfs
open Lifo

def ownNext (s : State) (t : Nat) : Option Label :=
  match s.pc t with
  | .idle => none
  | .pushSt _ _ => some (.pushSt t)
  | .pushCas _ _ => if s.buf t = [] then some (.pushCas t) else some (.flush t)
  | .popLd => some (.popLd t)
  | .popLdN _ => some (.popLdN t)
  | .popCas _ _ => if s.buf t = [] then some (.popCas t) else some (.flush t)

def solo (c : Cfg) (t : Nat) : Nat → State → Option State
  | 0, s => some s
  | k+1, s =>
    match ownNext s t with
    | none => some s
    | some l =>
      match step c s l with
      | none => none
      | some s' => solo c t k s'

theorem solo_measure (c : Cfg) (t : Nat) (μ : State → Nat) (P : State → Prop)
    (hstep : ∀ s, P s → s.pc t ≠ .idle →
      ∃ l s', ownNext s t = some l ∧ step c s l = some s' ∧ P s' ∧ μ s' < μ s) :
    ∀ n s, P s → μ s ≤ n → ∃ k s', k ≤ n ∧ solo c t k s = some s' ∧ s'.pc t = .idle ∧ P s' := by
  intro n
  induction n with
  | zero =>
    intro s hP hμ
    by_cases hi : s.pc t = .idle
    · exact ⟨0, s, Nat.le_refl _, rfl, hi, hP⟩
    · obtain ⟨l, s', _, _, _, hlt⟩ := hstep s hP hi
      omega
  | succ n ih =>
    intro s hP hμ
    by_cases hi : s.pc t = .idle
    · exact ⟨0, s, Nat.zero_le _, rfl, hi, hP⟩
    · obtain ⟨l, s', h1, h2, h3, hlt⟩ := hstep s hP hi
      obtain ⟨k, s'', hk, hs, hi', hP'⟩ := ih s' h3 (by omega)
      exact ⟨k + 1, s'', by omega, by simp [solo, h1, h2, hs], hi', hP'⟩

/-! enabledness and effect of own steps -/

theorem en_pushSt (c : Cfg) {s : State} {t n h0 : Nat} (hp : s.pc t = .pushSt n h0) :
    ∃ s', step c s (.pushSt t) = some s' ∧ s'.pc t = .pushCas n h0 ∧ s'.head = s.head ∧
      s'.buf t = s.buf t ++ [(n, h0)] := by
  simp [step, hp]

theorem en_flush (c : Cfg) {s : State} {t : Nat} {e rest} (hb : s.buf t = e :: rest) :
    ∃ s', step c s (.flush t) = some s' ∧ s'.pc t = s.pc t ∧ s'.buf t = rest ∧ s'.head = s.head := by
  obtain ⟨a, v⟩ := e
  simp [step, hb]

/-- **a cmpxchg fails only by interference** (push): it succeeds iff `head` still has the value
this thread last read; on failure the value read by the cmpxchg becomes the new guess -/
theorem en_pushCas (c : Cfg) {s : State} {t n h0 : Nat} (hp : s.pc t = .pushCas n h0) (hb : s.buf t = []) :
    ∃ s', step c s (.pushCas t) = some s' ∧ s'.buf t = [] ∧
      ((s.head = h0 ∧ s'.pc t = .idle ∧ s'.ret t = .flag (h0 != 0) ∧ s'.head = n) ∨
       (s.head ≠ h0 ∧ s'.pc t = .pushSt n s.head ∧ s'.head = s.head)) := by
  by_cases he : s.head = h0 <;> simp [step, hp, hb, he]

theorem en_popLd (c : Cfg) {s : State} {t : Nat} (hp : s.pc t = .popLd) :
    ∃ s', step c s (.popLd t) = some s' ∧ s'.buf t = s.buf t ∧ s'.head = s.head ∧
      ((s.head = 0 ∧ s'.pc t = .idle ∧ s'.ret t = .null) ∨ (s.head ≠ 0 ∧ s'.pc t = .popLdN s.head)) := by
  by_cases he : s.head = 0 <;> simp [step, hp, he]

theorem en_popLdN (c : Cfg) {s : State} {t h0 : Nat} (hp : s.pc t = .popLdN h0) :
    ∃ s', step c s (.popLdN t) = some s' ∧ s'.buf t = s.buf t ∧ s'.head = s.head ∧
      s'.pc t = .popCas h0 (rd s t h0) := by
  simp [step, hp]

/-- **a cmpxchg fails only by interference** (pop) -/
theorem en_popCas (c : Cfg) {s : State} {t h0 nx : Nat} (hp : s.pc t = .popCas h0 nx) (hb : s.buf t = []) :
    ∃ s', step c s (.popCas t) = some s' ∧ s'.buf t = [] ∧
      ((s.head = h0 ∧ s'.pc t = .idle ∧ s'.ret t = .node h0) ∨
       (s.head ≠ h0 ∧ s'.pc t = .popLd ∧ s'.head = s.head)) := by
  by_cases he : s.head = h0 <;> simp [step, hp, hb, he]

/-- remaining own steps of a push, all other threads frozen -/
def pushMu (s : State) (t : Nat) : Nat :=
  match s.pc t with
  | .pushSt _ h => if s.head = h then 3 else 6
  | .pushCas _ h => (s.buf t).length + (if s.head = h then 1 else 4)
  | _ => 0

def pushP (c : Cfg) (t : Nat) (s : State) : Prop :=
  Reach c s ∧ ((∃ n h, s.pc t = .pushSt n h ∧ s.buf t = []) ∨ (∃ n h, s.pc t = .pushCas n h ∧ (s.buf t).length ≤ 1) ∨
               (s.pc t = .idle ∧ ∃ b, s.ret t = .flag b))

theorem push_own_step (c : Cfg) (t : Nat) (s : State) (hP : pushP c t s) (hi : s.pc t ≠ .idle) :
    ∃ l s', ownNext s t = some l ∧ step c s l = some s' ∧ pushP c t s' ∧ pushMu s' t < pushMu s t := by
  obtain ⟨hr, hpc⟩ := hP
  rcases hpc with ⟨n, h0, hp, hb⟩ | ⟨n, h0, hp, hb⟩ | ⟨hp, _⟩
  · obtain ⟨s', hst, h1, h2, h3⟩ := en_pushSt c hp
    refine ⟨.pushSt t, s', by simp [ownNext, hp], hst, ⟨Reach.step hr hst, Or.inr (Or.inl ⟨_, _, h1, by simp [h3, hb]⟩)⟩, ?_⟩
    simp only [pushMu, hp, h1, h2, h3, hb]
    split <;> simp
  · cases hbb : s.buf t with
    | nil =>
      obtain ⟨s', hst, h1, h2⟩ := en_pushCas c hp hbb
      refine ⟨.pushCas t, s', by simp [ownNext, hp, hbb], hst, ⟨Reach.step hr hst, ?_⟩, ?_⟩
      · rcases h2 with ⟨_, h3, h4, _⟩ | ⟨_, h3, _⟩
        · exact Or.inr (Or.inr ⟨h3, _, h4⟩)
        · exact Or.inl ⟨_, _, h3, h1⟩
      · rcases h2 with ⟨h5, h3, _, _⟩ | ⟨h5, h3, h4⟩
        · simp [pushMu, hp, h3, h5, hbb]
        · simp [pushMu, hp, h3, h5, hbb, h4]
    | cons e rest =>
      obtain ⟨s', hst, h1, h2, h3⟩ := en_flush c hbb
      refine ⟨.flush t, s', by simp [ownNext, hp, hbb], hst,
        ⟨Reach.step hr hst, Or.inr (Or.inl ⟨n, h0, h1.trans hp, ?_⟩)⟩, ?_⟩
      · rw [h2]; rw [hbb] at hb; simp at hb; simp [hb]
      · simp only [pushMu, hp, h1, h2, h3, hbb, List.length_cons]; omega
  · exact absurd hp hi

/-- **lock-free push terminates when run solo**: from any reachable state in which the thread is
inside `cds_lfs_push` (any number of failed attempts behind it, the others frozen wherever
they are), it finishes within 6 own steps: at most one failed cmpxchg – caused by a change of
`head` *before* the others were frozen – then store, drain, successful cmpxchg. -/
theorem push_solo_terminates (c : Cfg) (wf : c.WF) {s : State} (h : Reach c s) (t n h0 : Nat)
    (hp : s.pc t = .pushSt n h0 ∨ s.pc t = .pushCas n h0) :
    ∃ k s', k ≤ 6 ∧ solo c t k s = some s' ∧ s'.pc t = .idle ∧ (∃ b, s'.ret t = .flag b) ∧ Reach c s' := by
  have I := inv_reach c wf h
  have hP : pushP c t s := by
    refine ⟨h, ?_⟩
    rcases hp with hp | hp
    · exact Or.inl ⟨n, h0, hp, (I.pcSt t n h0 hp).2.2⟩
    · refine Or.inr (Or.inl ⟨n, h0, hp, ?_⟩)
      rcases (I.pcCas t n h0 hp).2.2 with h1 | h1
      · simp [h1]
      · simp [h1.1]
  have hμ : pushMu s t ≤ 6 := by
    rcases hp with hp | hp
    · simp only [pushMu, hp]; split <;> omega
    · have : (s.buf t).length ≤ 1 := by
        rcases (I.pcCas t n h0 hp).2.2 with h1 | h1
        · simp [h1]
        · simp [h1.1]
      simp only [pushMu, hp]; split <;> omega
  obtain ⟨k, s', hk, hs, hi, hP'⟩ := solo_measure c t (pushMu · t) (pushP c t) (push_own_step c t) 6 s hP hμ
  refine ⟨k, s', hk, hs, hi, ?_, hP'.1⟩
  rcases hP'.2 with ⟨_, _, hp', _⟩ | ⟨_, _, hp', _⟩ | ⟨_, hb⟩
  · rw [hi] at hp'; simp at hp'
  · rw [hi] at hp'; simp at hp'
  · exact hb

/-- remaining own steps of a pop, all other threads frozen -/
def popMu (s : State) (t : Nat) : Nat :=
  match s.pc t with
  | .popLd => 3
  | .popLdN h => if s.head = h then 2 else 5
  | .popCas h _ => if s.head = h then 1 else 4
  | _ => 0

def popP (c : Cfg) (t : Nat) (s : State) : Prop :=
  Reach c s ∧ s.buf t = [] ∧
  (s.pc t = .popLd ∨ (∃ h, s.pc t = .popLdN h) ∨ (∃ h nx, s.pc t = .popCas h nx) ∨
   (s.pc t = .idle ∧ (s.ret t = .null ∨ ∃ n, s.ret t = .node n)))

theorem pop_own_step (c : Cfg) (t : Nat) (s : State) (hP : popP c t s) (hi : s.pc t ≠ .idle) :
    ∃ l s', ownNext s t = some l ∧ step c s l = some s' ∧ popP c t s' ∧ popMu s' t < popMu s t := by
  obtain ⟨hr, hb, hpc⟩ := hP
  rcases hpc with hp | ⟨h0, hp⟩ | ⟨h0, nx, hp⟩ | ⟨hp, _⟩
  · obtain ⟨s', hst, h1, h2, h3⟩ := en_popLd c hp
    refine ⟨.popLd t, s', by simp [ownNext, hp], hst, ⟨Reach.step hr hst, h1.trans hb, ?_⟩, ?_⟩
    · rcases h3 with ⟨_, h4, h5⟩ | ⟨_, h4⟩
      · exact Or.inr (Or.inr (Or.inr ⟨h4, Or.inl h5⟩))
      · exact Or.inr (Or.inl ⟨_, h4⟩)
    · rcases h3 with ⟨_, h4, _⟩ | ⟨_, h4⟩ <;> simp [popMu, hp, h4, h2]
  · obtain ⟨s', hst, h1, h2, h3⟩ := en_popLdN c hp
    refine ⟨.popLdN t, s', by simp [ownNext, hp], hst,
      ⟨Reach.step hr hst, h1.trans hb, Or.inr (Or.inr (Or.inl ⟨_, _, h3⟩))⟩, ?_⟩
    simp only [popMu, hp, h3, h2]; split <;> simp
  · obtain ⟨s', hst, h1, h2⟩ := en_popCas c hp hb
    refine ⟨.popCas t, s', by simp [ownNext, hp, hb], hst, ⟨Reach.step hr hst, h1, ?_⟩, ?_⟩
    · rcases h2 with ⟨_, h3, h4⟩ | ⟨_, h3, _⟩
      · exact Or.inr (Or.inr (Or.inr ⟨h3, Or.inr ⟨_, h4⟩⟩))
      · exact Or.inl h3
    · rcases h2 with ⟨h5, h3, _⟩ | ⟨h5, h3, _⟩ <;> simp [popMu, hp, h3, h5]
  · exact absurd hp hi

/-- **lock-free pop terminates when run solo**: within 5 own steps from any reachable state -/
theorem pop_solo_terminates (c : Cfg) (wf : c.WF) {s : State} (h : Reach c s) (t : Nat)
    (hp : s.pc t = .popLd ∨ (∃ h0, s.pc t = .popLdN h0) ∨ ∃ h0 nx, s.pc t = .popCas h0 nx) :
    ∃ k s', k ≤ 5 ∧ solo c t k s = some s' ∧ s'.pc t = .idle ∧
      (s'.ret t = .null ∨ ∃ n, s'.ret t = .node n) ∧ Reach c s' := by
  have I := inv_reach c wf h
  have hb : s.buf t = [] := buf_empty_of_pc I t (by
    intro n h0 e
    rcases hp with hp | ⟨_, hp⟩ | ⟨_, _, hp⟩ <;> rw [hp] at e <;> simp at e)
  have hP : popP c t s := by
    refine ⟨h, hb, ?_⟩
    rcases hp with hp | hp | hp
    · exact Or.inl hp
    · exact Or.inr (Or.inl hp)
    · exact Or.inr (Or.inr (Or.inl hp))
  have hμ : popMu s t ≤ 5 := by
    rcases hp with hp | ⟨_, hp⟩ | ⟨_, _, hp⟩ <;> simp only [popMu, hp] <;> (try split) <;> omega
  obtain ⟨k, s', hk, hs, hi, hP'⟩ := solo_measure c t (popMu · t) (popP c t) (pop_own_step c t) 5 s hP hμ
  refine ⟨k, s', hk, hs, hi, ?_, hP'.1⟩
  rcases hP'.2.2 with hp' | ⟨_, hp'⟩ | ⟨_, _, hp'⟩ | ⟨_, hb⟩
  · rw [hi] at hp'; simp at hp'
  · rw [hi] at hp'; simp at hp'
  · rw [hi] at hp'; simp at hp'
  · exact hb

/-- **pop_all is wait-free**: one `xchg` -/
theorem popAll_one_step (c : Cfg) {s : State} (t : Nat) (hp : s.pc t = .idle) (hr : mayPopAll c s t)
    (hb : s.buf t = []) (hv : s.priv t = []) :
    ∃ s', step c s (.popAll t) = some s' ∧ s'.pc t = .idle ∧ s'.head = 0 := by
  simp [step, hp, hr, hb, hv]

end UrcuVerif.Lfs
