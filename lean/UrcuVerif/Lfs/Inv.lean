import UrcuVerif.Lfs.Model
/-!
Inductive invariant of the lfstack / rculfstack model (helper lemmas; statements are in
`Props/C11.lean`).  Ghost abstract stack + memory chain; ABA freedom under the mutex, single
consumer and RCU schemes.
-/
set_option linter.unusedVariables false
namespace UrcuVerif.Lfs
open Lifo

inductive Reach (c : Cfg) : State → Prop
  | init : Reach c init
  | step {s s' l} : Reach c s → step c s l = some s' → Reach c s'

/-- `Chain s h l`: `l` is exactly the sequence of nodes from `h` along `next` (memory) to NULL -/
inductive Chain (s : State) : Nat → List Nat → Prop
  | nil : Chain s 0 []
  | cons {a b l} : a ≠ 0 → s.next a = b → Chain s b l → Chain s a (a :: l)

theorem chain_congr {s s' : State} {h l} (c : Chain s h l)
    (hx : ∀ a, a ∈ l → s'.next a = s.next a) : Chain s' h l := by
  induction c with
  | nil => exact .nil
  | cons h2 hl _ ih =>
    refine .cons h2 ((hx _ (by simp)).trans hl) (ih ?_)
    intro a ha
    exact hx a (by simp [ha])

theorem chain_head {s : State} {h l} (c : Chain s h l) :
    (h = 0 ∧ l = []) ∨ (h ≠ 0 ∧ ∃ r, l = h :: r) := by
  cases c with
  | nil => left; exact ⟨rfl, rfl⟩
  | cons h _ _ => right; exact ⟨h, _, rfl⟩

theorem chain_nil_iff {s : State} {h l} (c : Chain s h l) : h = 0 ↔ l = [] := by
  rcases chain_head c with ⟨e, e'⟩ | ⟨e, r, e'⟩
  · simp [e, e']
  · simp [e', e]

theorem chain_cons_inv {s : State} {h l} (c : Chain s h l) (hn : h ≠ 0) :
    ∃ r, l = h :: r ∧ Chain s (s.next h) r := by
  cases c with
  | nil => exact absurd rfl hn
  | cons h1 h2 h3 => subst h2; exact ⟨_, rfl, h3⟩

theorem head_zero_iff {s : State} (hc : Chain s s.head s.abs) : (s.head == 0) = s.abs.isEmpty := by
  have := chain_nil_iff hc
  cases h : s.abs with
  | nil => simp [h] at this; simp [this]
  | cons a r => simp [h] at this; simp [this]

theorem head_nz_iff {s : State} (hc : Chain s s.head s.abs) : (s.head != 0) = !s.abs.isEmpty := by
  have := chain_nil_iff hc
  cases h : s.abs with
  | nil => simp [h] at this; simp [this]
  | cons a r => simp [h] at this; simp [this]

theorem bufVal_nil (n : Nat) : bufVal [] n = none := rfl

theorem rd_empty (s : State) (t n : Nat) (h : s.buf t = []) : rd s t n = s.next n := by
  simp [rd, h, bufVal]

/-- node `h`, referenced by popper `t`, cannot be recycled under it -/
def Prot (c : Cfg) (s : State) (t h : Nat) : Prop :=
  s.nst h ≠ .free ∧ (∀ u, s.nst h ≠ .own u) ∧ (c.scheme ≠ .rcu → s.nst h = .inStack) ∧
  (∀ τ, s.nst h = .retired τ → s.cs t < τ)

structure Inv (c : Cfg) (s : State) : Prop where
  chain : Chain s s.head s.abs
  pchain : ∀ t, Chain s (s.cur t) (s.priv t)
  nodup : s.abs.Nodup
  pnodup : ∀ t, (s.priv t).Nodup
  abs_st : ∀ a, a ∈ s.abs ↔ s.nst a = .inStack
  priv_st : ∀ t a, a ∈ s.priv t ↔ s.nst a = .limbo t
  pcSt : ∀ t n h, s.pc t = .pushSt n h → s.nst n = .own t ∧ n ≠ 0 ∧ s.buf t = []
  pcCas : ∀ t n h, s.pc t = .pushCas n h → s.nst n = .own t ∧ n ≠ 0 ∧
            (s.buf t = [(n, h)] ∨ (s.buf t = [] ∧ s.next n = h))
  bufE : ∀ t, s.buf t ≠ [] → ∃ n h, s.pc t = .pushCas n h
  popR : ∀ t, s.pc t = .popLd → mayPop c s t
  held1 : ∀ t h, s.pc t = .popLdN h → h ≠ 0 ∧ mayPop c s t ∧ Prot c s t h
  held2 : ∀ t h nx, s.pc t = .popCas h nx → h ≠ 0 ∧ mayPop c s t ∧ Prot c s t h ∧ s.next h = nx
  retired_rcu : ∀ a τ, s.nst a = .retired τ → c.scheme = .rcu ∧ τ < s.clock
  cs_lt : ∀ t, s.cs t ≠ 0 → s.cs t < s.clock ∧ t < c.n ∧ s.gpDone ≤ s.cs t
  gp_lt : s.gpDone < s.clock ∧ ∀ a, s.gpCur = some a → a < s.clock
  hist : Valid s.hist s.abs

theorem inv_init (c) : Inv c init := by
  constructor <;> simp [init]
  · exact .nil
  · exact .nil
  · exact .nil

set_option hygiene false in
macro "frames" : tactic => `(tactic| (
  first
  | (refine chain_congr hc ?_; intro a ha; first | rfl | (simp only [upd]; grind))
  | (intro u; refine chain_congr (hpc u) ?_; intro a ha; first | rfl | (simp only [upd]; grind))))

macro "rest_tac" : tactic => `(tactic| (
  all_goals (simp only [upd, mayPop, mayPopAll, Prot, released] at *)
  all_goals grind))

set_option hygiene false in
macro "obt" : tactic => `(tactic|
  obtain ⟨hc, hpc, hnd, hpnd, habs, hpriv, hpcSt, hpcCas, hbE, hpR, hh1, hh2, hret, hcs, hgp, hh⟩ := h)

theorem inv_pushBegin (c : Cfg) (wf : c.WF) {s s' : State} (h : Inv c s) (t n)
    (st : step c s (.pushBegin t n) = some s') : Inv c s' := by
  obt
  simp only [step] at st
  split at st
  · next g =>
    obtain ⟨g1, g2, g3⟩ := g
    simp only [Option.some.injEq] at st; subst st
    constructor
    · frames
    · frames
    rest_tac
  · simp at st

theorem inv_pushSt (c : Cfg) (wf : c.WF) {s s' : State} (h : Inv c s) (t)
    (st : step c s (.pushSt t) = some s') : Inv c s' := by
  obt
  simp only [step] at st
  split at st
  · next n h0 hp =>
    simp only [Option.some.injEq] at st; subst st
    have := hpcSt t n h0 hp
    constructor
    · frames
    · frames
    all_goals (simp only [upd, mayPop, mayPopAll, Prot, released, List.mem_append, List.mem_singleton] at *)
    all_goals grind
  all_goals (first | (simp at st; done) | skip)


theorem inv_pushCas (c : Cfg) (wf : c.WF) {s s' : State} (h : Inv c s) (t)
    (st : step c s (.pushCas t) = some s') : Inv c s' := by
  obt
  simp only [step] at st
  split at st
  · next n h0 hp =>
    have hC := hpcCas t n h0 hp
    split at st
    · next hb =>
      have hn : s.next n = h0 := by
        rcases hC.2.2 with h1 | h1
        · rw [hb] at h1; simp at h1
        · exact h1.2
      have hnabs : n ∉ s.abs := by
        intro hm; have := (habs n).1 hm; rw [hC.1] at this; simp at this
      split at st
      · next hhd =>
        simp only [Option.some.injEq] at st; subst st
        constructor
        · refine .cons hC.2.1 hn ?_
          rw [← hhd]
          exact chain_congr hc (fun _ _ => rfl)
        · frames
        · simp only [List.nodup_cons]; exact ⟨hnabs, hnd⟩
        case hist =>
          rw [← hhd]
          exact hh.step t (.push n) (by simp [apply, head_nz_iff hc])
        all_goals (simp only [upd, mayPop, mayPopAll, Prot, released, List.mem_cons] at *)
        all_goals grind
      · simp only [Option.some.injEq] at st; subst st
        constructor
        · frames
        · frames
        rest_tac
    · simp at st
  all_goals (first | (simp at st; done) | skip)

theorem inv_flush (c : Cfg) (wf : c.WF) {s s' : State} (h : Inv c s) (t)
    (st : step c s (.flush t) = some s') : Inv c s' := by
  obt
  simp only [step] at st
  split at st
  · next m v rest hb =>
    simp only [Option.some.injEq] at st; subst st
    have hne : s.buf t ≠ [] := by rw [hb]; simp
    obtain ⟨n, h0, hp⟩ := hbE t hne
    have hC := hpcCas t n h0 hp
    have hbuf : s.buf t = [(n, h0)] := by
      rcases hC.2.2 with h1 | h1
      · exact h1
      · exact absurd h1.1 hne
    rw [hb] at hbuf
    simp only [List.cons.injEq, Prod.mk.injEq] at hbuf
    obtain ⟨⟨e1, e2⟩, e3⟩ := hbuf
    subst e1; subst e2; subst e3
    have hown := hC.1
    constructor
    · frames
    · frames
    rest_tac
  · simp at st

end UrcuVerif.Lfs
