import UrcuVerif.Lfs.Inv2
/-! Consequences of the lfstack invariant used by `Props/C11.lean` and `Props/C17Stacks.lean`. -/
set_option linter.unusedVariables false
namespace UrcuVerif.Lfs
open Lifo

/-- the thread a label belongs to (`none`: environment steps of the abstract grace period) -/
def Label.tid : Label → Option Nat
  | .pushBegin t _ | .pushSt t | .pushCas t | .flush t | .lock t | .unlock t | .rlock t
  | .runlock t | .empty t | .popBegin t | .popLd t | .popLdN t | .popCas t | .popAll t
  | .iterNext t => some t
  | .gpStart | .gpEnd | .reclaim _ => none

theorem step_frame (c : Cfg) {s s' : State} {l : Label} (st : step c s l = some s') (t : Nat)
    (ht : l.tid ≠ some t) :
    s'.pc t = s.pc t ∧ s'.buf t = s.buf t ∧ s'.ret t = s.ret t ∧ s'.cur t = s.cur t ∧
    s'.priv t = s.priv t := by
  cases l <;> simp only [Label.tid, ne_eq, Option.some.injEq, not_false_eq_true] at ht <;>
    simp only [step] at st <;>
    (repeat' split at st) <;>
    first
    | (simp at st; done)
    | (simp only [Option.some.injEq] at st; subst st; simp [upd, Ne.symm ht])
    | (simp only [Option.some.injEq] at st; subst st; simp [upd])

theorem step_hist (c : Cfg) {s s' : State} {l : Label} (st : step c s l = some s') :
    (s'.hist = s.hist ∧ s'.abs = s.abs) ∨ ∃ e, s'.hist = e :: s.hist := by
  cases l <;> simp only [step] at st <;>
    (repeat' split at st) <;>
    first
    | (simp at st; done)
    | (simp only [Option.some.injEq] at st; subst st; simp)

/-- **refinement step** -/
theorem step_refines (c : Cfg) (wf : c.WF) {s s' : State} {l : Label} (h : Reach c s)
    (st : step c s l = some s') :
    (s'.hist = s.hist ∧ s'.abs = s.abs) ∨
    ∃ e, s'.hist = e :: s.hist ∧ e.res = (apply s.abs e.op).2 ∧ s'.abs = (apply s.abs e.op).1 := by
  rcases step_hist c st with h1 | ⟨e, he⟩
  · exact Or.inl h1
  · right
    have v := (inv_reach c wf h).hist
    have v' := (inv_reach c wf (Reach.step h st)).hist
    rw [he] at v'
    exact ⟨e, he, v.inv_cons v'⟩

theorem head_zero_iff_nil (c : Cfg) (wf : c.WF) {s : State} (h : Reach c s) : s.head = 0 ↔ s.abs = [] :=
  chain_nil_iff (inv_reach c wf h).chain

/-- **no ABA** (mutex, single consumer, RCU): when the popper's cmpxchg is about to succeed the
`next` it read is still the successor of the top node -/
theorem no_aba (c : Cfg) (wf : c.WF) {s : State} (h : Reach c s) (t h0 nx : Nat)
    (hp : s.pc t = .popCas h0 nx) (hhd : s.head = h0) :
    ∃ l, s.abs = h0 :: l ∧ Chain s nx l := by
  have I := inv_reach c wf h
  have hR := I.held2 t h0 nx hp
  obtain ⟨r, e1, hc1⟩ := chain_cons_inv I.chain (hhd ▸ hR.1)
  rw [hhd, hR.2.2.2] at hc1
  exact ⟨r, hhd ▸ e1, hc1⟩

/-- under RCU: a node referenced by a popper inside its read-side section is never free or
being re-pushed -/
theorem rcu_protects (c : Cfg) (wf : c.WF) {s : State} (h : Reach c s) (t h0 nx : Nat)
    (hp : s.pc t = .popCas h0 nx ∨ s.pc t = .popLdN h0) :
    s.nst h0 ≠ .free ∧ (∀ u, s.nst h0 ≠ .own u) ∧ (c.scheme = .rcu → s.cs t ≠ 0) := by
  have I := inv_reach c wf h
  unfold Cfg.WF at wf
  rcases hp with hp | hp
  · have := I.held2 t h0 nx hp
    simp only [Prot, mayPop] at this
    grind
  · have := I.held1 t h0 hp
    simp only [Prot, mayPop] at this
    grind

theorem pop_result (c : Cfg) (wf : c.WF) {s s' : State} (h : Reach c s) (t h0 nx : Nat)
    (hp : s.pc t = .popCas h0 nx) (hhd : s.head = h0) (st : step c s (.popCas t) = some s') :
    s.abs = h0 :: s'.abs ∧ s'.ret t = .node h0 ∧ s'.head = nx ∧ (nx = 0 ↔ s'.abs = []) := by
  obtain ⟨l, e1, hc1⟩ := no_aba c wf h t h0 nx hp hhd
  simp only [step, hp] at st
  split at st
  · simp only [hhd, if_true, Option.some.injEq] at st
    subst st
    simp only [e1, List.tail_cons, upd_same, true_and]
    exact chain_nil_iff hc1
  · simp at st

theorem popAll_result (c : Cfg) (wf : c.WF) {s s' : State} (h : Reach c s) (t : Nat)
    (st : step c s (.popAll t) = some s') :
    s'.head = 0 ∧ s'.abs = [] ∧ s'.priv t = s.abs ∧ s'.cur t = s.head ∧
    Chain s' (s'.cur t) s.abs ∧
    s'.ret t = (if s.abs = [] then .null else .head s.head) := by
  have I' := inv_reach c wf (Reach.step h st)
  have hn := head_zero_iff_nil c wf h
  have hpc := I'.pchain t
  simp only [step] at st
  split at st
  · simp only [Option.some.injEq] at st; subst st
    simp only [upd_same] at hpc
    refine ⟨rfl, rfl, by simp, by simp, by simpa using hpc, ?_⟩
    by_cases e : s.head = 0
    · simp [e, hn.1 e]
    · simp [e, (not_congr hn).1 e]
  · simp at st

theorem iter_exact (c : Cfg) (wf : c.WF) {s s' : State} (h : Reach c s) (t : Nat)
    (st : step c s (.iterNext t) = some s') :
    ∃ r, s.priv t = s.cur t :: r ∧ s'.priv t = r ∧ Chain s' (s'.cur t) r ∧
      s'.ret t = (if r = [] then .null else .node (s'.cur t)) := by
  have I := inv_reach c wf h
  have I' := inv_reach c wf (Reach.step h st)
  have hpc' := I'.pchain t
  simp only [step] at st
  split at st
  · next g =>
    obtain ⟨r, e1, hc1⟩ := chain_cons_inv (I.pchain t) g.2
    simp only [Option.some.injEq] at st; subst st
    refine ⟨_, ?_, rfl, hpc', ?_⟩
    · simp [e1]
    · have := chain_nil_iff hpc'
      simp only [upd_same] at this ⊢
      by_cases e : rd s t (s.cur t) = 0
      · simp [e, this.1 e]
      · simp [e, (not_congr this).1 e]
  · simp at st

theorem push_result (c : Cfg) (wf : c.WF) {s s' : State} (h : Reach c s) (t n h0 : Nat)
    (hp : s.pc t = .pushCas n h0) (hhd : s.head = h0) (st : step c s (.pushCas t) = some s') :
    s'.abs = n :: s.abs ∧ s'.ret t = .flag (!s.abs.isEmpty) ∧ s'.pc t = .idle := by
  have I := inv_reach c wf h
  simp only [step, hp] at st
  split at st
  · simp only [hhd, if_true, Option.some.injEq] at st; subst st
    have := head_nz_iff I.chain
    rw [hhd] at this
    simp [this]
  · simp at st

theorem empty_result (c : Cfg) (wf : c.WF) {s s' : State} (h : Reach c s) (t : Nat)
    (st : step c s (.empty t) = some s') : s'.ret t = .flag s.abs.isEmpty ∧ s'.abs = s.abs := by
  have I := inv_reach c wf h
  simp only [step] at st
  split at st
  · simp only [Option.some.injEq] at st; subst st
    simp [head_zero_iff I.chain]
  · simp at st

theorem pop_null (c : Cfg) (wf : c.WF) {s s' : State} (h : Reach c s) (t : Nat)
    (hp : s.pc t = .popLd) (hh : s.head = 0) (st : step c s (.popLd t) = some s') :
    s.abs = [] ∧ s'.ret t = .null ∧ s'.abs = [] := by
  have hn := (head_zero_iff_nil c wf h).1 hh
  simp only [step, hp, hh, if_true, Option.some.injEq] at st
  subst st
  simp [hn]

/-- TSO: outside the window between the private `next` store and the publishing cmpxchg of a
push, a thread's store buffer is empty; inside it holds exactly that one store, to a node no
other thread can reach (`Tso.publish_after_private_init` of DESIGN §2 for this structure) -/
theorem buffer_private (c : Cfg) (wf : c.WF) {s : State} (h : Reach c s) (t : Nat) :
    s.buf t = [] ∨ ∃ n h0, s.pc t = .pushCas n h0 ∧ s.buf t = [(n, h0)] ∧ s.nst n = .own t := by
  have I := inv_reach c wf h
  by_cases e : s.buf t = []
  · exact Or.inl e
  · right
    obtain ⟨n, h0, hp⟩ := I.bufE t e
    have := I.pcCas t n h0 hp
    rcases this.2.2 with h1 | h1
    · exact ⟨n, h0, hp, h1, this.1⟩
    · exact absurd h1.1 e

end UrcuVerif.Lfs
