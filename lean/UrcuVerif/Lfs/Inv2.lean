import UrcuVerif.Lfs.Inv
/-! Invariant of the lfstack model, continued: locks, read-side sections, grace periods,
reclamation, pop, pop_all, iteration; `inv_step`. -/
set_option linter.unusedVariables false
namespace UrcuVerif.Lfs
open Lifo

theorem inv_lock (c : Cfg) (wf : c.WF) {s s' : State} (h : Inv c s) (t)
    (st : step c s (.lock t) = some s') : Inv c s' := by
  obt
  simp only [step] at st
  split at st
  · next g =>
    simp only [Option.some.injEq] at st; subst st
    constructor
    · frames
    · frames
    rest_tac
  · simp at st

theorem inv_unlock (c : Cfg) (wf : c.WF) {s s' : State} (h : Inv c s) (t)
    (st : step c s (.unlock t) = some s') : Inv c s' := by
  obt
  simp only [step] at st
  split at st
  · next g =>
    simp only [Option.some.injEq] at st; subst st
    constructor
    · frames
    · frames
    rest_tac
  · simp at st

theorem inv_rlock (c : Cfg) (wf : c.WF) {s s' : State} (h : Inv c s) (t)
    (st : step c s (.rlock t) = some s') : Inv c s' := by
  obt
  simp only [step] at st
  split at st
  · next g =>
    simp only [Option.some.injEq] at st; subst st
    constructor
    · frames
    · frames
    rest_tac
  · simp at st

theorem inv_runlock (c : Cfg) (wf : c.WF) {s s' : State} (h : Inv c s) (t)
    (st : step c s (.runlock t) = some s') : Inv c s' := by
  obt
  simp only [step] at st
  split at st
  · next g =>
    simp only [Option.some.injEq] at st; subst st
    constructor
    · frames
    · frames
    rest_tac
  · simp at st

theorem inv_gpStart (c : Cfg) (wf : c.WF) {s s' : State} (h : Inv c s)
    (st : step c s .gpStart = some s') : Inv c s' := by
  obt
  simp only [step] at st
  split at st
  · next g =>
    simp only [Option.some.injEq] at st; subst st
    constructor
    · frames
    · frames
    rest_tac
  · simp at st

theorem inv_gpEnd (c : Cfg) (wf : c.WF) {s s' : State} (h : Inv c s)
    (st : step c s .gpEnd = some s') : Inv c s' := by
  obt
  simp only [step] at st
  split at st
  · next a ha =>
    split at st
    · next g =>
      simp only [Option.some.injEq] at st; subst st
      have := hgp.2 a ha
      constructor
      · frames
      · frames
      rest_tac
    · simp at st
  · simp at st

theorem inv_reclaim (c : Cfg) (wf : c.WF) {s s' : State} (h : Inv c s) (n)
    (st : step c s (.reclaim n) = some s') : Inv c s' := by
  obt
  simp only [step] at st
  split at st
  · next τ hτ =>
    split at st
    · next g =>
      simp only [Option.some.injEq] at st; subst st
      constructor
      · frames
      · frames
      rest_tac
    · simp at st
  all_goals (first | (simp at st; done) | skip)

theorem inv_empty (c : Cfg) (wf : c.WF) {s s' : State} (h : Inv c s) (t)
    (st : step c s (.empty t) = some s') : Inv c s' := by
  obt
  simp only [step] at st
  split at st
  · next g =>
    simp only [Option.some.injEq] at st; subst st
    constructor
    · frames
    · frames
    case hist => exact hh.step t .empty (by simp [apply, head_zero_iff hc])
    rest_tac
  · simp at st

theorem inv_popBegin (c : Cfg) (wf : c.WF) {s s' : State} (h : Inv c s) (t)
    (st : step c s (.popBegin t) = some s') : Inv c s' := by
  obt
  simp only [step] at st
  split at st
  · next g =>
    simp only [Option.some.injEq] at st; subst st
    constructor
    · frames
    · frames
    rest_tac
  · simp at st

theorem inv_popLd (c : Cfg) (wf : c.WF) {s s' : State} (h : Inv c s) (t)
    (st : step c s (.popLd t) = some s') : Inv c s' := by
  obt
  unfold Cfg.WF at wf
  simp only [step] at st
  split at st
  · next hp =>
    split at st
    · next he =>
      simp only [Option.some.injEq] at st; subst st
      have hnil : s.abs = [] := (chain_nil_iff hc).1 he
      constructor
      · frames
      · frames
      case hist => exact hh.step t .pop (by simp [apply, hnil])
      rest_tac
    · next he =>
      simp only [Option.some.injEq] at st; subst st
      have hmem : s.head ∈ s.abs := by
        rcases chain_head hc with ⟨e, _⟩ | ⟨_, r, e⟩
        · exact absurd e he
        · rw [e]; simp
      have hin := (habs _).1 hmem
      have hR := hpR t hp
      constructor
      · frames
      · frames
      rest_tac
  all_goals (first | (simp at st; done) | skip)

theorem inv_popLdN (c : Cfg) (wf : c.WF) {s s' : State} (h : Inv c s) (t)
    (st : step c s (.popLdN t) = some s') : Inv c s' := by
  obt
  simp only [step] at st
  split at st
  · next h0 hp =>
    simp only [Option.some.injEq] at st; subst st
    have hb : s.buf t = [] := by
      apply Classical.byContradiction
      intro hne
      obtain ⟨n, h1, hp'⟩ := hbE t hne
      rw [hp] at hp'; simp at hp'
    have hrd := rd_empty s t h0 hb
    constructor
    · frames
    · frames
    rest_tac
  all_goals (first | (simp at st; done) | skip)


theorem buf_empty_of_pc {c : Cfg} {s : State} (h : Inv c s) (t : Nat)
    (hp : ∀ n h0, s.pc t ≠ .pushCas n h0) : s.buf t = [] := by
  apply Classical.byContradiction
  intro hne
  obtain ⟨n, h1, hp'⟩ := h.bufE t hne
  exact hp n h1 hp'

theorem inv_popCas_ok (c : Cfg) (wf : c.WF) {s : State} (h : Inv c s) (t h0 nx)
    (hp : s.pc t = .popCas h0 nx) (hhd : s.head = h0) :
    Inv c { s with head := nx, abs := s.abs.tail, nst := upd s.nst h0 (released c s),
                   clock := s.clock + 1,
                   pc := upd s.pc t .idle, ret := upd s.ret t (.node h0),
                   hist := ⟨t, .pop, .popped (some h0) (nx == 0)⟩ :: s.hist } := by
  obt
  unfold Cfg.WF at wf
  have hR := hh2 t h0 nx hp
  obtain ⟨r, e1, hc1⟩ := chain_cons_inv hc (hhd ▸ hR.1)
  rw [hhd, hR.2.2.2] at hc1
  have hnd' : s.head ∉ r ∧ r.Nodup := by rw [e1] at hnd; simpa using hnd
  have hmem : ∀ a, a ∈ s.abs ↔ a = s.head ∨ a ∈ r := by intro a; rw [e1]; simp
  have hst0 : s.nst h0 = .inStack := (habs h0).1 (by rw [e1, hhd]; simp)
  constructor
  · rw [e1]; simp only [List.tail_cons]
    exact chain_congr hc1 (fun _ _ => rfl)
  · frames
  case hist =>
    have e : (nx == 0) = r.isEmpty := by
      have := chain_nil_iff hc1
      cases h : r with
      | nil => simp [h] at this; simp [this]
      | cons a r => simp [h] at this; simp [this]
    rw [e1]; simp only [List.tail_cons]
    rw [← hhd]
    exact hh.step t .pop (by rw [e1]; simp [apply, e])
  case nodup => rw [e1]; exact hnd'.2
  all_goals (clear hh hc hpc hc1; subst hhd)
  all_goals (simp only [e1, List.tail_cons]; rw [e1] at hnd; clear e1)
  all_goals (simp only [upd, mayPop, mayPopAll, Prot, released] at *)
  all_goals grind

theorem inv_popCas (c : Cfg) (wf : c.WF) {s s' : State} (h : Inv c s) (t)
    (st : step c s (.popCas t) = some s') : Inv c s' := by
  simp only [step] at st
  split at st
  · next h0 nx hp =>
    split at st
    · next hb =>
      split at st
      · next hhd =>
        simp only [Option.some.injEq] at st; subst st
        exact inv_popCas_ok c wf h t h0 nx hp hhd
      · simp only [Option.some.injEq] at st; subst st
        obt
        constructor
        · frames
        · frames
        rest_tac
    · simp at st
  all_goals (first | (simp at st; done) | skip)

theorem inv_popAll (c : Cfg) (wf : c.WF) {s s' : State} (h : Inv c s) (t)
    (st : step c s (.popAll t) = some s') : Inv c s' := by
  obt
  unfold Cfg.WF at wf
  simp only [step] at st
  split at st
  · next g =>
    obtain ⟨g1, g2, g3, g4⟩ := g
    simp only [Option.some.injEq] at st; subst st
    constructor
    · exact .nil
    · intro u
      by_cases e : u = t
      · subst e
        simp only [upd_same]
        exact chain_congr hc (fun _ _ => rfl)
      · simp only [upd, e, if_false]
        exact chain_congr (hpc u) (fun _ _ => rfl)
    case hist => exact hh.step t .popAll (by simp [apply])
    case priv_st =>
      intro t1 a
      have h1 := habs a
      have h2 := hpriv t1 a
      have h3 := hpriv t a
      by_cases e : t1 = t <;> by_cases m : a ∈ s.abs <;> simp only [upd, e, m, if_true, if_false] <;> grind
    all_goals (clear hh hc hpc)
    all_goals (simp only [upd, mayPop, mayPopAll, Prot, released] at *)
    all_goals grind
  · simp at st

theorem inv_iterNext (c : Cfg) (wf : c.WF) {s s' : State} (h : Inv c s) (t)
    (st : step c s (.iterNext t) = some s') : Inv c s' := by
  have hI := h
  obt
  unfold Cfg.WF at wf
  simp only [step] at st
  split at st
  · next g =>
    obtain ⟨g1, g2⟩ := g
    simp only [Option.some.injEq] at st; subst st
    have hb : s.buf t = [] := buf_empty_of_pc hI t (by intro n h0; rw [g1]; simp)
    have hrd := rd_empty s t (s.cur t) hb
    obtain ⟨r, e1, hc1⟩ := chain_cons_inv (hpc t) g2
    have hlim : s.nst (s.cur t) = .limbo t := (hpriv t _).1 (by rw [e1]; simp)
    have hnd' : s.cur t ∉ r ∧ r.Nodup := by have := hpnd t; rw [e1] at this; simpa using this
    have hmem : ∀ a, a ∈ s.priv t ↔ a = s.cur t ∨ a ∈ r := by intro a; rw [e1]; simp
    constructor
    · frames
    · intro u
      by_cases e : u = t
      · subst e
        simp only [upd_same, e1, List.tail_cons, hrd]
        exact chain_congr hc1 (fun _ _ => rfl)
      · simp only [upd, e, if_false]
        exact chain_congr (hpc u) (fun _ _ => rfl)
    all_goals (clear hc hpc hc1 hI)
    all_goals (simp only [upd, mayPop, mayPopAll, Prot, released] at *)
    all_goals grind
  · simp at st


theorem inv_step (c : Cfg) (wf : c.WF) {s s' : State} {l : Label} (h : Inv c s)
    (st : step c s l = some s') : Inv c s' := by
  cases l with
  | pushBegin t n => exact inv_pushBegin c wf h t n st
  | pushSt t => exact inv_pushSt c wf h t st
  | pushCas t => exact inv_pushCas c wf h t st
  | flush t => exact inv_flush c wf h t st
  | lock t => exact inv_lock c wf h t st
  | unlock t => exact inv_unlock c wf h t st
  | rlock t => exact inv_rlock c wf h t st
  | runlock t => exact inv_runlock c wf h t st
  | gpStart => exact inv_gpStart c wf h st
  | gpEnd => exact inv_gpEnd c wf h st
  | reclaim n => exact inv_reclaim c wf h n st
  | empty t => exact inv_empty c wf h t st
  | popBegin t => exact inv_popBegin c wf h t st
  | popLd t => exact inv_popLd c wf h t st
  | popLdN t => exact inv_popLdN c wf h t st
  | popCas t => exact inv_popCas c wf h t st
  | popAll t => exact inv_popAll c wf h t st
  | iterNext t => exact inv_iterNext c wf h t st

theorem inv_reach (c : Cfg) (wf : c.WF) {s : State} (h : Reach c s) : Inv c s := by
  induction h with
  | init => exact inv_init c
  | step _ st ih => exact inv_step c wf ih st

theorem run_reach (c : Cfg) {s s' : State} (ls : List Label) (h : Reach c s)
    (hr : run c s ls = some s') : Reach c s' := by
  induction ls generalizing s with
  | nil => simp [run] at hr; subst hr; exact h
  | cons l ls ih =>
    simp only [run] at hr
    split at hr
    · simp at hr
    · next s1 hs => exact ih (Reach.step h hs) hr

end UrcuVerif.Lfs
