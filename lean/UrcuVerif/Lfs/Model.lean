import UrcuVerif.Machine.Upd
import UrcuVerif.Wfs.Lifo
/-!
# C11/C17 — lock-free stack `cds_lfs` (`include/urcu/static/lfstack.h`) and the legacy
`cds_lfs_rcu` (`include/urcu/static/rculfstack.h`, same algorithm) on x86-TSO

L2 model: one step per shared-memory access of the C text.

* `cds_lfs_push`: `pushBegin` (`head = NULL` guess), then the loop `pushSt` (plain store
  `node->next := head`, through the pusher's store buffer – the node is still private),
  `pushCas` (`uatomic_cmpxchg(&s->head, old_head, new_head)`: locked RMW, drains the buffer;
  success = **linearisation point**; failure: the value read becomes the next guess).
* `__cds_lfs_pop`: `popLd` (load head; NULL ⇒ return NULL = linearisation of an empty pop),
  `popLdN` (load `head->node.next`), `popCas` (success = linearisation point; failure ⇒ retry).
* `__cds_lfs_pop_all`: `popAll` = `uatomic_xchg(&s->head, NULL)`; `cds_lfs_for_each` = `iterNext`.
* `cds_lfs_empty`: `empty`.
* synchronisation schemes: `mutex` (internal mutex: `cds_lfs_pop_blocking`,
  `cds_lfs_pop_all_blocking`), `single` consumer, `rcu`: poppers are inside read-side critical
  sections and a popped node is recycled (`reclaim`: re-push / free) only after a grace period
  that started after it was popped.  The grace period is abstract (`Spec.GpSpec`, as in
  `Poll/Model.lean`): `gpStart` stamps the logical clock, `gpEnd` is enabled only when every
  section that began before the start has ended.  `unprotected` (pops by anybody, immediate
  recycling) is **not** a configuration of the API (`Cfg.WF` excludes it); it exists for the
  ABA witness `Lfs/Neg.lean`.

Ghost: abstract stack `abs`, per-thread popped list `priv`, node life cycle `nst`, logical
clock, section begin times `cs`, history `hist`.
-/
namespace UrcuVerif.Lfs
open Lifo

inductive Scheme | mutex | single | rcu | unprotected
  deriving DecidableEq, Repr

structure Cfg where
  scheme : Scheme
  consumer : Nat := 0
  n : Nat := 8           -- number of threads that may open read-side sections (bounds `gpEnd`'s guard)
  deriving Repr

def Cfg.WF (c : Cfg) : Prop := c.scheme ≠ .unprotected

inductive Pc
  | idle
  | pushSt (n h : Nat)
  | pushCas (n h : Nat)
  | popLd
  | popLdN (h : Nat)
  | popCas (h nx : Nat)
  deriving DecidableEq, Repr

inductive NSt
  | free
  | own (t : Nat)
  | inStack
  | limbo (t : Nat)
  | retired (stamp : Nat)
  deriving DecidableEq, Repr

inductive Ret
  | void
  | flag (b : Bool)
  | node (n : Nat)
  | null
  | head (h : Nat)
  deriving DecidableEq, Repr

structure State where
  head : Nat
  next : Nat → Nat
  buf  : Nat → List (Nat × Nat)
  pc   : Nat → Pc
  lock : Option Nat
  cur  : Nat → Nat
  ret  : Nat → Ret
  abs  : List Nat
  priv : Nat → List Nat
  nst  : Nat → NSt
  hist : List Ev
  clock : Nat
  cs    : Nat → Nat            -- begin time of thread t's open read-side section (0 = none)
  gpCur : Option Nat           -- start time of the grace period in flight
  gpDone : Nat                 -- latest start time of a completed grace period

def init : State :=
  { head := 0, next := fun _ => 0, buf := fun _ => [], pc := fun _ => .idle, lock := none,
    cur := fun _ => 0, ret := fun _ => .void, abs := [], priv := fun _ => [],
    nst := fun _ => .free, hist := [], clock := 1, cs := fun _ => 0, gpCur := none, gpDone := 0 }

def bufVal : List (Nat × Nat) → Nat → Option Nat
  | [], _ => none
  | (a, v) :: rest, n =>
    match bufVal rest n with
    | some w => some w
    | none => if a = n then some v else none

/-- TSO load of `n.next` by thread `t` -/
def rd (s : State) (t n : Nat) : Nat :=
  match bufVal (s.buf t) n with
  | some v => v
  | none => s.next n

/-- the thread may call `__cds_lfs_pop` -/
def mayPop (c : Cfg) (s : State) (t : Nat) : Prop :=
  (c.scheme = .mutex ∧ s.lock = some t) ∨ (c.scheme = .single ∧ t = c.consumer) ∨
  (c.scheme = .rcu ∧ s.cs t ≠ 0) ∨ c.scheme = .unprotected
instance (c s t) : Decidable (mayPop c s t) := by unfold mayPop; infer_instance

/-- the thread may call `__cds_lfs_pop_all` (no read-side section needed in the RCU scheme) -/
def mayPopAll (c : Cfg) (s : State) (t : Nat) : Prop :=
  (c.scheme = .mutex ∧ s.lock = some t) ∨ (c.scheme = .single ∧ t = c.consumer) ∨
  c.scheme = .rcu ∨ c.scheme = .unprotected
instance (c s t) : Decidable (mayPopAll c s t) := by unfold mayPopAll; infer_instance

/-- life-cycle state of a node its popper is done with -/
def released (c : Cfg) (s : State) : NSt :=
  if c.scheme = .rcu then .retired s.clock else .free

inductive Label
  | pushBegin (t n : Nat)
  | pushSt (t : Nat)
  | pushCas (t : Nat)
  | flush (t : Nat)
  | lock (t : Nat)
  | unlock (t : Nat)
  | rlock (t : Nat)
  | runlock (t : Nat)
  | gpStart
  | gpEnd
  | reclaim (n : Nat)
  | empty (t : Nat)
  | popBegin (t : Nat)
  | popLd (t : Nat)
  | popLdN (t : Nat)
  | popCas (t : Nat)
  | popAll (t : Nat)
  | iterNext (t : Nat)
  deriving DecidableEq, Repr

def step (c : Cfg) (s : State) : Label → Option State
  | .pushBegin t n =>
    if s.pc t = .idle ∧ n ≠ 0 ∧ s.nst n = .free then
      some { s with nst := upd s.nst n (.own t), pc := upd s.pc t (.pushSt n 0) }
    else none
  | .pushSt t =>
    match s.pc t with
    | .pushSt n h => some { s with buf := upd s.buf t (s.buf t ++ [(n, h)]), pc := upd s.pc t (.pushCas n h) }
    | _ => none
  | .pushCas t =>
    match s.pc t with
    | .pushCas n h =>
      if s.buf t = [] then
        if s.head = h then
          some { s with head := n, abs := n :: s.abs, nst := upd s.nst n .inStack,
                        pc := upd s.pc t .idle, ret := upd s.ret t (.flag (h != 0)),
                        hist := ⟨t, .push n, .pushed (h != 0)⟩ :: s.hist }
        else some { s with pc := upd s.pc t (.pushSt n s.head) }
      else none
    | _ => none
  | .flush t =>
    match s.buf t with
    | (n, v) :: rest => some { s with next := upd s.next n v, buf := upd s.buf t rest }
    | [] => none
  | .lock t =>
    if c.scheme = .mutex ∧ s.pc t = .idle ∧ s.lock = none ∧ s.buf t = [] then some { s with lock := some t } else none
  | .unlock t =>
    if c.scheme = .mutex ∧ s.pc t = .idle ∧ s.lock = some t ∧ s.buf t = [] then some { s with lock := none } else none
  | .rlock t =>
    if s.pc t = .idle ∧ t < c.n ∧ s.cs t = 0 then
      some { s with cs := upd s.cs t s.clock, clock := s.clock + 1 }
    else none
  | .runlock t =>
    if s.pc t = .idle ∧ s.cs t ≠ 0 then some { s with cs := upd s.cs t 0 } else none
  | .gpStart =>
    match s.gpCur with
    | none => some { s with gpCur := some s.clock, clock := s.clock + 1 }
    | some _ => none
  | .gpEnd =>
    match s.gpCur with
    | some a =>
      -- GpSpec: every section that began before the grace period started has ended
      if (∀ i, i < c.n → s.cs i ≠ 0 → a ≤ s.cs i) then
        some { s with gpCur := none, gpDone := max s.gpDone a }
      else none
    | none => none
  | .reclaim n =>
    match s.nst n with
    | .retired τ => if τ ≤ s.gpDone then some { s with nst := upd s.nst n .free } else none
    | _ => none
  | .empty t =>
    if s.pc t = .idle then
      some { s with ret := upd s.ret t (.flag (s.head == 0)),
                    hist := ⟨t, .empty, .isEmpty (s.head == 0)⟩ :: s.hist }
    else none
  | .popBegin t =>
    if s.pc t = .idle ∧ mayPop c s t then some { s with pc := upd s.pc t .popLd } else none
  | .popLd t =>
    match s.pc t with
    | .popLd =>
      if s.head = 0 then
        some { s with pc := upd s.pc t .idle, ret := upd s.ret t .null,
                      hist := ⟨t, .pop, .popped none false⟩ :: s.hist }
      else some { s with pc := upd s.pc t (.popLdN s.head) }
    | _ => none
  | .popLdN t =>
    match s.pc t with
    | .popLdN h => some { s with pc := upd s.pc t (.popCas h (rd s t h)) }
    | _ => none
  | .popCas t =>
    match s.pc t with
    | .popCas h nx =>
      if s.buf t = [] then
        if s.head = h then
          some { s with head := nx, abs := s.abs.tail, nst := upd s.nst h (released c s),
                        clock := s.clock + 1,
                        pc := upd s.pc t .idle, ret := upd s.ret t (.node h),
                        hist := ⟨t, .pop, .popped (some h) (nx == 0)⟩ :: s.hist }
        else some { s with pc := upd s.pc t .popLd }
      else none
    | _ => none
  | .popAll t =>
    if s.pc t = .idle ∧ mayPopAll c s t ∧ s.buf t = [] ∧ s.priv t = [] then
      some { s with head := 0, abs := [], priv := upd s.priv t s.abs, cur := upd s.cur t s.head,
                    nst := fun a => if a ∈ s.abs then .limbo t else s.nst a,
                    ret := upd s.ret t (if s.head = 0 then .null else .head s.head),
                    hist := ⟨t, .popAll, .all s.abs⟩ :: s.hist }
    else none
  | .iterNext t =>
    if s.pc t = .idle ∧ s.cur t ≠ 0 then
      some { s with cur := upd s.cur t (rd s t (s.cur t)), priv := upd s.priv t (s.priv t).tail,
                    nst := upd s.nst (s.cur t) (released c s), clock := s.clock + 1,
                    ret := upd s.ret t (if rd s t (s.cur t) = 0 then .null else .node (rd s t (s.cur t))) }
    else none

def run (c : Cfg) : State → List Label → Option State
  | s, [] => some s
  | s, l :: ls =>
    match step c s l with
    | none => none
    | some s' => run c s' ls

end UrcuVerif.Lfs
