import UrcuVerif.Lfs.Thms
/-!
Necessity witness for C11 `no_aba` (DESIGN §4 C11 `Neg/`): an explicit run, checked by `decide`
on the executable `step`, of the lfstack algorithm with **unprotected** concurrent pops and
immediate node recycling (not a configuration of the API: `Cfg.WF` excludes it) that ends in
ABA corruption: the popper's cmpxchg succeeds on a recycled top node and installs a stale
`next`, so the head points to a node that was already handed out (free) while the sequential
stack is empty.  The same schedule is rejected by each real scheme.
-/
namespace UrcuVerif.Lfs.Neg

def cfgU : Cfg := { scheme := .unprotected }
def cfgRcu : Cfg := { scheme := .rcu }
def cfgMutex : Cfg := { scheme := .mutex }
def cfgSingle : Cfg := { scheme := .single, consumer := 2 }

/-- nodes A = 1, B = 2; threads 1 (victim popper) and 2 -/
def build : List Label :=
  [.pushBegin 2 2, .pushSt 2, .flush 2, .pushCas 2,                       -- push B
   .pushBegin 2 1, .pushSt 2, .flush 2, .pushCas 2, .pushSt 2, .flush 2, .pushCas 2]  -- push A (one retry)

def victimReads : List Label := [.popBegin 1, .popLd 1, .popLdN 1]      -- T1: head = A, next = B

def interference : List Label :=
  [.popBegin 2, .popLd 2, .popLdN 2, .popCas 2,                           -- T2 pops A
   .popBegin 2, .popLd 2, .popLdN 2, .popCas 2,                           -- T2 pops B
   .pushBegin 2 1, .pushSt 2, .flush 2, .pushCas 2]                       -- T2 re-pushes A at once

def witness : List Label := build ++ victimReads ++ interference ++ [.popCas 1]

/-- before the victim's cmpxchg everything is consistent: stack = [A], A.next = NULL -/
theorem before_cas :
    (run cfgU init (build ++ victimReads ++ interference)).map
      (fun s => (s.head, s.abs, s.next 1, s.pc 1, s.nst 2)) = some (1, [1], 0, .popCas 1 2, .free) := by
  decide

/-- **ABA corruption**: the victim's cmpxchg succeeds (head is A again) and installs the stale
`next` = B: the head now points to B, which was popped and handed out (free), the stack should
be empty, and node A has been returned twice (to thread 2 and to thread 1) for two pushes only
because the second push intervened – with B lost/duplicated: the concrete head no longer
represents the abstract stack. -/
theorem unprotected_pop_aba :
    (run cfgU init witness).map (fun s => (s.head, s.abs, s.nst 2, s.ret 1)) =
      some (2, [], .free, .node 1) := by
  decide

theorem cfgU_not_wf : ¬ cfgU.WF := by simp [Cfg.WF, cfgU]

/-- the corrupted state violates the representation invariant that holds in every reachable
state of the real schemes (`head = NULL ↔ abstract stack empty`) -/
theorem corrupted_breaks_invariant :
    (run cfgU init witness).map (fun s => decide (s.head = 0 ↔ s.abs = [])) = some false := by
  decide

/-- mutex scheme: thread 1 cannot even start popping without the lock -/
example : run cfgMutex init (build ++ victimReads) = none := by decide
/-- single consumer: thread 1 is not the consumer -/
example : run cfgSingle init (build ++ victimReads) = none := by decide

/-- RCU scheme: the victim is inside a read-side section; A and B are retired by thread 2's pops
and can be recycled only after a grace period, which cannot end while the victim's section is
open: `gpEnd` is not enabled, so `reclaim` of A is not enabled. -/
def rcuPrefix : List Label :=
  build ++ [.rlock 1] ++ victimReads ++
  [.rlock 2, .popBegin 2, .popLd 2, .popLdN 2, .popCas 2, .popBegin 2, .popLd 2, .popLdN 2, .popCas 2, .runlock 2,
   .gpStart]

example : (run cfgRcu init rcuPrefix).map (fun s => (s.nst 1, s.nst 2, s.cs 1, s.gpCur)) =
    some (.retired 3, .retired 4, 1, some 5) := by decide
example : run cfgRcu init (rcuPrefix ++ [.gpEnd]) = none := by decide
example : run cfgRcu init (rcuPrefix ++ [.reclaim 1]) = none := by decide
example : run cfgRcu init (rcuPrefix ++ [.pushBegin 2 1]) = none := by decide
/-- the victim's cmpxchg then fails harmlessly (head is NULL, not A) and it retries -/
example : (run cfgRcu init (rcuPrefix ++ [.popCas 1])).map (fun s => (s.pc 1, s.head, s.abs)) =
    some (.popLd, 0, []) := by decide
/-- once the victim has left its section the grace period ends and A may be recycled -/
example : (run cfgRcu init (rcuPrefix ++ [.popCas 1, .popLd 1, .runlock 1, .gpEnd, .reclaim 1, .pushBegin 2 1])).map
    (fun s => (s.nst 1, s.gpDone)) = some (.own 2, 5) := by decide

end UrcuVerif.Lfs.Neg
