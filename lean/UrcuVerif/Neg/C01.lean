import UrcuVerif.Props.C01
/-!
Necessity witnesses for C01 (DESIGN §4 C01 `Neg/`): explicit x86-TSO runs, checked by `decide`
on the executable `step`, in which the grace-period guarantee FAILS for the model without the
reader-side fence and without sys_membarrier.  The harness executes sequentially consistent
schedules only, so a change to /repo that drops one of these fences shows up as a trace
divergence ("expected MB" / "expected MBAR"); the check then reports this run as the concrete
failing history of the patched algorithm.
-/
namespace UrcuVerif.Gp.Neg

/-- neither a slave fence nor sys_membarrier: not a configuration of the unchanged code -/
def cfgNoFence : Cfg := { n := 1, membarrier := false, slaveFence := false }

/-- reader 0 activates its word (store still buffered), enters its section and reads X = 0; the
grace period starts, pass 1 reads the stale inactive word from memory, the flip and pass 2 see
nothing to wait for: synchronize_rcu() is about to return while the section is still open. -/
def witnessNoFence : List Label :=
  [.reg 0, .rLd 0, .rSt 0, .rEnter 0, .rRead 0, .uStart true, .uMbarRet, .uScan1Inactive 0, .uFlip, .uP2Done]

theorem no_fence_violates_guarantee :
    (run cfgNoFence init witnessNoFence).map (fun s => (s.upc, s.tracked, s.inD 0, s.buf 0)) =
      some (.mbar2, true, true, [(1, false)]) := by decide

/-- … and the litmus outcome X = 0 ∧ Y = 1 inside one section becomes reachable -/
theorem no_fence_violates_litmus :
    (run cfgNoFence init (witnessNoFence ++ [.uEnd, .setY, .rRead 0])).map
      (fun s => (s.rpc 0, s.sawX0 0, s.sawY1 0)) = some (.cs, true, true) := by decide

theorem cfgNoFence_not_wf : ¬ cfgNoFence.WF := by simp [Cfg.WF, cfgNoFence]

/-- the same schedule is impossible in each real configuration (the theorem `gp_guarantee`
already implies it; this is the executable cross-check used in the evidence) -/
example : run cfgMemb init witnessNoFence = none := by decide
example : run cfgMb init witnessNoFence = none := by decide

end UrcuVerif.Gp.Neg
