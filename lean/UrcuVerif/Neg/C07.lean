import UrcuVerif.Props.C07
/-!
# C07 — necessity witness: taking `REMOVAL_OWNER` with load + `uatomic_or` instead of `uatomic_xchg`

`Cfg.ownerByOr = true` is the model of `_cds_lfht_del` with its last statement replaced by
`old = uatomic_read(&node->next); uatomic_or(&node->next, REMOVAL_OWNER_FLAG); return is_removal_owner(old) ? -ENOENT : 0`
(no atomic read-modify-write that returns the previous value).  Two deleters that both passed the `REMOVED`
test and both loaded `next` before either set the owner flag both return 0: two owners (double free).
The schedule is the one of the non-vacuity example of `Props/C07.lean`.
-/
namespace UrcuVerif.Lfht.Conc
open UrcuVerif

def cOr : Cfg := { n := 2, ownerByOr := true }

/-- both deleters return 0 for node 5 -/
theorem or_instead_of_xchg_two_owners :
    (runOut cOr init (raceDel ++ [(0, .orOwn), (1, .orOwn)])).map (fun x => (x.1.wins 5, x.2.drop 33)) =
      some (2, [.ret 0, .ret 0]) := by decide

/-- hence `single_owner` fails for the variant: a reachable state with two decided winners -/
theorem single_owner_needs_xchg : ∃ s, Reach cOr s ∧ s.wins 5 = 2 :=
  ⟨(run cOr init (raceDel ++ [(0, .orOwn), (1, .orOwn)])).get (by decide), run_reach .init (Option.some_get _).symm, by decide⟩

end UrcuVerif.Lfht.Conc
