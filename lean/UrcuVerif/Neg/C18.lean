import UrcuVerif.Props.C18
/-!
Necessity witnesses for C18 (DESIGN §4 C18 `Neg/`): explicit runs of the executable model, checked
by `decide`, in which the property FAILS for two variants of the algorithm that are not the real
code (`Cfg.bug ≠ .none`, excluded by `Cfg.WF`):

* `pubEarly`  – `cds_list_add_rcu` publishes (`head->next = newp`) before `newp->next` is set:
  a reader follows the uninitialised `next` (0 = NULL / head) of the new node, ends its traversal
  and misses a node that was in the list all the time;
* `delPoison` – `cds_list_del_rcu` overwrites the removed node's `next`: a reader positioned on the
  node when it is removed is stranded (never reaches the head, visits the node again and again).

They double as evidence that the theorems of `Props/C18.lean` are not vacuous: they fail as soon as
the store order / the "next stays intact" rule of the real code is dropped.
-/
namespace UrcuVerif.RcuList.Neg

def cfgPubEarly : Cfg := { n := 1, hl := false, bug := .pubEarly }
def cfgDelPoison : Cfg := { n := 1, hl := false, bug := .delPoison }

theorem cfgPubEarly_not_wf : ¬ cfgPubEarly.WF := by simp [Cfg.WF, cfgPubEarly]
theorem cfgDelPoison_not_wf : ¬ cfgDelPoison.WF := by simp [Cfg.WF, cfgDelPoison]

/-- n1 is in the list (everything flushed).  The updater starts `add n2`: payload store, then – in
the broken variant – the publishing store `head->next = n2`; both reach memory.  Reader 0 now
traverses: head → n2 → (n2.next is still 0) → done.  n1 was a member during the whole traversal
(published at tick 3 ≤ t0 = 9, never removed) and has not been visited. -/
def witnessPubEarly : List Label :=
  issue (.add 1) 5 ++ flushes 6 ++ [.u (.add 2), .u .st, .u .st, .flush, .flush, .flush,
    .rLock 0, .rStart 0, .rNext 0, .rNext 0]

theorem pubEarly_misses_resident_node :
    (run cfgPubEarly init witnessPubEarly).map (fun s => (s.fin 0, s.vis 0, (s.vis 0).count 1)) =
      some (true, [2], 0) := by decide

theorem pubEarly_n1_was_resident :
    (run cfgPubEarly init witnessPubEarly).map (fun s => (s.m.st 1, s.m.pubS 1, s.t0 0, s.t1 0)) =
      some (.live, 3, 9, 9) := by decide

/-- the real store order: after the same prefix nothing is published yet, the traversal sees [n1];
and after the complete add it sees [n2, n1] -/
example : (run cfgL init (issue (.add 1) 5 ++ flushes 6 ++ [.u (.add 2), .u .st, .u .st, .flush, .flush, .flush,
    .rLock 0, .rStart 0, .rNext 0, .rNext 0])).map (fun s => (s.fin 0, s.vis 0)) = some (true, [1]) := by decide
example : (run cfgL init (issue (.add 1) 5 ++ flushes 6 ++ issue (.add 2) 5 ++ flushes 6 ++
    [.rLock 0, .rStart 0, .rNext 0, .rNext 0, .rNext 0])).map (fun s => (s.fin 0, s.vis 0)) = some (true, [2, 1]) := by decide

/-- list [n2, n1]; reader 0 stands on n2 when `del n2` (with the poisoning store) reaches memory:
every further `rcu_dereference` leaves it on n2 – it never terminates and visits n2 repeatedly;
the measure does not decrease. -/
def witnessDelPoison : List Label :=
  issue (.add 1) 5 ++ issue (.add 2) 5 ++ flushes 12 ++ [.rLock 0, .rStart 0, .rNext 0] ++
  issue (.del 2) 3 ++ flushes 4 ++ [.rNext 0, .rNext 0, .rNext 0]

theorem delPoison_strands_reader :
    (run cfgDelPoison init witnessDelPoison).map (fun s => (s.pos 0, s.fin 0, s.vis 0, s.m.next 2)) =
      some (some 2, false, [2, 2, 2, 2], 2) := by decide

theorem delPoison_measure_stuck :
    (run cfgDelPoison init witnessDelPoison).map (fun s => mu s 0) =
    (run cfgDelPoison init (witnessDelPoison ++ [.rNext 0, .rNext 0])).map (fun s => mu s 0) := by decide

/-- the real `del`: the same reader continues from the removed node and completes -/
example : (run cfgL init (issue (.add 1) 5 ++ issue (.add 2) 5 ++ flushes 12 ++ [.rLock 0, .rStart 0, .rNext 0] ++
    issue (.del 2) 2 ++ flushes 3 ++ [.rNext 0, .rNext 0])).map (fun s => (s.pos 0, s.fin 0, s.vis 0)) =
    some (none, true, [2, 1]) := by decide

end UrcuVerif.RcuList.Neg
