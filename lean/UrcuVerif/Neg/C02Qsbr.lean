import UrcuVerif.Handshake.QsbrTso
/-!
# C02 (QSBR) — necessity of the full fence between the updater's `waiting[i] := 1` stores and its scan

`wait_for_readers()` of `src/urcu-qsbr.c` (sleep phase): `futex := -1`; wmb; for every reader `waiting[i] := 1`; `cmm_smp_mb()`;
scan.  Variant `stepNF`: the fence only orders the futex store (the `waiting[i] := 1` stores may still sit in the updater's store
buffer when the reader words are loaded) – which is what folding the arming store into the scan loop gives on x86-TSO
(`store waiting[i]; load ctr[i]` is a store→load pair).  The concrete run below loses the wake-up: the reader publishes its
quiescent state, tests `waiting` (still 0 in memory) and does not wake; the updater has already seen the old reader word and goes to
sleep on `futex = -1` with nobody left to wake it.  On the real model (`step`) the same schedule is not a run.
-/
namespace UrcuVerif.QsbrHs.Neg
open UrcuVerif UrcuVerif.QsbrHs

/-- the handshake without the fence between arming and scanning -/
def stepNF (c : Cfg) (s : State) : Label → Option State
  | .wMb =>
    if s.wpc = .warm ∧ (∀ i, i < c.n → s.armed i = true) ∧ s.bfutm1 = false then some { s with wpc := .w1 } else none
  | l => step c s l

def runWith (f : State → Label → Option State) : State → List Label → Option State
  | s, [] => some s
  | s, l :: ls => match f s l with
    | some s' => runWith f s' ls
    | none => none

def sched : List Label :=
  [.w0, .wArm 0, .flushFutM1, .wMb, .w1Some 0,      -- updater: futex := -1 visible, waiting[0] := 1 still buffered, scan sees reader 0 old
   .k0 0, .k1Clear 0,                               -- reader 0: announces its quiescent state, loads waiting[0] = 0: no wake-up
   .flushWait 0, .w2Sleep]                          -- the arming store reaches memory too late; the updater sleeps on futex = -1

/-- **lost_wakeup_without_arm_fence**: asleep on `futex = -1`, the only reader is done (`k9`) and will never wake it -/
theorem lost_wakeup_without_arm_fence :
    (runWith (stepNF { n := 1 }) init sched).map (fun s => (s.wpc, s.futex, s.kpc 0, s.mdone 0)) =
      some (.wsleep, -1, .k9, true) := by decide

/-- with the fence (the real model) the same schedule is not a run: the scan cannot start before the arming store is visible -/
theorem real_model_rejects : runWith (step { n := 1 }) init sched = none := by decide

end UrcuVerif.QsbrHs.Neg
