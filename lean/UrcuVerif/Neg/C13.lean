import UrcuVerif.Props.C13Conc
/-!
Necessity witnesses for the concurrent part of C13 (DESIGN §4 C13): explicit runs, checked by
`decide` on the executable `step`, of the algorithm MINUS one step.  The harness executes
sequentially consistent schedules only, so a change to /repo that drops `cmm_smp_mb()` before
`wake_up_defer()` shows up as a trace divergence ("expected MB"); the check then reports the
first run below as the concrete failing x86-TSO history of the patched algorithm.

On x86-TSO the store→store order `q[]` before `head` (`cmm_smp_wmb`) and the load→store order
"read `q[]` before storing `tail`" (`cmm_smp_mb` before the tail store) are given by the hardware;
the steps whose POSITION matters on TSO are the three below.
-/
namespace UrcuVerif.DeferWake.Neg
open UrcuVerif.DeferWake

/-- no `cmm_smp_mb()` between the `head` store and the futex load: not the code -/
def cfgNoMb : Cfg := { n := 1, mbBeforeWake := false }
theorem cfgNoMb_not_wf : ¬ cfgNoMb.WF := by simp [Cfg.WF, cfgNoMb]

/-- owner 0 queues a call; its `head` store is still in its store buffer when it loads the futex
(reads 0: nobody to wake) and returns.  The defer thread then decrements the futex, scans memory
(queue 0 looks empty) and sleeps.  Nobody is left to wake it: the call is not run until some later
API call – "queued calls are also executed without any further API call" is violated. -/
def witnessNoMb : List Label :=
  [.k0 0, .kf 0, .k1 0, .k2Skip 0, .dDec, .dScanQ 0, .dScanEnd, .dLoad, .dWaitSleep]

theorem lost_wakeup_without_mb :
    (run cfgNoMb init witnessNoMb).map (fun s => (s.dpc, s.futex, s.kpc 0, s.bhd 0, s.hd 0, s.tl 0)) =
      some (.dsleep, -1, .k0, true, 1, 0) := by decide

/-- even after the store finally reaches memory nothing wakes the sleeper -/
theorem lost_wakeup_without_mb_late :
    (run cfgNoMb init (witnessNoMb ++ [.flushHd 0])).map (fun s => (s.dpc, s.futex, s.kpc 0, s.mh 0, s.tl 0)) =
      some (.dsleep, -1, .k0, 1, 0) := by decide

/-- the same schedule is impossible in the real configuration -/
example : run { n := 1 } init witnessNoMb = none := by decide

/-- `wait_defer` scanning the queues BEFORE decrementing the futex: not the code -/
def cfgScanFirst : Cfg := { n := 1, decFirst := false }
theorem cfgScanFirst_not_wf : ¬ cfgScanFirst.WF := by simp [Cfg.WF, cfgScanFirst]

/-- the defer thread scans (queue 0 empty); owner 0 then queues a call completely – store
committed, fence, futex load reads 0, no wake-up; the defer thread decrements and sleeps with a
non-empty queue and nobody left to wake it.  No store-buffer delay is involved: this one is lost
on a sequentially consistent machine too. -/
def witnessScanFirst : List Label :=
  [.dScanStart, .dScanQ 0, .dScanEnd, .k0 0, .flushHd 0, .kf 0, .k1 0, .k2Skip 0, .dDec, .dLoad, .dWaitSleep]

theorem lost_wakeup_scan_before_dec :
    (run cfgScanFirst init witnessScanFirst).map (fun s => (s.dpc, s.futex, s.kpc 0, s.mh 0, s.tl 0)) =
      some (.dsleep, -1, .k0, 1, 0) := by decide

end UrcuVerif.DeferWake.Neg

namespace UrcuVerif.DeferConc.Neg
open UrcuVerif.DeferConc
open UrcuVerif.Defer (Invk Call)

/-- `tail` published before the batch has been consumed: not the code -/
def cfgTailEarly : Cfg := { size := 4, nr := 0, tailLate := false }
theorem cfgTailEarly_not_wf : ¬ cfgTailEarly.WF := by simp [Cfg.WF, cfgTailEarly]

/-- owner 0 queues `(16, 32)` (two slots, indices 0 and 1).  A runner snapshots `head = 2`, waits
for a grace period, reads `tail` and – in the patched order – stores `tail := 2` at once.  The
owner's next call `(mark, 7)` loads the new tail, finds the ring empty and stores its three words at
indices 2, 3, 4: index 4 is slot 0, which the runner has not read yet.  The runner then decodes
`7, 32` and invokes `(6, 32)`: a call that was never queued, with a function word that is garbage. -/
def witnessTailEarly : List Label :=
  [.oCall 0 16#64 32#64, .oStQ 0, .oStQ 0, .oStHead 0, .flushQ 0, .flushQ 0, .flushH 0, .oMb 0,
   .rLock 1 .barrier, .rSnap 0, .rGpCall, .rGp, .rBegin, .flushT,
   .oCall 0 mark 7#64, .oStQ 0, .oStQ 0, .oStQ 0, .flushQ 0, .flushQ 0, .flushQ 0,
   .rLd, .rLd, .rInvoke]

theorem overwrite_when_tail_published_early :
    (run cfgTailEarly (init cfgTailEarly) witnessTailEarly).map
      (fun s => ((s.invoked 0).map Invk.pair, (s.queued 0).map Call.pair, (s.mq 0).toList)) =
      some ([(6#64, 32#64)], [(16#64, 32#64), (mark, 7#64)], [7#64, 32#64, mark, mark]) := by decide +kernel

/-- in the real order the owner's second call sees the old tail and must flush first: the same
schedule is not a run of the model of the code -/
example : (run c4 (init c4) witnessTailEarly).isNone = true := by decide +kernel

end UrcuVerif.DeferConc.Neg
