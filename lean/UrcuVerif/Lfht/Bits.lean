import UrcuVerif.Gen.BitRev
/-!
# Bit tricks of `src/rculfhash.c`: bit reversal, `fls`, count order   (core Lean only)

* `revBits n v` – specification of reversing the low `n` bits of `v`;  `rev8 = revBits 8`.
* `bitReverse64` – `bit_reverse_u64()` exactly as the C code composes it from the byte table
  `BitReverseTable256` (which is regenerated from the source on every run: `Gen/BitRev.lean`).
* `fls`, `countOrder` – `cds_lfht_fls_ulong()` / `cds_lfht_get_count_order_ulong()`.
-/
namespace UrcuVerif.Lfht

/-- reverse the low `n` bits of `v` (bit `i` goes to bit `n-1-i`); higher bits are dropped -/
def revBits : Nat → Nat → Nat
  | 0, _ => 0
  | n+1, v => (v % 2) * 2^n + revBits n (v / 2)

/-- byte reversal specification -/
def rev8 (i : Nat) : Nat := revBits 8 i

/-- `bit_reverse_u8(v)`: table look-up; the C parameter type `uint8_t` truncates the argument -/
def bitReverseU8 (v : Nat) : Nat := Gen.BitReverseTable256[v % 256]!

/-- `bit_reverse_u64(v)` (= `bit_reverse_ulong` on this 64-bit build), composed as in the C code -/
def bitReverse64 (v : Nat) : Nat :=
  (bitReverseU8 v <<< 56) ||| (bitReverseU8 (v >>> 8) <<< 48) ||| (bitReverseU8 (v >>> 16) <<< 40) |||
  (bitReverseU8 (v >>> 24) <<< 32) ||| (bitReverseU8 (v >>> 32) <<< 24) ||| (bitReverseU8 (v >>> 40) <<< 16) |||
  (bitReverseU8 (v >>> 48) <<< 8) ||| (bitReverseU8 (v >>> 56))

/-- `fls`: position of the most significant set bit, 1-based; 0 for 0.
(x86-64: `bsrq` + 1, `-1 + 1` for zero.) -/
def fls (x : Nat) : Nat := if x = 0 then 0 else Nat.log2 x + 1

/-- `cds_lfht_get_count_order_ulong`: `-1` for 0, else `fls(x-1)` -/
def countOrder (x : Nat) : Int := if x = 0 then -1 else (fls (x - 1) : Nat)

/-- the same as a natural number for `x > 0` (what `1UL << order` uses) -/
def countOrderNat (x : Nat) : Nat := fls (x - 1)

/-- `cds_lfht_get_count_order_u32` (static; used by `check_resize` only) -/
def countOrderU32 (x : Nat) : Int := if x % 2^32 = 0 then -1 else (fls (x % 2^32 - 1) : Nat)

/-! ## Proofs -/

theorem revBits_lt (n v : Nat) : revBits n v < 2^n := by
  induction n generalizing v with
  | zero => simp [revBits]
  | succ n ih =>
    simp only [revBits]
    have := ih (v/2)
    have h2 : v % 2 < 2 := Nat.mod_lt _ (by decide)
    have : v % 2 * 2^n ≤ 1 * 2^n := Nat.mul_le_mul_right _ (by omega)
    rw [Nat.pow_succ]; omega

theorem revBits_split (k m v : Nat) :
    revBits (k+m) v = revBits k (v % 2^k) * 2^m + revBits m (v / 2^k) := by
  induction k generalizing v with
  | zero => simp [revBits]
  | succ k ih =>
    have e : k + 1 + m = (k + m) + 1 := by omega
    rw [e]
    simp only [revBits]
    rw [ih]
    have h1 : v % 2 ^ (k+1) % 2 = v % 2 := by
      rw [Nat.pow_succ, Nat.mul_comm]; exact Nat.mod_mul_right_mod v 2 (2^k)
    have h2 : v % 2 ^ (k+1) / 2 = v / 2 % 2^k := by
      rw [Nat.pow_succ, Nat.mul_comm]; exact Nat.mod_mul_right_div_self v 2 (2^k)
    have h3 : v / 2 / 2^k = v / 2^(k+1) := by
      rw [Nat.div_div_eq_div_mul, Nat.pow_succ, Nat.mul_comm]
    rw [h1, h2, h3, Nat.add_mul, Nat.pow_add, Nat.mul_assoc]; omega

theorem revBits_one (v : Nat) : revBits 1 v = v % 2 := by simp [revBits]

theorem revBits_invol (n v : Nat) (h : v < 2^n) : revBits n (revBits n v) = v := by
  induction n generalizing v with
  | zero => simp at h; simp [revBits, h]
  | succ n ih =>
    have hw : revBits (n+1) v = (v % 2) * 2^n + revBits n (v/2) := rfl
    have hlt := revBits_lt n (v/2)
    rw [revBits_split n 1, hw]
    have a1 : (v % 2 * 2^n + revBits n (v/2)) % 2^n = revBits n (v/2) := by
      rw [Nat.add_comm, Nat.add_mul_mod_self_right, Nat.mod_eq_of_lt hlt]
    have a2 : (v % 2 * 2^n + revBits n (v/2)) / 2^n = v % 2 := by
      rw [Nat.add_comm, Nat.add_mul_div_right _ _ (Nat.pow_pos (by decide)), Nat.div_eq_of_lt hlt]; simp
    rw [a1, a2, ih _ (by rw [Nat.pow_succ] at h; omega), revBits_one]; simp; omega

/-- the table compiled into the library (regenerated from the source each run) is the byte reversal -/
theorem bitrev_table_correct : ∀ i, i < 256 → Gen.BitReverseTable256[i]! = rev8 i := by
  decide +kernel

theorem revBits_mod (n v : Nat) : revBits n (v % 2^n) = revBits n v := by
  have := revBits_split n 0 v
  simp [revBits] at this; exact this.symm

theorem bitReverseU8_eq (v : Nat) : bitReverseU8 v = revBits 8 v := by
  unfold bitReverseU8
  rw [bitrev_table_correct _ (Nat.mod_lt _ (by decide)), rev8]
  exact revBits_mod 8 v

private theorem or_add (i a y : Nat) (hy : y < 2^i) : (a * 2^i) ||| y = a * 2^i + y := by
  rw [Nat.mul_comm]; exact (Nat.two_pow_add_eq_or_of_lt hy a).symm

/-- the C composition from the byte table is the 64-bit reversal (of the low 64 bits) -/
theorem bitReverse64_eq (v : Nat) : bitReverse64 v = revBits 64 v := by
  unfold bitReverse64
  simp only [bitReverseU8_eq, Nat.shiftLeft_eq, Nat.shiftRight_eq_div_pow]
  have s1 := revBits_split 8 56 v
  have s2 := revBits_split 8 48 (v / 2^8)
  have s3 := revBits_split 8 40 (v / 2^8 / 2^8)
  have s4 := revBits_split 8 32 (v / 2^8 / 2^8 / 2^8)
  have s5 := revBits_split 8 24 (v / 2^8 / 2^8 / 2^8 / 2^8)
  have s6 := revBits_split 8 16 (v / 2^8 / 2^8 / 2^8 / 2^8 / 2^8)
  have s7 := revBits_split 8 8 (v / 2^8 / 2^8 / 2^8 / 2^8 / 2^8 / 2^8)
  simp only [revBits_mod, Nat.div_div_eq_div_mul] at s1 s2 s3 s4 s5 s6 s7
  have l0 := revBits_lt 8 v
  have l1 := revBits_lt 8 (v / 2^8)
  have l2 := revBits_lt 8 (v / 2^16)
  have l3 := revBits_lt 8 (v / 2^24)
  have l4 := revBits_lt 8 (v / 2^32)
  have l5 := revBits_lt 8 (v / 2^40)
  have l6 := revBits_lt 8 (v / 2^48)
  have l7 := revBits_lt 8 (v / 2^56)
  generalize revBits 8 v = r0 at *
  generalize revBits 8 (v / 2^8) = r1 at *
  generalize revBits 8 (v / 2^16) = r2 at *
  generalize revBits 8 (v / 2^24) = r3 at *
  generalize revBits 8 (v / 2^32) = r4 at *
  generalize revBits 8 (v / 2^40) = r5 at *
  generalize revBits 8 (v / 2^48) = r6 at *
  generalize revBits 8 (v / 2^56) = r7 at *
  have st : ∀ (X r s : Nat), 2^(s+8) ∣ X → r < 2^8 → X ||| r * 2^s = X + r * 2^s := by
    intro X r s ⟨a, ha⟩ hr
    subst ha
    rw [Nat.mul_comm (2^(s+8)) a]
    apply or_add
    rw [Nat.pow_add, Nat.mul_comm (2^s)]
    exact Nat.mul_lt_mul_of_pos_right hr (Nat.pow_pos (by decide))
  have e7 : r7 = r7 * 2^0 := by simp
  rw [e7, st _ r1 48 (by omega) l1, st _ r2 40 (by omega) l2, st _ r3 32 (by omega) l3,
    st _ r4 24 (by omega) l4, st _ r5 16 (by omega) l5, st _ r6 8 (by omega) l6, st _ r7 0 (by omega) l7]
  simp only [Nat.reduceAdd] at s1 s2 s3 s4 s5 s6 s7
  omega

theorem revBits_zero (n : Nat) : revBits n 0 = 0 := by
  induction n with
  | zero => rfl
  | succ n ih => simp [revBits, ih]

theorem revBits_one_arg (n : Nat) : revBits (n+1) 1 = 2^n := by
  simp [revBits, revBits_zero]

theorem revBits_split_exact (n k h : Nat) (hk : k ≤ n) :
    revBits n h = revBits n (h % 2^k) + revBits (n-k) (h / 2^k) := by
  obtain ⟨m, rfl⟩ : ∃ m, n = k + m := ⟨n - k, by omega⟩
  have e : k + m - k = m := by omega
  rw [e, revBits_split k m h, revBits_split k m (h % 2^k), Nat.mod_mod,
    Nat.div_eq_of_lt (Nat.mod_lt _ (Nat.pow_pos (by decide))), revBits_zero]
  simp

theorem bitrev64_lt (v : Nat) : bitReverse64 v < 2^64 := by
  rw [bitReverse64_eq]; exact revBits_lt 64 v

theorem bitrev64_involutive (v : Nat) (h : v < 2^64) : bitReverse64 (bitReverse64 v) = v := by
  rw [bitReverse64_eq, bitReverse64_eq]; exact revBits_invol 64 v h

theorem bitrev64_injective {a b : Nat} (ha : a < 2^64) (hb : b < 2^64)
    (h : bitReverse64 a = bitReverse64 b) : a = b := by
  rw [← bitrev64_involutive a ha, ← bitrev64_involutive b hb, h]

/-- exact form of the split-order fact: the reversed hash is the reversed bucket index plus an
offset that only depends on the bits above the bucket mask -/
theorem bitrev_split_exact (k h : Nat) (hk : k ≤ 64) :
    bitReverse64 h = bitReverse64 (h % 2^k) + revBits (64-k) (h / 2^k) := by
  rw [bitReverse64_eq, bitReverse64_eq]; exact revBits_split_exact 64 k h hk

theorem mask_eq_mod (h k : Nat) : h &&& (2^k - 1) = h % 2^k := Nat.and_two_pow_sub_one_eq_mod h k

theorem bitrev_bucket_le (k h : Nat) (hk : k ≤ 64) :
    bitReverse64 (h &&& (2^k - 1)) ≤ bitReverse64 h := by
  rw [mask_eq_mod, bitrev_split_exact k h hk]; omega

theorem bitrev_parent_lt (i j : Nat) (hi : i < 64) (h1 : 2^i ≤ j) (h2 : j < 2^(i+1)) :
    bitReverse64 (j - 2^i) < bitReverse64 j := by
  have hm : j % 2^i = j - 2^i := by
    have : j = (j - 2^i) + 2^i := by omega
    rw [Nat.pow_succ] at h2
    conv => lhs; rw [this]
    rw [Nat.add_mod_right, Nat.mod_eq_of_lt (by omega)]
  have hd : j / 2^i = 1 := by
    rw [Nat.pow_succ] at h2
    have : 0 < 2^i := Nat.pow_pos (by decide)
    apply Nat.div_eq_of_lt_le <;> omega
  rw [bitrev_split_exact i j (by omega), hm, hd]
  obtain ⟨m, hm'⟩ : ∃ m, 64 - i = m + 1 := ⟨63 - i, by omega⟩
  rw [hm', revBits_one_arg]
  have : 0 < 2^m := Nat.pow_pos (by decide)
  omega

theorem fls_zero : fls 0 = 0 := rfl

theorem fls_spec (x : Nat) (hx : x ≠ 0) : 2^(fls x - 1) ≤ x ∧ x < 2^(fls x) := by
  simp only [fls, hx, if_false, Nat.add_sub_cancel]
  exact ⟨Nat.log2_self_le hx, Nat.lt_log2_self⟩

theorem fls_le_iff (x k : Nat) : fls x ≤ k ↔ x < 2^k := by
  by_cases hx : x = 0
  · subst hx; simp [fls, Nat.pow_pos]
  · simp only [fls, hx, if_false]
    rw [← Nat.log2_lt hx]; omega

/-- `cds_lfht_get_count_order_ulong(x)`: −1 for 0, else the minimal `order` with `x ≤ 2^order` -/
theorem count_order_spec (x : Nat) :
    (x = 0 → countOrder x = -1) ∧
    (x ≠ 0 → countOrder x = (countOrderNat x : Nat) ∧ x ≤ 2^(countOrderNat x) ∧
       ∀ o, x ≤ 2^o → countOrderNat x ≤ o) := by
  refine ⟨fun h => by simp [countOrder, h], fun hx => ⟨by simp [countOrder, countOrderNat, hx], ?_, ?_⟩⟩
  · have := (fls_le_iff (x-1) (countOrderNat x)).1 (Nat.le_refl _)
    omega
  · intro o ho
    exact (fls_le_iff (x-1) o).2 (by omega)

theorem countOrderNat_pow2 (k : Nat) : countOrderNat (2^k) = k := by
  have h := (count_order_spec (2^k)).2 (Nat.ne_of_gt (Nat.pow_pos (by decide)))
  have h1 := h.2.2 k (Nat.le_refl _)
  have h2 := h.2.1
  have := (Nat.pow_le_pow_iff_right (a := 2) (by decide)).1 h2
  omega

theorem fls_lt_64 (x : Nat) (h : x < 2^64) : fls x ≤ 64 := (fls_le_iff x 64).2 h

/-- the C power-of-two test `x && !(x & (x - 1))` -/
def isPow2C (x : Nat) : Bool := x != 0 && (x &&& (x - 1)) == 0

theorem isPow2C_iff (x : Nat) : isPow2C x = true ↔ ∃ k, x = 2^k := by
  simp only [isPow2C, Bool.and_eq_true, bne_iff_ne, ne_eq, beq_iff_eq]
  constructor
  · rintro ⟨hx, ha⟩
    refine ⟨x.log2, ?_⟩
    have h1 := Nat.log2_self_le hx
    have h2 := @Nat.lt_log2_self x
    by_cases he : x = 2^x.log2
    · exact he
    · exfalso
      have t1 : x.testBit x.log2 = true := by
        rw [Nat.testBit_eq_decide_div_mod_eq]
        have : x / 2^x.log2 = 1 := by
          apply Nat.div_eq_of_lt_le <;> (rw [Nat.pow_succ] at h2; omega)
        simp [this]
      have t2 : (x-1).testBit x.log2 = true := by
        rw [Nat.testBit_eq_decide_div_mod_eq]
        have : (x-1) / 2^x.log2 = 1 := by
          apply Nat.div_eq_of_lt_le <;> (rw [Nat.pow_succ] at h2; omega)
        simp [this]
      have := Nat.testBit_and x (x-1) x.log2
      rw [ha, t1, t2] at this
      simp at this
  · rintro ⟨k, rfl⟩
    refine ⟨Nat.ne_of_gt (Nat.pow_pos (by decide)), ?_⟩
    rw [Nat.and_two_pow_sub_one_eq_mod]; simp

/-- reversed bucket indexes below `2^k` are multiples of `2^(64-k)` -/
theorem bitrev_small (k y : Nat) (hk : k ≤ 64) (hy : y < 2^k) :
    bitReverse64 y = revBits k y * 2^(64-k) := by
  rw [bitReverse64_eq]
  have := revBits_split k (64-k) y
  have e : k + (64 - k) = 64 := by omega
  rw [e, Nat.mod_eq_of_lt hy, Nat.div_eq_of_lt hy, revBits_zero] at this
  simpa using this

theorem revBits_injective {n a b : Nat} (ha : a < 2^n) (hb : b < 2^n) (h : revBits n a = revBits n b) : a = b := by
  rw [← revBits_invol n a ha, ← revBits_invol n b hb, h]

theorem bitrev_child (k i : Nat) (hk : k < 64) (hi : i < 2^k) :
    bitReverse64 (2^k + i) = bitReverse64 i + 2^(63-k) := by
  have h1 : (2^k + i) % 2^k = i := by rw [Nat.add_mod_left, Nat.mod_eq_of_lt hi]
  have h2 : (2^k + i) / 2^k = 1 := by
    apply Nat.div_eq_of_lt_le <;> omega
  rw [bitrev_split_exact k (2^k + i) (by omega), h1, h2]
  obtain ⟨m, hm⟩ : ∃ m, 64 - k = m + 1 := ⟨63 - k, by omega⟩
  have : 63 - k = m := by omega
  rw [hm, revBits_one_arg, this]

/-- When the bucket nodes `0 … 2^k+i-1` are linked, nothing sorts between bucket `i` and its child
`2^k+i`: `cds_lfht_create_bucket` may link the child directly behind its parent. -/
theorem bitrev_no_between (k i x : Nat) (hk : k < 64) (hi : i < 2^k) (hx : x < 2^(k+1)) (hne : x ≠ 2^k + i)
    (hlt : bitReverse64 i < bitReverse64 x) : bitReverse64 (2^k + i) < bitReverse64 x := by
  rw [bitrev_child k i hk hi]
  have hpos : 0 < 2^k := Nat.pow_pos (by decide)
  have hxm : x % 2^k < 2^k := Nat.mod_lt _ hpos
  have hsx := bitrev_split_exact k x (by omega)
  have hq : x / 2^k < 2 := by
    rw [Nat.pow_succ] at hx
    exact Nat.div_lt_of_lt_mul hx
  obtain ⟨m, hm⟩ : ∃ m, 64 - k = m + 1 := ⟨63 - k, by omega⟩
  have hm' : 63 - k = m := by omega
  have hoff : (x / 2^k = 0 ∧ revBits (64 - k) (x / 2^k) = 0) ∨
      (x / 2^k = 1 ∧ revBits (64 - k) (x / 2^k) = 2^(63-k)) := by
    have : x / 2^k = 0 ∨ x / 2^k = 1 := (fun q (hq : q < 2) => (by omega : q = 0 ∨ q = 1)) _ hq
    rcases this with h0 | h1
    · left; rw [h0, revBits_zero]; exact ⟨rfl, rfl⟩
    · right; rw [h1, hm, revBits_one_arg, hm']; exact ⟨rfl, rfl⟩
  have hE : 2^(64-k) = 2 * 2^(63-k) := by
    rw [hm, hm', Nat.pow_succ]; omega
  have hD : 0 < 2^(63-k) := Nat.pow_pos (by decide)
  have hxeq : x = 2^k * (x / 2^k) + x % 2^k := (Nat.div_add_mod x (2^k)).symm
  have hinj : revBits k i = revBits k (x % 2^k) → i = x % 2^k := revBits_injective hi hxm
  rw [bitrev_small k i (by omega) hi] at hlt ⊢
  rw [hsx, bitrev_small k (x % 2^k) (by omega) hxm] at hlt ⊢
  generalize revBits (64 - k) (x / 2^k) = off at *
  generalize 2^(64-k) = E at *
  generalize 2^(63-k) = D at *
  generalize revBits k i = a at *
  generalize revBits k (x % 2^k) = b at *
  rcases hoff with ⟨h0, rfl⟩ | ⟨h1, rfl⟩
  · have hab : a < b := by
      apply Nat.lt_of_mul_lt_mul_right (a := E); omega
    have := Nat.mul_le_mul_right E (Nat.succ_le_of_lt hab)
    rw [Nat.succ_mul] at this
    omega
  · have hab : a ≤ b := by
      apply Nat.le_of_not_lt
      intro hba
      have := Nat.mul_le_mul_right E (Nat.succ_le_of_lt hba)
      rw [Nat.succ_mul] at this
      omega
    rcases Nat.lt_or_eq_of_le hab with hlt' | heq
    · have := Nat.mul_le_mul_right E (Nat.succ_le_of_lt hlt')
      rw [Nat.succ_mul] at this
      omega
    · exfalso
      have := hinj heq
      apply hne
      rw [h1] at hxeq
      omega

end UrcuVerif.Lfht
