import UrcuVerif.Gen.BitRev
/-!
# Bit tricks of `src/rculfhash.c`: bit reversal, `fls`, count order   (core Lean only)

* `revBits n v` – specification of reversing the low `n` bits of `v`;  `rev8 = revBits 8`.
* `bitReverse64` – `bit_reverse_u64()` exactly as the C code composes it from the byte table
  `BitReverseTable256` (which is regenerated from the source on every run: `Gen/BitRev.lean`).
* `fls`, `countOrder` – `cds_lfht_fls_ulong()` / `cds_lfht_get_count_order_ulong()`.
-/
namespace UrcuVerif.Lfht

/-- reverse the low `n` bits of `v` (bit `i` goes to bit `n-1-i`); higher bits are dropped -/
def revBits : Nat → Nat → Nat
  | 0, _ => 0
  | n+1, v => (v % 2) * 2^n + revBits n (v / 2)

/-- byte reversal specification -/
def rev8 (i : Nat) : Nat := revBits 8 i

/-- `bit_reverse_u8(v)`: table look-up; the C parameter type `uint8_t` truncates the argument -/
def bitReverseU8 (v : Nat) : Nat := Gen.BitReverseTable256[v % 256]!

/-- `bit_reverse_u64(v)` (= `bit_reverse_ulong` on this 64-bit build), composed as in the C code -/
def bitReverse64 (v : Nat) : Nat :=
  (bitReverseU8 v <<< 56) ||| (bitReverseU8 (v >>> 8) <<< 48) ||| (bitReverseU8 (v >>> 16) <<< 40) |||
  (bitReverseU8 (v >>> 24) <<< 32) ||| (bitReverseU8 (v >>> 32) <<< 24) ||| (bitReverseU8 (v >>> 40) <<< 16) |||
  (bitReverseU8 (v >>> 48) <<< 8) ||| (bitReverseU8 (v >>> 56))

/-- `fls`: position of the most significant set bit, 1-based; 0 for 0.
(x86-64: `bsrq` + 1, `-1 + 1` for zero.) -/
def fls (x : Nat) : Nat := if x = 0 then 0 else Nat.log2 x + 1

/-- `cds_lfht_get_count_order_ulong`: `-1` for 0, else `fls(x-1)` -/
def countOrder (x : Nat) : Int := if x = 0 then -1 else (fls (x - 1) : Nat)

/-- the same as a natural number for `x > 0` (what `1UL << order` uses) -/
def countOrderNat (x : Nat) : Nat := fls (x - 1)

/-- `cds_lfht_get_count_order_u32` (static; used by `check_resize` only) -/
def countOrderU32 (x : Nat) : Int := if x % 2^32 = 0 then -1 else (fls (x % 2^32 - 1) : Nat)

end UrcuVerif.Lfht
