import UrcuVerif.Lfht.Resize
/-!
# C09 — bucket-table memory management plug-ins
(`src/rculfhash-mm-order.c`, `-chunk.c`, `-mmap.c`, parameter handling of
`_cds_lfht_new_with_alloc` in `src/rculfhash.c`)

Executable model of the index arithmetic: `bucketAt index ↦ (slot, offset)` where `slot` is the
entry of `tbl_order[]` / `tbl_chunk[]` (0 for the single `tbl_mmap` array) the returned pointer is
based on and `offset` the cell number inside that allocation; which `alloc_bucket_table(order)`
call creates which slot; what each such call allocates.
-/
namespace UrcuVerif.Lfht.Mm
open UrcuVerif.Gen UrcuVerif.Lfht.Resize

inductive Kind | order | chunk | mmap
  deriving Repr, DecidableEq

/-- the fields of `struct cds_lfht` the plug-ins read, after all adjustments -/
structure Params where
  kind : Kind
  minAlloc : Nat      -- `min_nr_alloc_buckets`
  minOrder : Nat      -- `min_alloc_buckets_order`
  mx : Nat            -- `max_nr_buckets`
  size0 : Nat         -- initial `size`
  deriving Repr, DecidableEq

/-- Argument checks and adjustments of `_cds_lfht_new_with_alloc` (plug-in given explicitly)
followed by the plug-in's `alloc_cds_lfht`; `none` = the API returns NULL.
`pageBuckets` = `getpagesize() / sizeof(struct cds_lfht_node)`. -/
def newTable (k : Kind) (pageBuckets init minAlloc mx : Nat) : Option Params :=
  if minAlloc = 0 || !andTest minAlloc then none
  else if init = 0 || !andTest init then none
  else if mx = 0 || !andTest mx then none
  else
    let minAlloc := max minAlloc MIN_TABLE_SIZE
    let init := max init MIN_TABLE_SIZE
    let mx := max mx minAlloc
    let init := min init mx
    let minAlloc' := match k with
      | .order => minAlloc
      | .chunk => max minAlloc (mx / MAX_CHUNK_TABLE)
      | .mmap => if mx ≤ pageBuckets then mx else max minAlloc pageBuckets
    some { kind := k, minAlloc := minAlloc', minOrder := order minAlloc', mx := mx,
           size0 := shl 1 (order init) }

/-- `bucket_at(ht, index)` of each plug-in: (slot, offset) -/
def bucketAt (p : Params) (idx : Nat) : Nat × Nat :=
  match p.kind with
  | .order =>
    if idx < p.minAlloc then (0, idx)
    else let o := fls idx; (o, idx &&& (shl 1 (o - 1) - 1))
  | .chunk => (idx >>> p.minOrder, idx &&& (p.minAlloc - 1))
  | .mmap => (0, idx)

/-- number of cells of the allocation slot `s` is based on -/
def allocLen (p : Params) (slot : Nat) : Nat :=
  match p.kind with
  | .order => if slot = 0 then p.minAlloc else shl 1 (slot - 1)
  | .chunk => p.minAlloc
  | .mmap => p.mx

/-- the `alloc_bucket_table(order)` call that creates slot `s` (order / chunk plug-ins) -/
def slotOrder (p : Params) (slot : Nat) : Nat :=
  match p.kind with
  | .order => slot
  | .chunk => if slot = 0 then 0 else fls slot + p.minOrder
  | .mmap => 0

/-- mmap plug-in: `alloc_bucket_table(o)` makes cell `idx` accessible -/
def populatedBy (p : Params) (o idx : Nat) : Prop :=
  (o = 0 ∧ idx < p.minAlloc) ∨ (o > p.minOrder ∧ 2 ^ (o - 1) ≤ idx ∧ idx < 2 ^ o)

/-- does `alloc_bucket_table(o)` allocate anything (orders `1 … minOrder` live in the order-0 allocation) -/
def allocates (p : Params) (o : Nat) : Bool := o == 0 || decide (o > p.minOrder)

/-- `alloc_bucket_table(o)`: (number of `calloc`s through `cds_lfht_alloc`, `nmemb` of each) -/
def allocCallocs (p : Params) (o : Nat) : Nat × Nat :=
  match p.kind with
  | .order =>
    if o = 0 then (1, p.minAlloc) else if o > p.minOrder then (1, shl 1 (o - 1)) else (0, 0)
  | .chunk =>
    if o = 0 then (1, p.minAlloc)
    else if o > p.minOrder then (shl 1 (o - 1 - p.minOrder), p.minAlloc) else (0, 0)
  | .mmap => if o = 0 ∧ p.minAlloc = p.mx then (1, p.mx) else (0, 0)

/-- the slots `alloc_bucket_table(o)` fills in -/
def allocSlots (p : Params) (o : Nat) : List Nat :=
  match p.kind with
  | .order => if o = 0 ∨ o > p.minOrder then [o] else []
  | .chunk =>
    if o = 0 then [0]
    else if o > p.minOrder then
      let len := shl 1 (o - 1 - p.minOrder)
      (List.range len).map (· + len)
    else []
  | .mmap => if o = 0 then [0] else []

end UrcuVerif.Lfht.Mm
