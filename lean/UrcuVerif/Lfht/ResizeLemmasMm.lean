import UrcuVerif.Lfht.Mm
import UrcuVerif.Lfht.ResizeLemmas
/-!
# C09 — lemmas about the bucket-table allocators (`Lfht/Mm.lean`)
-/
namespace UrcuVerif.Lfht.Mm
open UrcuVerif.Gen UrcuVerif.Lfht.Resize

theorem and_mask (x n : Nat) : x &&& (2 ^ n - 1) = x % 2 ^ n := Nat.and_two_pow_sub_one_eq_mod x n

theorem fls_pos {x : Nat} (h : x ≠ 0) : 1 ≤ fls x := by simp [fls, h]

theorem fls_le_64 {x : Nat} (h : x < 2 ^ 64) : fls x ≤ 64 := fls_lt_iff.mpr h

theorem mod_top {i n : Nat} (h1 : n ≤ i) (h2 : i < 2 * n) : i % n = i - n := by
  rw [Nat.mod_eq_sub_mod h1, Nat.mod_eq_of_lt (by omega)]

/-- order allocator: the cell of every index below the table size lies inside the allocation its
slot points to, and that allocation was made by an `alloc_bucket_table(o)` call with `o ≤ order(size)` -/
theorem bucket_at_order_in_bounds (p : Params) (hk : p.kind = .order) (ha : p.minAlloc = 2 ^ p.minOrder)
    {k idx : Nat} (hk63 : k ≤ 63) (hidx : idx < 2 ^ k) :
    (bucketAt p idx).2 < allocLen p (bucketAt p idx).1 ∧ slotOrder p (bucketAt p idx).1 ≤ k ∧
      allocates p (slotOrder p (bucketAt p idx).1) = true ∧
      (bucketAt p idx).1 ∈ allocSlots p (slotOrder p (bucketAt p idx).1) := by
  unfold bucketAt allocLen slotOrder allocates allocSlots
  simp only [hk]
  by_cases hlt : idx < p.minAlloc
  · simp [hlt]
  · simp only [hlt, if_false]
    have hne : idx ≠ 0 := by have := Nat.two_pow_pos p.minOrder; omega
    have hb := fls_bounds hne
    have hpos := fls_pos hne
    have hok : fls idx ≤ k := fls_lt_iff.mpr hidx
    have hom : ¬ fls idx ≤ p.minOrder := by rw [fls_lt_iff, ← ha]; exact hlt
    rw [shl_one (by omega), and_mask]
    have hmod := Nat.mod_lt idx (Nat.two_pow_pos (fls idx - 1))
    refine ⟨?_, hok, ?_, ?_⟩
    · rw [if_neg (by omega)]; exact hmod
    · simp; omega
    · rw [if_pos (Or.inr (by omega))]; simp

theorem bucket_at_order_injective (p : Params) (hk : p.kind = .order) (ha : p.minAlloc = 2 ^ p.minOrder)
    {i1 i2 : Nat} (h1 : i1 < 2 ^ 64) (h2 : i2 < 2 ^ 64) (h : bucketAt p i1 = bucketAt p i2) : i1 = i2 := by
  unfold bucketAt at h
  simp only [hk] at h
  have key : ∀ i, i < 2 ^ 64 → ¬ i < p.minAlloc →
      1 ≤ fls i ∧ i &&& (shl 1 (fls i - 1) - 1) = i - 2 ^ (fls i - 1) ∧ 2 ^ (fls i - 1) ≤ i := by
    intro i hi hlt
    have hne : i ≠ 0 := by have := Nat.two_pow_pos p.minOrder; omega
    have hb := fls_bounds hne
    have hpos := fls_pos hne
    have h64 := fls_le_64 hi
    rw [shl_one (by omega), and_mask]
    refine ⟨hpos, mod_top hb.1 ?_, hb.1⟩
    have : 2 ^ fls i = 2 * 2 ^ (fls i - 1) := by
      rw [← Nat.pow_succ']; congr 1; omega
    omega
  by_cases c1 : i1 < p.minAlloc <;> by_cases c2 : i2 < p.minAlloc <;> simp only [c1, c2, if_true, if_false, Prod.mk.injEq] at h
  · exact h.2
  · have := key i2 h2 c2; omega
  · have := key i1 h1 c1; omega
  · have k1 := key i1 h1 c1
    have k2 := key i2 h2 c2
    obtain ⟨e1, e2⟩ := h
    rw [k1.2.1, k2.2.1, e1] at e2
    rw [e1] at k1
    omega

/-- chunk allocator -/
theorem bucket_at_chunk_in_bounds (p : Params) (hk : p.kind = .chunk) (ha : p.minAlloc = 2 ^ p.minOrder)
    {M : Nat} (hM : p.mx = 2 ^ M) (hmM : p.minOrder ≤ M) {k idx : Nat} (hk63 : k ≤ 63) (hkM : k ≤ M) (hidx : idx < 2 ^ k) :
    (bucketAt p idx).2 < allocLen p (bucketAt p idx).1 ∧ (bucketAt p idx).1 < p.mx / p.minAlloc ∧
      slotOrder p (bucketAt p idx).1 ≤ k ∧ allocates p (slotOrder p (bucketAt p idx).1) = true ∧
      (bucketAt p idx).1 ∈ allocSlots p (slotOrder p (bucketAt p idx).1) := by
  unfold bucketAt allocLen slotOrder allocates allocSlots
  simp only [hk, ha, and_mask, Nat.shiftRight_eq_div_pow, hM]
  have hp := Nat.two_pow_pos p.minOrder
  refine ⟨Nat.mod_lt _ hp, ?_, ?_, ?_, ?_⟩
  · rw [Nat.pow_div hmM (by omega), Nat.div_lt_iff_lt_mul hp, ← Nat.pow_add]
    have : M - p.minOrder + p.minOrder = M := by omega
    rw [this]
    exact Nat.lt_of_lt_of_le hidx (two_pow_le_two_pow.mpr hkM)
  · by_cases h0 : idx / 2 ^ p.minOrder = 0
    · simp [h0]
    · rw [if_neg h0]
      have : fls (idx / 2 ^ p.minOrder) ≤ k - p.minOrder := by
        rw [fls_lt_iff, Nat.div_lt_iff_lt_mul hp, ← Nat.pow_add]
        by_cases hkm : p.minOrder ≤ k
        · have : k - p.minOrder + p.minOrder = k := by omega
          rw [this]; exact hidx
        · exfalso
          have : idx < 2 ^ p.minOrder := Nat.lt_of_lt_of_le hidx (two_pow_le_two_pow.mpr (by omega))
          exact h0 (Nat.div_eq_of_lt this)
      have hpos := fls_pos h0
      by_cases hkm : p.minOrder ≤ k
      · omega
      · exfalso
        have : idx < 2 ^ p.minOrder := Nat.lt_of_lt_of_le hidx (two_pow_le_two_pow.mpr (by omega))
        exact h0 (Nat.div_eq_of_lt this)
  · by_cases h0 : idx / 2 ^ p.minOrder = 0
    · simp [h0]
    · have hpos := fls_pos h0
      simp [h0]; omega
  · by_cases h0 : idx / 2 ^ p.minOrder = 0
    · simp [h0]
    · have hpos := fls_pos h0
      have hb := fls_bounds h0
      rw [if_neg h0, if_neg (by omega), if_pos (by omega)]
      have hs : idx / 2 ^ p.minOrder < 2 ^ (k - p.minOrder) := by
        rw [Nat.div_lt_iff_lt_mul hp, ← Nat.pow_add]
        by_cases hkm : p.minOrder ≤ k
        · have : k - p.minOrder + p.minOrder = k := by omega
          rw [this]; exact hidx
        · exfalso
          have : idx < 2 ^ p.minOrder := Nat.lt_of_lt_of_le hidx (two_pow_le_two_pow.mpr (by omega))
          exact h0 (Nat.div_eq_of_lt this)
      have hf : fls (idx / 2 ^ p.minOrder) ≤ k - p.minOrder := fls_lt_iff.mpr hs
      have he : fls (idx / 2 ^ p.minOrder) + p.minOrder - 1 - p.minOrder = fls (idx / 2 ^ p.minOrder) - 1 := by omega
      rw [he, shl_one (by omega)]
      simp only [List.mem_map, List.mem_range]
      refine ⟨idx / 2 ^ p.minOrder - 2 ^ (fls (idx / 2 ^ p.minOrder) - 1), ?_, ?_⟩
      · have : 2 ^ fls (idx / 2 ^ p.minOrder) = 2 * 2 ^ (fls (idx / 2 ^ p.minOrder) - 1) := by
          rw [← Nat.pow_succ']; congr 1; omega
        omega
      · omega

theorem bucket_at_chunk_injective (p : Params) (hk : p.kind = .chunk) (ha : p.minAlloc = 2 ^ p.minOrder)
    {i1 i2 : Nat} (h : bucketAt p i1 = bucketAt p i2) : i1 = i2 := by
  unfold bucketAt at h
  simp only [hk, ha, and_mask, Nat.shiftRight_eq_div_pow, Prod.mk.injEq] at h
  have e1 := Nat.div_add_mod i1 (2 ^ p.minOrder)
  have e2 := Nat.div_add_mod i2 (2 ^ p.minOrder)
  rw [h.1, h.2] at e1
  omega

/-- mmap allocator: one array; the cell of index `idx < size` is inside the reservation and has
been made accessible by an `alloc_bucket_table(o)` call with `o ≤ order(size)` -/
theorem bucket_at_mmap_in_bounds (p : Params) (hk : p.kind = .mmap) (ha : p.minAlloc = 2 ^ p.minOrder)
    {M : Nat} (hM : p.mx = 2 ^ M) {k idx : Nat} (hkM : k ≤ M) (hidx : idx < 2 ^ k) :
    (bucketAt p idx).1 = 0 ∧ (bucketAt p idx).2 = idx ∧ idx < allocLen p 0 ∧
      ∃ o, o ≤ k ∧ allocates p o = true ∧ populatedBy p o idx := by
  unfold bucketAt allocLen
  simp only [hk, hM, true_and]
  refine ⟨Nat.lt_of_lt_of_le hidx (two_pow_le_two_pow.mpr hkM), ?_⟩
  by_cases hlt : idx < p.minAlloc
  · exact ⟨0, Nat.zero_le _, by simp [allocates], Or.inl ⟨rfl, hlt⟩⟩
  · have hne : idx ≠ 0 := by have := Nat.two_pow_pos p.minOrder; omega
    have hb := fls_bounds hne
    have hom : ¬ fls idx ≤ p.minOrder := by rw [fls_lt_iff, ← ha]; exact hlt
    refine ⟨fls idx, fls_lt_iff.mpr hidx, by simp [allocates]; omega, Or.inr ⟨by omega, hb.1, hb.2⟩⟩

theorem bucket_at_mmap_injective (p : Params) (hk : p.kind = .mmap) {i1 i2 : Nat}
    (h : bucketAt p i1 = bucketAt p i2) : i1 = i2 := by
  unfold bucketAt at h
  simp only [hk, Prod.mk.injEq, true_and] at h
  exact h
theorem max_chunk_table_eq : MAX_CHUNK_TABLE = 2 ^ 10 := by decide

theorem pow2_of_tests {x : Nat} (h0 : ¬ x = 0) (h1 : andTest x = true) : ∃ k, x = 2 ^ k := by
  rcases (andTest_iff x).mp h1 with h | h
  · exact absurd h h0
  · exact h

theorem max_two_pow (a b : Nat) : max (2 ^ a) (2 ^ b) = 2 ^ (max a b) := by
  by_cases h : a ≤ b
  · rw [Nat.max_eq_right (two_pow_le_two_pow.mpr h), Nat.max_eq_right h]
  · rw [Nat.max_eq_left (two_pow_le_two_pow.mpr (by omega)), Nat.max_eq_left (by omega)]

theorem min_two_pow' (a b : Nat) : min (2 ^ a) (2 ^ b) = 2 ^ (min a b) := by
  by_cases h : a ≤ b
  · rw [Nat.min_eq_left (two_pow_le_two_pow.mpr h), Nat.min_eq_left h]
  · rw [Nat.min_eq_right (two_pow_le_two_pow.mpr (by omega)), Nat.min_eq_right (by omega)]

/-- whatever the caller passes, a table that `_cds_lfht_new_with_alloc` accepts has power-of-two
parameters with `min_nr_alloc_buckets ≤ max_nr_buckets`, `size ≤ max_nr_buckets`, and (chunk plug-in)
at most `MAX_CHUNK_TABLE` chunks -/
theorem new_table_params_wf {k : Kind} {pb init mn mx : Nat} {p : Params} {q : Nat} (hpb : pb = 2 ^ q)
    (hmx : mx ≤ 2 ^ 63) (hmn : mn ≤ 2 ^ 63) (h : newTable k pb init mn mx = some p) :
    ∃ a M s, p.minAlloc = 2 ^ a ∧ p.minOrder = a ∧ p.mx = 2 ^ M ∧ a ≤ M ∧ M ≤ 63 ∧ p.size0 = 2 ^ s ∧ s ≤ M ∧
      (k = .chunk → p.mx / p.minAlloc ≤ MAX_CHUNK_TABLE) := by
  unfold newTable at h
  simp only [Bool.or_eq_true, decide_eq_true_eq, Bool.not_eq_true', min_table_size_eq] at h
  split at h
  · cases h
  · rename_i c1
    split at h
    · cases h
    · rename_i c2
      split at h
      · cases h
      · rename_i c3
        have c1' : ¬ mn = 0 ∧ andTest mn = true := by
          constructor
          · intro e; exact c1 (Or.inl e)
          · cases hh : andTest mn with
            | true => rfl
            | false => exact absurd (Or.inr hh) c1
        have c2' : ¬ init = 0 ∧ andTest init = true := by
          constructor
          · intro e; exact c2 (Or.inl e)
          · cases hh : andTest init with
            | true => rfl
            | false => exact absurd (Or.inr hh) c2
        have c3' : ¬ mx = 0 ∧ andTest mx = true := by
          constructor
          · intro e; exact c3 (Or.inl e)
          · cases hh : andTest mx with
            | true => rfl
            | false => exact absurd (Or.inr hh) c3
        obtain ⟨a, rfl⟩ := pow2_of_tests c1'.1 c1'.2
        obtain ⟨i, rfl⟩ := pow2_of_tests c2'.1 c2'.2
        obtain ⟨M, rfl⟩ := pow2_of_tests c3'.1 c3'.2
        have ha63 : a ≤ 63 := two_pow_le_two_pow.mp hmn
        have hM63 : M ≤ 63 := two_pow_le_two_pow.mp hmx
        simp only [Option.some.injEq] at h
        have e1 : max (2 ^ a) 1 = 2 ^ a := by have := Nat.two_pow_pos a; omega
        have e2 : max (2 ^ i) 1 = 2 ^ i := by have := Nat.two_pow_pos i; omega
        rw [e1, e2, max_two_pow, min_two_pow'] at h
        have hs : shl 1 (order (2 ^ min i (max M a))) = 2 ^ min i (max M a) := by
          rw [order_two_pow, shl_one (by omega)]
        rw [hs] at h
        cases k with
        | order =>
          subst h
          exact ⟨a, max M a, min i (max M a), rfl, order_two_pow a, rfl, by omega, by omega, rfl, by omega, by intro e; cases e⟩
        | chunk =>
          simp only [max_chunk_table_eq] at h ⊢
          by_cases hc : 10 ≤ max M a
          · rw [Nat.pow_div hc (by omega), max_two_pow] at h
            subst h
            refine ⟨max a (max M a - 10), max M a, min i (max M a), rfl, order_two_pow _, rfl, by omega, by omega, rfl, by omega, ?_⟩
            intro _
            simp only
            rw [Nat.pow_div (by omega) (by omega)]
            exact two_pow_le_two_pow.mpr (by omega)
          · have : 2 ^ max M a / 2 ^ 10 = 0 := Nat.div_eq_of_lt (two_pow_lt_two_pow.mpr (by omega))
            rw [this] at h
            have e3 : max (2 ^ a) 0 = 2 ^ a := by omega
            rw [e3] at h
            subst h
            refine ⟨a, max M a, min i (max M a), rfl, order_two_pow _, rfl, by omega, by omega, rfl, by omega, ?_⟩
            intro _
            simp only
            rw [Nat.pow_div (by omega) (by omega)]
            exact two_pow_le_two_pow.mpr (by omega)
        | mmap =>
          subst hpb
          simp only [two_pow_le_two_pow, max_two_pow] at h
          by_cases hc : max M a ≤ q
          · rw [if_pos hc] at h
            subst h
            exact ⟨max M a, max M a, min i (max M a), rfl, order_two_pow _, rfl, by omega, by omega, rfl, by omega, by intro e; cases e⟩
          · rw [if_neg hc] at h
            subst h
            exact ⟨max a q, max M a, min i (max M a), rfl, order_two_pow _, rfl, by omega, by omega, rfl, by omega, by intro e; cases e⟩
end UrcuVerif.Lfht.Mm
