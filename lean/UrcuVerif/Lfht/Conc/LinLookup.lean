import UrcuVerif.Lfht.Conc.LinUpd
/-!
# Concurrent rculfhash — linearizability: a `lookup` that returns a node has a linearisation point (proof-only file)
-/
namespace UrcuVerif.Lfht.Conc
open UrcuVerif
set_option linter.unusedSimpArgs false
set_option linter.unusedVariables false

theorem lookup_not_idle {c s t} (hc : c.ownerByOr = false) (r0 : Reach c s) (h2 : (s.th t).op = .lookup) :
    (s.th t).pc ≠ .idle ∧ (s.th t).pc ≠ .hDone := by
  have hN := invN_reach hc r0 t; simp only [TN] at hN
  have := (hN.2.2.1 h2).2.2
  constructor <;> (intro e; rw [e] at this; simp at this)

/-- tracked while a `lookup` that will return `q` has not read `q->next` yet -/
def LkInvQ (op : SOp) (q : Nat) (x : Thr) : Prop :=
  curOp x = some op ∧ x.op = .lookup ∧ ¬ (x.pc = .wAssert ∧ x.cur = q)

set_option maxHeartbeats 2000000 in
theorem lkq_own {c s s' t l o h k q w} (hc : c.ownerByOr = false) (r0 : Reach c s) (st : step c s t l = some (s', o))
    (hq0 : q ≠ 0) (hi : LkInvQ (.lookup h k) q (s.th t)) :
    ((s'.th t).op ≠ .none ∧ (LkInvQ (.lookup h k) q (s'.th t) ∨ LP c (.lookup h k) (.iter q w) (s, t, l, o))) ∨
    ((s'.th t).op = .none ∧ (o = .iter q w → LP c (.lookup h k) (.iter q w) (s, t, l, o))) := by
  have hN := invN_reach hc r0 t; simp only [TN] at hN
  obtain ⟨n1, n2, n3, n4, n5, n6, n7, n8, n9, n10, n11, n12, n13, n14, n15⟩ := hN
  obtain ⟨h1, h2, h3⟩ := hi
  have hpcs := (n3 h2).2.2
  rcases own_step_class hc r0 st (.inr (.inr (.inr h2))) with hcont | ⟨hnone, hret⟩
  · left
    obtain ⟨c1, c2, c3, c4, c5, c6, c7, c8, c9, c10, c11⟩ := hcont
    refine ⟨by rw [c1, h2]; simp, ?_⟩
    have hcur : curOp (s'.th t) = some (.lookup h k) := by
      simp only [curOp, c1, c2, c3] at h1 ⊢; simp only [h2] at h1 ⊢; exact h1
    by_cases hw : (s'.th t).pc = .wAssert ∧ (s'.th t).cur = q
    · right
      rcases c8 hw.1 with ⟨a1, a2, _⟩ | ⟨a1, a2, a3, _, a5⟩
      · exact absurd ⟨a1, by rw [← a2]; exact hw.2⟩ h3
      · subst a1
        have hm := lin_found hc r0 st a2 a5 (.inl h2)
        left
        simp only [LinRO]
        simp only [curOp, h2, Option.some.injEq, SOp.lookup.injEq] at h1
        rw [← hw.2, a3, ← h1.1, ← h1.2]; exact .lookupFound hm
    · exact .inl ⟨hcur, by rw [c1]; exact h2, hw⟩
  · right
    refine ⟨hnone, ?_⟩
    intro hor
    exfalso
    simp only [Ret] at hret
    rcases hret with ⟨rfl, a1, _⟩ | ⟨rfl, a1, _, _, a3⟩ | ⟨rfl, a1, a2, a3⟩ | ⟨rfl, a1, _, _, _, a3⟩ | ⟨rfl, a1, _, a3⟩ |
      ⟨rfl, a1, _⟩ | ⟨rfl, a1, _⟩ | ⟨rfl, a1, _⟩ | ⟨rfl, a1, _⟩ | ⟨rfl, a1, _⟩
    · rw [a1] at hpcs; simp at hpcs
    · rw [a3] at hor; cases hor
    · rw [a3] at hor; cases hor; exact h3 ⟨a1, rfl⟩
    · rw [a3] at hor; cases hor; exact hq0 rfl
    · rw [a3] at hor; cases hor; exact hq0 rfl
    · rw [a1] at hpcs; simp at hpcs
    · rw [a1] at hpcs; simp at hpcs
    · rw [a1] at hpcs; simp at hpcs
    · rw [a1] at hpcs; simp at hpcs
    · rw [a1] at hpcs; simp at hpcs

/-- the call step of `cds_lfht_lookup` -/
theorem callLookup_step {c s s' t o h k} (st : step c s t (.callLookup h k) = some (s', o)) :
    curOp (s'.th t) = some (.lookup h k) ∧ (s'.th t).op = .lookup ∧ (s'.th t).pc = .lSize := by
  st_open st
  have e1 : s'.th t = x' := by rw [e_th']; simp [upd]
  rw [e1]; simp only [curOp, xop, xhs, xky, xpc]; simp

set_option maxHeartbeats 2000000 in
/-- **linearizability of a `cds_lfht_lookup` that returns a node**: it is stored, with the hash and key asked for, at
the load that read its `next` -/
theorem lin_lookup_found_exec {c s0 evs s1 t h k q w} (hc : c.ownerByOr = false) (r0 : Reach c s0)
    (ex : Exec c s0 evs s1)
    (hcall : ∃ e0 rest, evs = e0 :: rest ∧ e0.2.1 = t ∧ e0.2.2.1 = .callLookup h k ∧
      ∀ e, e ∈ rest → e.2.1 = t → OpK (e.1.th t).op)
    (hlast : ∃ e, evs.getLast? = some e ∧ e.2.1 = t ∧ e.2.2.2 = .iter q w) (hq0 : q ≠ 0)
    (hend : (s1.th t).op = .none) : LinAt c evs (.lookup h k) (.iter q w) := by
  obtain ⟨e0, rest, rfl, ht, hl, hin⟩ := hcall
  cases ex with
  | @cons s u l sa o evs' s2 st ex' =>
    simp only at ht hl
    subst ht; subst hl
    obtain ⟨g1, g2, g3⟩ := callLookup_step st
    have hinv : LkInvQ (.lookup h k) q (sa.th u) := ⟨g1, g2, by rw [g3]; simp⟩
    cases rest with
    | nil =>
      cases ex'
      exact absurd hend (by rw [g2]; simp)
    | cons e' rest' =>
      have hl' : ∃ e, (e' :: rest').getLast? = some e ∧ e.2.1 = u ∧ e.2.2.2 = .iter q w := by
        obtain ⟨e, he, x, y⟩ := hlast
        exact ⟨e, by rw [List.getLast?_cons_cons] at he; exact he, x, y⟩
      have := lin_wrap (c := c) (t := u) (op := .lookup h k) (r := .iter q w)
        (fun s => LkInvQ (.lookup h k) q (s.th u)) (fun _ => True)
        (by intro s l o s' rs sts _ hi _; exact lkq_own hc rs sts hq0 hi)
        (by
          intro s w' l o s' hw rs sts _ hi
          left
          rw [other_thread_same sts hw (lookup_not_idle hc rs hi.2.1)]; exact hi)
        ex' (.step r0 st) hinv (fun _ _ => trivial) hin hl' hend
      obtain ⟨e, he, hp⟩ := this
      exact ⟨e, List.mem_cons_of_mem _ he, hp⟩

end UrcuVerif.Lfht.Conc
