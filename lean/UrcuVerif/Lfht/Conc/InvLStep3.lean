import UrcuVerif.Lfht.Conc.InvL
/-! Layer L is preserved by every step (part 3) (proof-only file). -/
namespace UrcuVerif.Lfht.Conc
open UrcuVerif
set_option linter.unusedSimpArgs false
set_option linter.unusedVariables false

set_option maxHeartbeats 4000000 in
theorem invL_reclaim {c s s' t o p} (hc : c.ownerByOr = false) (hR : InvR c s) (hF : InvF c s) (hL : InvL s)
    (st : step c s t (.reclaim p) = some (s', o)) : InvL s' := by
  st_open st
  all_goals l_frame hR hF hL [(s.th t).prev, (s.th t).iter.ptr, (s.th t).cur, (s.th t).bkt, (s.th t).node, (s.th t).old]

set_option maxHeartbeats 4000000 in
theorem invL_rzLock {c s s' t o} (hc : c.ownerByOr = false) (hR : InvR c s) (hF : InvF c s) (hL : InvL s)
    (st : step c s t .rzLock = some (s', o)) : InvL s' := by
  st_open st
  all_goals l_frame hR hF hL [(s.th t).prev, (s.th t).iter.ptr, (s.th t).cur, (s.th t).bkt, (s.th t).node, (s.th t).old]

set_option maxHeartbeats 4000000 in
theorem invL_rzUnlock {c s s' t o} (hc : c.ownerByOr = false) (hR : InvR c s) (hF : InvF c s) (hL : InvL s)
    (st : step c s t .rzUnlock = some (s', o)) : InvL s' := by
  st_open st
  all_goals l_frame hR hF hL [(s.th t).prev, (s.th t).iter.ptr, (s.th t).cur, (s.th t).bkt, (s.th t).node, (s.th t).old]

set_option maxHeartbeats 4000000 in
theorem invL_partBegin {c s s' t o} (hc : c.ownerByOr = false) (hR : InvR c s) (hF : InvF c s) (hL : InvL s)
    (st : step c s t .partBegin = some (s', o)) : InvL s' := by
  have pb := fun hw h2 => parent_before hR t hw (s.th t).j (Nat.le_refl _) h2
  have pb1 := fun hw h2 => parent_before hR t hw ((s.th t).j + 1) (Nat.le_succ _) h2
  st_open st
  all_goals l_frame hR hF hL [(s.th t).prev, (s.th t).iter.ptr, (s.th t).cur, (s.th t).bkt, (s.th t).node, (s.th t).old]

set_option maxHeartbeats 4000000 in
theorem invL_partEnd {c s s' t o} (hc : c.ownerByOr = false) (hR : InvR c s) (hF : InvF c s) (hL : InvL s)
    (st : step c s t .partEnd = some (s', o)) : InvL s' := by
  st_open st
  all_goals l_frame hR hF hL [(s.th t).prev, (s.th t).iter.ptr, (s.th t).cur, (s.th t).bkt, (s.th t).node, (s.th t).old]

set_option maxHeartbeats 4000000 in
theorem invL_stSizeGrow {c s s' t o} (hc : c.ownerByOr = false) (hR : InvR c s) (hF : InvF c s) (hL : InvL s)
    (st : step c s t .stSizeGrow = some (s', o)) : InvL s' := by
  st_open st
  all_goals l_frame hR hF hL [(s.th t).prev, (s.th t).iter.ptr, (s.th t).cur, (s.th t).bkt, (s.th t).node, (s.th t).old]

set_option maxHeartbeats 4000000 in
theorem invL_stSizeShrink {c s s' t o} (hc : c.ownerByOr = false) (hR : InvR c s) (hF : InvF c s) (hL : InvL s)
    (st : step c s t .stSizeShrink = some (s', o)) : InvL s' := by
  st_open st
  all_goals l_frame hR hF hL [(s.th t).prev, (s.th t).iter.ptr, (s.th t).cur, (s.th t).bkt, (s.th t).node, (s.th t).old]

set_option maxHeartbeats 4000000 in
theorem invL_gpStart {c s s' t o} (hc : c.ownerByOr = false) (hR : InvR c s) (hF : InvF c s) (hL : InvL s)
    (st : step c s t .gpStart = some (s', o)) : InvL s' := by
  st_open st
  all_goals l_frame hR hF hL [(s.th t).prev, (s.th t).iter.ptr, (s.th t).cur, (s.th t).bkt, (s.th t).node, (s.th t).old]

set_option maxHeartbeats 4000000 in
theorem invL_gpEnd {c s s' t o} (hc : c.ownerByOr = false) (hR : InvR c s) (hF : InvF c s) (hL : InvL s)
    (st : step c s t .gpEnd = some (s', o)) : InvL s' := by
  st_open st
  all_goals l_frame hR hF hL [(s.th t).prev, (s.th t).iter.ptr, (s.th t).cur, (s.th t).bkt, (s.th t).node, (s.th t).old]

set_option maxHeartbeats 4000000 in
theorem invL_tblFree {c s s' t o} (hc : c.ownerByOr = false) (hR : InvR c s) (hF : InvF c s) (hL : InvL s)
    (st : step c s t .tblFree = some (s', o)) : InvL s' := by
  st_open st
  all_goals l_frame hR hF hL [(s.th t).prev, (s.th t).iter.ptr, (s.th t).cur, (s.th t).bkt, (s.th t).node, (s.th t).old]

set_option maxHeartbeats 4000000 in
theorem invL_tblAlloc {c s s' t o base} (hc : c.ownerByOr = false) (hR : InvR c s) (hF : InvF c s) (hL : InvL s)
    (st : step c s t (.tblAlloc base) = some (s', o)) : InvL s' := by
  st_open st
  all_goals simp only [inRange, Bool.and_eq_true, decide_eq_true_eq, Nat.add_sub_cancel] at *
  all_goals
    have fg := hF.g; have lg := hL.g; have lt := hL.t
    simp only [GF] at fg
    obtain ⟨fgn, fgz, fgl, fgc⟩ := fg
    have hfr : ∀ p, s.life p ≠ .fresh → p < s.hi := by
      intro p hp; rcases Nat.lt_or_ge p s.hi with h | h; exact h; exact absurd ((fgn p).1 h) hp
    have hrev : ∀ p, s.life p ≠ .fresh → s'.rev p = s.rev p ∧ s'.isB p = s.isB p ∧ s'.key p = s.key p := by
      intro p hp; have := hfr p hp; rw [e_rev, e_isB, e_key]
      refine ⟨?_, ?_, rfl⟩ <;> (simp only; split <;> first | rfl | (exfalso; omega))
    refine ⟨?_, ?_⟩
    · refine GL_frame lg e_L (fun p => by rw [e_nxt]) ?_ (fun p hp => ⟨(hrev p hp.1).1, (hrev p hp.1).2.1⟩) (fun p hp => ((fgn p).2.2.2.1 hp))
      intro p
      have := fgn p; simp only [GFn] at this
      simp only [valid, e_life]
      by_cases hr : base ≤ p ∧ p < base + 2 ^ s.size.log2
      · have : s.life p = .fresh := this.1 (by omega)
        simp [hr, this]
      · simp [hr]
    · intro u
      have h1 : TL s' (s.th u) := TL_stable hR hF hrev (lt u)
      by_cases hu : u = t
      · have hu' : t = u := hu.symm
        subst hu'
        have e1 : s'.th t = x' := by rw [e_th']; simp [upd]
        rw [e1]
        simp only [TL, Before, DupW, InAdd, xpc, xitn, xitx, xop] at h1 ⊢
        grind
      · have e1 : s'.th u = s.th u := by rw [e_th']; simp [upd, hu]
        rw [e1]; exact h1

end UrcuVerif.Lfht.Conc
