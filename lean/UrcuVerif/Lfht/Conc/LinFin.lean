import UrcuVerif.Lfht.Conc.LinIdx
/-!
# Concurrent rculfhash — linearizability, composition: node attributes fixed once and for all (proof-only file)
-/
namespace UrcuVerif.Lfht.Conc
open UrcuVerif
set_option linter.unusedSimpArgs false
set_option linter.unusedVariables false

/-- the abstraction with the node attributes taken from a later state `sN` (they are written once, when the node is
handed to the table, and never change afterwards) -/
def absF (sN s : State) : MS := ⟨vis s, sN.rev, sN.key⟩

/-- `sN` has the attributes of all nodes that `s` knows -/
def FinAttr (sN s : State) : Prop := ∀ p, s.life p ≠ .fresh → sN.rev p = s.rev p ∧ sN.key p = s.key p

theorem MS.ext' {σ τ : MS} (h1 : ∀ p, σ.mem p ↔ τ.mem p) (h2 : ∀ p, σ.rev p = τ.rev p) (h3 : ∀ p, σ.key p = τ.key p) :
    σ = τ := by
  cases σ; cases τ
  simp only [MS.mk.injEq]
  exact ⟨funext fun p => propext (h1 p), funext h2, funext h3⟩

theorem finattr_exec {c s0 evs sN} (hc : c.ownerByOr = false) (ex : Exec c s0 evs sN) (r : Reach c s0) :
    FinAttr sN s0 := by
  induction ex with
  | nil s => intro p _; exact ⟨rfl, rfl⟩
  | @cons s u l s1 o evs s2 st _ ih =>
    intro p hp
    have sp := stable_step hc r st p hp
    have hp1 : s1.life p ≠ .fresh := by
      rcases life_step hc r st p with e | e | e | e
      · rw [e]; exact hp
      · exact absurd e.1 hp
      · rw [e.2]; simp
      · rw [e.2]; simp
    have := ih (.step r st) p hp1
    exact ⟨by rw [this.1, sp.1], by rw [this.2, sp.2.1]⟩

theorem finattr_idx {c s0 evs sN} (hc : c.ownerByOr = false) (ex : Exec c s0 evs sN) (r : Reach c s0) (i : Nat) :
    FinAttr sN (stAt evs sN i) := by
  by_cases h : i ≤ evs.length
  · have := exec_slice ex i evs.length h (Nat.le_refl _)
    rw [stAt_end (Nat.le_refl _)] at this
    exact finattr_exec hc this (exec_reach_idx ex r i)
  · rw [stAt_end (by omega)]; intro p _; exact ⟨rfl, rfl⟩

theorem vis_nonfresh {c s p} (hc : c.ownerByOr = false) (r : Reach c s) (h : vis s p) : s.life p ≠ .fresh := by
  have := ((invRFL_reach hc r).2.2.g.2.1 p).mp h.1; rw [this]; simp

theorem matchF_iff {c sN s h k p} (hc : c.ownerByOr = false) (r : Reach c s) (hA : FinAttr sN s) :
    (absF sN s).Match h k p ↔ (absL s).Match h k p := by
  simp only [MS.Match, absF, absL]
  constructor
  · rintro ⟨a, b, c'⟩; have := hA p (vis_nonfresh hc r a); exact ⟨a, by rw [← this.1]; exact b, by rw [← this.2]; exact c'⟩
  · rintro ⟨a, b, c'⟩; have := hA p (vis_nonfresh hc r a); exact ⟨a, by rw [this.1]; exact b, by rw [this.2]; exact c'⟩

/-- a result that does not change the table, restated with the final attributes -/
theorem specF_ro {c sN s op r} (hc : c.ownerByOr = false) (r0 : Reach c s) (hA : FinAttr sN s)
    (hold : ∀ old n h k, op = .replace old n h k → old ≠ 0 → s.life old ≠ .fresh)
    (hs : SpecStep (absL s) op r (absL s)) : SpecStep (absF sN s) op r (absF sN s) := by
  have key : ∀ σ', SpecStep (absL s) op r σ' → σ' = absL s → SpecStep (absF sN s) op r (absF sN s) := by
    intro σ' hs'
    cases hs' with
    | @add n h k hn => intro e; exfalso; have := congrFun (congrArg MS.mem e) n; simp [MS.insert, absL] at this; exact hn this
    | @addUniqueNew n h k hn _ => intro e; exfalso; have := congrFun (congrArg MS.mem e) n; simp [MS.insert, absL] at this; exact hn this
    | addUniqueDup hm => intro _; exact .addUniqueDup ((matchF_iff hc r0 hA).mpr hm)
    | @addReplaceNew n h k hn _ => intro e; exfalso; have := congrFun (congrArg MS.mem e) n; simp [MS.insert, absL] at this; exact hn this
    | @addReplaceRepl n h k q hn hm =>
      intro e; exfalso
      have := congrFun (congrArg MS.mem e) n; simp [MS.insert, MS.erase, absL] at this; exact hn this
    | replaceNull => intro _; exact .replaceNull
    | @replaceInval old n h k h0 hne =>
      intro _
      have := hA old (hold old n h k rfl h0)
      exact .replaceInval h0 (by simp only [absF, absL] at hne ⊢; rw [this.1, this.2]; exact hne)
    | @replaceGone old n h k h0 h1 h2 h3 =>
      intro _
      have := hA old (hold old n h k rfl h0)
      exact .replaceGone h0 (by simp only [absF, absL] at h1 ⊢; rw [this.1]; exact h1)
        (by simp only [absF, absL] at h2 ⊢; rw [this.2]; exact h2) h3
    | @replaceOk old n h k hm hn =>
      intro e; exfalso
      have := congrFun (congrArg MS.mem e) n; simp [MS.insert, MS.erase, absL] at this; exact hn this
    | delNull => intro _; exact .delNull
    | delGone h0 h1 => intro _; exact .delGone h0 h1
    | @delOk old hm =>
      intro e; exfalso
      have := congrFun (congrArg MS.mem e) old; simp [MS.erase, absL] at this; exact this hm
    | lookupFound hm => intro _; exact .lookupFound ((matchF_iff hc r0 hA).mpr hm)
    | lookupNone hn => intro _; exact .lookupNone (fun p hp => hn p ((matchF_iff hc r0 hA).mp hp))
  exact key _ hs rfl

theorem absF_insert {c sN s s' n rv k} (hc : c.ownerByOr = false) (r1 : Reach c s') (hA' : FinAttr sN s')
    (heq : ((absL s).insert n rv k).Equiv (absL s')) : (absF sN s).insert n rv k = absF sN s' := by
  obtain ⟨e1, e2⟩ := heq
  have hn : vis s' n := (e1 n).mp (.inl rfl)
  have han := hA' n (vis_nonfresh hc r1 hn)
  have e2n := e2 n (.inl rfl)
  simp only [MS.insert, absL, if_true] at e2n
  refine MS.ext' (fun p => e1 p) (fun p => ?_) (fun p => ?_)
  · simp only [MS.insert, absF]; split
    · next h => rw [h, han.1]; exact e2n.1
    · rfl
  · simp only [MS.insert, absF]; split
    · next h => rw [h, han.2]; exact e2n.2
    · rfl

theorem absF_erase_insert {c sN s s' q n rv k} (hc : c.ownerByOr = false) (r1 : Reach c s') (hA' : FinAttr sN s')
    (heq : (((absL s).erase q).insert n rv k).Equiv (absL s')) : ((absF sN s).erase q).insert n rv k = absF sN s' := by
  obtain ⟨e1, e2⟩ := heq
  have hn : vis s' n := (e1 n).mp (.inl rfl)
  have han := hA' n (vis_nonfresh hc r1 hn)
  have e2n := e2 n (.inl rfl)
  simp only [MS.insert, MS.erase, absL, if_true] at e2n
  refine MS.ext' (fun p => e1 p) (fun p => ?_) (fun p => ?_)
  · simp only [MS.insert, MS.erase, absF]; split
    · next h => rw [h, han.1]; exact e2n.1
    · rfl
  · simp only [MS.insert, MS.erase, absF]; split
    · next h => rw [h, han.2]; exact e2n.2
    · rfl

/-- a result that changes the table, restated with the final attributes -/
theorem specF_mut {c sN s s' op r σ'} (hc : c.ownerByOr = false) (r0 : Reach c s) (r1 : Reach c s')
    (hA : FinAttr sN s) (hA' : FinAttr sN s')
    (hold : ∀ old n h k, op = .replace old n h k → old ≠ 0 → s.life old ≠ .fresh)
    (hs : SpecStep (absL s) op r σ') (heq : σ'.Equiv (absL s')) : SpecStep (absF sN s) op r (absF sN s') := by
  have same : σ' = absL s → SpecStep (absF sN s) op r (absF sN s') := by
    intro e
    have : absF sN s' = absF sN s := by
      rw [e] at heq
      exact MS.ext' (fun p => (heq.1 p).symm) (fun _ => rfl) (fun _ => rfl)
    rw [this]; rw [e] at hs; exact specF_ro hc r0 hA hold hs
  cases hs with
  | @add n h k hn => rw [← absF_insert hc r1 hA' heq]; exact .add hn
  | @addUniqueNew n h k hn hm =>
    rw [← absF_insert hc r1 hA' heq]
    exact .addUniqueNew hn (fun p hp => hm p ((matchF_iff hc r0 hA).mp hp))
  | addUniqueDup hm => exact same rfl
  | @addReplaceNew n h k hn hm =>
    rw [← absF_insert hc r1 hA' heq]
    exact .addReplaceNew hn (fun p hp => hm p ((matchF_iff hc r0 hA).mp hp))
  | @addReplaceRepl n h k q hn hm =>
    rw [← absF_erase_insert hc r1 hA' heq]
    exact .addReplaceRepl hn ((matchF_iff hc r0 hA).mpr hm)
  | replaceNull => exact same rfl
  | replaceInval h0 hne => exact same rfl
  | replaceGone h0 h1 h2 h3 => exact same rfl
  | @replaceOk old n h k hm hn =>
    rw [← absF_erase_insert hc r1 hA' heq]
    exact .replaceOk ((matchF_iff hc r0 hA).mpr hm) hn
  | delNull => exact same rfl
  | delGone h0 h1 => exact same rfl
  | @delOk old hm =>
    have : (absF sN s).erase old = absF sN s' :=
      MS.ext' (fun p => heq.1 p) (fun _ => rfl) (fun _ => rfl)
    rw [← this]; exact .delOk hm
  | lookupFound hm => exact same rfl
  | lookupNone hn => exact same rfl

end UrcuVerif.Lfht.Conc
