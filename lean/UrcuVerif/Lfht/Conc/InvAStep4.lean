import UrcuVerif.Lfht.Conc.InvA
/-! Layer A is preserved by every step (the insertion CAS) (proof-only file). -/
namespace UrcuVerif.Lfht.Conc
open UrcuVerif
set_option linter.unusedSimpArgs false
set_option linter.unusedVariables false

set_option maxHeartbeats 4000000 in
theorem invA_casIns {c s s' t o} (hc : c.ownerByOr = false) (hR : InvR c s) (hF : InvF c s) (hA : InvA s)
    (st : step c s t .casIns = some (s', o)) : InvA s' := by
  st_open st
  all_goals a_step hR hF hA

end UrcuVerif.Lfht.Conc
