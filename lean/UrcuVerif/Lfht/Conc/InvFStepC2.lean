import UrcuVerif.Lfht.Conc.InvF
/-! Layer F is preserved by every step: resize steps (proof-only file). -/
namespace UrcuVerif.Lfht.Conc
open UrcuVerif
set_option linter.unusedSimpArgs false
set_option linter.unusedVariables false
set_option maxHeartbeats 4000000 in
theorem invF_stSizeGrow {c s s' t o} (hc : c.ownerByOr = false) (hR : InvR c s) (hF : InvF c s)
    (st : step c s t .stSizeGrow = some (s', o)) : InvF c s' := by
  st_open st
  all_goals
    have rl := rlim_live hR hF
    have hclk : s.clock ≤ s'.clock := by rw [e_clock]; omega
    have rtt := hR.t t; have ftt := hF.t t; have rg := hR.g
    simp only [TR, GR] at rtt rg
    have hzo : s.rzOwner = t + 1 := by simp only [ZPc] at rtt; grind
    have nw := no_workers hR hzo (.inr (by grind))
    have pw := @two_pow_pred (s.th t).rord
    have oph := rtt.2.2.2.2.2.2.2.2.2.1 hzo (.inl (by grind))
    have hrt : rlim s = s.size ∧ rlim s' = s'.size ∧ rgp s' = rgp s ∧ s.size ≤ s'.size := by
      simp only [rlim, rgp, Retiring, own, e_th', e_rz, e_size, upd, hzo, Nat.add_sub_cancel, if_true] at *
      grind
    obtain ⟨fg, ft, fpend, fgrow⟩ := hF
    have hgrow := fgrow t hzo (.inl (by grind)) (by grind)
    refine ⟨?_, ?_, ?_, ?_⟩
    · simp only [GF] at fg ⊢
      refine ⟨?_, ?_, ?_, ?_⟩
      · intro p; have := fg.1 p; simpa only [GFn, valid, vz, e_nxt, e_life, e_isB, e_hi] using this
      · rw [e_life]; exact fg.2.1
      · intro i hi
        rw [e_size] at hi
        simp only [live, e_nxt, e_life, e_tbl]
        by_cases h1 : i < s.size
        · exact fg.2.2.1 i h1
        · rcases hgrow i (by omega) hi with h | h | ⟨u, hu, _⟩
          · exact h
          · omega
          · have hut : u ≠ t := by intro e; subst e; have := rtt.2.2.2.1 hzo; omega
            have := (nw u hut).1; omega
      · intro u b hb; rw [e_cs] at hb; have := fg.2.2.2 u b hb; omega
    · intro u
      by_cases hu : u = t
      · have hu' : t = u := hu.symm
        subst hu'
        have e1 : s'.th t = x' := by rw [e_th']; simp [upd]
        rw [e1]
        simp only [GF] at fg
        have fgc := fg.2.2.2 t
        clear fg ft fpend fgrow nw hgrow
        simp only [TF, vz, HB, Lim] at ftt ⊢
        st_simp
        grind [valid, live, Pend, InAdd, HasPos, AddPc, GcPc, ZPc, HPc, Worker, InPhase]
      · have e1 : s'.th u = s.th u := by rw [e_th']; simp [upd, hu]
        rw [e1]
        refine TF_user hR ⟨fg, ft, fpend, fgrow⟩ (nw u hu).2 e_nxt (fun p _ => by rw [e_life]) (fun p _ => by rw [e_hsh])
          (fun p _ => by rw [e_isB]) (fun i _ => by rw [e_tbl]) (by rw [e_cs]) (by rw [e_rz]) hclk ?_ (ft u)
        intro _ m hl
        simp only [Lim, hrt.1, hrt.2.1, hrt.2.2.1, e_cs] at hl ⊢
        rcases hl with hl | hl
        · exact .inl (by omega)
        · exact .inl (by omega)
    · refine XPend_frame e_th' ?_ fpend
      clear ftt ft fgrow
      grind [Pend]
    · intro o ho hph hrk
      exfalso
      rw [e_th'] at hph hrk; simp only [upd] at hph hrk
      rw [e_rz] at ho
      have : o = t := by omega
      subst this
      clear ftt ft fgrow fg
      simp only [if_true, InPhase, Worker, AddPc, GcPc] at *
      grind
set_option maxHeartbeats 4000000 in
theorem invF_stSizeShrink {c s s' t o} (hc : c.ownerByOr = false) (hR : InvR c s) (hF : InvF c s)
    (st : step c s t .stSizeShrink = some (s', o)) : InvF c s' := by
  have e1 := @Nat.log2_two_pow (Nat.log2 s.size - 1)
  have e2 : ∀ r, s.size = 2 ^ r → Nat.log2 s.size = r := fun r hr => by rw [hr, Nat.log2_two_pow]
  have e2' := e2 ((s.th t).rord - 1)
  have e3 := @two_pow_pred (Nat.log2 s.size)
  have e4 : 2 ≤ s.size → s.size = 2 ^ Nat.log2 s.size → 1 ≤ Nat.log2 s.size := by
    intro h2 h3
    cases hk : Nat.log2 s.size with
    | zero => rw [hk] at h3; simp at h3; omega
    | succ n => omega
  st_open st
  all_goals
    have rl := rlim_live hR hF
    have hclk : s.clock ≤ s'.clock := by rw [e_clock]; omega
    have rtt := hR.t t; have ftt := hF.t t; have rg := hR.g
    simp only [TR, GR] at rtt rg
    have hzo : s.rzOwner = t + 1 := by simp only [ZPc] at rtt; grind
    have nw := no_workers hR hzo (by simp only [InPhase, Worker, AddPc, GcPc]; grind)
    have hk := e4 (by grind) rg.1.1
    have hrt : rlim s = s.size ∧ rlim s' = s.size ∧ rgp s' = none ∧ s'.size ≤ s.size := by
      simp only [rlim, rgp, Retiring, own, e_th', e_rz, e_size, upd, hzo, Nat.add_sub_cancel, if_true] at *
      grind
    obtain ⟨fg, ft, fpend, fgrow⟩ := hF
    refine ⟨?_, ?_, ?_, ?_⟩
    · simp only [GF] at fg ⊢
      refine ⟨?_, ?_, ?_, ?_⟩
      · intro p; have := fg.1 p; simpa only [GFn, valid, vz, e_nxt, e_life, e_isB, e_hi] using this
      · rw [e_life]; exact fg.2.1
      · intro i hi
        simp only [live, e_nxt, e_life, e_tbl]
        exact fg.2.2.1 i (by omega)
      · intro u b hb; rw [e_cs] at hb; have := fg.2.2.2 u b hb; omega
    · intro u
      by_cases hu : u = t
      · have hu' : t = u := hu.symm
        subst hu'
        have e1 : s'.th t = x' := by rw [e_th']; simp [upd]
        rw [e1]
        simp only [GF] at fg
        have fgc := fg.2.2.2 t; have fgl := fg.2.2.1
        clear fg ft fpend fgrow nw
        simp only [TF, vz, HB, Lim] at ftt ⊢
        st_simp
        grind [valid, live, Pend, InAdd, HasPos, AddPc, GcPc, ZPc, HPc, Worker, InPhase]
      · have e1 : s'.th u = s.th u := by rw [e_th']; simp [upd, hu]
        rw [e1]
        refine TF_user hR ⟨fg, ft, fpend, fgrow⟩ (nw u hu).2 e_nxt (fun p _ => by rw [e_life]) (fun p _ => by rw [e_hsh])
          (fun p _ => by rw [e_isB]) (fun i _ => by rw [e_tbl]) (by rw [e_cs]) (by rw [e_rz]) hclk ?_ (ft u)
        intro _ m hl
        simp only [Lim, hrt.1, hrt.2.1, hrt.2.2.1, e_cs] at hl ⊢
        refine .inr ⟨by omega, ?_⟩
        intro b g _ hg; cases hg
    · refine XPend_frame e_th' ?_ fpend
      clear ftt ft fgrow
      grind [Pend]
    · intro o ho hph hrk
      exfalso
      rw [e_th'] at hph hrk; simp only [upd] at hph hrk
      rw [e_rz] at ho
      have : o = t := by omega
      subst this
      clear ftt ft fgrow fg
      simp only [if_true, InPhase, Worker, AddPc, GcPc] at *
      grind
set_option maxHeartbeats 4000000 in
theorem invF_tblAlloc {c s s' t o base} (hc : c.ownerByOr = false) (hR : InvR c s) (hF : InvF c s)
    (st : step c s t (.tblAlloc base) = some (s', o)) : InvF c s' := by
  have e1 : 2 ^ (Nat.log2 s.size + 1) = 2 * 2 ^ Nat.log2 s.size := by rw [Nat.pow_succ]; omega
  have e3 : 0 < 2 ^ Nat.log2 s.size := Nat.two_pow_pos _
  st_open st
  all_goals simp only [inRange, Bool.and_eq_true, decide_eq_true_eq, Nat.add_sub_cancel] at *
  all_goals
    have rl := rlim_live hR hF
    have hclk : s.clock ≤ s'.clock := by rw [e_clock]; omega
    have rtt := hR.t t; have ftt := hF.t t; have rg := hR.g
    simp only [TR, GR] at rtt rg
    have hzo : s.rzOwner = t + 1 := by simp only [ZPc] at rtt; grind
    have nw := no_workers hR hzo (by simp only [InPhase, Worker, AddPc, GcPc]; grind)
    have hrt : rlim s = s.size ∧ rlim s' = s.size ∧ rgp s' = rgp s := by
      simp only [rlim, rgp, Retiring, own, e_th', e_rz, e_size, upd, hzo, Nat.add_sub_cancel, if_true] at *
      grind
    obtain ⟨fg, ft, fpend, fgrow⟩ := hF
    simp only [GF] at fg
    obtain ⟨fgn, fgz, fgl, fgc⟩ := fg
    have hfr : ∀ p, s.life p ≠ .fresh → p < s.hi := by
      intro p hp; rcases Nat.lt_or_ge p s.hi with h | h; exact h; exact absurd ((fgn p).1 h) hp
    have hszl : s.size = 2 ^ Nat.log2 s.size := rg.1.1
    have h_life : ∀ p, s.life p ≠ .fresh → s'.life p = s.life p := by
      intro p hp; have := hfr p hp; rw [e_life]; simp only; split <;> first | rfl | (exfalso; omega) | grind
    have h_isB : ∀ p, s.life p ≠ .fresh → s'.isB p = s.isB p := by
      intro p hp; have := hfr p hp; rw [e_isB]; simp only; split <;> first | rfl | (exfalso; omega) | grind
    have h_hsh : ∀ p, s.life p ≠ .fresh → s'.hsh p = s.hsh p := by
      intro p hp; have := hfr p hp; rw [e_hsh]; simp only; split <;> first | rfl | (exfalso; omega) | grind
    have h_tbl : ∀ i, i < s.size → s'.tbl i = s.tbl i := by
      intro i hi; rw [e_tbl]; simp only; split <;> first | rfl | (exfalso; omega) | grind
    refine ⟨?_, ?_, ?_, ?_⟩
    · simp only [GF]
      refine ⟨?_, ?_, ?_, ?_⟩
      · intro p
        have gpp := fgn p; have gq := fgn (s.nxt p).ptr
        simp only [GFn, valid, vz] at gpp gq ⊢
        st_simp
        clear rtt ftt ft fpend fgrow nw
        by_cases h1 : base ≤ p ∧ p < base + 2 ^ s.size.log2 <;> simp only [h1, if_true, if_false] <;> grind
      · rw [e_life]; simp only; split <;> first | exact fgz | (exfalso; omega) | grind
      · intro i hi
        rw [e_size] at hi
        have := fgl i hi; have := rg.2.2.1 i (rg.2.1 i hi)
        have hf : s.life (s.tbl i) ≠ .fresh := by grind
        simp only [live] at *
        rw [h_tbl i hi, h_life _ hf, e_nxt]; assumption
      · intro u b hb; rw [e_cs] at hb; have := fgc u b hb; omega
    · intro u
      by_cases hu : u = t
      · have hu' : t = u := hu.symm
        subst hu'
        have e1' : s'.th t = x' := by rw [e_th']; simp [upd]
        rw [e1']
        have fgct := fgc t
        have hvi := h_life (s.th t).itn; have hvx := h_life (s.th t).itx.ptr; have hbi := h_isB (s.th t).itn
        have ftt16 := ftt.2.2.2.2.2.2.2.2.2.2.2.2.2.2.2.1
        clear ft fpend fgrow nw fgn
        simp only [TF, Pend, InAdd, HasPos, GcPc, ZPc, HPc, Worker, AddPc, xpc, reduceCtorEq, false_or, or_false, false_and,
          and_false, false_implies, true_or, or_true, true_and, and_true, not_true_eq_false, not_false_eq_true, ne_eq, true_implies,
          imp_self, forall_const]
        simp only [vz, valid] at ftt16 ⊢
        st_simp
        have f1 := hfr (s.th t).itn; have f2 := hfr (s.th t).itx.ptr
        have c2 := ftt.2.1
        clear ftt hvi hvx hbi
        grind
      · have e1' : s'.th u = s.th u := by rw [e_th']; simp [upd, hu]
        rw [e1']
        refine TF_user hR ⟨⟨fgn, fgz, fgl, fgc⟩, ft, fpend, fgrow⟩ (nw u hu).2 e_nxt h_life h_hsh h_isB
          (fun i hi => h_tbl i (by omega)) (by rw [e_cs]) (by rw [e_rz]) hclk ?_ (ft u)
        intro _ m hl
        simpa only [Lim, hrt.1, hrt.2.1, hrt.2.2, e_cs, e_size] using hl
    · refine XPend_frame e_th' ?_ fpend
      clear ftt ft fgrow
      grind [Pend]
    · intro o ho hph hrk j h1 h2
      rw [e_th'] at hph hrk h1 h2 ⊢; simp only [upd] at hph hrk h1 h2 ⊢
      rw [e_rz] at ho
      have : o = t := by omega
      subst this
      simp only [if_true] at hph hrk h1 h2 ⊢
      refine .inr (.inl ?_)
      clear ftt ft fgrow fgn
      grind
set_option maxHeartbeats 4000000 in
theorem invF_tblFree {c s s' t o} (hc : c.ownerByOr = false) (hR : InvR c s) (hF : InvF c s)
    (st : step c s t .tblFree = some (s', o)) : InvF c s' := by
  st_open st
  all_goals
    have rl := rlim_live hR hF
    have hclk : s.clock ≤ s'.clock := by rw [e_clock]; omega
    have rtt := hR.t t; have ftt := hF.t t; have rg := hR.g
    simp only [TR, GR] at rtt rg
    have hzo : s.rzOwner = t + 1 := by simp only [ZPc] at rtt; grind
    have nw := no_workers hR hzo (by simp only [InPhase, Worker, AddPc, GcPc]; grind)
    have pw := @two_pow_pred (s.th t).rord
    have hrt : rlim s = s.size ∧ rlim s' = s.size ∧ rgp s' = rgp s := by
      simp only [rlim, rgp, Retiring, own, e_th', e_rz, e_size, upd, hzo, Nat.add_sub_cancel, if_true] at *
      grind
    have hlo : s.size ≤ 2 ^ ((s.th t).pfree - 1) := by
      clear ftt; simp only [ZPc] at rtt; grind
    have h_tbl : ∀ i, i < s.size → s'.tbl i = s.tbl i := by
      intro i hi; rw [e_tbl]; simp only; split <;> first | rfl | (exfalso; omega)
    obtain ⟨fg, ft, fpend, fgrow⟩ := hF
    simp only [GF] at fg
    obtain ⟨fgn, fgz, fgl, fgc⟩ := fg
    refine ⟨?_, ?_, ?_, ?_⟩
    · simp only [GF]
      refine ⟨?_, ?_, ?_, ?_⟩
      · intro p; have := fgn p; simpa only [GFn, valid, vz, e_nxt, e_life, e_isB, e_hi] using this
      · rw [e_life]; exact fgz
      · intro i hi
        rw [e_size] at hi
        have := fgl i hi
        simp only [live] at *
        rw [h_tbl i hi, e_life, e_nxt]; assumption
      · intro u b hb; rw [e_cs] at hb; have := fgc u b hb; omega
    · intro u
      by_cases hu : u = t
      · have hu' : t = u := hu.symm
        subst hu'
        have e1' : s'.th t = x' := by rw [e_th']; simp [upd]
        rw [e1']
        have ftt16 := ftt.2.2.2.2.2.2.2.2.2.2.2.2.2.2.2.1
        have c2 := ftt.2.1
        clear ft fpend fgrow nw fgn
        simp only [TF, Pend, InAdd, HasPos, GcPc, ZPc, HPc, Worker, AddPc, xpc, reduceCtorEq, false_or, or_false, false_and,
          and_false, false_implies, true_or, or_true, true_and, and_true, not_true_eq_false, not_false_eq_true, ne_eq, true_implies,
          imp_self, forall_const]
        simp only [vz, valid] at ftt16 ⊢
        simp only [e_nxt, e_life, e_isB, e_cs, e_rz, xitn, xitx, xrk]
        clear ftt
        grind
      · have e1' : s'.th u = s.th u := by rw [e_th']; simp [upd, hu]
        rw [e1']
        refine TF_user hR ⟨⟨fgn, fgz, fgl, fgc⟩, ft, fpend, fgrow⟩ (nw u hu).2 e_nxt (fun p _ => by rw [e_life])
          (fun p _ => by rw [e_hsh]) (fun p _ => by rw [e_isB])
          (fun i hi => h_tbl i (by omega)) (by rw [e_cs]) (by rw [e_rz]) hclk ?_ (ft u)
        intro _ m hl
        simpa only [Lim, hrt.1, hrt.2.1, hrt.2.2, e_cs, e_size] using hl
    · refine XPend_frame e_th' ?_ fpend
      clear ftt ft fgrow
      grind [Pend]
    · intro o ho hph hrk
      exfalso
      rw [e_th'] at hph hrk; simp only [upd] at hph hrk
      rw [e_rz] at ho
      have : o = t := by omega
      subst this
      clear ftt ft fgrow fgn
      simp only [if_true, InPhase, Worker, AddPc, GcPc, ZPc] at *
      grind
set_option hygiene false in
/-- `spawn` / `join`: owner `t` and helper `u` change; no heap change -/
macro "f_sj" hR:ident hF:ident : tactic =>
  `(tactic|
  (have rl := rlim_live $hR $hF
   have hsame : SameHeap s s' := ⟨e_nxt, e_hsh, e_isB, e_life, e_size, e_tbl, e_hi⟩
   have hclk : s.clock ≤ s'.clock := by rw [e_clock]; omega
   have rtt := ($hR).t t; have ftt := ($hF).t t; have rg := ($hR).g; have rtu := ($hR).t u; have ftu := ($hF).t u
   simp only [TR, GR] at rtt rg rtu
   have hzo : s.rzOwner = t + 1 := by simp only [ZPc] at rtt; grind
   have hut : u ≠ t := by grind
   have hrlg : rlim s' = rlim s ∧ rgp s' = rgp s := by
     simp only [rlim, rgp, Retiring, own, e_th', e_rz, e_size, upd, hzo, Nat.add_sub_cancel, if_true] at *
     grind
   obtain ⟨hrl, hrg⟩ := hrlg
   have hR0 := $hR; have hF0 := $hF
   obtain ⟨fg, ft, fpend, fgrow⟩ := $hF
   have hgrow := fgrow t hzo (.inl (by grind))
   have hlim : ∀ w m, Lim s w m → Lim s' w m := by
     intro w m hl; simpa only [Lim, e_size, hrl, hrg, e_cs] using hl
   refine ⟨GF_frame hsame e_cs hclk fg, ?tt, ?pp, ?gg⟩
   case tt =>
     intro w
     by_cases hw : w = t
     · have hw' : t = w := hw.symm
       subst hw'
       have e1' : s'.th t = x' := by rw [e_th']; simp [upd]
       rw [e1']
       refine TF_frame hsame (by rw [e_cs]) e_rz hrl hrg hclk ?_
       have ftt16 := ftt.2.2.2.2.2.2.2.2.2.2.2.2.2.2.2.1
       have c2 := ftt.2.1; have c7 := ftt.2.2.2.2.2.2.1
       clear ft fpend fgrow fg hR0 hF0 hgrow
       simp only [TF, Pend, InAdd, HasPos, GcPc, ZPc, HPc, Worker, AddPc, xpc, reduceCtorEq, false_or, or_false, false_and,
         and_false, false_implies, true_or, or_true, true_and, and_true, not_true_eq_false, not_false_eq_true, ne_eq, true_implies,
         imp_self, forall_const] at c7 ⊢
       simp only [xitn, xitx, xrk, xj, xjend]
       clear ftt
       grind
     · by_cases hw2 : w = u
       · subst hw2
         have e1' : s'.th w = y' := by rw [e_th']; simp [upd, hw]
         rw [e1']
         refine TF_frame hsame (by rw [e_cs]) e_rz hrl hrg hclk ?_
         have ftu16 := ftu.2.2.2.2.2.2.2.2.2.2.2.2.2.2.2.1
         have c2 := ftu.2.1; have c7 := ftt.2.2.2.2.2.2.1
         clear ft fpend fgrow fg hR0 hF0 hgrow
         simp only [TF, Pend, InAdd, HasPos, GcPc, ZPc, HPc, Worker, AddPc, ypc, reduceCtorEq, false_or, or_false, false_and,
           and_false, false_implies, true_or, or_true, true_and, and_true, not_true_eq_false, not_false_eq_true, ne_eq, true_implies,
           imp_self, forall_const] at c7 ⊢
         simp only [yitn, yitx, yrk, yj, yjend]
         clear ftt ftu
         grind
       · have e1' : s'.th w = s.th w := by rw [e_th']; simp [upd, hw, hw2]
         rw [e1']; exact TF_frame hsame (by rw [e_cs]) e_rz hrl hrg hclk (ft w)
   case pp =>
     intro a b hab pa pb
     have g0 := fpend a b hab
     clear ftt ftu ft fgrow fg hR0 hF0 hgrow
     rw [e_th'] at pa pb ⊢; simp only [upd] at pa pb ⊢
     by_cases ha : a = t <;> by_cases hb : b = t <;> by_cases ha2 : a = u <;> by_cases hb2 : b = u <;>
       simp only [ha, hb, ha2, hb2, if_true, if_false] at pa pb ⊢ <;> grind [Pend]
   ))

set_option maxHeartbeats 4000000 in
theorem invF_spawn {c s s' t o u len} (hc : c.ownerByOr = false) (hR : InvR c s) (hF : InvF c s)
    (st : step c s t (.spawn u len) = some (s', o)) : InvF c s' := by
  st_open st
  st_open2
  f_sj hR hF
  intro o ho hph hrk j h1 h2
  rw [e_rz] at ho
  have : o = t := by omega
  subst this
  rw [e_th'] at hph hrk h1 h2 ⊢; simp only [upd, if_true] at hph hrk h1 h2 ⊢
  have hl : ∀ i, live s (s.tbl i) → live s' (s.tbl i) := fun i h => by simpa only [live, e_nxt, e_life] using h
  rw [e_tbl]
  rcases hgrow (by grind) j (by grind) (by grind) with h | h | ⟨w, hw1, hw2, hw3⟩
  · exact .inl (hl _ h)
  · by_cases hj : j < (s.th o).j + len
    · refine .inr (.inr ⟨u, ?_⟩)
      simp only [hut, if_false, if_true]; grind
    · exact .inr (.inl (by grind))
  · refine .inr (.inr ⟨w, ?_⟩)
    have hwo : w ≠ o := by intro e; subst e; have := rtt.2.2.2.1 hzo; omega
    have hwu : w ≠ u := by intro e; subst e; clear ftt ftu ft; simp only [HPc, Worker, AddPc, GcPc] at rtu; grind
    simp only [hwo, hwu, if_false]; exact ⟨hw1, hw2, hw3⟩

set_option maxHeartbeats 4000000 in
theorem invF_join {c s s' t o u} (hc : c.ownerByOr = false) (hR : InvR c s) (hF : InvF c s)
    (st : step c s t (.join u) = some (s', o)) : InvF c s' := by
  st_open st
  st_open2
  f_sj hR hF
  intro o ho hph hrk j h1 h2
  rw [e_rz] at ho
  have : o = t := by omega
  subst this
  rw [e_th'] at hph hrk h1 h2 ⊢; simp only [upd, if_true] at hph hrk h1 h2 ⊢
  have hl : ∀ i, live s (s.tbl i) → live s' (s.tbl i) := fun i h => by simpa only [live, e_nxt, e_life] using h
  rw [e_tbl]
  rcases hgrow (by grind) j (by grind) (by grind) with h | h | ⟨w, hw1, hw2, hw3⟩
  · exact .inl (hl _ h)
  · exact .inr (.inl (by grind))
  · refine .inr (.inr ⟨w, ?_⟩)
    have hwo : w ≠ o := by intro e; subst e; have := rtt.2.2.2.1 hzo; omega
    have hwu : w ≠ u := by intro e; subst e; have := rtu.2.2.2.2.2.2.2.2.2.2.2.2.2.2.2.2.2.2 (.inr (by grind)); omega
    simp only [hwo, hwu, if_false]; exact ⟨hw1, hw2, hw3⟩

end UrcuVerif.Lfht.Conc
