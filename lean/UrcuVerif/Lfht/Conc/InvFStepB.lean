import UrcuVerif.Lfht.Conc.InvF
/-! Layer F is preserved by every step: the insertion and unlink CAS (proof-only file). -/
namespace UrcuVerif.Lfht.Conc
open UrcuVerif
set_option linter.unusedSimpArgs false
set_option linter.unusedVariables false
set_option maxHeartbeats 4000000 in
theorem invF_casIns {c s s' t o} (hc : c.ownerByOr = false) (hR : InvR c s) (hF : InvF c s)
    (st : step c s t .casIns = some (s', o)) : InvF c s' := by
  st_open st
  all_goals first
    | (f_local hR hF [(s.th t).prev, (s.th t).iter.ptr, (s.th t).node]; done)
    | skip
  all_goals
    have wfacts := worker_facts hR t
    have wdisj := fun u => worker_disj hR t u
    f_mut_open hR hF
    have gp := fgn (s.th t).prev; have gn := fgn (s.th t).node; have gi := fgn (s.th t).iter.ptr
    have tm := rg.2.2.1 (s.th t).j
    simp only [GFn] at gp gn gi
    -- what the thread knows at the CAS
    have kf : valid s (s.th t).prev ∧ (s.th t).iter.rem = false ∧ (s.th t).iter.own = false ∧
        (s.th t).iter.bkt = s.isB (s.th t).prev ∧ vz s (s.th t).iter.ptr ∧ s.life (s.th t).node = .priv ∧
        (s.th t).node ≠ 0 ∧ (s.isB (s.th t).node = true ↔ (s.th t).mode = .bkt) ∧ (s.th t).prev ≠ (s.th t).node ∧
        ((s.th t).mode = .bkt → Worker (s.th t) ∧ (s.th t).node = s.tbl (s.th t).j ∧ (s.th t).j < (s.th t).jend) ∧
        ((s.th t).mode ≠ .bkt → Pend (s.th t)) := by
      grind [valid, vz, Pend, HasPos, Worker, AddPc, InPhase]
    obtain ⟨k1, k2, k3, k4, k5, k6, k7, k8, k9, k10, k11⟩ := kf
    have h_valid : ∀ p, valid s p → valid s' p := by
      clear rtt ftt; intro p; simp only [valid, e_life, upd]; grind
    have h_priv : ∀ p, p ≠ (s.th t).node → s.life p = .priv → s'.life p = .priv := by
      clear rtt ftt; intro p; simp only [e_life, upd]; grind
    have h_lv : ∀ p, live s p → live s' p := by
      clear rtt ftt; intro p; simp only [live, e_life, e_nxt, upd]; grind
    have h_rem : ∀ p, (s.nxt p).rem = true → (s'.nxt p).rem = true ∧ (s'.nxt p).ptr = (s.nxt p).ptr ∧
        (s'.nxt p).bkt = (s.nxt p).bkt := by
      clear rtt ftt; intro p; simp only [e_nxt, upd]; grind
    refine ⟨?_, ?_, ?_, ?_⟩
    · simp only [GF]
      refine ⟨?_, ?_, ?_, ?_⟩
      · intro p
        have gpp := fgn p; have hv1 := h_valid (s.nxt p).ptr; have hv2 := h_valid (s.th t).iter.ptr
        have hv3 : valid s' (s.th t).node := by simp only [valid, e_life, upd]; simp
        clear rtt ftt
        simp only [GFn] at gpp ⊢
        simp only [vz] at *
        simp only [valid] at gpp gp gn gi k1 ⊢
        st_simp
        by_cases h1 : p = (s.th t).prev <;> by_cases h2 : p = (s.th t).node <;> simp only [h1, h2, if_true, if_false] <;> grind
      · st_simp; grind
      · intro i hi; rw [e_tbl]; rw [e_size] at hi; exact h_lv _ (fgl i hi)
      · intro u b hb; rw [e_cs] at hb; have := fgc u b hb; omega
    · intro u
      by_cases hu : u = t
      · have hu' : t = u := hu.symm
        subst hu'
        have e1 : s'.th t = x' := by rw [e_th']; simp [upd]
        rw [e1]
        have hvi := h_valid (s.th t).itn; have hvx := h_valid (s.th t).itx.ptr
        have fgct := fgc t
        have wf2 := wfacts
        have hlb := fun i => h_lv (s.tbl i)
        have tm2 := rg.2.2.1 ((s.th t).j + 1 - 2 ^ ((s.th t).rord - 1))
        have pw := @two_pow_pred (s.th t).rord
        clear ft fpend fgrow hR0 fgn wdisj
        simp only [TF, vz, HB, Lim] at ftt ⊢
        simp only [e_hsh, e_isB, e_size, e_tbl, e_cs, e_rz, hrl, hrg, e_clock]
        grind [valid, live, Pend, InAdd, HasPos, AddPc, GcPc, ZPc, HPc, Worker, InPhase]
      · have e1 : s'.th u = s.th u := by rw [e_th']; simp [upd, hu]
        rw [e1]
        have fu := ft u; have pu := fpend t u (Ne.symm hu); have wd := wdisj u hu
        have wfu := worker_facts hR0 u
        refine TF_evo (n := (s.th t).node) hR0 rl.1 e_hsh e_isB e_size e_tbl (by rw [e_cs]) e_rz hrl hrg hclk h_valid h_priv
          (fun _ i => h_lv _) h_rem ?_ ?_ fu
        · intro hp
          have := (fu.2.2.2.2.2.1 hp)
          clear fu ft fpend fgrow hR0 fgn wdisj rtt ftt
          grind
        · intro a b j h1 h2
          have tmj := rg.2.2.1 j; have tmt := rg.2.2.1 (s.th t).j
          have wu := wfu (by clear rtt ftt; rcases a with a | a | a <;> simp [a])
          have pw := @two_pow_pred (s.th u).rord
          have := wu.2.2.2.2.2.2.1 j (by omega)
          clear fu ft fpend fgrow hR0 fgn wdisj ftt rtt
          by_cases hm : (s.th t).mode = .bkt
          · have := k10 hm
            have := wd (.inl this.1) (by rcases a with a | a | a <;> simp [a])
            grind
          · grind
    · refine XPend_frame e_th' ?_ fpend
      clear rtt ftt ft fgrow hR0 fgn wdisj
      grind [Pend]
    · have hlb : ∀ i, live s (s.tbl i) → live s' (s.tbl i) := fun i => h_lv _
      first
        | (refine XGrow_frame hR0 e_th' e_rz hlb e_tbl ?_ fgrow
           clear ftt ft fgrow hR0 fgn wdisj
           grind [InPhase, Worker, AddPc, GcPc])
        | (have hl : live s' (s.tbl (s.th t).j) := by
             clear rtt ftt ft fgrow hR0 fgn wdisj
             simp only [live, e_life, e_nxt, upd]; grind
           refine XGrow_adv hR0 e_th' e_rz hlb e_tbl ?_ ?_ hl fgrow
           · clear ftt ft fgrow hR0 fgn wdisj; grind [InPhase, Worker, AddPc, GcPc]
           · clear ftt ft fgrow hR0 fgn wdisj; grind [InPhase, Worker, AddPc, GcPc])
set_option maxHeartbeats 4000000 in
theorem invF_casGc {c s s' t o} (hc : c.ownerByOr = false) (hR : InvR c s) (hF : InvF c s)
    (st : step c s t .casGc = some (s', o)) : InvF c s' := by
  st_open st
  all_goals first
    | (f_local hR hF [(s.th t).prev, (s.th t).iter.ptr, (s.th t).node]; done)
    | skip
  all_goals
    have np := no_pub hR hF
    have hF0 := hF
    f_mut_open hR hF
    have gp := fgn (s.th t).prev; have gc := fgn (s.th t).iter.ptr
    simp only [GFn] at gp gc
    have kf : valid s (s.th t).prev ∧ (s.th t).iter.rem = false ∧ (s.th t).iter.own = false ∧
        (s.th t).iter.bkt = s.isB (s.th t).prev ∧ valid s (s.th t).iter.ptr ∧ (s.th t).iter.ptr ≠ 0 ∧
        (s.nxt (s.th t).iter.ptr).rem = true ∧ (s.nxt (s.th t).iter.ptr).ptr = (s.th t).nx.ptr ∧
        (s.th t).prev ≠ (s.th t).iter.ptr ∧ vz s (s.th t).nx.ptr := by
      grind [valid, vz, HasPos]
    obtain ⟨k1, k2, k3, k4, k5, k6, k7, k8, k9, k10⟩ := kf
    have h_valid : ∀ p, valid s p → valid s' p := by
      clear rtt ftt; intro p; simp only [valid, e_life, upd]; grind
    have h_priv : ∀ p, p ≠ 0 → s.life p = .priv → s'.life p = .priv := by
      clear rtt ftt; intro p; simp only [valid, e_life, upd] at *; grind
    have h_lv : ∀ p, live s p → live s' p := by
      clear rtt ftt; intro p; simp only [live, e_life, e_nxt, upd]; grind
    have h_rem : ∀ p, (s.nxt p).rem = true → (s'.nxt p).rem = true ∧ (s'.nxt p).ptr = (s.nxt p).ptr ∧
        (s'.nxt p).bkt = (s.nxt p).bkt := by
      clear rtt ftt; intro p; simp only [e_nxt, upd]; grind
    refine InvF_mut (n := 0) hR0 hF0 e_th' e_hsh e_isB e_size e_tbl e_cs e_rz hrl hrg hclk h_valid h_priv
      (fun _ _ _ i => h_lv _) h_rem (fun u _ => np.1 u) (fun u _ => np.2 u) ?_ ?_ ?_ ?_
    · simp only [GF]
      refine ⟨?_, ?_, ?_, ?_⟩
      · intro p
        have gpp := fgn p; have hv1 := h_valid (s.nxt p).ptr; have hv2 := h_valid (s.th t).nx.ptr
        clear rtt ftt
        simp only [GFn] at gpp ⊢
        simp only [vz] at *
        simp only [valid] at gpp gp gc k1 k5 ⊢
        st_simp
        by_cases h1 : p = (s.th t).prev <;> by_cases h2 : p = (s.th t).iter.ptr <;> simp only [h1, h2, if_true, if_false] <;> grind
      · st_simp; grind
      · intro i hi; rw [e_tbl]; rw [e_size] at hi; exact h_lv _ (fgl i hi)
      · intro u b hb; rw [e_cs] at hb; have := fgc u b hb; omega
    · have hvi := h_valid (s.th t).itn; have hvx := h_valid (s.th t).itx.ptr
      have hvo := h_valid (s.th t).old; have hvn := h_valid (s.th t).node
      have hrn := h_rem (s.th t).node
      have fgct := fgc t
      have hlb := fun i => h_lv (s.tbl i)
      clear ft fpend fgrow hR0 fgn hF0 np
      simp only [TF, vz, HB, Lim] at ftt ⊢
      simp only [e_hsh, e_isB, e_size, e_tbl, e_cs, e_rz, hrl, hrg, e_clock]
      grind [valid, live, Pend, InAdd, HasPos, AddPc, GcPc, ZPc, HPc, Worker, InPhase]
    · refine XPend_frame e_th' ?_ fpend
      clear rtt ftt ft fgrow hR0 fgn hF0 np
      grind [Pend]
    · refine XGrow_frame hR0 e_th' e_rz (fun i => h_lv _) e_tbl ?_ fgrow
      clear ftt ft fgrow hR0 fgn hF0 np
      grind [InPhase, Worker, AddPc, GcPc]

end UrcuVerif.Lfht.Conc
