import UrcuVerif.Lfht.Conc.InvLAll
/-!
# Concurrent rculfhash — step-level consequences of layers R/F/L used by C05 (proof-only file)
-/
namespace UrcuVerif.Lfht.Conc
open UrcuVerif
set_option linter.unusedSimpArgs false
set_option linter.unusedVariables false

/-- **insert_cas_sound**: a successful insertion CAS (the compared word equals `iter`) links the private node
between `prev` — linked, not flagged — and `prev`'s successor in `L`, in split order. -/
theorem insert_cas_sound_step {c s s' t o} (hc : c.ownerByOr = false) (r : Reach c s)
    (st : step c s t .casIns = some (s', o)) (hcas : s.nxt (s.th t).prev = (s.th t).iter) (hd : okp s (s.th t).prev = true) :
    (s.th t).prev ∈ s.L ∧ (s.nxt (s.th t).prev).rem = false ∧ s.life (s.th t).node = .priv ∧ (s.th t).node ∉ s.L ∧
    nxp s (s.th t).prev = (s.th t).iter.ptr ∧ ((s.th t).iter.ptr = 0 ∨ (s.th t).iter.ptr ∈ s.L) ∧
    ok s (s.th t).prev (s.th t).node ∧ ((s.th t).iter.ptr ≠ 0 → ok s (s.th t).node (s.th t).iter.ptr) ∧
    s'.L = insAfter (s.th t).prev (s.th t).node s.L ∧ nxp s' (s.th t).prev = (s.th t).node ∧
    nxp s' (s.th t).node = (s.th t).iter.ptr := by
  have ⟨hR, hF, hL⟩ := invRFL_reach hc r
  have pcf : (s.th t).pc = .aCas := by
    simp only [step, stepAdd] at st; split at st; cases st; split at st; assumption; cases st
  have ftt := hF.t t; have rtt := hR.t t; have ltt := hL.t t; have fg := hF.g; have lg := hL.g; have rg := hR.g
  simp only [TF, TR, GF, GR] at ftt rtt fg rg
  obtain ⟨fgn, fgz, fgl, fgc⟩ := fg
  have gp := fgn (s.th t).prev; have gn := fgn (s.th t).node
  have tm := rg.2.2.1 (s.th t).j
  have wf := worker_facts hR t
  simp only [GFn] at gp gn
  have kf : s.life (s.th t).prev = .linked ∧ s.life (s.th t).node = .priv ∧ ok s (s.th t).prev (s.th t).node ∧
      ((s.nxt (s.th t).prev).ptr ≠ 0 → ok s (s.th t).node (s.nxt (s.th t).prev).ptr) ∧
      (s.th t).iter.ptr = (s.nxt (s.th t).prev).ptr ∧ (s.nxt (s.th t).prev).rem = false := by
    simp only [TL, Before, DupW] at ltt
    clear lg fgn
    grind [valid, vz, Pend, HasPos, Worker, AddPc, InPhase, ok, okp]
  obtain ⟨k1, k2, k3, k4, k5, k6⟩ := kf
  obtain ⟨g1, g2, g3, g4, g5⟩ := lg
  have hpL := (g2 _).mpr k1
  have hnL : (s.th t).node ∉ s.L := fun h => by have := (g2 _).mp h; rw [k2] at this; cases this
  have hne : (s.th t).prev ≠ (s.th t).node := fun e => hnL (e ▸ hpL)
  have e_nxt : s'.nxt = upd (upd s.nxt (s.th t).node { ptr := (s.th t).iter.ptr, bkt := (s.th t).mode == .bkt }) (s.th t).prev
      { ptr := (s.th t).node, bkt := (s.th t).iter.bkt } ∧ s'.L = insAfter (s.th t).prev (s.th t).node s.L := by
    st_open st
    all_goals first | exact ⟨e_nxt, e_L⟩ | (exfalso; clear ftt rtt ltt fgn gp gn g1 g2 g3 g4 g5; grind)
  refine ⟨hpL, k6, k2, hnL, by simp only [nxp]; exact k5.symm, ?_, k3, fun h => k5 ▸ k4 (k5 ▸ h), e_nxt.2, ?_, ?_⟩
  · by_cases h0 : (s.th t).iter.ptr = 0
    · exact .inl h0
    · right
      have := chn_next_mem g3 hpL (by simp only [nxp]; rw [← k5]; exact h0)
      simpa only [nxp, ← k5] using this
  · simp only [nxp, e_nxt.1, upd, if_true]
  · simp only [nxp, e_nxt.1, upd, Ne.symm hne, if_false, if_true]

/-- **traversal_monotone** (one hop): a walk (lookup / next_duplicate / next, also the duplicate scan of an add)
moves from a node to the pointer part of its `next`, which sorts behind it -/
theorem walk_hop {c s s' t o} (hc : c.ownerByOr = false) (r : Reach c s)
    (st : step c s t .ldWalk = some (s', o)) (hp : (s'.th t).pc = .wNext) (hd : okp s (s.th t).cur = true) :
    (s'.th t).cur = nxp s (s.th t).cur ∧ ok s (s.th t).cur (s'.th t).cur ∧ s.rev (s.th t).cur ≤ s.rev (s'.th t).cur := by
  have ⟨hR, hF, hL⟩ := invRFL_reach hc r
  have ftt := hF.t t; have lg5 := hL.g.2.2.2.2 (s.th t).cur
  simp only [TF] at ftt
  st_open st
  all_goals (have e1 : s'.th t = x' := by rw [e_th']; simp [upd])
  all_goals (rw [e1] at hp ⊢; first | (rw [xpc] at hp; cases hp; done) | (exfalso; simp_all; done) | skip)
  all_goals
    clear ftt
    have hv : valid s (s.th t).cur := by grind [valid, okp]
    have hc' : x'.cur = (s.nxt (s.th t).cur).ptr := xcur
    have hn0 : (s.nxt (s.th t).cur).ptr ≠ 0 := by grind
    have hok := lg5 hv hn0
    refine ⟨by simp only [nxp]; exact hc', by rw [hc']; exact hok, ?_⟩
    rw [hc']; simp only [ok] at hok; omega

/-- **grow_before_publish**: when the doubled size is stored, every bucket below it is already linked and
not flagged -/
theorem grow_before_publish_step {c s s' t o} (hc : c.ownerByOr = false) (r : Reach c s)
    (st : step c s t .stSizeGrow = some (s', o)) :
    s.size < s'.size ∧ ∀ i, i < s'.size → s.tbl i ≠ 0 ∧ s.life (s.tbl i) = .linked ∧ (s.nxt (s.tbl i)).rem = false := by
  have ⟨hR', hF'⟩ := invRF_reach hc (.step r st)
  have ⟨hR, _⟩ := invRF_reach hc r
  have g := hF'.g; have rg := hR'.g; have rtt := hR.t t
  simp only [GF, live] at g; simp only [GR] at rg; simp only [TR] at rtt
  st_open st
  have hzo : s.rzOwner = t + 1 := by simp only [ZPc] at rtt; grind
  have oph := rtt.2.2.2.2.2.2.2.2.2.1 hzo (.inl (by grind))
  have pw := @two_pow_pred (s.th t).rord oph.2.1
  have p0 := Nat.two_pow_pos ((s.th t).rord - 1)
  refine ⟨by rw [e_size]; omega, ?_⟩
  intro i hi
  have h1 := g.2.2.1 i hi
  have h2 := rg.2.1 i hi
  rw [e_tbl, e_life, e_nxt] at h1; rw [e_tbl] at h2
  exact ⟨h2, h1.1, h1.2⟩

end UrcuVerif.Lfht.Conc
