import UrcuVerif.Lfht.Conc.InvD
/-! Layer D is preserved by every step (part 3) (proof-only file). -/
namespace UrcuVerif.Lfht.Conc
open UrcuVerif
set_option linter.unusedSimpArgs false
set_option linter.unusedVariables false

set_option maxHeartbeats 4000000 in
theorem invD_rzUnlock {c s s' t o} (hc : c.ownerByOr = false) (r : Reach c s) (hD : InvD s)
    (st : step c s t .rzUnlock = some (s', o)) : InvD s' := by
  have st0 := st
  st_open st
  all_goals d_step skip

set_option maxHeartbeats 4000000 in
theorem invD_partBegin {c s s' t o} (hc : c.ownerByOr = false) (r : Reach c s) (hD : InvD s)
    (st : step c s t .partBegin = some (s', o)) : InvD s' := by
  have st0 := st
  st_open st
  all_goals d_step skip

set_option maxHeartbeats 4000000 in
theorem invD_partEnd {c s s' t o} (hc : c.ownerByOr = false) (r : Reach c s) (hD : InvD s)
    (st : step c s t .partEnd = some (s', o)) : InvD s' := by
  have st0 := st
  st_open st
  all_goals d_step skip

set_option maxHeartbeats 4000000 in
theorem invD_stSizeGrow {c s s' t o} (hc : c.ownerByOr = false) (r : Reach c s) (hD : InvD s)
    (st : step c s t .stSizeGrow = some (s', o)) : InvD s' := by
  have st0 := st
  st_open st
  all_goals d_step skip

set_option maxHeartbeats 4000000 in
theorem invD_stSizeShrink {c s s' t o} (hc : c.ownerByOr = false) (r : Reach c s) (hD : InvD s)
    (st : step c s t .stSizeShrink = some (s', o)) : InvD s' := by
  have st0 := st
  st_open st
  all_goals d_step skip

set_option maxHeartbeats 4000000 in
theorem invD_gpStart {c s s' t o} (hc : c.ownerByOr = false) (r : Reach c s) (hD : InvD s)
    (st : step c s t .gpStart = some (s', o)) : InvD s' := by
  have st0 := st
  st_open st
  all_goals d_step skip

set_option maxHeartbeats 4000000 in
theorem invD_gpEnd {c s s' t o} (hc : c.ownerByOr = false) (r : Reach c s) (hD : InvD s)
    (st : step c s t .gpEnd = some (s', o)) : InvD s' := by
  have st0 := st
  st_open st
  all_goals d_step skip

set_option maxHeartbeats 4000000 in
theorem invD_tblFree {c s s' t o} (hc : c.ownerByOr = false) (r : Reach c s) (hD : InvD s)
    (st : step c s t .tblFree = some (s', o)) : InvD s' := by
  have st0 := st
  st_open st
  all_goals d_step skip

set_option maxHeartbeats 4000000 in
theorem invD_tblAlloc {c s s' t o base} (hc : c.ownerByOr = false) (r : Reach c s) (hD : InvD s)
    (st : step c s t (.tblAlloc base) = some (s', o)) : InvD s' := by
  have st0 := st
  st_open st
  all_goals d_step skip

set_option maxHeartbeats 4000000 in
theorem invD_spawn {c s s' t o v len} (hc : c.ownerByOr = false) (r : Reach c s) (hD : InvD s)
    (st : step c s t (.spawn v len) = some (s', o)) : InvD s' := by
  have st0 := st
  st_open st
  st_open2
  all_goals d_step skip

set_option maxHeartbeats 4000000 in
theorem invD_join {c s s' t o v} (hc : c.ownerByOr = false) (r : Reach c s) (hD : InvD s)
    (st : step c s t (.join v) = some (s', o)) : InvD s' := by
  have st0 := st
  st_open st
  st_open2
  all_goals d_step skip

end UrcuVerif.Lfht.Conc
