import UrcuVerif.Lfht.Conc.LinAdd
/-!
# Concurrent rculfhash — linearizability: one call of `replace` / `del` has a linearisation point (proof-only file)
-/
namespace UrcuVerif.Lfht.Conc
open UrcuVerif
set_option linter.unusedSimpArgs false
set_option linter.unusedVariables false

/-- tracked while a `replace` call has not reached the linearisation point of its result `r` -/
def ReplInv (op : SOp) (r : Out) (x : Thr) : Prop :=
  curOp x = some op ∧ x.op = .replace ∧ (r = .ret 0 → ¬ InRepl x)

set_option maxHeartbeats 2000000 in
theorem repl_own {c s s' t l o op r} (hc : c.ownerByOr = false) (r0 : Reach c s) (st : step c s t l = some (s', o))
    (h : ReplInv op r (s.th t)) :
    ((s'.th t).op ≠ .none ∧ (ReplInv op r (s'.th t) ∨ LP c op r (s, t, l, o))) ∨
    ((s'.th t).op = .none ∧ (o = r → LP c op r (s, t, l, o))) := by
  have hN := invN_reach hc r0 t; simp only [TN] at hN
  obtain ⟨n1, n2, n3, n4, n5, n6, n7, n8, n9, n10, n11, n12, n13, n14, n15⟩ := hN
  obtain ⟨h1, h2, h3⟩ := h
  have hpcs := n13 h2
  rcases own_step_class hc r0 st (.inr (.inl h2)) with hcont | ⟨hnone, hret⟩
  · left
    obtain ⟨c1, c2, c3, c4, c5, c6, c7, c8, c9, c10, c11⟩ := hcont
    refine ⟨by rw [c1, h2]; simp, ?_⟩
    have hcur : curOp (s'.th t) = some op := by
      simp only [curOp, c1, c2, c3, c4, c5, c6 h2] at h1 ⊢; simp only [h2] at h1 ⊢; exact h1
    by_cases hq : r = .ret 0 ∧ InRepl (s'.th t)
    · right
      rcases c9 hq.2 with ⟨a1, _⟩ | ⟨a1, a2, a3, a4, a5⟩
      · exact absurd a1 (h3 hq.1)
      · subst a1
        have := lin_repl hc r0 st a2 a3 a4 h1
        simp only [h2, if_true] at this
        right; rw [hq.1]; exact this
    · left
      exact ⟨hcur, by rw [c1]; exact h2, fun hr hi => hq ⟨hr, hi⟩⟩
  · right
    refine ⟨hnone, ?_⟩
    intro hor
    simp only [Ret] at hret
    simp only [GcPc] at hpcs
    rcases hret with ⟨rfl, a1, _⟩ | ⟨rfl, a1, _⟩ | ⟨rfl, a1, _⟩ | ⟨rfl, a1, _⟩ | ⟨rfl, a1, _⟩ |
      ⟨rfl, a1, a2⟩ | ⟨rfl, a1, _⟩ | ⟨rfl, a1, _⟩ | ⟨rfl, a1, _⟩ | ⟨rfl, a1, a2, a3, a4, a5⟩
    · exfalso; rw [a1] at hpcs; simp at hpcs
    · exfalso; rw [a1] at hpcs; simp at hpcs
    · exfalso; rw [a1] at hpcs; simp at hpcs
    · exfalso; rw [a1] at hpcs; simp at hpcs
    · exfalso; rw [a1] at hpcs; simp at hpcs
    · exfalso
      rcases a2 with ⟨_, b⟩ | ⟨b, _⟩
      · rw [b] at hor; exact h3 hor.symm (.inr a1)
      · exact b h2
    · exfalso; rw [a1] at hpcs; simp at hpcs
    · exfalso; rw [a1] at hpcs; simp at hpcs
    · exfalso; rw [a1] at hpcs; simp at hpcs
    · left; rw [← hor]
      exact lin_fail hc r0 h1 (.inr (.inr (.inr ⟨rfl, a1, a3, a4, a5⟩)))

theorem repl_not_idle {c s t} (hc : c.ownerByOr = false) (r0 : Reach c s) (h2 : (s.th t).op = .replace) :
    (s.th t).pc ≠ .idle ∧ (s.th t).pc ≠ .hDone := by
  have hN := invN_reach hc r0 t; simp only [TN] at hN
  have := hN.2.2.2.2.2.2.2.2.2.2.2.2.1 h2
  simp only [GcPc] at this
  constructor <;> (intro e; rw [e] at this; simp at this)

set_option maxHeartbeats 2000000 in
/-- the call step of `cds_lfht_replace`: it returns at once (empty iterator, or hash / key mismatch), or enters -/
theorem callReplace_step {c s s' t o n h k r} (hc : c.ownerByOr = false) (r0 : Reach c s)
    (st : step c s t (.callReplace n h k) = some (s', o)) :
    ((s'.th t).op = .none ∧ LinRO (s, t, .callReplace n h k, o) (.replace (s.th t).itn n h k) o) ∨
    ReplInv (.replace (s.th t).itn n h k) r (s'.th t) := by
  have hN := invN_reach hc r0 t; simp only [TN] at hN
  have hidle : (s.th t).op = .none := by
    have : (s.th t).pc = .idle := by have st0 := st; st_open st0 <;> grind
    exact hN.1 (.inl this)
  have st0 := st
  st_open st0
  all_goals (have e1 : s'.th t = x' := by rw [e_th']; simp [upd])
  · left; refine ⟨by rw [e1, xop]; exact hidle, ?_⟩
    rw [← e_out]; simp only [LinRO]
    have : (s.th t).itn = 0 := by assumption
    rw [this]; exact .replaceNull
  · left; refine ⟨by rw [e1, xop]; exact hidle, ?_⟩
    rw [← e_out]; simp only [LinRO]
    exact .replaceInval (by assumption) (.inl (by simp only [absL]; assumption))
  · left; refine ⟨by rw [e1, xop]; exact hidle, ?_⟩
    rw [← e_out]; simp only [LinRO]
    exact .replaceInval (by assumption) (.inr (by simp only [absL]; assumption))
  · right
    refine ⟨?_, by rw [e1, xop], ?_⟩
    · simp only [curOp, e1, xop, xold, xnode, xhs, xky]
    · intro _; rw [e1]; simp only [InRepl, GcPc, xpc]; simp

set_option maxHeartbeats 2000000 in
/-- **linearizability of `cds_lfht_replace`** (one call; `old` = the node of the caller's iterator) -/
theorem lin_replace_exec {c s0 evs s1 t n h k r} (hc : c.ownerByOr = false) (r0 : Reach c s0) (ex : Exec c s0 evs s1)
    (hcall : ∃ e0 rest, evs = e0 :: rest ∧ e0.2.1 = t ∧ e0.2.2.1 = .callReplace n h k ∧
      ∀ e, e ∈ rest → e.2.1 = t → OpK (e.1.th t).op)
    (hlast : ∃ e, evs.getLast? = some e ∧ e.2.1 = t ∧ e.2.2.2 = r) (hend : (s1.th t).op = .none) :
    LinAt c evs (.replace (s0.th t).itn n h k) r := by
  obtain ⟨e0, rest, rfl, ht, hl, hin⟩ := hcall
  cases ex with
  | @cons s u l sa o evs' s2 st ex' =>
    simp only at ht hl
    subst ht; subst hl
    have hcallf := callReplace_step (r := r) hc r0 st
    cases rest with
    | nil =>
      cases ex'
      rcases hcallf with ⟨_, hro⟩ | hinv
      · obtain ⟨e, he, _, ho⟩ := hlast
        simp at he; subst he; simp only at ho; subst ho
        exact ⟨_, List.mem_cons_self, .inl hro⟩
      · exact absurd hend (by rw [hinv.2.1]; simp)
    | cons e' rest' =>
      have hl' : ∃ e, (e' :: rest').getLast? = some e ∧ e.2.1 = u ∧ e.2.2.2 = r := by
        obtain ⟨e, he, x, y⟩ := hlast
        exact ⟨e, by rw [List.getLast?_cons_cons] at he; exact he, x, y⟩
      rcases hcallf with ⟨hnone, _⟩ | hinv
      · exfalso
        obtain ⟨e, he, x, _⟩ := hl'
        obtain ⟨e2, m1, m2, m3⟩ := op_none_stays ex' hnone ⟨e, List.mem_of_getLast? he, x⟩
        have := hin e2 m1 m2
        simp only [OpK, m3] at this; simp at this
      · have := lin_wrap (c := c) (t := u) (op := .replace (s0.th u).itn n h k) (r := r)
          (fun s => ReplInv (.replace (s0.th u).itn n h k) r (s.th u)) (fun _ => True)
          (by intro s l o s' rs sts _ hi _; exact repl_own hc rs sts hi)
          (by
            intro s w l o s' hw rs sts _ hi
            left
            rw [other_thread_same sts hw (repl_not_idle hc rs hi.2.1)]; exact hi)
          ex' (.step r0 st) hinv (fun _ _ => trivial) hin hl' hend
        obtain ⟨e, he, hp⟩ := this
        exact ⟨e, List.mem_cons_of_mem _ he, hp⟩

/-- tracked while a `del` call has not reached the linearisation point of its result `r` -/
def DelInv (op : SOp) (r : Out) (p : Nat) (s : State) (x : Thr) : Prop :=
  curOp x = some op ∧ x.op = .del ∧ x.node = p ∧
  (r = .ret 0 → PostLd x.pc → vis s p ∨ (s.nxt p).own = true)

/-- a visible node stays visible or gets its owner flag — unless this step is the `REMOVED` fetch-or of a `del`,
which is then the linearisation point of the `del` that will return 0 -/
theorem del_heap {c s s' u l o p} (hc : c.ownerByOr = false) (r0 : Reach c s) (st : step c s u l = some (s', o))
    (h : vis s p ∨ (s.nxt p).own = true) :
    (vis s' p ∨ (s'.nxt p).own = true) ∨ LinMut c (s, u, l, o) (.del p) (.ret 0) := by
  have ⟨hR, hF, hL⟩ := invRFL_reach hc r0
  rcases h with hv | ho
  rotate_left
  · exact .inl (.inr (own_frozen_step hc hR hF st p ho))
  rcases vis_step hc r0 st with hs | ⟨_, hs⟩ | ⟨rfl, hs⟩ | ⟨rfl, hs⟩
  · exact .inl (.inl ((hs p).mpr hv))
  · exact .inl (.inl ((hs p).mpr (.inr hv)))
  · by_cases e : p = (s.th u).node
    · right
      refine ⟨s', (absL s).erase p, st, .delOk hv, ?_⟩
      refine ⟨fun q => ?_, fun q hq => ?_⟩
      · simp only [MS.erase, absL]; rw [hs q, e]
      · simp only [MS.erase, absL] at hq ⊢
        have sa := abs_attr_step hc r0 st (p := q) (by rw [(hL.g.2.1 q).mp hq.2.1]; simp)
        exact ⟨sa.1.symm, sa.2.symm⟩
    · exact .inl (.inl ((hs p).mpr ⟨e, hv⟩))
  · by_cases e : p = (s.th u).old
    · left; right
      have pcf : (s.th u).pc = .rCas := by
        have st' := st
        simp only [step, stepRepl] at st'; split at st'; cases st'; split at st'; assumption; cases st'
      have hN := invN_reach hc r0 u; simp only [TN] at hN
      have hmode := hN.2.2.2.2.2.2.2.2.2.2.1 (.inl pcf)
      have hpriv := ((hF.t u).2.2.2.2.2.1 ⟨by rw [hmode]; simp, by simp [pcf]⟩).1
      have hnn : ¬ vis s (s.th u).node := by
        intro h; have := (hL.g.2.1 _).mp h.1; rw [hpriv] at this; cases this
      rcases ins_step hc r0 st with ⟨_, hh⟩ | ⟨hh, _⟩ | ⟨_, _, _, h1, h2⟩
      · exact absurd (hh _ ((hs (s.th u).node).mpr (.inl rfl))) hnn
      · cases hh
      · have := (replace_atomic_step hc r0 st h1 h2).2.1
        rw [e, this]
    · exact .inl (.inl ((hs p).mpr (.inr ⟨e, hv⟩)))

theorem del_not_idle {c s t} (hc : c.ownerByOr = false) (r0 : Reach c s) (h2 : (s.th t).op = .del) :
    (s.th t).pc ≠ .idle ∧ (s.th t).pc ≠ .hDone := by
  have hN := invN_reach hc r0 t; simp only [TN] at hN
  have := hN.2.2.2.2.2.2.2.2.2.2.2.2.2.1 h2
  simp only [GcPc] at this
  constructor <;> (intro e; rw [e] at this; simp at this)

set_option maxHeartbeats 2000000 in
theorem del_own {c s s' t l o r p} (hc : c.ownerByOr = false) (r0 : Reach c s) (st : step c s t l = some (s', o))
    (h : DelInv (.del p) r p s (s.th t)) :
    ((s'.th t).op ≠ .none ∧ (DelInv (.del p) r p s' (s'.th t) ∨ LP c (.del p) r (s, t, l, o))) ∨
    ((s'.th t).op = .none ∧ (o = r → LP c (.del p) r (s, t, l, o))) := by
  have ⟨hR, hF, hL⟩ := invRFL_reach hc r0
  have hN := invN_reach hc r0 t; simp only [TN] at hN
  obtain ⟨n1, n2, n3, n4, n5, n6, n7, n8, n9, n10, n11, n12, n13, n14, n15⟩ := hN
  obtain ⟨h1, h2, h3, h4⟩ := h
  have hpcs := n14 h2
  have ft := hF.t t; simp only [TF] at ft
  rcases own_step_class hc r0 st (.inr (.inr (.inl h2))) with hcont | ⟨hnone, hret⟩
  · left
    obtain ⟨c1, c2, c3, c4, c5, c6, c7, c8, c9, c10, c11⟩ := hcont
    refine ⟨by rw [c1, h2]; simp, ?_⟩
    have hcur : curOp (s'.th t) = some (.del p) := by
      simp only [curOp, c1, c5] at h1 ⊢; simp only [h2] at h1 ⊢; exact h1
    by_cases hr : r = .ret 0 ∧ PostLd (s'.th t).pc
    · by_cases hpl : PostLd (s.th t).pc
      · rcases del_heap hc r0 st (h4 hr.1 hpl) with hh | hh
        · exact .inl ⟨hcur, by rw [c1]; exact h2, by rw [c5]; exact h3, fun _ _ => hh⟩
        · right; right; rw [hr.1]; exact hh
      · -- entering: the load of `node->next` saw it unflagged
        left
        refine ⟨hcur, by rw [c1]; exact h2, by rw [c5]; exact h3, fun _ _ => ?_⟩
        rcases c10 h2 hr.2 with a | ⟨a1, a2, a3⟩
        · exact absurd a hpl
        · subst a1
          have f22 := ft.2.2.2.2.2.2.2.2.2.2.2.2.2.2.2.2.2.2.2.2.2.1 (.inl a2)
          have hl : s.life (s.th t).node = .linked := by
            have := (hF.g.1 (s.th t).node).2.2.2.2.2.2.2
            rw [a3] at this
            have hv := f22.1; simp only [valid] at hv
            cases h : s.life (s.th t).node <;> simp_all
          have hv : vis s p := by rw [← h3]; exact ⟨(hL.g.2.1 _).mpr hl, f22.2, a3⟩
          rcases vis_step hc r0 st with hs | ⟨hh, _⟩ | ⟨hh, _⟩ | ⟨hh, _⟩
          · exact .inl ((hs p).mpr hv)
          · cases hh
          · cases hh
          · cases hh
    · left
      exact ⟨hcur, by rw [c1]; exact h2, by rw [c5]; exact h3, fun a b => absurd ⟨a, b⟩ hr⟩
  · right
    refine ⟨hnone, ?_⟩
    intro hor
    simp only [Ret] at hret
    simp only [GcPc] at hpcs
    rcases hret with ⟨rfl, a1, _⟩ | ⟨rfl, a1, _⟩ | ⟨rfl, a1, _⟩ | ⟨rfl, a1, _⟩ | ⟨rfl, a1, _⟩ |
      ⟨rfl, a1, _⟩ | ⟨rfl, a1, a2, a3⟩ | ⟨rfl, a1, a2, a3⟩ | ⟨rfl, a1, a2⟩ | ⟨rfl, a1, _, _, a4, _⟩
    · exfalso; rw [a1] at hpcs; simp at hpcs
    · exfalso; rw [a1] at hpcs; simp at hpcs
    · exfalso; rw [a1] at hpcs; simp at hpcs
    · exfalso; rw [a1] at hpcs; simp at hpcs
    · exfalso; rw [a1] at hpcs; simp at hpcs
    · exfalso; rw [a1] at hpcs; simp at hpcs
    · left; rw [← hor]; exact lin_fail hc r0 h1 (.inl ⟨h2, rfl, a1, a2, a3⟩)
    · left; rw [← hor]; exact lin_fail hc r0 h1 (.inr (.inl ⟨h2, rfl, a1, a2, a3⟩))
    · rcases a2 with ⟨b1, b2⟩ | ⟨b1, b2⟩
      · left; rw [← hor]; exact lin_fail hc r0 h1 (.inr (.inr (.inl ⟨h2, rfl, a1, b2⟩)))
      · exfalso
        rw [b2] at hor
        have f23 := ft.2.2.2.2.2.2.2.2.2.2.2.2.2.2.2.2.2.2.2.2.2.2.1 (.inr (.inr (.inl a1)))
        rcases h4 hor.symm (.inr (.inr (.inr (.inr a1)))) with hv | ho
        · have := hv.2.2; rw [← h3, f23] at this; cases this
        · rw [← h3, b1] at ho; cases ho
    · exfalso; rw [h2] at a4; cases a4

set_option maxHeartbeats 2000000 in
/-- **linearizability of `cds_lfht_del`** (one call; the node is the one of the caller's iterator) -/
theorem lin_del_exec {c s0 evs s1 t r} (hc : c.ownerByOr = false) (r0 : Reach c s0) (ex : Exec c s0 evs s1)
    (hcall : ∃ e0 rest, evs = e0 :: rest ∧ e0.2.1 = t ∧ e0.2.2.1 = .callDel ∧
      ∀ e, e ∈ rest → e.2.1 = t → OpK (e.1.th t).op)
    (hlast : ∃ e, evs.getLast? = some e ∧ e.2.1 = t ∧ e.2.2.2 = r) (hend : (s1.th t).op = .none) :
    LinAt c evs (.del (s0.th t).itn) r := by
  obtain ⟨e0, rest, rfl, ht, hl, hin⟩ := hcall
  cases ex with
  | @cons s u l sa o evs' s2 st ex' =>
    simp only at ht hl
    subst ht; subst hl
    have hinv : DelInv (.del (s0.th u).itn) r (s0.th u).itn sa (sa.th u) := by
      have st0 := st
      st_open st0
      have e1 : sa.th u = x' := by rw [e_th']; simp [upd]
      refine ⟨?_, by rw [e1, xop], by rw [e1, xnode], ?_⟩
      · simp only [curOp, e1, xop, xnode]
      · intro _ hp; rw [e1] at hp; simp only [PostLd, GcPc, xpc] at hp; simp at hp
    cases rest with
    | nil =>
      cases ex'
      exact absurd hend (by rw [hinv.2.1]; simp)
    | cons e' rest' =>
      have hl' : ∃ e, (e' :: rest').getLast? = some e ∧ e.2.1 = u ∧ e.2.2.2 = r := by
        obtain ⟨e, he, x, y⟩ := hlast
        exact ⟨e, by rw [List.getLast?_cons_cons] at he; exact he, x, y⟩
      have := lin_wrap (c := c) (t := u) (op := .del (s0.th u).itn) (r := r)
        (fun s => DelInv (.del (s0.th u).itn) r (s0.th u).itn s (s.th u)) (fun _ => True)
        (by intro s l o s' rs sts _ hi _; exact del_own hc rs sts hi)
        (by
          intro s w l o s' hw rs sts _ hi
          obtain ⟨g1, g2, g3, g4⟩ := hi
          have hth := other_thread_same sts hw (del_not_idle hc rs g2)
          by_cases hr : r = .ret 0 ∧ PostLd (s.th u).pc
          · rcases del_heap hc rs sts (g4 hr.1 hr.2) with hh | hh
            · left; rw [hth]; exact ⟨g1, g2, g3, fun _ _ => hh⟩
            · right; right; rw [hr.1]; exact hh
          · left; rw [hth]; exact ⟨g1, g2, g3, fun a b => absurd ⟨a, b⟩ hr⟩)
        ex' (.step r0 st) hinv (fun _ _ => trivial) hin hl' hend
      obtain ⟨e, he, hp⟩ := this
      exact ⟨e, List.mem_cons_of_mem _ he, hp⟩

end UrcuVerif.Lfht.Conc