import UrcuVerif.Lfht.Conc.InvFAll
/-!
# Concurrent rculfhash — layer A: the owner flag automaton of one `next` word (proof-only file)

`wins p` (ghost: removals of `p` that were decided in favour of the caller) is 1 exactly when
`REMOVAL_OWNER` is set in `p->next`, 0 otherwise; a completed `del` that passed the `REMOVED` test has
set the flag; a node's winner returns exactly once (`ownRet`), and while a replace that won `p` is still
helping to unlink it nobody else can win `p`.
-/
namespace UrcuVerif.Lfht.Conc
open UrcuVerif

/-- a replace / add_replace whose CAS on `old->next` succeeded and that has not returned yet -/
def InReplCont (x : Thr) : Prop := (GcPc x.pc ∧ x.gcont = .repl) ∨ x.pc = .rAssert

def GA (s : State) (p : Nat) : Prop :=
  (s.wins p = if (s.nxt p).own then 1 else 0) ∧
  (0 < s.dels p → (s.nxt p).own = true) ∧
  (s.ownRet p ≠ none → (s.nxt p).own = true)

def TA (s : State) (x : Thr) : Prop :=
  InReplCont x → (s.nxt x.old).own = true ∧ s.ownRet x.old = none

structure InvA (s : State) : Prop where
  g : ∀ p, GA s p
  t : ∀ u, TA s (s.th u)
  x : ∀ t u, t ≠ u → InReplCont (s.th t) → InReplCont (s.th u) → (s.th t).old ≠ (s.th u).old

theorem invA_init : InvA init := by
  refine ⟨?_, ?_, ?_⟩ <;> simp [init, GA, TA, InReplCont, GcPc]
  intro p; split <;> simp

set_option linter.unusedSimpArgs false
set_option linter.unusedVariables false

set_option hygiene false in
/-- generic closer of a step for layer A: `ftt` = the acting thread's layer-F facts -/
macro "a_step" hR:ident hF:ident hA:ident : tactic => `(tactic|
  (have ftt := ($hF).t t; have fg := ($hF).g; have rtt := ($hR).t t; have ftf := ($hF).t
   simp only [TF, GF, TR] at ftt fg rtt
   have fgo := fg.1 (s.th t).old; have fgn := fg.1 (s.th t).node; have fgp := fg.1 (s.th t).prev
   have fgz := fg.2.1
   simp only [GFn] at fgo fgn fgp
   obtain ⟨ag, at_, ax⟩ := $hA
   have att := at_ t
   clear fg
   refine ⟨?_, ?_, ?_⟩
   · intro p
     have := ag p; have ago := ag (s.th t).old; have agn := ag (s.th t).node; clear ftf
     have ao := fun u => at_ u
     simp only [GA, TA, InReplCont, GcPc] at *
     (try st_simp)
     by_cases h1 : p = (s.th t).prev <;> by_cases h2 : p = (s.th t).node <;> by_cases h3 : p = (s.th t).old <;>
       (try simp only [h1, h2, h3, if_true, if_false]) <;> grind [valid, vz, HasPos, Pend, Worker, AddPc, GcPc, ZPc, HPc, InPhase]
   · intro u
     have au := at_ u; have axu := ax t u; have fu := ftf u; simp only [TF] at fu
     have := fu.2.2.2.2.2.2.2.2.2.2.2.2.2.2.2.2.1; clear fu ftf
     have agn := ag (s.th t).node; have ago := ag (s.th t).old
     have agu := ag (s.th u).old
     simp only [GA, TA, InReplCont, GcPc] at *
     (try st_simp)
     by_cases hu : u = t <;> (try simp only [hu, if_true, if_false]) <;> grind [valid, vz, HasPos, Pend, Worker, AddPc, GcPc, ZPc, HPc, InPhase]
   · intro a b hab
     have := ax a b hab; have r1 := ax t b; have r2 := ax a t; have aa := at_ a; have ab := at_ b
     have fa := ftf a; have fb := ftf b; simp only [TF] at fa fb
     have := fa.2.2.2.2.2.2.2.2.2.2.2.2.2.2.2.2.1; have := fb.2.2.2.2.2.2.2.2.2.2.2.2.2.2.2.2.1; clear fa fb ftf
     simp only [GA, TA, InReplCont, GcPc] at *
     (try st_simp)
     by_cases ha : a = t <;> by_cases hb : b = t <;> (try simp only [ha, hb, if_true, if_false]) <;> grind [valid, vz, HasPos, Pend, Worker, AddPc, GcPc, ZPc, HPc, InPhase]))

end UrcuVerif.Lfht.Conc
