import UrcuVerif.Lfht.Conc.WaitFree
/-!
# Concurrent rculfhash — `cas_fails_only_by_interference` (C17, lfht facet) (proof-only file)

`Fresh s x`: the words the thread will compare-and-swap against still hold the values it loaded.  Own steps keep
it; a failed CAS re-establishes it (the code reloads / restarts from the bucket); so in a run of the thread alone a
CAS can fail at most once per stale value that the thread carried into the solo run.
-/
namespace UrcuVerif.Lfht.Conc
open UrcuVerif
set_option linter.unusedSimpArgs false
set_option linter.unusedVariables false

/-- what the thread loaded is still in memory -/
def Fresh (s : State) (x : Thr) : Prop :=
  (HasPos x → s.nxt x.prev = x.iter) ∧ (x.pc = .rCas → s.nxt x.old = x.oldnx) ∧
  ((x.pc = .wAssert ∧ x.wk = .dupAdd) → s.nxt x.cur = x.wnx)

set_option hygiene false in
macro "fr_close" : tactic => `(tactic|
  (have e1 : s'.th t = x' := by rw [e_th']; simp [upd]
   rw [e1]
   simp only [Fresh, HasPos] at hf ⊢
   simp only [e_nxt, upd]
   grind [found]))

set_option maxHeartbeats 8000000 in
/-- own steps keep freshness; the only own step that can bring a stale value is the entry of `cds_lfht_replace`,
which takes `old_next` from the caller's iterator -/
theorem own_step_fresh {c s s' t l o} (hc : c.ownerByOr = false) (r : Reach c s) (st : step c s t l = some (s', o))
    (hf : Fresh s (s.th t)) : Fresh s' (s'.th t) ∨ (l = .ldSize ∧ (s.th t).pc = .rSize) := by
  have ⟨hR, hF, hL⟩ := invRFL_reach hc r
  have ftt := hF.t t; simp only [TF] at ftt
  have fgn := hF.g.1 (s.th t).node; simp only [GFn] at fgn
  have hpv := ftt.2.2.2.2.2.2.2.2.2.1
  have hpend := ftt.2.2.2.2.2.1
  have hdel := ftt.2.2.2.2.2.2.2.2.2.2.2.2.2.2.2.2.2.2.2.2.2.1
  have rtt := hR.t t; simp only [TR] at rtt
  have lwk := rtt.2.2.2.2.2.2.1
  clear ftt rtt
  cases l with
  | spawn u len => st_open st; st_open2; left; fr_close
  | join u => st_open st; st_open2; left; fr_close
  | ldSize =>
    st_open st
    all_goals first | (left; fr_close; done) | (right; exact ⟨rfl, by assumption⟩)
  | _ => st_open st; all_goals (left; fr_close)

set_option maxHeartbeats 4000000 in
/-- a failed CAS (the compared word differed) leaves the thread with fresh values, or with none:
`_cds_lfht_add` / `_cds_lfht_gc_bucket` restart from the bucket, `_cds_lfht_replace` retries with the value the
failed `cmpxchg` returned -/
theorem cas_fail_resets {c s s' t l o} (st : step c s t l = some (s', o))
    (hl : (l = .casIns ∧ s.nxt (s.th t).prev ≠ (s.th t).iter) ∨ (l = .casGc ∧ s.nxt (s.th t).prev ≠ (s.th t).iter) ∨
      (l = .casRepl ∧ s.nxt (s.th t).old ≠ (s.th t).oldnx)) (huaf : o ≠ .crash) : Fresh s' (s'.th t) := by
  rcases hl with ⟨rfl, hne⟩ | ⟨rfl, hne⟩ | ⟨rfl, hne⟩
  all_goals
    st_open st
    all_goals (have e1 : s'.th t = x' := by rw [e_th']; simp [upd])
    all_goals first | (exfalso; exact huaf e_out.symm) | (exfalso; exact hne (by assumption)) | skip
    all_goals
      rw [e1]
      simp only [Fresh, HasPos, xpc, reduceCtorEq, false_or, or_false, false_and, and_false, false_implies, true_implies,
        and_true, true_and, e_nxt, xold, xoldnx, implies_true]

set_option maxHeartbeats 4000000 in
/-- with fresh values the CAS succeeds (writes its new word) -/
theorem fresh_cas_succeeds {c s s' t l o} (st : step c s t l = some (s', o)) (hf : Fresh s (s.th t)) (huaf : o ≠ .crash) :
    (l = .casIns → s'.nxt (s.th t).prev = { ptr := (s.th t).node, bkt := (s.th t).iter.bkt }) ∧
    (l = .casGc → s'.nxt (s.th t).prev = { ptr := (s.th t).nx.ptr, bkt := (s.th t).iter.bkt }) ∧
    (l = .casRepl → s'.nxt (s.th t).old = { ptr := (s.th t).node, rem := true, own := true }) := by
  simp only [Fresh, HasPos] at hf
  refine ⟨?_, ?_, ?_⟩
  all_goals
    intro hl; subst hl
    st_open st
    all_goals first
      | (exfalso; exact huaf e_out.symm)
      | (rw [e_nxt]; simp [upd]; done)
      | (exfalso; grind)

end UrcuVerif.Lfht.Conc
