import UrcuVerif.Lfht.Conc.Mark2
/-!
# Concurrent rculfhash — `no_two_visible`: the invariant at the deciding load, and executions (proof-only file)
-/
namespace UrcuVerif.Lfht.Conc
open UrcuVerif
set_option linter.unusedSimpArgs false
set_option linter.unusedVariables false

/-- a traversal that has just found a node with key `k` (and is about to return it) -/
def TW (k hk : Nat) (s : State) (x : Thr) : Prop :=
  x.pc = .wAssert → x.wk ≠ .dupAdd → s.key x.cur = k → Mark k hk s x x.cur

def InvW (k hk : Nat) (s : State) : Prop := ∀ u, TW k hk s (s.th u)

theorem invW_init {k hk} : InvW k hk init := by intro u h; simp [init] at h

set_option maxHeartbeats 4000000 in
/-- only the deciding load of a traversal leads to `wAssert` -/
theorem wAssert_enter {c s s' t l o} (hc : c.ownerByOr = false) (r : Reach c s) (st : step c s t l = some (s', o))
    (h1 : l ≠ .ldWalk) (h4 : ∀ p, l ≠ .reclaim p) : (s'.th t).pc ≠ .wAssert := by
  have ncr := no_crash hc r (invS_reach hc r) st
  have st0 := st
  cases l with
  | ldWalk => exact absurd rfl h1
  | reclaim p => exact absurd rfl (h4 p)
  | spawn v len =>
    st_open st; st_open2
    all_goals
      have e1 : s'.th t = x' := by rw [e_th']; simp [upd]
      rw [e1, xpc]; grind
  | join v =>
    st_open st; st_open2
    all_goals
      have e1 : s'.th t = x' := by rw [e_th']; simp [upd]
      rw [e1, xpc]; grind
  | _ =>
    st_open st
    all_goals
      first
        | (exfalso; exact ncr e_out.symm; done)
        | (have e1 : s'.th t = x' := by rw [e_th']; simp [upd]
           rw [e1, xpc]; grind)

set_option maxHeartbeats 4000000 in
theorem TW_ldWalk {c k hk s s' t o} (hc : c.ownerByOr = false) (r : Reach c s) (hK' : InvK k hk s')
    (st : step c s t .ldWalk = some (s', o)) : TW k hk s' (s'.th t) := by
  have r' : Reach c s' := .step r st
  have ⟨hR, hF, hL⟩ := invRFL_reach hc r'
  have gf := graph_facts hc r'
  have ncr := no_crash hc r (invS_reach hc r) st
  intro hp hw hk1
  have ft := hF.t t; simp only [TF] at ft
  have vc := ft.2.2.2.2.2.2.2.2.2.2.2.2.1 (.inr hp)
  have f14 := ft.2.2.2.2.2.2.2.2.2.2.2.2.2.1 hp
  have c0 : (s'.th t).cur ≠ 0 := by intro e; rw [e] at vc; exact vc.1 hF.g.2.1
  have hwnx : (s'.th t).wnx = s'.nxt (s'.th t).cur := by
    have st0 := st
    st_open st
    all_goals
      first
        | (exfalso; exact ncr e_out.symm; done)
        | (have e1 : s'.th t = x' := by rw [e_th']; simp [upd]
           rw [e1] at hp ⊢
           first
             | (rw [xpc] at hp; cases hp; done)
             | (rw [xwnx, xcur, e_nxt]))
  have hpos : wpos (s'.th t) = nxp s' (s'.th t).cur := by
    simp only [wpos, hp, nxp, hwnx]; simp; intro h; exact absurd h hw
  have hlk : s'.life (s'.th t).cur = .linked := by
    have := (hF.g.1 (s'.th t).cur).2.2.2.2.2.2.2
    rw [← hwnx, f14.2.1] at this
    simp only [valid] at vc
    cases h : s'.life (s'.th t).cur <;> simp_all
  have hvis : vis s' (s'.th t).cur := ⟨(hL.g.2.1 _).mpr hlk, f14.2.2.2, by rw [← hwnx]; exact f14.2.1⟩
  have hrev := hK'.g.1 _ vc.1 f14.2.2.2 hk1
  refine ⟨vc, ?_, ?_, ?_, fun _ _ _ => rfl, by rw [hp]; simp⟩
  · rw [hpos]; exact nonlow_next hc r' (.inr (.inr ⟨hrev.symm, f14.2.2.2⟩)) (fun _ => vc)
  · rw [hpos]; exact rch_acyclic hc r' vc c0
  · rw [hpos]
    intro y y0 yb yk yne hr
    have n0 : nxp s' (s'.th t).cur ≠ 0 := by intro e; rw [e] at hr; exact y0 (rch_fix gf.1 hr)
    have vy : valid s' y := (rch_mono (P := valid s') (r := s'.rev) gf.1 gf.2.1 hr (gf.2.1 _ vc n0).1 y0).2
    cases hr' : (s'.nxt y).rem with
    | true => rfl
    | false =>
      exfalso
      have hyl : s'.life y = .linked := by
        have := (hF.g.1 y).2.2.2.2.2.2.2
        rw [hr'] at this
        simp only [valid] at vy
        cases h : s'.life y <;> simp_all
      exact yne (hK'.g.2 y _ ⟨(hL.g.2.1 _).mpr hyl, yb, hr'⟩ hvis yk hk1)

/-- `TW` for a thread whose locals the step did not touch -/
theorem TW_other {c k hk s s' t l o u} (hc : c.ownerByOr = false) (r : Reach c s) (st : step c s t l = some (s', o))
    (hK : InvK k hk s) (hW : TW k hk s (s.th u)) : TW k hk s' (s.th u) := by
  intro hp hw hk1
  have ⟨_, hF, _⟩ := invRFL_reach hc r
  have vc := (hF.t u).2.2.2.2.2.2.2.2.2.2.2.2.1 (.inr hp)
  rw [(stable_step hc r st _ vc.1).2.1] at hk1
  exact mark_other hc r st hK (hW hp hw hk1)

theorem invW_step {c k hk s s' t l o} (hc : c.ownerByOr = false) (r : Reach c s) (hK : InvK k hk s) (hW : InvW k hk s)
    (st : step c s t l = some (s', o)) (ha : UniqUse k hk l) : InvW k hk s' := by
  have hK' := invK_step hc r hK st ha
  intro u
  by_cases hrec : ∃ p, l = .reclaim p
  · obtain ⟨p, rfl⟩ := hrec
    rw [reclaim_th st]; exact TW_other hc r st hK (hW u)
  by_cases hu : u = t
  · subst hu
    by_cases h1 : l = .ldWalk
    · subst h1; exact TW_ldWalk hc r hK' st
    · intro hp; exact absurd hp (wAssert_enter hc r st h1 (fun p e => hrec ⟨p, e⟩))
  · rcases other_thread_pc st (Ne.symm hu) with h | ⟨_, h⟩ | ⟨_, h⟩
    · rw [h]; exact TW_other hc r st hK (hW u)
    · intro hp; rw [h] at hp; cases hp
    · intro hp; rw [h] at hp; cases hp

/-- layers K and W along an execution that respects the usage restriction -/
theorem invKW_exec {c k hk s evs s'} (hc : c.ownerByOr = false) (ex : Exec c s evs s') (r : Reach c s)
    (h : InvK k hk s ∧ InvW k hk s) (hU : ∀ e, e ∈ evs → UniqUse k hk e.2.2.1) :
    Reach c s' ∧ InvK k hk s' ∧ InvW k hk s' := by
  induction ex with
  | nil s => exact ⟨r, h⟩
  | @cons s u l s1 o evs s2 st _ ih =>
    have ha := hU (s, u, l, o) List.mem_cons_self
    exact ih (.step r st) ⟨invK_step hc r h.1 st ha, invW_step hc r h.1 h.2 st ha⟩
      (fun e he => hU e (List.mem_cons_of_mem _ he))

/-- `Mark` of thread `w` across a step of another thread -/
theorem mark_step_other {c k hk s s' t l o w p} (hc : c.ownerByOr = false) (r : Reach c s)
    (st : step c s t l = some (s', o)) (hK : InvK k hk s) (hut : t ≠ w) (hm : Mark k hk s (s.th w) p) :
    Mark k hk s' (s'.th w) p := by
  have h1 := mark_other hc r st hK hm
  rcases other_thread_pc st hut with h | ⟨h0, h⟩ | ⟨h0, h⟩
  · rw [h]; exact h1
  · refine mark_congr h1 ?_ ?_ ?_
    · simp only [wpos, h, h0, other_thread_itx st hut]; simp
    · intro hp; rw [h] at hp; cases hp
    · rw [h]; simp
  · refine mark_congr h1 ?_ ?_ ?_
    · simp only [wpos, h, h0, other_thread_itx st hut]; simp
    · intro hp; rw [h] at hp; cases hp
    · rw [h]; simp

/-- along an execution without a restart of `t`'s traversal, `t` is never handed a second node with key `k` -/
theorem mark_exec {c k hk s evs s1 t p} (hc : c.ownerByOr = false) (ex : Exec c s evs s1) (r : Reach c s)
    (hK : InvK k hk s) (hm : Mark k hk s (s.th t) p) (hU : ∀ e, e ∈ evs → UniqUse k hk e.2.2.1)
    (hno : ∀ e, e ∈ evs → e.2.1 = t → ¬ Restart e.2.2.1) :
    ∀ e, e ∈ evs → e.2.1 = t → ∀ q w, e.2.2.2 = .iter q w → q ≠ 0 → e.1.key q = k → q = p := by
  induction ex with
  | nil s => intro e he; simp at he
  | @cons s u l s1 o evs s2 st _ ih =>
    have ha := hU (s, u, l, o) List.mem_cons_self
    have hK' := invK_step hc r hK st ha
    have hm' : Mark k hk s1 (s1.th t) p := by
      by_cases hu : u = t
      · subst hu; exact (mark_self hc r hK st hm (hno _ List.mem_cons_self rfl)).1
      · exact mark_step_other hc r st hK hu hm
    intro e he
    rcases List.mem_cons.mp he with rfl | he'
    · intro hu q w ho q0 hk
      simp only at hu ho hk
      subst hu
      exact (mark_self hc r hK st hm (hno _ List.mem_cons_self rfl)).2 q w ho q0 hk
    · exact ih (.step r st) hK' hm' (fun e he => hU e (List.mem_cons_of_mem _ he))
        (fun e he => hno e (List.mem_cons_of_mem _ he)) e he'

set_option maxHeartbeats 4000000 in
/-- only the return of a traversal that found a node hands out a non-NULL iterator -/
theorem iter_out {c s s' t l p w} (st : step c s t l = some (s', .iter p w)) (p0 : p ≠ 0) :
    (s.th t).pc = .wAssert ∧ (s.th t).wk ≠ .dupAdd ∧ p = (s.th t).cur ∧ l = .ldAssertW := by
  cases l with
  | spawn v len => exfalso; st_open st <;> cases e_out
  | join v => exfalso; st_open st <;> cases e_out
  | _ =>
    st_open st
    all_goals
      first
        | (cases e_out; done)
        | (exfalso; cases e_out; exact p0 rfl; done)
        | (cases e_out; grind)

theorem exec_append {c s l1 l2 s''} (ex : Exec c s (l1 ++ l2) s'') : ∃ s', Exec c s l1 s' ∧ Exec c s' l2 s'' := by
  induction l1 generalizing s with
  | nil => exact ⟨s, .nil s, ex⟩
  | cons a l1 ih =>
    cases ex with
    | cons st ex' =>
      obtain ⟨s', h1, h2⟩ := ih ex'
      exact ⟨s', .cons st h1, h2⟩

/-- **no_two_visible**, execution form -/
theorem no_two_exec {c k hk evs s1 t p q w1 w2 pre mid post e1 e2} (hc : c.ownerByOr = false) (ex : Exec c init evs s1)
    (hU : ∀ e, e ∈ evs → UniqUse k hk e.2.2.1) (hs : evs = pre ++ mid ++ post)
    (h1 : mid.head? = some e1) (t1 : e1.2.1 = t) (o1 : e1.2.2.2 = .iter p w1)
    (h2 : mid.getLast? = some e2) (t2 : e2.2.1 = t) (o2 : e2.2.2.2 = .iter q w2)
    (hno : ∀ e, e ∈ mid → e.2.1 = t → ¬ Restart e.2.2.1) (p0 : p ≠ 0) (q0 : q ≠ 0)
    (kp : e1.1.key p = k) (kq : e2.1.key q = k) : p = q := by
  subst hs
  obtain ⟨sB, exAB, _⟩ := exec_append ex
  obtain ⟨sA, exPre, exMid⟩ := exec_append exAB
  have ⟨rA, hKA, hWA⟩ := invKW_exec hc exPre .init ⟨invK_init, invW_init⟩
    (fun e he => hU e (List.mem_append_left _ (List.mem_append_left _ he)))
  have hUm : ∀ e, e ∈ mid → UniqUse k hk e.2.2.1 :=
    fun e he => hU e (List.mem_append_left _ (List.mem_append_right _ he))
  cases exMid with
  | nil => simp at h1
  | @cons _ u l sa o mid' _ st ex' =>
    simp only [List.head?_cons, Option.some.injEq] at h1
    subst h1
    simp only at t1 o1 kp
    subst t1; subst o1
    cases mid' with
    | nil =>
      simp at h2; subst h2; simp only at o2
      cases o2; rfl
    | cons e' rest =>
      rw [List.getLast?_cons_cons] at h2
      have hm2 : e2 ∈ e' :: rest := List.mem_of_getLast? h2
      obtain ⟨a1, a2, a3, a4⟩ := iter_out st p0
      subst a4
      have hm0 := hWA u a1 a2 (by rw [← a3]; exact kp)
      rw [← a3] at hm0
      have hm1 := (mark_self hc rA hKA st hm0 (by simp [Restart])).1
      have hK1 := invK_step hc rA hKA st (hUm _ List.mem_cons_self)
      exact (mark_exec hc ex' (.step rA st) hK1 hm1 (fun e he => hUm e (List.mem_cons_of_mem _ he))
        (fun e he => hno e (List.mem_cons_of_mem _ he)) e2 hm2 t2 q w2 o2 q0 kq).symm

end UrcuVerif.Lfht.Conc
