import UrcuVerif.Lfht.Conc.SoloMu
/-!
# Concurrent rculfhash — `solo_terminates`: own steps that only load (proof-only file)
-/
namespace UrcuVerif.Lfht.Conc
open UrcuVerif
set_option linter.unusedSimpArgs false
set_option linter.unusedVariables false

/-- what one own step of a user operation achieves -/
def Prog (c : Cfg) (s : State) (t : Nat) (s' : State) : Prop :=
  (s'.th t).pc = .idle ∨
  (Mu s' (s'.th t) < Mu s (s.th t) ∧ (s'.th t).parent = 0 ∧ s'.rzOwner ≠ t + 1 ∧ (opLabel (s'.th t)).isSome)

set_option hygiene false in
/-- facts of a branch that leaves the heap alone -/
macro "mu_heap" : tactic => `(tactic|
  (have e1 : s'.th t = x' := by rw [e_th']; simp [upd]
   have hflg : flg s' = flg s := by simp only [flg, e_L, e_nxt]
   have hunl : unl s' = unl s := by simp only [unl, e_life, e_hi]
   have hwm : ∀ a, wmu s' a = wmu s a := wmu_same ⟨e_nxt, e_life, e_L, e_freed, e_unlAt, e_hi⟩
   have hstl := stl_mono hc r st0 (by rw [e1, xpc]; simp)
   rw [e1] at hstl))

set_option hygiene false in
/-- close a branch that leaves the heap alone; `$facts` = extra hypotheses (hops) to add first -/
macro "mu_fin" facts:tactic : tactic => `(tactic|
  (mu_heap
   right
   refine ⟨?_, ?_, ?_, ?_⟩
   · rw [e1]
     have hW : Wt s' x' ≤ Wt s (s.th t) := by
       simp only [Wt, e_L, hunl, Pend, xpc, xmode, xwk, hpc, reduceCtorEq, false_or, or_false, true_or, or_true, false_and,
         and_false, true_and, and_true, ne_eq, not_false_eq_true, not_true_eq_false, ↓reduceIte]
       (try split) <;> (try split) <;> (try omega) <;> (try (simp_all; done))
     have hP : Pp s' x' ≤ Pp s (s.th t) := by simp only [Pp]; omega
     have q1 := wmu_le s x'.bkt; have q2 := wmu_le s x'.iter.ptr; have q3 := wmu_le s x'.cur
     have q4 := wmu_le s x'.gbkt; have q5 := wmu_le s (s.tbl 0)
     have hWge : s.L.length + unl s ≤ Wt s (s.th t) := by simp only [Wt]; omega
     have hPdef : Pp s (s.th t) = 2 * Wt s (s.th t) + 12 := rfl
     have hPdef' : Pp s' x' = 2 * Wt s' x' + 12 := rfl
     have hst1 := stl_le s (s.th t)
     (try have hs1 : stl s (s.th t) = 1 := by simp [stl, hpc])
     (try have hs0 : stl s' x' = 0 := by simp [stl, Fresh, HasPos, xpc])
     ($facts:tactic)
     simp only [Mu]
     apply lex_lt
     · simp only [Kp, xpc, hpc, hflg]; omega
     · exact hP
     · simp only [xbkt, xiter, xcur, xgbkt] at q1 q2 q3 q4
       simp only [pos, Kp, xpc, hpc, hwm, hflg, e_tbl, xbkt, xiter, xcur, xgbkt]; omega
   · rw [e1, xparent]; exact hp0
   · rw [e_rz]; exact hrz
   · rw [e1]; simp only [opLabel, xpc]; simp))

set_option maxHeartbeats 4000000 in
theorem prog_aSize {c s s' t o} (hc : c.ownerByOr = false) (r : Reach c s) (hp0 : (s.th t).parent = 0)
    (hrz : s.rzOwner ≠ t + 1) (hpc : (s.th t).pc = .aSize) (st : step c s t .ldSize = some (s', o)) : Prog c s t s' := by
  have ⟨hR, hF, hL⟩ := invRFL_reach hc r
  have ncr := no_crash hc r (invS_reach hc r) st
  have ft := hF.t t; simp only [TF] at ft
  have rt := hR.t t; simp only [TR] at rt
  have wrole := rt.2.2.1
  have c0 : ((s.th t).pc = .wNext ∨ (s.th t).pc = .wAssert) → (s.th t).cur ≠ 0 := by
    intro h e; have := ft.2.2.2.2.2.2.2.2.2.2.2.2.1 h; rw [e] at this; exact this.1 hF.g.2.1
  have sz0 : 0 < s.size := by have := hR.g.1.1; have := Nat.two_pow_pos (Nat.log2 s.size); omega
  have hf0 := hF.g.2.2.1 0 sz0
  have st0 := st
  st_open st
  all_goals
    first
      | (exfalso; exact ncr e_out.symm; done)
      | (exfalso; grind; done)
      | (left; rw [e_th']; simp only [upd, if_true]; exact xpc; done)
      | (exfalso; simp only [Worker, AddPc, GcPc] at wrole; grind; done)
      | (mu_fin skip)

set_option maxHeartbeats 4000000 in
theorem prog_rSize {c s s' t o} (hc : c.ownerByOr = false) (r : Reach c s) (hp0 : (s.th t).parent = 0)
    (hrz : s.rzOwner ≠ t + 1) (hpc : (s.th t).pc = .rSize) (st : step c s t .ldSize = some (s', o)) : Prog c s t s' := by
  have ⟨hR, hF, hL⟩ := invRFL_reach hc r
  have ncr := no_crash hc r (invS_reach hc r) st
  have ft := hF.t t; simp only [TF] at ft
  have rt := hR.t t; simp only [TR] at rt
  have wrole := rt.2.2.1
  have c0 : ((s.th t).pc = .wNext ∨ (s.th t).pc = .wAssert) → (s.th t).cur ≠ 0 := by
    intro h e; have := ft.2.2.2.2.2.2.2.2.2.2.2.2.1 h; rw [e] at this; exact this.1 hF.g.2.1
  have sz0 : 0 < s.size := by have := hR.g.1.1; have := Nat.two_pow_pos (Nat.log2 s.size); omega
  have hf0 := hF.g.2.2.1 0 sz0
  have st0 := st
  st_open st
  all_goals
    first
      | (exfalso; exact ncr e_out.symm; done)
      | (exfalso; grind; done)
      | (left; rw [e_th']; simp only [upd, if_true]; exact xpc; done)
      | (exfalso; simp only [Worker, AddPc, GcPc] at wrole; grind; done)
      | (mu_fin skip)

set_option maxHeartbeats 4000000 in
theorem prog_dSize {c s s' t o} (hc : c.ownerByOr = false) (r : Reach c s) (hp0 : (s.th t).parent = 0)
    (hrz : s.rzOwner ≠ t + 1) (hpc : (s.th t).pc = .dSize) (st : step c s t .ldSize = some (s', o)) : Prog c s t s' := by
  have ⟨hR, hF, hL⟩ := invRFL_reach hc r
  have ncr := no_crash hc r (invS_reach hc r) st
  have ft := hF.t t; simp only [TF] at ft
  have rt := hR.t t; simp only [TR] at rt
  have wrole := rt.2.2.1
  have c0 : ((s.th t).pc = .wNext ∨ (s.th t).pc = .wAssert) → (s.th t).cur ≠ 0 := by
    intro h e; have := ft.2.2.2.2.2.2.2.2.2.2.2.2.1 h; rw [e] at this; exact this.1 hF.g.2.1
  have sz0 : 0 < s.size := by have := hR.g.1.1; have := Nat.two_pow_pos (Nat.log2 s.size); omega
  have hf0 := hF.g.2.2.1 0 sz0
  have st0 := st
  st_open st
  all_goals
    first
      | (exfalso; exact ncr e_out.symm; done)
      | (exfalso; grind; done)
      | (left; rw [e_th']; simp only [upd, if_true]; exact xpc; done)
      | (exfalso; simp only [Worker, AddPc, GcPc] at wrole; grind; done)
      | (mu_fin skip)

set_option maxHeartbeats 4000000 in
theorem prog_lSize {c s s' t o} (hc : c.ownerByOr = false) (r : Reach c s) (hp0 : (s.th t).parent = 0)
    (hrz : s.rzOwner ≠ t + 1) (hpc : (s.th t).pc = .lSize) (st : step c s t .ldSize = some (s', o)) : Prog c s t s' := by
  have ⟨hR, hF, hL⟩ := invRFL_reach hc r
  have ncr := no_crash hc r (invS_reach hc r) st
  have ft := hF.t t; simp only [TF] at ft
  have rt := hR.t t; simp only [TR] at rt
  have wrole := rt.2.2.1
  have c0 : ((s.th t).pc = .wNext ∨ (s.th t).pc = .wAssert) → (s.th t).cur ≠ 0 := by
    intro h e; have := ft.2.2.2.2.2.2.2.2.2.2.2.2.1 h; rw [e] at this; exact this.1 hF.g.2.1
  have sz0 : 0 < s.size := by have := hR.g.1.1; have := Nat.two_pow_pos (Nat.log2 s.size); omega
  have hf0 := hF.g.2.2.1 0 sz0
  have st0 := st
  st_open st
  all_goals
    first
      | (exfalso; exact ncr e_out.symm; done)
      | (exfalso; grind; done)
      | (left; rw [e_th']; simp only [upd, if_true]; exact xpc; done)
      | (exfalso; simp only [Worker, AddPc, GcPc] at wrole; grind; done)
      | (mu_fin skip)

set_option maxHeartbeats 4000000 in
theorem prog_aHead {c s s' t o} (hc : c.ownerByOr = false) (r : Reach c s) (hp0 : (s.th t).parent = 0)
    (hrz : s.rzOwner ≠ t + 1) (hpc : (s.th t).pc = .aHead) (st : step c s t .ldHeadA = some (s', o)) : Prog c s t s' := by
  have ⟨hR, hF, hL⟩ := invRFL_reach hc r
  have ncr := no_crash hc r (invS_reach hc r) st
  have ft := hF.t t; simp only [TF] at ft
  have rt := hR.t t; simp only [TR] at rt
  have wrole := rt.2.2.1
  have c0 : ((s.th t).pc = .wNext ∨ (s.th t).pc = .wAssert) → (s.th t).cur ≠ 0 := by
    intro h e; have := ft.2.2.2.2.2.2.2.2.2.2.2.2.1 h; rw [e] at this; exact this.1 hF.g.2.1
  have sz0 : 0 < s.size := by have := hR.g.1.1; have := Nat.two_pow_pos (Nat.log2 s.size); omega
  have hf0 := hF.g.2.2.1 0 sz0
  have st0 := st
  st_open st
  all_goals
    first
      | (exfalso; exact ncr e_out.symm; done)
      | (exfalso; grind; done)
      | (left; rw [e_th']; simp only [upd, if_true]; exact xpc; done)
      | (exfalso; simp only [Worker, AddPc, GcPc] at wrole; grind; done)
      | (mu_fin (have hop := wmu_hop hc r (hb_facts hc r (ft.2.2.2.2.2.2.2.1 (by simp [InAdd, hpc]))).2.2.2.2 (ft.2.2.2.2.2.2.2.1 (by simp [InAdd, hpc])).1; simp only [nxp] at hop))

set_option maxHeartbeats 4000000 in
theorem prog_aNext {c s s' t o} (hc : c.ownerByOr = false) (r : Reach c s) (hp0 : (s.th t).parent = 0)
    (hrz : s.rzOwner ≠ t + 1) (hpc : (s.th t).pc = .aNext) (st : step c s t .ldNextA = some (s', o)) : Prog c s t s' := by
  have ⟨hR, hF, hL⟩ := invRFL_reach hc r
  have ncr := no_crash hc r (invS_reach hc r) st
  have ft := hF.t t; simp only [TF] at ft
  have rt := hR.t t; simp only [TR] at rt
  have wrole := rt.2.2.1
  have c0 : ((s.th t).pc = .wNext ∨ (s.th t).pc = .wAssert) → (s.th t).cur ≠ 0 := by
    intro h e; have := ft.2.2.2.2.2.2.2.2.2.2.2.2.1 h; rw [e] at this; exact this.1 hF.g.2.1
  have sz0 : 0 < s.size := by have := hR.g.1.1; have := Nat.two_pow_pos (Nat.log2 s.size); omega
  have hf0 := hF.g.2.2.1 0 sz0
  have st0 := st
  st_open st
  all_goals
    first
      | (exfalso; exact ncr e_out.symm; done)
      | (exfalso; grind; done)
      | (left; rw [e_th']; simp only [upd, if_true]; exact xpc; done)
      | (exfalso; simp only [Worker, AddPc, GcPc] at wrole; grind; done)
      | (mu_fin (have hop := wmu_hop hc r ((ft.2.2.2.2.2.2.2.2.2.1 (by simp [HasPos, hpc])).2.2.2.2 (ft.2.2.2.2.2.2.2.2.2.2.1 (.inl hpc))) (ft.2.2.2.2.2.2.2.2.2.2.1 (.inl hpc)); simp only [nxp] at hop))

set_option maxHeartbeats 4000000 in
theorem prog_wNext {c s s' t o} (hc : c.ownerByOr = false) (r : Reach c s) (hp0 : (s.th t).parent = 0)
    (hrz : s.rzOwner ≠ t + 1) (hpc : (s.th t).pc = .wNext) (st : step c s t .ldWalk = some (s', o)) : Prog c s t s' := by
  have ⟨hR, hF, hL⟩ := invRFL_reach hc r
  have ncr := no_crash hc r (invS_reach hc r) st
  have ft := hF.t t; simp only [TF] at ft
  have rt := hR.t t; simp only [TR] at rt
  have wrole := rt.2.2.1
  have c0 : ((s.th t).pc = .wNext ∨ (s.th t).pc = .wAssert) → (s.th t).cur ≠ 0 := by
    intro h e; have := ft.2.2.2.2.2.2.2.2.2.2.2.2.1 h; rw [e] at this; exact this.1 hF.g.2.1
  have sz0 : 0 < s.size := by have := hR.g.1.1; have := Nat.two_pow_pos (Nat.log2 s.size); omega
  have hf0 := hF.g.2.2.1 0 sz0
  have st0 := st
  st_open st
  all_goals
    first
      | (exfalso; exact ncr e_out.symm; done)
      | (exfalso; grind; done)
      | (left; rw [e_th']; simp only [upd, if_true]; exact xpc; done)
      | (exfalso; simp only [Worker, AddPc, GcPc] at wrole; grind; done)
      | (mu_fin (have hop := wmu_hop hc r (ft.2.2.2.2.2.2.2.2.2.2.2.2.1 (.inl hpc)) (c0 (.inl hpc)); simp only [nxp] at hop))

set_option maxHeartbeats 4000000 in
theorem prog_wAssert {c s s' t o} (hc : c.ownerByOr = false) (r : Reach c s) (hp0 : (s.th t).parent = 0)
    (hrz : s.rzOwner ≠ t + 1) (hpc : (s.th t).pc = .wAssert) (st : step c s t .ldAssertW = some (s', o)) : Prog c s t s' := by
  have ⟨hR, hF, hL⟩ := invRFL_reach hc r
  have ncr := no_crash hc r (invS_reach hc r) st
  have ft := hF.t t; simp only [TF] at ft
  have rt := hR.t t; simp only [TR] at rt
  have wrole := rt.2.2.1
  have c0 : ((s.th t).pc = .wNext ∨ (s.th t).pc = .wAssert) → (s.th t).cur ≠ 0 := by
    intro h e; have := ft.2.2.2.2.2.2.2.2.2.2.2.2.1 h; rw [e] at this; exact this.1 hF.g.2.1
  have sz0 : 0 < s.size := by have := hR.g.1.1; have := Nat.two_pow_pos (Nat.log2 s.size); omega
  have hf0 := hF.g.2.2.1 0 sz0
  have st0 := st
  st_open st
  all_goals
    first
      | (exfalso; exact ncr e_out.symm; done)
      | (exfalso; grind; done)
      | (left; rw [e_th']; simp only [upd, if_true]; exact xpc; done)
      | (exfalso; simp only [Worker, AddPc, GcPc] at wrole; grind; done)
      | (mu_fin (have hop := wmu_hop hc r (ft.2.2.2.2.2.2.2.2.2.2.2.2.1 (.inr hpc)) (c0 (.inr hpc)); simp only [nxp] at hop))

set_option maxHeartbeats 4000000 in
theorem prog_gHead {c s s' t o} (hc : c.ownerByOr = false) (r : Reach c s) (hp0 : (s.th t).parent = 0)
    (hrz : s.rzOwner ≠ t + 1) (hpc : (s.th t).pc = .gHead) (st : step c s t .ldHeadG = some (s', o)) : Prog c s t s' := by
  have ⟨hR, hF, hL⟩ := invRFL_reach hc r
  have ncr := no_crash hc r (invS_reach hc r) st
  have ft := hF.t t; simp only [TF] at ft
  have rt := hR.t t; simp only [TR] at rt
  have wrole := rt.2.2.1
  have c0 : ((s.th t).pc = .wNext ∨ (s.th t).pc = .wAssert) → (s.th t).cur ≠ 0 := by
    intro h e; have := ft.2.2.2.2.2.2.2.2.2.2.2.2.1 h; rw [e] at this; exact this.1 hF.g.2.1
  have sz0 : 0 < s.size := by have := hR.g.1.1; have := Nat.two_pow_pos (Nat.log2 s.size); omega
  have hf0 := hF.g.2.2.1 0 sz0
  have st0 := st
  st_open st
  all_goals
    first
      | (exfalso; exact ncr e_out.symm; done)
      | (exfalso; grind; done)
      | (left; rw [e_th']; simp only [upd, if_true]; exact xpc; done)
      | (exfalso; simp only [Worker, AddPc, GcPc] at wrole; grind; done)
      | (mu_fin (have hop := wmu_hop hc r (hb_facts hc r (ft.2.2.2.2.2.2.2.2.2.2.2.2.2.2.2.2.2.2.2.1 (by simp [GcPc, hpc]))).2.2.2.2 (ft.2.2.2.2.2.2.2.2.2.2.2.2.2.2.2.2.2.2.2.1 (by simp [GcPc, hpc])).1; simp only [nxp] at hop))

set_option maxHeartbeats 4000000 in
theorem prog_gNext {c s s' t o} (hc : c.ownerByOr = false) (r : Reach c s) (hp0 : (s.th t).parent = 0)
    (hrz : s.rzOwner ≠ t + 1) (hpc : (s.th t).pc = .gNext) (st : step c s t .ldNextG = some (s', o)) : Prog c s t s' := by
  have ⟨hR, hF, hL⟩ := invRFL_reach hc r
  have ncr := no_crash hc r (invS_reach hc r) st
  have ft := hF.t t; simp only [TF] at ft
  have rt := hR.t t; simp only [TR] at rt
  have wrole := rt.2.2.1
  have c0 : ((s.th t).pc = .wNext ∨ (s.th t).pc = .wAssert) → (s.th t).cur ≠ 0 := by
    intro h e; have := ft.2.2.2.2.2.2.2.2.2.2.2.2.1 h; rw [e] at this; exact this.1 hF.g.2.1
  have sz0 : 0 < s.size := by have := hR.g.1.1; have := Nat.two_pow_pos (Nat.log2 s.size); omega
  have hf0 := hF.g.2.2.1 0 sz0
  have st0 := st
  st_open st
  all_goals
    first
      | (exfalso; exact ncr e_out.symm; done)
      | (exfalso; grind; done)
      | (left; rw [e_th']; simp only [upd, if_true]; exact xpc; done)
      | (exfalso; simp only [Worker, AddPc, GcPc] at wrole; grind; done)
      | (mu_fin (have hop := wmu_hop hc r ((ft.2.2.2.2.2.2.2.2.2.1 (by simp [HasPos, hpc])).2.2.2.2 (ft.2.2.2.2.2.2.2.2.2.2.1 (by simp [hpc]))) (ft.2.2.2.2.2.2.2.2.2.2.1 (by simp [hpc])); simp only [nxp] at hop))

set_option maxHeartbeats 4000000 in
theorem prog_dLd {c s s' t o} (hc : c.ownerByOr = false) (r : Reach c s) (hp0 : (s.th t).parent = 0)
    (hrz : s.rzOwner ≠ t + 1) (hpc : (s.th t).pc = .dLd) (st : step c s t .ldDel = some (s', o)) : Prog c s t s' := by
  have ⟨hR, hF, hL⟩ := invRFL_reach hc r
  have ncr := no_crash hc r (invS_reach hc r) st
  have ft := hF.t t; simp only [TF] at ft
  have rt := hR.t t; simp only [TR] at rt
  have wrole := rt.2.2.1
  have c0 : ((s.th t).pc = .wNext ∨ (s.th t).pc = .wAssert) → (s.th t).cur ≠ 0 := by
    intro h e; have := ft.2.2.2.2.2.2.2.2.2.2.2.2.1 h; rw [e] at this; exact this.1 hF.g.2.1
  have sz0 : 0 < s.size := by have := hR.g.1.1; have := Nat.two_pow_pos (Nat.log2 s.size); omega
  have hf0 := hF.g.2.2.1 0 sz0
  have st0 := st
  st_open st
  all_goals
    first
      | (exfalso; exact ncr e_out.symm; done)
      | (exfalso; grind; done)
      | (left; rw [e_th']; simp only [upd, if_true]; exact xpc; done)
      | (exfalso; simp only [Worker, AddPc, GcPc] at wrole; grind; done)
      | (mu_fin skip)

set_option maxHeartbeats 4000000 in
theorem prog_dAssert {c s s' t o} (hc : c.ownerByOr = false) (r : Reach c s) (hp0 : (s.th t).parent = 0)
    (hrz : s.rzOwner ≠ t + 1) (hpc : (s.th t).pc = .dAssert) (st : step c s t .ldAssertD = some (s', o)) : Prog c s t s' := by
  have ⟨hR, hF, hL⟩ := invRFL_reach hc r
  have ncr := no_crash hc r (invS_reach hc r) st
  have ft := hF.t t; simp only [TF] at ft
  have rt := hR.t t; simp only [TR] at rt
  have wrole := rt.2.2.1
  have c0 : ((s.th t).pc = .wNext ∨ (s.th t).pc = .wAssert) → (s.th t).cur ≠ 0 := by
    intro h e; have := ft.2.2.2.2.2.2.2.2.2.2.2.2.1 h; rw [e] at this; exact this.1 hF.g.2.1
  have sz0 : 0 < s.size := by have := hR.g.1.1; have := Nat.two_pow_pos (Nat.log2 s.size); omega
  have hf0 := hF.g.2.2.1 0 sz0
  have st0 := st
  st_open st
  all_goals
    first
      | (exfalso; exact ncr e_out.symm; done)
      | (exfalso; grind; done)
      | (left; rw [e_th']; simp only [upd, if_true]; exact xpc; done)
      | (exfalso; simp only [Worker, AddPc, GcPc] at wrole; grind; done)
      | (mu_fin skip)

set_option maxHeartbeats 4000000 in
theorem prog_dLd2 {c s s' t o} (hc : c.ownerByOr = false) (r : Reach c s) (hp0 : (s.th t).parent = 0)
    (hrz : s.rzOwner ≠ t + 1) (hpc : (s.th t).pc = .dLd2) (st : step c s t .ldDel2 = some (s', o)) : Prog c s t s' := by
  have ⟨hR, hF, hL⟩ := invRFL_reach hc r
  have ncr := no_crash hc r (invS_reach hc r) st
  have ft := hF.t t; simp only [TF] at ft
  have rt := hR.t t; simp only [TR] at rt
  have wrole := rt.2.2.1
  have c0 : ((s.th t).pc = .wNext ∨ (s.th t).pc = .wAssert) → (s.th t).cur ≠ 0 := by
    intro h e; have := ft.2.2.2.2.2.2.2.2.2.2.2.2.1 h; rw [e] at this; exact this.1 hF.g.2.1
  have sz0 : 0 < s.size := by have := hR.g.1.1; have := Nat.two_pow_pos (Nat.log2 s.size); omega
  have hf0 := hF.g.2.2.1 0 sz0
  have st0 := st
  st_open st
  all_goals
    first
      | (exfalso; exact ncr e_out.symm; done)
      | (exfalso; grind; done)
      | (left; rw [e_th']; simp only [upd, if_true]; exact xpc; done)
      | (exfalso; simp only [Worker, AddPc, GcPc] at wrole; grind; done)
      | (mu_fin skip)

set_option maxHeartbeats 4000000 in
theorem prog_rAssert {c s s' t o} (hc : c.ownerByOr = false) (r : Reach c s) (hp0 : (s.th t).parent = 0)
    (hrz : s.rzOwner ≠ t + 1) (hpc : (s.th t).pc = .rAssert) (st : step c s t .ldAssertR = some (s', o)) : Prog c s t s' := by
  have ⟨hR, hF, hL⟩ := invRFL_reach hc r
  have ncr := no_crash hc r (invS_reach hc r) st
  have ft := hF.t t; simp only [TF] at ft
  have rt := hR.t t; simp only [TR] at rt
  have wrole := rt.2.2.1
  have c0 : ((s.th t).pc = .wNext ∨ (s.th t).pc = .wAssert) → (s.th t).cur ≠ 0 := by
    intro h e; have := ft.2.2.2.2.2.2.2.2.2.2.2.2.1 h; rw [e] at this; exact this.1 hF.g.2.1
  have sz0 : 0 < s.size := by have := hR.g.1.1; have := Nat.two_pow_pos (Nat.log2 s.size); omega
  have hf0 := hF.g.2.2.1 0 sz0
  have st0 := st
  st_open st
  all_goals
    first
      | (exfalso; exact ncr e_out.symm; done)
      | (exfalso; grind; done)
      | (left; rw [e_th']; simp only [upd, if_true]; exact xpc; done)
      | (exfalso; simp only [Worker, AddPc, GcPc] at wrole; grind; done)
      | (mu_fin skip)

set_option maxHeartbeats 4000000 in
theorem prog_lHead {c s s' t o} (hc : c.ownerByOr = false) (r : Reach c s) (hp0 : (s.th t).parent = 0)
    (hrz : s.rzOwner ≠ t + 1) (hpc : (s.th t).pc = .lHead) (st : step c s t .ldHeadL = some (s', o)) : Prog c s t s' := by
  have ⟨hR, hF, hL⟩ := invRFL_reach hc r
  have ncr := no_crash hc r (invS_reach hc r) st
  have ft := hF.t t; simp only [TF] at ft
  have rt := hR.t t; simp only [TR] at rt
  have wrole := rt.2.2.1
  have c0 : ((s.th t).pc = .wNext ∨ (s.th t).pc = .wAssert) → (s.th t).cur ≠ 0 := by
    intro h e; have := ft.2.2.2.2.2.2.2.2.2.2.2.2.1 h; rw [e] at this; exact this.1 hF.g.2.1
  have sz0 : 0 < s.size := by have := hR.g.1.1; have := Nat.two_pow_pos (Nat.log2 s.size); omega
  have hf0 := hF.g.2.2.1 0 sz0
  have st0 := st
  st_open st
  all_goals
    first
      | (exfalso; exact ncr e_out.symm; done)
      | (exfalso; grind; done)
      | (left; rw [e_th']; simp only [upd, if_true]; exact xpc; done)
      | (exfalso; simp only [Worker, AddPc, GcPc] at wrole; grind; done)
      | (mu_fin (have hop := wmu_hop hc r (hb_facts hc r (ft.2.2.2.2.2.2.2.2.2.2.2.2.2.2.1 hpc)).2.2.2.2 (ft.2.2.2.2.2.2.2.2.2.2.2.2.2.2.1 hpc).1; simp only [nxp] at hop))

set_option maxHeartbeats 4000000 in
theorem prog_fHead {c s s' t o} (hc : c.ownerByOr = false) (r : Reach c s) (hp0 : (s.th t).parent = 0)
    (hrz : s.rzOwner ≠ t + 1) (hpc : (s.th t).pc = .fHead) (st : step c s t .ldFirst = some (s', o)) : Prog c s t s' := by
  have ⟨hR, hF, hL⟩ := invRFL_reach hc r
  have ncr := no_crash hc r (invS_reach hc r) st
  have ft := hF.t t; simp only [TF] at ft
  have rt := hR.t t; simp only [TR] at rt
  have wrole := rt.2.2.1
  have c0 : ((s.th t).pc = .wNext ∨ (s.th t).pc = .wAssert) → (s.th t).cur ≠ 0 := by
    intro h e; have := ft.2.2.2.2.2.2.2.2.2.2.2.2.1 h; rw [e] at this; exact this.1 hF.g.2.1
  have sz0 : 0 < s.size := by have := hR.g.1.1; have := Nat.two_pow_pos (Nat.log2 s.size); omega
  have hf0 := hF.g.2.2.1 0 sz0
  have st0 := st
  st_open st
  all_goals
    first
      | (exfalso; exact ncr e_out.symm; done)
      | (exfalso; grind; done)
      | (left; rw [e_th']; simp only [upd, if_true]; exact xpc; done)
      | (exfalso; simp only [Worker, AddPc, GcPc] at wrole; grind; done)
      | (mu_fin (have hop := wmu_hop hc r (by simp only [valid, hf0.1]; simp) (hR.g.2.1 0 sz0); simp only [nxp] at hop))

end UrcuVerif.Lfht.Conc
