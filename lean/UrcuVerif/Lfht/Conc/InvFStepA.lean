import UrcuVerif.Lfht.Conc.InvF
/-! Layer F is preserved by every step: loads and API entry points (1) (proof-only file). -/
namespace UrcuVerif.Lfht.Conc
open UrcuVerif
set_option linter.unusedSimpArgs false
set_option linter.unusedVariables false

set_option maxHeartbeats 4000000 in
theorem invF_callDel {c s s' t o} (hc : c.ownerByOr = false) (hR : InvR c s) (hF : InvF c s)
    (st : step c s t .callDel = some (s', o)) : InvF c s' := by
  have sz0 : 0 < s.size := by have := hR.g.1.1; have := Nat.two_pow_pos (Nat.log2 s.size); omega
  have hmod := Nat.mod_lt (s.th t).hs sz0
  st_open st
  all_goals f_local hR hF [(s.th t).prev, (s.th t).iter.ptr, (s.th t).cur, (s.th t).bkt, (s.th t).gbkt, (s.th t).node, (s.th t).old, s.tbl 0]

set_option maxHeartbeats 4000000 in
theorem invF_callLookup {c s s' t o hh k} (hc : c.ownerByOr = false) (hR : InvR c s) (hF : InvF c s)
    (st : step c s t (.callLookup hh k) = some (s', o)) : InvF c s' := by
  have sz0 : 0 < s.size := by have := hR.g.1.1; have := Nat.two_pow_pos (Nat.log2 s.size); omega
  have hmod := Nat.mod_lt (s.th t).hs sz0
  st_open st
  all_goals f_local hR hF [(s.th t).prev, (s.th t).iter.ptr, (s.th t).cur, (s.th t).bkt, (s.th t).gbkt, (s.th t).node, (s.th t).old, s.tbl 0]

set_option maxHeartbeats 4000000 in
theorem invF_callDup {c s s' t o k} (hc : c.ownerByOr = false) (hR : InvR c s) (hF : InvF c s)
    (st : step c s t (.callDup k) = some (s', o)) : InvF c s' := by
  have sz0 : 0 < s.size := by have := hR.g.1.1; have := Nat.two_pow_pos (Nat.log2 s.size); omega
  have hmod := Nat.mod_lt (s.th t).hs sz0
  st_open st
  all_goals f_local hR hF [(s.th t).prev, (s.th t).iter.ptr, (s.th t).cur, (s.th t).bkt, (s.th t).gbkt, (s.th t).node, (s.th t).old, s.tbl 0]

set_option maxHeartbeats 4000000 in
theorem invF_callNext {c s s' t o} (hc : c.ownerByOr = false) (hR : InvR c s) (hF : InvF c s)
    (st : step c s t .callNext = some (s', o)) : InvF c s' := by
  have sz0 : 0 < s.size := by have := hR.g.1.1; have := Nat.two_pow_pos (Nat.log2 s.size); omega
  have hmod := Nat.mod_lt (s.th t).hs sz0
  st_open st
  all_goals f_local hR hF [(s.th t).prev, (s.th t).iter.ptr, (s.th t).cur, (s.th t).bkt, (s.th t).gbkt, (s.th t).node, (s.th t).old, s.tbl 0]

set_option maxHeartbeats 4000000 in
theorem invF_callFirst {c s s' t o} (hc : c.ownerByOr = false) (hR : InvR c s) (hF : InvF c s)
    (st : step c s t .callFirst = some (s', o)) : InvF c s' := by
  have sz0 : 0 < s.size := by have := hR.g.1.1; have := Nat.two_pow_pos (Nat.log2 s.size); omega
  have hmod := Nat.mod_lt (s.th t).hs sz0
  st_open st
  all_goals f_local hR hF [(s.th t).prev, (s.th t).iter.ptr, (s.th t).cur, (s.th t).bkt, (s.th t).gbkt, (s.th t).node, (s.th t).old, s.tbl 0]

set_option maxHeartbeats 4000000 in
theorem invF_ldSize {c s s' t o} (hc : c.ownerByOr = false) (hR : InvR c s) (hF : InvF c s)
    (st : step c s t .ldSize = some (s', o)) : InvF c s' := by
  have sz0 : 0 < s.size := by have := hR.g.1.1; have := Nat.two_pow_pos (Nat.log2 s.size); omega
  have hmod := Nat.mod_lt (s.th t).hs sz0
  st_open st
  all_goals f_local hR hF [(s.th t).prev, (s.th t).iter.ptr, (s.th t).cur, (s.th t).bkt, (s.th t).gbkt, (s.th t).node, (s.th t).old, s.tbl 0]

set_option maxHeartbeats 4000000 in
theorem invF_ldHeadA {c s s' t o} (hc : c.ownerByOr = false) (hR : InvR c s) (hF : InvF c s)
    (st : step c s t .ldHeadA = some (s', o)) : InvF c s' := by
  have sz0 : 0 < s.size := by have := hR.g.1.1; have := Nat.two_pow_pos (Nat.log2 s.size); omega
  have hmod := Nat.mod_lt (s.th t).hs sz0
  st_open st
  all_goals f_local hR hF [(s.th t).prev, (s.th t).iter.ptr, (s.th t).cur, (s.th t).bkt, (s.th t).gbkt, (s.th t).node, (s.th t).old, s.tbl 0]

set_option maxHeartbeats 4000000 in
theorem invF_ldNextA {c s s' t o} (hc : c.ownerByOr = false) (hR : InvR c s) (hF : InvF c s)
    (st : step c s t .ldNextA = some (s', o)) : InvF c s' := by
  have sz0 : 0 < s.size := by have := hR.g.1.1; have := Nat.two_pow_pos (Nat.log2 s.size); omega
  have hmod := Nat.mod_lt (s.th t).hs sz0
  st_open st
  all_goals f_local hR hF [(s.th t).prev, (s.th t).iter.ptr, (s.th t).cur, (s.th t).bkt, (s.th t).gbkt, (s.th t).node, (s.th t).old, s.tbl 0]

set_option maxHeartbeats 4000000 in
theorem invF_ldWalk {c s s' t o} (hc : c.ownerByOr = false) (hR : InvR c s) (hF : InvF c s)
    (st : step c s t .ldWalk = some (s', o)) : InvF c s' := by
  have sz0 : 0 < s.size := by have := hR.g.1.1; have := Nat.two_pow_pos (Nat.log2 s.size); omega
  have hmod := Nat.mod_lt (s.th t).hs sz0
  st_open st
  all_goals f_local hR hF [(s.th t).prev, (s.th t).iter.ptr, (s.th t).cur, (s.th t).bkt, (s.th t).gbkt, (s.th t).node, (s.th t).old, s.tbl 0]

end UrcuVerif.Lfht.Conc
