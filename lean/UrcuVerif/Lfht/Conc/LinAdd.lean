import UrcuVerif.Lfht.Conc.LinPoint
/-!
# Concurrent rculfhash — linearizability: one call of `add*` has a linearisation point (proof-only file)
-/
namespace UrcuVerif.Lfht.Conc
open UrcuVerif
set_option linter.unusedSimpArgs false
set_option linter.unusedVariables false

/-- event `e` is a linearisation point of the call `op` with result `r` -/
def LP (c : Cfg) (op : SOp) (r : Out) (e : Event) : Prop := LinRO e op r ∨ LinMut c e op r

theorem lin_wrap {c t op r} (Inv : State → Prop) (Ev : Event → Prop)
    (hown : ∀ s l o s', Reach c s → step c s t l = some (s', o) → Ev (s, t, l, o) → Inv s → OpK (s.th t).op →
      ((s'.th t).op ≠ .none ∧ (Inv s' ∨ LP c op r (s, t, l, o))) ∨
      ((s'.th t).op = .none ∧ (o = r → LP c op r (s, t, l, o))))
    (hoth : ∀ s u l o s', u ≠ t → Reach c s → step c s u l = some (s', o) → Ev (s, u, l, o) → Inv s →
      Inv s' ∨ LP c op r (s, u, l, o))
    {s evs s1} (ex : Exec c s evs s1) (r0 : Reach c s) (h0 : Inv s) (hev : ∀ e, e ∈ evs → Ev e)
    (hin : ∀ e, e ∈ evs → e.2.1 = t → OpK (e.1.th t).op)
    (hlast : ∃ e, evs.getLast? = some e ∧ e.2.1 = t ∧ e.2.2.2 = r) (hend : (s1.th t).op = .none) :
    LinAt c evs op r := by
  obtain ⟨el, hl1, hl2, hl3⟩ := hlast
  rcases op_track Inv Ev (LP c op r) (fun e => e.2.2.2 = r → LP c op r e) hown hoth ex r0 h0 hev hin ⟨el, hl1, hl2⟩ hend with
    ⟨e, he, hw⟩ | ⟨e, he, hf⟩
  · exact ⟨e, he, hw⟩
  · rw [hl1] at he; cases he
    exact ⟨el, List.mem_of_getLast? hl1, hf hl3⟩

/-- a property of the locals of `t` that excludes the idle states survives the steps of other threads -/
theorem local_other {c s s' t u l o} (P : Thr → Prop) (hP : ∀ x, P x → x.pc ≠ .idle ∧ x.pc ≠ .hDone)
    (st : step c s u l = some (s', o)) (hu : u ≠ t) (h : P (s.th t)) : P (s'.th t) := by
  rw [other_thread_same st hu (hP _ h)]; exact h

/-- the abstract operation of an `add*` call -/
def addOp (m : Mode) (n h k : Nat) : SOp :=
  match m with
  | .plain => .add n h k
  | .uniq => .addUnique n h k
  | _ => .addReplace n h k

/-- tracked while an `add*` call has not reached the linearisation point of its result `r` -/
def AddInv (op : SOp) (r : Out) (x : Thr) : Prop :=
  curOp x = some op ∧ x.op = .add ∧
  ∀ q, r = .node q → ¬ (x.pc = .wAssert ∧ x.cur = q ∧ x.mode = .uniq) ∧ ¬ (InRepl x ∧ x.old = q)

set_option maxHeartbeats 2000000 in
/-- the own steps of an `add*` call -/
theorem add_own {c s s' t l o op r} (hc : c.ownerByOr = false) (r0 : Reach c s) (st : step c s t l = some (s', o))
    (hK : (s.th t).mode ≠ .plain → InvK (s.th t).ky (s.th t).hs s) (h : AddInv op r (s.th t)) :
    ((s'.th t).op ≠ .none ∧ (AddInv op r (s'.th t) ∨ LP c op r (s, t, l, o))) ∨
    ((s'.th t).op = .none ∧ (o = r → LP c op r (s, t, l, o))) := by
  have hN := invN_reach hc r0 t; simp only [TN] at hN
  obtain ⟨n1, n2, n3, n4, n5, n6, n7, n8, n9, n10, n11, n12, n13, n14, n15⟩ := hN
  obtain ⟨h1, h2, h3⟩ := h
  have hpcs := n12 h2
  rcases own_step_class hc r0 st (.inl h2) with hcont | ⟨hnone, hret⟩
  · left
    obtain ⟨c1, c2, c3, c4, c5, c6, c7, c8, c9, c10, c11⟩ := hcont
    refine ⟨by rw [c1, h2]; simp, ?_⟩
    have hcur : curOp (s'.th t) = some op := by simp only [curOp, c1, c2, c3, c4, c5] at h1 ⊢; simp only [h2] at h1 ⊢; exact h1
    by_cases hq : ∃ q, r = .node q ∧ (((s'.th t).pc = .wAssert ∧ (s'.th t).cur = q ∧ (s'.th t).mode = .uniq) ∨
        (InRepl (s'.th t) ∧ (s'.th t).old = q))
    · right
      obtain ⟨q, rq, hq⟩ := hq
      rcases hq with ⟨p1, p2, p3⟩ | ⟨p1, p2⟩
      · rcases c8 p1 with ⟨a1, a2, _⟩ | ⟨a1, a2, a3, _, a5⟩
        · exact absurd ⟨a1, by rw [← a2]; exact p2, by rw [← c4]; exact p3⟩ (h3 q rq).1
        · subst a1
          have hwk : (s.th t).wk = .dupAdd := by
            rcases hpcs with e | e | e | e | e | e
            · rw [a2] at e; cases e
            · simp only [AddPc, a2] at e; simp at e
            · exact e.2
            · rw [a2] at e; cases e
            · simp only [GcPc, a2] at e; simp at e
            · rw [a2] at e; cases e
          have hm := lin_found hc r0 st a2 a5 (.inr ⟨h2, hwk⟩)
          left
          simp only [LinRO]
          have hmode : (s.th t).mode = .uniq := by rw [← c4]; exact p3
          simp only [curOp, h2, hmode, Option.some.injEq] at h1; subst h1
          rw [rq, ← p2, a3]; exact .addUniqueDup hm
      · rcases c9 p1 with ⟨a1, a2⟩ | ⟨a1, a2, a3, a4, a5⟩
        · exact absurd ⟨a1, by rw [← a2]; exact p2⟩ (h3 q rq).2
        · subst a1
          have := lin_repl hc r0 st a2 a3 a4 h1
          simp only [h2, reduceCtorEq, if_false] at this
          right; rw [rq, ← p2, a5]; exact this
    · left
      refine ⟨hcur, by rw [c1]; exact h2, ?_⟩
      intro q rq
      exact ⟨fun hh => hq ⟨q, rq, .inl hh⟩, fun hh => hq ⟨q, rq, .inr hh⟩⟩
  · right
    refine ⟨hnone, ?_⟩
    intro hor
    simp only [Ret] at hret
    simp only [AddPc, GcPc] at hpcs
    rcases hret with ⟨rfl, a1, a2, a3⟩ | ⟨rfl, a1, a2, a3, a4⟩ | ⟨rfl, a1, a2, _⟩ | ⟨rfl, a1, a2, _⟩ | ⟨rfl, a1, _⟩ |
      ⟨rfl, a1, a2⟩ | ⟨rfl, a1, _⟩ | ⟨rfl, a1, _⟩ | ⟨rfl, a1, _⟩ | ⟨rfl, a1, _, _, a4, _⟩
    · right; rw [← hor]; exact lin_ins hc r0 st a1 a2 h1 hK a3
    · exfalso; rw [a4] at hor; exact (h3 _ hor.symm).1 ⟨a1, rfl, a3⟩
    · exfalso; rw [a1] at hpcs; simp at hpcs; exact a2 hpcs
    · exfalso; rw [a1] at hpcs; simp at hpcs; exact a2 hpcs
    · exfalso; rw [a1] at hpcs; simp at hpcs
    · exfalso
      rcases a2 with ⟨b, _⟩ | ⟨_, b⟩
      · rw [h2] at b; cases b
      · rw [b] at hor; exact (h3 _ hor.symm).2 ⟨.inr a1, rfl⟩
    · exfalso; rw [a1] at hpcs; simp at hpcs
    · exfalso; rw [a1] at hpcs; simp at hpcs
    · exfalso; rw [a1] at hpcs; simp at hpcs
    · exfalso; rw [h2] at a4; cases a4

theorem curOp_add {x : Thr} {m : Mode} {n h k : Nat} (h1 : curOp x = some (addOp m n h k)) (h2 : x.op = .add)
    (hm : m ≠ .bkt) : x.mode = m ∧ x.node = n ∧ x.hs = h ∧ x.ky = k := by
  simp only [curOp, h2] at h1
  cases hx : x.mode <;> cases m <;> simp [hx, addOp] at h1 hm ⊢ <;> exact h1

/-- a thread inside an `add*` call is not idle -/
theorem add_not_idle {c s t} (hc : c.ownerByOr = false) (r0 : Reach c s) (h2 : (s.th t).op = .add) :
    (s.th t).pc ≠ .idle ∧ (s.th t).pc ≠ .hDone := by
  have hN := invN_reach hc r0 t; simp only [TN] at hN
  have := hN.2.2.2.2.2.2.2.2.2.2.2.1 h2
  simp only [AddPc, GcPc] at this
  constructor <;> (intro e; rw [e] at this; simp at this)

set_option maxHeartbeats 1000000 in
/-- **linearizability of `cds_lfht_add` / `cds_lfht_add_unique` / `cds_lfht_add_replace`** (one call) -/
theorem lin_add_exec {c s0 evs s1 t m n h k r} (hc : c.ownerByOr = false) (r0 : Reach c s0) (ex : Exec c s0 evs s1)
    (hcall : ∃ e0 rest, evs = e0 :: rest ∧ e0.2.1 = t ∧ e0.2.2.1 = .callAdd m n h k ∧
      ∀ e, e ∈ rest → e.2.1 = t → OpK (e.1.th t).op)
    (hK : m ≠ .plain → ∀ e, e ∈ evs → InvK k h e.1)
    (hlast : ∃ e, evs.getLast? = some e ∧ e.2.1 = t ∧ e.2.2.2 = r) (hend : (s1.th t).op = .none) :
    LinAt c evs (addOp m n h k) r := by
  obtain ⟨e0, rest, rfl, ht, hl, hin⟩ := hcall
  cases ex with
  | @cons s u l sa o evs' s2 st ex' =>
    simp only at ht hl
    subst ht; subst hl
    have hcallf : AddInv (addOp m n h k) r (sa.th u) ∧ m ≠ .bkt := by
      have st0 := st
      st_open st0
      have e1 : sa.th u = x' := by rw [e_th']; simp [upd]
      have hmb : m ≠ .bkt := by grind
      refine ⟨⟨?_, by rw [e1, xop], ?_⟩, hmb⟩
      · simp only [curOp, e1, xop, xmode, xnode, xhs, xky]
        cases m <;> simp [addOp] at hmb ⊢
      · intro q _
        rw [e1]; simp only [InRepl, GcPc, xpc]; simp
    obtain ⟨hinv, hmb⟩ := hcallf
    cases rest with
    | nil =>
      cases ex'
      exact absurd hend (by rw [hinv.2.1]; simp)
    | cons e' rest' =>
      have hl' : ∃ e, (e' :: rest').getLast? = some e ∧ e.2.1 = u ∧ e.2.2.2 = r := by
        obtain ⟨e, he, x, y⟩ := hlast
        exact ⟨e, by rw [List.getLast?_cons_cons] at he; exact he, x, y⟩
      have := lin_wrap (c := c) (t := u) (op := addOp m n h k) (r := r) (fun s => AddInv (addOp m n h k) r (s.th u))
        (fun e => m ≠ .plain → InvK k h e.1)
        (by
          intro s l o s' rs sts hev hi _
          obtain ⟨f1, f2, f3, f4⟩ := curOp_add hi.1 hi.2.1 hmb
          exact add_own hc rs sts (by rw [f1, f3, f4]; exact hev) hi)
        (by
          intro s w l o s' hw rs sts _ hi
          left
          rw [other_thread_same sts hw (add_not_idle hc rs hi.2.1)]; exact hi)
        ex' (.step r0 st) hinv (fun e he hm => hK hm e (List.mem_cons_of_mem _ he)) hin hl' hend
      obtain ⟨e, he, hp⟩ := this
      exact ⟨e, List.mem_cons_of_mem _ he, hp⟩

end UrcuVerif.Lfht.Conc
