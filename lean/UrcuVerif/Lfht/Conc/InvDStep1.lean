import UrcuVerif.Lfht.Conc.InvD
/-! Layer D is preserved by every step (part 1) (proof-only file). -/
namespace UrcuVerif.Lfht.Conc
open UrcuVerif
set_option linter.unusedSimpArgs false
set_option linter.unusedVariables false

set_option maxHeartbeats 4000000 in
theorem invD_rlock {c s s' t o} (hc : c.ownerByOr = false) (r : Reach c s) (hD : InvD s)
    (st : step c s t .rlock = some (s', o)) : InvD s' := by
  have st0 := st
  st_open st
  all_goals d_step skip

set_option maxHeartbeats 4000000 in
theorem invD_runlock {c s s' t o} (hc : c.ownerByOr = false) (r : Reach c s) (hD : InvD s)
    (st : step c s t .runlock = some (s', o)) : InvD s' := by
  have st0 := st
  st_open st
  all_goals d_step skip

set_option maxHeartbeats 4000000 in
theorem invD_callAdd {c s s' t o m n hh k} (hc : c.ownerByOr = false) (r : Reach c s) (hD : InvD s)
    (st : step c s t (.callAdd m n hh k) = some (s', o)) : InvD s' := by
  have st0 := st
  st_open st
  all_goals d_step skip

set_option maxHeartbeats 4000000 in
theorem invD_callReplace {c s s' t o n hh k} (hc : c.ownerByOr = false) (r : Reach c s) (hD : InvD s)
    (st : step c s t (.callReplace n hh k) = some (s', o)) : InvD s' := by
  have st0 := st
  st_open st
  all_goals d_step skip

set_option maxHeartbeats 4000000 in
theorem invD_callDel {c s s' t o} (hc : c.ownerByOr = false) (r : Reach c s) (hD : InvD s)
    (st : step c s t .callDel = some (s', o)) : InvD s' := by
  have st0 := st
  st_open st
  all_goals d_step skip

set_option maxHeartbeats 4000000 in
theorem invD_callLookup {c s s' t o hh k} (hc : c.ownerByOr = false) (r : Reach c s) (hD : InvD s)
    (st : step c s t (.callLookup hh k) = some (s', o)) : InvD s' := by
  have st0 := st
  st_open st
  all_goals d_step skip

set_option maxHeartbeats 4000000 in
theorem invD_callDup {c s s' t o k} (hc : c.ownerByOr = false) (r : Reach c s) (hD : InvD s)
    (st : step c s t (.callDup k) = some (s', o)) : InvD s' := by
  have st0 := st
  st_open st
  all_goals d_step skip

set_option maxHeartbeats 4000000 in
theorem invD_callNext {c s s' t o} (hc : c.ownerByOr = false) (r : Reach c s) (hD : InvD s)
    (st : step c s t .callNext = some (s', o)) : InvD s' := by
  have st0 := st
  st_open st
  all_goals d_step skip

set_option maxHeartbeats 4000000 in
theorem invD_callFirst {c s s' t o} (hc : c.ownerByOr = false) (r : Reach c s) (hD : InvD s)
    (st : step c s t .callFirst = some (s', o)) : InvD s' := by
  have st0 := st
  st_open st
  all_goals d_step skip

set_option maxHeartbeats 4000000 in
theorem invD_ldSize {c s s' t o} (hc : c.ownerByOr = false) (r : Reach c s) (hD : InvD s)
    (st : step c s t .ldSize = some (s', o)) : InvD s' := by
  have st0 := st
  st_open st
  all_goals d_step skip

set_option maxHeartbeats 4000000 in
theorem invD_ldHeadA {c s s' t o} (hc : c.ownerByOr = false) (r : Reach c s) (hD : InvD s)
    (st : step c s t .ldHeadA = some (s', o)) : InvD s' := by
  have st0 := st
  st_open st
  all_goals d_step skip

set_option maxHeartbeats 4000000 in
theorem invD_ldNextA {c s s' t o} (hc : c.ownerByOr = false) (r : Reach c s) (hD : InvD s)
    (st : step c s t .ldNextA = some (s', o)) : InvD s' := by
  have st0 := st
  st_open st
  all_goals d_step skip

set_option maxHeartbeats 4000000 in
theorem invD_casIns {c s s' t o} (hc : c.ownerByOr = false) (r : Reach c s) (hD : InvD s)
    (st : step c s t .casIns = some (s', o)) : InvD s' := by
  have st0 := st
  st_open st
  all_goals d_step skip

end UrcuVerif.Lfht.Conc
