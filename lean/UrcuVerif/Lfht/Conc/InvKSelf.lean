import UrcuVerif.Lfht.Conc.InvK
import UrcuVerif.Lfht.Conc.InvSAll
/-!
# Concurrent rculfhash — layer K, the acting thread (proof-only file)
-/
namespace UrcuVerif.Lfht.Conc
open UrcuVerif
set_option linter.unusedSimpArgs false
set_option linter.unusedVariables false

/-- a path to a visible node with key `k` starts at a node that sorts at or before the run of `k` -/
theorem cov_past {c k hk s a q} (hc : c.ownerByOr = false) (r : Reach c s) (hK : InvK k hk s) (hv : vis s q)
    (hkq : s.key q = k) (h : Rch (nxp s) a q) (va : a ≠ 0 → valid s a) : a ≠ 0 ∧ s.rev a ≤ bitReverse64 hk := by
  have ⟨_, _, hL⟩ := invRFL_reach hc r
  have := rch_not_past hc r h hv va
  rw [hK.g.1 q (by rw [(hL.g.2.1 q).mp hv.1]; simp) hv.2.1 hkq] at this
  exact this

set_option maxHeartbeats 4000000 in
/-- the acting thread, first clause: a pending add of key `k` is not a plain add -/
theorem TK1_self {c k hk s s' t l o} (hc : c.ownerByOr = false) (r : Reach c s) (hK : InvK k hk s)
    (st : step c s t l = some (s', o)) (ha : UniqUse k hk l) :
    Pend (s'.th t) → s'.key (s'.th t).node = k → (s'.th t).mode ≠ .plain := by
  have old := (hK.t t).1; simp only [Pend] at old
  have ⟨hR, hF, _⟩ := invRFL_reach hc r
  have lwk := (hR.t t).2.2.2.2.2.2.1
  have c0 : ((s.th t).pc = .wNext ∨ (s.th t).pc = .wAssert) → (s.th t).cur ≠ 0 := by
    intro h e; have := (hF.t t).2.2.2.2.2.2.2.2.2.2.2.2.1 h; rw [e] at this; exact this.1 hF.g.2.1
  clear hR hF
  have st0 := st
  cases l with
  | spawn v len =>
    st_open st; st_open2
    all_goals
      have e1 : s'.th t = x' := by rw [e_th']; simp [upd]
      rw [e1]; simp only [Pend, xpc, xmode, xwk, xnode, e_key]; grind
  | join v =>
    st_open st; st_open2
    all_goals
      have e1 : s'.th t = x' := by rw [e_th']; simp [upd]
      rw [e1]; simp only [Pend, xpc, xmode, xwk, xnode, e_key]; grind
  | _ =>
    st_open st
    all_goals
      have e1 : s'.th t = x' := by rw [e_th']; simp [upd]
      rw [e1]; simp only [UniqUse] at ha; simp only [Pend, xpc, xmode, xwk, xnode, e_key, upd]; grind

set_option maxHeartbeats 4000000 in
/-- the acting thread, second clause, for all labels that do not move an `add_unique` scan -/
theorem TK2_self_none {c s s' t l o} (hc : c.ownerByOr = false) (r : Reach c s)
    (st : step c s t l = some (s', o)) (h1 : l ≠ .ldHeadA) (h2 : l ≠ .ldNextA) (h3 : l ≠ .ldWalk) (h4 : ∀ p, l ≠ .reclaim p) :
    ¬ Scan (s'.th t) := by
  have ⟨hR, hF, _⟩ := invRFL_reach hc r
  have lwk := (hR.t t).2.2.2.2.2.2.1
  have c0 : ((s.th t).pc = .wNext ∨ (s.th t).pc = .wAssert) → (s.th t).cur ≠ 0 := by
    intro h e; have := (hF.t t).2.2.2.2.2.2.2.2.2.2.2.2.1 h; rw [e] at this; exact this.1 hF.g.2.1
  have ncr := no_crash hc r (invS_reach hc r) st
  clear hR hF
  have st0 := st
  cases l with
  | ldHeadA => exact absurd rfl h1
  | ldNextA => exact absurd rfl h2
  | ldWalk => exact absurd rfl h3
  | reclaim p => exact absurd rfl (h4 p)
  | spawn v len =>
    st_open st; st_open2
    all_goals
      have e1 : s'.th t = x' := by rw [e_th']; simp [upd]
      rw [e1]; simp only [Scan, xpc, xmode, xwk]; grind
  | join v =>
    st_open st; st_open2
    all_goals
      have e1 : s'.th t = x' := by rw [e_th']; simp [upd]
      rw [e1]; simp only [Scan, xpc, xmode, xwk]; grind
  | _ =>
    st_open st
    all_goals
      first
        | (exfalso; exact ncr e_out.symm; done)
        | (have e1 : s'.th t = x' := by rw [e_th']; simp [upd]
           rw [e1]; simp only [Scan, xpc, xmode, xwk]; grind)

set_option hygiene false in
/-- common opening of a branch that leaves the heap alone -/
macro "ks_open" : tactic => `(tactic|
  (have e1 : s'.th t = x' := by rw [e_th']; simp [upd]
   rw [e1]
   intro hsc hk1 q hv hkq hr
   have hvs : vis s q := by simpa only [vis, e_L, e_isB, e_nxt] using hv
   have enx : nxp s' = nxp s := by funext a; simp only [nxp, e_nxt]
   rw [enx] at hr ⊢
   rw [e_key] at hk1 hkq
   rw [xnode] at hk1
   simp only [Scan, xmode, xpc, xwk] at hsc))

set_option hygiene false in
macro "ks_none" : tactic => `(tactic|
  (have e1 : s'.th t = x' := by rw [e_th']; simp [upd]
   rw [e1]; intro hsc; exfalso; simp only [Scan, xpc, xmode, xwk] at hsc; grind))

set_option maxHeartbeats 4000000 in
theorem TK2_ldHeadA {c k hk s s' t o} (hc : c.ownerByOr = false) (r : Reach c s) (hK : InvK k hk s)
    (st : step c s t .ldHeadA = some (s', o)) : Scan (s'.th t) → s'.key (s'.th t).node = k → Cov k s' (s'.th t) := by
  have ⟨hR, hF, hL⟩ := invRFL_reach hc r
  have ncr := no_crash hc r (invS_reach hc r) st
  have ft := hF.t t; simp only [TF] at ft
  have st0 := st
  st_open st
  · exact absurd e_out.symm ncr
  · ks_open
    have hpc : (s.th t).pc = .aHead := by assumption
    have hp : Pend (s.th t) := ⟨by rcases hsc.1 with h | h <;> simp [h], by simp [hpc]⟩
    obtain ⟨n1, n2, n3, n4⟩ := pend_node hc r hK hp hk1
    rw [xiter] at hr
    have hb := hb_facts hc r (ft.2.2.2.2.2.2.2.1 (by simp [InAdd, hpc]))
    have va := (hF.g.1 (s.th t).bkt).2.2.2.1 hb.2.2.2.2
    have ⟨a0, hle⟩ := cov_past hc r hK hvs hkq hr va
    exfalso
    have hbr : (s.nxt (s.th t).bkt).ptr = 0 ∨ s.rev (s.th t).node < s.rev (s.nxt (s.th t).bkt).ptr ∨
      (s.th t).mode = Mode.bkt ∧ s.rev (s.nxt (s.th t).bkt).ptr = s.rev (s.th t).node := by assumption
    rcases hbr with h | h | h
    · exact a0 h
    · omega
    · exact hp.1 h.1
  · ks_none

set_option maxHeartbeats 4000000 in
theorem TK2_ldNextA {c k hk s s' t o} (hc : c.ownerByOr = false) (r : Reach c s) (hK : InvK k hk s)
    (st : step c s t .ldNextA = some (s', o)) : Scan (s'.th t) → s'.key (s'.th t).node = k → Cov k s' (s'.th t) := by
  have ⟨hR, hF, hL⟩ := invRFL_reach hc r
  have ncr := no_crash hc r (invS_reach hc r) st
  have ft := hF.t t; simp only [TF] at ft
  have st0 := st
  st_open st
  · exact absurd e_out.symm ncr
  · ks_none
  · ks_open
    rw [xiter] at hr
    exact ⟨xpc, by rw [xcur]; exact hr⟩
  · ks_open
    have hpc : (s.th t).pc = .aNext := by assumption
    have hp : Pend (s.th t) := ⟨by rcases hsc.1 with h | h <;> simp [h], by simp [hpc]⟩
    obtain ⟨n1, n2, n3, n4⟩ := pend_node hc r hK hp hk1
    rw [xiter] at hr
    have f10 := ft.2.2.2.2.2.2.2.2.2.1 (by simp [HasPos, hpc])
    have f11 := ft.2.2.2.2.2.2.2.2.2.2.1 (.inl hpc)
    have va := (hF.g.1 (s.th t).iter.ptr).2.2.2.1 (f10.2.2.2.2 f11)
    have ⟨a0, hle⟩ := cov_past hc r hK hvs hkq hr va
    exfalso
    have hbr : (s.nxt (s.th t).iter.ptr).ptr = 0 ∨ s.rev (s.th t).node < s.rev (s.nxt (s.th t).iter.ptr).ptr ∨
      (s.th t).mode = Mode.bkt ∧ s.rev (s.nxt (s.th t).iter.ptr).ptr = s.rev (s.th t).node := by assumption
    rcases hbr with h | h | h
    · exact a0 h
    · omega
    · exact hp.1 h.1
  · ks_none

set_option maxHeartbeats 4000000 in
theorem TK2_ldWalk {c k hk s s' t o} (hc : c.ownerByOr = false) (r : Reach c s) (hK : InvK k hk s)
    (st : step c s t .ldWalk = some (s', o)) : Scan (s'.th t) → s'.key (s'.th t).node = k → Cov k s' (s'.th t) := by
  have ⟨hR, hF, hL⟩ := invRFL_reach hc r
  have ncr := no_crash hc r (invS_reach hc r) st
  have ft := hF.t t; simp only [TF] at ft
  have lt := hL.t t; simp only [TL] at lt
  have st0 := st
  st_open st
  all_goals
    first
      | (exact absurd e_out.symm ncr; done)
      | (ks_none; done)
      | (ks_open
         have hpc : (s.th t).pc = .wNext := by assumption
         have hwk : (s.th t).wk = .dupAdd := by grind
         have hp : Pend (s.th t) := ⟨by rcases hsc.1 with h | h <;> simp [h], by simp [hpc, hwk]⟩
         obtain ⟨n1, n2, n3, n4⟩ := pend_node hc r hK hp hk1
         rw [xiter] at hr
         have ⟨_, hcur⟩ := (hK.t t).2 ⟨hsc.1, .inr ⟨hpc, hwk⟩⟩ hk1 q hvs hkq hr
         have vc := ft.2.2.2.2.2.2.2.2.2.2.2.2.1 (.inl hpc)
         have l12 := lt.2.2.2.2.2.2.2.2.2.2.2.1 (.inr (.inl (by simp [InAdd, hpc, hwk]))) hp.1
         have l5 := lt.2.2.2.2.1 ⟨.inl hpc, hwk⟩
         have hnf : ¬ found s (s.th t) (s.nxt (s.th t).cur) = true := by assumption
         have hne : (s.th t).cur ≠ q := by
           intro e; apply hnf
           have gb := (hF.g.1 (s.th t).cur).2.2.2.2.1 vc
           rw [e] at gb ⊢
           simp only [found, hwk, hvs.2.2, gb, hvs.2.1, hkq, ← l12, hk1]; simp; rw [e]; exact hkq
         have hn := rch_next hcur hne
         first
           | exact ⟨xpc, by rw [xcur]; exact hn⟩
           | (exfalso
              have va := (hF.g.1 (s.th t).cur).2.2.2.1 vc
              have ⟨a0, hle⟩ := cov_past hc r hK hvs hkq hn va
              have hbr : (s.nxt (s.th t).cur).ptr = 0 ∨ (s.th t).wk ≠ WalkKind.next ∧ (s.th t).rh < s.rev (s.nxt (s.th t).cur).ptr := by
                assumption
              rcases hbr with h | h
              · exact a0 h
              · have := h.2; simp only [nxp] at hle; omega))

end UrcuVerif.Lfht.Conc
