import UrcuVerif.Lfht.Conc.LinPlain
/-!
# Concurrent rculfhash — linearizability: a `lookup` that answers "not found" has a linearisation point
(proof-only file)
-/
namespace UrcuVerif.Lfht.Conc
open UrcuVerif
set_option linter.unusedSimpArgs false
set_option linter.unusedVariables false

/-- the steps of a walk only load -/
theorem walk_same {c s s' t l o} (st : step c s t l = some (s', o))
    (hl : l = .ldSize ∨ l = .ldHeadL ∨ l = .ldWalk ∨ l = .ldAssertW) :
    s'.nxt = s.nxt ∧ s'.L = s.L ∧ s'.isB = s.isB ∧ s'.rev = s.rev ∧ s'.key = s.key := by
  rcases hl with rfl | rfl | rfl | rfl <;> (st_open st <;> exact ⟨e_nxt, e_L, e_isB, e_rev, e_key⟩)

/-- tracked while a `lookup` has not met an instant without a stored node of its key -/
def LkInv0 (h k : Nat) (s : State) (x : Thr) : Prop :=
  curOp x = some (.lookup h k) ∧ x.op = .lookup ∧ LkPos h k s x

theorem lkpos_same {h k s s' x} (e : s'.nxt = s.nxt ∧ s'.L = s.L ∧ s'.isB = s.isB ∧ s'.rev = s.rev ∧ s'.key = s.key)
    (hp : LkPos h k s x) : LkPos h k s' x := by
  obtain ⟨e1, e2, e3, e4, e5⟩ := e
  have : nxp s' = nxp s := by funext a; simp only [nxp, e1]
  intro hpc y hm
  rw [this]
  exact hp hpc y (by simpa only [MS.Match, absL, vis, e1, e2, e3, e4, e5] using hm)

/-- a stored node with the hash and key of the `lookup` standing on it passes the match test -/
theorem match_found {c s t h k} (hc : c.ownerByOr = false) (r0 : Reach c s) (h1 : curOp (s.th t) = some (.lookup h k))
    (h2 : (s.th t).op = .lookup) (hm : (absL s).Match h k (s.th t).cur) :
    found s (s.th t) (s.nxt (s.th t).cur) = true := by
  have ⟨_, hF, hL⟩ := invRFL_reach hc r0
  have hN := invN_reach hc r0 t; simp only [TN] at hN
  obtain ⟨b1, b2, _⟩ := hN.2.2.1 h2
  simp only [curOp, h2, Option.some.injEq, SOp.lookup.injEq] at h1
  obtain ⟨hv, hr, hk⟩ := hm
  simp only [absL] at hr hk
  have vc : valid s (s.th t).cur := by simp only [valid, (hL.g.2.1 _).mp hv.1]; simp
  have gb := (hF.g.1 (s.th t).cur).2.2.2.2.1 vc
  simp only [found, b2, hv.2.2, gb, hv.2.1, hr, hk, b1, h1.1, h1.2]; simp

/-- a path from `a` to a stored node with hash `h`: `a` is not NULL and does not sort behind that hash -/
theorem match_bound {c s a y h k} (hc : c.ownerByOr = false) (r0 : Reach c s) (hm : (absL s).Match h k y)
    (hr : Rch (nxp s) a y) (va : a ≠ 0 → valid s a) : a ≠ 0 ∧ s.rev a ≤ bitReverse64 h := by
  have := rch_bound hc r0 hr hm.1.1 va
  have e : s.rev y = bitReverse64 h := hm.2.1
  rw [e] at this; exact this

set_option maxHeartbeats 2000000 in
theorem lk0_own {c s s' t l o h k w} (hc : c.ownerByOr = false) (r0 : Reach c s) (st : step c s t l = some (s', o))
    (hD : InvK k h s ∨ PlainK k h s) (hi : LkInv0 h k s (s.th t)) :
    ((s'.th t).op ≠ .none ∧ (LkInv0 h k s' (s'.th t) ∨ LP c (.lookup h k) (.iter 0 w) (s, t, l, o))) ∨
    ((s'.th t).op = .none ∧ (o = .iter 0 w → LP c (.lookup h k) (.iter 0 w) (s, t, l, o))) := by
  have r' : Reach c s' := .step r0 st
  have ⟨hR, hF, hL⟩ := invRFL_reach hc r0
  have ⟨hR', hF', hL'⟩ := invRFL_reach hc r'
  have gf := graph_facts hc r0
  have hN := invN_reach hc r0 t; simp only [TN] at hN
  obtain ⟨n1, n2, n3, n4, n5, n6, n7, n8, n9, n10, n11, n12, n13, n14, n15⟩ := hN
  obtain ⟨h1, h2, h3⟩ := hi
  obtain ⟨b1, b2, hpcs⟩ := n3 h2
  have hargs : (s.th t).hs = h ∧ (s.th t).ky = k := by
    simpa only [curOp, h2, Option.some.injEq, SOp.lookup.injEq] using h1
  have ft := hF.t t; simp only [TF] at ft
  have c0 : ((s.th t).pc = .wNext ∨ (s.th t).pc = .wAssert) → (s.th t).cur ≠ 0 := by
    intro hh e; have := ft.2.2.2.2.2.2.2.2.2.2.2.2.1 hh; rw [e] at this; exact this.1 hF.g.2.1
  have lpnone : (∀ y, ¬ (absL s).Match h k y) → LP c (.lookup h k) (.iter 0 w) (s, t, l, o) :=
    fun hn => .inl (.lookupNone hn)
  rcases own_step_class hc r0 st (.inr (.inr (.inr h2))) with hcont | ⟨hnone, hret⟩
  · left
    obtain ⟨c1, c2, c3, c4, c5, c6, c7, c8, c9, c10, c11⟩ := hcont
    refine ⟨by rw [c1, h2]; simp, ?_⟩
    have hcur : curOp (s'.th t) = some (.lookup h k) := by
      simp only [curOp, c1, c2, c3] at h1 ⊢; simp only [h2] at h1 ⊢; exact h1
    rcases lk0_heap (t := t) hc r0 st hD h3 with hpos' | hn
    rotate_left
    · exact .inr (lpnone hn)
    left
    refine ⟨hcur, by rw [c1]; exact h2, ?_⟩
    obtain ⟨c11a, c11b⟩ := c11 h2
    intro hpc' y hm
    rcases hpc' with hp' | hp' | hp'
    · rcases c11a hp' with ⟨a1, a2⟩ | ⟨a1, a2, a3⟩
      · have : lpos (s'.th t) = lpos (s.th t) := by simp only [lpos, hp', a1, a2, if_true]
        rw [this]; exact hpos' (.inl a1) y hm
      · -- the bucket has just been chosen: it sorts before the hash, every stored node of the key is behind it
        subst a1
        have ws := walk_same st (.inl rfl)
        have hlp : lpos (s'.th t) = s.tbl ((s.th t).hs % s.size) := by simp only [lpos, hp', a3, if_true]
        rw [hlp]
        have ft' := hF'.t t; simp only [TF] at ft'
        have hb := hb_facts hc r' (ft'.2.2.2.2.2.2.2.2.2.2.2.2.2.2.1 hp')
        rw [a3] at hb
        have hbb := bucket_before hR (s.th t).hs
        rw [hargs.1] at hbb
        have hne : s.tbl ((s.th t).hs % s.size) ≠ y := by
          intro e; have := hm.1.2.1; rw [← e, hb.2.2.1] at this; cases this
        have hry : s'.rev y = bitReverse64 h := hm.2.1
        have hnok : ¬ ok s' y (s.tbl ((s.th t).hs % s.size)) := by
          simp only [ok, hry, ws.2.2.2.1, hb.2.2.1, hm.1.2.1]
          rw [hargs.1] at *
          intro hh; rcases hh with hh | ⟨_, hh | hh⟩
          · omega
          · cases hh
          · cases hh
        exact rch_of_before hc r' hb.2.2.2.1 hm.1.1 hne hnok
    · rcases c11b hp' with ⟨a1, a2⟩ | ⟨a1, a2, a3, a4⟩ | ⟨a1, a2, a3⟩
      · have : lpos (s'.th t) = lpos (s.th t) := by simp only [lpos, hp', a1, a2]; simp
        rw [this]; exact hpos' (.inr (.inl a1)) y hm
      · subst a1
        have ws := walk_same st (.inr (.inr (.inl rfl)))
        have hm0 : (absL s).Match h k y := by simpa only [MS.Match, absL, vis, ws.1, ws.2.1, ws.2.2.1, ws.2.2.2.1, ws.2.2.2.2] using hm
        have hr0 := h3 (.inr (.inl a2)) y hm0
        have hlp : lpos (s.th t) = (s.th t).cur := by simp only [lpos, a2]; simp
        rw [hlp] at hr0
        have hne : (s.th t).cur ≠ y := by
          intro e; rw [← e] at hm0
          have := match_found hc r0 h1 h2 hm0; rw [a4] at this; cases this
        have hlp' : lpos (s'.th t) = nxp s (s.th t).cur := by simp only [lpos, hp', a3, nxp]; simp
        have enx : nxp s' = nxp s := by funext a; simp only [nxp, ws.1]
        rw [hlp', enx]; exact rch_next hr0 hne
      · subst a1
        have ws := walk_same st (.inr (.inl rfl))
        have hm0 : (absL s).Match h k y := by simpa only [MS.Match, absL, vis, ws.1, ws.2.1, ws.2.2.1, ws.2.2.2.1, ws.2.2.2.2] using hm
        have hr0 := h3 (.inl a2) y hm0
        have hlp : lpos (s.th t) = (s.th t).bkt := by simp only [lpos, a2]; simp
        rw [hlp] at hr0
        have hb := hb_facts hc r0 (ft.2.2.2.2.2.2.2.2.2.2.2.2.2.2.1 a2)
        have hne : (s.th t).bkt ≠ y := by
          intro e; have := hm0.1.2.1; rw [← e, hb.2.2.1] at this; cases this
        have hlp' : lpos (s'.th t) = nxp s (s.th t).bkt := by simp only [lpos, hp', a3, nxp]; simp
        have enx : nxp s' = nxp s := by funext a; simp only [nxp, ws.1]
        rw [hlp', enx]; exact rch_next hr0 hne
    · rcases c8 hp' with ⟨a1, a2, _⟩ | ⟨a1, a2, a3, _⟩
      · have : lpos (s'.th t) = lpos (s.th t) := by simp only [lpos, hp', a1, a2]; simp
        rw [this]; exact hpos' (.inr (.inr a1)) y hm
      · have : lpos (s'.th t) = lpos (s.th t) := by simp only [lpos, hp', a2, a3]; simp
        rw [this]; exact hpos' (.inr (.inl a2)) y hm
  · right
    refine ⟨hnone, ?_⟩
    intro hor
    simp only [Ret] at hret
    rcases hret with ⟨rfl, a1, _⟩ | ⟨rfl, a1, _, _, a3⟩ | ⟨rfl, a1, a2, a3⟩ | ⟨rfl, a1, a2, a3, a4, a5⟩ | ⟨rfl, a1, a2, a3⟩ |
      ⟨rfl, a1, _⟩ | ⟨rfl, a1, _⟩ | ⟨rfl, a1, _⟩ | ⟨rfl, a1, _⟩ | ⟨rfl, a1, _⟩
    · exfalso; rw [a1] at hpcs; simp at hpcs
    · exfalso; rw [a3] at hor; cases hor
    · exfalso; rw [a3] at hor; injection hor with e1 e2; exact c0 (.inr a1) e1
    · -- the walk ran past the hash: no stored node of the key
      apply lpnone
      intro y hm
      have hr0 := h3 (.inr (.inl a1)) y hm
      have hlp : lpos (s.th t) = (s.th t).cur := by simp only [lpos, a1]; simp
      rw [hlp] at hr0
      have hne : (s.th t).cur ≠ y := by
        intro e; rw [← e] at hm
        have := match_found hc r0 h1 h2 hm; rw [a3] at this; cases this
      have hn := rch_next hr0 hne
      have vc := ft.2.2.2.2.2.2.2.2.2.2.2.2.1 (.inl a1)
      have hb := match_bound hc r0 hm hn (fun h0 => (gf.2.1 _ vc h0).1)
      simp only [nxp] at hb
      rcases a4 with e0 | ⟨_, e0⟩
      · exact hb.1 e0
      · rw [b1, hargs.1] at e0; omega
    · apply lpnone
      intro y hm
      have hr0 := h3 (.inl a1) y hm
      have hlp : lpos (s.th t) = (s.th t).bkt := by simp only [lpos, a1]; simp
      rw [hlp] at hr0
      have hbf := hb_facts hc r0 (ft.2.2.2.2.2.2.2.2.2.2.2.2.2.2.1 a1)
      have hne : (s.th t).bkt ≠ y := by
        intro e; have := hm.1.2.1; rw [← e, hbf.2.2.1] at this; cases this
      have hn := rch_next hr0 hne
      have hb := match_bound hc r0 hm hn (fun h0 => (gf.2.1 _ hbf.2.2.2.2 h0).1)
      simp only [nxp] at hb
      rcases a2 with e0 | ⟨_, e0⟩
      · exact hb.1 e0
      · rw [b1, hargs.1] at e0; omega
    · exfalso; rw [a1] at hpcs; simp at hpcs
    · exfalso; rw [a1] at hpcs; simp at hpcs
    · exfalso; rw [a1] at hpcs; simp at hpcs
    · exfalso; rw [a1] at hpcs; simp at hpcs
    · exfalso; rw [a1] at hpcs; simp at hpcs

set_option maxHeartbeats 2000000 in
/-- **linearizability of a `cds_lfht_lookup` that answers "not found"**: at some event between its call and its
return no node with the hash and key was stored -/
theorem lin_lookup_none_exec {c s0 evs s1 t h k w} (hc : c.ownerByOr = false) (r0 : Reach c s0)
    (ex : Exec c s0 evs s1)
    (hcall : ∃ e0 rest, evs = e0 :: rest ∧ e0.2.1 = t ∧ e0.2.2.1 = .callLookup h k ∧
      ∀ e, e ∈ rest → e.2.1 = t → OpK (e.1.th t).op)
    (hD : ∀ e, e ∈ evs → InvK k h e.1 ∨ PlainK k h e.1)
    (hlast : ∃ e, evs.getLast? = some e ∧ e.2.1 = t ∧ e.2.2.2 = .iter 0 w)
    (hend : (s1.th t).op = .none) : LinAt c evs (.lookup h k) (.iter 0 w) := by
  obtain ⟨e0, rest, rfl, ht, hl, hin⟩ := hcall
  cases ex with
  | @cons s u l sa o evs' s2 st ex' =>
    simp only at ht hl
    subst ht; subst hl
    obtain ⟨g1, g2, g3⟩ := callLookup_step st
    have hinv : LkInv0 h k sa (sa.th u) := ⟨g1, g2, by intro hp; rw [g3] at hp; simp at hp⟩
    cases rest with
    | nil =>
      cases ex'
      exact absurd hend (by rw [g2]; simp)
    | cons e' rest' =>
      have hl' : ∃ e, (e' :: rest').getLast? = some e ∧ e.2.1 = u ∧ e.2.2.2 = .iter 0 w := by
        obtain ⟨e, he, x, y⟩ := hlast
        exact ⟨e, by rw [List.getLast?_cons_cons] at he; exact he, x, y⟩
      have := lin_wrap (c := c) (t := u) (op := .lookup h k) (r := .iter 0 w)
        (fun s => LkInv0 h k s (s.th u)) (fun e => InvK k h e.1 ∨ PlainK k h e.1)
        (by intro s l o s' rs sts hev hi _; exact lk0_own hc rs sts hev hi)
        (by
          intro s w' l o s' hw rs sts hev hi
          obtain ⟨a1, a2, a3⟩ := hi
          have hth := other_thread_same sts hw (lookup_not_idle hc rs a2)
          rcases lk0_heap (t := u) hc rs sts hev a3 with hp | hn
          · left; rw [hth]; exact ⟨a1, a2, hp⟩
          · right; exact .inl (.lookupNone hn))
        ex' (.step r0 st) hinv (fun e he => hD e (List.mem_cons_of_mem _ he)) hin hl' hend
      obtain ⟨e, he, hp⟩ := this
      exact ⟨e, List.mem_cons_of_mem _ he, hp⟩

/-- a `cds_lfht_lookup` returns an iterator -/
theorem lookup_ret_iter {c s0 evs s1 t h k r} (hc : c.ownerByOr = false) (r0 : Reach c s0) (ex : Exec c s0 evs s1)
    (hcall : ∃ e0 rest, evs = e0 :: rest ∧ e0.2.1 = t ∧ e0.2.2.1 = .callLookup h k ∧
      ∀ e, e ∈ rest → e.2.1 = t → OpK (e.1.th t).op)
    (hlast : ∃ e, evs.getLast? = some e ∧ e.2.1 = t ∧ e.2.2.2 = r) (hend : (s1.th t).op = .none) :
    ∃ q w, r = .iter q w := by
  obtain ⟨e0, rest, rfl, ht, hl, hin⟩ := hcall
  cases ex with
  | @cons s u l sa o evs' s2 st ex' =>
    simp only at ht hl
    subst ht; subst hl
    obtain ⟨g1, g2, g3⟩ := callLookup_step st
    cases rest with
    | nil =>
      cases ex'
      exact absurd hend (by rw [g2]; simp)
    | cons e' rest' =>
      obtain ⟨el, hl1, hl2, hl3⟩ := hlast
      rw [List.getLast?_cons_cons] at hl1
      have := op_track (c := c) (t := u) (fun s => (s.th u).op = .lookup) (fun _ => True) (fun _ => False)
        (fun e => ∃ q w, e.2.2.2 = .iter q w)
        (by
          intro s l o s' rs sts _ hi _
          have hN := invN_reach hc rs u; simp only [TN] at hN
          have hpcs := (hN.2.2.1 hi).2.2
          rcases own_step_class hc rs sts (.inr (.inr (.inr hi))) with hcont | ⟨hnone, hret⟩
          · left; exact ⟨by rw [hcont.1, hi]; simp, .inl (by rw [hcont.1]; exact hi)⟩
          · right; refine ⟨hnone, ?_⟩
            simp only [Ret] at hret
            rcases hret with ⟨_, a1, _⟩ | ⟨_, a1, a2, _⟩ | ⟨_, a1, a2, a3⟩ | ⟨_, a1, a2, a3, a4, a5⟩ | ⟨_, a1, a2, a3⟩ |
              ⟨_, a1, _⟩ | ⟨_, a1, _⟩ | ⟨_, a1, _⟩ | ⟨_, a1, _⟩ | ⟨_, a1, _⟩
            · exfalso; rw [a1] at hpcs; simp at hpcs
            · exfalso; have := (hN.2.2.1 hi).2.1; rw [this] at a2; cases a2
            · exact ⟨_, _, a3⟩
            · exact ⟨_, _, a5⟩
            · exact ⟨_, _, a3⟩
            · exfalso; rw [a1] at hpcs; simp at hpcs
            · exfalso; rw [a1] at hpcs; simp at hpcs
            · exfalso; rw [a1] at hpcs; simp at hpcs
            · exfalso; rw [a1] at hpcs; simp at hpcs
            · exfalso; rw [a1] at hpcs; simp at hpcs)
        (by
          intro s w' l o s' hw rs sts _ hi
          left; rw [other_thread_op sts hw]; exact hi)
        ex' (.step r0 st) g2 (fun _ _ => trivial) hin ⟨el, hl1, hl2⟩ hend
      rcases this with ⟨_, _, hf⟩ | ⟨e, he, q, w, hq⟩
      · exact hf.elim
      · rw [hl1] at he; cases he; exact ⟨q, w, by rw [← hl3]; exact hq⟩

end UrcuVerif.Lfht.Conc
