import UrcuVerif.Lfht.Conc.Step
/-! # Concurrent rculfhash: replace, gc_bucket, del, resize steps and the dispatcher -/
namespace UrcuVerif.Lfht.Conc
open UrcuVerif

/-- `_cds_lfht_replace` -/
def stepRepl (_c : Cfg) (s : State) (t : Nat) (x : Thr) : Label → Option (State × Out)
  | .casRepl =>
    if x.pc = .rCas then
      if !okp s x.old then crash s else
      if s.nxt x.old = x.oldnx then
        let s1 := { s with nxt := upd (upd s.nxt x.node { ptr := x.oldnx.ptr }) x.old
                                  { ptr := x.node, rem := true, own := true },
                           L := insAfter x.old x.node s.L, life := upd s.life x.node .linked,
                           wins := upd s.wins x.old (s.wins x.old + 1) }
        some (tick (setTh s1 t { x with gbkt := s.tbl (s.hsh x.old % x.sz), gnode := x.node, gcont := .repl,
                                        pc := .gHead }), .unit)
      else let (s', o) := replTest s t x (s.nxt x.old); some (tick s', o)
    else none
  | .ldAssertR =>
    if x.pc = .rAssert then
      if !okp s x.old then crash s else
      let s1 := { s with ownRet := upd s.ownRet x.old (some s.clock) }
      match x.op with
      | .replace => some (tick (setTh s1 t { x with pc := .idle, op := .none }), .ret 0)
      | _ => some (tick (setTh s1 t { x with pc := .idle, op := .none }), .node x.old)
    else none
  | _ => none

/-- `_cds_lfht_gc_bucket` (its cmpxchg is `casGc`, shared with the helping path of add) -/
def stepGc (_c : Cfg) (s : State) (t : Nat) (x : Thr) : Label → Option (State × Out)
  | .ldHeadG =>
    if x.pc = .gHead then
      if !okp s x.gbkt then crash s else
      some (tick (setTh s t (gcPos s { x with prev := x.gbkt, iter := s.nxt x.gbkt })), .unit)
    else none
  | .ldNextG =>
    if x.pc = .gNext then
      let p := x.iter.ptr
      if !okp s p then crash s else
      let w := s.nxt p
      if w.rem then some (tick (setTh s t { x with nx := w, pc := .gCas }), .unit)
      else some (tick (setTh s t (gcPos s { x with nx := w, prev := p, iter := w })), .unit)
    else none
  | _ => none

/-- `_cds_lfht_del` and the flagging step of `remove_table_partition` -/
def stepDel (c : Cfg) (s : State) (t : Nat) (x : Thr) : Label → Option (State × Out)
  | .ldDel =>
    if x.pc = .dLd then
      if !okp s x.node then crash s else
      if (s.nxt x.node).rem then some (tick (setTh s t { x with pc := .idle, op := .none }), .ret (-ENOENT))
      else some (tick (setTh s t { x with pc := .dOr }), .unit)
    else none
  | .orRem =>
    if x.pc = .dOr then
      if !okp s x.node then crash s else
      let s1 := { s with nxt := upd s.nxt x.node { s.nxt x.node with rem := true } }
      some (tick (setTh s1 t { x with gbkt := s.tbl (s.hsh x.node % x.sz), gnode := x.node, gcont := .del,
                                      pc := .gHead }), .unit)
    else none
  | .ldAssertD =>
    if x.pc = .dAssert then
      if !okp s x.node then crash s else some (tick (setTh s t { x with pc := .dLd2 }), .unit)
    else none
  | .ldDel2 =>
    if x.pc = .dLd2 then
      if !okp s x.node then crash s else
      some (tick (setTh s t { x with v := s.nxt x.node, pc := if c.ownerByOr then .dOwnOr else .dXchg }), .unit)
    else none
  | .xchgOwn =>
    if x.pc = .dXchg then
      if !okp s x.node then crash s else
      let o := s.nxt x.node
      let s1 := { s with nxt := upd s.nxt x.node { x.v with own := true }, dels := upd s.dels x.node (s.dels x.node + 1) }
      if o.own then some (tick (setTh s1 t { x with pc := .idle, op := .none }), .ret (-ENOENT))
      else some (tick (setTh { s1 with wins := upd s.wins x.node (s.wins x.node + 1),
                                       ownRet := upd s.ownRet x.node (some s.clock) } t
                         { x with pc := .idle, op := .none }), .ret 0)
    else none
  | .orOwn =>
    if x.pc = .dOwnOr then
      if !okp s x.node then crash s else
      let s1 := { s with nxt := upd s.nxt x.node { s.nxt x.node with own := true }, dels := upd s.dels x.node (s.dels x.node + 1) }
      if x.v.own then some (tick (setTh s1 t { x with pc := .idle, op := .none }), .ret (-ENOENT))
      else some (tick (setTh { s1 with wins := upd s.wins x.node (s.wins x.node + 1),
                                       ownRet := upd s.ownRet x.node (some s.clock) } t
                         { x with pc := .idle, op := .none }), .ret 0)
    else none
  | .orBkt =>
    if x.pc = .sOr then
      if !okp s x.node then crash s else
      let s1 := { s with nxt := upd s.nxt x.node { s.nxt x.node with rem := true } }
      some (tick (setTh s1 t { x with gbkt := s.tbl (x.j - 2 ^ (x.rord - 1)), gnode := x.node, gcont := .shrink,
                                      pc := .gHead }), .unit)
    else none
  | _ => none

/-- every open read-side section began after `a` -/
def gpElapsed (c : Cfg) (s : State) (a : Nat) : Prop := ∀ u, u < c.n → ∀ b, s.cs u = some b → a < b

instance (c : Cfg) (s : State) (a : Nat) : Decidable (gpElapsed c s a) := by
  unfold gpElapsed; exact Nat.decidableBallLT _ _

/-- set up the partition phase of level `x.rord` -/
def levelPart (x : Thr) : Thr := { x with j := 2 ^ (x.rord - 1), jend := 2 ^ x.rord, nh := 0, pc := .zPart }

end UrcuVerif.Lfht.Conc
