import UrcuVerif.Lfht.Conc.InvKG
import UrcuVerif.Lfht.Conc.InvKSelf
/-!
# Concurrent rculfhash — layer K assembled (proof-only file)
-/
namespace UrcuVerif.Lfht.Conc
open UrcuVerif

/-- layer K is preserved by every step that respects the usage restriction on key `k` -/
theorem invK_step {c k hk s s' t l o} (hc : c.ownerByOr = false) (r : Reach c s) (hK : InvK k hk s)
    (st : step c s t l = some (s', o)) (ha : UniqUse k hk l) : InvK k hk s' := by
  refine ⟨GK_step hc r hK st ha, ?_⟩
  intro u
  by_cases hrec : ∃ p, l = .reclaim p
  · obtain ⟨p, rfl⟩ := hrec
    rw [reclaim_th st]; exact TK_other hc r st hK
  by_cases hu : u = t
  · subst hu
    refine ⟨TK1_self hc r hK st ha, ?_⟩
    by_cases h1 : l = .ldHeadA
    · subst h1; exact TK2_ldHeadA hc r hK st
    by_cases h2 : l = .ldNextA
    · subst h2; exact TK2_ldNextA hc r hK st
    by_cases h3 : l = .ldWalk
    · subst h3; exact TK2_ldWalk hc r hK st
    intro hsc
    exact absurd hsc (TK2_self_none hc r st h1 h2 h3 (fun p e => hrec ⟨p, e⟩))
  · rcases other_thread_pc st (Ne.symm hu) with h | ⟨_, h⟩ | ⟨_, h⟩
    · rw [h]; exact TK_other hc r st hK
    · refine ⟨fun hp => ?_, fun hs => ?_⟩
      · simp only [Pend, h] at hp; simp at hp
      · simp only [Scan, h] at hs; simp at hs
    · refine ⟨fun hp => ?_, fun hs => ?_⟩
      · simp only [Pend, h] at hp; simp at hp
      · simp only [Scan, h] at hs; simp at hs

end UrcuVerif.Lfht.Conc
